#!/bin/sh
# usage: tools/mkworktree.sh <name>   -> /tmp/vw/<name> on branch <name>, with warm build caches copied in
set -e
n="$1"
git -C /verif worktree add -q /tmp/vw/$n -b $n
mkdir -p /tmp/vw/$n/.build
cp -r /verif/.build/harness /tmp/vw/$n/.build/harness
cp -r /verif/lean/.lake /tmp/vw/$n/lean/.lake
echo /tmp/vw/$n
