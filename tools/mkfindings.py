#!/usr/bin/env python3
"""Regenerates known_findings/SUMMARY.txt (human-readable index) from known_findings/C*.json.
One line per entry:  `known: property=<id> <signature> — <what fails>`  or
`fixed: property=<id> <commit> <what failed>`.  The JSON files are the source of truth read by ./check;
fixed entries suppress nothing."""
import glob, json, os, re
ROOT = os.path.dirname(os.path.dirname(os.path.abspath(__file__)))
out = []
for p in sorted(glob.glob(os.path.join(ROOT, "known_findings", "C*.json"))):
    pid = os.path.basename(p).split(".")[0]
    for f in json.load(open(p)).get("findings", []):
        what = re.sub(r"\s+", " ", f["what"])
        if f.get("status") == "fixed":
            out.append(f"fixed: property={pid} {f.get('commit', '?')} {what}")
        else:
            out.append(f"known: property={pid} signature={f['signature']} — {what}")
open(os.path.join(ROOT, "known_findings", "SUMMARY.txt"), "w").write("\n".join(out) + "\n")
print(len(out), "entries")
