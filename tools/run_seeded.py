#!/usr/bin/env python3
"""Runs the checks against the confirmed property-breaking changes kept in /verif/seeded/<id>/.

    tools/run_seeded.py [--tree DIR] [--tier quick] [id ...]

For every seeded/<id>/ (patch.diff + meta.json {"property": "Cxx", ...}) the patch is applied to a scratch
worktree of /repo (default /tmp/seedrepo, created from /repo's HEAD when missing; /repo itself is never
touched so that running builders/checks are not disturbed), `GMQ_REPO=<tree> ./check <Cxx>` is run, the
patch is reverted, and the outcome is written to seeded/RESULTS.json / RESULTS.md:
caught-with-input (VIOLATION line with a replay from a monitor), caught-no-input (… no-failing-input-found),
or MISSED (exit 0).  Also runs every check once on the unpatched scratch tree first (must be silent)."""
import argparse, glob, json, os, re, subprocess, sys, time
ROOT = os.path.dirname(os.path.dirname(os.path.abspath(__file__)))

def sh(cmd, **kw):
    p = subprocess.run(cmd, shell=isinstance(cmd, str), stdout=subprocess.PIPE, stderr=subprocess.STDOUT, text=True, errors="replace", **kw)
    return p.returncode, p.stdout

def run_check(pid, tree, tier):
    env = dict(os.environ, GMQ_REPO=tree, VERIF_TIER=tier, GMQ_EVIDENCE_DIR=os.path.join(ROOT, ".build", "seeded-evidence"))
    t = time.time()
    rc, out = sh([os.path.join(ROOT, "check"), pid, "--tier", tier], cwd=ROOT, env=env)
    viol = [l for l in out.split("\n") if l.startswith("VIOLATION")]
    keys = []
    for v in viol:
        m = re.search(r"replay=(\S+)", v)
        if m and os.path.exists(m.group(1)):
            head = open(m.group(1)).read().split("\n")[:3]
            keys.append(next((h[4:] for h in head if h.startswith("key=")), "?"))
    return dict(rc=rc, violations=len(viol), with_input=sum(1 for v in viol if "no-failing-input-found" not in v),
                keys=keys, wall_s=round(time.time() - t, 1), tail=out[-600:] if rc not in (0, 1) else "")

def main():
    ap = argparse.ArgumentParser()
    ap.add_argument("ids", nargs="*")
    ap.add_argument("--tree", default="/tmp/seedrepo")
    ap.add_argument("--tier", default="quick")
    ap.add_argument("--props", default="", help="comma list: also run these checks for every seed (default: the seed's property only)")
    a = ap.parse_args()
    if not os.path.exists(a.tree):
        rc, out = sh(["git", "-C", "/repo", "worktree", "add", "--detach", a.tree, "HEAD"])
        if rc: print(out); return 2
    sh(["git", "-C", a.tree, "checkout", "--detach", "-q", sh(["git", "-C", "/repo", "rev-parse", "HEAD"])[1].strip()])
    sh(["git", "-C", a.tree, "checkout", "--", "."]); sh(["git", "-C", a.tree, "clean", "-fdq", "-e", "target"])
    seeds = sorted(d for d in glob.glob(os.path.join(ROOT, "seeded", "*")) if os.path.isdir(d) and os.path.exists(os.path.join(d, "patch.diff")))
    if a.ids:
        seeds = [s for s in seeds if os.path.basename(s) in a.ids]
    res_path = os.path.join(ROOT, "seeded", "RESULTS.json")
    results = json.load(open(res_path)) if os.path.exists(res_path) else {}
    base = {}
    for s in seeds:
        sid = os.path.basename(s)
        meta = json.load(open(os.path.join(s, "meta.json")))
        pids = [meta["property"]] + [p for p in a.props.split(",") if p and p != meta["property"]] + meta.get("also_check", [])
        for pid in pids:
            if pid not in base:
                base[pid] = run_check(pid, a.tree, a.tier)
                print(f"baseline {pid}: rc={base[pid]['rc']}")
        rc, out = sh(["git", "-C", a.tree, "apply", os.path.join(s, "patch.diff")])
        if rc:
            print(f"{sid}: patch does not apply: {out}"); results[sid] = dict(error="patch does not apply"); continue
        try:
            r = {pid: run_check(pid, a.tree, a.tier) for pid in dict.fromkeys(pids)}
        finally:
            sh(["git", "-C", a.tree, "checkout", "--", "."]); sh(["git", "-C", a.tree, "clean", "-fdq", "-e", "target"])
        verdict = "MISSED"
        if any(x["with_input"] for x in r.values()): verdict = "caught-with-input"
        elif any(x["violations"] for x in r.values()): verdict = "caught-no-input"
        results[sid] = dict(property=meta["property"], verdict=verdict, checks=r, baseline_rc={p: base[p]["rc"] for p in r},
                            repo_head=sh(["git", "-C", a.tree, "rev-parse", "--short", "HEAD"])[1].strip())
        print(f"{sid}: {verdict}  " + "; ".join(f"{p}: {x['violations']} viol ({x['with_input']} with input) {x['keys'][:3]}" for p, x in r.items()))
    json.dump(results, open(res_path, "w"), indent=1)
    with open(os.path.join(ROOT, "seeded", "RESULTS.md"), "w") as f:
        f.write("| seed | property | verdict | reported by |\n|---|---|---|---|\n")
        for sid, r in sorted(results.items()):
            if "error" in r: f.write(f"| {sid} | ? | {r['error']} | |\n"); continue
            ks = "; ".join(f"{p}: " + ", ".join(x["keys"][:4]) for p, x in r["checks"].items() if x["keys"])
            f.write(f"| {sid} | {r['property']} | {r['verdict']} | {ks} |\n")
    # leave /repo's registry pointing back at /repo
    sh([sys.executable, os.path.join(ROOT, "tools", "gen_registry.py")])
    return 0

if __name__ == "__main__":
    sys.exit(main())
