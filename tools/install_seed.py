import json, os, shutil, sys
cid, need = sys.argv[1], sys.argv[2]
src=f"/tmp/seedcand/{cid}"; dst=f"/verif/seeded/{cid}"
os.makedirs(dst, exist_ok=True)
for f in ("patch.diff","demo.diff","README.md","confirm.json"):
    shutil.copy(os.path.join(src,f), dst)
c=json.load(open(os.path.join(src,"confirm.json")))
assert c["confirmed"]
json.dump({"property": cid[:3].upper(), "needs": need, "origin": "fresh sub-agent given only the property text and a scratch worktree",
           "confirmed_by": "tools/confirm_seed.py (demo passes on clean tree, fails with patch, existing tests of touched crates pass with patch)",
           "ran": {"existing_tests_cmd": c["existing_tests_cmd"], "demo_tests": c["demo_tests"], "touched": c["touched"]}}, open(os.path.join(dst,"meta.json"),"w"), indent=1)
print("installed", cid)
