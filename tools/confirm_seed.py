#!/usr/bin/env python3
"""Confirms a candidate breaking change independently of whoever produced it.

    tools/confirm_seed.py <repo-worktree> <candidate-dir> [--full]

<candidate-dir> holds patch.diff (library change) and demo.diff (adds only a demonstration test).
Steps, all in <repo-worktree> (a scratch git worktree of /repo, never /repo itself):
  1. clean tree + demo           -> the demonstration must PASS
  2. clean tree + patch + demo   -> the demonstration must FAIL (and the tree must compile)
  3. clean tree + patch          -> the existing tests must PASS: the touched crates (always) and with --full the
                                    whole workspace through the baseline command (cargo nextest run --workspace)
Writes <candidate-dir>/confirm.json and prints one line.  Exit 0 iff all three hold."""
import json, os, re, subprocess, sys

def sh(cmd, cwd):
    e = dict(os.environ, CARGO_NET_OFFLINE="true")
    p = subprocess.run(cmd, cwd=cwd, shell=True, env=e, stdout=subprocess.PIPE, stderr=subprocess.STDOUT, text=True, errors="replace")
    return p.returncode, p.stdout

def main():
    wt, cand = sys.argv[1], os.path.abspath(sys.argv[2])
    full = "--full" in sys.argv
    patch, demo = os.path.join(cand, "patch.diff"), os.path.join(cand, "demo.diff")
    def clean():
        sh("git checkout -- . && git clean -fdq -e target", wt)
    demo_txt = open(demo).read()
    files = re.findall(r"^\+\+\+ b/(\S+)", demo_txt, re.M)
    tests = []   # (crate, test target or None)
    for f in files:
        m = re.match(r"([^/]+)/tests/([^/]+)\.rs$", f)
        if m: tests.append((m.group(1), m.group(2)))
    if not tests:
        crates = sorted({f.split("/")[0] for f in files})
        tests = [(c, None) for c in crates]
    touched = sorted({f.split("/")[0] for f in re.findall(r"^\+\+\+ b/(\S+)", open(patch).read(), re.M)})
    def run_demo():
        rc_all, out_all = 0, ""
        for c, t in tests:
            rc, out = sh(f"cargo test --offline -p {c} " + (f"--test {t}" if t else ""), wt)
            rc_all |= rc; out_all += out[-1500:]
        return rc_all, out_all
    res = {"touched": touched, "demo_tests": tests}
    clean()
    rc, out = sh(f"git apply {demo}", wt); assert rc == 0, out
    rc1, out1 = run_demo(); res["demo_on_clean"] = "pass" if rc1 == 0 else "FAIL"; res["demo_on_clean_tail"] = out1[-600:]
    rc, out = sh(f"git apply {patch}", wt); assert rc == 0, out
    rc2, out2 = run_demo()
    compiled = "error: could not compile" not in out2 and "error[E" not in out2
    res["demo_on_patched"] = ("fail" if rc2 != 0 else "PASS") if compiled else "DOES-NOT-COMPILE"; res["demo_on_patched_tail"] = out2[-900:]
    clean()
    rc, out = sh(f"git apply {patch}", wt); assert rc == 0, out
    cmd = "cargo nextest run --workspace --no-fail-fast --test-threads 8 --offline" if full else "cargo test --offline " + " ".join(f"-p {c}" for c in touched)
    rc3, out3 = sh(cmd, wt)
    res["existing_tests_cmd"] = cmd; res["existing_tests"] = "pass" if rc3 == 0 else "FAIL"
    res["existing_tests_tail"] = "\n".join(l for l in out3.split("\n") if re.search(r"test result|Summary|FAIL|failed", l))[-800:]
    clean()
    ok = rc1 == 0 and rc2 != 0 and compiled and rc3 == 0
    res["confirmed"] = ok
    json.dump(res, open(os.path.join(cand, "confirm.json"), "w"), indent=1)
    print(f"{cand}: demo_on_clean={res['demo_on_clean']} demo_on_patched={res['demo_on_patched']} existing={res['existing_tests']} => {'CONFIRMED' if ok else 'REJECTED'}")
    return 0 if ok else 1

if __name__ == "__main__":
    sys.exit(main())
