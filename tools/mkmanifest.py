#!/usr/bin/env python3
"""Regenerates /verif/MANIFEST.json from propcfg.py (claimed checks) and properties.jsonl."""
import json, os, sys
ROOT = os.path.dirname(os.path.dirname(os.path.abspath(__file__)))
sys.path.insert(0, ROOT)
from propcfg import PROPS
ids = [json.loads(l)["id"] for l in open(os.path.join(ROOT, "properties.jsonl"))]
checks, na = [], []
for pid in ids:
    c = PROPS.get(pid)
    if not c or not c.get("claimed", True):
        na.append({"property_id": pid, "reason": (c or {}).get("na_reason", "check not built yet in this round (design in DESIGN.md §6); not claimed until its theorems and tie exist")})
        continue
    checks.append({
        "property_id": pid,
        "quick_cmd": f"./check {pid} --tier quick",
        "thorough_cmd": f"./check {pid} --tier thorough",
        "evidence_file": f"/verif/evidence/{pid}.json",
        "replay_cmd_template": f"./check {pid} --replay {{path}}",
        "engine": "lean4-proof+correspondence",
        "level_claimed": {"category": "proof", "text": c["level_text"], "design_ref": c.get("design_ref", f"DESIGN.md §6 {pid}")},
        "level_note": c["level_note"],
        "technique": c.get("technique", "Lean 4 theorems about an executable model + differential correspondence run against the real code"),
    })
m = {
    "version": 1,
    "setup_cmd": "./setup.sh",
    "hooks": {
        "guard": "--cfg genmeta_gm_quic_verif",
        "enable": "harness/.cargo/config.toml sets rustflags = [\"--cfg\", \"genmeta_gm_quic_verif\"] for the harness build of the /repo path dependencies",
        "baseline_off_cmd": "cd /repo && (cargo nextest run --workspace --no-fail-fast --test-threads 8 --offline || cargo test --workspace --no-fail-fast --offline)",
        "source_commits": json.load(open(os.path.join(ROOT, "hooks.json"))).get("source_commits", []) if os.path.exists(os.path.join(ROOT, "hooks.json")) else [],
        "add_only": True,
    },
    "engines": [
        {"name": "lean4-proof+correspondence", "path": "/verif/check", "serves_properties": [c["property_id"] for c in checks],
         "kind_free_text": "Lean 4 kernel-checked theorems over executable models (lean/GmQuic), models tied to /repo on every run by xlate/ (generated tables) and harness/ (in-process differential run of real code vs model through a line protocol) plus independent property monitors"}
    ],
    "checks": checks,
    "not_applicable": na,
    "notes": "All checks: ./check <id> --tier quick|thorough; VERIF_SEED honoured; evidence rewritten on every run; known findings in known_findings.json.",
}
json.dump(m, open(os.path.join(ROOT, "MANIFEST.json"), "w"), indent=1)
print(f"claimed {len(checks)} / {len(ids)}")
