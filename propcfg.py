"""Per-property configuration of ./check, loaded from propcfg.d/<Cxx>.json (one file per claimed property):
runs (harness run name, optional model run name, case budgets per tier), level text, trusted base."""
import glob, json, os
_D = os.path.join(os.path.dirname(os.path.abspath(__file__)), "propcfg.d")
PROPS = {os.path.basename(p)[:-5]: json.load(open(p)) for p in sorted(glob.glob(os.path.join(_D, "C*.json")))}
