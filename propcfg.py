"""Per-property configuration of ./check: which harness runs tie the model to /repo, case budgets."""

PROPS = {
    "C08": {
        "runs": [{"name": "C08", "cases": {"quick": 20000, "thorough": 400000}}],
        "level_text": "Kernel-checked Lean theorems over an executable model of RecvBuf (single-pass insert, read, next) for ALL fragment/read histories, tied to the real qrecovery::recv::RecvBuf by an exact differential run (every observable and the segment boundaries) on generated histories; monitors check the property directly on the real trace.",
        "level_note": "Trusted: Lean kernel (+propext, Quot.sound, Classical.choice), the hand-written model GmQuic/Model/RecvBuf.lean (validated, not derived), the harness generator coverage, Bytes slicing modelled as List.drop/take.",
        "trusted_base": ["Bytes/BytesMut slicing (data.advance/split_to/split_off) modelled as List.drop/take"],
        "assumptions": ["fragments are slices of one source byte string (the property's premise)"],
    },
}
