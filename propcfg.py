"""Per-property configuration of ./check, loaded from propcfg.d/<Cxx>.json plus optional fragments
propcfg.d/<Cxx>.<part>.json (runs / trusted_base / assumptions lists are concatenated).
Keys: runs [{name, drv, model?, cases{quick,thorough}, args?, timeout?}], level_text, level_note, technique?,
trusted_base [], assumptions []."""
import glob, json, os
_D = os.path.join(os.path.dirname(os.path.abspath(__file__)), "propcfg.d")
PROPS = {}
for p in sorted(glob.glob(os.path.join(_D, "C*.json"))):
    pid = os.path.basename(p).split(".")[0]
    j = json.load(open(p))
    c = PROPS.setdefault(pid, {})
    for k, v in j.items():
        if isinstance(v, list):
            c.setdefault(k, [])
            c[k] = c[k] + v
        elif k not in c or os.path.basename(p) == pid + ".json":
            c[k] = v
