import GmQuic.Drv.Core
import GmQuic.Drv.C08
/-! `gmq_model <property>`: replays a harness transcript (stdin) on the Lean model. -/
open GmQuic.Drv

def main (args : List String) : IO UInt32 := do
  match args with
  | ["C08"] => runModel C08.model
  | _ => do
    IO.eprintln "usage: gmq_model <Cxx>  < transcript"
    return 2
