import GmQuic.Props.C06.KeyPhase
import GmQuic.Props.C06.Layout
import GmQuic.Lemmas.ProtectWitness
/-! C06: non-vacuity of the key-phase and layout theorems. -/
namespace GmQuic.Protect
open GmQuic.Wire GmQuic.Pn GmQuic.Codec

def kcfg : RxCfg Nat Nat := ⟨false, fun _ => 0, fun _ => 0, fun g => (100 + g, 200 + g)⟩

/-- after one key update the previous generation is still inside the window … -/
example : InWindow ((OneRtt.init 7 8).update kcfg) 0 := Or.inr ⟨rfl, by decide⟩
/-- … and a late packet of generation 0 gets key 7 while the state stays at generation 1 -/
example : ((OneRtt.init 7 8).update kcfg).getRemote kcfg (phaseOf 0) = ((OneRtt.init 7 8).update kcfg, some 7) :=
  window_key 7 kcfg _ 0 (synced_update 7 kcfg _ (synced_init 7 8 kcfg)) (Or.inr ⟨rfl, by decide⟩)
/-- reordering 1,0,0,1,0 around the update -/
example : ([1, 0, 0, 1, 0].foldl (fun s g => (s.getRemote kcfg (phaseOf g)).1) ((OneRtt.init 7 8).update kcfg))
    = (OneRtt.init 7 8).update kcfg :=
  (reordered_window_keys 7 kcfg _ [1, 0, 0, 1, 0] (synced_update 7 kcfg _ (synced_init 7 8 kcfg))
    (by intro g hg
        have : g = 1 ∨ g = 0 := by simp at hg; omega
        rcases this with rfl | rfl
        · exact Or.inl rfl
        · exact Or.inr ⟨rfl, by decide⟩)).1
/-- first packet of generation 1 on a fresh state performs the update -/
example : (OneRtt.init 7 8).getRemote kcfg (phaseOf 1) = ((OneRtt.init 7 8).update kcfg, some 100) :=
  next_generation_key 7 kcfg _ (synced_init 7 8 kcfg) rfl
/-- once the old key is phased out, generation 0 is outside the window: the phase-0 bit now means generation 2 -/
example : (((OneRtt.init 7 8).update kcfg).phaseOut.getRemote kcfg (phaseOf 0)).2 = some 101 := by decide

/-- an Initial header with a 64-byte token (2-byte length varint) and a 20-byte dcid: size 93, payload offset 95 -/
example : payloadOffset 16 (txOfHeader (.initial (List.replicate 20 3) [] (List.replicate 64 5)) .initial 1 (.u16 1) false [1]) = 95 :=
  layout_of_header _ _ _ _ _ _ 16 93 rfl (by decide)

end GmQuic.Protect
