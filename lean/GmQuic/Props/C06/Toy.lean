import GmQuic.Props.C06.Witness
import GmQuic.Lemmas.ProtectToy
/-!
C06: the transparent keyed toy cipher that the harness plugs into the real code (`harness/src/c06.rs`,
`Model/Protect.lean` `toyAead`/`toyHp`) is a correct AEAD in the sense of `CorrectAt` for EVERY key, nonce, AAD
and plaintext, and works "in place" (`SealLen`).  So `open_seal_packet` applies to every packet the
correspondence run compares.  (Its *integrity* is a 128-bit FNV checksum: not claimed; `IdealFor` is a hypothesis.)
-/
namespace GmQuic.Protect
open GmQuic.Wire GmQuic.Pn

theorem toy_sealLen : SealLen toyAead := by
  intro k n a p
  simp [toyAead, ksXor_length, toyTag_length]

/-- **toy_correct**: `decrypt_in_place (encrypt_in_place p) = p` for the harness cipher, all inputs. -/
theorem toy_correct (k n : Nat) (a p : Bytes) : CorrectAt toyAead k n a p := by
  unfold CorrectAt
  have hl : (ksXor k n 0 p ++ toyTag k n a p).length - 16 = (ksXor k n 0 p).length := by
    simp [toyTag_length]
  simp only [toyAead]
  rw [if_neg (by simp [toyTag_length])]
  simp only [hl, List.take_left', List.drop_left', ksXor_invol, if_true]

/-- the toy mask is 5 bytes long, as `xor_in_place` requires -/
theorem toy_mask_length (h : Nat) (sample : Bytes) : (toyHp.mask h sample).length = 5 := by
  simp [toyHp]

end GmQuic.Protect
