import GmQuic.Props.C06.Multi
import GmQuic.Lemmas.ProtectWitness
/-!
C06: NON-VACUITY of the multi-packet hypotheses: a lookup-table cipher over THREE sealed packets (a Handshake packet,
a 1-RTT packet with key phase 1, a 1-RTT packet with key phase 0) satisfies `CorrectOver` AND `IdealOver` at once, the
sender history is `SentOk`, and the theorems apply.  (The harness's toy cipher `toyAead` is proved CORRECT for all
inputs — `toy_correct` — but is NOT ideal: its tag is a checksum anyone can recompute.)
-/
namespace GmQuic.Protect
open GmQuic.Wire GmQuic.Pn

def t2 : TxPkt := ⟨.oneRtt, 0x40, [1, 2, 3, 4, 5, 6, 7, 8], 10, .u16 10, false, List.replicate 8 0x03⟩
def pkt2 : Bytes := [0x41, 1, 2, 3, 4, 5, 6, 7, 8, 0, 10] ++ List.replicate 8 0x03 ++ List.replicate 16 0xAA

def sent3 : List (SentPkt Unit) := [⟨(), t0, pkt0, 9⟩, ⟨(), t1, pkt1, 9⟩, ⟨(), t2, pkt2, 9⟩]
/-- the table cipher over the three sealed tuples -/
def A3 : Aead Unit := tableAead nullAead (sealedOf nullAead sent3)

theorem null_seal_inj : ∀ (k : Unit) (n : Nat) (a p p' : Bytes), nullAead.aseal k n a p = nullAead.aseal k n a p' → p = p' := by
  intro _ _ _ p p' h; exact List.append_cancel_right h

/-- both hypotheses hold together, for three packets -/
theorem correct_and_ideal_three : CorrectOver A3 (sealedOf A3 sent3) ∧ IdealOver A3 (sealedOf A3 sent3) :=
  ⟨tableAead_correctOver nullAead _ null_seal_inj, tableAead_idealOver nullAead _⟩

theorem sentOk_three : SentOk A3 zeroHp (cfg0 false) sent3 := by
  intro e he
  simp only [sent3, List.mem_cons, List.mem_nil_iff, or_false] at he
  rcases he with rfl | rfl | rfl
  · exact ⟨wf0, by decide⟩
  · exact ⟨wf1, by decide⟩
  · exact ⟨⟨by decide, by decide⟩, by decide⟩

/-- all three are accepted (in this order: key phase 1 first, then the older phase-0 packet — a reordering around a
key update), each with its own pn / phase / payload … -/
example :
    (receive A3 zeroHp (cfg0 false) (fun _ => .ok 5) s0 pkt0 9).1 = .accepted .handshake 5 false (aadOf 16 t0) t0.body ∧
    (receive A3 zeroHp (cfg0 false) (fun _ => .ok 9) s0 pkt1 9).1 = .accepted .oneRtt 9 true (aadOf 16 t1) t1.body ∧
    (receive A3 zeroHp (cfg0 false) (fun _ => .ok 10) (receive A3 zeroHp (cfg0 false) (fun _ => .ok 9) s0 pkt1 9).2 pkt2 9).1
      = .accepted .oneRtt 10 false (aadOf 16 t2) t2.body := by decide

/-- … and nothing else is: any byte string that is none of the three is rejected silently, in every key state -/
example (s : OneRtt Unit) (buf' : Bytes) (off' : Nat) (h : buf' ≠ pkt0 ∧ buf' ≠ pkt1 ∧ buf' ≠ pkt2) :
    (receive A3 zeroHp (cfg0 false) (fun _ => .ok 9) s buf' off').1 ≠ .connError ∧
    (receive A3 zeroHp (cfg0 false) (fun _ => .ok 9) s buf' off').1.isAccepted = false :=
  modified_silently_dropped_multi A3 zeroHp (cfg0 false) _ s sent3 rfl sentOk_three correct_and_ideal_three.2 buf' off'
    (by intro e he
        simp only [sent3, List.mem_cons, List.mem_nil_iff, or_false] at he
        rcases he with rfl | rfl | rfl
        · exact h.1
        · exact h.2.1
        · exact h.2.2)

end GmQuic.Protect
