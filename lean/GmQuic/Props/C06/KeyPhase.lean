import GmQuic.Props.C06.Integrity
import GmQuic.Lemmas.ProtectState
/-!
C06, key phases: the receiver's `OneRttPacketKeys` state machine across key updates with ARBITRARY arrival order.

Sender generations `g = 0, 1, 2, …` use key `keyOf k0 c g` and key-phase bit `phaseOf g = g mod 2`.  The receiver
state is `Synced` with the sender (current slot = key of its generation `gen`, other slot = empty or the previous
generation's key) — an invariant of EVERY history of received phase bits (genuine or forged), `phase_out` and local
`update` calls.  The retention window of a synced state is `{gen}`, plus `gen − 1` while it is retained, plus `gen + 1`
once the previous key was discarded (that arrival performs the key update).
-/
namespace GmQuic.Protect
open GmQuic.Wire GmQuic.Pn

/-- what can happen to the key state -/
inductive KOp
  | rx (kp : Bool)     -- a packet with key-phase bit `kp` reached `get_remote` (authentic or not)
  | phaseOut           -- `phase_out()`
  | update             -- local `update()`

def kstep {K H : Type} (c : RxCfg K H) (s : OneRtt K) : KOp → OneRtt K
  | .rx kp => (s.getRemote c kp).1
  | .phaseOut => s.phaseOut
  | .update => s.update c

/-- **keys_synced_all_histories**: whatever arrives in whatever order, the key state stays consistent with the
sender's key schedule (never a slot holding a key of the wrong generation, `cur_phase` = parity of the generation). -/
theorem keys_synced_all_histories {K H : Type} (k0 l0 : K) (c : RxCfg K H) (ops : List KOp) :
    Synced k0 c (ops.foldl (kstep c) (OneRtt.init k0 l0)) := by
  suffices h : ∀ s, Synced k0 c s → Synced k0 c (ops.foldl (kstep c) s) from h _ (synced_init k0 l0 c)
  induction ops with
  | nil => intro s h; exact h
  | cons op ops ih =>
    intro s h
    apply ih
    cases op with
    | rx kp => exact synced_getRemote k0 c s kp h
    | phaseOut => exact synced_phaseOut k0 c s h
    | update => exact synced_update k0 c s h

/-- generation `g` is inside the retention window of `s` (current, or previous and still retained) -/
def InWindow {K : Type} (s : OneRtt K) (g : Nat) : Prop :=
  g = s.gen ∨ (g + 1 = s.gen ∧ s.remote (!s.cur) ≠ none)

/-- **window_key**: a packet of a generation inside the window gets exactly its sealing key and leaves the key
state untouched. -/
theorem window_key {K H : Type} (k0 : K) (c : RxCfg K H) (s : OneRtt K) (g : Nat)
    (h : Synced k0 c s) (hw : InWindow s g) :
    s.getRemote c (phaseOf g) = (s, some (keyOf k0 c g)) := by
  rcases hw with rfl | ⟨hg, hr⟩
  · rw [← h.cur, getRemote_cur, h.now]
  · have hp : phaseOf g = !s.cur := by
      rw [h.cur, ← hg, phaseOf_succ]; simp
    rcases h.prev with hn | ⟨_, hs⟩
    · exact absurd hn hr
    · rw [hp, getRemote_other_some c s _ hs]
      have : s.gen - 1 = g := by omega
      rw [this]

/-- **next_generation_key**: once the previous key was discarded, the first packet of the next generation performs
the key update and gets the next generation's key. -/
theorem next_generation_key {K H : Type} (k0 : K) (c : RxCfg K H) (s : OneRtt K)
    (h : Synced k0 c s) (hn : s.remote (!s.cur) = none) :
    s.getRemote c (phaseOf (s.gen + 1)) = (s.update c, some (keyOf k0 c (s.gen + 1))) := by
  have hp : phaseOf (s.gen + 1) = !s.cur := by rw [phaseOf_succ, h.cur]
  rw [hp, getRemote_other_none c s hn]
  have hu := synced_update k0 c s h
  have : (s.update c).cur = !s.cur := by simp [OneRtt.update]
  rw [← this, hu.now]
  simp [OneRtt.update]

/-- **reordered_window_recovered** (key selection part): any sequence — any order, any repetitions — of packets of
generations inside the window is served the right key each, and the key state does not move. -/
theorem reordered_window_keys {K H : Type} (k0 : K) (c : RxCfg K H) (s : OneRtt K) (gs : List Nat)
    (h : Synced k0 c s) (hw : ∀ g ∈ gs, InWindow s g) :
    gs.foldl (fun s g => (s.getRemote c (phaseOf g)).1) s = s ∧
    ∀ g ∈ gs, (s.getRemote c (phaseOf g)).2 = some (keyOf k0 c g) := by
  constructor
  · induction gs with
    | nil => rfl
    | cons g gs ih =>
      simp only [List.foldl_cons]
      rw [window_key k0 c s g h (hw g (by simp))]
      exact ih (fun g' hg' => hw g' (by simp [hg']))
  · intro g hg
    rw [window_key k0 c s g h (hw g hg)]

/-- **open_seal_packet_phase**: every 1-RTT packet sealed by the sender under generation `g` (key `keyOf g`, phase
bit `g mod 2`) is recovered bit for bit by a synced receiver that has / retains the keys of `g` — in whatever order
it arrives relative to other packets of the window (the state is unchanged, so the statement composes). -/
theorem open_seal_packet_phase {K H : Type} (A : Aead K) (P : Hp H) (c : RxCfg K H) (dec : PacketNumber → DecodePn)
    (k0 : K) (s : OneRtt K) (g : Nat) (t : TxPkt) (pkt : Bytes) (off : Nat) (w : WfHdr t)
    (hty : t.ptype = .oneRtt) (hkp : t.keyPhase = phaseOf g)
    (hs : Synced k0 c s) (hw : InWindow s g)
    (hp : protect A P (keyOf k0 c g) (c.hpKey t.ptype) t = .ok pkt off)
    (hc : CorrectAt A (keyOf k0 c g) t.pn (aadOf A.tagLen t) t.body)
    (hdec : dec (truncWire t.enc) = .ok t.pn) :
    receive A P c dec s pkt off = (.accepted .oneRtt t.pn (phaseOf g) (aadOf A.tagLen t) t.body, s) := by
  have hk : kpOf t = phaseOf g := by simp [kpOf, hty, hkp]
  have hkey : rxKey c s t.ptype (kpOf t) = (s, some (keyOf k0 c g)) := by
    unfold rxKey; rw [if_pos hty, hk]; exact window_key k0 c s g hs hw
  have h1 := open_seal_packet A P c dec s (keyOf k0 c g) t pkt off w hp hc (by rw [hkey]) hdec
  have h2 := accepted_state A P c dec s pkt off _ _ _ _ _ h1
  rw [hty] at h2
  have h3 : rxKey c s .oneRtt (kpOf t) = (s, some (keyOf k0 c g)) := by rw [← hty]; exact hkey
  rw [h3] at h2
  rw [hty, hk] at h1
  exact Prod.ext h1 h2

end GmQuic.Protect
