import GmQuic.Props.C06.RoundTrip
import GmQuic.Lemmas.ProtectHeader
/-!
C06 ↔ C05: header size ↔ layout offsets.  The header is no longer opaque: `PacketWriter::new_*` lays the packet out
from `EncodeHeader::size` (`headerSize`), `put_header` writes `encHeader h`; the receiver's parser (`decHeader`, run on
the PROTECTED bytes, as `be_packet` does) must return the same header and stop exactly at the payload offset the
sender used.  Initial headers with ANY token length (1-, 2-, 4-, 8-byte length varint), cids of any length ≤ 20.
-/
namespace GmQuic.Protect
open GmQuic.Wire GmQuic.Pn GmQuic.Codec

/-- **wf_of_header**: `WfHdr` is not an assumption for headers written by `put_header`. -/
theorem wf_of_header (h : Header) (ty : PType) (pn : Nat) (enc : PacketNumber) (kp : Bool) (body : Bytes)
    (hty : ptypeOfHeader h = some ty) : WfHdr (txOfHeader h ty pn enc kp body) := by
  cases h with
  | initial d s tok =>
    simp [ptypeOfHeader] at hty; subst hty
    constructor <;> simp only [txOfHeader, encHeader, Header.type, encPType, List.cons_append, List.headD_cons] <;> decide
  | zeroRtt d s =>
    simp [ptypeOfHeader] at hty; subst hty
    constructor <;> simp only [txOfHeader, encHeader, Header.type, encPType, List.cons_append, List.headD_cons] <;> decide
  | handshake d s =>
    simp [ptypeOfHeader] at hty; subst hty
    constructor <;> simp only [txOfHeader, encHeader, Header.type, encPType, List.cons_append, List.headD_cons] <;> decide
  | oneRtt spin d =>
    simp [ptypeOfHeader] at hty; subst hty
    cases spin <;> constructor <;> simp only [txOfHeader, encHeader, Header.type, encPType, List.cons_append, List.headD_cons] <;> decide
  | vn d s vs => simp [ptypeOfHeader] at hty
  | retry d s tok integ => simp [ptypeOfHeader] at hty

/-- **layout_of_header**: the payload offset of the protected packet is the declared header size plus the Length
field — for every token length class and every cid length. -/
theorem layout_of_header (h : Header) (ty : PType) (pn : Nat) (enc : PacketNumber) (kp : Bool) (body : Bytes)
    (tagLen n : Nat) (hty : ptypeOfHeader h = some ty) (hn : headerSize h = some n) :
    payloadOffset tagLen (txOfHeader h ty pn enc kp body) = n + (if ty = .oneRtt then 0 else 2) := by
  have hl0 := size_enc_header h n hn
  have hpos : 1 ≤ (encHeader h).length := by rw [encHeader_cons h ty hty]; simp
  simp only [payloadOffset, txOfHeader, lenField, List.length_append]
  by_cases ho : ty = .oneRtt <;> simp [ho, encVarintW] <;> omega

end GmQuic.Protect

namespace GmQuic.Protect
open GmQuic.Wire GmQuic.Pn GmQuic.Codec

/-- **header_parsed_from_protected**: `be_packet_type` + `be_header` run on the PROTECTED packet return exactly the
header the sender wrote and stop at the declared header size; the payload offset is that size plus the Length field.
Any header-protection mask, any AEAD. -/
theorem header_parsed_from_protected {K H : Type} (A : Aead K) (P : Hp H) (k : K) (hk : H)
    (h : Header) (ty : PType) (pn : Nat) (enc : PacketNumber) (kp : Bool) (body : Bytes)
    (pkt : Bytes) (off n dcidLen : Nat)
    (hty : ptypeOfHeader h = some ty) (hn : headerSize h = some n) (hwf : wfHeader h = true)
    (hd : ∀ spin d, h = .oneRtt spin d → dcidLen = d.length)
    (hp : protect A P k hk (txOfHeader h ty pn enc kp body) = .ok pkt off) :
    decHeader dcidLen pkt = .ok h (pkt.drop n) ∧ off = n + (if ty = .oneRtt then 0 else 2) := by
  have w := wf_of_header h ty pn enc kp body hty
  obtain ⟨sp, v⟩ := protect_view A P k hk _ pkt off w hp
  have s0 := split_some v.hsplit
  have hoff : off = n + (if ty = .oneRtt then 0 else 2) := by
    have hl := layout_of_header h ty pn enc kp body A.tagLen n hty hn
    unfold protect at hp
    simp only at hp
    split at hp
    · simp at hp
    · split at hp
      · simp at hp
      · split at hp
        · simp at hp
        · split at hp
          · simp at hp
          · simp only [TxRes.ok.injEq] at hp
            rw [← hp.2, hl]
  refine ⟨?_, hoff⟩
  -- the middle of the split is the rest of the header plus the Length field
  have hmid : sp.mid = (encHeader h).tail ++ lenField A.tagLen (txOfHeader h ty pn enc kp body) := by
    have ha := v.haad
    simp only [Unmasked.aad, aadOf, List.cons_append] at ha
    have ha2 := (List.cons.inj ha).2
    rw [v.hlen, v.hpn] at ha2
    exact List.append_cancel_right ha2
  have hbits := protected_first_bits _ w sp.first _ v.hfirst
  have hpk : pkt = sp.first :: ((encHeader h).tail ++ (lenField A.tagLen (txOfHeader h ty pn enc kp body) ++ sp.pn4 ++ sp.tail)) := by
    rw [← s0.1, Split.join, hmid]; simp [List.append_assoc]
  have henc := encHeader_cons h ty hty
  have hlen := size_enc_header h n hn
  have hdel : h.delimited = true := by cases h <;> simp [ptypeOfHeader] at hty <;> rfl
  have hdec := dec_enc_header h dcidLen
    (lenField A.tagLen (txOfHeader h ty pn enc kp body) ++ sp.pn4 ++ sp.tail) hwf hd (Or.inl hdel)
  rw [henc] at hdec
  have hdrop : pkt.drop n = lenField A.tagLen (txOfHeader h ty pn enc kp body) ++ sp.pn4 ++ sp.tail := by
    rw [hpk, ← List.cons_append]
    apply List.drop_left'
    rw [henc] at hlen
    simpa using hlen
  rw [hdrop, hpk]
  unfold decHeader at hdec ⊢
  rw [decPType_congr ((encHeader h).headD 0) sp.first _ hbits.1 hbits.2.1 hbits.2.2]
  exact hdec

end GmQuic.Protect
