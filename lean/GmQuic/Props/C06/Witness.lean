import GmQuic.Props.C06.Integrity
import GmQuic.Lemmas.ProtectWitness
/-!
C06: the defect witness (`modified_silently_dropped_fails`), non-vacuity instances for every theorem with
hypotheses, the link to C07's packet-number codec, and the toy cipher of the harness satisfies AEAD correctness.
-/
namespace GmQuic.Protect
open GmQuic.Wire GmQuic.Pn

/-! ### non-vacuity: every hypothesis set is inhabited (long header, and short header with a key update) -/

example : (receive A0 zeroHp (cfg0 false) (fun _ => .ok 5) s0 pkt0 9).1
    = .accepted .handshake 5 false (aadOf 16 t0) t0.body :=
  open_seal_packet A0 zeroHp (cfg0 false) (fun _ => .ok 5) s0 () t0 pkt0 9 wf0 hp0
    (restrict_correctAt nullAead () _ _ _) rfl rfl

example : (receive A1 zeroHp (cfg0 true) (fun _ => .ok 9) s0 pkt1 9).1
    = .accepted .oneRtt 9 true (aadOf 16 t1) t1.body :=
  open_seal_packet A1 zeroHp (cfg0 true) (fun _ => .ok 9) s0 () t1 pkt1 9 wf1 hp1
    (restrict_correctAt nullAead () _ _ _) rfl rfl

example : ∃ sp, split pkt1 9 = some sp ∧ (unmask (zeroHp.mask () (sp.tail.take 16)) sp).pnLen = 2 := by
  obtain ⟨sp, h1, _, h3, _⟩ := unprotect_protect A1 zeroHp () () t1 pkt1 9 wf1 hp1
  exact ⟨sp, h1, h3⟩

example (i : Nat) (h : i < 8 * pkt0.length) (off' : Nat) :
    (receive A0 zeroHp (cfg0 true) (fun _ => .ok 5) s0 (flipBit i pkt0) off').1.isAccepted = false :=
  any_bitflip_rejected A0 zeroHp (cfg0 true) (fun _ => .ok 5) s0 () t0 pkt0 9 wf0 hp0 ideal0 i h off'

example (buf' : Bytes) (off' : Nat) (h : buf' ≠ pkt1) :
    (receive A1 zeroHp (cfg0 false) (fun _ => .ok 9) s0 buf' off').1 ≠ .connError :=
  (modified_silently_dropped A1 zeroHp (cfg0 false) (fun _ => .ok 9) s0 () t1 pkt1 9 rfl wf1 hp1 ideal1 buf' off' h).1

/-! ### the defect: order of the unchanged tree -/

/-- **modified_silently_dropped_fails**: with the reserved bits checked before the AEAD open (unchanged
`remove_protection_of_*_packet` + `CipherPacket::decrypt_*`), flipping the reserved bit 0x08 of the first byte of
a valid Handshake packet yields a PROTOCOL_VIOLATION connection error instead of a silent drop. -/
theorem modified_silently_dropped_fails : ¬ SilentlyDropped true := by
  intro h
  have := (h A0 zeroHp (cfg0 true) (fun _ => .ok 5) s0 () t0 pkt0 9 rfl wf0 hp0 ideal0
    (flipBit 4 pkt0) 9 (by decide)).1
  exact this (by decide)

/-- the same flipped packet under the RFC order: dropped -/
example : (receive A0 zeroHp (cfg0 false) (fun _ => .ok 5) s0 (flipBit 4 pkt0) 9).1 = .dropped .decryptFail := by
  decide

/-! ### reported, not part of the property: `get_remote` updates the key state BEFORE authentication -/

/-- a 1-RTT packet with key-phase bit 1 whose tag was corrupted (bit 152 = first tag byte) is dropped, yet the
receiver's `OneRttPacketKeys` has toggled `cur_phase` and installed the next keys (RFC 9001 §6.3 asks to update
only after a packet was successfully decrypted with the new keys). -/
example : (receive A1 zeroHp (cfg0 false) (fun _ => .ok 9) s0 (flipBit 152 pkt1) 9).1 = .dropped .decryptFail
    ∧ (receive A1 zeroHp (cfg0 false) (fun _ => .ok 9) s0 (flipBit 152 pkt1) 9).2.cur = true
    ∧ s0.cur = false := by decide

/-! ### link to C07: the receiver's journal decodes the wire pn to the sender's pn -/

/-- `hdec` of `open_seal_packet` discharged from C07's `decode_encode`: the sender truncated `pn` against its
largest acknowledged `la`, the receiver's journal expects `r.largest ∈ [la+1, pn]`, has not seen `pn`, and has
not slid past it. -/
theorem journal_decodes_sent_pn (r : Rcvd) (pn la : Nat) (e : PacketNumber)
    (henc : encode pn la = .ok e)
    (hpn : pn < 2 ^ 62) (hla : la < pn) (hgap : pn - la < 2 ^ 31)
    (hlo : la + 1 ≤ r.largest) (hhi : r.largest ≤ pn)
    (hoff : r.offset ≤ pn) (hseen : r.seen pn = false) :
    r.decodePn (truncWire e) = .ok pn := by
  have h := decode_encode pn la r.largest [] hpn hla hgap hlo hhi
  unfold decodeEncodeWire at h
  rw [henc] at h
  simp only [Res.bind, viaWire_eq] at h
  unfold Rcvd.decodePn
  rw [h]
  simp only
  rw [if_neg (by omega), hseen]
  simp

example : (Rcvd.mk 3 [true, false]).decodePn (truncWire (.u16 5)) = .ok 5 :=
  journal_decodes_sent_pn ⟨3, [true, false]⟩ 5 4 (.u16 5) (by decide) (by decide) (by decide) (by decide)
    (by decide) (by decide) (by decide) (by decide)

end GmQuic.Protect
