import GmQuic.Props.C06.KeyPhase
import GmQuic.Lemmas.ProtectMulti
/-!
C06, multi-packet form: whatever the receive path accepts is ONE OF the sender's sealed packets, bit for bit, under its
own packet number, key and key phase — for every list of sealed packets (any number, any types, any keys, hence across
key updates), every receiver key state (every history of the key-state machine), every pn decoder, every parse.

Hypotheses: `IdealOver A S` with `S` = the AEAD inputs of the packets the sender protected (INT-CTXT relative to what
was sealed).  Jointly satisfiable with `CorrectOver A S` for every `S` (`tableAead_*`, witness in `Witness3.lean`); the
single-packet theorems of `Integrity.lean` are the case `S = [x]` (`idealFor_of_idealOver`, `accepted_only_original_from_multi`).
-/
namespace GmQuic.Protect
open GmQuic.Wire GmQuic.Pn

/-- one packet the sender protected: key, what went into `PacketWriter`, the protected bytes, the payload offset -/
structure SentPkt (K : Type) where
  k : K
  t : TxPkt
  pkt : Bytes
  off : Nat

def SentPkt.sealed {K : Type} (tagLen : Nat) (e : SentPkt K) : Sealed K := ⟨e.k, e.t.pn, aadOf tagLen e.t, e.t.body⟩

/-- the sender's history: every entry is a `put_header` header protected by `encrypt_and_protect_packet` under the
header-protection key of its packet type -/
def SentOk {K H : Type} (A : Aead K) (P : Hp H) (c : RxCfg K H) (sent : List (SentPkt K)) : Prop :=
  ∀ e ∈ sent, WfHdr e.t ∧ protect A P e.k (c.hpKey e.t.ptype) e.t = .ok e.pkt e.off

/-- the AEAD inputs the sender sealed -/
def sealedOf {K : Type} (A : Aead K) (sent : List (SentPkt K)) : List (Sealed K) := sent.map (SentPkt.sealed A.tagLen)

/-- the receiver opened something: it is one of the sent packets -/
theorem opened_is_sent {K H : Type} (A : Aead K) (P : Hp H) (c : RxCfg K H) (sent : List (SentPkt K))
    (hs : SentOk A P c sent) (hi : IdealOver A (sealedOf A sent))
    (buf' : Bytes) (off' : Nat) (sp' : Split) (ty' : PType) (k' : K) (pn' : Nat) (body' : Bytes)
    (hsp : split buf' off' = some sp') (hty : typeOfFirst sp'.first = some ty')
    (ho : A.aopen k' pn' ((unmask (P.mask (c.hpKey ty') (sp'.tail.take 16)) sp').aad sp')
            ((unmask (P.mask (c.hpKey ty') (sp'.tail.take 16)) sp').ct sp') = some body') :
    ∃ e ∈ sent, buf' = e.pkt ∧ off' = e.off ∧ ty' = e.t.ptype ∧ k' = e.k ∧ pn' = e.t.pn ∧ body' = e.t.body ∧
      (unmask (P.mask (c.hpKey ty') (sp'.tail.take 16)) sp').aad sp' = aadOf A.tagLen e.t := by
  obtain ⟨x, hx, h1, h2, h3, h4, h5⟩ := hi _ _ _ _ _ ho
  simp only [sealedOf, List.mem_map] at hx
  obtain ⟨e, he, rfl⟩ := hx
  simp only [SentPkt.sealed] at h1 h2 h3 h4
  obtain ⟨w, hp⟩ := hs e he
  obtain ⟨a1, a2, a3⟩ := opened_eq_sealed A P c e.k e.t e.pkt e.off w hp buf' off' sp' ty' hsp hty h3.symm
    (by rw [h5, ← h1, ← h2, ← h3, ← h4])
  exact ⟨e, he, a1, a2, a3, h1.symm, h2.symm, h4.symm, h3.symm⟩

/-- **accepted_is_sealed** (multi-packet `accepted_only_original`): an accepted byte string is one of the sender's
packets, parsed at its offset, with its type, packet number, key phase, AAD (= header) and payload, opened with its key. -/
theorem accepted_is_sealed {K H : Type} (A : Aead K) (P : Hp H) (c : RxCfg K H) (dec : PacketNumber → DecodePn)
    (s : OneRtt K) (sent : List (SentPkt K)) (hs : SentOk A P c sent) (hi : IdealOver A (sealedOf A sent))
    (buf' : Bytes) (off' : Nat) (ty' : PType) (pn' : Nat) (kp' : Bool) (aad' body' : Bytes)
    (h : (receive A P c dec s buf' off').1 = .accepted ty' pn' kp' aad' body') :
    ∃ e ∈ sent, buf' = e.pkt ∧ off' = e.off ∧ ty' = e.t.ptype ∧ pn' = e.t.pn ∧ kp' = kpOf e.t ∧
      aad' = aadOf A.tagLen e.t ∧ body' = e.t.body ∧ (rxKey c s ty' kp').2 = some e.k := by
  obtain ⟨sp', k', a⟩ := accepted_inv A P c dec s buf' off' ty' pn' kp' aad' body' h
  have ho := a.hopen
  rw [a.haad] at ho
  obtain ⟨e, he, b1, b2, b3, b4, b5, b6, b7⟩ := opened_is_sent A P c sent hs hi buf' off' sp' ty' k' pn' body' a.hsplit a.hty ho
  refine ⟨e, he, b1, b2, b3, b5, ?_, by rw [a.haad, b7], b6, by rw [a.hkey, b4]⟩
  have hf : (unmask (P.mask (c.hpKey ty') (sp'.tail.take 16)) sp').first = encodeFirst e.t := by
    have := b7
    simp only [Unmasked.aad, aadOf, List.cons_append] at this
    exact (List.cons.inj this).1
  rw [a.hkp, hf]
  unfold kpOf
  exact decide_eq_decide.mpr (first_keyPhase (hs e he).1)

/-- **unsent_never_accepted** (multi-packet `any_bitflip_rejected`): bytes that are not one of the sent packets —
a flipped bit, a truncation, a splice of two packets, anything — deliver no frames. -/
theorem unsent_never_accepted {K H : Type} (A : Aead K) (P : Hp H) (c : RxCfg K H) (dec : PacketNumber → DecodePn)
    (s : OneRtt K) (sent : List (SentPkt K)) (hs : SentOk A P c sent) (hi : IdealOver A (sealedOf A sent))
    (buf' : Bytes) (off' : Nat) (hne : ∀ e ∈ sent, buf' ≠ e.pkt) :
    (receive A P c dec s buf' off').1.isAccepted = false := by
  cases hr : (receive A P c dec s buf' off').1 with
  | accepted ty' pn' kp' aad' body' =>
    obtain ⟨e, he, h1, _⟩ := accepted_is_sealed A P c dec s sent hs hi _ _ _ _ _ _ _ hr
    exact absurd h1 (hne e he)
  | _ => rfl

/-- **any_bitflip_rejected_multi**: every single-bit flip of a sent packet is rejected unless the flipped string is
itself another packet the sender produced. -/
theorem any_bitflip_rejected_multi {K H : Type} (A : Aead K) (P : Hp H) (c : RxCfg K H) (dec : PacketNumber → DecodePn)
    (s : OneRtt K) (sent : List (SentPkt K)) (hs : SentOk A P c sent) (hi : IdealOver A (sealedOf A sent))
    (e : SentPkt K) (i : Nat) (off' : Nat) (hfresh : ∀ e' ∈ sent, flipBit i e.pkt ≠ e'.pkt) :
    (receive A P c dec s (flipBit i e.pkt) off').1.isAccepted = false :=
  unsent_never_accepted A P c dec s sent hs hi _ off' hfresh

/-- **wrong_pn_or_key_rejected_multi** (AEAD level, no assumption on how packets were built): acceptance means the
receiver reconstructed the pn and selected the key of a sealed tuple with exactly this AAD and plaintext. -/
theorem wrong_pn_or_key_rejected_multi {K H : Type} (A : Aead K) (P : Hp H) (c : RxCfg K H)
    (dec : PacketNumber → DecodePn) (s : OneRtt K) (S : List (Sealed K)) (hi : IdealOver A S)
    (buf' : Bytes) (off' : Nat) (ty' : PType) (pn' : Nat) (kp' : Bool) (aad' body' : Bytes)
    (h : (receive A P c dec s buf' off').1 = .accepted ty' pn' kp' aad' body') :
    ∃ x ∈ S, pn' = x.n ∧ (rxKey c s ty' kp').2 = some x.k ∧ aad' = x.a ∧ body' = x.p := by
  obtain ⟨sp', k', a⟩ := accepted_inv A P c dec s buf' off' ty' pn' kp' aad' body' h
  obtain ⟨x, hx, h1, h2, h3, h4, _⟩ := hi _ _ _ _ _ a.hopen
  exact ⟨x, hx, h2.symm, by rw [a.hkey, h1], h3.symm, h4.symm⟩

/-- **modified_silently_dropped_multi** — RFC order of the reserved-bit check: bytes that are not one of the sent
packets never raise a connection error and never deliver frames. -/
theorem modified_silently_dropped_multi {K H : Type} (A : Aead K) (P : Hp H) (c : RxCfg K H)
    (dec : PacketNumber → DecodePn) (s : OneRtt K) (sent : List (SentPkt K))
    (hb : c.reservedBeforeOpen = false) (hs : SentOk A P c sent) (hi : IdealOver A (sealedOf A sent))
    (buf' : Bytes) (off' : Nat) (hne : ∀ e ∈ sent, buf' ≠ e.pkt) :
    (receive A P c dec s buf' off').1 ≠ .connError ∧ (receive A P c dec s buf' off').1.isAccepted = false := by
  refine ⟨?_, unsent_never_accepted A P c dec s sent hs hi buf' off' hne⟩
  intro he
  obtain ⟨sp, ty, hsp, hty, _, hor⟩ := connError_inv A P c dec s buf' off' he
  rcases hor with hb' | ⟨k', pn', ho⟩
  · rw [hb] at hb'; exact absurd hb' (by simp)
  · cases hp : A.aopen k' pn' ((unmask (P.mask (c.hpKey ty) (sp.tail.take 16)) sp).aad sp)
        ((unmask (P.mask (c.hpKey ty) (sp.tail.take 16)) sp).ct sp) with
    | none => exact ho hp
    | some body' =>
      obtain ⟨e, hem, h1, _⟩ := opened_is_sent A P c sent hs hi buf' off' sp ty k' pn' body' hsp hty hp
      exact hne e hem h1

/-- **accepted_is_sealed_any_key_history**: the same after ANY history of the receiver's key-state machine (phase bits
received in any order, `phase_out`, local updates) — in particular across key updates. -/
theorem accepted_is_sealed_any_key_history {K H : Type} (A : Aead K) (P : Hp H) (c : RxCfg K H)
    (dec : PacketNumber → DecodePn) (k0 l0 : K) (ops : List KOp) (sent : List (SentPkt K))
    (hs : SentOk A P c sent) (hi : IdealOver A (sealedOf A sent))
    (buf' : Bytes) (off' : Nat) (ty' : PType) (pn' : Nat) (kp' : Bool) (aad' body' : Bytes)
    (h : (receive A P c dec (ops.foldl (kstep c) (OneRtt.init k0 l0)) buf' off').1 = .accepted ty' pn' kp' aad' body') :
    ∃ e ∈ sent, buf' = e.pkt ∧ pn' = e.t.pn ∧ kp' = kpOf e.t ∧ body' = e.t.body := by
  obtain ⟨e, he, h1, _, _, h4, h5, _, h7, _⟩ := accepted_is_sealed A P c dec _ sent hs hi _ _ _ _ _ _ _ h
  exact ⟨e, he, h1, h4, h5, h7⟩

/-- the single-packet theorem `accepted_only_original` is the case `sent = [e]` -/
theorem accepted_only_original_from_multi {K H : Type} (A : Aead K) (P : Hp H) (c : RxCfg K H)
    (dec : PacketNumber → DecodePn) (s : OneRtt K) (k : K) (t : TxPkt) (pkt : Bytes) (off : Nat) (w : WfHdr t)
    (hp : protect A P k (c.hpKey t.ptype) t = .ok pkt off)
    (hi : IdealOver A [⟨k, t.pn, aadOf A.tagLen t, t.body⟩])
    (buf' : Bytes) (off' : Nat) (ty' : PType) (pn' : Nat) (kp' : Bool) (aad' body' : Bytes)
    (h : (receive A P c dec s buf' off').1 = .accepted ty' pn' kp' aad' body') :
    buf' = pkt ∧ off' = off ∧ ty' = t.ptype ∧ pn' = t.pn ∧ (rxKey c s ty' kp').2 = some k := by
  have hs : SentOk A P c [⟨k, t, pkt, off⟩] := by
    intro e he; simp only [List.mem_singleton] at he; subst he; exact ⟨w, hp⟩
  obtain ⟨e, he, h1, h2, h3, h4, _, _, _, h8⟩ :=
    accepted_is_sealed A P c dec s [⟨k, t, pkt, off⟩] hs (by simpa [sealedOf, SentPkt.sealed] using hi) _ _ _ _ _ _ _ h
  simp only [List.mem_singleton] at he
  subst he
  exact ⟨h1, h2, h3, h4, h8⟩

end GmQuic.Protect
