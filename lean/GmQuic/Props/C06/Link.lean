import GmQuic.Props.C06.Multi
/-!
C06 → C02: what the end-to-end model may use.  From multi-packet ideal integrity, every ciphertext the AEAD opens is
in the image of `seal` on the sealed list, and every byte string the receive path accepts is in the list of protected
packets the sender produced (its "wire"), bit for bit.
-/
namespace GmQuic.Protect
open GmQuic.Wire GmQuic.Pn

/-- the ciphertexts the sender's AEAD produced -/
def sealImage {K : Type} (A : Aead K) (S : List (Sealed K)) : List Bytes := S.map fun x => A.aseal x.k x.n x.a x.p

/-- **opens_in_seal_image**: under `IdealOver S`, whatever opens (any key, nonce, AAD) is a ciphertext sealed on `S`,
and the plaintext returned is the one that was sealed there. -/
theorem opens_in_seal_image {K : Type} (A : Aead K) (S : List (Sealed K)) (hi : IdealOver A S)
    (k : K) (n : Nat) (a c p : Bytes) (h : A.aopen k n a c = some p) :
    c ∈ sealImage A S ∧ ∃ x ∈ S, x.k = k ∧ x.n = n ∧ x.a = a ∧ x.p = p := by
  obtain ⟨x, hx, h1, h2, h3, h4, h5⟩ := hi k n a c p h
  refine ⟨?_, x, hx, h1, h2, h3, h4⟩
  simp only [sealImage, List.mem_map]
  exact ⟨x, hx, by rw [h5, h1, h2, h3, h4]⟩

/-- **accepted_on_wire** (the shape of C02's `opAuthentic`: "a ciphertext that authenticates was put on the wire by
the peer"): whatever datagram bytes the real receive path accepts — in any key state, with any pn decoder, however
parsed — are a member of the sender's wire. -/
theorem accepted_on_wire {K H : Type} (A : Aead K) (P : Hp H) (c : RxCfg K H) (dec : PacketNumber → DecodePn)
    (s : OneRtt K) (sent : List (SentPkt K)) (hs : SentOk A P c sent) (hi : IdealOver A (sealedOf A sent))
    (buf' : Bytes) (off' : Nat) (h : (receive A P c dec s buf' off').1.isAccepted = true) :
    buf' ∈ sent.map (·.pkt) := by
  cases hr : (receive A P c dec s buf' off').1 with
  | accepted ty' pn' kp' aad' body' =>
    obtain ⟨e, he, h1, _⟩ := accepted_is_sealed A P c dec s sent hs hi _ _ _ _ _ _ _ hr
    exact List.mem_map.mpr ⟨e, he, h1.symm⟩
  | _ => rw [hr] at h; simp [Outcome.isAccepted] at h

end GmQuic.Protect
