import GmQuic.Props.C06.RoundTrip
import GmQuic.Lemmas.ProtectToy
/-!
C06, clauses 3–5: any modification of a protected packet delivers no frames; a wrong packet number or key is
rejected; and (only for the RFC order of the reserved-bit check) the rejection is silent.

All under `IdealFor`: ideal integrity of the AEAD relative to the one sealed packet.  Nothing is assumed about the
header-protection mask (any function of key and sample), nor about how the modified bytes were parsed:
`off'` — the payload offset the parser derived from the modified header — is universally quantified.
-/
namespace GmQuic.Protect
open GmQuic.Wire GmQuic.Pn

def Outcome.isAccepted : Outcome → Bool
  | .accepted .. => true
  | _ => false

/-- **accepted_only_original** (the strong form of `any_bitflip_rejected`): whatever bytes `buf'` and payload
offset `off'` the receiver is handed, if it accepts, then the bytes are exactly the sender's packet, parsed at the
sender's offset, and type, packet number and key are the sender's. -/
theorem accepted_only_original {K H : Type} (A : Aead K) (P : Hp H) (c : RxCfg K H) (dec : PacketNumber → DecodePn)
    (s : OneRtt K) (k : K) (t : TxPkt) (pkt : Bytes) (off : Nat) (w : WfHdr t)
    (hp : protect A P k (c.hpKey t.ptype) t = .ok pkt off)
    (hi : IdealFor A k t.pn (aadOf A.tagLen t) t.body)
    (buf' : Bytes) (off' : Nat) (ty' : PType) (pn' : Nat) (kp' : Bool) (aad' body' : Bytes)
    (h : (receive A P c dec s buf' off').1 = .accepted ty' pn' kp' aad' body') :
    buf' = pkt ∧ off' = off ∧ ty' = t.ptype ∧ pn' = t.pn ∧ (rxKey c s ty' kp').2 = some k := by
  obtain ⟨sp', k', a⟩ := accepted_inv A P c dec s buf' off' ty' pn' kp' aad' body' h
  have ho := a.hopen
  rw [a.haad] at ho
  obtain ⟨h1, h2, h3, h4, h5⟩ := opened_is_original A P c k t pkt off w hp hi buf' off' sp' ty' k' pn'
    a.hsplit a.hty (by rw [ho]; simp)
  exact ⟨h1, h2, h3, h5, by rw [a.hkey, h4]⟩

/-- **any_bitflip_rejected**: for every bit position of the protected packet (first-byte bits, protected pn,
header/AAD, ciphertext, tag, sample), receiving the flipped packet — however its header then parses — delivers
no frames. -/
theorem any_bitflip_rejected {K H : Type} (A : Aead K) (P : Hp H) (c : RxCfg K H) (dec : PacketNumber → DecodePn)
    (s : OneRtt K) (k : K) (t : TxPkt) (pkt : Bytes) (off : Nat) (w : WfHdr t)
    (hp : protect A P k (c.hpKey t.ptype) t = .ok pkt off)
    (hi : IdealFor A k t.pn (aadOf A.tagLen t) t.body)
    (i : Nat) (hlt : i < 8 * pkt.length) (off' : Nat) :
    (receive A P c dec s (flipBit i pkt) off').1.isAccepted = false := by
  cases hr : (receive A P c dec s (flipBit i pkt) off').1 with
  | accepted ty' pn' kp' aad' body' =>
    have := (accepted_only_original A P c dec s k t pkt off w hp hi _ _ _ _ _ _ _ hr).1
    exact absurd this (flipBit_ne pkt i hlt)
  | _ => rfl

/-- **wrong_pn_or_key_rejected**: a receiver (any configuration, any key state, any pn decoder, any parse) that
reconstructs another packet number or selects another key does not accept. -/
theorem wrong_pn_or_key_rejected {K H : Type} (A : Aead K) (P : Hp H) (c : RxCfg K H) (dec : PacketNumber → DecodePn)
    (s : OneRtt K) (k : K) (n : Nat) (a p : Bytes)
    (hi : IdealFor A k n a p)
    (buf' : Bytes) (off' : Nat) (ty' : PType) (pn' : Nat) (kp' : Bool) (aad' body' : Bytes)
    (h : (receive A P c dec s buf' off').1 = .accepted ty' pn' kp' aad' body') :
    pn' = n ∧ (rxKey c s ty' kp').2 = some k ∧ aad' = a := by
  obtain ⟨sp', k', x⟩ := accepted_inv A P c dec s buf' off' ty' pn' kp' aad' body' h
  obtain ⟨h1, h2, h3, _⟩ := hi _ _ _ _ (by rw [x.hopen]; simp)
  exact ⟨h2, by rw [x.hkey, h1], h3⟩

/-- the statement of the "silently discarded" clause, for a given order of the reserved-bit check -/
def SilentlyDropped (before : Bool) : Prop :=
  ∀ {K H : Type} (A : Aead K) (P : Hp H) (c : RxCfg K H) (dec : PacketNumber → DecodePn)
    (s : OneRtt K) (k : K) (t : TxPkt) (pkt : Bytes) (off : Nat),
    c.reservedBeforeOpen = before → WfHdr t →
    protect A P k (c.hpKey t.ptype) t = .ok pkt off →
    IdealFor A k t.pn (aadOf A.tagLen t) t.body →
    ∀ (buf' : Bytes) (off' : Nat), buf' ≠ pkt →
      (receive A P c dec s buf' off').1 ≠ .connError ∧ (receive A P c dec s buf' off').1.isAccepted = false

/-- **modified_silently_dropped** — order of RFC 9001 §5.4.1 (reserved bits checked after authentication; the
order after `repo_patches/fix-C06-reserved-bits.diff`): a modified packet never raises a connection error and
never delivers frames. -/
theorem modified_silently_dropped : SilentlyDropped false := by
  intro K H A P c dec s k t pkt off hb w hp hi buf' off' hne
  constructor
  · intro he
    obtain ⟨sp, ty, hs, hty, _, hor⟩ := connError_inv A P c dec s buf' off' he
    rcases hor with hb' | ⟨k', pn', ho⟩
    · rw [hb] at hb'; exact absurd hb' (by simp)
    · exact hne (opened_is_original A P c k t pkt off w hp hi buf' off' sp ty k' pn' hs hty ho).1
  · cases hr : (receive A P c dec s buf' off').1 with
    | accepted ty' pn' kp' aad' body' =>
      exact absurd (accepted_only_original A P c dec s k t pkt off w hp hi _ _ _ _ _ _ _ hr).1 hne
    | _ => rfl

/-- **modified_silently_dropped_partial** — order of the unchanged tree: the clause holds exactly for those
modified packets whose reserved bits happen to be zero after header-protection removal. -/
theorem modified_silently_dropped_partial {K H : Type} (A : Aead K) (P : Hp H) (c : RxCfg K H)
    (dec : PacketNumber → DecodePn) (s : OneRtt K) (k : K) (t : TxPkt) (pkt : Bytes) (off : Nat)
    (w : WfHdr t) (hp : protect A P k (c.hpKey t.ptype) t = .ok pkt off)
    (hi : IdealFor A k t.pn (aadOf A.tagLen t) t.body)
    (buf' : Bytes) (off' : Nat) (hne : buf' ≠ pkt)
    (hres : ∀ sp ty, split buf' off' = some sp → typeOfFirst sp.first = some ty →
      (unmask (P.mask (c.hpKey ty) (sp.tail.take 16)) sp).first &&& reservedMask ty = 0) :
    (receive A P c dec s buf' off').1 ≠ .connError ∧ (receive A P c dec s buf' off').1.isAccepted = false := by
  constructor
  · intro he
    obtain ⟨sp, ty, hs, hty, hr, _⟩ := connError_inv A P c dec s buf' off' he
    exact hr (hres sp ty hs hty)
  · cases hr : (receive A P c dec s buf' off').1 with
    | accepted ty' pn' kp' aad' body' =>
      exact absurd (accepted_only_original A P c dec s k t pkt off w hp hi _ _ _ _ _ _ _ hr).1 hne
    | _ => rfl

end GmQuic.Protect
