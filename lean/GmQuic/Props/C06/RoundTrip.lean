import GmQuic.Lemmas.ProtectErr
/-!
C06, clauses 1–2: header protection removal inverts header protection; a protected packet is accepted with
header, packet number, key phase and payload recovered bit for bit.  For every packet type (the header beyond
its first byte is an arbitrary byte list: any cid lengths, any token), every pn length, every body for which
`encrypt_and_protect_packet` does not panic (`protect … = .ok …`, i.e. pn + body + tag ≥ 20, Length < 2^14).
-/
namespace GmQuic.Protect
open GmQuic.Wire GmQuic.Pn

/-- **unprotect_protect**: for any AEAD and any mask function, what the receiver sees after removing header
protection from the sender's packet is the unprotected first byte, the pn length, the pn bytes, the sender's AAD
and the AEAD output — the sample is ciphertext that header protection does not touch. -/
theorem unprotect_protect {K H : Type} (A : Aead K) (P : Hp H) (k : K) (hk : H) (t : TxPkt) (pkt : Bytes) (off : Nat)
    (w : WfHdr t) (h : protect A P k hk t = .ok pkt off) :
    ∃ sp, split pkt off = some sp ∧
      (unmask (P.mask hk (sp.tail.take 16)) sp).first = encodeFirst t ∧
      (unmask (P.mask hk (sp.tail.take 16)) sp).pnLen = size t.enc ∧
      (unmask (P.mask hk (sp.tail.take 16)) sp).pn4.take (size t.enc) = put t.enc ∧
      (unmask (P.mask hk (sp.tail.take 16)) sp).aad sp = aadOf A.tagLen t ∧
      (unmask (P.mask hk (sp.tail.take 16)) sp).ct sp = A.aseal k t.pn (aadOf A.tagLen t) t.body := by
  obtain ⟨sp, v⟩ := protect_view A P k hk t pkt off w h
  exact ⟨sp, v.hsplit, v.hfirst, v.hlen, v.hpn, v.haad, v.hct⟩

/-- the key phase the receiver must report: the sender's bit for 1-RTT, `false` for long headers -/
def kpOf (t : TxPkt) : Bool := decide (t.ptype = .oneRtt ∧ t.keyPhase = true)

/-- **open_seal_packet**: AEAD correct at this packet, receiver selects the sender's key for the (recovered) key
phase, and its pn decoder maps the wire pn to the sender's pn ⇒ accepted with everything recovered. -/
theorem open_seal_packet {K H : Type} (A : Aead K) (P : Hp H) (c : RxCfg K H) (dec : PacketNumber → DecodePn)
    (s : OneRtt K) (k : K) (t : TxPkt) (pkt : Bytes) (off : Nat) (w : WfHdr t)
    (hp : protect A P k (c.hpKey t.ptype) t = .ok pkt off)
    (hc : CorrectAt A k t.pn (aadOf A.tagLen t) t.body)
    (hkey : (rxKey c s t.ptype (kpOf t)).2 = some k)
    (hdec : dec (truncWire t.enc) = .ok t.pn) :
    (receive A P c dec s pkt off).1 = .accepted t.ptype t.pn (kpOf t) (aadOf A.tagLen t) t.body := by
  obtain ⟨sp, v⟩ := protect_view A P k (c.hpKey t.ptype) t pkt off w hp
  have hres : (unmask (P.mask (c.hpKey t.ptype) (sp.tail.take 16)) sp).first &&& reservedMask t.ptype = 0 := by
    rw [v.hfirst]; exact first_reserved w
  have hrx : rxPn dec (unmask (P.mask (c.hpKey t.ptype) (sp.tail.take 16)) sp) = some (.ok t.pn) := by
    unfold rxPn
    have e : (unmask (P.mask (c.hpKey t.ptype) (sp.tail.take 16)) sp).pn4
        = put t.enc ++ (unmask (P.mask (c.hpKey t.ptype) (sp.tail.take 16)) sp).pn4.drop (size t.enc) := by
      rw [← v.hpn, List.take_append_drop]
    rw [v.hlen, e]
    have := viaWire_eq t.enc ((unmask (P.mask (c.hpKey t.ptype) (sp.tail.take 16)) sp).pn4.drop (size t.enc))
    unfold viaWire at this
    rw [this]; simp only; rw [hdec]
  have hkp : decide ((unmask (P.mask (c.hpKey t.ptype) (sp.tail.take 16)) sp).first &&& 0x04 ≠ 0) = kpOf t := by
    rw [v.hfirst]; unfold kpOf; exact decide_eq_decide.mpr (first_keyPhase w)
  have hm : ¬ (P.mask (c.hpKey t.ptype) (sp.tail.take 16)).length < 5 := by have := v.hmask; omega
  unfold receive
  rw [v.hsplit]; simp only
  rw [v.hty]; simp only
  rw [if_neg hm, hres, hrx]
  simp only [ne_eq, not_true_eq_false, and_false, if_false]
  rw [hkp]
  rcases hrk : rxKey c s t.ptype (kpOf t) with ⟨s', ok⟩
  rw [hrk] at hkey
  simp only at hkey
  subst hkey
  simp only
  rw [v.haad, v.hct, hc]

end GmQuic.Protect
