import GmQuic.Props.C04.Conn
import GmQuic.Spec.Rfc9000Errors
/-!
C04 — `error_kind_is_prescribed`: the error kind each handler returns in each hostile situation, pushed through the
GENERATED wire-code table of `qbase/src/error.rs` (`Gen/FrameTable.lean`: `errKindNames`, `natOfErrKind`), equals the
code the hand-written RFC 9000 table prescribes.
-/
namespace GmQuic.Props.C04
open GmQuic.Cost GmQuic.Spec.Rfc9000Errors

/-- name of the Rust variant `ErrorKind::…` each model kind stands for -/
def _root_.GmQuic.Cost.EK.rustName : EK → String
  | .frameEncoding => "FrameEncoding"
  | .protocolViolation => "ProtocolViolation"
  | .streamLimit => "StreamLimit"
  | .streamState => "StreamState"
  | .finalSize => "FinalSize"
  | .flowControl => "FlowControl"
  | .connectionIdLimit => "ConnectionIdLimit"
  | .transportParameter => "TransportParameter"

/-- wire code of a kind according to the tables generated from `qbase/src/error.rs` on this run:
position of the variant in the enum, then `impl From<ErrorKind> for VarInt` -/
def _root_.GmQuic.Cost.EK.wire (k : EK) : Option Nat :=
  match Gen.errKindNames.idxOf? (EK.rustName k) with
  | some i => some (Gen.natOfErrKind (.named i))
  | none => none

/-- what the (fixed) handlers answer in each situation of the RFC table; each line is a theorem above:
`ack_negative_rejected`, `ack_unsent_rejected`, `stream_limit_rejected`, `flow_control_rejected` /
`stream_err_kind_faithful`, `stream_state_rejected`, `cid_count_exceeded_rejected` / `cid_limit_rejected` / `new_cid_err_kind`
(+ C14 `remote_limit_enforced .exact`),
`cid_far_ahead_rejected`, `retire_unissued_rejected`, `set_limit_below_2_rejected`. -/
def answered : Situation → EK
  | .ackRangeNegative => .frameEncoding
  | .ackOfUnsent => .protocolViolation
  | .streamLimitExceeded => .streamLimit
  | .flowControlExceeded => .flowControl
  | .finalSizeViolated => .finalSize
  | .wrongStreamDirection => .streamState
  | .cidLimitExceeded => .connectionIdLimit
  | .cidSeqFarAhead => .connectionIdLimit
  | .retireUnissued => .protocolViolation
  | .cidLimitParamBelow2 => .transportParameter

/-- **error_kind_is_prescribed** -/
theorem error_kind_is_prescribed (s : Situation) : (answered s).wire = some (prescribed s) := by
  cases s <;> decide

/-- the `answered` table is what the handlers return (one instance per situation, all states / values) -/
theorem answered_is_returned :
    (∀ (s : AckSt) f, Negative f → (handleAck s f).1.isErr = some (answered .ackRangeNegative)) ∧
    (∀ (s : AckSt) f, ¬ Negative f → s.sj.largest ≤ f.largest → (handleAck s f).1.isErr = some (answered .ackOfUnsent)) ∧
    (∀ (s s2 : Cid.Remote) seq rpt cid, s.coff ≤ seq → ¬ seq - (s.coff + s.cdq.length) > max maxSeqGap s.limit →
        (s.insertCid seq cid).1.retirePriorTo rpt = .ok s2 → s2.activeCount > s2.limit →
        (handleNewCid true s seq rpt cid).1.isErr = some (answered .cidLimitExceeded)) ∧
    (∀ (s : Cid.Remote) seq rpt cid, seq - (s.coff + s.cdq.length) > max maxSeqGap s.limit →
        (handleNewCid true s seq rpt cid).1.isErr = some (answered .cidSeqFarAhead)) ∧
    (∀ (l : Cid.Local) seq c, l.largest ≤ seq → (handleRetireCid l seq c).1.isErr = some (answered .retireUnissued)) ∧
    (∀ (l : Cid.Local) next n, l.limit = none → n < 2 →
        (handleSetLimit true l next n).1.isErr = some (answered .cidLimitParamBelow2)) ∧
    (∀ (s : Flow.RecvCtl) n, s.poisoned = false → s.rcvd + n < 2 ^ 64 → s.rcvd + n > s.max →
        (handleNewRcvd s n).1.isErr = some (answered .flowControlExceeded)) := by
  refine ⟨?_, ?_, ?_, ?_, ?_, ?_, ?_⟩
  · intro s f h; rw [ack_negative_rejected s f h]; rfl
  · intro s f h1 h2; exact ack_unsent_rejected s f h1 h2
  · intro s s2 seq rpt cid h1 h2 h3 h4; exact cid_count_exceeded_rejected s s2 seq rpt cid h1 h2 h3 h4
  · intro s seq rpt cid h2; rw [cid_far_ahead_rejected s seq rpt cid h2]; rfl
  · intro l seq c h; rw [retire_unissued_rejected l seq c h]; rfl
  · intro l next n h0 h; rw [set_limit_below_2_rejected true l next n h0 h]; rfl
  · intro s n hp h64 h; rw [flow_control_rejected s n hp h64 h]; rfl

end GmQuic.Props.C04
