import GmQuic.Lemmas.Cost
/-!
C04 — ACK frames.  `handleAck` is the dispatcher arm `Frame::Ack` of the three packet-number spaces plus the piped
`Ack*Space::recv_frame`, WITH `repo_patches/fix-C04-{ack-validate,ack-cc-walk,rcvd-journal}.diff`; `handleAckOld` is
the unchanged code.  All statements are for ALL states (any sent-packet list of qcongestion, any journal contents —
not only reachable ones) and ALL frames (any 62-bit values, any number of ranges).

Only loop iterations and container cells of the model are counted; nanoseconds / bytes are monitored, not proved.
-/
namespace GmQuic.Props.C04
open GmQuic.Cost
open GmQuic.RcvdJournal (AckFrame iterRanges pnsDesc covers)

/-- "acknowledges a negative packet number": the first range or a later gap / range reaches below 0 -/
abbrev Negative (f : AckFrame) : Prop := f.iter = none

theorem first_range_above_largest_is_negative (f : AckFrame) (h : f.largest < f.first) : Negative f := by
  unfold Negative AckFrame.iter; simp [h]

theorem gap_underflow_is_negative (f : AckFrame) (g r : Nat) (rest : List (Nat × Nat))
    (hr : f.ranges = (g, r) :: rest) (h : f.largest - f.first < g + 2) : Negative f := by
  unfold Negative AckFrame.iter
  split; · rfl
  simp [hr, iterRanges, h]

/-- **ack_negative_rejected** (fixed code): a frame whose ranges reach below packet number 0 ends the connection
with FRAME_ENCODING_ERROR; nothing but the validation loop has run (cost = one step per range), no consumer saw it. -/
theorem ack_negative_rejected (s : AckSt) (f : AckFrame) (h : Negative f) :
    handleAck s f = (.err .frameEncoding, ⟨f.ranges.length + 1, 0⟩) := by
  unfold handleAck; rw [h]

example : Negative ⟨5, 0, 6, []⟩ := by decide
example : Negative ⟨10, 0, 2, [(7, 0)]⟩ := by decide

/-- the unchanged code does not reject such a frame: the first consumer panics (dev) / iterates wrapped ranges -/
theorem ack_negative_rejected_fails :
    ¬ (∀ (s : AckSt) (f : AckFrame), Negative f → (handleAckOld s f).1.isErr = some .frameEncoding) := by
  intro h
  have := h {} ⟨5, 0, 6, []⟩ (by decide)
  revert this; decide

/-- what the unchanged code does guarantee: well-formed frames are not mistaken for malformed ones -/
theorem ack_negative_rejected_partial (s : AckSt) (f : AckFrame) (h : ¬ Negative f) :
    (handleAckOld s f).1.isErr ≠ some .frameEncoding := by
  unfold handleAckOld Negative at *
  cases hi : f.iter with
  | none => exact absurd hi h
  | some rs => simp only []; split <;> simp [Out.isErr]

/-- **ack_unsent_rejected**: a well-formed frame whose largest acknowledged is a packet number not sent yet
(`≥ sent_packets.largest()`, the next number) ends the connection with PROTOCOL_VIOLATION; the sent journal reports no
frame.  (qcongestion and the received-packet journal have processed the ranges before — their work is in the cost —
the connection is closed with their state.) -/
theorem ack_unsent_rejected (s : AckSt) (f : AckFrame) (hw : ¬ Negative f) (h : s.sj.largest ≤ f.largest) :
    (handleAck s f).1.isErr = some .protocolViolation := by
  unfold Negative at hw
  unfold handleAck
  cases hi : f.iter with
  | none => exact absurd hi hw
  | some rs =>
    simp only [RcvdJournal.onRcvdAck, hi]
    have : SentFrames.updateLargestOk s.sj f.largest = false := by
      simp [SentFrames.updateLargestOk]; omega
    simp [this, Out.isErr]

example : ¬ Negative ⟨3, 0, 1, []⟩ ∧ (({} : AckSt).sj.largest ≤ 3) := by decide

/-- explicit cost bound of the fixed ACK path -/
def ackBound (s : AckSt) (f : AckFrame) : Nat :=
  -- validation, qcongestion (walk + front pops), received-packet journal
  3 * f.ranges.length + 2 * s.cc.length + s.rj.incl.length * (f.ranges.length + 2) + 2 * s.rj.cells.length + 8
  -- sent journal: every acknowledged number is collected and looked up (at most `largest + 1 ≤ next pn` of them)
  + (f.largest + 1) * (s.sj.recs.length + 2) + s.sj.recs.length

/-- **handler_cost_bounded (ACK)**: for every state and every frame the work is bounded by `ackBound`: linear in the
number of ranges (≤ bytes of the frame / 2), in the packets qcongestion holds, in the journal cells, bilinear in
(`packet_include_ack` × ranges), plus the sent-journal term `(largest+1)·(window+2)`. -/
theorem ack_cost_bounded (s : AckSt) (f : AckFrame) : (handleAck s f).2.total ≤ ackBound s f := by
  unfold handleAck ackBound
  cases hi : f.iter with
  | none => simp only [Cost.total]; omega
  | some rs =>
    have hl := iter_length f rs hi
    have hp := iter_pns f rs hi
    have hw : (if s.cc.isEmpty then (([] : List Nat), 0) else ccWalk (ccStart s.cc f.largest) rs).2
        ≤ s.cc.length + rs.length := by
      split
      · simp
      · have := ccWalk_cost (ccStart s.cc f.largest) rs
        have := ccStart_length s.cc f.largest
        omega
    have hs := sendSideCost_le s.sj (pnsDesc rs)
    have hm : (pnsDesc rs).length * (s.sj.recs.length + 1) ≤ (f.largest + 1) * (s.sj.recs.length + 1) :=
      Nat.mul_le_mul_right _ hp
    have e1 : s.rj.incl.length * rs.length = s.rj.incl.length * (f.ranges.length + 1) := by rw [hl]
    have e2 : s.rj.incl.length * (f.ranges.length + 2) = s.rj.incl.length * (f.ranges.length + 1) + s.rj.incl.length := by
      rw [Nat.mul_add, Nat.mul_add]; omega
    have e3 : (f.largest + 1) * (s.sj.recs.length + 2) = (f.largest + 1) * (s.sj.recs.length + 1) + (f.largest + 1) := by
      rw [Nat.mul_add (f.largest + 1) (s.sj.recs.length + 1) 1]; omega
    simp only [RcvdJournal.onRcvdAck, hi]
    generalize (if s.cc.isEmpty then (([] : List Nat), 0) else ccWalk (ccStart s.cc f.largest) rs) = w at *
    generalize popAcked (markAcked s.cc w.1) = cc1 at *
    split
    · simp only [Cost.total, HAdd.hAdd, Add.add, Cost.one] at *
      simp only [Nat.add_eq] at *
      rw [e1, e2, e3]; omega
    · split <;>
      · simp only [Cost.total, HAdd.hAdd, Add.add, Cost.one] at *
        simp only [Nat.add_eq] at *
        rw [e1, e2, e3]; omega

/-- … and when the frame is accepted, `largest + 1` is at most the number of packets sent so far -/
theorem ack_accepted_largest_lt_next (s : AckSt) (f : AckFrame) (x : AckSt × AckObs)
    (h : (handleAck s f).1 = .ok x) : f.largest < s.sj.largest := by
  unfold handleAck at h
  cases hi : f.iter with
  | none => simp [hi] at h
  | some rs =>
    simp only [hi, RcvdJournal.onRcvdAck] at h
    by_cases hu : SentFrames.updateLargestOk s.sj f.largest = true
    · simpa [SentFrames.updateLargestOk] using hu
    · simp [hu] at h

/-- The part of `ackBound` that does NOT depend on how many packets were ever sent bounds everything up to and
including `update_largest` — in particular every frame that is refused. -/
theorem ack_refused_cost_bounded (s : AckSt) (f : AckFrame) (k : EK) (h : (handleAck s f).1 = .err k) :
    (handleAck s f).2.total ≤
      3 * f.ranges.length + 2 * s.cc.length + s.rj.incl.length * (f.ranges.length + 2) + 2 * s.rj.cells.length + 8 := by
  unfold handleAck at h ⊢
  cases hi : f.iter with
  | none => simp only [Cost.total]; omega
  | some rs =>
    have hl := iter_length f rs hi
    have hw : (if s.cc.isEmpty then (([] : List Nat), 0) else ccWalk (ccStart s.cc f.largest) rs).2
        ≤ s.cc.length + rs.length := by
      split
      · simp
      · have := ccWalk_cost (ccStart s.cc f.largest) rs
        have := ccStart_length s.cc f.largest
        omega
    have e1 : s.rj.incl.length * rs.length = s.rj.incl.length * (f.ranges.length + 1) := by rw [hl]
    have e2 : s.rj.incl.length * (f.ranges.length + 2) = s.rj.incl.length * (f.ranges.length + 1) + s.rj.incl.length := by
      rw [Nat.mul_add, Nat.mul_add]; omega
    simp only [hi, RcvdJournal.onRcvdAck] at h ⊢
    generalize (if s.cc.isEmpty then (([] : List Nat), 0) else ccWalk (ccStart s.cc f.largest) rs) = w at *
    generalize popAcked (markAcked s.cc w.1) = cc1 at *
    split at h
    · split
      · simp only [Cost.total, HAdd.hAdd, Add.add, Cost.one] at *
        simp only [Nat.add_eq] at *
        rw [e1, e2]; omega
      · rename_i h1 h2; exact absurd h1 h2
    · split at h <;> cases h

/-- qcongestion acknowledges only packets it holds that a range covers (no effect of numbers never sent) -/
theorem ack_cc_only_held (ps : List CcPkt) (rs : List (Nat × Nat)) (x : Nat) (hx : x ∈ (ccWalk ps rs).1) :
    ∃ p ∈ ps, p.pn = x ∧ p.acked = false ∧ covers rs x = true := ccWalk_sound ps rs x hx

/-- UNCHANGED code: the work of one well-formed 4-field frame (no additional ranges: at most 26 bytes on the wire)
is not bounded at all — it is the number of packet numbers the frame names, whatever was sent. -/
theorem ack_cost_bounded_fails :
    ¬ (∃ B : Nat, ∀ (s : AckSt) (f : AckFrame), f.ranges = [] → (handleAckOld s f).2 ≤ B + sizeAck s) := by
  intro ⟨B, h⟩
  have := h {} ⟨B, 0, B, []⟩ rfl
  simp [handleAckOld, AckFrame.iter, iterRanges, pnsDesc, sizeAck, SentFrames.updateLargestOk,
        SentFrames.State.largest] at this
  omega

/-- NOT fixed: the sent-journal side of an ACCEPTED frame still enumerates every acknowledged number, so its cost
is bounded by the number of packets ever sent, not by the journal window.  Witness family: window of one record at
offset `n`, frame acknowledging `0..=n`. -/
theorem ack_send_side_not_bounded_by_window :
    ¬ (∃ B : Nat, ∀ (s : AckSt) (f : AckFrame), f.ranges = [] → (handleAck s f).2.total ≤ B * (sizeAck s + 1)) := by
  intro ⟨B, h⟩
  have := h { sj := { offset := 2 * B + 1, recs := [.skipped], log := [[]] } } ⟨2 * B + 1, 0, 2 * B + 1, []⟩ rfl
  revert this
  simp only [handleAck, AckFrame.iter, iterRanges, RcvdJournal.onRcvdAck, SentFrames.updateLargestOk,
    SentFrames.State.largest, Nat.lt_irrefl, Nat.sub_self, List.length_cons, List.length_nil,
    Option.map_some, if_false]
  have hlt : 2 * B + 1 < 2 * B + 1 + (0 + 1) := by omega
  simp only [hlt, decide_true, not_true_eq_false, if_false]
  intro hc
  have : (pnsDesc [(0, 2 * B + 1)]).length = 2 * B + 2 := by simp [pnsDesc]
  split at hc <;>
  · simp only [Cost.total, HAdd.hAdd, Add.add, Cost.one, sizeAck, this] at hc
    simp at hc
    omega

end GmQuic.Props.C04
