import GmQuic.Lemmas.Cost
import GmQuic.Lemmas.Sid
import GmQuic.Lemmas.CidRemote
import GmQuic.Props.C04.Ack
/-!
C04 — packet-number arrival, connection ids, stream frames, flow control, CRYPTO: cost bounds and limit errors,
for ALL states and ALL field values.  `fixed = true` is the code with `repo_patches/fix-C04-*.diff`; `false` the
unchanged code (the `_fails` theorems).
-/
namespace GmQuic.Props.C04
open GmQuic.Cost

/-! ## packet number arrival -/

/-- With `repo_patches/experimental-C04-pn-gap.diff` (NOT in the fix set: it changes `decode_pn`, which C07 / C06 / C10
model without the cap): at most `maxPnGap + 1` records are appended, whatever the 1–4 byte packet number decodes to
(further ahead ⇒ `TooLarge`, the packet is dropped). -/
theorem pn_cost_bounded_with_gap_patch (s : RcvdJournal.State) (e : Pn.PacketNumber) (elic : Bool) (pto : Nat) :
    (handlePn true s e elic pto).2.total ≤ maxPnGap + 2 := by
  unfold handlePn
  cases Pn.decode e s.largest with
  | panic _ => simp [Cost.total, Cost.one]
  | ok pn =>
    simp only
    split; · simp [Cost.total, Cost.one]
    split; · simp [Cost.total, Cost.one]
    split; · simp [Cost.total, Cost.one]
    rename_i h1 h2 h3
    cases ho : RcvdJournal.onRcvdPn s pn elic pto with
    | none => simp [Cost.total, Cost.one]
    | some s' =>
      simp only [Cost.total]
      unfold RcvdJournal.onRcvdPn at ho
      simp only [RcvdJournal.State.largest] at *
      have h2' : pn - (s.offset + s.cells.length) ≤ maxPnGap := Nat.not_lt.mp (fun hh => h2 ⟨trivial, hh⟩)
      repeat' split at ho
      all_goals first
        | (cases ho; done)
        | (cases ho
           simp only [List.length_append, List.length_replicate, List.length_cons, List.length_nil, List.length_set]
           omega)

/-- (same patch) a dropped packet leaves no trace: the outcome carries no state -/
theorem pn_far_ahead_dropped_with_gap_patch (s : RcvdJournal.State) (e : Pn.PacketNumber) (elic : Bool) (pto pn : Nat)
    (hd : Pn.decode e s.largest = .ok pn) (ho : s.offset ≤ pn) (h : pn - s.largest > maxPnGap) :
    handlePn true s e elic pto = (.drop, Cost.one) := by
  unfold handlePn; simp only [hd]
  have : ¬ pn < s.offset := by omega
  simp [this, h]

/-- records appended by the code AS IT IS for a number at or above the largest seen -/
theorem pn_old_gap_fill (s : RcvdJournal.State) (e : Pn.PacketNumber) (elic : Bool) (pto pn : Nat)
    (hd : Pn.decode e s.largest = .ok pn) (h : s.largest ≤ pn) (hv : pn ≤ Codec.varintMax) :
    (handlePn false s e elic pto).2.cells = pn - s.largest + 1 := by
  unfold handlePn; simp only [hd]
  have h0 : ¬ pn < s.offset := by simp only [RcvdJournal.State.largest] at h; omega
  have hc : (s.cell pn).isEmpty = true := by
    unfold RcvdJournal.State.cell
    simp only [RcvdJournal.State.largest] at h
    have : s.offset ≤ pn := by omega
    simp only [this, if_true]
    rw [List.getD_eq_getElem?_getD, List.getElem?_eq_none (by omega)]
    rfl
  simp only [h0, if_false, Bool.false_eq_true, false_and, hc, not_true_eq_false]
  unfold RcvdJournal.onRcvdPn
  have h1 : ¬ (s.offset ≤ pn ∧ pn < s.largest) := by omega
  have h2 : ¬ pn > Gen.varintMax := by
    have : Gen.varintMax = Codec.varintMax := by decide +kernel
    omega
  simp only [h1, if_false, h2, h0]
  simp only [RcvdJournal.State.largest, List.length_append, List.length_replicate, List.length_cons, List.length_nil]
  omega

/-- **handler_cost_bounded (packet number) — partial**: the code as it is, under exactly the missing hypothesis:
the number decodes at most `g` beyond the largest seen (`g` can be 2^31 for a 4-byte packet number). -/
theorem pn_cost_bounded_partial (s : RcvdJournal.State) (e : Pn.PacketNumber) (elic : Bool) (pto g : Nat)
    (hg : ∀ pn, Pn.decode e s.largest = .ok pn → pn - s.largest ≤ g) :
    (handlePn false s e elic pto).2.total ≤ g + 2 := by
  unfold handlePn
  cases hd : Pn.decode e s.largest with
  | panic _ => simp [Cost.total, Cost.one]
  | ok pn =>
    have hg' := hg pn hd
    simp only
    split; · simp [Cost.total, Cost.one]
    split; · simp [Cost.total, Cost.one]
    split; · simp [Cost.total, Cost.one]
    cases ho : RcvdJournal.onRcvdPn s pn elic pto with
    | none => simp [Cost.total, Cost.one]
    | some s' =>
      simp only [Cost.total]
      unfold RcvdJournal.onRcvdPn at ho
      simp only [RcvdJournal.State.largest] at *
      repeat' split at ho
      all_goals first
        | (cases ho; done)
        | (cases ho
           simp only [List.length_append, List.length_replicate, List.length_cons, List.length_nil, List.length_set]
           omega)

example : ∀ pn, Pn.decode (.u8 5) ({} : RcvdJournal.State).largest = .ok pn → pn - ({} : RcvdJournal.State).largest ≤ 5 := by
  intro pn h
  have : Pn.decode (.u8 5) ({} : RcvdJournal.State).largest = .ok 5 := by decide +kernel
  rw [this] at h; cases h; decide

theorem cells_le_total (c : Cost) : c.cells ≤ c.total := Nat.le_add_left _ _

/-- the code as it is (NOT fixed, known finding) is not bounded by `maxPnGap`: one 4-byte packet number on a fresh
journal appends 2^31+1 records -/
theorem pn_cost_bounded_fails :
    ¬ (∀ (s : RcvdJournal.State) (e : Pn.PacketNumber) (elic : Bool) (pto : Nat),
        (handlePn false s e elic pto).2.total ≤ maxPnGap + 2) := by
  intro h
  have h1 := h {} (.u32 (2 ^ 31)) true 0
  have h2 := pn_old_gap_fill {} (.u32 (2 ^ 31)) true 0 (2 ^ 31) (by decide +kernel) (by decide +kernel) (by decide +kernel)
  have h3 := cells_le_total (handlePn false {} (.u32 (2 ^ 31)) true 0).2
  have h4 : ({} : RcvdJournal.State).largest = 0 := rfl
  have h5 : maxPnGap = 65536 := by decide +kernel
  rw [h2, h4] at h3
  generalize (handlePn false {} (.u32 (2 ^ 31)) true 0).2.total = t at h1 h3
  omega

/-! ## NEW_CONNECTION_ID -/

theorem insertCost_le (s : Cid.Remote) (seq : Nat) : s.insertCost seq ≤ seq - (s.coff + s.cdq.length) + 1 := by
  unfold Cid.Remote.insertCost Cid.Remote.insertCid
  simp only
  split <;> simp <;> omega

/-- **handler_cost_bounded (NEW_CONNECTION_ID)**, /repo HEAD; `rpt ≤ seq` is enforced by the frame parser. -/
theorem new_cid_cost_bounded (s : Cid.Remote) (seq rpt : Nat) (cid : Cid.Cid) (hwf : rpt ≤ seq) :
    (handleNewCid true s seq rpt cid).2.total ≤ 5 * sizeRcid s + 3 * maxSeqGap + 4 := by
  unfold handleNewCid
  split; · simp [Cost.total, Cost.one]
  split; · simp [Cost.total, Cost.one]
  split; · simp [Cost.total, Cost.one]
  rename_i h1 h2 h3
  have hg := insertCost_le s seq
  have h3' : seq - (s.coff + s.cdq.length) ≤ max maxSeqGap s.limit := Nat.not_lt.mp (fun hh => h3 ⟨rfl, hh⟩)
  have hm : max maxSeqGap s.limit ≤ maxSeqGap + s.limit := by omega
  simp only
  have key : (s.cdq.length + s.insertCost seq + s.ready.length + s.pending.length + 1) +
      (s.insertCost seq + retireQueued s rpt + allocTotal s) ≤ 5 * sizeRcid s + 3 * maxSeqGap + 4 := by
    unfold retireQueued sizeRcid
    omega
  split <;> simp only [Cost.total, Cost.one] <;> omega

theorem recvNewCid_ne_discarded (t : Cid.Remote.Tree) (s : Cid.Remote) (seq rpt : Nat) (cid : Cid.Cid)
    (h0 : ¬ seq < s.coff) : Cid.Remote.recvNewCid t s seq rpt cid ≠ .discarded := by
  intro h
  unfold Cid.Remote.recvNewCid at h
  split at h; · cases h
  simp only [h0, if_false] at h
  split at h
  · cases h
  · split at h <;> cases h

theorem farAhead_eq (s : Cid.Remote) (seq : Nat) :
    s.farAhead seq = decide (seq - (s.coff + s.cdq.length) > max maxSeqGap s.limit) := by
  have : maxSeqGap = Cid.Remote.maxSequenceGap := by decide +kernel
  simp [Cid.Remote.farAhead, this]

/-- the only connection error NEW_CONNECTION_ID raises is CONNECTION_ID_LIMIT_ERROR (both trees) -/
theorem new_cid_err_kind (fixed : Bool) (s : Cid.Remote) (seq rpt : Nat) (cid : Cid.Cid) (k : EK)
    (h : (handleNewCid fixed s seq rpt cid).1 = .err k) : k = .connectionIdLimit := by
  unfold handleNewCid at h
  split at h; · cases h; rfl
  split at h; · cases h
  split at h; · cases h; rfl
  simp only at h
  split at h <;> cases h
  rfl

/-- **over_limit_rejected (active_connection_id_limit)**, /repo HEAD (the `seq - retire_prior_to` pre-test is gone:
58494fa): whenever the frame is ACCEPTED, the number of active peer ids — received, not below the retire-prior-to
mark, not retired by the path that held them — counted after the frame has been processed is within the limit; so
a frame that would leave more is answered with CONNECTION_ID_LIMIT_ERROR (`new_cid_err_kind`,
`cid_count_exceeded_rejected`).  `RInv` = C14's structural invariant of the tables, proved for every history
(`Cid.RRun.runInv_run`); over whole histories this is C14's `remote_limit_enforced .exact`. -/
theorem cid_limit_rejected (s : Cid.Remote) (hi : Cid.Remote.RInv s) (seq rpt : Nat) (cid : Cid.Cid) (s' : Cid.Remote)
    (hseq : s.coff ≤ seq) (h : (handleNewCid true s seq rpt cid).1 = .ok s') :
    s'.activeCount ≤ s'.limit ∧ s'.limit = s.limit := by
  unfold handleNewCid at h
  have h0 : ¬ seq < s.coff := by omega
  simp only [h0, if_false, not_true_eq_false, false_and, true_and, if_true] at h
  split at h; · cases h
  have hs := Cid.Remote.recvNewCid_spec (fixed := .exact) (seq := seq) (rpt := rpt) (cid := cid) hi
  cases hr : Cid.Remote.recvNewCid .exact s seq rpt cid with
  | accepted s2 =>
    simp only [hr] at h
    cases h
    have := hs.1 s' hr
    exact ⟨this.2.2 rfl, this.2.1⟩
  | errLimit _ => simp only [hr] at h; cases h
  | panic _ => simp only [hr] at h; cases h
  | discarded => exact absurd hr (recvNewCid_ne_discarded _ s seq rpt cid h0)

example : Cid.Remote.RInv (Cid.Remote.init 2) ∧ (Cid.Remote.init 2).coff ≤ 0 ∧
    ∃ s', (handleNewCid true (Cid.Remote.init 2) 0 0 (.ext 0)).1 = .ok s' :=
  ⟨Cid.Remote.rinv_init 2, Nat.le_refl _, _, rfl⟩

/-- … and the converse direction at the level of one frame: if, after the insert and the retirement, more ids are
active than the limit allows, the answer is CONNECTION_ID_LIMIT_ERROR -/
theorem cid_count_exceeded_rejected (s s2 : Cid.Remote) (seq rpt : Nat) (cid : Cid.Cid)
    (hseq : s.coff ≤ seq) (hgap : ¬ seq - (s.coff + s.cdq.length) > max maxSeqGap s.limit)
    (h2 : (s.insertCid seq cid).1.retirePriorTo rpt = .ok s2) (hc : s2.activeCount > s2.limit) :
    (handleNewCid true s seq rpt cid).1.isErr = some .connectionIdLimit := by
  unfold handleNewCid
  have h0 : ¬ seq < s.coff := by omega
  simp only [h0, if_false, not_true_eq_false, false_and, true_and, hgap]
  have hfa : s.farAhead seq = false := by rw [farAhead_eq]; simpa using hgap
  unfold Cid.Remote.recvNewCid
  simp [Cid.Remote.Tree.pre, Cid.Remote.Tree.count, hfa, h0, h2, hc, Out.isErr]

/- /repo HEAD no longer rejects on the frame's two fields alone: limit 2, ids {0, 2} held (1 retired by its path):
`seq 3, retire_prior_to 0` has `seq - rpt = 3 > 2` and is accepted — see C14 `legal_issue_accepted`. -/

/-- a sequence number far beyond everything received is refused with CONNECTION_ID_LIMIT_ERROR before the insert
(one step, nothing allocated) -/
theorem cid_far_ahead_rejected (s : Cid.Remote) (seq rpt : Nat) (cid : Cid.Cid)
    (h2 : seq - (s.coff + s.cdq.length) > max maxSeqGap s.limit) :
    handleNewCid true s seq rpt cid = (.err .connectionIdLimit, Cost.one) := by
  unfold handleNewCid
  have : ¬ seq < s.coff := by omega
  simp [this, h2]

example : 10000 - ((Cid.Remote.init 2).coff + (Cid.Remote.init 2).cdq.length) > max maxSeqGap (Cid.Remote.init 2).limit := by decide +kernel

/-- the pinned tree allocates one table cell per skipped sequence number -/
theorem new_cid_old_cells (s : Cid.Remote) (seq rpt : Nat) (cid : Cid.Cid)
    (h1 : ¬ seq - rpt > s.limit) (h2 : s.coff ≤ seq) :
    s.insertCost seq ≤ (handleNewCid false s seq rpt cid).2.cells := by
  unfold handleNewCid
  have : ¬ seq < s.coff := by omega
  simp only [h1, this, if_false, Bool.false_eq_true, false_and, and_false]
  cases hr : Cid.Remote.recvNewCid .pinned s seq rpt cid with
  | discarded => exact absurd hr (recvNewCid_ne_discarded _ s seq rpt cid this)
  | errLimit _ => simp only; omega
  | accepted _ => simp only; omega
  | panic _ => simp only; omega

theorem new_cid_cost_bounded_fails :
    ¬ (∃ B : Nat, ∀ (s : Cid.Remote) (seq rpt : Nat) (cid : Cid.Cid), rpt ≤ seq →
        (handleNewCid false s seq rpt cid).2.total ≤ B * (sizeRcid s + 1)) := by
  intro ⟨B, h⟩
  have h1 := h (Cid.Remote.init 2) (3 * B + 3) (3 * B + 3) (.ext 0) (Nat.le_refl _)
  have h2 := new_cid_old_cells (Cid.Remote.init 2) (3 * B + 3) (3 * B + 3) (.ext 0)
    (by simp [Cid.Remote.init]) (by simp [Cid.Remote.init])
  have h3 : (Cid.Remote.init 2).insertCost (3 * B + 3) = 3 * B + 4 := by
    simp [Cid.Remote.insertCost, Cid.Remote.insertCid, Cid.Remote.init]
  have h4 : sizeRcid (Cid.Remote.init 2) = 2 := by
    simp [sizeRcid, Cid.Remote.init, allocTotal]
  rw [h4] at h1
  simp only [Cost.total] at h1
  omega

/-! ## RETIRE_CONNECTION_ID, set_limit -/

/-- **over_limit_rejected (retire of an unissued id)** ⇒ PROTOCOL_VIOLATION -/
theorem retire_unissued_rejected (l : Cid.Local) (seq : Nat) (c : Cid.Cid) (h : l.largest ≤ seq) :
    handleRetireCid l seq c = (.err .protocolViolation, Cost.one) := by
  unfold handleRetireCid Cid.Local.retire
  simp [h]

theorem retire_cost_bounded (l : Cid.Local) (seq : Nat) (c : Cid.Cid) :
    (handleRetireCid l seq c).2.total ≤ l.dq.length + 2 := by
  unfold handleRetireCid
  split <;> simp [Cost.total, Cost.one]

/-- **handler_cost_bounded (peer's active_connection_id_limit)**, fixed code: at most 64 ids are issued -/
theorem set_limit_cost_bounded (l : Cid.Local) (next n : Nat) :
    (handleSetLimit true l next n).2.total ≤ 3 * maxIssuedCids + 1 := by
  unfold handleSetLimit setLimitIssued
  split; · simp [Cost.total, Cost.one]
  split; · simp [Cost.total, Cost.one]
  simp only [Cost.total, if_true]
  omega

theorem set_limit_cost_bounded_fails :
    ¬ (∃ B : Nat, ∀ (l : Cid.Local) (next n : Nat), (handleSetLimit false l next n).2.total ≤ B + l.dq.length) := by
  intro ⟨B, h⟩
  have hb : ¬ (B + 2 < 2) := by omega
  have := h { off := 0, dq := [], limit := none } 0 (B + 2)
  simp [handleSetLimit, setLimitIssued, Cid.Local.largest, Cost.total, hb] at this
  omega

theorem set_limit_below_2_rejected (fixed : Bool) (l : Cid.Local) (next n : Nat) (h0 : l.limit = none) (h : n < 2) :
    handleSetLimit fixed l next n = (.err .transportParameter, Cost.one) := by
  unfold handleSetLimit; simp [h0, h]

/-! ## stream frames -/

open GmQuic.StreamRules GmQuic.Sid in
theorem created_le_headroom (e : Endpoint) (k : FrameKind) (s : Nat) : created e k s ≤ headroom e := by
  unfold created
  split
  · split
    · rename_i a b fr heq
      unfold Remote.step at heq
      simp only at heq
      split at heq; · cases heq
      split at heq; · cases heq
      split at heq; · cases heq
      split at heq; · cases heq
      rename_i h1 h2 h3 h4
      split at heq; · cases heq
      simp only [RObs.new.injEq] at heq
      obtain ⟨ha, hb, -⟩ := heq
      subst ha; subst hb
      simp only [sidIdx_sid]
      unfold headroom
      cases hd : sidDir s <;> simp only [hd, Per.get] at h3 h4 ⊢ <;> omega
    · simp
  · simp

open GmQuic.StreamRules in
/-- **handler_cost_bounded (STREAM / RESET_STREAM / STOP_SENDING / MAX_STREAM_DATA / STREAM_DATA_BLOCKED)**: a frame on
a high stream id creates all lower streams, but never more than the endpoint has advertised room for — whatever the
stream id, offset, length or final size. -/
theorem stream_cost_bounded (e : Endpoint) (k : FrameKind) (s a b : Nat) (fin : Bool) :
    (handleStreamFrame e k s a b fin).2.total ≤ 4 * headroom e + 1 := by
  have := created_le_headroom e k s
  unfold handleStreamFrame
  simp only
  split <;> simp only [Cost.total] <;> omega

open GmQuic.StreamRules GmQuic.Sid in
/-- **over_limit_rejected (stream count)** ⇒ STREAM_LIMIT_ERROR, nothing created (the comparison is the code's
`sid.id() > max`: index = max itself is accepted — C12's known finding, DESIGN §7 #21). -/
theorem stream_limit_rejected (e : Endpoint) (k : FrameKind) (s a b : Nat) (fin : Bool)
    (hg : codeGate k (sidRole s != e.role) (sidDir s) = .accept)
    (hp : e.rem.poisoned = false) (hr : sidRole s = e.rem.role)
    (h : sidIdx s > e.rem.max.get (sidDir s)) :
    handleStreamFrame e k s a b fin = (.err .streamLimit, ⟨1, 0⟩) := by
  have hs : e.rem.step std (.accept s) = (e.rem, .exceed (e.rem.max.get (sidDir s))) := by
    unfold Remote.step; simp [hp, hr, h]
  have hc : created e k s = 0 := by unfold created; simp [hg, hs]
  unfold handleStreamFrame
  simp only [hc, Endpoint.step, hg, Endpoint.acceptSid, hs, ekOf]

open GmQuic.StreamRules GmQuic.Sid in
/-- non-vacuity: a server that advertised 1 bidirectional stream receives STREAM on client-initiated stream 400 -/
example : ∃ e, Endpoint.new .server 1 1 1 1 ⟨10, 10, 10⟩ .demand = some e ∧
    codeGate .stream (sidRole 400 != e.role) (sidDir 400) = .accept ∧ e.rem.poisoned = false ∧
    sidRole 400 = e.rem.role ∧ sidIdx 400 > e.rem.max.get (sidDir 400) := by
  refine ⟨_, rfl, ?_⟩
  decide

open GmQuic.StreamRules GmQuic.Sid in
/-- non-vacuity: a client receives STREAM on its own unidirectional stream 2 -/
example : codeGate .stream (sidRole 2 != Role.client) (sidDir 2) = .streamState := by decide

open GmQuic.StreamRules GmQuic.Sid in
/-- frames for the wrong half of a unidirectional stream ⇒ STREAM_STATE_ERROR, nothing created -/
theorem stream_state_rejected (e : Endpoint) (k : FrameKind) (s a b : Nat) (fin : Bool)
    (hg : codeGate k (sidRole s != e.role) (sidDir s) = .streamState) :
    handleStreamFrame e k s a b fin = (.err .streamState, ⟨1, 0⟩) := by
  have hc : created e k s = 0 := by unfold created; simp [hg]
  unfold handleStreamFrame
  simp only [hc, Endpoint.step, hg, ekOf]

open GmQuic.StreamRules in
/-- the error kind is exactly the one C12's endpoint model reports (so C12 / C11's theorems about WHEN a
FINAL_SIZE / FLOW_CONTROL / STREAM_LIMIT / STREAM_STATE error is raised carry over) -/
theorem stream_err_kind_faithful (e : Endpoint) (k : FrameKind) (s a b : Nat) (fin : Bool) (ek : StreamRules.ErrKind)
    (h : (e.step (.frame k s a b fin)).2 = .err ek) :
    (handleStreamFrame e k s a b fin).1.isErr = some (ekOf ek) := by
  unfold handleStreamFrame
  generalize e.step (.frame k s a b fin) = r at *
  obtain ⟨e', o⟩ := r
  simp only at h; subst h
  rfl

/-- **over_limit_rejected (connection flow control)** ⇒ FLOW_CONTROL_ERROR -/
theorem flow_control_rejected (s : Flow.RecvCtl) (n : Nat) (hp : s.poisoned = false) (h64 : s.rcvd + n < 2 ^ 64)
    (h : s.rcvd + n > s.max) : handleNewRcvd s n = (.err .flowControl, Cost.one) := by
  unfold handleNewRcvd Flow.RecvCtl.onNewRcvd
  have h1 : ¬ s.rcvd + n ≥ 2 ^ 64 := by omega
  have h2 : ¬ s.rcvd + n ≤ s.max := by omega
  simp [hp, h1, h2]

example : (Flow.RecvCtl.init 10).poisoned = false ∧ (Flow.RecvCtl.init 10).rcvd + 11 > (Flow.RecvCtl.init 10).max := by decide

/-! ## every frame -/

/-- what the parser guarantees about a frame value and the handlers rely on -/
def FrameOk : Codec.Frame → Prop
  | .newConnectionId seq rpt _ _ => rpt ≤ seq
  | _ => True

/-- explicit bound per frame kind -/
def stepBound (st : St) : Codec.Frame → Nat
  | .ack largest delay first ranges _ => ackBound st.ack ⟨largest, delay, first, ranges⟩
  | .newConnectionId .. => 5 * sizeRcid st.rcid + 3 * maxSeqGap + 4
  | .retireConnectionId _ => st.lcid.dq.length + 2
  | .stream _ _ _ _ _ data => 4 * headroom st.ep + 1 + data.length
  | .streamCtl (.maxStreams ..) => 1
  | .streamCtl (.streamsBlocked ..) => 2
  | .streamCtl _ => 4 * headroom st.ep + 1
  | .crypto _ _ data => 2 * st.crypto.segs.length + 3 + data.length
  | _ => 2

/-- **handler_cost_bounded**: for every connection state and every frame the 1-RTT dispatcher's work is at most
`stepBound` — a function of the frame's length (ranges, data bytes), the cells already held, the stream headroom the
endpoint itself advertised, and the constants of the file (`maxSeqGap`); never of a numeric field of the frame, except
`largest + 1 ≤ next pn` in the ACK term (`ack_send_side_not_bounded_by_window`). -/
theorem handler_cost_bounded (st : St) (f : Codec.Frame) (hf : FrameOk f) : (step st f).2.total ≤ stepBound st f := by
  cases f with
  | ack largest delay first ranges ecn => exact ack_cost_bounded st.ack ⟨largest, delay, first, ranges⟩
  | newConnectionId seq rpt cid tok => exact new_cid_cost_bounded st.rcid seq rpt _ hf
  | retireConnectionId seq => exact retire_cost_bounded st.lcid seq _
  | maxData n =>
    simp only [step, stepBound, handleMaxData]
    split <;> simp [Cost.total, Cost.one]
  | stream sid off len lb fin data =>
    have := stream_cost_bounded st.ep .stream sid off data.length fin
    simp only [step, stepBound, Cost.total, HAdd.hAdd, Add.add] at *
    simp only [Nat.add_eq] at *
    omega
  | crypto off len data =>
    simp only [step, stepBound, handleCrypto, Cost.total, RecvBuf.loopFuel]
    omega
  | streamCtl c =>
    cases c with
    | maxStreams uni n =>
      simp only [step, stepBound, handleMaxStreams]
      split <;> simp [Cost.total, Cost.one]
    | streamsBlocked uni n =>
      simp only [step, stepBound, handleStreamsBlocked]
      split <;> simp [Cost.total, Cost.one]
    | resetStream sid code fs => exact stream_cost_bounded st.ep .resetStream sid fs 0 false
    | stopSending sid code => exact stream_cost_bounded st.ep .stopSending sid 0 0 false
    | maxStreamData sid n => exact stream_cost_bounded st.ep .maxStreamData sid n 0 false
    | streamDataBlocked sid n => exact stream_cost_bounded st.ep .streamDataBlocked sid n 0 false
  | _ => simp [step, stepBound, Cost.total, Cost.one]

example : FrameOk (.newConnectionId 5 2 [] []) := by simp [FrameOk]

end GmQuic.Props.C04
