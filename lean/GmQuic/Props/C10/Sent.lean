import GmQuic.Lemmas.SentHist
import GmQuic.Lemmas.AckNodup
/-!
C10, sending direction.  `runFrom init ops` ranges over ALL histories of packets built with zero, one or many frames /
trivial packets / empty guards, peer ACK frames (`space.rs recv_frame`: any frame, overlapping, repeated, out of order,
for unsent numbers), direct `on_packet_acked` / `may_loss_packet` calls for arbitrary numbers, rotations (`resize`) and
clock ticks (expiry).  Not covered by the theorems (correspondence-tested only): a guard abandoned after
`record_frame` (C07's `NoAbandonAfterRecord` caller obligation) and `fast_retransmit` (no caller in the workspace).
`live s pn` = the frames recorded (ghost log) for packet `pn` while its record is Flighting or Retransmitted.
-/
namespace GmQuic.Props.C10
open GmQuic.SentFrames
open GmQuic.SentJournal (Rec)
open GmQuic.RcvdJournal (AckFrame pnsDesc)

/-- non-vacuity of the `plain` hypothesis used throughout: every kind of covered operation -/
example : ∀ op ∈ [Op.pkt [1] false 1 1, .pkt [] true 1 1, .pkt [] false 1 1, .ack ⟨0, 0, 0, []⟩, .acked [0, 7], .lost [0], .rotate, .tick 5],
    op.plain = true := by decide

/-- `pkt` records exactly the frames it was given under the number it reports. -/
theorem frames_recorded (ops : List Op) (hp : ∀ op ∈ ops, op.plain = true) (frames : List Nat) (trivial : Bool) (rt et n : Nat)
    (h : (step (runFrom init ops) (.pkt frames trivial rt et)).2 = .pn (some n)) :
    n = (runFrom init ops).largest ∧ live (step (runFrom init ops) (.pkt frames trivial rt et)).1 n = frames := by
  obtain ⟨hi, -, -⟩ := runFrom_plain ops init init_sinv hp
  generalize runFrom init ops = s at *
  have hlen := hi.len
  simp only [step, stepWith] at h ⊢
  split at h
  · rename_i hc
    split at h
    · cases h
    · simp only [Out.pn.injEq, Option.some.injEq] at h
      subst h
      rw [if_pos hc, if_neg (by assumption)]
      refine ⟨rfl, ?_⟩
      have : frames = [] := List.eq_nil_of_length_eq_zero hc.2
      subst this
      simp [live, State.largest]
  · rename_i hc
    split at h
    · rename_i hpos
      split at h
      · cases h
      · simp only [Out.pn.injEq, Option.some.injEq] at h
        subst h
        rw [if_neg hc, if_pos hpos, if_neg (by assumption)]
        refine ⟨rfl, ?_⟩
        simp [live, State.largest, List.getD_eq_getElem?_getD, hlen]
    · cases h

example : (step (runFrom init [.pkt [1, 2] false 5 9]) (.pkt [3] true 5 9)).2 = .pn (some 1) := by decide

/-- **acked_frames_exact** (single packet): after any history, `on_packet_acked(pn)` does not panic, yields exactly the
frames recorded for `pn` if that packet is in flight (nothing for skipped / already acknowledged / dropped / unsent
numbers), and leaves every sent number `pn` settled. -/
theorem acked_frames_exact (ops : List Op) (hp : ∀ op ∈ ops, op.plain = true) (pn : Nat) :
    ∃ s', touchFrames (runFrom init ops) pn Rec.beAcked = some (s', live (runFrom init ops) pn) ∧
      (pn < (runFrom init ops).largest → Settled s' pn) := by
  obtain ⟨hi, -, -⟩ := runFrom_plain ops init init_sinv hp
  obtain ⟨s', h1, -, -, -, -, -, -, h2, -, -⟩ := acked_spec _ hi pn
  exact ⟨s', h1, h2⟩

/-- **acked once, nothing afterwards**: once a sent packet number has been through an accepted ACK (`ack`) or
`on_packet_acked`, no later history makes `on_packet_acked` or `may_loss_packet` report anything for it again. -/
theorem acked_nothing_afterwards (pre post : List Op) (hpre : ∀ op ∈ pre, op.plain = true) (hpost : ∀ op ∈ post, op.plain = true)
    (pns : List Nat) (pn : Nat) (hm : pn ∈ pns) (hs : pn < (runFrom init pre).largest) :
    let s := runFrom (step (runFrom init pre) (.acked pns)).1 post
    live s pn = [] ∧ (∃ s', touchFrames s pn Rec.beAcked = some (s', [])) ∧
      (∃ s', touchFrames s pn Rec.maybeLost = some (s', [])) := by
  obtain ⟨hi, -, -⟩ := runFrom_plain pre init init_sinv hpre
  generalize runFrom init pre = s0 at *
  obtain ⟨s1, fs, h1, i1, o1, l1, n1, a1, len1, keep1, set1, -, -⟩ := touchAll_acked pns s0 hi
  obtain ⟨s2, hr, i2, -, -, -, -, hs2⟩ := resize_spec s1 i1
  have hstep : (step s0 (.acked pns)).1 = s2 := by simp only [step, stepWith, withResize, h1, Option.map_some, hr]
  have hset : Settled s2 pn := hs2 pn (set1 pn hm hs)
  obtain ⟨i3, keep3, -⟩ := runFrom_plain post s2 i2 hpost
  intro s
  have hs' : Settled s pn := by show Settled (runFrom (step s0 (.acked pns)).1 post) pn; rw [hstep]; exact keep3 pn hset
  have hlive := settled_live s pn hs'
  have hi3 : SInv s := by show SInv (runFrom (step s0 (.acked pns)).1 post); rw [hstep]; exact i3
  obtain ⟨s'', h4, -⟩ := acked_spec s hi3 pn
  obtain ⟨s3, h5, -⟩ := lost_spec s hi3 pn
  rw [hlive] at h4 h5
  exact ⟨hlive, ⟨s'', h4⟩, ⟨s3, h5⟩⟩

/-- non-vacuity of `acked_nothing_afterwards`: packet 0 carried frames, is acknowledged, later declared lost: nothing -/
example : let s := runFrom (step (runFrom init [.pkt [1, 2] false 5 9]) (.acked [0])).1 [.tick 3, .lost [0]]
    (0 : Nat) ∈ [0] ∧ 0 < (runFrom init [.pkt [1, 2] false 5 9]).largest ∧ live s 0 = [] := by decide

/-- **acked_frames_exact** (whole ACK frame, `space.rs recv_frame`): an accepted, well-formed ACK frame reports exactly
the concatenation, in the order the numbers are enumerated (descending), of the frames recorded for the in-flight
packets it covers — each frame once, nothing else. -/
theorem ack_reports_exact (ops : List Op) (hp : ∀ op ∈ ops, op.plain = true) (f : AckFrame) (rs : List (Nat × Nat))
    (hit : f.iter = some rs) (hok : updateLargestOk (runFrom init ops) f.largest = true) :
    (step (runFrom init ops) (.ack f)).2 = .frames (((pnsDesc rs).map (live (runFrom init ops))).flatten) := by
  obtain ⟨hi, -, -⟩ := runFrom_plain ops init init_sinv hp
  generalize runFrom init ops = s at *
  obtain ⟨s1, fs, h1, i1, -, -, -, -, -, -, -, -, hfs⟩ :=
    touchAll_acked (pnsDesc rs) { s with la := max s.la f.largest } (sinv_la s hi _)
  obtain ⟨s', hr, -⟩ := resize_spec s1 i1
  simp only [step, stepWith, hok, if_true, hit, withResize, h1, Option.map_some, hr]
  rw [hfs (GmQuic.RcvdJournal.iter_nodup f rs hit)]
  congr 2

example : (step (runFrom init [.pkt [1, 2] false 5 9, .pkt [] true 5 9, .pkt [3] false 5 9]) (.ack ⟨2, 0, 2, []⟩)).2
    = .frames [3, 1, 2] := by decide

/-- **lost_frames_reported**: `may_loss_packet(pn)` does not panic and yields exactly the frames recorded for `pn` if it is
in flight (Flighting or already Retransmitted), nothing otherwise; the packet stays in flight, so a later ACK still
delivers its frames. -/
theorem lost_frames_reported (ops : List Op) (hp : ∀ op ∈ ops, op.plain = true) (pn : Nat) :
    ∃ s', touchFrames (runFrom init ops) pn Rec.maybeLost = some (s', live (runFrom init ops) pn) ∧
      live s' pn = live (runFrom init ops) pn := by
  obtain ⟨hi, -, -⟩ := runFrom_plain ops init init_sinv hp
  obtain ⟨s', h1, -, -, -, -, -, -, -, h2⟩ := lost_spec _ hi pn
  exact ⟨s', h1, h2 pn⟩

example : (touchFrames (runFrom init [.pkt [7, 8] false 5 9]) 0 Rec.maybeLost).map (·.2) = some [7, 8] := by decide

/-- **offsets_survive_resize**: after any history, `resize` (every rotate-guard drop) does not panic, and every packet
number that survives it maps to the same recorded frames as before (the `drain(..f)` / `advance(n)` pair is consistent). -/
theorem offsets_survive_resize (ops : List Op) (hp : ∀ op ∈ ops, op.plain = true) :
    ∃ s', resize (runFrom init ops) = some s' ∧
      ∀ pn, s'.offset ≤ pn → live s' pn = live (runFrom init ops) pn ∧ recorded s' pn = recorded (runFrom init ops) pn := by
  obtain ⟨hi, -, -⟩ := runFrom_plain ops init init_sinv hp
  obtain ⟨s', h1, -, -, -, -, h2, -⟩ := resize_spec _ hi
  exact ⟨s', h1, h2⟩

/-- no covered operation panics, except a packet number beyond 2^62 − 1 and an ill-formed ACK frame (`iter` underflow) -/
theorem sent_ops_do_not_panic (ops : List Op) (hp : ∀ op ∈ ops, op.plain = true) (op : Op) (hop : op.plain = true)
    (h : (step (runFrom init ops) op).2 = .panic) :
    (runFrom init ops).largest > GmQuic.Gen.varintMax ∨ ∃ f, op = .ack f ∧ f.iter = none := by
  obtain ⟨hi, -, -⟩ := runFrom_plain ops init init_sinv hp
  exact (step_plain _ hi op hop).2.2.2 h

/-- **ack_of_unsent_rejected** (FIXED code, `repo_patches/fix-C10-ack-of-unsent.diff`): after any history, an ACK frame
whose largest acknowledged is not below the next packet number to be sent is refused (`PROTOCOL_VIOLATION`), reports
nothing and changes nothing but the rotation. -/
theorem ack_of_unsent_rejected (ops : List Op) (hp : ∀ op ∈ ops, op.plain = true) (f : AckFrame)
    (h : (runFrom init ops).largest ≤ f.largest) :
    (step (runFrom init ops) (.ack f)).2 = .err ∧ (step (runFrom init ops) (.ack f)).1.la = (runFrom init ops).la := by
  obtain ⟨hi, -, -⟩ := runFrom_plain ops init init_sinv hp
  generalize runFrom init ops = s at *
  obtain ⟨s', hr, -, -, -, hla, -⟩ := resize_spec s hi
  have : updateLargestOk s f.largest = false := by simp [updateLargestOk]; omega
  simp only [step, stepWith, this, withResize, hr]
  exact ⟨by simp, hla⟩

example : (runFrom init [.pkt [1] false 5 9]).largest ≤ (⟨1, 0, 0, []⟩ : AckFrame).largest := by decide

/-- The unchanged code (`>` instead of `>=`) accepts an ACK of the next, not yet sent, packet number: with nothing
sent at all, `ACK largest = 0` is accepted (DESIGN §7 #25; replayed on the real code by `C10s` case 0). -/
theorem ack_of_unsent_rejected_fails :
    ¬ (∀ (ops : List Op) (f : AckFrame), (∀ op ∈ ops, op.plain = true) →
        (ops.foldl (fun s op => (stepOld s op).1) init).largest ≤ f.largest →
        (stepOld (ops.foldl (fun s op => (stepOld s op).1) init) (.ack f)).2 = .err) := by
  intro h
  have := h [] ⟨0, 0, 0, []⟩ (by simp) (by decide)
  revert this; decide

/-- what the unchanged code does guarantee: strictly larger numbers are refused -/
theorem ack_of_unsent_rejected_partial (s : State) (f : AckFrame) (h : s.largest < f.largest) :
    updateLargestOkOld s f.largest = false := by
  simp [updateLargestOkOld]; omega

end GmQuic.Props.C10
