import GmQuic.Lemmas.RcvdScan
import GmQuic.Lemmas.AckRoom
import GmQuic.Lemmas.AckTight
/-!
C10, receiving direction: what a generated ACK frame says is true of what was received.
`run ops` ranges over ALL histories of `on_rcvd_pn` (any order, duplicates, gaps, old numbers), `gen_ack_frame_util`
(any packet number, any requested largest, any delay, any capacity), peer ACK frames and clock ticks.
-/
namespace GmQuic.Props.C10
open GmQuic.RcvdJournal GmQuic.Pn

/-- The literals of `gen_ack_frame_util`'s capacity arithmetic that the model spells out (`min_len = 1 + … + 1`,
`first_range.saturating_sub(1)`, the fold's initial `(1, 0, false)` and restart `(1, 0, _)`, the `- 1` corrections of gap and
ack, the `+ 1` steps, the strict test of the last range) are the ones the source has NOW (`Gen/AckConsts.lean`, regenerated
by `xlate/gen_ackconsts.py` on every run; the boundaries of `range_count_size_increment` are not pinned but used by the
model directly, so `ack_fits` is re-proved against them).  `ackLastSpare` (0 for `capacity >= size`, 1 for the former strict
`capacity > size`) is USED by the model (`genFrame`), and `ack_complete_when_room_tight` needs it to be 0. -/
theorem gen_ack_literals_match_source :
    GmQuic.Gen.ackMinLenType = 1 ∧ GmQuic.Gen.ackMinLenCount = 1 ∧ GmQuic.Gen.ackFirstSub = 1 ∧
    GmQuic.Gen.ackFoldGap0 = 1 ∧ GmQuic.Gen.ackFoldAck0 = 0 ∧ GmQuic.Gen.ackNewGap = 1 ∧ GmQuic.Gen.ackNewAck = 0 ∧
    GmQuic.Gen.ackGapSub = 1 ∧ GmQuic.Gen.ackAckSub = 1 ∧ GmQuic.Gen.ackGapStep = 1 ∧ GmQuic.Gen.ackAckStep = 1 ∧
    GmQuic.Gen.ackLastSpare ≤ 1 := by decide

/-- **ack_largest_is_requested**: an `Ok` frame carries the requested largest number and delay. -/
theorem ack_largest_is_requested (ops : List Op) (pn largest delay cap : Nat) (f : AckFrame)
    (h : (genAck (run ops) pn largest delay cap).2 = .ok f) : f.largest = largest ∧ f.delay = delay := by
  obtain ⟨v, hv, -⟩ := genAck_ok _ _ _ _ _ _ h
  unfold genFrame at hv
  simp only at hv
  split at hv
  · simp at hv
  · simp only [Prod.mk.injEq, GenOut.ok.injEq] at hv
    obtain ⟨hv, -⟩ := hv
    subst hv; simp

example : (genAck (run [.rcv 3 true 100]) 0 3 7 100).2 = .ok ⟨3, 7, 0, []⟩ := by decide

/-- **ack_fits**: whenever the answer is `Ok`, `AckFrame::encoding_size()` is at most the capacity that was offered —
for every journal state reachable by any history, every packet number, largest, delay and capacity. -/
theorem ack_fits (ops : List Op) (pn largest delay cap : Nat) (f : AckFrame)
    (h : (genAck (run ops) pn largest delay cap).2 = .ok f) : f.size ≤ cap := by
  obtain ⟨v, hv, -⟩ := genAck_ok _ _ _ _ _ _ h
  exact genFrame_fits _ _ _ _ _ _ hv

/-- non-vacuity: a capacity that cuts the frame (three ranges exist, room for none) still gives `Ok` and fits exactly -/
example : (genAck (run [.rcv 0 true 1, .rcv 2 true 1, .rcv 4 true 1, .rcv 6 true 1]) 1 6 0 5).2 = .ok ⟨6, 0, 0, []⟩ := by decide

/-- **ack_only_received**: if the requested largest number was ever registered with `on_rcvd_pn`, the frame is
well-formed (`AckFrame::iter` does not underflow) and every packet number it enumerates was registered. -/
theorem ack_only_received (ops : List Op) (pn largest delay cap : Nat) (f : AckFrame)
    (hl : largest ∈ (run ops).rcvdLog)
    (h : (genAck (run ops) pn largest delay cap).2 = .ok f) :
    ∃ out, f.iter = some out ∧ ∀ p, covers out p = true → p ∈ (run ops).rcvdLog := by
  have inv := run_inv ops
  generalize run ops = s at *
  obtain ⟨v, hv, -⟩ := genAck_ok _ _ _ _ _ _ h
  obtain ⟨cap0, hr, hf⟩ := genFrame_ranges _ _ _ _ _ _ hv
  have hL : f.largest = largest := by
    unfold genFrame at hv; simp only at hv; split at hv
    · simp at hv
    · simp only [Prod.mk.injEq, GenOut.ok.injEq] at hv; obtain ⟨hv, -⟩ := hv; subst hv; rfl
  rcases Nat.lt_or_ge largest s.offset with hlt | hge
  · -- the record was rotated out: the frame acknowledges `largest` alone
    rw [bsOf_below_offset s largest hlt] at hr hf
    have hr' : f.ranges = [] := by rw [hr]; simp [finalRanges, foldRanges]
    have hf' : f.first = 0 := by rw [hf]; simp [leadTrue]
    refine ⟨[(largest, largest)], ?_, ?_⟩
    · unfold AckFrame.iter; rw [hr', hf', hL]; simp [iterRanges]
    · intro p hp
      simp only [covers, List.any_cons, List.any_nil, Bool.or_false, decide_eq_true_eq] at hp
      have : p = largest := by omega
      rw [this]; exact hl
  · -- the record is tracked: it is non-empty, the frame's cover is a prefix of the scanned flags
    have hhas : s.has largest = true := by
      rcases inv.gone largest hl with hg | hg
      · simp only [abs] at hg; omega
      · rw [has_eq_seen]; exact hg
    obtain ⟨-, hlt⟩ := has_lt_largest s largest hhas
    have h0 : 1 ≤ leadTrue (bsOf s largest) := by
      apply leadTrue_pos
      rw [covAt_bsOf s largest 0 hge hlt]; simp [hhas]
    have hpre := genFrame_prefix _ _ _ _ _ _ hv h0
    have hlen : (cover f.first f.ranges).length ≤ f.largest + 1 := by
      have := hpre.length_le
      rw [bsOf_length, below_eq s largest hge hlt] at this
      omega
    obtain ⟨out, ho, hc⟩ := (iter_spec f).2 hlen
    refine ⟨out, ho, ?_⟩
    intro p hp
    rw [hc p, hL] at hp
    simp only [Bool.and_eq_true, decide_eq_true_eq] at hp
    have h2 := covAt_prefix _ _ hpre _ hp.2
    rw [covAt_bsOf s largest _ hge hlt] at h2
    simp only [Bool.and_eq_true, decide_eq_true_eq] at h2
    have e : largest - (largest - p) = p := by omega
    rw [e] at h2
    exact inv.logged p h2.2

example : (5 : Nat) ∈ (run [.rcv 5 true 100, .rcv 2 false 100]).rcvdLog := by decide

/-- The hypothesis of `ack_only_received` is needed: asked for a `largest` that was never received (a caller
contract: `need_ack` only returns received numbers), the unchanged code claims it — and the numbers below it. -/
theorem ack_only_received_needs_largest_rcvd :
    ¬ (∀ (ops : List Op) (pn largest delay cap : Nat) (f : AckFrame),
        (genAck (run ops) pn largest delay cap).2 = .ok f →
        ∃ out, f.iter = some out ∧ ∀ p, covers out p = true → p ∈ (run ops).rcvdLog) := by
  intro h
  obtain ⟨out, ho, hc⟩ := h [.rcv 0 true 100, .rcv 1 true 100, .rcv 3 true 100] 2 7 0 100 ⟨7, 0, 0, [(0, 1)]⟩ (by decide)
  have : out = [(7, 7), (4, 5)] := by
    have : (⟨7, 0, 0, [(0, 1)]⟩ : AckFrame).iter = some [(7, 7), (4, 5)] := by decide
    rw [this] at ho; cases ho; rfl
  subst this
  have := hc 7 (by decide)
  revert this; decide

/-- **ack_complete_when_room** (explicit generous room: 47 bytes + 21 per tracked record up to `largest`): every tracked
received number `≤ largest` is enumerated by the frame.  The tight bound is `ack_complete_when_room_tight` below. -/
theorem ack_complete_when_room (ops : List Op) (pn largest delay cap : Nat) (f : AckFrame)
    (hl : (run ops).has largest = true)
    (hroom : 47 + 21 * (largest + 1 - (run ops).offset) ≤ cap)
    (h : (genAck (run ops) pn largest delay cap).2 = .ok f) :
    ∃ out, f.iter = some out ∧ ∀ p, p ≤ largest → (run ops).has p = true → covers out p = true := by
  generalize run ops = s at *
  obtain ⟨v, hv, -⟩ := genAck_ok _ _ _ _ _ _ h
  have hL : f.largest = largest := by
    unfold genFrame at hv; simp only at hv; split at hv
    · simp at hv
    · simp only [Prod.mk.injEq, GenOut.ok.injEq] at hv; obtain ⟨hv, -⟩ := hv; subst hv; rfl
  obtain ⟨hge, hlt⟩ := has_lt_largest s largest hl
  have h0 : 1 ≤ leadTrue (bsOf s largest) := by
    apply leadTrue_pos
    rw [covAt_bsOf s largest 0 hge hlt]; simp [hl]
  have hblen : (bsOf s largest).length = largest + 1 - s.offset := by rw [bsOf_length, below_eq s largest hge hlt]
  obtain ⟨t, ht, hf⟩ := genFrame_complete _ _ _ _ _ _ hv h0 (by rw [hblen]; exact hroom)
  have hlen : (cover f.first f.ranges).length ≤ f.largest + 1 := by
    have := congrArg List.length ht
    rw [hblen, List.length_append] at this
    omega
  obtain ⟨out, ho, hc⟩ := (iter_spec f).2 hlen
  refine ⟨out, ho, ?_⟩
  intro p hp hhp
  rw [hc p, hL]
  simp only [Bool.and_eq_true, decide_eq_true_eq]
  refine ⟨hp, ?_⟩
  obtain ⟨hpo, -⟩ := has_lt_largest s p hhp
  apply covAt_append_false _ t _ hf
  rw [← ht, covAt_bsOf s largest _ hge hlt]
  have e : largest - (largest - p) = p := by omega
  simp only [e, hhp, Bool.and_true, decide_eq_true_eq]
  omega

example : (run [.rcv 0 true 1, .rcv 2 true 1]).has 2 = true ∧ 47 + 21 * (2 + 1 - (run [.rcv 0 true 1, .rcv 2 true 1]).offset) ≤ 110 ∧
    (genAck (run [.rcv 0 true 1, .rcv 2 true 1]) 1 2 0 110).2 = .ok ⟨2, 0, 0, [(0, 0)]⟩ := by decide

/-- **ack_complete_when_room** (tight): `fullSize` (defined from the journal state alone, independent of the capacity) is
the encoded size of the complete frame, and every capacity `≥ fullSize` yields that complete frame: every tracked
received number `≤ largest` is enumerated and `encoding_size() = fullSize`.  Together with `ack_fits` this is exact: a
capacity below `fullSize` cannot hold the complete frame.  (Before fix-C10-ack-exact-fit the last range was pushed only if
`capacity > size`, so the theorem needed `fullSize < cap`; the excluded behaviour is kept as an `example` below.) -/
theorem ack_complete_when_room_tight (ops : List Op) (pn largest delay cap : Nat) (f : AckFrame)
    (hl : (run ops).has largest = true)
    (hroom : fullSize largest delay (bsOf (run ops) largest) ≤ cap)
    (h : (genAck (run ops) pn largest delay cap).2 = .ok f) :
    (∃ out, f.iter = some out ∧ ∀ p, p ≤ largest → (run ops).has p = true → covers out p = true) ∧
    f.size = fullSize largest delay (bsOf (run ops) largest) := by
  generalize run ops = s at *
  obtain ⟨v, hv, -⟩ := genAck_ok _ _ _ _ _ _ h
  have hL : f.largest = largest := by
    unfold genFrame at hv; simp only at hv; split at hv
    · simp at hv
    · simp only [Prod.mk.injEq, GenOut.ok.injEq] at hv; obtain ⟨hv, -⟩ := hv; subst hv; rfl
  obtain ⟨hge, hlt⟩ := has_lt_largest s largest hl
  have h0 : 1 ≤ leadTrue (bsOf s largest) := by
    apply leadTrue_pos
    rw [covAt_bsOf s largest 0 hge hlt]; simp [hl]
  have hblen : (bsOf s largest).length = largest + 1 - s.offset := by rw [bsOf_length, below_eq s largest hge hlt]
  obtain ⟨⟨t, ht, hf⟩, hsz⟩ := genFrame_complete_tight _ _ _ _ _ _ hv h0 hroom
  refine ⟨?_, hsz⟩
  have hlen : (cover f.first f.ranges).length ≤ f.largest + 1 := by
    have := congrArg List.length ht
    rw [hblen, List.length_append] at this
    omega
  obtain ⟨out, ho, hc⟩ := (iter_spec f).2 hlen
  refine ⟨out, ho, ?_⟩
  intro p hp hhp
  rw [hc p, hL]
  simp only [Bool.and_eq_true, decide_eq_true_eq]
  refine ⟨hp, ?_⟩
  obtain ⟨hpo, -⟩ := has_lt_largest s p hhp
  apply covAt_append_false _ t _ hf
  rw [← ht, covAt_bsOf s largest _ hge hlt]
  have e : largest - (largest - p) = p := by omega
  simp only [e, hhp, Bool.and_true, decide_eq_true_eq]
  omega

/-- non-vacuity: received {0,2}: the complete frame has 7 bytes; capacity 7 (exactly) gives it -/
example : fullSize 2 0 (bsOf (run [.rcv 0 true 1, .rcv 2 true 1]) 2) = 7 ∧
    (genAck (run [.rcv 0 true 1, .rcv 2 true 1]) 1 2 0 7).2 = .ok ⟨2, 0, 0, [(0, 0)]⟩ := by decide

/-- **ack_complete_iff_room**: the frame enumerates every tracked received number `≤ largest` exactly when the capacity
offered is at least the size of the complete frame (`⇐` is `ack_complete_when_room_tight`; `⇒`: a complete frame has
`fullSize` bytes and `ack_fits`).  Stated on sizes: an `Ok` frame has `fullSize` bytes iff `fullSize ≤ cap`. -/
theorem ack_exact_fit (ops : List Op) (pn largest delay cap : Nat) (f : AckFrame)
    (hl : (run ops).has largest = true)
    (h : (genAck (run ops) pn largest delay cap).2 = .ok f) :
    f.size = fullSize largest delay (bsOf (run ops) largest) ↔ fullSize largest delay (bsOf (run ops) largest) ≤ cap := by
  constructor
  · intro e; rw [← e]; exact ack_fits ops pn largest delay cap f h
  · intro hroom; exact (ack_complete_when_room_tight ops pn largest delay cap f hl hroom h).2

/-- The former off-by-one (known finding `ack_incomplete_exact_fit`, fixed by fix-C10-ack-exact-fit): the last range was
pushed only if `capacity > size`, so capacity 7 = size of the complete frame `{2,0}` yielded `⟨2,0,0,[]⟩` (pn 0 left out).
The fixed code gives the complete frame at 7 and cuts only below (replayed in `C10r` case 1). -/
theorem ack_last_range_exact_fit :
    let s := run [.rcv 0 true 100, .rcv 2 true 100]
    (genAck s 1 2 0 7).2 = .ok ⟨2, 0, 0, [(0, 0)]⟩ ∧ (⟨2, 0, 0, [(0, 0)]⟩ : AckFrame).size = 7 ∧
    (genAck s 1 2 0 6).2 = .ok ⟨2, 0, 0, []⟩ := by decide

/-- **pn_accepted_once**: once `on_rcvd_pn(pn)` was called (pn within the varint range, so that it does not panic),
`decode_pn` never answers `Ok(pn)` again, whatever happens in between — it answers `TooOld` or `Duplicate` or some
other number. -/
theorem pn_accepted_once (pre post : List Op) (pn : Nat) (elic : Bool) (pto : Nat) (e : PacketNumber)
    (hv : pn ≤ GmQuic.Gen.varintMax) :
    decodePn (run (pre ++ .rcv pn elic pto :: post)) e ≠ .ok pn := by
  have key : Gone (abs (run (pre ++ .rcv pn elic pto :: post))) pn := by
    simp only [run, List.foldl_append, List.foldl_cons]
    generalize List.foldl step init pre = s
    have h1 : Gone (abs (step s (.rcv pn elic pto))) pn := by
      simp only [step]
      cases hr : onRcvdPn s pn elic pto with
      | none =>
        exfalso
        unfold onRcvdPn at hr
        simp only at hr
        split at hr
        · cases hr
        · rw [if_neg (by omega)] at hr; split at hr <;> cases hr
      | some s' =>
        simp only [Option.getD_some]
        rw [(abs_onRcvdPn s s' pn elic pto hr).1]
        exact gone_onRcvd_self _ _
    generalize step s (.rcv pn elic pto) = s1 at h1
    induction post generalizing s1 with
    | nil => exact h1
    | cons op post ih =>
      simp only [List.foldl_cons]
      apply ih
      cases op with
      | rcv q e2 p2 =>
        simp only [step]
        cases hr : onRcvdPn s1 q e2 p2 with
        | none => simpa using h1
        | some s' => simp only [Option.getD_some]; rw [(abs_onRcvdPn s1 s' q e2 p2 hr).1]; exact gone_onRcvd _ _ _ h1
      | gen a b c d => simp only [step]; rw [abs_genAck]; exact h1
      | rack f =>
        simp only [step]
        cases hr : onRcvdAck s1 f with
        | none => simpa using h1
        | some s' =>
          simp only [Option.getD_some]
          obtain ⟨n, ha, -, -⟩ := abs_onRcvdAck s1 s' f hr
          rw [ha]; exact gone_slide _ _ _ h1
      | tick us => simpa [step, abs] using h1
  generalize run (pre ++ .rcv pn elic pto :: post) = s at *
  intro hd
  unfold decodePn at hd
  split at hd
  · cases hd
  · split at hd
    · cases hd
    · split at hd
      · cases hd
        rename_i hlt hemp
        rcases key with hk | hk
        · simp only [abs] at hk; omega
        · rw [← has_eq_seen] at hk
          simp only [State.has, Bool.and_eq_true] at hk
          simp [hemp] at hk
      · cases hd

/-- **iter_set_semantics**: `AckFrame::iter` either underflows (`none`: the frame describes more numbers than exist
below `largest` — panic in a dev build, astronomically long ranges in release; DESIGN §7 #5) exactly when
`first_range + 1 + Σ (gap + ack_range + 2) > largest + 1`, or enumerates exactly the numbers `largest - i` whose
position `i` in the run-length description `cover` is marked acknowledged. -/
theorem iter_set_semantics (f : AckFrame) :
    (f.largest + 1 < (cover f.first f.ranges).length → f.iter = none) ∧
    ((cover f.first f.ranges).length ≤ f.largest + 1 → ∃ out, f.iter = some out ∧
      ∀ p, covers out p = (decide (p ≤ f.largest) && covAt (cover f.first f.ranges) (f.largest - p))) :=
  iter_spec f

example : (⟨10, 0, 2, [(1, 0)]⟩ : AckFrame).iter = some [(8, 10), (5, 5)] := by decide
example : (⟨1, 0, 2, []⟩ : AckFrame).iter = none := by decide

end GmQuic.Props.C10
