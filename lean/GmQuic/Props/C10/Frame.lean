import GmQuic.Model.RcvdJournal
namespace GmQuic.Props.C10
open GmQuic.RcvdJournal

theorem genFrame_ok_fields (largest delay cap : Nat) (bs : List Bool) (f : AckFrame) (v : Nat)
    (h : genFrame largest delay cap bs = (.ok f, v)) : f.largest = largest ∧ f.delay = delay ∧ f.first = leadTrue bs - 1 := by
  unfold genFrame at h
  simp only at h
  split at h
  · simp at h
  · simp only [Prod.mk.injEq, GenOut.ok.injEq] at h
    obtain ⟨h, -⟩ := h
    subst h; simp
end GmQuic.Props.C10
