import GmQuic.Lemmas.ParamsInv
import GmQuic.Lemmas.ParamsComplete
import GmQuic.Props.C05.Params
/-!
C18 — peer transport parameters are validated and bound to on-wire connection IDs.

The model (`Model/Params.lean`) follows the code with the three `fix-C18-*` patches applied; the id table is
regenerated from the source on every run (`Gen/Params.lean`), the specification is `Spec/Rfc9000Params.lean`.
-/
namespace GmQuic.Props.C18
open GmQuic.Params GmQuic.Gen.Params GmQuic.Wire
open GmQuic.Spec.Rfc9000Params (legal rowLegal)
namespace Spec
export GmQuic.Spec.Rfc9000Params (table mandatory zeroRttIds dflt effectiveIdle)
end Spec

/-! ## 1. `set` / `validate` / `belong_to` against the RFC table -/

/-- The generated table, row by row, accepts no more than the RFC table (ids, types, role rules, ranges). -/
theorem table_within_rfc : listRel rowSub (GmQuic.Gen.Params.table.map viewOf) Spec.table = true := by decide

/-- …and no less, except the number 2^60 (`MAX_STREAMS_LIMIT = 2^60 - 1`). -/
theorem table_covers_rfc : listRel rowSup (GmQuic.Gen.Params.table.map viewOf) Spec.table = true := by decide

/-- accepted ⇒ legal per RFC 9000 §18.2 (known id, role may send it, value type, range). -/
theorem validate_sound (sender : Role) (id : Nat) (v : PVal) :
    accepts sender id v = true → legal sender id v = true := by
  rw [accepts_eq]
  unfold legal
  have h := find_rel (R := rowSub) (fun a b hab => by
    simp only [rowSub, Bool.and_eq_true] at hab; exact sameShape_id hab.1) _ _ table_within_rfc id
  revert h
  cases (GmQuic.Gen.Params.table.map viewOf).find? (fun x => x.id == id) <;>
    cases Spec.table.find? (fun x => x.id == id) <;> simp
  intro hR; exact rowSub_sound hR sender v

example : accepts .server 11 (.dur 16383) = true ∧ legal .server 11 (.dur 16383) = true := by decide

/-- legal ⇒ accepted is FALSE: `initial_max_streams_bidi = 2^60` is legal (RFC 9000 §4.6: "greater than 2^60" is
the error) and refused, because `MAX_STREAMS_LIMIT` is `2^60 - 1` (known finding, same root as C12's). -/
theorem validate_complete_fails :
    ¬ (∀ (sender : Role) (id : Nat) (v : PVal), legal sender id v = true → accepts sender id v = true) := by
  intro h
  have := h .server 8 (.varint (2 ^ 60)) (by decide)
  revert this; decide

/-- legal ⇒ accepted for every value except the number 2^60. -/
theorem validate_complete_partial (sender : Role) (id : Nat) (v : PVal)
    (hv : v ≠ .varint (2 ^ 60)) (hd : v ≠ .dur (2 ^ 60)) :
    legal sender id v = true → accepts sender id v = true := by
  rw [accepts_eq]
  unfold legal
  have h := find_rel (R := rowSup) (fun a b hab => by
    simp only [rowSup, Bool.and_eq_true] at hab; exact sameShape_id hab.1) _ _ table_covers_rfc id
  revert h
  cases (GmQuic.Gen.Params.table.map viewOf).find? (fun x => x.id == id) <;>
    cases Spec.table.find? (fun x => x.id == id) <;> simp
  intro hR; exact rowSup_sound hR sender v hv hd

example : legal .client 14 (.varint 2) = true ∧ accepts .client 14 (.varint 2) = true := by decide

/-- A client may not send the four server-only parameters, whatever the value. -/
theorem server_only_refused_from_client (v : PVal) (id : Nat) (h : id ∈ [0x00, 0x02, 0x0d, 0x10]) :
    accepts .client id v = false := by
  cases hacc : accepts .client id v with
  | false => rfl
  | true =>
    have hl := validate_sound _ _ _ hacc
    simp only [List.mem_cons, List.mem_nil_iff, or_false] at h
    rcases h with rfl | rfl | rfl | rfl <;>
      simp [legal, GmQuic.Spec.Rfc9000Params.table, rowLegal, GmQuic.Spec.Rfc9000Params.roleOk] at hl

/-! ## 2. `parse_from_bytes` -/

/-- Every entry of an accepted parameter set is legal per the RFC table for the sending role. -/
theorem parse_sound (sender : Role) (buf : Bytes) (m : PMap) (h : parse sender buf = some m) :
    ∀ e ∈ m, legal sender e.1 e.2 = true :=
  fun e he => validate_sound sender e.1 e.2 ((parse_good h).1 e he)

/-- Mandatory parameters (§7.3): an accepted set contains initial_source_connection_id, and
original_destination_connection_id when sent by a server. -/
theorem mandatory_enforced (sender : Role) (buf : Bytes) (m : PMap) (h : parse sender buf = some m) :
    ∀ id ∈ Spec.mandatory sender, m.has id = true := by
  intro id hid
  have hreq := (parse_good h).2
  have : id ∈ required sender := mandatory_sub_required _ _ hid
  exact (List.all_eq_true.mp hreq) id this

example : parse .client [0x0f, 0x01, 0xaa] = some [(15, .cid [0xaa])] := by decide
example : parse .server [0x0f, 0x01, 0xaa] = none := by decide          -- odcid missing
example : parse .client [0x0f, 0x01, 0xaa, 0x0b, 0x02, 0x80, 0x00] = none := by decide   -- max_ack_delay: 4-byte varint prefix inside a 2-byte value

/-- The stream limits of an accepted set never reach `assert!(val <= MAX_STREAMS_LIMIT)` of
`LocalStreamIds::increase_limit` (DESIGN §7 #23: a peer-triggerable panic on the pinned tree). -/
theorem accepted_streams_within_limit (sender : Role) (buf : Bytes) (m : PMap) (h : parse sender buf = some m)
    (id : Nat) (hid : id = 8 ∨ id = 9) (n : Nat) (hn : getVarint m id = some n) : n ≤ 2 ^ 60 - 1 := by
  have hall := (parse_good h).1
  unfold getVarint getVal at hn
  cases hg : m.get? id with
  | none =>
    rw [hg] at hn
    rcases hid with rfl | rfl <;> (revert hn; simp only [row?, GmQuic.Gen.Params.table, List.find?]; decide +revert)
  | some v =>
    rw [hg] at hn
    have hmem : (id, v) ∈ m := by
      unfold PMap.get? at hg
      cases hf : m.find? (fun e => e.1 == id) with
      | none => simp [hf] at hg
      | some e =>
        simp only [hf, Option.map_some, Option.some.injEq] at hg
        have h1 : e.1 = id := by simpa using List.find?_some hf
        have h2 := List.mem_of_find?_eq_some hf
        rw [← h1, ← hg]; exact h2
    have hacc := hall _ hmem
    cases v <;> simp at hn
    subst hn
    rw [accepts_eq] at hacc
    rcases hid with rfl | rfl <;>
      (simp [GmQuic.Gen.Params.table, viewOf, rowLegal, GmQuic.Spec.Rfc9000Params.inRange] at hacc; omega)

example : parse .client [0x08, 0x01, 0x05, 0x0f, 0x01, 0xaa] = some [(15, .cid [0xaa]), (8, .varint 5)] ∧
    getVarint [(15, .cid [0xaa]), (8, .varint 5)] 8 = some 5 := by decide
example : parse .client [0x08, 0x08, 0xd0, 0, 0, 0, 0, 0, 0, 0, 0x0f, 0x01, 0xaa] = none := by decide   -- 2^60 refused

/-! ## 2b. `parse_from_bytes` is COMPLETE: every legal encoded parameter set is accepted

The encoder is C05's model of `put_parameters` (`Model/ParamsEnc.lean`: `putParams`, for the iteration order given
by the list); the decoder is `parse`, unchanged.  "Legal" is the RFC table of `Spec/Rfc9000Params.lean`. -/

/-- A parameter set a peer of role `sender` may send: one binding per id, every binding legal per RFC 9000 §18.2
for that role (known id, role, type, range) and a value the wire format can carry (`wfVal`: integers < 2^62,
cid ≤ 20 bytes, token = 16 bytes, well-formed preferred_address image), the mandatory parameters of §7.3 present. -/
def LegalSet (sender : Role) (ps : PMap) : Prop :=
  distinctIds ps = true ∧ (∀ e ∈ ps, legal sender e.1 e.2 = true ∧ wfVal e.2 = true) ∧
  ∀ id ∈ Spec.mandatory sender, ps.has id = true

/-- legal ⇒ accepted for every (id, value) except `initial_max_streams_{bidi,uni} = 2^60` — the exception of
`validate_complete_partial` localised to the two ids (2^60 is accepted for every other integer parameter). -/
theorem validate_complete_except_streams (sender : Role) (id : Nat) (v : PVal)
    (hx : (id = 8 ∨ id = 9) → v ≠ .varint (2 ^ 60)) :
    legal sender id v = true → accepts sender id v = true := by
  intro hl
  by_cases hv : v = .varint (2 ^ 60)
  · subst hv
    have h8 : id ≠ 8 := fun h => hx (Or.inl h) rfl
    have h9 : id ≠ 9 := fun h => hx (Or.inr h) rfl
    exact (accepts_two_pow_60 sender id h8 h9).1 hl
  · by_cases hd : v = .dur (2 ^ 60)
    · subst hd
      have h8 : id ≠ 8 := by rintro rfl; revert hl; cases sender <;> decide
      have h9 : id ≠ 9 := by rintro rfl; revert hl; cases sender <;> decide
      exact (accepts_two_pow_60 sender id h8 h9).2 hl
    · exact validate_complete_partial sender id v hv hd hl

example : legal .server 4 (.varint (2 ^ 60)) = true ∧ accepts .server 4 (.varint (2 ^ 60)) = true := by decide

/-- RFC-legal set ⇒ a set `Parameters<R>` can hold and that is complete for the role (C05's `wfSet`). -/
theorem legalSet_wfSet (sender : Role) (ps : PMap) (h : LegalSet sender ps)
    (hx : ∀ e ∈ ps, (e.1 = 8 ∨ e.1 = 9) → e.2 ≠ .varint (2 ^ 60)) : wfSet sender ps = true := by
  obtain ⟨hd, hall, hm⟩ := h
  simp only [wfSet, Bool.and_eq_true, List.all_eq_true]
  refine ⟨⟨hd, fun e he => ⟨validate_complete_except_streams sender e.1 e.2 (hx e he) (hall e he).1, (hall e he).2⟩⟩, ?_⟩
  intro id hid
  exact hm id (required_sub_mandatory _ _ hid)

/-- "every legal encoded parameter set is accepted" is FALSE as it stands: the legal client set
{initial_source_connection_id, initial_max_streams_bidi = 2^60} is refused (same root as `validate_complete_fails`). -/
theorem parse_complete_fails :
    ¬ (∀ (sender : Role) (ps : PMap), LegalSet sender ps → ∃ ps', parse sender (putParams ps) = some ps') := by
  intro h
  have hl : LegalSet .client [(15, .cid [0xaa]), (8, .varint (2 ^ 60))] := by
    refine ⟨by decide, ?_, by decide⟩
    intro e he
    simp only [List.mem_cons, List.mem_nil_iff, or_false] at he
    rcases he with rfl | rfl <;> decide
  obtain ⟨ps', hp⟩ := h .client _ hl
  have : parse .client (putParams [(15, .cid [0xaa]), (8, .varint (2 ^ 60))]) = none := by decide
  rw [this] at hp; cases hp

/-- **COMPLETENESS of `parse_from_bytes`.**  For every role and every legal parameter set `ps` (any iteration order
of the sender's map) in which `initial_max_streams_{bidi,uni}` is not the number 2^60, the encoded blob is ACCEPTED
and the result is `ps` again: literally the list in the order of insertion (`ps.reverse`), hence the same bindings,
the same stored value for every id, and the same value-or-default seen by `Parameters::get`. -/
theorem parse_complete_partial (sender : Role) (ps : PMap) (h : LegalSet sender ps)
    (hx : ∀ e ∈ ps, (e.1 = 8 ∨ e.1 = 9) → e.2 ≠ .varint (2 ^ 60)) :
    parse sender (putParams ps) = some ps.reverse ∧
    (∀ e, e ∈ ps.reverse ↔ e ∈ ps) ∧
    (∀ id, PMap.get? ps.reverse id = PMap.get? ps id) ∧
    (∀ id, getVal ps.reverse id = getVal ps id) := by
  refine ⟨parse_put_parameters sender ps (legalSet_wfSet sender ps h hx), fun e => List.mem_reverse,
    fun id => get?_reverse_distinct ps id h.1, fun id => ?_⟩
  unfold getVal; rw [get?_reverse_distinct ps id h.1]

/-- non-vacuity: C05's sample sets (every value type; `initial_max_streams_bidi = 2^60 - 1`) are legal -/
example : LegalSet .server sampleServer ∧ LegalSet .client sampleClient := by
  refine ⟨⟨by decide, ?_, by decide⟩, ⟨by decide, ?_, by decide⟩⟩ <;> decide
example : parse .server (putParams sampleServer) = some sampleServer.reverse :=
  (parse_complete_partial .server sampleServer ⟨by decide, by decide, by decide⟩ (by decide)).1

/-! ## 3. the connection-level object: READY ⇔ received ∧ legal ∧ mandatory ∧ declared cids = observed cids -/

/-- ALL op histories (recv / scid / retry / poll / query / connErr in any order, repeated) from a fresh object:
READY implies the peer's parameters were received, every entry is legal for the peer's role, the mandatory
ones are present, and the declared connection ids equal the observed ones. -/
theorem ready_only_if_authenticated (s0 : Core) (hf : Fresh s0) (ops : List Op) :
    let s := crun s0 ops
    s.ready = true → s.poisoned = false →
      s.received = true ∧ (∀ e ∈ s.remote, legal s.role.peer e.1 e.2 = true) ∧
      (∀ id ∈ Spec.mandatory s.role.peer, s.remote.has id = true) ∧
      ∃ c, s.initialScid = some c ∧ getCid s.remote idISCID = some c ∧
        (s.role = .client → getCid s.remote idODCID = some s.odcid) := by
  intro s hr hp
  have hinv : Inv s := crun_inv (fresh_inv hf) ops
  obtain ⟨hne, hA⟩ := hinv.auth hr hp
  have hg : Good s.role.peer s.remote := by
    rcases hinv.good with h0 | h1
    · exact absurd h0 hne
    · exact h1
  refine ⟨(received_iff s).mpr hne, fun e he => validate_sound _ _ _ (hg.1 e he), ?_, hA⟩
  intro id hid
  have : id ∈ required s.role.peer := mandatory_sub_required _ _ hid
  exact (List.all_eq_true.mp hg.2) id this

example : Fresh { role := .client } := ⟨rfl, rfl, rfl, rfl, rfl⟩

/-- What must hold for the connection to become usable (RFC 9000 §7.3, §7.4). -/
def Authenticated (s0 : Core) (blob c : Bytes) : Prop :=
  ∃ m, parse s0.role.peer blob = some m ∧
    getCid m idISCID = some c ∧
    (s0.role = .client → getCid m idODCID = some s0.odcid ∧ getCid m idRSCID = s0.retryScid)

/-- BOTH arrival orders (TLS extension first / first packet first), with any polls and queries in between:
the final state is the same, and it is READY iff the parameters parse (⇒ legal, mandatory present, by
`parse_sound`/`mandatory_enforced`) and the declared cids equal the observed ones (Retry included). -/
theorem ready_iff_authenticated (s0 : Core) (hf : Fresh s0) (blob c : Bytes) (pre mid post : List Op)
    (hpre : pre.all Op.passive = true) (hmid : mid.all Op.passive = true) (hpost : post.all Op.passive = true) :
    let tlsFirst := crun s0 (pre ++ [.recv blob] ++ mid ++ [.scid c] ++ post)
    let pktFirst := crun s0 (pre ++ [.scid c] ++ mid ++ [.recv blob] ++ post)
    tlsFirst = pktFirst ∧ (tlsFirst.ready = true ↔ Authenticated s0 blob c) := by
  have e1 : crun s0 (pre ++ [.recv blob] ++ mid ++ [.scid c] ++ post) = target s0 blob c := by
    simp only [crun_append, crun, crun_passive _ hpre, crun_passive _ hmid, crun_passive _ hpost]
    exact recv_then_scid hf blob c
  have e2 : crun s0 (pre ++ [.scid c] ++ mid ++ [.recv blob] ++ post) = target s0 blob c := by
    simp only [crun_append, crun, crun_passive _ hpre, crun_passive _ hmid, crun_passive _ hpost]
    exact scid_then_recv hf blob c
  refine ⟨by rw [e1, e2], ?_⟩
  show (crun s0 (pre ++ [.recv blob] ++ mid ++ [.scid c] ++ post)).ready = true ↔ _
  rw [e1, target_ready hf]
  constructor
  · rintro ⟨m, hm, c', hc', h1, h2⟩
    cases hc'
    exact ⟨m, hm, h1, h2⟩
  · rintro ⟨m, hm, h1, h2⟩
    exact ⟨m, hm, c, rfl, h1, h2⟩

/-- order independence, on its own -/
theorem arrival_order_irrelevant (s0 : Core) (hf : Fresh s0) (blob c : Bytes) :
    crun s0 [.recv blob, .scid c] = crun s0 [.scid c, .recv blob] := by
  have := (ready_iff_authenticated s0 hf blob c [] [] [] rfl rfl rfl).1
  simpa using this

example : (crun { role := .server } [.recv [0x0f, 0x01, 0xaa], .poll, .scid [0xaa]]).ready = true := by decide
example : (crun { role := .server } [.scid [0xab], .recv [0x0f, 0x01, 0xaa]]).ready = false := by decide
example : cobs { role := .server } [.scid [0xab], .recv [0x0f, 0x01, 0xaa]] = [.ok, .errTP] := by decide

/-- "…otherwise the handshake fails with a transport-parameter error": in BOTH arrival orders, if the conditions
hold both calls return `Ok`; if not, one of the two calls returns the TRANSPORT_PARAMETER_ERROR (and nothing panics). -/
theorem failure_is_transport_parameter_error (s0 : Core) (hf : Fresh s0) (blob c : Bytes) :
    (Authenticated s0 blob c →
      cobs s0 [.recv blob, .scid c] = [.ok, .ok] ∧ cobs s0 [.scid c, .recv blob] = [.ok, .ok]) ∧
    (¬ Authenticated s0 blob c →
      Obs.errTP ∈ cobs s0 [.recv blob, .scid c] ∧ Obs.errTP ∈ cobs s0 [.scid c, .recv blob] ∧
      (∀ o ∈ cobs s0 [.recv blob, .scid c] ++ cobs s0 [.scid c, .recv blob], o = .ok ∨ o = .errTP)) := by
  rw [recv_then_scid_obs hf, scid_then_recv_obs hf]
  unfold obsTlsFirst obsPktFirst Authenticated
  cases hp : parse s0.role.peer blob with
  | none => simp
  | some m =>
    by_cases hA : Authd { s0 with remote := m, initialScid := some c }
    · have hA' : getCid m idISCID = some c ∧
          (s0.role = .client → getCid m idODCID = some s0.odcid ∧ getCid m idRSCID = s0.retryScid) := by
        obtain ⟨c', hc', h1, h2⟩ := hA
        cases hc'; exact ⟨h1, h2⟩
      simp only [hA, if_true]
      refine ⟨fun _ => by simp, fun hn => absurd ⟨m, rfl, hA'⟩ hn⟩
    · simp only [hA, if_false]
      refine ⟨fun ⟨m', hm, h1, h2⟩ => ?_, fun _ => ?_⟩
      · cases hm
        exact absurd ⟨c, rfl, h1, h2⟩ hA
      · simp

example : ¬ Authenticated { role := .server } [0x0f, 0x01, 0xaa] [0xab] := by
  rintro ⟨m, hm, h1, _⟩
  have : parse .client [0x0f, 0x01, 0xaa] = some [(15, .cid [0xaa])] := by decide
  simp only [Role.peer] at hm
  rw [this] at hm
  cases hm
  revert h1; decide

/-- No panic on the wire path: the first delivery of parameters and the first observed source cid never panic
(the two `.expect("this value must be set")` of `authenticate_cids` are unreachable behind `parse_from_bytes`). -/
theorem wire_path_no_panic (s0 : Core) (hf : Fresh s0) (blob c : Bytes) :
    (crun s0 [.recv blob, .scid c]).poisoned = false ∧ (crun s0 [.scid c, .recv blob]).poisoned = false := by
  have h1 : crun s0 [.recv blob, .scid c] = target s0 blob c := recv_then_scid hf blob c
  have h2 : crun s0 [.scid c, .recv blob] = target s0 blob c := scid_then_recv hf blob c
  rw [h1, h2]
  have : (target s0 blob c).poisoned = false := by
    unfold target
    split
    · exact hf.poisoned
    · dsimp only; split <;> exact hf.poisoned
  exact ⟨this, this⟩

/-! ## 4. wakers: nobody waits on a READY object -/

/-- After ANY history every task that polled `Pending` has been woken once the object is READY. -/
theorem no_waiter_left_at_ready (s0 : St) (h0 : s0.core.ready = true → s0.wakers = 0) (ops : List Op) :
    (run s0 ops).core.ready = true → (run s0 ops).wakers = 0 := by
  induction ops generalizing s0 with
  | nil => exact h0
  | cons op ops ih =>
    apply ih
    unfold step
    dsimp only
    split
    · intro _; rfl
    · rename_i hnt
      split
      · rename_i hpp
        intro hr
        have := pending_not_ready s0.core op (by simpa using hpp)
        rw [this] at hr; cases hr
      · intro hr
        have hr' : (cstep s0.core op).1.ready = true := hr
        have : s0.core.ready = true := by
          simp only [hr', Bool.true_and, Bool.not_eq_true', Bool.not_eq_false] at hnt
          simpa using hnt
        exact h0 this

example : (run { core := { role := .server } } [.poll, .recv [0x0f, 0x01, 0xaa], .poll, .scid [0xaa]]).wakes = 2 ∧
    (run { core := { role := .server } } [.poll, .recv [0x0f, 0x01, 0xaa], .poll, .scid [0xaa]]).wakers = 0 := by decide

/-! ## 5. idle timeout (RFC 9000 §10.1) and 0-RTT (§7.4.1) -/

/-- `Parameters::negotiated_max_idle_timeout` = the smaller non-zero of the two advertised values (none if both 0). -/
theorem idle_is_min_nonzero (l r : Nat) : negotiatedIdle l r = Spec.effectiveIdle l r := by
  unfold negotiatedIdle GmQuic.Spec.Rfc9000Params.effectiveIdle
  cases l <;> cases r <;> simp

/-- `IdleConfig::negotiate_max_idle_timeout` (the value the connection actually uses; 0 = disabled). -/
theorem idle_config_is_min_nonzero (l r : Nat) : idleConfigNegotiate l r = (Spec.effectiveIdle l r).getD 0 := by
  unfold idleConfigNegotiate GmQuic.Spec.Rfc9000Params.effectiveIdle
  cases l <;> cases r <;> simp

/-- No negotiated value before the peer's parameters are authenticated. -/
theorem idle_unknown_before_ready (s : St) (h : s.core.ready = false) : s.negotiated = none := by
  simp [St.negotiated, h]

/-- Remembered server parameters are honoured for 0-RTT iff none of the limits of RFC 9000 §7.4.1 (+ RFC 9221)
got smaller (`getVarint` = value, or the default when absent). -/
theorem zero_rtt_only_if_not_smaller (old new : PMap) :
    zeroRttAccepted old new = some true ↔
      ∀ id ∈ Spec.zeroRttIds, ∃ o n, getVarint old id = some o ∧ getVarint new id = some n ∧ o ≤ n := by
  have hids : GmQuic.Gen.Params.zeroRttIds = Spec.zeroRttIds := by decide
  unfold zeroRttAccepted
  rw [zrtt_fold, hids]
  simp

/-- the defaults used for an absent limit are the RFC's -/
theorem zero_rtt_defaults : ∀ id ∈ Spec.zeroRttIds, getVarint [] id = some (Spec.dflt id) := by decide

example : zeroRttAccepted [(4, .varint 100)] [(4, .varint 99)] = some false := by decide
example : zeroRttAccepted [(4, .varint 100)] [(4, .varint 100), (14, .varint 2)] = some true := by decide

end GmQuic.Props.C18
