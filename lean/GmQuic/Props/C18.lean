import GmQuic.Model.Params
namespace GmQuic.Props.C18
open GmQuic.Params

theorem idle_is_min_nonzero_stub (l r : Nat) (hl : l ≠ 0) (hr : r ≠ 0) : negotiatedIdle l r = some (min l r) := by
  simp [negotiatedIdle, hl, hr]

end GmQuic.Props.C18
