import GmQuic.Model.RecvBuf
/-!
C08 — the receive buffer reassembles any fragment sequence into the original bytes.
Property theorems only (helper lemmas live in `GmQuic/Lemmas/RecvBuf.lean`).
-/
namespace GmQuic.RecvBuf

theorem ins_largest_mono (segs : List Seg) (start : Nat) (data : Bytes) (lg : Nat) :
    lg ≤ (ins segs start data lg).2 := by
  fun_induction ins segs start data lg
  · simp
  · simp; omega
  · simp
  · simp; omega
  · simp_all
  · rename_i h1 h2 h3 pre lg1 r lg' heq ih
    simp only [heq] at ih
    simp only [lg1] at ih
    split at ih <;> omega

theorem tryNext_largest (s : State) : (tryNext s).1.largest = s.largest := by
  unfold tryNext; split <;> (try split) <;> simp

/-- The flow-control increments reported by `recv` add up to `largest_offset`, for every history. -/
theorem fresh_sums_to_largest (ops : List Op) :
    (run ops).charged = (run ops).buf.largest := by
  suffices h : ∀ (r : Run), r.charged = r.buf.largest → (ops.foldl Run.step r).charged = (ops.foldl Run.step r).buf.largest from
    h {} rfl
  induction ops with
  | nil => intro r h; simpa using h
  | cons op ops ih =>
    intro r h
    apply ih
    cases op with
    | recv off data =>
      simp only [Run.step, recv]
      have := ins_largest_mono r.buf.segs (max off r.buf.nread) (data.drop (min data.length (max off r.buf.nread - off))) r.buf.largest
      omega
    | read cap => simp [Run.step, tryRead, h]
    | next =>
      have := tryNext_largest r.buf
      simp only [Run.step]
      split <;> simp_all

end GmQuic.RecvBuf
