import GmQuic.Model.RecvBuf
import GmQuic.Lemmas.RecvBuf
/-!
C08 — the receive buffer reassembles any fragment sequence into the original bytes.
Property theorems only (vocabulary `Inv`, `Op.SliceOf`, `arrived`, `maxEnd` and all helper lemmas live in
`GmQuic/Lemmas/RecvBuf.lean`; the model is `GmQuic/Model/RecvBuf.lean`).
`exSrc`/`exOps` (Lemmas file) is a concrete history with three overlapping fragments, an empty fragment, a
fragment that is partly already read, and `read`/`next` in between; it witnesses every hypothesis below.
-/
namespace GmQuic.RecvBuf

/-! ### 1. invariant preserved by every operation -/

/-- `recv` of a slice of `src` preserves the reassembly invariant. -/
theorem recv_inv (src : Bytes) (s : State) (off : Nat) (data : Bytes)
    (h : Inv src s) (hop : (Op.recv off data).SliceOf src) : Inv src (recv s off data).1 :=
  recv_inv' h hop

/-- `try_read` with any destination capacity preserves the invariant. -/
theorem read_inv (src : Bytes) (s : State) (cap : Nat) (h : Inv src s) : Inv src (tryRead s cap).1 :=
  read_inv' h cap

/-- `try_next` preserves the invariant. -/
theorem next_inv (src : Bytes) (s : State) (h : Inv src s) : Inv src (tryNext s).1 :=
  next_inv' h

-- non-vacuity: the invariant holds in a state with two stored segments and a non-zero read position,
-- and the next fragment is an overlapping slice
example : Inv exSrc (run (exOps.take 3)).buf ∧ (run (exOps.take 3)).buf.segs.length = 2 ∧
    (run (exOps.take 3)).buf.nread = 1 ∧ (Op.recv 1 [2, 3, 4, 5, 6, 7]).SliceOf exSrc := by
  refine ⟨(run_inv exSrc _ ?_).inv, by decide, by decide, by simp [Op.SliceOf, exSrc]⟩
  simp [exOps, Op.SliceOf, exSrc]

/-! ### 2. exactly the original bytes, in order, each byte once -/

/-- For every `src` and every history whose fragments are slices of `src` (any order, overlap, duplication,
empty pieces) interleaved with reads of any size and `try_next`: everything handed to the reader so far is
exactly the first `nread` bytes of `src`, and the invariant holds. -/
theorem read_prefix (src : Bytes) (ops : List Op) (h : ∀ op ∈ ops, op.SliceOf src) :
    (run ops).out = src.take (run ops).buf.nread ∧ Inv src (run ops).buf :=
  ⟨(run_inv src ops h).out, (run_inv src ops h).inv⟩

example : (∀ op ∈ exOps, op.SliceOf exSrc) ∧ (run exOps).out = [1, 2, 3, 4, 5, 6, 7] ∧ (run exOps).buf.nread = 7 := by
  refine ⟨?_, by decide, by decide⟩
  simp [exOps, Op.SliceOf, exSrc]

/-! ### 3. nothing missing -/

/-- For EVERY history: the readable amount is exactly the contiguous arrived prefix beyond what was read —
offset `x` lies below `nread + available` iff every offset up to `x` has arrived. -/
theorem available_is_arrived_prefix (ops : List Op) (x : Nat) :
    x < (run ops).buf.nread + available (run ops).buf ↔ ∀ y, y ≤ x → arrived ops y := by
  have h := run_struct ops
  rw [available_eq, contEnd_spec h.struct.1]
  constructor
  · intro hx y hy; exact (h.arr y).mpr (hx y hy)
  · intro hx y hy; exact (h.arr y).mp (hx y hy)

/-- For EVERY history and capacity: `try_read` returns exactly `min cap available` bytes and advances `nread`
by that amount (it never stops early and never skips). -/
theorem read_is_maximal (ops : List Op) (cap : Nat) :
    (tryRead (run ops).buf cap).2.length = min cap (available (run ops).buf) ∧
    (tryRead (run ops).buf cap).1.nread = (run ops).buf.nread + (tryRead (run ops).buf cap).2.length :=
  read_len (run_struct ops).struct cap

/-- For EVERY history: `try_next` yields a chunk iff something is readable; the chunk is non-empty and
advances `nread` by its length. -/
theorem next_some_iff_available (ops : List Op) :
    ((tryNext (run ops).buf).2.isSome ↔ 0 < available (run ops).buf) ∧
    (tryNext (run ops).buf).1.nread = (run ops).buf.nread + ((tryNext (run ops).buf).2.getD []).length :=
  ⟨next_some_iff (run_struct ops).struct, next_len _⟩

/-- Same premise as `read_prefix`: the bytes returned by the next `try_read` are exactly the slice of `src`
behind the read position, of length `min cap available`. -/
theorem read_returns_src_slice (src : Bytes) (ops : List Op) (h : ∀ op ∈ ops, op.SliceOf src) (cap : Nat) :
    (tryRead (run ops).buf cap).2 =
      (src.drop (run ops).buf.nread).take (min cap (available (run ops).buf)) := by
  have hi := (run_inv src ops h).inv
  have hc := (readGo_content (nread := (run ops).buf.nread) (cap := cap) ((inv_iff' _ _).mp hi).2.1).2
  rw [← (read_is_maximal ops cap).1, tryRead_snd]
  exact hc

example : (∀ op ∈ exOps.take 4, op.SliceOf exSrc) ∧ available (run (exOps.take 4)).buf = 6 ∧
    (tryRead (run (exOps.take 4)).buf 3).2 = [2, 3, 4] := by
  refine ⟨?_, by decide, by decide⟩
  simp [exOps, Op.SliceOf, exSrc]

/-! ### 4. flow-control accounting -/

/-- The flow-control increments reported by `recv` add up to `largest_offset`, for every history. -/
theorem fresh_sums_to_largest (ops : List Op) :
    (run ops).charged = (run ops).buf.largest := by
  suffices h : ∀ (r : Run), r.charged = r.buf.largest → (ops.foldl Run.step r).charged = (ops.foldl Run.step r).buf.largest from
    h {} rfl
  induction ops with
  | nil => intro r h; simpa using h
  | cons op ops ih =>
    intro r h
    apply ih
    cases op with
    | recv off data =>
      simp only [Run.step, recv]
      have := ins_largest_mono r.buf.segs (max off r.buf.nread) (data.drop (min data.length (max off r.buf.nread - off))) r.buf.largest
      omega
    | read cap => simp [Run.step, tryRead, h]
    | next =>
      have := tryNext_largest r.buf
      simp only [Run.step]
      split <;> simp_all

/-- For EVERY history `largest_offset` is the maximum `off + len` over the non-empty `recv` ops (0 if there
is none) — so `fresh_sums_to_largest` really says "adds up to the highest offset seen". -/
theorem largest_is_max_end (ops : List Op) : (run ops).buf.largest = maxEnd ops :=
  (run_struct ops).lg

/-- The same without the helper `maxEnd`: an upper bound of every non-empty fragment's end, and attained. -/
theorem largest_is_max_end_explicit (ops : List Op) :
    (∀ off data, Op.recv off data ∈ ops → data ≠ [] → off + data.length ≤ (run ops).buf.largest) ∧
    ((run ops).buf.largest = 0 ∨
      ∃ off data, Op.recv off data ∈ ops ∧ data ≠ [] ∧ off + data.length = (run ops).buf.largest) := by
  rw [largest_is_max_end]
  obtain ⟨h1, h2⟩ := maxEnd_is_max ops
  refine ⟨?_, ?_⟩
  · intro off data hm hd
    have := h1 _ hm
    simpa [Op.endOf, hd] using this
  · rcases h2 with h2 | ⟨op, hm, h2⟩
    · exact Or.inl h2
    · by_cases h0 : maxEnd ops = 0
      · exact Or.inl h0
      · right
        cases op with
        | recv off data =>
          by_cases hd : data = []
          · simp [Op.endOf, hd] at h2; omega
          · exact ⟨off, data, hm, hd, by simpa [Op.endOf, hd] using h2⟩
        | read cap => simp [Op.endOf] at h2; omega
        | next => simp [Op.endOf] at h2; omega

example : (run exOps).buf.largest = 7 ∧ maxEnd exOps = 7 ∧ (run exOps).charged = 7 := by decide

/-! ### 5. the Rust `loop` itself (branch-by-branch transliteration `recvLoop`) -/

/-- Refinement: on a sorted, disjoint, non-empty segment list the transliterated Rust loop returns exactly
what the single pass `ins` computes — for every start offset, fragment and `largest` — provided it is given
at least `2·|segs| + 2` iterations.  In particular no panic site (`split_to`, `segments[i]`, `u64` underflow)
is reachable. -/
theorem recvLoop_eq_ins (lo hi : Nat) (segs : List Seg) (start : Nat) (data : Bytes) (lg fuel : Nat)
    (hw : Wf lo hi segs) (hf : loopFuel segs ≤ fuel) :
    recvLoop fuel segs start data lg = .done (ins segs start data lg).1 (ins segs start data lg).2 := by
  have h := recvLoop_eq_ins_aux segs lo [] start data lg fuel (fun _ hm => by simp at hm) hw hf
  simpa only [List.nil_append] using h

/-- Termination: under the invariant, `recv` for ANY offset and data leaves the loop within
`2·|segments| + 2` iterations (never out of fuel, never at a panic site), with the result of the single pass. -/
theorem recv_loop_terminates (src : Bytes) (s : State) (h : Inv src s) (off : Nat) (data : Bytes) :
    recvViaLoop s off data = .ok (recv s off data).1 (recv s off data).2 :=
  recvViaLoop_eq_recv ((inv_iff' src s).mp h).1 off data

/-- The same in every reachable state: after EVERY history (no premise on the fragments) the next `recv`
through the loop equals the next `recv` through the single pass. -/
theorem recv_loop_eq_recv_all_histories (ops : List Op) (off : Nat) (data : Bytes) :
    recvViaLoop (run ops).buf off data = .ok (recv (run ops).buf off data).1 (recv (run ops).buf off data).2 :=
  recvViaLoop_eq_recv (run_struct ops).struct off data

-- non-vacuity: a state with three stored segments satisfies the hypotheses; the fragment overlaps all of them
-- and the loop needs several iterations (4 units of fuel are not enough, the proved bound 8 is)
example : Inv exSrc (run (exOps.take 4)).buf ∧
    Wf (run (exOps.take 4)).buf.nread (run (exOps.take 4)).buf.largest (run (exOps.take 4)).buf.segs ∧
    (run (exOps.take 4)).buf.segs.length = 3 ∧
    recvLoop 4 ((run (exOps.take 2)).buf.segs ++ [⟨6, [7]⟩]) 0 exSrc 7 = .fuel ∧
    recvLoop 8 ((run (exOps.take 2)).buf.segs ++ [⟨6, [7]⟩]) 0 exSrc 7
      = .done [⟨0, [1, 2]⟩, ⟨2, [3, 4, 5]⟩, ⟨5, [6]⟩, ⟨6, [7]⟩, ⟨7, [8]⟩] 8 := by
  refine ⟨(run_inv exSrc _ ?_).inv, (run_struct _).struct.1, by decide, by decide, by decide⟩
  simp [exOps, Op.SliceOf, exSrc]

end GmQuic.RecvBuf
