import GmQuic.Lemmas.SentJournal
/-!
C07 (sender half) — packet numbers are never reused: theorems over ALL histories of the sent-journal
life-cycle model (`Model/SentJournal.lean`).  `builtPns s` is the log of the packet number of every packet
handed to `encrypt_and_protect_packet` (tx.rs emits the packet right after `build_with_time`/`build_trivial`).
-/
namespace GmQuic.SentJournal
open GmQuic.Gen GmQuic.Pn

/-- **The hypothesis `pn_strictly_increasing` needs, exactly:** `build_with_time` is never reached on a guard
that recorded neither a frame nor `record_trivial` (the third, silent arm of `build_with_time`: no record is
pushed, so the number is *not* consumed although tx.rs emits the packet).  `emptyBuilds` counts the executions
of that arm.  In /repo this is the caller's obligation: `assemble` returns early (`?`) when `assemble_packet`
wrote nothing.  (Abandoning a guard after `record_frame` does *not* matter for packet numbers — only for
`queue_records_agree` below — so DESIGN's `NoAbandonAfterRecord` is not needed here.) -/
def NoEmptyBuild (ops : List Op) : Prop := (ops.foldl step init).emptyBuilds = 0

instance (ops : List Op) : Decidable (NoEmptyBuild ops) := by unfold NoEmptyBuild; infer_instance

/-- **DESIGN Appendix A, `pn_strictly_increasing`**: over ALL operation histories — any interleaving of
started / completed / abandoned guards, ACK arrivals, loss marking, window rotation and clock ticks — the
packets that leave carry strictly increasing packet numbers. -/
theorem pn_strictly_increasing (ops : List Op) (h : NoEmptyBuild ops) :
    (builtPns (ops.foldl step init)).Pairwise (· < ·) :=
  (fold_pnInv ops init init_pnInv (by simpa [NoEmptyBuild, init] using h)).sorted

/-- ⇒ no nonce is used twice in a space. -/
theorem pn_never_reused (ops : List Op) (h : NoEmptyBuild ops) : (builtPns (ops.foldl step init)).Nodup :=
  (pn_strictly_increasing ops h).imp (fun hlt => Nat.ne_of_lt hlt)

/-- every emitted number is a legal packet number (< 2^62) -/
theorem pn_below_2_62 (ops : List Op) (h : NoEmptyBuild ops) : ∀ p ∈ builtPns (ops.foldl step init), p < 2 ^ 62 := by
  intro p hp
  have inv := fold_pnInv ops init init_pnInv (by simpa [NoEmptyBuild, init] using h)
  have := inv.below p hp
  have := inv.bound
  simp only [varintMax] at this
  omega

/-- non-vacuity: abandon (clean and after `record_frame`), ACKs, rotation, three emitted packets -/
example : NoEmptyBuild [.begin, .frame, .build 10 30, .begin, .abandon, .begin, .frame, .abandon, .begin, .trivial,
      .build 10 30, .ackLargest 1, .acked 0, .begin, .pn, .frame, .build 5 5, .rotate] ∧
    builtPns ([Op.begin, .frame, .build 10 30, .begin, .abandon, .begin, .frame, .abandon, .begin, .trivial,
      .build 10 30, .ackLargest 1, .acked 0, .begin, .pn, .frame, .build 5 5, .rotate].foldl step init) = [0, 1, 2] := by
  decide

/-- Without the hypothesis the statement is false of the model (and of the real `NewPacketGuard`, harness
`C07j` fixed case 1): an untouched guard that is built does not consume its number. -/
theorem pn_strictly_increasing_fails :
    ¬ (∀ ops : List Op, (builtPns (ops.foldl step init)).Pairwise (· < ·)) := by
  intro h
  have := h [.begin, .build 1 1, .begin, .trivial, .build 1 1]
  revert this
  decide

/-- Within one guard `pn()` always answers the same (number and encoding), whatever else is attempted
meanwhile (other lockers are blocked by the guard's mutex). -/
theorem pn_stable_within_guard (s : State) (mid : List Op) (hg : s.guard.isSome)
    (hm : ∀ op ∈ mid, op.endsGuard = false) :
    guardPn (mid.foldl step s) = guardPn s := by
  have h := fold_same mid s hg hm
  exact guardPn_congr s _ hg h.guard h.offset h.recs h.la

example : guardPn ([Op.frame, .pn, .trivial, .ackLargest 0, .tick 9, .begin].foldl step (step init .begin))
    = some (0, .ok (.u16 0)) := by decide

/-- A guard that is dropped without `build` consumes nothing: window, records, largest-acked and the emitted
log are untouched and the next guard is offered the same packet number. -/
theorem abandon_consumes_nothing (s : State) (mid : List Op) (hg : s.guard = none) (hp : s.poisoned = none)
    (hm : ∀ op ∈ mid, op.endsGuard = false) :
    let s' := ([Op.begin] ++ mid ++ [Op.abandon]).foldl step s
    s'.j.offset = s.j.offset ∧ s'.j.recs = s.j.recs ∧ s'.j.la = s.j.la ∧ s'.built = s.built ∧
      s'.emptyBuilds = s.emptyBuilds ∧ s'.guard = none ∧ guardPn (step s' .begin) = guardPn (step s .begin) := by
  intro s'
  have hb : step s .begin = { s with guard := some { trivial := false, originLen := s.j.queueLen } } := by
    simp [step, hp, hg]
  have hbg : (step s .begin).guard.isSome := by rw [hb]; rfl
  have hm' := fold_same mid (step s .begin) hbg hm
  have hs' : s' = step (mid.foldl step (step s .begin)) .abandon := by
    simp [s', List.foldl_append]
  obtain ⟨g, hg2⟩ := Option.isSome_iff_exists.mp hm'.guard
  have hp2 : (mid.foldl step (step s .begin)).poisoned = none := by rw [hm'.poisoned, hb]; exact hp
  obtain ⟨e1, e2, e3, e4, e5⟩ := step_abandon_fields _ g hp2 hg2
  rw [← hs'] at e1 e2 e3 e4 e5
  have o1 : s'.j.offset = s.j.offset := by rw [e1, hm'.offset, hb]
  have o2 : s'.j.recs = s.j.recs := by rw [e1, hm'.recs, hb]
  have o3 : s'.j.la = s.j.la := by rw [e1, hm'.la, hb]
  refine ⟨o1, o2, o3, by rw [e2, hm'.built, hb], by rw [e3, hm'.eb, hb], e4, ?_⟩
  have hb' : step s' .begin = { s' with guard := some { trivial := false, originLen := s'.j.queueLen } } := by
    simp [step, e5, e4]
  apply guardPn_congr _ _ hbg (by rw [hb']; rfl)
  · rw [hb', hb]; exact o1
  · rw [hb', hb]; exact o2
  · rw [hb', hb]; exact o3

example :
    let s := [Op.begin, .frame, .build 1 1].foldl step init
    guardPn (step ([Op.begin, .pn, .frame, .trivial, .abandon].foldl step s) .begin) = some (1, .ok (.u16 1)) := by
  decide

/-- In every reachable state, the `encode` inside `NewPacketGuard::pn()` cannot hit the `pn - largest_acked`
underflow nor the `* 2` overflow (although `update_largest` accepts an ACK of the next unsent number). -/
theorem guard_pn_never_underflows (ops : List Op) (pn : Nat) (r : Res PacketNumber)
    (h : guardPn (ops.foldl step init) = some (pn, r)) :
    r ≠ .panic .subOverflow ∧ r ≠ .panic .mulOverflow ∧ (ops.foldl step init).j.la ≤ pn ∧ pn ≤ 2 ^ 62 := by
  have inv := fold_baseInv ops init init_baseInv
  have h1 := inv.la_le
  have h2 := inv.bound
  simp only [varintMax] at h2
  unfold guardPn at h
  split at h
  · simp only [Option.some.injEq, Prod.mk.injEq] at h
    obtain ⟨hp, hr⟩ := h
    subst hp
    refine ⟨?_, ?_, h1, by omega⟩
    · rw [← hr]; unfold encode
      have : ¬ (ops.foldl step init).j.largest < (ops.foldl step init).j.la := by omega
      simp only [this, if_false]
      (repeat' split) <;> simp
    · rw [← hr]; unfold encode
      have a : ¬ (ops.foldl step init).j.largest < (ops.foldl step init).j.la := by omega
      have b : ¬ u64Size ≤ ((ops.foldl step init).j.largest - (ops.foldl step init).j.la) * pnRangeFactor := by
        simp only [u64Size, pnRangeFactor]; omega
      simp only [a, b, if_false]
      (repeat' split) <;> simp
  · cases h
example : guardPn ([Op.ackLargest 0, .begin].foldl step init) = some (0, .ok (.u16 0)) := by decide

/-- hypothesis of `queue_records_agree`: no guard was dropped after `record_frame` (`leaked` counts the frames
such guards left in `queue`; `NewPacketGuard` has no `Drop` impl that would take them out again). -/
def NoAbandonAfterRecord (ops : List Op) : Prop := (ops.foldl step init).leaked = 0

instance (ops : List Op) : Decidable (NoAbandonAfterRecord ops) := by unfold NoAbandonAfterRecord; infer_instance

/-- Over all histories every frame in `queue` is accounted for: by a record, by a leak, or by the live guard. -/
theorem queue_records_account (ops : List Op) :
    let s := ops.foldl step init
    s.poisoned = none → sumFrames s.j.recs + s.leaked = base s ∧ base s ≤ s.j.queueLen :=
  (fold_qinv ops init init_qinv).acct

/-- DESIGN `queue_records_agree`: Σ nframes = queue length (between guards), if no guard was abandoned after
`record_frame`. -/
theorem queue_records_agree (ops : List Op) (h : NoAbandonAfterRecord ops) :
    (ops.foldl step init).poisoned = none → (ops.foldl step init).guard = none →
      sumFrames (ops.foldl step init).j.recs = (ops.foldl step init).j.queueLen := by
  intro hp hg
  obtain ⟨h1, _⟩ := (fold_qinv ops init init_qinv).acct hp
  have h0 : (ops.foldl step init).leaked = 0 := h
  simp only [base, hg] at h1
  omega

/-- …and without that hypothesis it is false (same on the real journal: harness `C07j` fixed case 2, `recs=- q=1`). -/
theorem queue_records_agree_fails :
    ¬ (∀ ops : List Op, (ops.foldl step init).poisoned = none → (ops.foldl step init).guard = none →
        sumFrames (ops.foldl step init).j.recs = (ops.foldl step init).j.queueLen) := by
  intro h
  have := h [.begin, .frame, .abandon]
  revert this
  decide

example : NoAbandonAfterRecord [.begin, .frame, .frame, .build 1 1, .begin, .trivial, .abandon, .begin, .frame, .build 2 2, .acked 0] ∧
    sumFrames ([Op.begin, .frame, .frame, .build 1 1, .begin, .trivial, .abandon, .begin, .frame, .build 2 2, .acked 0].foldl step init).j.recs = 1 := by
  decide

/-- `SentJournal::resize`'s `queue.drain(..f)` is always in range (no panic inside `Drop for SentRotateGuard`). -/
theorem resize_never_panics (ops : List Op) : (ops.foldl step init).poisoned ≠ some .drain :=
  (fold_qinv ops init init_qinv).noDrain

end GmQuic.SentJournal
