import GmQuic.Lemmas.Rcvd
/-!
C07 (receiver half) — `RcvdJournal::decode_pn` never hands the same packet number to the packet
processing twice and rejects everything below the window, over all later histories of
`on_rcvd_pn` / queue rotation (`Rcvd` in `Model/Pn.lean`: ⟨offset, cells⟩, a cell is `true` iff its state is
not `Empty`).  How far rotation slides is C10's concern; here it is arbitrary.
-/
namespace GmQuic.Pn

/-- What `decode_pn` accepts is inside the window and not yet received; what is below the window is
`TooOld`, what is already registered is `Duplicate`. -/
theorem decode_pn_rejects_dup_and_old (r : Rcvd) (e : PacketNumber) (pn : Nat)
    (hd : decode e r.largest = .ok pn) :
    (pn < r.offset → r.decodePn e = .tooOld) ∧
    (r.offset ≤ pn → r.seen pn = true → r.decodePn e = .duplicate) ∧
    (r.offset ≤ pn → r.seen pn = false → r.decodePn e = .ok pn) := by
  unfold Rcvd.decodePn
  simp only [hd]
  refine ⟨fun h => by simp [h], fun h hs => ?_, fun h hs => ?_⟩
  · have : ¬ pn < r.offset := by omega
    simp [this, hs]
  · have : ¬ pn < r.offset := by omega
    simp [this, hs]

/-- **A packet number registered with `on_rcvd_pn` is never accepted by `decode_pn` again**, whatever
arrives or rotates afterwards and however the later packet encodes it. -/
theorem decode_pn_never_accepts_twice (r : Rcvd) (pn : Nat) (later : List ROp) (e : PacketNumber) :
    (later.foldl rstep (r.onRcvd pn)).decodePn e ≠ .ok pn := by
  exact gone_not_ok _ pn (gone_fold pn later _ (gone_onRcvd_self r pn)) e

/-- non-vacuity: accepted once, then `Duplicate`; after rotation `TooOld`. -/
example :
    let r : Rcvd := {}
    r.decodePn (.u16 5) = .ok 5 ∧ (r.onRcvd 5).decodePn (.u16 5) = .duplicate ∧
      ((r.onRcvd 5).onRcvd 7).decodePn (.u16 6) = .ok 6 ∧
      (((r.onRcvd 5).onRcvd 7).slide 7).decodePn (.u16 6) = .tooOld := by decide

end GmQuic.Pn
