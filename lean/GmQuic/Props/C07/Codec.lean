import GmQuic.Lemmas.Pn
/-!
C07 (codec half) — the truncated packet number written on the wire is always reconstructed to the
number sent.  Property theorems only; helper lemmas are in `GmQuic/Lemmas/Pn.lean`.

`decodeEncodeWire pn la exp rest` = `PacketNumber::encode(pn, la)` → `put_packet_number` → `take_pn_len(size)`
→ `decode(exp)` (what the protocol does); `decodeEncodeMem` = `PacketNumber::encode(pn, la).decode(exp)`
(what the repo's unit tests do, no wire in between).
-/
namespace GmQuic.Pn
open GmQuic.Gen GmQuic.Wire

/-- General form: the receiver's next-expected number may be anywhere from the sender's largest-acked
up to the packet itself.  The real sender passes `largest_acked = 0` while nothing has been
acknowledged (`sjInitLargestAcked`), and a receiver that has received nothing expects 0 — this is the
case `la = 0`, `exp = 0`, which the `la + 1 ≤ exp` form below does not cover. -/
theorem decode_encode_from_la (pn la exp : Nat) (rest : Bytes)
    (hpn : pn < 2 ^ 62) (hla : la ≤ pn) (hgap : pn - la < 2 ^ 31)
    (hlo : la ≤ exp) (hhi : exp ≤ pn) :
    decodeEncodeWire pn la exp rest = .ok pn := by
  have hexp : exp < 2 ^ 64 := by omega
  unfold decodeEncodeWire
  rw [encode_closed pn la hla hgap]
  split
  · simp only [Res.bind, viaWire_eq]
    rw [decode_eq_decodeDM _ _ hexp (truncWire_canonical _)]
    simp only [truncWire, parts, pnBits16, Nat.mod_mod]
    exact decodeDM_correct 16 pn exp (by simp) hpn hhi (by simp only [Nat.reduceSub]; omega)
  · split
    · simp only [Res.bind, viaWire_eq]
      rw [decode_eq_decodeDM _ _ hexp (truncWire_canonical _)]
      simp only [truncWire, parts, pnBits24, Nat.mod_mod]
      exact decodeDM_correct 24 pn exp (by simp) hpn hhi (by simp only [Nat.reduceSub]; omega)
    · simp only [Res.bind, viaWire_eq]
      rw [decode_eq_decodeDM _ _ hexp (truncWire_canonical _)]
      simp only [truncWire, parts, pnBits32, Nat.mod_mod]
      exact decodeDM_correct 32 pn exp (by simp) hpn hhi (by simp only [Nat.reduceSub]; omega)

/-- **DESIGN Appendix A, `decode_encode`** (over the wire, any trailing bytes `rest`). -/
theorem decode_encode (pn la exp : Nat) (rest : Bytes)
    (hpn : pn < 2 ^ 62) (hla : la < pn) (hgap : pn - la < 2 ^ 31)
    (hlo : la + 1 ≤ exp) (hhi : exp ≤ pn) :
    decodeEncodeWire pn la exp rest = .ok pn :=
  decode_encode_from_la pn la exp rest hpn (by omega) hgap (by omega) hhi

example : decodeEncodeWire 0xac5c02 0xabe8b3 0xabe8b4 [0x17] = .ok 0xac5c02 := by decide
example : decodeEncodeWire 0x04000005 0x03ff0000 0x03fffff0 [] = .ok 0x04000005 := by decide
/-- nothing acknowledged, nothing received yet -/
example : decodeEncodeWire 0 0 0 [] = .ok 0 := by decide

/-- The nothing-acked-yet instance, spelled out: the sender's `largest_acked` is still its initial
value and the receiver may have received any prefix-or-nothing of `0..pn`. -/
theorem decode_encode_nothing_acked (pn exp : Nat) (rest : Bytes)
    (hpn : pn < 2 ^ 31) (hhi : exp ≤ pn) :
    decodeEncodeWire pn sjInitLargestAcked exp rest = .ok pn :=
  decode_encode_from_la pn 0 exp rest (by omega) (by omega) (by omega) (by omega) hhi

/-- **The Appendix-A statement read literally on the in-memory value** (`encode(..).decode(..)` without the
wire, what the repo's unit tests do).  Full theorem since fix-C07-u24-mask: `encode` stores
`pn as u32 & 0x00ff_ffff` in `U24`, so `decode` ORs only 24 bits into the candidate.  Before the fix `encode`
stored all 32 bits (`pn as u32`), the statement was false (`decode_encode_inmem_fails`, witness kept below as
what the fix excludes) and held only under the hypothesis "bits 24‥31 of `pn` are zero whenever the 3-byte
form is chosen" (`decode_encode_inmem_partial`).  Harness run `C07pn`, monitor `inmem_roundtrip:u24`. -/
theorem decode_encode_inmem (pn la exp : Nat)
    (hpn : pn < 2 ^ 62) (hla : la < pn) (hgap : pn - la < 2 ^ 31)
    (hlo : la + 1 ≤ exp) (hhi : exp ≤ pn) :
    decodeEncodeMem pn la exp = .ok pn := by
  have hexp : exp < 2 ^ 64 := by omega
  unfold decodeEncodeMem
  rw [encode_closed pn la (by omega) hgap]
  split
  · simp only [Res.bind]
    rw [decode_eq_decodeDM _ _ hexp (by simp only [Canonical, parts, pnBits16]; exact Nat.mod_lt _ (by decide))]
    exact decodeDM_correct 16 pn exp (by simp) hpn hhi (by simp only [Nat.reduceSub]; omega)
  · split
    · simp only [Res.bind]
      rw [decode_eq_decodeDM _ _ hexp (by simp only [Canonical, parts, pnBits24]; exact Nat.mod_lt _ (by decide))]
      exact decodeDM_correct 24 pn exp (by simp) hpn hhi (by simp only [Nat.reduceSub]; omega)
    · simp only [Res.bind]
      rw [decode_eq_decodeDM _ _ hexp (by simp only [Canonical, parts, pnBits32]; exact Nat.mod_lt _ (by decide))]
      exact decodeDM_correct 32 pn exp (by simp) hpn hhi (by simp only [Nat.reduceSub]; omega)

/-- the former counterexample (pre-fix result: `.ok 0x06000005`) -/
example : decodeEncodeMem 0x04000005 0x03ff0000 0x03fffff0 = .ok 0x04000005 := by decide
example : encode 0x04000005 0x03ff0000 = .ok (.u24 0x000005) := by decide
/-- what the unfixed `encode` held in memory, and what `decode` made of it -/
example : decode (.u24 0x04000005) 0x03fffff0 = .ok 0x06000005 := by decide
example : decodeEncodeMem 0x00ff0005 0x00fe0000 0x00fe0001 = .ok 0x00ff0005 := by decide

/-- The in-memory value `encode` returns is what the receiver's parser returns for it (no bits beyond the
encoded width): the wire is the identity on it. -/
theorem encode_canonical (pn la : Nat) (e : PacketNumber) (rest : Bytes) (hla : la ≤ pn) (hgap : pn - la < 2 ^ 31)
    (h : encode pn la = .ok e) : viaWire e rest = .ok e rest := by
  rw [encode_closed pn la hla hgap] at h
  rw [viaWire_eq]
  split at h
  · cases h; simp [truncWire]
  · split at h <;> cases h <;> simp [truncWire]

example : encode 0x04000005 0x03ff0000 = .ok (.u24 5) ∧ viaWire (.u24 5) [7] = .ok (.u24 5) [7] := by decide

/-- `encode` does not panic on the property's domain (`pn − la` underflow, `* 2` overflow and the
"packet number too large to encode" arm are all unreachable). -/
theorem encode_total (pn la : Nat) (hla : la ≤ pn) (hgap : pn - la < 2 ^ 31) :
    ∃ e, encode pn la = .ok e := by
  rw [encode_closed pn la hla hgap]
  split
  · exact ⟨_, rfl⟩
  · split <;> exact ⟨_, rfl⟩

/-- The domain bound is sharp: one more unacknowledged packet and the real `encode` panics
(harness `C07pn` fixed case `pn 2147483648 0 0 => PANIC:toolarge`; also the repo's own `should_panic` test). -/
theorem encode_panics_at_2_31 : encode (2 ^ 31) 0 = .panic .tooLarge := by decide

/-- `largest_acked > pn` is a u64 underflow (dev profile: panic). -/
theorem encode_panics_on_underflow (pn la : Nat) (h : pn < la) : encode pn la = .panic .subOverflow := by
  simp [encode, h]

/-- RFC 9000 §17.1: the encoding window is more than twice the distance to the largest acknowledged, and
it is the smallest of the 2/3/4-byte forms with that property (the 1-byte form is never produced:
`pnMinRange = 2^16 − 1`). -/
theorem encode_size_minimal (pn la : Nat) (e : PacketNumber) (hla : la ≤ pn) (hgap : pn - la < 2 ^ 31)
    (h : encode pn la = .ok e) :
    (pn - la) * 2 < 2 ^ (8 * size e) ∧ 2 ≤ size e ∧ size e ≤ 4 ∧
      (size e = 2 ∨ 2 ^ (8 * (size e - 1)) ≤ (pn - la) * 2) := by
  rw [encode_closed pn la hla hgap] at h
  split at h
  · cases h
    simp only [size, pnSize16, Nat.reduceMul, Nat.reduceSub, Nat.reducePow]
    refine ⟨by omega, by omega, by omega, ?_⟩
    first | (left; trivial) | (right; omega)
  · split at h
    · cases h
      simp only [size, pnSize24, Nat.reduceMul, Nat.reduceSub, Nat.reducePow]
      refine ⟨by omega, by omega, by omega, ?_⟩
      first | (left; trivial) | (right; omega)
    · cases h
      simp only [size, pnSize32, Nat.reduceMul, Nat.reduceSub, Nat.reducePow]
      refine ⟨by omega, by omega, by omega, ?_⟩
      first | (left; trivial) | (right; omega)

example : encode 70000 100 = .ok (.u24 70000) ∧ size (.u24 70000) = 3 := by decide

/-- `size` is what `put_packet_number` writes. -/
theorem put_length (e : PacketNumber) : (put e).length = size e := by
  cases e <;> simp [put, size, pnPut8, pnPut16, pnPut32, pnSize8, pnSize16, pnSize24, pnSize32]

end GmQuic.Pn
