import GmQuic.Model.Cid
import GmQuic.Model.Router
namespace GmQuic.Cid
theorem placeholder_issue_seq (l : Local) (c : Cid) : (l.issue c).2.seq = l.largest := rfl
end GmQuic.Cid
