import GmQuic.Lemmas.CidRouter
import GmQuic.Lemmas.CidRemote
import GmQuic.Lemmas.CidSwitchRun
/-!
C14 — connection IDs are issued, used, retired and routed consistently.
Only the property theorems; models in `GmQuic/Model/{Cid,Router}.lean`, lemmas in `GmQuic/Lemmas/Cid*.lean`.
-/
namespace GmQuic.Cid

/-! ## locally issued ids and the shared router (`Sys`: any number of connections on one router)

`Hist Sys.init ops`: the only hypothesis on histories — the client-chosen original DCID handed to a new server
connection is not an id that some connection has issued and not retired (`OdcidNotIssued`; `QuicRouter::deliver`
creates a connection only for a packet that found no entry).  Without it `QuicRouter::insert` overwrites another
connection's issued id and that connection's later `retire_cid` removes the newcomer's route (`router_insert_overwrites`).
The original DCID MAY be a signpost another connection registered the same way (same first flight seen twice): the
histories include such take-overs, and every order of dropping a connection's `LocalCids`, releasing its packet queue
(`relQueue`) and dropping its `QuicRouterEntry` (`dropOdcid`).  `Owns s k c`: `c` is issued and unretired by `k`, or `k`
holds the entry of the signpost `c` and no later connection has re-registered it (ghost flag `olive`). -/

/-- lookup of an id returns connection `k` **iff** `k` currently owns it (issued and unretired, or its registered
original DCID): live ids reach exactly their own connection, retired / cleared / dropped ones reach nobody. -/
theorem router_domain_is_active_ids (ops : List Op) (h : Hist Sys.init ops) (c : Cid) (k : Nat) :
    (Sys.run ops).table.lookup c = some k ↔ Owns (Sys.run ops) k c :=
  (inv_run ops h).dom c k

/-- no id is owned by two connections -/
theorem router_owner_unique (ops : List Op) (h : Hist Sys.init ops) (c : Cid) (j k : Nat)
    (hj : Owns (Sys.run ops) j c) (hk : Owns (Sys.run ops) k c) : j = k :=
  (inv_run ops h).owner_unique hj hk

/-- an id nobody owns any more (retired, or its connection cleared / dropped) is not routed -/
theorem router_dead_id_unrouted (ops : List Op) (h : Hist Sys.init ops) (c : Cid)
    (hd : ∀ k, ¬ Owns (Sys.run ops) k c) : (Sys.run ops).table.lookup c = none := by
  cases hl : (Sys.run ops).table.lookup c with
  | none => rfl
  | some k => exact absurd ((router_domain_is_active_ids ops h c k).1 hl) (hd k)

/-- after `clear()` / drop of its `ArcLocalCids` (and of its original-DCID entry) nothing is routed to a connection -/
theorem router_dropped_conn_unrouted (ops : List Op) (h : Hist Sys.init ops) (k : Nat) (cn : Conn)
    (hk : (Sys.run ops).conns[k]? = some cn) (hdq : cn.loc.dq = []) (hod : cn.odcid = none) (c : Cid) :
    (Sys.run ops).table.lookup c ≠ some k := by
  intro hl
  obtain ⟨cn', h1, h2⟩ := (router_domain_is_active_ids ops h c k).1 hl
  rw [hk] at h1; cases h1
  rcases h2 with h2 | h2
  · rw [hdq] at h2; cases h2
  · rw [hod] at h2; cases h2.1

/-- `clear` and `drop` leave no id behind -/
theorem clear_leaves_nothing (l : Local) : l.clear.1.dq = [] ∧ l.clear.2 = l.active := ⟨rfl, rfl⟩

example : Hist Sys.init [.conn none, .conn (some (.ext 7)), .setLimit 0 4, .retire 0 1, .retire 1 0, .drop 0,
    .dropOdcid 1, .route (.gen 3)] := by
  simp [Hist, OdcidNotIssued, Sys.step, Sys.supersede, Sys.init, Local.new]

/-- take-over + tear-down in the order of seeded c14r2-2: two connections register the same original DCID, the first one
drops its `LocalCids`, releases its queue and only then drops its (superseded) entry — a legal history, and the signpost
still reaches the second connection -/
example :
    Hist Sys.init [.conn (some (.ext 7)), .conn (some (.ext 7)), .drop 0, .relQueue 0, .dropOdcid 0] ∧
    (Sys.run [.conn (some (.ext 7)), .conn (some (.ext 7)), .drop 0, .relQueue 0, .dropOdcid 0]).table.lookup (.ext 7) = some 1 := by
  refine ⟨?_, by decide⟩
  simp [Hist, OdcidNotIssued, Sys.step, Sys.supersede, Sys.init, Local.new]

/-- releasing a connection's packet queue changes nothing, wherever it stands in the history
(`QuicRouterEntry::remove` compares by pointer and never looks whether the queue is alive) -/
theorem rel_queue_no_effect (s : Sys) (k : Nat) : (s.step (.relQueue k)).1 = s := by
  simp only [Sys.step]
  split <;> rfl

/-- dropping a superseded entry (another connection has re-registered its signpost) leaves every route where it is —
in every reachable state, so in any order with the drop of the connection's `LocalCids` and the release of its queue -/
theorem superseded_entry_drop_keeps_routes (ops : List Op) (h : Hist Sys.init ops) (k : Nat) (cn : Conn) (od : Cid)
    (hk : (Sys.run ops).conns[k]? = some cn) (hod : cn.odcid = some od) (hst : cn.olive = false) (x : Cid) :
    ((Sys.run ops).step (.dropOdcid k)).1.table.lookup x = (Sys.run ops).table.lookup x := by
  have hi := inv_run ops h
  generalize Sys.run ops = s at *
  have hc := hi.conn k cn hk
  have hl : ¬ s.table.lookup od = some k := by
    intro hl
    obtain ⟨cn', h1, h2⟩ := (hi.dom od k).1 hl
    rw [hk] at h1; cases h1
    rcases h2 with h2 | ⟨_, h2⟩
    · exact (hc.od _ hod).1 h2
    · rw [hst] at h2; cases h2
  simp only [Sys.step, hk, hod]
  show (s.table.removeIf od k).lookup x = _
  rw [Table.lookup_removeIf _ hi.wf]
  simp [hl]

example :
    let s := Sys.run [.conn (some (.ext 7)), .conn (some (.ext 7))]
    ∃ cn, s.conns[0]? = some cn ∧ cn.odcid = some (.ext 7) ∧ cn.olive = false := ⟨_, rfl, rfl, rfl⟩

/-- the hypothesis matters: `QuicRouter::insert` overwrites — a new connection whose original DCID equals a live id
of another connection takes over its routing. -/
theorem router_insert_overwrites :
    let s := Sys.run [.conn none, .conn (some (.gen 0))]
    s.table.lookup (.gen 0) = some 1 ∧ Owns s 0 (.gen 0) := by
  refine ⟨by decide, ⟨_, rfl, Or.inl ?_⟩⟩
  decide

/-- sequence numbers are issued consecutively: the NEW_CONNECTION_ID frames of a connection carry 1, 2, 3, … and the
next number to be issued is one more than the number of frames sent -/
theorem local_consecutive (ops : List Op) (h : Hist Sys.init ops) (k : Nat) (cn : Conn)
    (hk : (Sys.run ops).conns[k]? = some cn) :
    cn.frames.map (·.seq) = List.range' 1 cn.frames.length ∧ cn.loc.largest = cn.frames.length + 1 :=
  ⟨((inv_run ops h).conn k cn hk).seqs, ((inv_run ops h).conn k cn hk).largest⟩

/-- never more unretired ids outstanding than the peer's `active_connection_id_limit` (2 while unknown) -/
theorem local_active_le_limit (ops : List Op) (h : Hist Sys.init ops) (k : Nat) (cn : Conn)
    (hk : (Sys.run ops).conns[k]? = some cn) :
    cn.loc.active.length ≤ cn.loc.limit.getD 2 ∧ cn.loc.active.Nodup :=
  ⟨((inv_run ops h).conn k cn hk).act, ((inv_run ops h).conn k cn hk).nodup⟩

/-- every retirement the peer asks for is answered one for one: retiring an active number removes exactly that id,
issues exactly one new id with the next sequence number and keeps the number of active ids; retiring a number that
is issued but no longer active changes nothing; a number never issued is an error. -/
theorem retire_replaced_one_for_one (l : Local) (seq : Nat) (c : Cid) :
    match l.retire seq c with
    | .retired l' old f =>
        l.dq[seq - l.off]? = some (some old) ∧ l.off ≤ seq ∧ l'.active.length = l.active.length ∧
        f.seq = l.largest ∧ f.cid = c ∧ l'.largest = l.largest + 1 ∧ l'.limit = l.limit ∧
        (l.active.Nodup → ∀ x, some x ∈ l'.dq ↔ (x = c ∨ (some x ∈ l.dq ∧ x ≠ old)))
    | .noop => seq < l.largest ∧ (seq < l.off ∨ l.dq[seq - l.off]? = some none)
    | .errUnissued => l.largest ≤ seq := by
  split
  · rename_i l' old f h
    have h1 := Local.retire_retired h
    exact ⟨h1.2.2.1, h1.1, Local.retire_active_length h, (Local.retire_frame h).1, (Local.retire_frame h).2,
      Local.retire_largest h, h1.2.2.2.2.2.2, fun hnd x => Local.retire_mem h hnd x⟩
  · rename_i h
    unfold Local.retire at h
    split at h; · cases h
    split at h; · omega
    split at h
    · cases h
    · rename_i hne
      refine ⟨by omega, Or.inr ?_⟩
      have hlt : seq - l.off < l.dq.length := by unfold Local.largest at *; omega
      cases hg : l.dq[seq - l.off]? with
      | none => rw [List.getElem?_eq_none_iff] at hg; omega
      | some v =>
        cases v with
        | none => rfl
        | some o => exact absurd hg (hne o)
  · rename_i h; exact (Local.retire_err_iff l seq c).1 h

/-- RETIRE_CONNECTION_ID for a sequence number greater than any sent is rejected (state untouched), for every
reachable state of every connection on the router -/
theorem retire_unissued_rejected (ops : List Op) (h : Hist Sys.init ops) (k : Nat) (cn : Conn)
    (hk : (Sys.run ops).conns[k]? = some cn) (hlive : cn.dropped = false ∧ cn.poisoned = false)
    (seq : Nat) (hseq : cn.frames.length < seq) :
    (Sys.run ops).step (.retire k seq) = (Sys.run ops, .errUnissued) := by
  have hl := (local_consecutive ops h k cn hk).2
  have : cn.loc.retire seq (.gen (Sys.run ops).next) = .errUnissued :=
    (Local.retire_err_iff _ _ _).2 (by omega)
  simp [Sys.step, hk, hlive.1, hlive.2, this]

example : (Sys.run [.conn none, .setLimit 0 3]).step (.retire 0 3) = (Sys.run [.conn none, .setLimit 0 3], .errUnissued) := by
  rfl

/-- … but with CONNECTION_ID_LIMIT_ERROR where RFC 9000 §19.16 demands PROTOCOL_VIOLATION (pinned tree) -/
theorem retire_unissued_kind_fails : ¬ (Local.unissuedKind false = Local.rfcUnissuedKind) := by decide

/-- with `repo_patches/fix-C14-retire-unissued-kind.diff` -/
theorem retire_unissued_kind : Local.unissuedKind true = Local.rfcUnissuedKind := by decide

/-- number of ids issued by `set_limit(n)`: `min n 64 - largest` loop iterations (`fix-C04-setlimit-cap.diff`; before it
`n - largest`, DESIGN §7 item 9) -/
theorem set_limit_cost (l : Local) (next n : Nat) (l' : Local) (fs : List NewCid)
    (h : l.setLimit next n = .ok l' fs) : fs.length = min n Local.maxIssuedActiveCids - l.largest :=
  (Local.setLimit_ok h).2.2.2.2.2.2.2.2.2

/-- **issued_le_64_outstanding**: however large the peer's active_connection_id_limit, `set_limit` issues at most 64 ids
and leaves at most `max 64 (ids issued before)` sequence numbers issued; never more than the peer's limit allows
(`local_active_le_limit` holds a fortiori) -/
theorem issued_le_64_outstanding (l : Local) (next n : Nat) (l' : Local) (fs : List NewCid)
    (h : l.setLimit next n = .ok l' fs) :
    fs.length ≤ 64 ∧ l'.largest ≤ max l.largest 64 ∧ fs.length ≤ n - l.largest := by
  have hs := Local.setLimit_ok h
  have h1 := hs.2.2.2.2.2.1
  have h2 := hs.2.2.2.2.2.2.2.2.2
  have : Local.maxIssuedActiveCids = 64 := rfl
  omega

example : ∃ l' fs, (Local.new (.ext 0) (.gen 0)).1.setLimit 1 1000 = .ok l' fs ∧ fs.length = 62 := ⟨_, _, rfl, by decide⟩


/-! ## ids issued by the peer (`RRun`: any history of NEW_CONNECTION_ID frames — reordered, duplicated, with any
sequence / retire-prior-to values — interleaved with paths applying for, borrowing, releasing and retiring ids;
`fixed : Remote.Tree` = which `recv_new_cid_frame`: `.pinned` the pinned tree, `.counted` with `fix-C14-remote-limit.diff`,
`.exact` with `fix-C14-legal-issue.diff` on top (no pre-test on the frame's two fields)) -/

/-- each path holds one id at a time: unless a borrowed id is still in use (`BorrowedCid` alive) a cell holds at most
one id, a retired cell holds none — for every history, on both trees -/
theorem cell_one_id_at_a_time (fixed : Remote.Tree) (limit : Nat) (ops : List ROp) :
    ∀ c ∈ (RRun.run fixed limit ops).s.cells, (c.inUse = false → c.alloc.length ≤ 1) ∧ (c.retired = true → c.alloc = []) :=
  (RRun.runInv_run fixed limit ops).inv.ok

/-- … and the id a path is given is always the newest one assigned to it; a retired path gets none -/
theorem cell_borrows_newest (c : Cell) (x : Cid) (h : c.borrow.2 = .cid x) :
    c.retired = false ∧ ∃ q rest, c.alloc = (q, x) :: rest := by
  unfold Cell.borrow at h
  split at h
  · cases h
  · rename_i hr
    split at h
    · cases h
    · rename_i q cid rest heq
      simp only [Cell.BorrowRes.cid.injEq] at h
      subst h
      exact ⟨by simpa using hr, q, rest, heq⟩

/-- structural facts behind the retire-prior-to logic, for every history: the cells handed out are exactly the ids
`ready_cells.offset .. cursor`, and both tables always share their offset (= the largest retire-prior-to honoured) -/
theorem remote_tables_aligned (fixed : Remote.Tree) (limit : Nat) (ops : List ROp) :
    let s := (RRun.run fixed limit ops).s
    s.roff + s.ready.length = s.cursor ∧ s.coff = s.roff :=
  ⟨(RRun.runInv_run fixed limit ops).inv.i1, (RRun.runInv_run fixed limit ops).inv.i2⟩

/-- the statement: every step that accepts a NEW_CONNECTION_ID frame ends with at most `active_connection_id_limit`
active peer ids -/
def RemoteLimitEnforced (fixed : Remote.Tree) : Prop :=
  ∀ (limit : Nat) (ops : List ROp) (o : ROp), 2 ≤ limit →
    ((RRun.run fixed limit ops).step fixed o).accepted = (RRun.run fixed limit ops).accepted + 1 →
    ((RRun.run fixed limit ops).step fixed o).s.activeCount ≤ limit

/-- pinned tree: false — limit 2, initial id 0, then ids 1 and 2 with retire-prior-to 0: all three active -/
theorem remote_limit_enforced_fails : ¬ RemoteLimitEnforced .pinned := by
  intro h
  have := h 2 [.apply, .initial (.ext 0) 0, .newcid 1 0 (.ext 1)] (.newcid 2 0 (.ext 2)) (by decide) (by decide)
  revert this
  decide

/-- pinned tree, what does hold: never more than `limit + 1` (in fact the whole table of peer ids never has more
than `limit + 1` cells once a frame has been processed) -/
theorem remote_limit_enforced_partial (fixed : Remote.Tree) (limit : Nat) (ops : List ROp) (hpre : fixed.pre = true) :
    (RRun.run fixed limit ops).s.activeCount ≤ limit + 1 ∧ (RRun.run fixed limit ops).s.cdq.length ≤ limit + 1 := by
  have h := RRun.runInv_run fixed limit ops
  have := Remote.activeCount_le_len (RRun.run fixed limit ops).s
  have h1 := h.len hpre
  rw [h.lim] at h1
  exact ⟨by omega, h1⟩

example : Remote.Tree.pre .pinned = true ∧ Remote.Tree.pre .counted = true := ⟨rfl, rfl⟩

/-- with `fix-C14-remote-limit.diff` (with or without the pre-test): holds for every history -/
theorem remote_limit_enforced (fixed : Remote.Tree) (hcount : fixed.count = true) : RemoteLimitEnforced fixed := by
  intro limit ops o _ hacc
  have hinv := RRun.runInv_run fixed limit ops
  generalize RRun.run fixed limit ops = r at hacc hinv
  unfold RRun.step at hacc ⊢
  split at hacc
  · omega
  rename_i hlive
  simp only [hlive, if_false]
  cases o with
  | newcid seq rpt cid =>
    simp only at hacc ⊢
    have hs := Remote.recvNewCid_spec (fixed := fixed) (seq := seq) (rpt := rpt) (cid := cid) hinv.inv
    cases hres : r.s.recvNewCid fixed seq rpt cid with
    | accepted s' =>
      simp only [hres]
      have := hs.1 s' hres
      have h2 := this.2.2 hcount
      rw [this.2.1, hinv.lim] at h2
      exact h2
    | errLimit s' => simp only [hres] at hacc; omega
    | discarded => simp only [hres] at hacc; omega
    | panic site => simp only [hres] at hacc; omega
  | apply => simp only at hacc; omega
  | initial cid c =>
    simp only at hacc
    cases hres : r.s.applyInitial cid c <;> simp only [hres] at hacc <;> omega
  | borrow c => simp only at hacc; omega
  | release c =>
    simp only at hacc
    cases hres : r.s.release c <;> simp only [hres] at hacc <;> omega
  | retireCell c => simp only at hacc; omega

example : Remote.Tree.count .counted = true ∧ Remote.Tree.count .exact = true := ⟨rfl, rfl⟩
example : ((RRun.run .exact 2 [.apply, .initial (.ext 0) 0, .newcid 1 0 (.ext 1)]).step .exact (.newcid 2 1 (.ext 2))).accepted = 2 := by
  decide

/-! ### a legal NEW_CONNECTION_ID frame is not rejected -/

/-- the statement: a NEW_CONNECTION_ID frame is answered with CONNECTION_ID_LIMIT_ERROR only if processing it (insert,
then retire-prior-to) would leave more than `active_connection_id_limit` active peer ids — for a frame whose sequence
number is at most `max 4096 limit` beyond the largest received (further ahead: `far_ahead_rejected`) -/
def LegalIssueAccepted (fixed : Remote.Tree) : Prop :=
  ∀ (limit : Nat) (ops : List ROp) (seq rpt : Nat) (cid : Cid) (s' s2 : Remote),
    (RRun.run fixed limit ops).s.farAhead seq = false →
    (RRun.run fixed limit ops).s.recvNewCid fixed seq rpt cid = .errLimit s' →
    ((RRun.run fixed limit ops).s.insertCid seq cid).1.retirePriorTo rpt = .ok s2 →
    s2.activeCount > s2.limit

/-- the tree with the pre-test `seq - retire_prior_to > limit` (pinned, and /repo with `fix-C14-remote-limit.diff`): false —
limit 2, path A stays on id 0, a second path is retired twice (ids 1, 2), the peer replaces each (what gm-quic's own
`LocalCids` sends: retire_prior_to stays 0): the frame (seq 3, retire_prior_to 0) leaves the ids {0, 3} active and is
rejected because 3 − 0 > 2 -/
theorem legal_issue_accepted_fails : ¬ LegalIssueAccepted .counted := by
  intro h
  have := h 2 [.apply, .initial (.ext 0) 0, .newcid 1 0 (.ext 1), .apply, .retireCell 1, .apply, .newcid 2 0 (.ext 2), .retireCell 2, .apply]
    3 0 (.ext 3) _ _ (by decide) rfl rfl
  revert this
  decide

/-- what does hold on every tree: a frame that passes the pre-test is rejected only for too many active ids -/
theorem legal_issue_accepted_partial (fixed : Remote.Tree) (s : Remote) (seq rpt : Nat) (cid : Cid) (s' s2 : Remote)
    (hpre : seq - rpt ≤ s.limit) (hnf : s.farAhead seq = false)
    (h : s.recvNewCid fixed seq rpt cid = .errLimit s') (h2 : (s.insertCid seq cid).1.retirePriorTo rpt = .ok s2) :
    s2.activeCount > s2.limit := by
  unfold Remote.recvNewCid at h
  have hp : ¬ ((fixed.pre && decide (seq - rpt > s.limit) || fixed.gap && decide (s.coff ≤ seq) && s.farAhead seq) = true) := by
    simp [hnf]; intro _; omega
  split at h
  · rename_i hc; exact absurd hc hp
  split at h
  · cases h
  generalize hq : s.insertCid seq cid = q at h h2
  obtain ⟨s1, n⟩ := q
  simp only at h h2
  rw [h2] at h
  simp only at h
  split at h
  · rename_i hc
    simp only [Bool.and_eq_true, decide_eq_true_eq] at hc
    exact hc.2
  · cases h

example : ∃ s' s2, (RRun.run .counted 2 [.apply, .initial (.ext 0) 0, .newcid 1 0 (.ext 1)]).s.recvNewCid .counted 2 0 (.ext 2) = .errLimit s' ∧
    ((RRun.run .counted 2 [.apply, .initial (.ext 0) 0, .newcid 1 0 (.ext 1)]).s.insertCid 2 (.ext 2)).1.retirePriorTo 0 = .ok s2 :=
  ⟨_, _, rfl, rfl⟩

/-- with `fix-C14-legal-issue.diff` (the count alone decides): holds for every history -/
theorem legal_issue_accepted : LegalIssueAccepted .exact := by
  intro limit ops seq rpt cid s' s2 hnf h h2
  generalize (RRun.run .exact limit ops).s = s at hnf h h2
  unfold Remote.recvNewCid at h
  split at h
  · rename_i hc; simp [Remote.Tree.pre, hnf] at hc
  split at h
  · cases h
  generalize hq : s.insertCid seq cid = q at h h2
  obtain ⟨s1, n⟩ := q
  simp only at h h2
  rw [h2] at h
  simp only at h
  split at h
  · rename_i hc
    simp only [Bool.and_eq_true, decide_eq_true_eq] at hc
    exact hc.2
  · cases h

/-- … and the witness history of `legal_issue_accepted_fails` is accepted there -/
example : ∃ s', (RRun.run .exact 2 [.apply, .initial (.ext 0) 0, .newcid 1 0 (.ext 1), .apply, .retireCell 1, .apply, .newcid 2 0 (.ext 2),
    .retireCell 2, .apply]).s.recvNewCid .exact 3 0 (.ext 3) = .accepted s' := ⟨_, rfl⟩

/-- **far_ahead_rejected** (/repo HEAD, `fix-C04-newcid-seq-gap.diff`): a sequence number more than `max 4096 limit`
beyond the largest one received is answered with CONNECTION_ID_LIMIT_ERROR and nothing is inserted, retired or
assigned (the state is the one before the frame) -/
theorem far_ahead_rejected (s : Remote) (seq rpt : Nat) (cid : Cid) (hoff : s.coff ≤ seq) (h : s.farAhead seq = true) :
    s.recvNewCid .exact seq rpt cid = .errLimit s := by
  unfold Remote.recvNewCid
  simp [Remote.Tree.gap, hoff, h]

example : (Remote.init 2).coff ≤ 5000 ∧ (Remote.init 2).farAhead 5000 = true := by decide +kernel

/-- cells by which one NEW_CONNECTION_ID frame grows the table: `seq - offset - len + 1`, bounded only by the
sequence number the peer chooses (with `retire_prior_to = seq - limit` the limit test passes) — DESIGN §7 item 8, C04 -/
theorem new_cid_table_growth (s : Remote) (seq : Nat) (h : s.coff + s.cdq.length ≤ seq) :
    s.insertCost seq = seq - s.coff - s.cdq.length + 1 := by
  unfold Remote.insertCost Remote.insertCid
  have : ¬ (seq - s.coff < s.cdq.length) := by omega
  simp [this]

/-! ## retire-prior-to: switching, and exactly one RETIRE_CONNECTION_ID per abandoned id

Ghost logs over a history `ops` (frames in any order, duplicated, any seq / retire_prior_to values, interleaved with
apply / borrow / release (= drop of `BorrowedCid` ⇒ `CidCell::renew`) / retire of any number of cells):
* emitted RETIRE_CONNECTION_ID frames: `(RRun.run … ops).s.frames` — every `send_frame` of `RemoteCids` and of every
  `CidCell`, in order; `frames.count q` = number of frames carrying `q`;
* assigned sequence numbers: `Assigned … ops q c` — at some point of the history cell `c`'s `allocated_cids` contained
  `q` (`CidCell::assign` pushes the new id to the front, so every assignment shows in the state after its step).
`s.roff` (= `s.coff`, `remote_tables_aligned`) is the current retire-prior-to: `retire_prior_to_is_max`.
`s.cursor` is the next sequence number never handed out; `s.cidAt s.cursor` = "a replacement id is available"
(gm-quic hands ids out strictly in sequence order). -/

def Assigned (fixed : Remote.Tree) (limit : Nat) (ops : List ROp) (q c : Nat) : Prop :=
  ∃ n, q ∈ ((RRun.run fixed limit (ops.take n)).s.cell c).seqs

/-- the accounting, for every history and every sequence number `q`: the number of RETIRE_CONNECTION_ID frames that
carried `q` plus the number of cells holding `q` is 1 below `cursor` (assigned to a path, or jumped over by
retire_prior_to) and 0 from `cursor` on — no id is retired twice, none is retired while a path holds it, none is held
by two paths, and an id no path holds any more has been retired -/
theorem retire_accounting (fixed : Remote.Tree) (limit : Nat) (ops : List ROp) (q : Nat) :
    let s := (RRun.run fixed limit ops).s
    s.frames.count q + s.held.count q = if q < s.cursor then 1 else 0 :=
  (RRun.runGood_run fixed limit ops).good.acct q

/-- never two RETIRE_CONNECTION_ID frames for one sequence number -/
theorem retire_frame_at_most_once (fixed : Remote.Tree) (limit : Nat) (ops : List ROp) (q : Nat) :
    (RRun.run fixed limit ops).s.frames.count q ≤ 1 := by
  have := retire_accounting fixed limit ops q
  simp only at this
  split at this <;> omega

/-- the current retire-prior-to is the largest one of the accepted frames: an accepted NEW_CONNECTION_ID frame
`(seq, rpt)` leaves the offset of both tables at `max offset rpt`; nothing assigned lies beyond `cursor ≥ offset` -/
theorem retire_prior_to_is_max (fixed : Remote.Tree) (limit : Nat) (ops : List ROp) (seq rpt : Nat) (cid : Cid) (s' : Remote)
    (h : (RRun.run fixed limit ops).s.recvNewCid fixed seq rpt cid = .accepted s') :
    s'.roff = max (RRun.run fixed limit ops).s.roff rpt ∧ s'.coff = s'.roff ∧ s'.roff ≤ s'.cursor := by
  have hg := (RRun.runGood_run fixed limit ops).good
  have := (Remote.recvNewCid_good (fixed := fixed) (seq := seq) (rpt := rpt) (cid := cid) hg).1 s' h
  have h1 := this.1.rinv.i1
  exact ⟨this.2.2.2, this.1.rinv.i2, by omega⟩

example : ∃ s', (RRun.run .exact 2 [.apply, .initial (.ext 0) 0]).s.recvNewCid .exact 1 1 (.ext 1) = .accepted s' ∧ s'.roff = 1 :=
  ⟨_, rfl, by decide⟩

/-- **one retirement per abandoned id** — for every history and every sequence number `q` that was ever assigned to a
cell `c`: at the end either `c` still holds `q` and no RETIRE_CONNECTION_ID `q` exists, or no cell holds `q` and
EXACTLY ONE RETIRE_CONNECTION_ID `q` was sent; if `c` was retired it is the latter; and once the borrow is released
(`is_using = false`) it is the latter for every assigned number except the single id the cell keeps. -/
theorem retire_prior_to_switches_and_retires_once (fixed : Remote.Tree) (limit : Nat) (ops : List ROp) (q c : Nat)
    (ha : Assigned fixed limit ops q c) :
    let s := (RRun.run fixed limit ops).s
    ((q ∈ (s.cell c).seqs ∧ s.frames.count q = 0 ∧ s.held.count q = 1) ∨
      (q ∉ (s.cell c).seqs ∧ s.frames.count q = 1 ∧ s.held.count q = 0)) ∧
    ((s.cell c).retired = true → s.frames.count q = 1) ∧
    ((s.cell c).inUse = false → s.frames.count q = 1 ∨ ∃ x, (s.cell c).alloc = [(q, x)]) := by
  obtain ⟨n, hn⟩ := ha
  have hl := RRun.leaves_take fixed limit ops n
  have hg := (RRun.runGood_run fixed limit ops).good
  generalize (RRun.run fixed limit ops).s = s at hl hg
  generalize (RRun.run fixed limit (ops.take n)).s = s0 at hl hn
  simp only
  have hacct := hg.acct q
  unfold Remote.acct at hacct
  have hle : s.frames.count q + s.held.count q ≤ 1 := by split at hacct <;> omega
  -- a number a cell holds is counted in `held`
  have hheld : q ∈ (s.cell c).seqs → 1 ≤ s.held.count q := by
    intro hm
    rcases Nat.lt_or_ge c s.cells.length with hc | hc
    · rw [Remote.cell_lt s c hc] at hm
      apply List.count_pos_iff.2
      unfold Remote.held
      exact List.mem_flatMap.2 ⟨_, List.getElem_mem hc, hm⟩
    · rw [Remote.cell_ge s c hc] at hm; simp [Cell.seqs, Cell.fresh] at hm
  have hok := Remote.cell_ok_of_all s hg.rinv.ok c
  have key : (q ∈ (s.cell c).seqs ∧ s.frames.count q = 0 ∧ s.held.count q = 1) ∨
      (q ∉ (s.cell c).seqs ∧ s.frames.count q = 1 ∧ s.held.count q = 0) := by
    rcases hl.mem c q hn with h1 | h1
    · have := hheld h1; exact Or.inl ⟨h1, by omega, by omega⟩
    · have h2 : 1 ≤ s.frames.count q := List.count_pos_iff.2 h1
      refine Or.inr ⟨fun hm => ?_, by omega, by omega⟩
      have := hheld hm; omega
  refine ⟨key, fun hr => ?_, fun hu => ?_⟩
  · rcases key with ⟨h1, _⟩ | ⟨_, h2, _⟩
    · have := hok.2 hr; simp [Cell.seqs, this] at h1
    · exact h2
  · rcases key with ⟨h1, _⟩ | ⟨_, h2, _⟩
    · right
      have hlen := hok.1 hu
      unfold Cell.seqs at h1
      match hal : (s.cell c).alloc, hlen, h1 with
      | [(a, x)], _, h1 => simp at h1; subst h1; exact ⟨x, rfl⟩
      | [], _, h1 => simp at h1
      | _ :: _ :: _, hlen, _ => simp at hlen
    · exact Or.inl h2

/-- non-vacuity + the shape of the seeded c14-2 history: two frames bump retire-prior-to during one borrow; after the
release both abandoned ids 0 and 1 are retired once and the path is on id 2 -/
example : Assigned .exact 2 [.apply, .initial (.ext 0) 0, .borrow 0, .newcid 1 1 (.ext 1), .newcid 2 2 (.ext 2), .release 0] 1 0 :=
  ⟨4, by decide⟩
example : (RRun.run .exact 2 [.apply, .initial (.ext 0) 0, .borrow 0, .newcid 1 1 (.ext 1), .newcid 2 2 (.ext 2), .release 0]).s.frames = [0, 1] := by
  decide

/-- **switching** — in every reachable state of a connection that is not being closed: if a replacement id is
available (the next unused sequence number has been received) then no path waits, and the id every live path is
using / will keep after its release (the front of `allocated_cids`, what `borrow_cid` returns) is ≥ the current
retire-prior-to -/
theorem abandoned_id_replaced_when_available (fixed : Remote.Tree) (limit : Nat) (ops : List ROp) (c : Nat) (x : Cid)
    (hcl : (RRun.run fixed limit ops).closed = false)
    (hav : (RRun.run fixed limit ops).s.cidAt (RRun.run fixed limit ops).s.cursor = some x)
    (hc : c < (RRun.run fixed limit ops).s.cells.length)
    (hlive : ((RRun.run fixed limit ops).s.cell c).retired = false) :
    ∃ a y rest, ((RRun.run fixed limit ops).s.cell c).alloc = (a, y) :: rest ∧ (RRun.run fixed limit ops).s.roff ≤ a := by
  have hr := RRun.runGood_run fixed limit ops
  generalize RRun.run fixed limit ops = r at *
  have hp : r.s.pending = [] := by
    rcases hr.settled with h | h | h
    · rw [hcl] at h; cases h
    · exact h
    · rw [hav] at h; cases h
  rcases hr.good.cover c hc with h | h | h
  · rw [hp] at h; cases h
  · obtain ⟨j, hj, hjc⟩ := List.getElem_of_mem h
    rcases hr.good.heads j c (by rw [List.getElem?_eq_getElem hj, hjc]) with h1 | ⟨a, y, rest, h1, h2⟩
    · rw [hlive] at h1; cases h1
    · exact ⟨a, y, rest, h1, by omega⟩
  · rw [hlive] at h; cases h

example : (RRun.run .exact 3 [.apply, .initial (.ext 0) 0, .newcid 1 0 (.ext 1)]).s.cidAt
    (RRun.run .exact 3 [.apply, .initial (.ext 0) 0, .newcid 1 0 (.ext 1)]).s.cursor = some (.ext 1) := by decide

/-- … and an abandoned id (below the current retire-prior-to) is held only by a path that has it borrowed right now,
or by a path queued for reassignment while no replacement is available -/
theorem abandoned_id_held_only_while_waiting (fixed : Remote.Tree) (limit : Nat) (ops : List ROp) (q c : Nat)
    (hcl : (RRun.run fixed limit ops).closed = false)
    (hq : q ∈ ((RRun.run fixed limit ops).s.cell c).seqs) (hlt : q < (RRun.run fixed limit ops).s.roff) :
    ((RRun.run fixed limit ops).s.cell c).inUse = true ∨
    (c ∈ (RRun.run fixed limit ops).s.pending ∧
      (RRun.run fixed limit ops).s.cidAt (RRun.run fixed limit ops).s.cursor = none) := by
  have hr := RRun.runGood_run fixed limit ops
  generalize RRun.run fixed limit ops = r at *
  cases hu : (r.s.cell c).inUse with
  | true => exact Or.inl rfl
  | false =>
    right
    have hc : c < r.s.cells.length := by
      rcases Nat.lt_or_ge c r.s.cells.length with h | h
      · exact h
      · rw [Remote.cell_ge _ c h] at hq; simp [Cell.seqs, Cell.fresh] at hq
    have hok := Remote.cell_ok_of_all r.s hr.good.rinv.ok c
    have hlive : (r.s.cell c).retired = false := by
      cases hret : (r.s.cell c).retired with
      | false => rfl
      | true => have := hok.2 hret; simp [Cell.seqs, this] at hq
    have hlen := hok.1 hu
    have hpend : c ∈ r.s.pending := by
      rcases hr.good.cover c hc with h | h | h
      · exact h
      · obtain ⟨j, hj, hjc⟩ := List.getElem_of_mem h
        rcases hr.good.heads j c (by rw [List.getElem?_eq_getElem hj, hjc]) with h1 | ⟨a, y, rest, h1, h2⟩
        · rw [hlive] at h1; cases h1
        · rw [h1] at hlen
          cases rest with
          | nil => simp [Cell.seqs, h1] at hq; omega
          | cons _ _ => simp at hlen
      · rw [hlive] at h; cases h
    refine ⟨hpend, ?_⟩
    rcases hr.settled with h | h | h
    · rw [hcl] at h; cases h
    · rw [h] at hpend; cases hpend
    · exact h

/-- non-vacuity: two paths on ids 0 and 1, then a frame (seq 2, retire_prior_to 2): path 0 switches to id 2 (RETIRE 0), path 1
keeps the abandoned id 1 — it is queued and no further id has been received -/
example :
    let r := RRun.run .exact 2 [.apply, .initial (.ext 0) 0, .newcid 1 0 (.ext 1), .apply, .newcid 2 2 (.ext 2)]
    r.closed = false ∧ 1 ∈ (r.s.cell 1).seqs ∧ 1 < r.s.roff ∧ r.s.frames = [0] := by decide

/-- the clause in one statement: a number that was assigned to a path and is now below retire-prior-to has EXACTLY ONE
RETIRE_CONNECTION_ID frame once the path's borrow is released — unless the path still holds it as its only id, is
queued for reassignment, and no replacement id has been received -/
theorem abandoned_id_retired_once_after_release (fixed : Remote.Tree) (limit : Nat) (ops : List ROp) (q c : Nat)
    (ha : Assigned fixed limit ops q c) (hcl : (RRun.run fixed limit ops).closed = false)
    (hu : ((RRun.run fixed limit ops).s.cell c).inUse = false) (hlt : q < (RRun.run fixed limit ops).s.roff) :
    (RRun.run fixed limit ops).s.frames.count q = 1 ∨
    ((∃ x, ((RRun.run fixed limit ops).s.cell c).alloc = [(q, x)]) ∧ c ∈ (RRun.run fixed limit ops).s.pending ∧
      (RRun.run fixed limit ops).s.cidAt (RRun.run fixed limit ops).s.cursor = none) := by
  rcases (retire_prior_to_switches_and_retires_once fixed limit ops q c ha).2.2 hu with h | ⟨x, hx⟩
  · exact Or.inl h
  · right
    have hq : q ∈ ((RRun.run fixed limit ops).s.cell c).seqs := by simp [Cell.seqs, hx]
    rcases abandoned_id_held_only_while_waiting fixed limit ops q c hcl hq hlt with h1 | h1
    · rw [hu] at h1; cases h1
    · exact ⟨⟨x, hx⟩, h1⟩

/-- non-vacuity: the c14-2 history — numbers 0 and 1 were assigned to cell 0, are below retire-prior-to 2 after the release -/
example :
    let r := RRun.run .exact 2 [.apply, .initial (.ext 0) 0, .borrow 0, .newcid 1 1 (.ext 1), .newcid 2 2 (.ext 2), .release 0]
    r.closed = false ∧ (r.s.cell 0).inUse = false ∧ 1 < r.s.roff ∧ r.s.frames.count 1 = 1 ∧ r.s.frames.count 0 = 1 := by decide

end GmQuic.Cid
