import GmQuic.Lemmas.BufMapRefine
/-!
C09 — refinement theorems: the branch-by-branch transliteration of `BufMap`/`SendBuf` (`Model/BufMap.lean`, compared
exactly with the real code's run list on every run) is a refinement of the specification `Model/SendSpec.lean`,
so the spec-level property theorems (`Props/C09/Spec.lean`) speak about the algorithm.

Abstraction function: `BufMap.abs` (expand the run list to per-byte colours; released bytes below the first run are
`Recved`, bytes beyond `size` are `Pending`).  `Rel b s` = "`b` represents `s`".
-/
namespace GmQuic.BufMap
open GmQuic.SendSpec

/-- **Refinement, histories without loss reports — unconditional.**  `ack_rcvd`, `shift`, `pick` (and `extend_to`,
`resend_flighting`, `forget`) are proved to refine the spec (`Lemmas/BufMapAck.lean`, `Lemmas/BufMapPick.lean`): every
run of the transliterated `SendBuf` from `with_capacity(cap)` whose operations are in their domain and that contains
no `may_loss_data` is a trace of the specification, and the final states correspond (`resend_flighting`, the other
source of `Lost` bytes, is included). -/
theorem refines_spec_without_loss (cap : Nat) (tr : List (SendOp × SendObs)) (b : SendBuf)
    (h : XRun (SendBuf.withCapacity cap) tr b) (hnl : ¬ HasLose tr) :
    ∃ s, Trace.Ok (SendSpec.init cap) tr s ∧ Rel b s :=
  run_refines ackRefines shiftRefines pickRefines _ _ (rel_init cap) tr b h (fun hl => absurd hl hnl)

/-- **Refinement, all histories — partial.**  The missing case is named: `LossRefines`, i.e. "`BufMap::may_loss`
(with `may_lost_from`) recolours exactly the `Flighting` bytes of the range to `Lost` and keeps the map well-formed"
(a closed statement about one transliterated function; `Lemmas/BufMapLoss.lean` proves it for the recursive helper
`may_lost_from` and hence for ranges that start in acknowledged territory, the remaining branches are
correspondence-tested only).  Under it every run of the transliteration is a trace of the specification. -/
theorem refines_spec_partial (hL : LossRefines)
    (cap : Nat) (tr : List (SendOp × SendObs)) (b : SendBuf)
    (h : XRun (SendBuf.withCapacity cap) tr b) :
    ∃ s, Trace.Ok (SendSpec.init cap) tr s ∧ Rel b s :=
  run_refines ackRefines shiftRefines pickRefines _ _ (rel_init cap) tr b h (fun _ => hL)

/-- No operation other than `may_loss_data` panics inside its domain (no `debug_assert`, no `unwrap`, no out-of-bounds
`insert`/`drain`, no `u64` overflow), and its answer is a legal specification step — in particular every answer of
`pick_up` satisfies `pickOk`. -/
theorem step_no_panic (b : SendBuf) (s : SendSpec) (hR : Rel b s) (op : SendOp)
    (hnl : ∀ a e, op ≠ .lose a e) (hd : DomX b op) :
    ∃ b' obs s', xstep b op = .ok (b', obs) ∧ stepOk s op obs s' ∧ Rel b' s' :=
  step_refines ackRefines shiftRefines pickRefines b s hR op (fun ⟨a, e, q⟩ => absurd q (hnl a e)) hd

/-- the same for `may_loss_data`, under the named hypothesis -/
theorem step_no_panic_partial (hL : LossRefines)
    (b : SendBuf) (s : SendSpec) (hR : Rel b s) (op : SendOp) (hd : DomX b op) :
    ∃ b' obs s', xstep b op = .ok (b', obs) ∧ stepOk s op obs s' ∧ Rel b' s' :=
  step_refines ackRefines shiftRefines pickRefines b s hR op (fun _ => hL) hd

/-- `on_data_acked` refines `ack` (index juggling of `ack_rcvd`, `shift`, the chunk-queue loop). -/
theorem on_data_acked_refines (b : SendBuf) (s : SendSpec) (hR : Rel b s) (a e : Nat)
    (hd : a < e ∧ e ≤ b.state.size ∧ ∀ x, a ≤ x → x < e → b.state.abs x ≠ .pending) :
    ∃ b', b.onDataAcked a e = .ok b' ∧ Rel b' (s.ack a e) :=
  ack_refines ackRefines shiftRefines b s hR a e hd

/-- `pick_up` stays inside `pickOk` and refines `picked`. -/
theorem pick_up_refines (b : SendBuf) (s : SendSpec) (hR : Rel b s) (pred : Nat → Option Nat) (flow : Nat)
    (hd : PredDom pred) :
    ∃ b' r, b.pickUp pred flow = .ok (b', r) ∧ pickOk s pred flow (obsOf r) ∧ Rel b' (s.picked (obsOf r)) :=
  pickUp_refines pickRefines b s hR pred flow hd

/-- `write`, `extend`, `resend_flighting`, `forget_sent_state` refine the spec unconditionally. -/
theorem write_extend_resend_forget_refine (b : SendBuf) (s : SendSpec) (hR : Rel b s) :
    (∀ bs : List UInt8, b.written + bs.length < 2 ^ 62 → ∃ b', b.write bs.length = .ok b' ∧ Rel b' (s.write bs)) ∧
    (∀ m, b.maxData ≤ m → ∃ b', b.extend m = .ok b' ∧ Rel b' (s.extend m)) ∧
    Rel b.resendFlighting s.resend ∧
    (b.offset = 0 → Rel b.forget s.forget) :=
  ⟨fun bs h => write_refines b s hR bs h, fun m h => extend_refines b s hR m h,
   resendFlighting_refines b s hR, fun h => forget_refines b s hR h⟩

/-- `is_all_rcvd()` of the transliteration is the spec's completion predicate. -/
theorem isAllRcvd_refines (b : SendBuf) (s : SendSpec) (hR : Rel b s) : b.isAllRcvd = true ↔ s.allRcvd :=
  isAllRcvd_iff b s hR

-- non-vacuity: a run of the transliteration (write 6, pick 4 of them) exists and is in the domain
example : XRun (SendBuf.withCapacity 10)
    ([] ++ [(.write [1, 2, 3, 4, 5, 6], .unit)] ++ [(.pick (fun _ => some 4) 100, .range 0 4 true)])
    { offset := 0, chunks := [6], maxData := 10, state := { runs := [(0, .flighting), (4, .pending)], size := 6 } } := by
  have h1 : XRun (SendBuf.withCapacity 10) ([] ++ [(.write [1, 2, 3, 4, 5, 6], .unit)])
      { offset := 0, chunks := [6], maxData := 10, state := { runs := [(0, .pending)], size := 6 } } :=
    XRun.snoc (XRun.nil _) (by simp [DomX, SendBuf.withCapacity, SendBuf.written]) rfl
  exact XRun.snoc h1 (by intro x n h; simp at h; subst h; omega) rfl

end GmQuic.BufMap
