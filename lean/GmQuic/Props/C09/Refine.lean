import GmQuic.Lemmas.BufMapRefine
/-!
C09 — refinement theorems: the branch-by-branch transliteration of `BufMap`/`SendBuf` (`Model/BufMap.lean`, compared
exactly with the real code's run list on every run) is a refinement of the specification `Model/SendSpec.lean`,
so the spec-level property theorems (`Props/C09/Spec.lean`) speak about the algorithm.

Abstraction function: `BufMap.abs` (expand the run list to per-byte colours; released bytes below the first run are
`Recved`, bytes beyond `size` are `Pending`).  `Rel b s` = "`b` represents `s`".
-/
namespace GmQuic.BufMap
open GmQuic.SendSpec

/-- **Refinement, all histories.**  Every run of the transliterated `SendBuf` from `with_capacity(cap)` whose
operations are in their domain (`DomX`: ack/loss ranges non-empty, inside the coloured prefix, without `Pending` byte;
`extend` never shrinks; predicate allowance positive; `forget` only while `offset = 0`; offsets < 2^62) is a trace of
the specification — with the very answers the transliteration gave — and the final states correspond.  All four
index-juggling routines are discharged (`Lemmas/BufMapAck.lean`: `ack_rcvd`, `shift`; `Lemmas/BufMapPick.lean`: `pick`;
`Lemmas/BufMapLoss.lean`: `may_loss` with the recursive `may_lost_from`).  Hence every theorem of `Props/C09/Spec.lean`
holds of the states and answers of the transliterated algorithm. -/
theorem refines_spec (cap : Nat) (tr : List (SendOp × SendObs)) (b : SendBuf)
    (h : XRun (SendBuf.withCapacity cap) tr b) :
    ∃ s, Trace.Ok (SendSpec.init cap) tr s ∧ Rel b s :=
  run_refines ackRefines shiftRefines pickRefines _ _ (rel_init cap) tr b h (fun _ => lossRefines)

/-- **No panic.**  No public operation panics inside its domain (no `debug_assert`, no `unwrap` of a missing run, no
out-of-bounds `insert`/`drain`, no `u64` overflow in `start + allowance`, no fuel exhaustion of the recursion), and its
answer is a legal specification step — in particular every answer of `pick_up` satisfies `pickOk`. -/
theorem step_no_panic (b : SendBuf) (s : SendSpec) (hR : Rel b s) (op : SendOp) (hd : DomX b op) :
    ∃ b' obs s', xstep b op = .ok (b', obs) ∧ stepOk s op obs s' ∧ Rel b' s' :=
  step_refines ackRefines shiftRefines pickRefines b s hR op (fun _ => lossRefines) hd

/-- the run can always be continued: after any run, any operation in its domain succeeds -/
theorem run_no_panic (cap : Nat) (tr : List (SendOp × SendObs)) (b : SendBuf)
    (h : XRun (SendBuf.withCapacity cap) tr b) (op : SendOp) (hd : DomX b op) :
    ∃ b' obs, xstep b op = .ok (b', obs) := by
  obtain ⟨s, _, hR⟩ := refines_spec cap tr b h
  obtain ⟨b', obs, _, hx, _, _⟩ := step_no_panic b s hR op hd
  exact ⟨b', obs, hx⟩

/-- `may_loss_data` refines `lose`. -/
theorem may_loss_data_refines (b : SendBuf) (s : SendSpec) (hR : Rel b s) (a e : Nat)
    (hd : a < e ∧ e ≤ b.state.size ∧ ∀ x, a ≤ x → x < e → b.state.abs x ≠ .pending) :
    ∃ b', b.mayLossData a e = .ok b' ∧ Rel b' (s.lose a e) :=
  lose_refines lossRefines b s hR a e hd

/-- `on_data_acked` refines `ack` (index juggling of `ack_rcvd`, `shift`, the chunk-queue loop). -/
theorem on_data_acked_refines (b : SendBuf) (s : SendSpec) (hR : Rel b s) (a e : Nat)
    (hd : a < e ∧ e ≤ b.state.size ∧ ∀ x, a ≤ x → x < e → b.state.abs x ≠ .pending) :
    ∃ b', b.onDataAcked a e = .ok b' ∧ Rel b' (s.ack a e) :=
  ack_refines ackRefines shiftRefines b s hR a e hd

/-- `pick_up` stays inside `pickOk` and refines `picked`. -/
theorem pick_up_refines (b : SendBuf) (s : SendSpec) (hR : Rel b s) (pred : Nat → Option Nat) (flow : Nat)
    (hd : PredDom pred) :
    ∃ b' r, b.pickUp pred flow = .ok (b', r) ∧ pickOk s pred flow (obsOf r) ∧ Rel b' (s.picked (obsOf r)) :=
  pickUp_refines pickRefines b s hR pred flow hd

/-- `write`, `extend`, `resend_flighting`, `forget_sent_state` refine the spec unconditionally. -/
theorem write_extend_resend_forget_refine (b : SendBuf) (s : SendSpec) (hR : Rel b s) :
    (∀ bs : List UInt8, b.written + bs.length < 2 ^ 62 → ∃ b', b.write bs.length = .ok b' ∧ Rel b' (s.write bs)) ∧
    (∀ m, b.maxData ≤ m → ∃ b', b.extend m = .ok b' ∧ Rel b' (s.extend m)) ∧
    Rel b.resendFlighting s.resend ∧
    (b.offset = 0 → Rel b.forget s.forget) :=
  ⟨fun bs h => write_refines b s hR bs h, fun m h => extend_refines b s hR m h,
   resendFlighting_refines b s hR, fun h => forget_refines b s hR h⟩

/-- `is_all_rcvd()` of the transliteration is the spec's completion predicate. -/
theorem isAllRcvd_refines (b : SendBuf) (s : SendSpec) (hR : Rel b s) : b.isAllRcvd = true ↔ s.allRcvd :=
  isAllRcvd_iff b s hR

-- non-vacuity (for `refines_spec`, `run_no_panic`): a run of the transliteration (write 6, pick 4 of them) exists and is in the domain
example : XRun (SendBuf.withCapacity 10)
    ([] ++ [(.write [1, 2, 3, 4, 5, 6], .unit)] ++ [(.pick (fun _ => some 4) 100, .range 0 4 true)])
    { offset := 0, chunks := [6], maxData := 10, state := { runs := [(0, .flighting), (4, .pending)], size := 6 } } := by
  have h1 : XRun (SendBuf.withCapacity 10) ([] ++ [(.write [1, 2, 3, 4, 5, 6], .unit)])
      { offset := 0, chunks := [6], maxData := 10, state := { runs := [(0, .pending)], size := 6 } } :=
    XRun.snoc (XRun.nil _) (by simp [DomX, SendBuf.withCapacity, SendBuf.written]) rfl
  exact XRun.snoc h1 (by intro x n h; simp at h; subst h; omega) rfl

end GmQuic.BufMap
