import GmQuic.Lemmas.BufMapRefine
/-!
C09 — refinement theorems: the branch-by-branch transliteration of `BufMap`/`SendBuf` (`Model/BufMap.lean`, compared
exactly with the real code's run list on every run) is a refinement of the specification `Model/SendSpec.lean`,
so the spec-level property theorems (`Props/C09/Spec.lean`) speak about the algorithm.

Abstraction function: `BufMap.abs` (expand the run list to per-byte colours; released bytes below the first run are
`Recved`, bytes beyond `size` are `Pending`).  `Rel b s` = "`b` represents `s`".
-/
namespace GmQuic.BufMap
open GmQuic.SendSpec

/-- Refinement with the four index-juggling routines as named hypotheses (each is a closed statement about one
transliterated function, see `Lemmas/BufMapRefine.lean`): every run of the transliterated `SendBuf` from
`with_capacity(cap)` whose operations are in their domain is a trace of the specification, and the final states
correspond. -/
theorem refines_spec_partial (hA : AckRefines) (hS : ShiftRefines) (hL : LossRefines) (hP : PickRefines)
    (cap : Nat) (tr : List (SendOp × SendObs)) (b : SendBuf)
    (h : XRun (SendBuf.withCapacity cap) tr b) :
    ∃ s, Trace.Ok (SendSpec.init cap) tr s ∧ Rel b s :=
  run_refines hA hS hL hP _ _ (rel_init cap) tr b h

/-- No operation inside its domain panics (no `debug_assert`, no `unwrap`, no out-of-bounds `insert`/`drain`, no
`u64` overflow), and its answer is a legal specification step. -/
theorem step_no_panic_partial (hA : AckRefines) (hS : ShiftRefines) (hL : LossRefines) (hP : PickRefines)
    (b : SendBuf) (s : SendSpec) (hR : Rel b s) (op : SendOp) (hd : DomX b op) :
    ∃ b' obs s', xstep b op = .ok (b', obs) ∧ stepOk s op obs s' ∧ Rel b' s' :=
  step_refines hA hS hL hP b s hR op hd

/-- `write`, `extend`, `resend_flighting`, `forget_sent_state` refine the spec unconditionally. -/
theorem write_extend_resend_forget_refine (b : SendBuf) (s : SendSpec) (hR : Rel b s) :
    (∀ bs : List UInt8, b.written + bs.length < 2 ^ 62 → ∃ b', b.write bs.length = .ok b' ∧ Rel b' (s.write bs)) ∧
    (∀ m, b.maxData ≤ m → ∃ b', b.extend m = .ok b' ∧ Rel b' (s.extend m)) ∧
    Rel b.resendFlighting s.resend ∧
    (b.offset = 0 → Rel b.forget s.forget) :=
  ⟨fun bs h => write_refines b s hR bs h, fun m h => extend_refines b s hR m h,
   resendFlighting_refines b s hR, fun h => forget_refines b s hR h⟩

/-- `is_all_rcvd()` of the transliteration is the spec's completion predicate. -/
theorem isAllRcvd_refines (b : SendBuf) (s : SendSpec) (hR : Rel b s) : b.isAllRcvd = true ↔ s.allRcvd :=
  isAllRcvd_iff b s hR

-- non-vacuity: a run of the transliteration (write 6, pick 4 of them) exists and is in the domain
example : XRun (SendBuf.withCapacity 10)
    ([] ++ [(.write [1, 2, 3, 4, 5, 6], .unit)] ++ [(.pick (fun _ => some 4) 100, .range 0 4 true)])
    { offset := 0, chunks := [6], maxData := 10, state := { runs := [(0, .flighting), (4, .pending)], size := 6 } } := by
  have h1 : XRun (SendBuf.withCapacity 10) ([] ++ [(.write [1, 2, 3, 4, 5, 6], .unit)])
      { offset := 0, chunks := [6], maxData := 10, state := { runs := [(0, .pending)], size := 6 } } :=
    XRun.snoc (XRun.nil _) (by simp [DomX, SendBuf.withCapacity, SendBuf.written]) rfl
  exact XRun.snoc h1 (by intro x n h; simp at h; subst h; omega) rfl

end GmQuic.BufMap
