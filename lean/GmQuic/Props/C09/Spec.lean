import GmQuic.Model.SendSpec
import GmQuic.Lemmas.SendSpec
/-!
C09 (specification half) — the send buffer never loses, duplicates-as-new or forgets bytes.

All statements are about the specification `Model/SendSpec.lean`: per-offset colours
(`Pending → Flighting → Lost/Recved`), `pick_up` as the relation `pickOk`, and *every* history
`Trace.Ok (SendSpec.init cap) tr s` of legal steps, i.e. every behaviour `pickOk` allows (how long an offered
range is, where a run is split).  That the real `BufMap` index juggling stays inside `pickOk` is
`Lemmas/BufMapRefine.lean` + the correspondence run.  Helper lemmas: `Lemmas/SendSpec.lean`
(invariant `Inv`, `least` facts, example history `exTr`).

Each theorem with hypotheses is followed by an `example` instantiating it on the concrete legal history
`exTr` (or a prefix), so the hypotheses are jointly satisfiable.
-/
namespace GmQuic.SendSpec

/-! ### 1. unacknowledged data is retained -/

/-- A written byte that is not acknowledged has not been released (`base ≤ x`) and the buffer still
produces exactly the byte the application wrote at that offset. -/
theorem unacked_retained (cap : Nat) (tr : List (SendOp × SendObs)) (s : SendSpec)
    (h : Trace.Ok (SendSpec.init cap) tr s) (x : Nat) (hx : x < s.written) :
    s.colour x ≠ .recved → s.base ≤ x ∧ s.byte x = (writtenBytes tr)[x]? := by
  intro hc
  have _ := hx
  have hb : s.base ≤ x := Nat.le_of_not_lt (fun hlt => hc ((Inv.reachable h).below_base x hlt))
  refine ⟨hb, ?_⟩
  unfold SendSpec.byte
  rw [if_pos hb, reachable_data h]

example : exS.base ≤ 4 ∧ exS.byte 4 = (writtenBytes exTr)[4]? :=
  unacked_retained 10 exTr exS exTr_ok 4 (by decide) (by decide)

/-- … and that byte exists: the buffer can retransmit it. -/
theorem unacked_retained_some (cap : Nat) (tr : List (SendOp × SendObs)) (s : SendSpec)
    (h : Trace.Ok (SendSpec.init cap) tr s) (x : Nat) (hx : x < s.written) (hc : s.colour x ≠ .recved) :
    ∃ v, s.byte x = some v ∧ (writtenBytes tr)[x]? = some v := by
  obtain ⟨_, hb⟩ := unacked_retained cap tr s h x hx hc
  have hlen : x < (writtenBytes tr).length := by
    rw [← reachable_data h]; exact hx
  exact ⟨(writtenBytes tr)[x], by rw [hb]; exact List.getElem?_eq_getElem hlen, List.getElem?_eq_getElem hlen⟩

example : ∃ v, exS.byte 4 = some v ∧ (writtenBytes exTr)[4]? = some v :=
  unacked_retained_some 10 exTr exS exTr_ok 4 (by decide) (by decide)

/-! ### 2. only `Pending`/`Lost` bytes inside the window are offered -/

/-- Every range `pick_up` may answer is non-empty, lies below what was written and below the peer's
`max_data`, consisted of `Pending` or `Lost` bytes only, and is `Flighting` afterwards. -/
theorem only_pending_or_lost_in_window (cap : Nat) (tr : List (SendOp × SendObs)) (s : SendSpec)
    (h : Trace.Ok (SendSpec.init cap) tr s) (pred : Nat → Option Nat) (flow a b : Nat) (fresh : Bool)
    (s' : SendSpec) (hs : stepOk s (.pick pred flow) (.range a b fresh) s') :
    a < b ∧ b ≤ s.written ∧ b ≤ s.maxData ∧
    ∀ x, a ≤ x → x < b → (s.colour x = .pending ∨ s.colour x = .lost) ∧ s'.colour x = .flighting := by
  have hsz := (Inv.reachable h).size_eq
  obtain ⟨_, hp, rfl⟩ := hs
  obtain ⟨_, _, hab, hbw, _, _, _⟩ := pickOk_range hp
  unfold SendSpec.win at hbw
  refine ⟨hab, by unfold SendSpec.written; omega, by omega, fun x h1 h2 => ⟨pickOk_range_colour hp x h1 h2, ?_⟩⟩
  simp only [SendSpec.picked, setRange_apply]
  rw [if_pos ⟨h1, h2⟩]

example : (0 : Nat) < 2 ∧ 2 ≤ exS5.written ∧ 2 ≤ exS5.maxData ∧
    ∀ x, 0 ≤ x → x < 2 → (exS5.colour x = .pending ∨ exS5.colour x = .lost) ∧ exS6.colour x = .flighting :=
  only_pending_or_lost_in_window 10 exTr5 exS5 exTr5_ok exPred 100 0 2 false exS6 exStep6

/-- An acknowledged byte is never offered (no reachability needed). -/
theorem acked_never_offered (s : SendSpec) (pred : Nat → Option Nat) (flow a b : Nat) (fresh : Bool)
    (s' : SendSpec) (hs : stepOk s (.pick pred flow) (.range a b fresh) s') (x : Nat)
    (hr : s.colour x = .recved) : ¬ (a ≤ x ∧ x < b) := by
  rintro ⟨h1, h2⟩
  rcases pickOk_range_colour hs.2.1 x h1 h2 with h | h <;> rw [hr] at h <;> cases h

example : ¬ ((0 : Nat) ≤ 2 ∧ 2 < 2) := acked_never_offered exS5 exPred 100 0 2 false exS6 exStep6 2 (by decide)

/-! ### 3. every byte is reported as fresh at most once -/

/-- Without `forget_sent_state`, every offset lies in at most one of the ranges reported as fresh. -/
theorem fresh_exactly_once (cap : Nat) (tr : List (SendOp × SendObs)) (s : SendSpec)
    (h : Trace.Ok (SendSpec.init cap) tr s) (hnf : NoForget tr) (x : Nat) :
    ((freshRanges tr).filter (fun r => decide (r.1 ≤ x ∧ x < r.2))).length ≤ 1 :=
  (trace_fresh h hnf x).1

example : ((freshRanges exTr).filter (fun r => decide (r.1 ≤ 1 ∧ 1 < r.2))).length ≤ 1 :=
  fresh_exactly_once 10 exTr exS exTr_ok exTr_noForget 1

/-- the bound is attained: offset 1 was reported fresh exactly once, although it was offered twice -/
example : ((freshRanges exTr).filter (fun r => decide (r.1 ≤ 1 ∧ 1 < r.2))).length = 1 := by decide

/-- … and a byte that is still `Pending` has never been reported. -/
theorem pending_never_reported (cap : Nat) (tr : List (SendOp × SendObs)) (s : SendSpec)
    (h : Trace.Ok (SendSpec.init cap) tr s) (hnf : NoForget tr) (x : Nat) (hp : s.colour x = .pending) :
    ((freshRanges tr).filter (fun r => decide (r.1 ≤ x ∧ x < r.2))).length = 0 :=
  (trace_fresh h hnf x).2 hp

example : ((freshRanges exTr).filter (fun r => decide (r.1 ≤ 7 ∧ 7 < r.2))).length = 0 :=
  pending_never_reported 10 exTr exS exTr_ok exTr_noForget 7 (by decide)

/-- "Exactly": an offset has been reported as fresh once if it has ever been offered (is not `Pending`
any more), and never otherwise. -/
theorem fresh_exactly_once_offered (cap : Nat) (tr : List (SendOp × SendObs)) (s : SendSpec)
    (h : Trace.Ok (SendSpec.init cap) tr s) (hnf : NoForget tr) (x : Nat) :
    ((freshRanges tr).filter (fun r => decide (r.1 ≤ x ∧ x < r.2))).length =
      if s.colour x = .pending then 0 else 1 := by
  rcases trace_fresh_exact h (fun _ => rfl) hnf x with ⟨h1, h2⟩ | ⟨h1, h2⟩
  · rw [if_pos h1]; exact h2
  · rw [if_neg h1]; exact h2

example : ((freshRanges exTr).filter (fun r => decide (r.1 ≤ 3 ∧ 3 < r.2))).length =
    if exS.colour 3 = .pending then 0 else 1 :=
  fresh_exactly_once_offered 10 exTr exS exTr_ok exTr_noForget 3

/-- The `fresh` flag of an answer says exactly whether the offered bytes were `Pending`. -/
theorem fresh_flag_iff_pending (s : SendSpec) (pred : Nat → Option Nat) (flow a b : Nat) (fresh : Bool)
    (s' : SendSpec) (hs : stepOk s (.pick pred flow) (.range a b fresh) s') :
    fresh = true ↔ s.colour a = .pending := by
  obtain ⟨_, _, _, _, _, _, hfr⟩ := pickOk_range hs.2.1
  rw [hfr]
  exact beq_iff_eq

example : true = true ↔ exS1.colour 0 = .pending :=
  fresh_flag_iff_pending exS1 exPred 100 0 4 true exS2 exStep2
example : false = true ↔ exS5.colour 0 = .pending :=
  fresh_flag_iff_pending exS5 exPred 100 0 2 false exS6 exStep6

/-- Without `forget_sent_state` a byte that has left `Pending` never becomes `Pending` again (from any
state; `write`/`extend` do not touch colours). -/
theorem never_pending_again (s : SendSpec) (tr : List (SendOp × SendObs)) (s' : SendSpec)
    (h : Trace.Ok s tr s') (hnf : NoForget tr) (x : Nat) (hx : s.colour x ≠ .pending) :
    s'.colour x ≠ .pending :=
  trace_not_pending h hnf x hx

example : exS5.colour 0 ≠ .pending :=
  never_pending_again exS2 _ exS5
    (.cons exStep3 <| .cons exStep4 <| .single exStep5)
    (.cons (by simp) <| .cons (by simp) <| .cons (by simp) .nil) 0 (by decide)

/-! ### 4. completion -/

/-- `is_all_rcvd()` holds exactly when every written byte is acknowledged. -/
theorem complete_iff_all_acked (cap : Nat) (tr : List (SendOp × SendObs)) (s : SendSpec)
    (h : Trace.Ok (SendSpec.init cap) tr s) :
    s.allRcvd ↔ ∀ x, x < s.written → s.colour x = .recved := by
  have hinv := Inv.reachable h
  unfold SendSpec.allRcvd SendSpec.written
  constructor
  · intro hb x hx
    exact hinv.below_base x (by omega)
  · intro hall
    have h1 := hinv.size_eq
    have h2 := hinv.base_le
    apply Nat.le_antisymm (by omega)
    apply Nat.le_of_not_lt
    intro hlt
    by_cases hbs : s.base < s.size
    · exact hinv.base_unrecved hbs (hall _ hlt)
    · have h3 := hinv.beyond s.base (by omega)
      rw [hall _ hlt] at h3
      cases h3

example : ¬ exS.allRcvd ∧ ¬ ∀ x, x < exS.written → exS.colour x = .recved :=
  ⟨by decide, fun h => absurd ((complete_iff_all_acked 10 exTr exS exTr_ok).2 h) (by decide)⟩

/-! ### 5. acknowledged bytes stay acknowledged -/

/-- Without `forget_sent_state`, `Recved` is final (so by `acked_never_offered` the byte is never offered
again). -/
theorem recved_stable (s : SendSpec) (tr : List (SendOp × SendObs)) (s' : SendSpec)
    (h : Trace.Ok s tr s') (hnf : NoForget tr) (x : Nat) (hx : s.colour x = .recved) :
    s'.colour x = .recved :=
  trace_recved h hnf x hx

example : exS.colour 2 = .recved :=
  recved_stable exS5 _ exS
    (.cons exStep6 <| .cons exStep7 <| .cons exStep8 <| .cons exStep9 <| .cons exStep10 <| .single exStep11)
    (.cons (by simp) <| .cons (by simp) <| .cons (by simp) <| .cons (by simp) <| .cons (by simp) <|
      .cons (by simp) .nil) 2 (by decide)

/-- An acknowledgement arriving after the loss report wins: the byte is `Recved` and stays so. -/
theorem ack_after_loss (s : SendSpec) (a b x : Nat) (ha : a ≤ x) (hb : x < b) (hl : s.colour x = .lost) :
    (s.ack a b).colour x = .recved ∧
    ∀ tr s', Trace.Ok (s.ack a b) tr s' → NoForget tr → s'.colour x = .recved := by
  have _ := hl
  have h0 : (s.ack a b).colour x = .recved := by
    simp only [SendSpec.ack, setRange_apply]
    rw [if_pos ⟨ha, hb⟩]
  exact ⟨h0, fun tr s' h hnf => trace_recved h hnf x h0⟩

example : (exS4.ack 2 4).colour 3 = .recved ∧
    ∀ tr s', Trace.Ok (exS4.ack 2 4) tr s' → NoForget tr → s'.colour 3 = .recved :=
  ack_after_loss exS4 2 4 3 (by decide) (by decide) (by decide)

/-! ### 6. a loss report after the acknowledgement is ignored -/

theorem loss_after_ack_ignored (s : SendSpec) (a b : Nat)
    (h : ∀ x, a ≤ x → x < b → s.colour x = .recved) : s.lose a b = s :=
  lose_eq_self s a b h

example : exS8.lose 2 4 = exS8 :=
  loss_after_ack_ignored exS8 2 4 (fun x h1 h2 => by
    have : x = 2 ∨ x = 3 := by omega
    rcases this with rfl | rfl <;> decide)

/-- pointwise: a loss report never changes a `Recved`, `Lost` or `Pending` byte, whatever the rest of the
range looks like -/
theorem loss_after_ack_pointwise (s : SendSpec) (a b x : Nat) :
    (s.colour x = .recved → (s.lose a b).colour x = .recved) ∧
    (s.colour x = .lost → (s.lose a b).colour x = .lost) ∧
    (s.colour x = .pending → (s.lose a b).colour x = .pending) := by
  simp only [SendSpec.lose, setRange_apply]
  refine ⟨fun h => ?_, fun h => ?_, fun h => ?_⟩ <;> split
  · exact lostOf_of_recved h
  · exact h
  · exact lostOf_of_lost h
  · exact h
  · exact lostOf_of_pending h
  · exact h

example : (exS8.lose 0 10).colour 3 = .recved := (loss_after_ack_pointwise exS8 0 10 3).1 (by decide)

/-! ### 7. a repeated acknowledgement changes nothing -/

theorem repeated_ack_idempotent (s : SendSpec) (a b : Nat) : (s.ack a b).ack a b = s.ack a b :=
  ack_ack s a b

/-! ### 8. lost bytes are offered again, before anything new -/

/-- With a `Lost` byte `x` inside the window, every range `pick_up` may answer starts at or below `x`, is a
retransmission (`fresh = false`) and consists of `Lost` bytes only: nothing new is offered first. -/
theorem lost_reoffered_first (cap : Nat) (tr : List (SendOp × SendObs)) (s : SendSpec)
    (h : Trace.Ok (SendSpec.init cap) tr s) (x : Nat) (hx : x < s.win) (hl : s.colour x = .lost)
    (pred : Nat → Option Nat) (flow a b : Nat) (fresh : Bool) (s' : SendSpec)
    (hs : stepOk s (.pick pred flow) (.range a b fresh) s') :
    a ≤ x ∧ fresh = false ∧ ∀ y, a ≤ y → y < b → s.colour y = .lost := by
  obtain ⟨hk, hlk, _⟩ := firstCand_of_lost (Inv.reachable h) hx hl flow
  obtain ⟨ha, _, _, _, _, hcol, hfr⟩ := pickOk_range hs.2.1
  rw [← ha] at hk hlk
  refine ⟨hk, ?_, fun y h1 h2 => by rw [hcol y h1 h2]; exact hlk⟩
  rw [hfr, hlk]; rfl

example : (0 : Nat) ≤ 1 ∧ false = false ∧ ∀ y, 0 ≤ y → y < 2 → exS5.colour y = .lost :=
  lost_reoffered_first 10 exTr5 exS5 exTr5_ok 1 (by decide) (by decide) exPred 100 0 2 false exS6 exStep6

/-- With a `Lost` byte `x` inside the window, the buffer may stay silent only because the packet-size
predicate refuses the least offerable offset — which is a `Lost` offset at or below `x`, the same whatever
the flow-control credit is (also with credit 0). -/
theorem lost_reoffered_progress (cap : Nat) (tr : List (SendOp × SendObs)) (s : SendSpec)
    (h : Trace.Ok (SendSpec.init cap) tr s) (x : Nat) (hx : x < s.win) (hl : s.colour x = .lost)
    (pred : Nat → Option Nat) (flow : Nat) (s' : SendSpec)
    (hs : stepOk s (.pick pred flow) .none s') :
    pred (s.firstCand flow) = none ∧ s.firstCand flow ≤ x ∧ s.colour (s.firstCand flow) = .lost ∧
    (∀ flow', s.firstCand flow' = s.firstCand flow) ∧ s' = s := by
  obtain ⟨hk, hlk, hfl⟩ := firstCand_of_lost (Inv.reachable h) hx hl flow
  obtain ⟨_, hp, hs'⟩ := hs
  refine ⟨?_, hk, hlk, hfl, hs'⟩
  rcases hp with hp | hp
  · omega
  · exact hp

example : (fun _ => none : Nat → Option Nat) (exS5.firstCand 100) = none ∧ exS5.firstCand 100 ≤ 1 ∧
    exS5.colour (exS5.firstCand 100) = .lost ∧ (∀ flow', exS5.firstCand flow' = exS5.firstCand 100) ∧
    exS5 = exS5 :=
  lost_reoffered_progress 10 exTr5 exS5 exTr5_ok 1 (by decide) (by decide) (fun _ => none) 100 exS5 exStepNone

/-- Every retransmission answer removes exactly its length from the number of `Lost` bytes in the window
(which does not move): after at most `lostCount` successful picks no `Lost` byte is left. -/
theorem lost_reoffered_terminates (s : SendSpec) (pred : Nat → Option Nat) (flow a b : Nat) (s' : SendSpec)
    (hs : stepOk s (.pick pred flow) (.range a b false) s') :
    lostCount s'.colour s.win + (b - a) = lostCount s.colour s.win ∧ s'.win = s.win ∧ 0 < b - a := by
  obtain ⟨_, hp, rfl⟩ := hs
  obtain ⟨_, _, hab, hbw, _, _, _⟩ := pickOk_range hp
  have := lostCount_flight s.colour a b (by omega) (pickOk_range_lost hp) s.win
  rw [Nat.min_eq_left hbw, Nat.min_eq_left (by omega)] at this
  exact ⟨this, rfl, by omega⟩

example : lostCount exS6.colour exS5.win + (2 - 0) = lostCount exS5.colour exS5.win ∧ exS6.win = exS5.win ∧
    0 < 2 - 0 :=
  lost_reoffered_terminates exS5 exPred 100 0 2 exS6 exStep6

/-- the measure is 0 exactly when no `Lost` byte is left inside the window -/
theorem lost_reoffered_done (s : SendSpec) :
    lostCount s.colour s.win = 0 ↔ ∀ x, x < s.win → s.colour x ≠ .lost :=
  lostCount_eq_zero s.colour s.win

/-- **Bytes reported lost are offered again** (headline form, all answers of `pick_up` at once): while a `Lost` byte
`x` is inside the window, a range answer starts at or below `x`, is not fresh, consists of `Lost` bytes only (so no
fresh byte overtakes it) and strictly decreases the number of `Lost` bytes in the window; and the buffer may stay
silent only if the caller's predicate refuses the least `Lost` offset. -/
theorem lost_reoffered (cap : Nat) (tr : List (SendOp × SendObs)) (s : SendSpec)
    (h : Trace.Ok (SendSpec.init cap) tr s) (x : Nat) (hx : x < s.win) (hl : s.colour x = .lost)
    (pred : Nat → Option Nat) (flow : Nat) (o : SendObs) (s' : SendSpec)
    (hs : stepOk s (.pick pred flow) o s') :
    match o with
    | .range a b fresh =>
      a ≤ x ∧ fresh = false ∧ (∀ y, a ≤ y → y < b → s.colour y = .lost) ∧
      lostCount s'.colour s.win + (b - a) = lostCount s.colour s.win ∧ 0 < b - a
    | .none => pred (s.firstCand flow) = none ∧ s.firstCand flow ≤ x ∧ s' = s
    | .unit => False := by
  cases o with
  | range a b fresh =>
    obtain ⟨h1, h2, h3⟩ := lost_reoffered_first cap tr s h x hx hl pred flow a b fresh s' hs
    subst h2
    obtain ⟨h4, _, h5⟩ := lost_reoffered_terminates s pred flow a b s' hs
    exact ⟨h1, rfl, h3, h4, h5⟩
  | none =>
    obtain ⟨h1, h2, _, _, h5⟩ := lost_reoffered_progress cap tr s h x hx hl pred flow s' hs
    exact ⟨h1, h2, h5⟩
  | unit => exact hs.2.1

example : (0 : Nat) ≤ 1 ∧ false = false ∧ (∀ y, 0 ≤ y → y < 2 → exS5.colour y = .lost) ∧
    lostCount exS6.colour exS5.win + (2 - 0) = lostCount exS5.colour exS5.win ∧ 0 < 2 - 0 :=
  lost_reoffered 10 exTr5 exS5 exTr5_ok 1 (by decide) (by decide) exPred 100 (.range 0 2 false) exS6 exStep6

end GmQuic.SendSpec
