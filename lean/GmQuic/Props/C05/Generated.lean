import GmQuic.Model.Frame
import GmQuic.Gen.FrameCodec
/-!
C05 / T5: **the hand-written frame codec model equals what the Rust source text says.**

`Gen/FrameCodec.lean` is regenerated on every run by `xlate/gen_framecodec.py` from the bodies of
`EncodeSize::{encoding_size, max_encoding_size}`, `put_frame` / `put_data_frame` and the `be_*`
parsers in `qbase/src/frame/*.rs` (restricted fragment, refusal outside it).  Each theorem below
states, for ALL values, that a generated definition is equal to the corresponding piece of
`Model/Frame.lean` (`sizeOf`, `maxSizeOf`, `encBytes`, `decBody`) about which the C05 / C03 theorems
are proved.  An edit of the Rust text that changes what a codec computes breaks the
matching theorem of this file on the next run.
-/
namespace GmQuic.Codec
open GmQuic.Wire GmQuic.Gen GmQuic.Gen.FrameCodec

/-- sizes / encoders: definitional equality, else normalise sums / appends and split the flags -/
syntax "codec_eq" "[" Lean.Parser.Tactic.simpLemma,* "]" : tactic
macro_rules
  | `(tactic| codec_eq [$ls,*]) => `(tactic|
      first
      | rfl
      | (simp only [$ls,*, sizeOf, maxSizeOf, encBytes, encBody, Frame.type, sockAddrSize, encSockAddr,
          resetTokenSize, List.append_assoc, List.cons_append, List.nil_append, List.take_length] <;>
         first | done | rfl | omega | (repeat' split) <;> first | rfl | omega | simp_all))

/-- parsers: definitional equality, else case analysis on every intermediate parser result -/
syntax "dec_eq" "[" Lean.Parser.Tactic.simpLemma,* "]" : tactic
macro_rules
  | `(tactic| dec_eq [$ls,*]) => `(tactic|
      first
      | rfl
      | (funext bs; simp only [$ls,*, decBody, Res.bind, Res.map] <;> (repeat' split) <;> simp_all))

theorem gen_size_padding_eq  :
    size_padding  = sizeOf (Frame.padding) := by
  codec_eq [size_padding]

theorem gen_max_size_padding_eq  :
    max_size_padding  = maxSizeOf (Frame.padding) := by
  codec_eq [max_size_padding]

theorem gen_enc_padding_eq  :
    enc_padding  = encBytes (Frame.padding) := by
  codec_eq [enc_padding]

theorem gen_dec_padding_eq :
    dec_padding = decBody (.padding) := by
  dec_eq [dec_padding]

theorem gen_size_ping_eq  :
    size_ping  = sizeOf (Frame.ping) := by
  codec_eq [size_ping]

theorem gen_max_size_ping_eq  :
    max_size_ping  = maxSizeOf (Frame.ping) := by
  codec_eq [max_size_ping]

theorem gen_enc_ping_eq  :
    enc_ping  = encBytes (Frame.ping) := by
  codec_eq [enc_ping]

theorem gen_dec_ping_eq :
    dec_ping = decBody (.ping) := by
  dec_eq [dec_ping]

theorem gen_size_handshake_done_eq  :
    size_handshake_done  = sizeOf (Frame.handshakeDone) := by
  codec_eq [size_handshake_done]

theorem gen_max_size_handshake_done_eq  :
    max_size_handshake_done  = maxSizeOf (Frame.handshakeDone) := by
  codec_eq [max_size_handshake_done]

theorem gen_enc_handshake_done_eq  :
    enc_handshake_done  = encBytes (Frame.handshakeDone) := by
  codec_eq [enc_handshake_done]

theorem gen_dec_handshake_done_eq :
    dec_handshake_done = decBody (.handshakeDone) := by
  dec_eq [dec_handshake_done]

theorem gen_size_max_data_eq (n : Nat) :
    size_max_data n = sizeOf (Frame.maxData n) := by
  codec_eq [size_max_data]

theorem gen_max_size_max_data_eq (n : Nat) :
    max_size_max_data n = maxSizeOf (Frame.maxData n) := by
  codec_eq [max_size_max_data]

theorem gen_enc_max_data_eq (n : Nat) :
    enc_max_data n = encBytes (Frame.maxData n) := by
  codec_eq [enc_max_data]

theorem gen_dec_max_data_eq :
    dec_max_data = decBody (.maxData) := by
  dec_eq [dec_max_data]

theorem gen_size_data_blocked_eq (n : Nat) :
    size_data_blocked n = sizeOf (Frame.dataBlocked n) := by
  codec_eq [size_data_blocked]

theorem gen_max_size_data_blocked_eq (n : Nat) :
    max_size_data_blocked n = maxSizeOf (Frame.dataBlocked n) := by
  codec_eq [max_size_data_blocked]

theorem gen_enc_data_blocked_eq (n : Nat) :
    enc_data_blocked n = encBytes (Frame.dataBlocked n) := by
  codec_eq [enc_data_blocked]

theorem gen_dec_data_blocked_eq :
    dec_data_blocked = decBody (.dataBlocked) := by
  dec_eq [dec_data_blocked]

theorem gen_size_retire_connection_id_eq (n : Nat) :
    size_retire_connection_id n = sizeOf (Frame.retireConnectionId n) := by
  codec_eq [size_retire_connection_id]

theorem gen_max_size_retire_connection_id_eq (n : Nat) :
    max_size_retire_connection_id n = maxSizeOf (Frame.retireConnectionId n) := by
  codec_eq [max_size_retire_connection_id]

theorem gen_enc_retire_connection_id_eq (n : Nat) :
    enc_retire_connection_id n = encBytes (Frame.retireConnectionId n) := by
  codec_eq [enc_retire_connection_id]

theorem gen_dec_retire_connection_id_eq :
    dec_retire_connection_id = decBody (.retireConnectionId) := by
  dec_eq [dec_retire_connection_id]

theorem gen_size_reset_stream_eq (sid : Nat) (code : Nat) (fs : Nat) :
    size_reset_stream sid code fs = sizeOf (Frame.streamCtl (.resetStream sid code fs)) := by
  codec_eq [size_reset_stream]

theorem gen_max_size_reset_stream_eq (sid : Nat) (code : Nat) (fs : Nat) :
    max_size_reset_stream sid code fs = maxSizeOf (Frame.streamCtl (.resetStream sid code fs)) := by
  codec_eq [max_size_reset_stream]

theorem gen_enc_reset_stream_eq (sid : Nat) (code : Nat) (fs : Nat) :
    enc_reset_stream sid code fs = encBytes (Frame.streamCtl (.resetStream sid code fs)) := by
  codec_eq [enc_reset_stream]

theorem gen_dec_reset_stream_eq :
    dec_reset_stream = decBody (.resetStream) := by
  dec_eq [dec_reset_stream]

theorem gen_size_stop_sending_eq (sid : Nat) (code : Nat) :
    size_stop_sending sid code = sizeOf (Frame.streamCtl (.stopSending sid code)) := by
  codec_eq [size_stop_sending]

theorem gen_max_size_stop_sending_eq (sid : Nat) (code : Nat) :
    max_size_stop_sending sid code = maxSizeOf (Frame.streamCtl (.stopSending sid code)) := by
  codec_eq [max_size_stop_sending]

theorem gen_enc_stop_sending_eq (sid : Nat) (code : Nat) :
    enc_stop_sending sid code = encBytes (Frame.streamCtl (.stopSending sid code)) := by
  codec_eq [enc_stop_sending]

theorem gen_dec_stop_sending_eq :
    dec_stop_sending = decBody (.stopSending) := by
  dec_eq [dec_stop_sending]

theorem gen_size_max_stream_data_eq (sid : Nat) (n : Nat) :
    size_max_stream_data sid n = sizeOf (Frame.streamCtl (.maxStreamData sid n)) := by
  codec_eq [size_max_stream_data]

theorem gen_max_size_max_stream_data_eq (sid : Nat) (n : Nat) :
    max_size_max_stream_data sid n = maxSizeOf (Frame.streamCtl (.maxStreamData sid n)) := by
  codec_eq [max_size_max_stream_data]

theorem gen_enc_max_stream_data_eq (sid : Nat) (n : Nat) :
    enc_max_stream_data sid n = encBytes (Frame.streamCtl (.maxStreamData sid n)) := by
  codec_eq [enc_max_stream_data]

theorem gen_dec_max_stream_data_eq :
    dec_max_stream_data = decBody (.maxStreamData) := by
  dec_eq [dec_max_stream_data]

theorem gen_size_stream_data_blocked_eq (sid : Nat) (n : Nat) :
    size_stream_data_blocked sid n = sizeOf (Frame.streamCtl (.streamDataBlocked sid n)) := by
  codec_eq [size_stream_data_blocked]

theorem gen_max_size_stream_data_blocked_eq (sid : Nat) (n : Nat) :
    max_size_stream_data_blocked sid n = maxSizeOf (Frame.streamCtl (.streamDataBlocked sid n)) := by
  codec_eq [max_size_stream_data_blocked]

theorem gen_enc_stream_data_blocked_eq (sid : Nat) (n : Nat) :
    enc_stream_data_blocked sid n = encBytes (Frame.streamCtl (.streamDataBlocked sid n)) := by
  codec_eq [enc_stream_data_blocked]

theorem gen_dec_stream_data_blocked_eq :
    dec_stream_data_blocked = decBody (.streamDataBlocked) := by
  dec_eq [dec_stream_data_blocked]

theorem gen_size_max_streams_eq (uni : Bool) (n : Nat) :
    size_max_streams uni n = sizeOf (Frame.streamCtl (.maxStreams uni n)) := by
  codec_eq [size_max_streams]

theorem gen_max_size_max_streams_eq (uni : Bool) (n : Nat) :
    max_size_max_streams uni n = maxSizeOf (Frame.streamCtl (.maxStreams uni n)) := by
  codec_eq [max_size_max_streams]

theorem gen_enc_max_streams_eq (uni : Bool) (n : Nat) :
    enc_max_streams uni n = encBytes (Frame.streamCtl (.maxStreams uni n)) := by
  codec_eq [enc_max_streams]

theorem gen_dec_max_streams_eq (uni : Bool) :
    dec_max_streams uni = decBody (.maxStreams uni) := by
  dec_eq [dec_max_streams]

theorem gen_size_streams_blocked_eq (uni : Bool) (n : Nat) :
    size_streams_blocked uni n = sizeOf (Frame.streamCtl (.streamsBlocked uni n)) := by
  codec_eq [size_streams_blocked]

theorem gen_max_size_streams_blocked_eq (uni : Bool) (n : Nat) :
    max_size_streams_blocked uni n = maxSizeOf (Frame.streamCtl (.streamsBlocked uni n)) := by
  codec_eq [max_size_streams_blocked]

theorem gen_enc_streams_blocked_eq (uni : Bool) (n : Nat) :
    enc_streams_blocked uni n = encBytes (Frame.streamCtl (.streamsBlocked uni n)) := by
  codec_eq [enc_streams_blocked]

theorem gen_dec_streams_blocked_eq (uni : Bool) :
    dec_streams_blocked uni = decBody (.streamsBlocked uni) := by
  dec_eq [dec_streams_blocked]

theorem gen_size_new_connection_id_eq (seq : Nat) (rpt : Nat) (cid : Bytes) (token : Bytes) :
    size_new_connection_id seq rpt cid token = sizeOf (Frame.newConnectionId seq rpt cid token) := by
  codec_eq [size_new_connection_id]

theorem gen_max_size_new_connection_id_eq (seq : Nat) (rpt : Nat) (cid : Bytes) (token : Bytes) :
    max_size_new_connection_id seq rpt cid token = maxSizeOf (Frame.newConnectionId seq rpt cid token) := by
  codec_eq [max_size_new_connection_id]

theorem gen_enc_new_connection_id_eq (seq : Nat) (rpt : Nat) (cid : Bytes) (token : Bytes) :
    enc_new_connection_id seq rpt cid token = encBytes (Frame.newConnectionId seq rpt cid token) := by
  codec_eq [enc_new_connection_id]

theorem gen_dec_new_connection_id_eq :
    dec_new_connection_id = decBody (.newConnectionId) := by
  dec_eq [dec_new_connection_id]

theorem gen_size_path_challenge_eq (d : Bytes) :
    size_path_challenge d = sizeOf (Frame.pathChallenge d) := by
  codec_eq [size_path_challenge]

theorem gen_max_size_path_challenge_eq (d : Bytes) :
    max_size_path_challenge d = maxSizeOf (Frame.pathChallenge d) := by
  codec_eq [max_size_path_challenge]

theorem gen_enc_path_challenge_eq (d : Bytes) :
    enc_path_challenge d = encBytes (Frame.pathChallenge d) := by
  codec_eq [enc_path_challenge]

theorem gen_dec_path_challenge_eq :
    dec_path_challenge = decBody (.pathChallenge) := by
  dec_eq [dec_path_challenge]

theorem gen_size_path_response_eq (d : Bytes) :
    size_path_response d = sizeOf (Frame.pathResponse d) := by
  codec_eq [size_path_response]

theorem gen_max_size_path_response_eq (d : Bytes) :
    max_size_path_response d = maxSizeOf (Frame.pathResponse d) := by
  codec_eq [max_size_path_response]

theorem gen_enc_path_response_eq (d : Bytes) :
    enc_path_response d = encBytes (Frame.pathResponse d) := by
  codec_eq [enc_path_response]

theorem gen_dec_path_response_eq :
    dec_path_response = decBody (.pathResponse) := by
  dec_eq [dec_path_response]

/-- The Rust computes the length prefix from `token.len() as u32`; the model's `sizeOf` omits the
truncation, so the two agree exactly on the tokens `wf` admits (`len < 2^32`). -/
theorem gen_size_new_token_eq (token : Bytes) (h : token.length < 2 ^ 32) :
    size_new_token token = sizeOf (Frame.newToken token) := by
  simp only [size_new_token, sizeOf, Nat.mod_eq_of_lt h]

example : ∃ token : Bytes, token.length < 2 ^ 32 := ⟨[], by decide⟩

theorem gen_max_size_new_token_eq (token : Bytes) (h : token.length < 2 ^ 32) :
    max_size_new_token token = maxSizeOf (Frame.newToken token) := by
  simp only [max_size_new_token, size_new_token, maxSizeOf, Nat.mod_eq_of_lt h]

example : ∃ token : Bytes, token.length < 2 ^ 32 := ⟨[0], by decide⟩

theorem gen_enc_new_token_eq (token : Bytes) :
    enc_new_token token = encBytes (Frame.newToken token) := by
  codec_eq [enc_new_token]

theorem gen_dec_new_token_eq :
    dec_new_token = decBody (.newToken) := by
  dec_eq [dec_new_token]

theorem gen_size_remove_address_eq (seq : Nat) :
    size_remove_address seq = sizeOf (Frame.removeAddress seq) := by
  codec_eq [size_remove_address]

theorem gen_max_size_remove_address_eq (seq : Nat) :
    max_size_remove_address seq = maxSizeOf (Frame.removeAddress seq) := by
  codec_eq [max_size_remove_address]

theorem gen_enc_remove_address_eq (seq : Nat) :
    enc_remove_address seq = encBytes (Frame.removeAddress seq) := by
  codec_eq [enc_remove_address]

theorem gen_dec_remove_address_eq :
    dec_remove_address = decBody (.removeAddress) := by
  dec_eq [dec_remove_address]

theorem gen_size_punch_hello_eq (a : Nat) (b : Nat) (c : Nat) :
    size_punch_hello a b c = sizeOf (Frame.punchHello a b c) := by
  codec_eq [size_punch_hello]

theorem gen_max_size_punch_hello_eq (a : Nat) (b : Nat) (c : Nat) :
    max_size_punch_hello a b c = maxSizeOf (Frame.punchHello a b c) := by
  codec_eq [max_size_punch_hello]

theorem gen_enc_punch_hello_eq (a : Nat) (b : Nat) (c : Nat) :
    enc_punch_hello a b c = encBytes (Frame.punchHello a b c) := by
  codec_eq [enc_punch_hello]

theorem gen_dec_punch_hello_eq :
    dec_punch_hello = decBody (.punchHello) := by
  dec_eq [dec_punch_hello]

theorem gen_size_punch_done_eq (a : Nat) (b : Nat) (c : Nat) :
    size_punch_done a b c = sizeOf (Frame.punchDone a b c) := by
  codec_eq [size_punch_done]

theorem gen_max_size_punch_done_eq (a : Nat) (b : Nat) (c : Nat) :
    max_size_punch_done a b c = maxSizeOf (Frame.punchDone a b c) := by
  codec_eq [max_size_punch_done]

theorem gen_enc_punch_done_eq (a : Nat) (b : Nat) (c : Nat) :
    enc_punch_done a b c = encBytes (Frame.punchDone a b c) := by
  codec_eq [enc_punch_done]

theorem gen_dec_punch_done_eq :
    dec_punch_done = decBody (.punchDone) := by
  dec_eq [dec_punch_done]

theorem gen_size_add_address_eq (seq : Nat) (addr : SockAddr) (tire : Nat) (nat : Nat) :
    size_add_address seq addr tire nat = sizeOf (Frame.addAddress seq addr tire nat) := by
  codec_eq [size_add_address]

theorem gen_max_size_add_address_eq (seq : Nat) (addr : SockAddr) (tire : Nat) (nat : Nat) :
    max_size_add_address seq addr tire nat = maxSizeOf (Frame.addAddress seq addr tire nat) := by
  codec_eq [max_size_add_address]

theorem gen_enc_add_address_eq (seq : Nat) (addr : SockAddr) (tire : Nat) (nat : Nat) :
    enc_add_address seq addr tire nat = encBytes (Frame.addAddress seq addr tire nat) := by
  codec_eq [enc_add_address]

theorem gen_dec_add_address_eq (v6 : Bool) :
    dec_add_address v6 = decBody (.addAddress v6) := by
  dec_eq [dec_add_address]

theorem gen_size_punch_me_now_eq (l : Nat) (r : Nat) (addr : SockAddr) (tire : Nat) (nat : Nat) :
    size_punch_me_now l r addr tire nat = sizeOf (Frame.punchMeNow l r addr tire nat) := by
  codec_eq [size_punch_me_now]

theorem gen_max_size_punch_me_now_eq (l : Nat) (r : Nat) (addr : SockAddr) (tire : Nat) (nat : Nat) :
    max_size_punch_me_now l r addr tire nat = maxSizeOf (Frame.punchMeNow l r addr tire nat) := by
  codec_eq [max_size_punch_me_now]

theorem gen_enc_punch_me_now_eq (l : Nat) (r : Nat) (addr : SockAddr) (tire : Nat) (nat : Nat) :
    enc_punch_me_now l r addr tire nat = encBytes (Frame.punchMeNow l r addr tire nat) := by
  codec_eq [enc_punch_me_now]

theorem gen_dec_punch_me_now_eq (v6 : Bool) :
    dec_punch_me_now v6 = decBody (.punchMeNow v6) := by
  dec_eq [dec_punch_me_now]

theorem gen_size_crypto_eq (off : Nat) (len : Nat) (data : Bytes) :
    size_crypto off len = sizeOf (Frame.crypto off len data) := by
  codec_eq [size_crypto]

theorem gen_max_size_crypto_eq (off : Nat) (len : Nat) (data : Bytes) :
    max_size_crypto off len = maxSizeOf (Frame.crypto off len data) := by
  codec_eq [max_size_crypto]

theorem gen_enc_crypto_eq (off : Nat) (len : Nat) (data : Bytes) :
    enc_crypto off len data = encBytes (Frame.crypto off len data) := by
  codec_eq [enc_crypto]

/-- `put_data_frame(CryptoFrame)` panics exactly when the generated `assert_eq!` condition is false -/
theorem gen_enc_crypto_assert_eq (off : Nat) (len : Nat) (data : Bytes) :
    enc (Frame.crypto off len data) =
      if encpre_crypto off len data then .ok () (enc_crypto off len data)
      else .panic "crypto.rs put_data_frame assert_eq!(frame.length, data.len())" := by
  simp only [enc, encpre_crypto, enc_crypto, encBody, Frame.type, beq_iff_eq]

theorem gen_size_datagram_eq (withLen : Bool) (len : Nat) (data : Bytes) :
    size_datagram withLen len = sizeOf (Frame.datagram withLen len data) := by
  codec_eq [size_datagram]

theorem gen_max_size_datagram_eq (withLen : Bool) (len : Nat) (data : Bytes) :
    max_size_datagram withLen len = maxSizeOf (Frame.datagram withLen len data) := by
  codec_eq [max_size_datagram]

theorem gen_enc_datagram_eq (withLen : Bool) (len : Nat) (data : Bytes) :
    enc_datagram withLen len data = encBytes (Frame.datagram withLen len data) := by
  codec_eq [enc_datagram]

theorem gen_size_stream_eq (sid : Nat) (off : Nat) (len : Nat) (lenBit : Bool) (fin : Bool) (data : Bytes) :
    size_stream sid off len lenBit fin = sizeOf (Frame.stream sid off len lenBit fin data) := by
  codec_eq [size_stream]

theorem gen_max_size_stream_eq (sid : Nat) (off : Nat) (len : Nat) (lenBit : Bool) (fin : Bool) (data : Bytes) :
    max_size_stream sid off len lenBit fin = maxSizeOf (Frame.stream sid off len lenBit fin data) := by
  codec_eq [max_size_stream]

theorem gen_enc_stream_eq (sid : Nat) (off : Nat) (len : Nat) (lenBit : Bool) (fin : Bool) (data : Bytes) :
    enc_stream sid off len lenBit fin data = encBytes (Frame.stream sid off len lenBit fin data) := by
  codec_eq [enc_stream]

/-- the `iter().map(..).sum()` of `AckFrame::encoding_size` is the model's `rangesSize` -/
theorem gen_ranges_sum_eq (ranges : List (Nat × Nat)) :
    (ranges.map fun p => varintSize p.1 + varintSize p.2).sum = rangesSize ranges := by
  induction ranges with
  | nil => rfl
  | cons p rest ih => obtain ⟨g, a⟩ := p; simp only [List.map_cons, List.sum_cons, rangesSize, ih]

/-- the `for (gap, ack) in &frame.ranges` loop of `put_frame(AckFrame)` is the model's `encRanges` -/
theorem gen_ranges_flatMap_eq (ranges : List (Nat × Nat)) :
    (ranges.flatMap fun p => encVarint p.1 ++ encVarint p.2) = encRanges ranges := by
  induction ranges with
  | nil => rfl
  | cons p rest ih => obtain ⟨g, a⟩ := p; simp only [List.flatMap_cons, encRanges, ih, List.append_assoc]

theorem gen_size_ack_eq (largest : Nat) (delay : Nat) (first : Nat) (ranges : List (Nat × Nat)) (ecn : Option (Nat × Nat × Nat)) :
    size_ack largest delay first ranges ecn = sizeOf (Frame.ack largest delay first ranges ecn) := by
  simp only [size_ack, sizeOf, gen_ranges_sum_eq]
  cases ecn <;> rfl

theorem gen_max_size_ack_eq (largest : Nat) (delay : Nat) (first : Nat) (ranges : List (Nat × Nat)) (ecn : Option (Nat × Nat × Nat)) :
    max_size_ack largest delay first ranges ecn = maxSizeOf (Frame.ack largest delay first ranges ecn) := by
  codec_eq [max_size_ack]

theorem gen_enc_ack_eq (largest : Nat) (delay : Nat) (first : Nat) (ranges : List (Nat × Nat)) (ecn : Option (Nat × Nat × Nat)) :
    enc_ack largest delay first ranges ecn = encBytes (Frame.ack largest delay first ranges ecn) := by
  simp only [enc_ack, encBytes, encBody, Frame.type, gen_ranges_flatMap_eq]
  cases ecn <;> rfl

theorem gen_size_close_app_eq (code : Nat) (reason : Bytes) :
    size_close_app code reason = sizeOf (Frame.closeApp code reason) := by
  codec_eq [size_close_app]

theorem gen_max_size_close_app_eq (code : Nat) (reason : Bytes) :
    max_size_close_app code reason = maxSizeOf (Frame.closeApp code reason) := by
  codec_eq [max_size_close_app]

theorem gen_enc_close_app_eq (code : Nat) (reason : Bytes) :
    enc_close_app code reason = encBytes (Frame.closeApp code reason) := by
  codec_eq [enc_close_app]

theorem gen_dec_close_app_eq :
    dec_close_app = decBody (.connectionClose true) := by
  dec_eq [dec_close_app]

theorem gen_size_close_quic_eq (kind : EKind) (fty : ErrFty) (reason : Bytes) :
    size_close_quic kind fty reason = sizeOf (Frame.closeQuic kind fty reason) := by
  codec_eq [size_close_quic]

theorem gen_max_size_close_quic_eq (kind : EKind) (fty : ErrFty) (reason : Bytes) :
    max_size_close_quic kind fty reason = maxSizeOf (Frame.closeQuic kind fty reason) := by
  codec_eq [max_size_close_quic]

theorem gen_enc_close_quic_eq (kind : EKind) (fty : ErrFty) (reason : Bytes) :
    enc_close_quic kind fty reason = encBytes (Frame.closeQuic kind fty reason) := by
  codec_eq [enc_close_quic]

/-! ### parsers of the data frames: the generated definition is the *header* parser (`be_crypto_frame`,
`stream_frame_with_flag`, `datagram_frame_with_flag`); the split of the data that follows is the
corresponding arm of `complete_frame` (io.rs), written out on the right-hand side. -/

theorem gen_dec_crypto_eq (bs : Bytes) :
    decBody .crypto bs = (dec_crypto bs).bind fun h r =>
      if r.length < h.2 then .err .incomplete else .ok (.crypto h.1 h.2 (r.take h.2)) (r.drop h.2) := by
  simp only [decBody, dec_crypto]
  cases pVarint bs with
  | ok off r =>
    simp only [Res.bind]
    cases pVarint r with
    | ok len r2 => simp only []; split <;> rfl
    | err _ => rfl
    | panic _ => rfl
  | err _ => rfl
  | panic _ => rfl

theorem gen_dec_stream_eq (offBit lenBit fin : Bool) (bs : Bytes) :
    decBody (.stream offBit lenBit fin) bs = (dec_stream offBit lenBit fin bs).bind fun h r =>
      if r.length < h.2.2.1 then .err .incomplete
      else .ok (.stream h.1 h.2.1 h.2.2.1 h.2.2.2.1 h.2.2.2.2 (r.take h.2.2.1)) (r.drop h.2.2.1) := by
  simp only [decBody, dec_stream]
  cases pVarint bs with
  | ok sid r =>
    simp only [Res.bind]
    cases offBit
    · simp only [Bool.false_eq_true, if_false]
      cases lenBit
      · simp only [Bool.false_eq_true, if_false]; split <;> rfl
      · simp only [if_true]
        cases pVarint r with
        | ok len r2 => simp only []; split <;> rfl
        | err _ => rfl
        | panic _ => rfl
    · simp only [if_true]
      cases pVarint r with
      | ok off r1 =>
        simp only []
        cases lenBit
        · simp only [Bool.false_eq_true, if_false]; split <;> rfl
        · simp only [if_true]
          cases pVarint r1 with
          | ok len r2 => simp only []; split <;> rfl
          | err _ => rfl
          | panic _ => rfl
      | err _ => rfl
      | panic _ => rfl
  | err _ => rfl
  | panic _ => rfl

theorem gen_dec_datagram_eq (withLen : Bool) (bs : Bytes) :
    decBody (.datagram withLen) bs = (dec_datagram withLen bs).bind fun h r =>
      if h.1 then (if h.2 > r.length then .err .incomplete else .ok (.datagram true h.2 (r.take h.2)) (r.drop h.2))
      else .ok (.datagram false h.2 r) [] := by
  cases withLen
  · rfl
  · simp only [decBody, dec_datagram, if_true]
    cases pVarint bs with
    | ok len r => rfl
    | err _ => rfl
    | panic _ => rfl

theorem gen_dec_close_quic_eq :
    dec_close_quic = decBody (.connectionClose false) := by
  funext bs
  simp only [dec_close_quic, decBody, pErrFty]
  cases pVarint bs with
  | ok code r =>
    simp only [Res.bind]
    cases errKindOfNat code with
    | none => rfl
    | some kind =>
      simp only []
      cases pVarint r with
      | ok v r1 => simp only []; cases frameTypeOfNat v <;> rfl
      | err _ => rfl
      | panic _ => rfl
  | err _ => rfl
  | panic _ => rfl

/-- the counted `while` loop of `ack_frame_with_ecn` is the model's `pRanges` -/
theorem gen_dec_ack_loop_eq (n : Nat) : dec_ack_loop n = pRanges n := by
  induction n with
  | zero => rfl
  | succ n ih => funext bs; simp only [dec_ack_loop, pRanges, ih]

theorem gen_dec_ack_eq (ecn : Bool) :
    dec_ack ecn = decBody (.ack ecn) := by
  funext bs
  simp only [dec_ack, decBody, gen_dec_ack_loop_eq]

end GmQuic.Codec
