import GmQuic.Model.ParamsEnc
import GmQuic.Lemmas.ParamsEnc
/-!
C05, transport-parameter sets: `Parameters<R>::parse_from_bytes ∘ put_parameters = id` for every set a
`Parameters<R>` can hold and that is complete for the role, for EVERY iteration order of the map
(the order is canonicalised: the result has exactly the same bindings).  The decoder is C18's model
(`Model/Params.lean`), reused unchanged.
-/
namespace GmQuic.Params
open GmQuic.Gen.Params GmQuic.Wire

theorem putParams_length_ge (m : PMap) : m.length ≤ (putParams m).length := by
  induction m with
  | nil => simp [putParams]
  | cons e tl ih =>
    have h1 : 1 ≤ (encParam e.1 e.2).length := by
      have := (varintSize_le e.1).1
      simp only [encParam, List.length_append, encVarint_length]; omega
    have : putParams (e :: tl) = encParam e.1 e.2 ++ putParams tl := by simp [putParams]
    rw [this, List.length_append, List.length_cons]; omega

/-- **Round trip of a parameter set** (exact: the whole buffer is consumed, nothing is ignored). -/
theorem parse_put_parameters (r : Role) (m : PMap) (h : wfSet r m = true) :
    parse r (putParams m) = some m.reverse := by
  simp only [wfSet, Bool.and_eq_true, List.all_eq_true] at h
  obtain ⟨⟨hd, hacc⟩, hreq⟩ := h
  have hl := parseLoop_put r m ((putParams m).length + 1) [] (by have := putParams_length_ge m; omega) hd
    (fun e he => by simpa using hacc e he) (fun e _ => by simp)
  simp only [parse, hl, List.append_nil]
  have : (required r).all (PMap.has m.reverse) = true := by
    simp only [List.all_eq_true]
    intro id hid
    have := hreq id hid
    simpa [PMap.has] using this
  simp [this]

/-- order canonicalised: the parsed set has exactly the bindings of the written one, whatever order
`HashMap` iteration chose -/
theorem parse_put_same_bindings (r : Role) (m : PMap) (h : wfSet r m = true) :
    ∃ m', parse r (putParams m) = some m' ∧ ∀ e, e ∈ m' ↔ e ∈ m :=
  ⟨m.reverse, parse_put_parameters r m h, fun e => List.mem_reverse⟩

/-- two iteration orders of the same set parse to the same bindings -/
theorem parse_put_order_irrelevant (r : Role) (m₁ m₂ : PMap) (h₁ : wfSet r m₁ = true) (h₂ : wfSet r m₂ = true)
    (hp : ∀ e, e ∈ m₁ ↔ e ∈ m₂) :
    ∃ a b, parse r (putParams m₁) = some a ∧ parse r (putParams m₂) = some b ∧ ∀ e, e ∈ a ↔ e ∈ b :=
  ⟨m₁.reverse, m₂.reverse, parse_put_parameters r m₁ h₁, parse_put_parameters r m₂ h₂,
    fun e => by rw [List.mem_reverse, List.mem_reverse]; exact hp e⟩

/-- non-vacuity: a complete server set with every value type, and a client set -/
def sampleServer : PMap :=
  [(15, .cid [1, 2, 3]), (0, .cid []), (1, .dur 30000), (2, .token (List.replicate 16 7)), (3, .varint 1200),
   (4, .varint (2 ^ 62 - 1)), (8, .varint (2 ^ 60 - 1)), (11, .dur 16383), (12, .tru), (14, .varint 2),
   (13, .pref (List.replicate 24 9 ++ [2, 5, 6] ++ List.replicate 16 8)), (32, .varint 65535)]
def sampleClient : PMap := [(65518, .bytes [0x71, 0x75]), (15, .cid (List.replicate 20 4)), (10930, .tru)]

theorem wfSet_nonvacuous : wfSet .server sampleServer = true ∧ wfSet .client sampleClient = true := by decide

example : parse .server (putParams sampleServer) = some sampleServer.reverse := by decide
example : parse .client (putParams sampleClient.reverse) = some sampleClient := by decide

end GmQuic.Params
