import GmQuic.Model.ParamsEnc
import GmQuic.Gen.ParamCodec
/-!
C05 / T5, third part: **the hand-written transport-parameter value ENCODER equals what the Rust source
text says.**  `Gen/ParamCodec.lean` is regenerated on every run by `xlate/gen_paramcodec.py` from
`qbase/src/param/io.rs` (`put_{bytes,cid,bool,reset_token,varint,duration}_parameter`); each statement
says, for all ids and values, that the generated definition equals the arm of `encParam`
(`Model/ParamsEnc.lean`) about which the parameter round-trip theorems are proved.
`put_preferred_address_parameter`, the `put_parameter` dispatch (pinned by a shape guard) and the
decoder are not generated.
-/
namespace GmQuic.Params
open GmQuic.Wire GmQuic.Gen.ParamCodec

theorem gen_penc_varint_eq (id n : Nat) : penc_varint id n = encParam id (.varint n) := by
  first | rfl | simp [penc_varint, encParam]

theorem gen_penc_duration_eq (id ms : Nat) : penc_duration id ms = encParam id (.dur ms) := by
  first | rfl | simp [penc_duration, encParam]

theorem gen_penc_bool_eq (id : Nat) : penc_bool id = encParam id .tru := by
  first | rfl | simp [penc_bool, encParam]

theorem gen_penc_bytes_eq (id : Nat) (b : Bytes) : penc_bytes id b = encParam id (.bytes b) := by
  first | rfl | simp [penc_bytes, encParam]

theorem gen_penc_cid_eq (id : Nat) (c : Bytes) : penc_cid id c = encParam id (.cid c) := by
  first | rfl | simp [penc_cid, encParam]

theorem gen_penc_reset_token_eq (id : Nat) (t : Bytes) : penc_reset_token id t = encParam id (.token t) := by
  first | rfl | simp [penc_reset_token, encParam]

theorem gen_penc_preferred_address_eq (id : Nat) (b : Bytes) :
    penc_preferred_address id b = encParam id (.pref b) := by
  first | rfl | simp [penc_preferred_address, encParam]

/-- the `match value` dispatch of `put_parameter` -/
theorem gen_penc_eq (id : Nat) (v : PVal) : penc id v = encParam id v := by
  cases v <;> simp only [penc] <;>
    first
    | exact gen_penc_varint_eq id _ | exact gen_penc_duration_eq id _ | exact gen_penc_bool_eq id
    | exact gen_penc_bytes_eq id _ | exact gen_penc_cid_eq id _ | exact gen_penc_reset_token_eq id _
    | exact gen_penc_preferred_address_eq id _

/-- the `for (id, value) in &params.map` loop of `put_parameters`, for every iteration order -/
theorem gen_penc_all_eq (m : PMap) : penc_all m = putParams m := by
  simp only [penc_all, putParams, List.flatMap_def, gen_penc_eq]

end GmQuic.Params
