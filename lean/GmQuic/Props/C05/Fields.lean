import GmQuic.Model.Fields
import GmQuic.Model.FrameWF
import GmQuic.Lemmas.CodecFrames
import GmQuic.Lemmas.CodecSize
/-!
C05, field codecs: connection id, stream id, reset token, socket address — round trip with exact
consumption and declared size; plus the decoders' refusal paths that the frame theorems' `wf`
excludes (so `wf` is shown to be necessary, not merely sufficient).
-/
namespace GmQuic.Codec
open GmQuic.Wire GmQuic.Gen

/-- `be_connection_id ∘ put_connection_id = id` for every id the type can hold (0..20 bytes). -/
theorem dec_enc_cid (cid rest : Bytes) (h : cid.length ≤ maxCidSize) : pCid (encCid cid ++ rest) = .ok cid rest :=
  pCid_enc cid rest h

example : pCid (encCid (List.replicate 20 9) ++ [1]) = .ok (List.replicate 20 9) [1] := by decide
example : pCid (encCid []) = .ok [] [] := by decide

theorem size_enc_cid (cid : Bytes) : (encCid cid).length = cidSize cid := by
  simp [encCid, cidSize]; omega

/-- a length byte above 20 is refused with `TooLarge` (never read as a longer id) -/
theorem dec_cid_too_large (b : UInt8) (rest : Bytes) (h : b.toNat > maxCidSize) :
    pCid (b :: rest) = .err (.nom .tooLarge) := by
  simp [pCid, pU8S, h]

/-- `be_streamid ∘ put_streamid = id`, all 62 bits (role / direction bits included). -/
theorem dec_enc_stream_id (sid : Nat) (rest : Bytes) (h : sid < 2 ^ 62) :
    pStreamId (encStreamId sid ++ rest) = .ok sid rest := pVarint_enc sid rest h

example : pStreamId (encStreamId (2 ^ 62 - 1) ++ [0]) = .ok (2 ^ 62 - 1) [0] := by decide

theorem size_enc_stream_id (sid : Nat) : (encStreamId sid).length = varintSize sid := encVarint_length sid

/-- `be_reset_token ∘ put_reset_token = id` -/
theorem dec_enc_reset_token (t rest : Bytes) (h : t.length = resetTokenSize) :
    pResetToken (encResetToken t ++ rest) = .ok t rest := pTakeC_append t rest _ h

example : pResetToken (encResetToken (List.replicate 16 1) ++ [2]) = .ok (List.replicate 16 1) [2] := by decide

/-- `be_socket_addr(family) ∘ put_socket_addr = id` for IPv4 and IPv6 -/
theorem dec_enc_sock_addr (a : SockAddr) (rest : Bytes) (h : wfAddr a = true) :
    pSockAddr a.v6 (encSockAddr a ++ rest) = .ok a rest := by
  simp only [wfAddr, Bool.and_eq_true, decide_eq_true_eq] at h
  exact pSockAddr_enc a rest h.1 h.2

example : wfAddr ⟨true, 2 ^ 128 - 1, 65535⟩ = true ∧ wfAddr ⟨false, 0, 0⟩ = true := by decide

/-- `SocketAddr::encoding_size` (6 / 18) is what is written and never exceeds `max_encoding_size` (18) -/
theorem size_enc_sock_addr (a : SockAddr) : (encSockAddr a).length = sockAddrSize a ∧ sockAddrSize a ≤ 2 + 16 := by
  refine ⟨encSockAddr_length a, ?_⟩
  unfold sockAddrSize; split <;> omega

/-! ### necessity of the `wf` side conditions (the decoders' checks) -/

/-- NEW_CONNECTION_ID with `retire_prior_to > seq` is written but refused (`Verify`). -/
theorem newcid_rpt_gt_seq_rejected (seq rpt : Nat) (cid tok rest : Bytes) (h1 : rpt < 2 ^ 62) (h2 : seq < rpt) :
    decBody .newConnectionId (encBody (.newConnectionId seq rpt cid tok) ++ rest) = .err (.nom .verify) := by
  simp only [decBody, encBody, List.append_assoc]
  rw [pVarint_enc _ _ (by omega), Res.bind_ok, pVarint_enc _ _ h1, Res.bind_ok, if_pos (by omega)]

example : (1 : Nat) < 2 := by decide

/-- MAX_STREAMS above `MAX_STREAMS_LIMIT` is written but refused (`TooLarge`). -/
theorem max_streams_over_limit_rejected (uni : Bool) (n : Nat) (rest : Bytes) (h1 : n < 2 ^ 62)
    (h2 : maxStreamsLimit < n) :
    decBody (.maxStreams uni) (encBody (.streamCtl (.maxStreams uni n)) ++ rest) = .err (.nom .tooLarge) := by
  simp only [decBody, encBody]
  rw [pVarint_enc _ _ h1, Res.bind_ok, if_pos h2]

example : maxStreamsLimit < 2 ^ 60 ∧ 2 ^ 60 < 2 ^ 62 := by decide

/-- CRYPTO / STREAM data that would end beyond 2^62 − 1 is refused (`TooLarge`). -/
theorem crypto_over_range_rejected (off len : Nat) (data rest : Bytes) (h1 : off < 2 ^ 62) (h2 : len < 2 ^ 62)
    (h3 : off + len > varintMax) :
    decBody .crypto (encBody (.crypto off len data) ++ rest) = .err (.nom .tooLarge) := by
  simp only [decBody, encBody, List.append_assoc]
  rw [pVarint_enc _ _ h1, Res.bind_ok, pVarint_enc _ _ h2, Res.bind_ok, if_pos h3]

example : (2 ^ 62 - 1) + 1 > varintMax := by decide

end GmQuic.Codec
