import GmQuic.Model.Header
import GmQuic.Gen.HdrCodec
/-!
C05 / T5, second part: **the hand-written packet-header ENCODER model equals what the Rust source text
says.**  `Gen/HdrCodec.lean` is regenerated on every run by `xlate/gen_hdrcodec.py` from
`qbase/src/packet/header/{long,short}.rs` (`put_header`, `put_specific`, `EncodeHeader::size` and the
trait defaults); each theorem states, for all values, that a generated definition equals the
corresponding piece of `Model/Header.lean` (`encHeader`, `headerSize`).  The header decoders are not
generated (hand model + differential run `C05hdr`).
-/
namespace GmQuic.Codec
open GmQuic.Wire GmQuic.Gen GmQuic.Gen.HdrCodec

theorem gen_hsize_initial_eq (d s tok : Bytes) :
    some (hsize_initial d s tok) = headerSize (.initial d s tok) := by
  first | rfl | (simp only [hsize_initial, headerSize]; congr 1; omega)

theorem gen_hsize_zero_rtt_eq (d s : Bytes) :
    some (hsize_zero_rtt d s) = headerSize (.zeroRtt d s) := by
  first | rfl | (simp only [hsize_zero_rtt, headerSize]; congr 1; omega)

theorem gen_hsize_handshake_eq (d s : Bytes) :
    some (hsize_handshake d s) = headerSize (.handshake d s) := by
  first | rfl | (simp only [hsize_handshake, headerSize]; congr 1; omega)

theorem gen_hsize_one_rtt_eq (spin : Bool) (d : Bytes) :
    some (hsize_one_rtt spin d) = headerSize (.oneRtt spin d) := by
  first | rfl | (simp only [hsize_one_rtt, headerSize]; congr 1; omega)

theorem gen_henc_initial_eq (d s tok : Bytes) :
    henc_initial d s tok = encHeader (.initial d s tok) := by
  simp [henc_initial, encHeader, Header.type, encCid]

theorem gen_henc_zero_rtt_eq (d s : Bytes) :
    henc_zero_rtt d s = encHeader (.zeroRtt d s) := by
  simp [henc_zero_rtt, encHeader, Header.type, encCid]

theorem gen_henc_handshake_eq (d s : Bytes) :
    henc_handshake d s = encHeader (.handshake d s) := by
  simp [henc_handshake, encHeader, Header.type, encCid]

theorem gen_henc_retry_eq (d s tok integ : Bytes) :
    henc_retry d s tok integ = encHeader (.retry d s tok integ) := by
  simp [henc_retry, encHeader, Header.type, encCid]

theorem gen_henc_vn_eq (d s : Bytes) (vs : List Nat) :
    henc_vn d s vs = encHeader (.vn d s vs) := by
  simp [henc_vn, encHeader, Header.type, encCid, List.flatMap_def]

theorem gen_henc_one_rtt_eq (spin : Bool) (d : Bytes) :
    henc_one_rtt spin d = encHeader (.oneRtt spin d) := rfl

end GmQuic.Codec
