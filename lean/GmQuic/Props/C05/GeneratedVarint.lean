import GmQuic.Model.Wire
import GmQuic.Gen.VarintCodec
/-!
C05 / T5, sixth part: **the varint primitives of `Model/Wire.lean` equal what `qbase/src/varint.rs` says**
(`Gen/VarintCodec.lean`, `xlate/gen_varintcodec.py`): the shift / or / `as uN` form of `put_varint` is the
div/mod form `encVarint`, and `VarInt::encoding_size` is `varintSize`, for every value a `VarInt` can hold
(x < 2^62; beyond it the Rust hits `unreachable!`).  `be_varint` (nom bit-level parser) is pinned as text.
-/
namespace GmQuic.Wire
open GmQuic.Gen.VarintCodec

theorem gen_varint_size_eq (x : Nat) (h : x < 2 ^ 62) : varint_size x = varintSize x := by
  simp only [varint_size, varintSize, Nat.shiftLeft_eq, Nat.one_mul]
  repeat' split
  all_goals first | rfl | omega

example : ∃ x, x < 2 ^ 62 := ⟨0, by decide⟩

theorem or_eq_add (i a x : Nat) (hx : x < 2 ^ i) : a * 2 ^ i ||| x = a * 2 ^ i + x := by
  rw [Nat.mul_comm]; exact (Nat.two_pow_add_eq_or_of_lt hx a).symm

theorem gen_put_varint_eq (x : Nat) (h : x < 2 ^ 62) : put_varint x = encVarint x := by
  unfold put_varint encVarint
  simp only [Nat.shiftLeft_eq]
  have e1 : 1 * 2 ^ 6 = 2 ^ 6 := by omega
  have e2 : 1 * 2 ^ 14 = 2 ^ 14 := by omega
  have e3 : 1 * 2 ^ 30 = 2 ^ 30 := by omega
  have e4 : 1 * 2 ^ 62 = 2 ^ 62 := by omega
  rw [e1, e3, e4]
  by_cases h1 : x < 2 ^ 6
  · rw [if_pos h1, if_pos h1, Nat.mod_eq_of_lt (by omega)]
  · rw [if_neg h1, if_neg h1]
    by_cases h2 : x < 2 ^ 14
    · rw [if_pos (e2 ▸ h2), if_pos h2, Nat.mod_eq_of_lt (by omega), or_eq_add 14 1 x h2]
    · rw [if_neg (e2 ▸ h2), if_neg h2]
      by_cases h3 : x < 2 ^ 30
      · rw [if_pos h3, if_pos h3, Nat.mod_eq_of_lt (by omega), or_eq_add 30 2 x h3]
      · rw [if_neg h3, if_neg h3, if_pos h, or_eq_add 62 3 x h]

example : ∃ x, x < 2 ^ 62 := ⟨1, by decide⟩

end GmQuic.Wire
