import GmQuic.Model.Addr
import GmQuic.Model.ParamsEnc
import GmQuic.Lemmas.CodecFrames
/-!
C05, endpoint addresses, links and the preferred address: round trip with exact consumption, declared
size = written size (≤ declared maximum), and the side conditions shown necessary.
-/
namespace GmQuic.Codec
open GmQuic.Wire

theorem dec_enc_endpoint (e : EndpointAddr) (rest : Bytes) (h : wfEndpoint e = true) :
    pEndpoint (match e with | .direct _ => 0 | .agent .. => 1) (match e with | .direct a => a.v6 | .agent a _ => a.v6)
      (encEndpoint e ++ rest) = .ok e rest := by
  cases e with
  | direct a =>
    simp only [wfEndpoint, Bool.and_eq_true, decide_eq_true_eq] at h
    simp only [pEndpoint, encEndpoint]
    rw [if_neg (by decide), pSockAddr_enc a rest h.1 h.2, Res.bind_ok]
  | agent a o =>
    simp only [wfEndpoint, Bool.and_eq_true, decide_eq_true_eq, beq_iff_eq] at h
    obtain ⟨⟨⟨⟨h1, h2⟩, h3⟩, h4⟩, h5⟩ := h
    simp only [pEndpoint, encEndpoint, List.append_assoc]
    rw [if_pos (by decide), pSockAddr_enc a _ h1 h2, Res.bind_ok, h5, pSockAddr_enc o _ h3 h4, Res.bind_ok]

example : wfEndpoint (.agent ⟨true, 5, 443⟩ ⟨true, 2 ^ 128 - 1, 0⟩) = true ∧ wfEndpoint (.direct ⟨false, 0, 65535⟩) = true := by
  decide

/-- declared size = written size whenever `encoding_size` does not hit `unimplemented!()` -/
theorem size_enc_endpoint (e : EndpointAddr) (n : Nat) (h : endpointSize e = some n) : (encEndpoint e).length = n := by
  cases e with
  | direct a =>
    simp only [endpointSize, Option.some.injEq] at h
    simp [encEndpoint, encSockAddr_length, sockAddrSize, h]
  | agent a o =>
    simp only [endpointSize] at h
    cases ha : a.v6 <;> cases ho : o.v6 <;> simp [ha, ho] at h <;>
      simp [encEndpoint, encSockAddr_length, sockAddrSize, ha, ho, ← h]

example : endpointSize (.agent ⟨true, 5, 443⟩ ⟨true, 6, 0⟩) = some 36 := by decide

/-- same-family endpoints always have a declared size (no `unimplemented!()`); mixed families panic -/
theorem endpoint_size_defined (e : EndpointAddr) (h : wfEndpoint e = true) : (endpointSize e).isSome = true := by
  cases e with
  | direct a => simp [endpointSize]
  | agent a o =>
    simp only [wfEndpoint, Bool.and_eq_true, beq_iff_eq] at h
    cases ha : a.v6 <;> simp [endpointSize, ha, ← h.2]

theorem endpoint_mixed_families_unimplemented (a o : SockAddr) (h : a.v6 ≠ o.v6) : endpointSize (.agent a o) = none := by
  cases ha : a.v6 <;> cases ho : o.v6 <;> simp_all [endpointSize]

example : (⟨true, 0, 0⟩ : SockAddr).v6 ≠ (⟨false, 0, 0⟩ : SockAddr).v6 := by decide

theorem dec_enc_link (l : Link) (rest : Bytes) (h : wfLink l = true) : pLink (encLink l ++ rest) = .ok l rest := by
  obtain ⟨s, d⟩ := l
  simp only [wfLink, Bool.and_eq_true, decide_eq_true_eq, beq_iff_eq] at h
  obtain ⟨⟨⟨⟨h1, h2⟩, h3⟩, h4⟩, h5⟩ := h
  simp only [pLink, encLink, List.cons_append, List.append_assoc, pU8S, Res.bind_ok]
  cases hs : s.v6
  · have hd : d.v6 = false := by rw [← h5, hs]
    have e1 := pSockAddr_enc s (encSockAddr d ++ rest) h1 h2
    have e2 := pSockAddr_enc d rest h3 h4
    rw [hs] at e1; rw [hd] at e2
    simp [e1, e2]
  · have hd : d.v6 = true := by rw [← h5, hs]
    have e1 := pSockAddr_enc s (encSockAddr d ++ rest) h1 h2
    have e2 := pSockAddr_enc d rest h3 h4
    rw [hs] at e1; rw [hd] at e2
    simp [e1, e2]

example : wfLink ⟨⟨false, 1, 2⟩, ⟨false, 3, 4⟩⟩ = true ∧ wfLink ⟨⟨true, 1, 2⟩, ⟨true, 3, 4⟩⟩ = true := by decide

theorem size_enc_link (l : Link) : (encLink l).length = linkSize l ∧ linkSize l ≤ linkMaxSize l := by
  constructor
  · simp [encLink, linkSize, encSockAddr_length]; omega
  · simp only [linkSize, linkMaxSize, sockAddrSize]; split <;> split <;> omega

theorem dec_enc_pref_addr (p : PrefAddr) (rest : Bytes) (h : wfPrefAddr p = true) :
    pPrefAddr (encPrefAddr p ++ rest) = .ok p rest := by
  obtain ⟨ip4, port4, ip6, port6, cid, tok⟩ := p
  simp only [wfPrefAddr, Bool.and_eq_true, decide_eq_true_eq] at h
  obtain ⟨⟨⟨⟨⟨h1, h2⟩, h3⟩, h4⟩, h5⟩, h6⟩ := h
  have e1 : encPrefAddr ⟨ip4, port4, ip6, port6, cid, tok⟩ ++ rest
      = (beBytes 4 ip4 ++ beBytes 2 port4) ++ ((beBytes 16 ip6 ++ beBytes 2 port6) ++ (encCid cid ++ (tok ++ rest))) := by
    simp [encPrefAddr]
  simp only [pPrefAddr]
  rw [e1, pTakeS_append _ _ 6 (by simp), Res.bind_ok, pTakeS_append _ _ 18 (by simp), Res.bind_ok]
  have := pCid_enc cid (tok ++ rest) h5
  simp only [encCid, List.cons_append] at this ⊢
  rw [this, Res.bind_ok, pTakeC_append _ _ _ h6, Res.bind_ok]
  simp [take_append_len, drop_append_len, beVal_beBytes, Nat.mod_eq_of_lt, h1, h2, h3, h4]

example : wfPrefAddr ⟨0x7f000001, 443, 1, 8443, [1, 2, 3], List.replicate 16 9⟩ = true := by decide

theorem size_enc_pref_addr (p : PrefAddr) (h : wfPrefAddr p = true) : (encPrefAddr p).length = prefAddrSize p := by
  simp only [wfPrefAddr, Bool.and_eq_true, decide_eq_true_eq] at h
  simp [encPrefAddr, prefAddrSize, encCid, cidSize, h.2]; omega

/-- the image of a well-formed preferred address is what C18's `parse` accepts as a PreferredAddress value,
so `wfVal (.pref (encPrefAddr p))` of the parameter-set theorem is satisfiable by every real value -/
theorem pref_addr_image_is_valid_param (p : PrefAddr) (h : wfPrefAddr p = true) :
    GmQuic.Params.wfVal (.pref (encPrefAddr p)) = true := by
  obtain ⟨ip4, port4, ip6, port6, cid, tok⟩ := p
  simp only [wfPrefAddr, Bool.and_eq_true, decide_eq_true_eq] at h
  obtain ⟨⟨⟨⟨⟨h1, h2⟩, h3⟩, h4⟩, h5⟩, h6⟩ := h
  have hm : maxCidSize = 20 := rfl
  have hr : resetTokenSize = 16 := rfl
  have hdrop : (encPrefAddr ⟨ip4, port4, ip6, port6, cid, tok⟩).drop 24 = UInt8.ofNat cid.length :: (cid ++ tok) := by
    have : encPrefAddr ⟨ip4, port4, ip6, port6, cid, tok⟩
        = (beBytes 4 ip4 ++ beBytes 2 port4 ++ beBytes 16 ip6 ++ beBytes 2 port6) ++ (UInt8.ofNat cid.length :: (cid ++ tok)) := by
      simp [encPrefAddr, encCid]
    rw [this, drop_append_len _ _ 24 (by simp)]
  have hlen : (encPrefAddr ⟨ip4, port4, ip6, port6, cid, tok⟩).length < 2 ^ 62 := by
    simp [encPrefAddr, encCid]; omega
  have hb : (UInt8.ofNat cid.length).toNat = cid.length := by rw [UInt8.toNat_ofNat']; omega
  simp only [GmQuic.Params.wfVal, Bool.and_eq_true, decide_eq_true_eq, beq_iff_eq]
  refine ⟨hlen, ?_⟩
  simp only [GmQuic.Params.parseValue, hdrop, hb]
  have : (decide (cid.length ≤ 20) && (cid ++ tok).length == cid.length + 16) = true := by
    simp; omega
  simp [this]; omega

/-- **Every one of the 2^128 IPv6 values** (and every port) round-trips as an IPv6 socket address and is
written in exactly 2 + 16 bytes — including the values that look like IPv4 (IPv4-mapped `::ffff:a.b.c.d`,
IPv4-compatible, `::`, `::1`): the family is part of the value, never derived from the address bits. -/
theorem dec_enc_sock_addr_every_v6 (ip port : Nat) (rest : Bytes) (hip : ip < 2 ^ 128) (hp : port < 2 ^ 16) :
    pSockAddr true (encSockAddr ⟨true, ip, port⟩ ++ rest) = .ok ⟨true, ip, port⟩ rest ∧
    (encSockAddr ⟨true, ip, port⟩).length = 2 + 16 ∧ sockAddrSize ⟨true, ip, port⟩ = 2 + 16 := by
  refine ⟨pSockAddr_enc ⟨true, ip, port⟩ rest hp (by simpa using hip), ?_, rfl⟩
  rw [encSockAddr_length]; rfl

/-- the IPv4-mapped address `[::ffff:192.0.2.1]:443` of seeded change c05-1 is such a value -/
example : pSockAddr true (encSockAddr ⟨true, 0xffff_c0000201, 443⟩ ++ [7]) = .ok ⟨true, 0xffff_c0000201, 443⟩ [7] ∧
    (encSockAddr ⟨true, 0xffff_c0000201, 443⟩).length = 18 := by decide

/-- and every IPv4 value in 2 + 4 bytes -/
theorem dec_enc_sock_addr_every_v4 (ip port : Nat) (rest : Bytes) (hip : ip < 2 ^ 32) (hp : port < 2 ^ 16) :
    pSockAddr false (encSockAddr ⟨false, ip, port⟩ ++ rest) = .ok ⟨false, ip, port⟩ rest ∧
    (encSockAddr ⟨false, ip, port⟩).length = 2 + 4 := by
  refine ⟨pSockAddr_enc ⟨false, ip, port⟩ rest hp (by simpa using hip), ?_⟩
  rw [encSockAddr_length]; rfl

example : (0xffffffff : Nat) < 2 ^ 32 ∧ (65535 : Nat) < 2 ^ 16 := by decide

end GmQuic.Codec
