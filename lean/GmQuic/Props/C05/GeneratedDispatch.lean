import GmQuic.Props.C05.Generated
import GmQuic.Gen.FrameDispatch
/-!
C05 / T5, fourth part: **`frame_type()` of every frame struct and the `complete_frame` dispatch equal the
hand model.**  `Gen/FrameDispatch.lean` is regenerated on every run by `xlate/gen_framedispatch.py`:
`ftype_<f>` from the bodies of `impl GetFrameType for <Struct>`, `complete` from the `match frame_type`
of `complete_frame` (io.rs: frame type -> parser -> `Frame` variant).  `gen_ftype_<f>_eq` ties
`Frame.type` (which number `put_frame` writes), `gen_complete_eq` ties `decBody` as a whole: a frame
type re-routed to another parser, or a `frame_type()` answering another kind, breaks an equality.
-/
namespace GmQuic.Codec
open GmQuic.Wire GmQuic.Gen GmQuic.Gen.FrameCodec GmQuic.Gen.FrameDispatch

syntax "ftype_eq" "[" Lean.Parser.Tactic.simpLemma,* "]" : tactic
macro_rules
  | `(tactic| ftype_eq [$ls,*]) => `(tactic|
      first
      | rfl
      | (simp only [$ls,*, Frame.type] <;> (repeat' split) <;> simp_all))

theorem gen_ftype_padding_eq  :
    ftype_padding  = Frame.type (Frame.padding) := by
  ftype_eq [ftype_padding]

theorem gen_ftype_ping_eq  :
    ftype_ping  = Frame.type (Frame.ping) := by
  ftype_eq [ftype_ping]

theorem gen_ftype_handshake_done_eq  :
    ftype_handshake_done  = Frame.type (Frame.handshakeDone) := by
  ftype_eq [ftype_handshake_done]

theorem gen_ftype_max_data_eq (n : Nat) :
    ftype_max_data n = Frame.type (Frame.maxData n) := by
  ftype_eq [ftype_max_data]

theorem gen_ftype_data_blocked_eq (n : Nat) :
    ftype_data_blocked n = Frame.type (Frame.dataBlocked n) := by
  ftype_eq [ftype_data_blocked]

theorem gen_ftype_retire_connection_id_eq (n : Nat) :
    ftype_retire_connection_id n = Frame.type (Frame.retireConnectionId n) := by
  ftype_eq [ftype_retire_connection_id]

theorem gen_ftype_reset_stream_eq (sid : Nat) (code : Nat) (fs : Nat) :
    ftype_reset_stream sid code fs = Frame.type (Frame.streamCtl (.resetStream sid code fs)) := by
  ftype_eq [ftype_reset_stream]

theorem gen_ftype_stop_sending_eq (sid : Nat) (code : Nat) :
    ftype_stop_sending sid code = Frame.type (Frame.streamCtl (.stopSending sid code)) := by
  ftype_eq [ftype_stop_sending]

theorem gen_ftype_max_stream_data_eq (sid : Nat) (n : Nat) :
    ftype_max_stream_data sid n = Frame.type (Frame.streamCtl (.maxStreamData sid n)) := by
  ftype_eq [ftype_max_stream_data]

theorem gen_ftype_stream_data_blocked_eq (sid : Nat) (n : Nat) :
    ftype_stream_data_blocked sid n = Frame.type (Frame.streamCtl (.streamDataBlocked sid n)) := by
  ftype_eq [ftype_stream_data_blocked]

theorem gen_ftype_max_streams_eq (uni : Bool) (n : Nat) :
    ftype_max_streams uni n = Frame.type (Frame.streamCtl (.maxStreams uni n)) := by
  ftype_eq [ftype_max_streams]

theorem gen_ftype_streams_blocked_eq (uni : Bool) (n : Nat) :
    ftype_streams_blocked uni n = Frame.type (Frame.streamCtl (.streamsBlocked uni n)) := by
  ftype_eq [ftype_streams_blocked]

theorem gen_ftype_new_connection_id_eq (seq : Nat) (rpt : Nat) (cid : Bytes) (token : Bytes) :
    ftype_new_connection_id seq rpt cid token = Frame.type (Frame.newConnectionId seq rpt cid token) := by
  ftype_eq [ftype_new_connection_id]

theorem gen_ftype_path_challenge_eq (d : Bytes) :
    ftype_path_challenge d = Frame.type (Frame.pathChallenge d) := by
  ftype_eq [ftype_path_challenge]

theorem gen_ftype_path_response_eq (d : Bytes) :
    ftype_path_response d = Frame.type (Frame.pathResponse d) := by
  ftype_eq [ftype_path_response]

theorem gen_ftype_new_token_eq (token : Bytes) :
    ftype_new_token token = Frame.type (Frame.newToken token) := by
  ftype_eq [ftype_new_token]

theorem gen_ftype_remove_address_eq (seq : Nat) :
    ftype_remove_address seq = Frame.type (Frame.removeAddress seq) := by
  ftype_eq [ftype_remove_address]

theorem gen_ftype_punch_hello_eq (a : Nat) (b : Nat) (c : Nat) :
    ftype_punch_hello a b c = Frame.type (Frame.punchHello a b c) := by
  ftype_eq [ftype_punch_hello]

theorem gen_ftype_punch_done_eq (a : Nat) (b : Nat) (c : Nat) :
    ftype_punch_done a b c = Frame.type (Frame.punchDone a b c) := by
  ftype_eq [ftype_punch_done]

theorem gen_ftype_add_address_eq (seq : Nat) (addr : SockAddr) (tire : Nat) (nat : Nat) :
    ftype_add_address seq addr tire nat = Frame.type (Frame.addAddress seq addr tire nat) := by
  ftype_eq [ftype_add_address]

theorem gen_ftype_punch_me_now_eq (l : Nat) (r : Nat) (addr : SockAddr) (tire : Nat) (nat : Nat) :
    ftype_punch_me_now l r addr tire nat = Frame.type (Frame.punchMeNow l r addr tire nat) := by
  ftype_eq [ftype_punch_me_now]

theorem gen_ftype_crypto_eq (off : Nat) (len : Nat) (data : Bytes) :
    ftype_crypto off len = Frame.type (Frame.crypto off len data) := by
  ftype_eq [ftype_crypto]

theorem gen_ftype_datagram_eq (withLen : Bool) (len : Nat) (data : Bytes) :
    ftype_datagram withLen len = Frame.type (Frame.datagram withLen len data) := by
  ftype_eq [ftype_datagram]

theorem gen_ftype_stream_eq (sid : Nat) (off : Nat) (len : Nat) (lenBit : Bool) (fin : Bool) (data : Bytes) :
    ftype_stream sid off len lenBit fin = Frame.type (Frame.stream sid off len lenBit fin data) := by
  ftype_eq [ftype_stream]

theorem gen_ftype_ack_eq (largest : Nat) (delay : Nat) (first : Nat) (ranges : List (Nat × Nat)) (ecn : Option (Nat × Nat × Nat)) :
    ftype_ack largest delay first ranges ecn = Frame.type (Frame.ack largest delay first ranges ecn) := by
  ftype_eq [ftype_ack]

theorem gen_ftype_close_app_eq (code : Nat) (reason : Bytes) :
    ftype_close_app code reason = Frame.type (Frame.closeApp code reason) := by
  ftype_eq [ftype_close_app]

theorem gen_ftype_close_quic_eq (kind : EKind) (fty : ErrFty) (reason : Bytes) :
    ftype_close_quic kind fty reason = Frame.type (Frame.closeQuic kind fty reason) := by
  ftype_eq [ftype_close_quic]

/-- **the dispatch**: for every frame type, the parser `complete_frame` routes it to (generated from
the `match` in io.rs, composed of the generated `dec_*`) is the model's `decBody`. -/
theorem gen_complete_eq (t : FrameType) : complete t = decBody t := by
  cases t with
  | padding => rfl
  | ping => rfl
  | handshakeDone => rfl
  | ack ecn => exact gen_dec_ack_eq ecn
  | resetStream => exact gen_dec_reset_stream_eq
  | stopSending => exact gen_dec_stop_sending_eq
  | crypto => funext bs; exact (gen_dec_crypto_eq bs).symm
  | newToken => exact gen_dec_new_token_eq
  | stream o l f => funext bs; exact (gen_dec_stream_eq o l f bs).symm
  | maxData => exact gen_dec_max_data_eq
  | maxStreamData => exact gen_dec_max_stream_data_eq
  | maxStreams uni => exact gen_dec_max_streams_eq uni
  | dataBlocked => exact gen_dec_data_blocked_eq
  | streamDataBlocked => exact gen_dec_stream_data_blocked_eq
  | streamsBlocked uni => exact gen_dec_streams_blocked_eq uni
  | newConnectionId => exact gen_dec_new_connection_id_eq
  | retireConnectionId => exact gen_dec_retire_connection_id_eq
  | pathChallenge => exact gen_dec_path_challenge_eq
  | pathResponse => exact gen_dec_path_response_eq
  | connectionClose app => cases app; exact gen_dec_close_quic_eq; exact gen_dec_close_app_eq
  | datagram w => funext bs; exact (gen_dec_datagram_eq w bs).symm
  | addAddress v6 => exact gen_dec_add_address_eq v6
  | removeAddress => exact gen_dec_remove_address_eq
  | punchMeNow v6 => exact gen_dec_punch_me_now_eq v6
  | punchHello => exact gen_dec_punch_hello_eq
  | punchDone => exact gen_dec_punch_done_eq

end GmQuic.Codec
