import GmQuic.Model.CloseBounded
import GmQuic.Model.FrameWF
import GmQuic.Lemmas.CodecSize
/-!
C05, CONNECTION_CLOSE into a bounded buffer: when the frame was admitted by size the truncation of the
reason never triggers and the bytes are exactly those of the unbounded writer (so the round-trip and
size theorems apply); the truncation path itself cannot work — a reason that does not fit makes the
writer panic, because the room for the length varint is not taken into account.
-/
namespace GmQuic.Codec
open GmQuic.Wire GmQuic.Gen

def isClose : Frame → Bool
  | .closeApp .. | .closeQuic .. => true
  | _ => false

theorem encBytes_close (f : Frame) (h : isClose f = true) :
    encBytes f = closeHead f ++ (encVarint ((closeReason f).length % 2 ^ 32) ++ closeReason f) := by
  cases f <;> simp [isClose] at h <;> simp [encBytes, encBody, closeHead, closeReason, Frame.type]

/-- **Admitted ⇒ not truncated**: with `remaining_mut() ≥ encoding_size()` (what `frame_packages!`
guarantees) the bounded writer writes exactly `encBytes f`. -/
theorem close_bounded_eq_unbounded (f : Frame) (rem : Nat) (hc : isClose f = true) (hwf : wf f = true)
    (hrem : sizeOf f ≤ rem) : encCloseBounded rem f = .ok () (encBytes f) := by
  have hsz := size_enc_all f hwf
  have hb := encBytes_close f hc
  have hd : dataLen f = 0 := by cases f <;> simp [isClose] at hc <;> rfl
  have hlen : (closeHead f).length + ((encVarint ((closeReason f).length % 2 ^ 32)).length + (closeReason f).length)
      = sizeOf f := by
    rw [← Nat.add_zero (sizeOf f), ← hd, ← hsz, hb]; simp
  simp only [encCloseBounded]
  rw [if_neg (by omega)]
  have hmin : min (closeReason f).length (rem - (closeHead f).length) = (closeReason f).length := by
    apply Nat.min_eq_left; omega
  simp only [hmin, List.take_length]
  rw [if_neg (by omega), hb]

example : isClose (.closeApp 7 [0x68, 0x69]) = true ∧ wf (.closeApp 7 [0x68, 0x69]) = true ∧
    sizeOf (.closeApp 7 [0x68, 0x69]) ≤ 5 := by decide

/-- **The truncation path panics** instead of truncating: a 10-byte reason with exactly 10 bytes of room
after the codes (`len = 10`, then a 1-byte length varint and 10 bytes are written into 10 bytes). -/
theorem close_truncation_panics :
    ∃ f rem, isClose f = true ∧ wf f = true ∧ (∃ s, encCloseBounded rem f = .panic s) := by
  refine ⟨.closeApp 7 (List.replicate 10 0x61), 12, by decide, by decide,
    "BufMut::put_slice: advance out of bounds (length + reason)", ?_⟩
  decide

/-- the statement one would want of the truncation code is false: "whenever type and codes fit, the
writer does not panic" -/
theorem close_truncating_writer_total_fails :
    ¬ (∀ f rem, isClose f = true → wf f = true → (closeHead f).length ≤ rem → ∃ b, encCloseBounded rem f = .ok () b) := by
  intro h
  obtain ⟨b, hb⟩ := h (.closeApp 7 (List.replicate 10 0x61)) 12 (by decide) (by decide) (by decide)
  have : encCloseBounded 12 (.closeApp 7 (List.replicate 10 0x61)) = .panic "BufMut::put_slice: advance out of bounds (length + reason)" := by
    decide
  rw [this] at hb
  cases hb

/-- what the code does guarantee: with one spare byte per length-varint byte beyond the reason… i.e. the
partial statement — no panic whenever the room after the codes is at least `varint(len) + len` for the
truncated length -/
theorem close_bounded_partial (f : Frame) (rem : Nat) (hh : (closeHead f).length ≤ rem)
    (hroom : (encVarint (min (closeReason f).length (rem - (closeHead f).length) % 2 ^ 32)).length
      + min (closeReason f).length (rem - (closeHead f).length) ≤ rem - (closeHead f).length) :
    ∃ b, encCloseBounded rem f = .ok () b := by
  simp only [encCloseBounded]
  rw [if_neg (by omega), if_neg (by omega)]
  exact ⟨_, rfl⟩

example : encCloseBounded 13 (.closeApp 7 (List.replicate 10 0x61)) = .ok () (encBytes (.closeApp 7 (List.replicate 10 0x61))) := by
  decide

end GmQuic.Codec
