import GmQuic.Model.CloseBounded
import GmQuic.Model.FrameWF
import GmQuic.Lemmas.CodecSize
import GmQuic.Lemmas.CloseBounded
/-!
C05, CONNECTION_CLOSE into a bounded buffer: when the frame was admitted by size the truncation of the
reason never triggers and the bytes are exactly those of the unbounded writer (so the round-trip and
size theorems apply); otherwise the reason is truncated: the writer does not panic as long as type, codes and
one more byte (the shortest Reason Phrase Length) fit, and what it writes fits the buffer and is a
CONNECTION_CLOSE with a prefix of the reason (fix-C05-close-truncation; before the fix the room for the length
varint was not taken into account and every truncating call panicked in `BufMut`).
-/
namespace GmQuic.Codec
open GmQuic.Wire GmQuic.Gen

def isClose : Frame → Bool
  | .closeApp .. | .closeQuic .. => true
  | _ => false

theorem encBytes_close (f : Frame) (h : isClose f = true) :
    encBytes f = closeHead f ++ (encVarint ((closeReason f).length % 2 ^ 32) ++ closeReason f) := by
  cases f <;> simp [isClose] at h <;> simp [encBytes, encBody, closeHead, closeReason, Frame.type]

/-- **Admitted ⇒ not truncated**: with `remaining_mut() ≥ encoding_size()` (what `frame_packages!`
guarantees) the bounded writer writes exactly `encBytes f`. -/
theorem close_bounded_eq_unbounded (f : Frame) (rem : Nat) (hc : isClose f = true) (hwf : wf f = true)
    (hrem : sizeOf f ≤ rem) : encCloseBounded rem f = .ok () (encBytes f) := by
  have hsz := size_enc_all f hwf
  have hb := encBytes_close f hc
  have hd : dataLen f = 0 := by cases f <;> simp [isClose] at hc <;> rfl
  have hlen : (closeHead f).length + ((encVarint ((closeReason f).length % 2 ^ 32)).length + (closeReason f).length)
      = sizeOf f := by
    rw [← Nat.add_zero (sizeOf f), ← hd, ← hsz, hb]; simp
  rw [encVarint_length] at hlen
  have hmin : min (closeReason f).length (rem - ((closeHead f).length + varintSize ((closeReason f).length % 2 ^ 32)))
      = (closeReason f).length := by
    apply Nat.min_eq_left; omega
  simp only [encCloseBounded, Nat.sub_sub]
  rw [if_neg (by omega)]
  simp only [hmin, List.take_length, encVarint_length]
  rw [if_neg (by omega), hb]

example : isClose (.closeApp 7 [0x68, 0x69]) = true ∧ wf (.closeApp 7 [0x68, 0x69]) = true ∧
    sizeOf (.closeApp 7 [0x68, 0x69]) ≤ 5 := by decide

/-- **The truncating writer is total**: whenever type, codes and ONE more byte fit (a CONNECTION_CLOSE cannot be
shorter: the Reason Phrase Length field is at least one byte), `put_frame` does not panic, what it writes fits the
buffer, and it is head ++ varint(len) ++ the first `len` bytes of the reason for some `len ≤ reason.len()`.
(`reason.len() < 2^32`: the `as u32` cast; implied by `wf`.) -/
theorem close_truncating_writer_total (f : Frame) (rem : Nat) (hr : (closeReason f).length < 2 ^ 32)
    (hh : (closeHead f).length < rem) :
    ∃ len, len ≤ (closeReason f).length ∧
      encCloseBounded rem f = .ok () (closeHead f ++ (encVarint len ++ (closeReason f).take len)) ∧
      (closeHead f ++ (encVarint len ++ (closeReason f).take len)).length ≤ rem := by
  have hmod : (closeReason f).length % 2 ^ 32 = (closeReason f).length := Nat.mod_eq_of_lt hr
  refine ⟨min (closeReason f).length (rem - (closeHead f).length - varintSize ((closeReason f).length % 2 ^ 32)),
    Nat.min_le_left _ _, ?_, ?_⟩
  all_goals
    generalize hL : min (closeReason f).length
      (rem - (closeHead f).length - varintSize ((closeReason f).length % 2 ^ 32)) = len
    have hle : len ≤ (closeReason f).length := by rw [← hL]; exact Nat.min_le_left _ _
    have hle2 : len ≤ rem - (closeHead f).length - varintSize ((closeReason f).length % 2 ^ 32) := by
      rw [← hL]; exact Nat.min_le_right _ _
    have hlm : len % 2 ^ 32 = len := Nat.mod_eq_of_lt (by omega)
    have hvs : varintSize len ≤ varintSize ((closeReason f).length % 2 ^ 32) := by
      rw [hmod]; exact varintSize_mono hle
    have h1 := (varintSize_le len).1
    have hfit : varintSize len + len ≤ rem - (closeHead f).length := by
      by_cases hc : varintSize ((closeReason f).length % 2 ^ 32) ≤ rem - (closeHead f).length
      · omega
      · have : len = 0 := by omega
        subst this
        have : varintSize 0 = 1 := by decide
        omega
  · simp only [encCloseBounded]
    rw [if_neg (by omega)]
    simp only [hL, hlm, encVarint_length]
    rw [if_neg (by omega)]
  · simp only [List.length_append, encVarint_length, List.length_take]
    have : min len (closeReason f).length = len := Nat.min_eq_left hle
    omega

/-- non-vacuity + the former panic witness (10-byte reason, 12 bytes of room: type, code, then 10 bytes for length +
reason): now 9 bytes of the reason are written; with 3 bytes of room an empty reason. -/
example : encCloseBounded 12 (.closeApp 7 (List.replicate 10 0x61))
    = .ok () (closeHead (.closeApp 7 (List.replicate 10 0x61)) ++ (encVarint 9 ++ List.replicate 9 0x61)) := by decide
example : encCloseBounded 3 (.closeApp 7 (List.replicate 10 0x61))
    = .ok () (closeHead (.closeApp 7 (List.replicate 10 0x61)) ++ encVarint 0) := by decide

/-- the bound is sharp: with room for type and codes only, the length field cannot be written (and `put_frame`
returns `()`, it cannot refuse) -/
theorem close_bounded_needs_length_byte :
    encCloseBounded 2 (.closeApp 7 (List.replicate 10 0x61))
      = .panic "BufMut::put_slice: advance out of bounds (length + reason)" := by decide

/-- what the writer did BEFORE fix-C05-close-truncation (`len = reason.len().min(remaining_mut())`), kept to show what
the fix excludes: the former witness of `close_truncation_panics` / `close_truncating_writer_total_fails`. -/
def encCloseBoundedOld (rem : Nat) (f : Frame) : Res Unit :=
  let head := closeHead f
  if rem < head.length then .panic "BufMut::put_*: advance out of bounds (type / codes)" else
  let r1 := rem - head.length
  let len := min (closeReason f).length r1
  let lenb := encVarint (len % 2 ^ 32)
  if r1 < lenb.length + len then .panic "BufMut::put_slice: advance out of bounds (length + reason)"
  else .ok () (head ++ (lenb ++ (closeReason f).take len))

example : encCloseBoundedOld 12 (.closeApp 7 (List.replicate 10 0x61))
    = .panic "BufMut::put_slice: advance out of bounds (length + reason)" := by decide

example : encCloseBounded 13 (.closeApp 7 (List.replicate 10 0x61)) = .ok () (encBytes (.closeApp 7 (List.replicate 10 0x61))) := by
  decide

end GmQuic.Codec
