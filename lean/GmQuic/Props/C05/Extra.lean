import GmQuic.Props.C05.Frames
/-!
C05, consequences of the round trip: the frame encoding is injective on well-formed values (no two
values share an encoding), and every varint width that can hold a value decodes to it (senders may
use non-minimal widths, RFC 9000 §16; gm-quic's `encode_varint`).
-/
namespace GmQuic.Codec
open GmQuic.Wire GmQuic.Gen

/-- **Injectivity**: two well-formed frames with the same bytes are the same frame. -/
theorem enc_injective (f g : Frame) (hf : wf f = true) (hg : wf g = true) (h : encBytes f = encBytes g) :
    f = g := by
  have h1 := dec_enc_frame f .oneRtt [] hf (one_rtt_admits_all _) (Or.inr rfl)
  have h2 := dec_enc_frame g .oneRtt [] hg (one_rtt_admits_all _) (Or.inr rfl)
  rw [h] at h1
  rw [h1] at h2
  injection h2

example : wf (.maxData 5) = true ∧ wf (.dataBlocked 5) = true ∧ encBytes (.maxData 5) ≠ encBytes (.dataBlocked 5) := by
  decide

/-- **Every width decodes**: `be_varint ∘ encode_varint(v, w) = v` for each width `w ∈ {1,2,4,8}` that
holds `v` (`encode_varint` asserts exactly these bounds). -/
theorem dec_enc_varint_width (w v : Nat) (rest : Bytes)
    (h : (w = 1 ∧ v < 2 ^ 6) ∨ (w = 2 ∧ v < 2 ^ 14) ∨ (w = 4 ∧ v < 2 ^ 30) ∨ (w = 8 ∧ v < 2 ^ 62)) :
    decVarint (encVarintW w v ++ rest) = some (v, rest) := by
  rcases h with ⟨rfl, hv⟩ | ⟨rfl, hv⟩ | ⟨rfl, hv⟩ | ⟨rfl, hv⟩
  · simp only [encVarintW]
    rw [decVarint_beBytes 0 0 v rest (by decide) (by omega) (by omega)]
    simp; omega
  · simp only [encVarintW]
    rw [decVarint_beBytes 1 1 _ rest (by decide) (by omega) (by omega)]
    simp; omega
  · simp only [encVarintW]
    rw [decVarint_beBytes 3 2 _ rest (by decide) (by omega) (by omega)]
    simp; omega
  · simp only [encVarintW]
    rw [decVarint_beBytes 7 3 _ rest (by decide) (by omega) (by omega)]
    simp; omega

example : decVarint (encVarintW 8 1 ++ [9]) = some (1, [9]) := by decide

end GmQuic.Codec
