import GmQuic.Model.Header
import GmQuic.Lemmas.CodecHeader
/-!
C05, packet-type byte and packet headers: `be_packet_type ∘ put_packet_type = id`,
`be_header ∘ put_header = id` for Initial (any token) / 0-RTT / Handshake / Retry / Version Negotiation /
1-RTT with connection ids of 0..20 bytes, exact consumption; declared size = written size.
-/
namespace GmQuic.Codec
open GmQuic.Wire GmQuic.Gen

/-- packet-type byte (+ version for long headers): round trip, exact consumption -/
theorem dec_enc_packet_type (t : PType) (rest : Bytes) : decPType (encPType t ++ rest) = .ok t rest :=
  decPType_enc t rest

/-- `Type::encoding_size` (1 / 5) is what `put_packet_type` writes -/
theorem size_enc_packet_type (t : PType) : (encPType t).length = ptypeSize t := encPType_length t

/-- sample headers, one per kind, cid lengths 0 / 8 / 20 -/
def sampleHeaders : List Header :=
  [.vn [] (List.replicate 20 1) [1, 0xff00ff00, 2 ^ 32 - 1], .vn [9] [] [],
   .retry (List.replicate 8 2) [] [1, 2, 3] (List.replicate 16 7), .retry [] [] [] (List.replicate 16 0),
   .initial (List.replicate 20 3) (List.replicate 20 4) (List.replicate 64 5), .initial [] [] [],
   .zeroRtt [1] [2], .handshake [] (List.replicate 20 6), .oneRtt true (List.replicate 20 8), .oneRtt false []]

theorem wfHeader_nonvacuous : sampleHeaders.all wfHeader = true := by decide

/-- **Header round trip, exact consumption.**  `dcidLen` is the receiver's configured cid length for
short headers (it must be the length that was written — the short header carries no length);
Retry and Version Negotiation extend to the end of the datagram (`rest = []`). -/
theorem dec_enc_header (h : Header) (dcidLen : Nat) (rest : Bytes) (hwf : wfHeader h = true)
    (hlen : ∀ spin d, h = .oneRtt spin d → dcidLen = d.length)
    (hd : h.delimited = true ∨ rest = []) :
    decHeader dcidLen (encHeader h ++ rest) = .ok h rest := by
  have hm : maxCidSize = 20 := rfl
  simp only [decHeader, encHeader, List.append_assoc]
  rw [decPType_enc, HRes.bind_ok]
  cases h with
  | vn d s vs =>
    simp only [wfHeader, Bool.and_eq_true, decide_eq_true_eq, List.all_eq_true] at hwf
    have hr : rest = [] := by simpa [Header.delimited] using hd
    subst hr
    simp only [Header.type, decHeaderBody, List.append_assoc, List.append_nil]
    rw [ofRes_pCid_enc d _ hwf.1.1, HRes.bind_ok, ofRes_pCid_enc s _ hwf.1.2, HRes.bind_ok,
      pVersions_enc vs hwf.2 _ (by rw [versions_length]; omega), HRes.bind_ok]
  | retry d s tok integ =>
    simp only [wfHeader, Bool.and_eq_true, decide_eq_true_eq] at hwf
    have hr : rest = [] := by simpa [Header.delimited] using hd
    subst hr
    simp only [Header.type, decHeaderBody, List.append_assoc, List.append_nil]
    rw [ofRes_pCid_enc d _ hwf.1.1, HRes.bind_ok, ofRes_pCid_enc s _ hwf.1.2, HRes.bind_ok,
      if_neg (by simp; omega)]
    have h16 : (tok ++ integ).length - 16 = tok.length := by simp; omega
    rw [h16, take_append_len _ _ _ rfl, drop_append_len _ _ _ rfl]
  | initial d s tok =>
    simp only [wfHeader, Bool.and_eq_true, decide_eq_true_eq] at hwf
    simp only [Header.type, decHeaderBody, List.append_assoc]
    rw [ofRes_pCid_enc d _ hwf.1.1, HRes.bind_ok, ofRes_pCid_enc s _ hwf.1.2, HRes.bind_ok,
      pVarint_enc _ _ hwf.2]
    simp only [HRes.ofRes, HRes.bind_ok]
    rw [pTakeS_append _ _ _ rfl]
    rfl
  | zeroRtt d s =>
    simp only [wfHeader, Bool.and_eq_true, decide_eq_true_eq] at hwf
    simp only [Header.type, decHeaderBody, List.append_assoc]
    rw [ofRes_pCid_enc d _ hwf.1, HRes.bind_ok, ofRes_pCid_enc s _ hwf.2, HRes.bind_ok]
  | handshake d s =>
    simp only [wfHeader, Bool.and_eq_true, decide_eq_true_eq] at hwf
    simp only [Header.type, decHeaderBody, List.append_assoc]
    rw [ofRes_pCid_enc d _ hwf.1, HRes.bind_ok, ofRes_pCid_enc s _ hwf.2, HRes.bind_ok]
  | oneRtt spin d =>
    simp only [wfHeader, decide_eq_true_eq] at hwf
    have hl := hlen spin d rfl
    subst hl
    simp only [Header.type, decHeaderBody]
    rw [pTakeS_append _ _ _ rfl]
    simp only [HRes.ofRes, HRes.bind_ok]
    rw [if_neg (by omega)]

example : sampleHeaders.all (fun h =>
    match h, decHeader (match h with | .oneRtt _ d => d.length | _ => 8) (encHeader h) with
    | h, .ok h' [] => h == h'
    | _, _ => false) = true := by decide

/-- **Declared size = written size** for the header kinds that implement `EncodeHeader::size`
(Initial with any token, 0-RTT, Handshake, 1-RTT). -/
theorem size_enc_header (h : Header) (n : Nat) (hs : headerSize h = some n) : (encHeader h).length = n := by
  cases h <;> simp only [headerSize, Option.some.injEq, reduceCtorEq] at hs <;> subst hs <;>
    simp [encHeader, Header.type, encPType, encCid, encVarint_length] <;> omega

example : headerSize (.initial (List.replicate 20 3) [] (List.replicate 64 5)) = some 93 := by decide

end GmQuic.Codec
