import GmQuic.Model.Header
import GmQuic.Gen.HdrDec
/-!
C05 / T5, fifth part: **the hand-written packet-header DECODER equals what the Rust source text says.**
`Gen/HdrDec.lean` (`xlate/gen_hdrdec.py`): `hdec_body` is `be_header` with the long-type dispatch of
`LongHeaderBuilder::parse` translated arm by arm (long type -> specific parser -> `Header` variant) and
`be_initial` translated; `be_retry`, `be_version_negotiation`, `be_one_rtt_header`, the cid prefix and
`be_packet_type` / `parse_long_type` are pinned as whole texts.
-/
namespace GmQuic.Codec
open GmQuic.Wire GmQuic.Gen GmQuic.Gen.HdrDec

/-- a successful streaming `take(n)` returns exactly `n` bytes -/
theorem pTakeS_length (n : Nat) (bs d r : Bytes) (h : pTakeS n bs = .ok d r) : d.length = n := by
  unfold pTakeS at h
  split at h
  · cases h
  · cases h; simp [List.length_take]; omega

theorem HRes.bind_assoc {α β γ} (m : HRes α) (f : α → Bytes → HRes β) (g : β → Bytes → HRes γ) :
    (m.bind f).bind g = m.bind fun a r => (f a r).bind g := by cases m <;> rfl
theorem HRes.ok_bind {α β} (a : α) (r : Bytes) (f : α → Bytes → HRes β) : (HRes.ok a r).bind f = f a r := rfl
theorem HRes.err_bind {α β} (e : HErr) (f : α → Bytes → HRes β) : (HRes.err e : HRes α).bind f = .err e := rfl
theorem HRes.ite_bind {α β} (c : Prop) [Decidable c] (a b : HRes α) (f : α → Bytes → HRes β) :
    (if c then a else b).bind f = if c then a.bind f else b.bind f := by split <;> rfl

theorem gen_hdec_body_eq (t : PType) (dcidLen : Nat) (bs : Bytes) :
    hdec_body t dcidLen bs = decHeaderBody t dcidLen bs := by
  cases t with
  | vn => rfl
  | v1 k =>
    cases k <;>
      simp only [hdec_body, decHeaderBody, hspec_initial, HRes.bind_assoc, HRes.ok_bind, HRes.err_bind, HRes.ite_bind]
  | short spin =>
    simp only [hdec_body, decHeaderBody]
    cases h : pTakeS dcidLen bs with
    | ok d r => simp only [HRes.ofRes, HRes.bind, pTakeS_length dcidLen bs d r h]
    | err e => cases e <;> rfl
    | panic s => rfl

end GmQuic.Codec
