import GmQuic.Model.FrameWF
import GmQuic.Lemmas.Codec
import GmQuic.Lemmas.CodecFrames
import GmQuic.Lemmas.CodecSize
/-!
C05, frames: every well-formed frame value decodes back to itself with exact consumption, in every
packet type `belongs_to` admits; the declared size is the written size and never exceeds the
declared maximum; a frame admitted by size fits.
-/
namespace GmQuic.Codec
open GmQuic.Wire GmQuic.Gen

/-- `be_varint ∘ put_varint = id` with exact consumption, for every encodable value. -/
theorem dec_enc_varint (v : Nat) (rest : Bytes) (h : v < 2 ^ 62) :
    decVarint (encVarint v ++ rest) = some (v, rest) := decVarint_encVarint v rest h

example : decVarint (encVarint (2 ^ 62 - 1) ++ [7]) = some (2 ^ 62 - 1, [7]) := by decide

/-- `put_varint` writes `VarInt::encoding_size` bytes, and that is the minimal width: 1, 2, 4, 8
exactly at the thresholds 2^6, 2^14, 2^30. -/
theorem size_enc_varint (v : Nat) : (encVarint v).length = varintSize v := encVarint_length v

theorem varint_minimal_width (v : Nat) (h : v < 2 ^ 62) :
    (varintSize v = 1 ↔ v < 2 ^ 6) ∧ (varintSize v = 2 ↔ 2 ^ 6 ≤ v ∧ v < 2 ^ 14) ∧
    (varintSize v = 4 ↔ 2 ^ 14 ≤ v ∧ v < 2 ^ 30) ∧ (varintSize v = 8 ↔ 2 ^ 30 ≤ v) := by
  unfold varintSize; split <;> (try split) <;> (try split) <;> omega

/-- frame-type number table generated from `frame.rs`: `TryFrom ∘ From = id`. -/
theorem frame_type_roundtrip (t : FrameType) : frameTypeOfNat (natOfFrameType t) = some t :=
  frameType_roundtrip t

/-- `be_frame_type ∘ put_frame_type = id`, exact consumption. -/
theorem dec_enc_frame_type (t : FrameType) (rest : Bytes) : decType (encType t ++ rest) = .ok t rest :=
  decType_enc t rest

/-- every frame type is admitted in 1-RTT packets, so "a permitted packet type" always exists -/
theorem one_rtt_admits_all (t : FrameType) : belongsTo t .oneRtt = true := by
  cases t <;> first | rfl | (rename_i a; cases a <;> rfl)

/-- `ErrorKind` code table generated from `error.rs`: `TryFrom ∘ From = id`. -/
theorem error_kind_roundtrip (k : EKind) (h : wfKind k = true) : errKindOfNat (natOfErrKind k) = some k := by
  cases k with
  | named i => exact errKind_roundtrip_named i (by simpa [wfKind] using h)
  | crypto x => exact errKind_roundtrip_crypto x (by simpa [wfKind] using h)

example : wfKind (.crypto 255) = true := by decide

/-- one well-formed value per frame kind / flag combination (non-vacuity of `wf`, also used below) -/
def sampleFrames : List Frame :=
  [.padding, .ping, .handshakeDone,
   .ack (2 ^ 62 - 1) 64 16383 [(0, 63), (16384, 2 ^ 30)] none, .ack 5 0 5 [] (some (1, 2 ^ 30 - 1, 2 ^ 62 - 1)),
   .closeApp (2 ^ 62 - 1) [0x68, 0x69], .closeQuic (.named 10) (.v1 (.stream true true true)) [0xC3, 0xA9],
   .closeQuic (.crypto 255) (.ext 0x40) [], .closeQuic (.named 0) (.v1 (.punchMeNow true)) [],
   .newToken (List.replicate 64 7), .maxData 0, .dataBlocked 63, .retireConnectionId 64,
   .newConnectionId (2 ^ 62 - 1) (2 ^ 62 - 1) (List.replicate 20 1) (List.replicate 16 2),
   .pathChallenge (List.replicate 8 3), .pathResponse (List.replicate 8 4),
   .streamCtl (.resetStream 3 (2 ^ 30) (2 ^ 62 - 1)), .streamCtl (.stopSending 0 0), .streamCtl (.maxStreamData 4 16384),
   .streamCtl (.maxStreams true (2 ^ 60 - 1)), .streamCtl (.streamDataBlocked 1 1), .streamCtl (.streamsBlocked false (2 ^ 62 - 1)),
   .stream 4 0 3 true true [1, 2, 3], .stream 4 (2 ^ 62 - 4) 3 true false [1, 2, 3], .stream (2 ^ 62 - 1) 7 0 false true [],
   .crypto (2 ^ 61) 3 [1, 2, 3], .crypto 0 0 [], .datagram true 2 [9, 9], .datagram false 1 [9],
   .addAddress 1 ⟨false, 0x7f000001, 443⟩ 2 5, .addAddress (2 ^ 62 - 1) ⟨true, 2 ^ 128 - 1, 65535⟩ 0 0, .removeAddress 7,
   .punchMeNow 1 2 ⟨true, 1, 0⟩ 3 4, .punchHello 1 2 3, .punchDone (2 ^ 62 - 1) 0 64]

/-- `wf` is satisfiable for every kind -/
theorem wf_nonvacuous : sampleFrames.all wf = true := by decide

/-- **Round trip, exact consumption.**  `be_frame(put_frame(f) ++ rest, pt) = Ok((len, f))` for every
well-formed frame, every packet type `belongs_to` admits and every continuation `rest` (frames
without a length field extend to the end of the packet: `rest = []`). -/
theorem dec_enc_frame (f : Frame) (pt : PktType) (rest : Bytes) (hwf : wf f = true)
    (hpt : belongsTo f.type pt = true) (hd : delimited f = true ∨ rest = []) :
    decFrame pt (encBytes f ++ rest) = .ok f rest := by
  simp only [decFrame, encBytes, List.append_assoc]
  rw [decType_enc, Res.bind_ok, hpt, decBody_enc f rest hwf hd]
  rfl

example : sampleFrames.all (fun f => decFrame .oneRtt (encBytes f) == .ok f []) = true := by decide

/-- consumed count = bytes written (`be_frame` returns `input.len() - remain.len()`) -/
theorem consumed_eq_written (f : Frame) (pt : PktType) (rest : Bytes) (hwf : wf f = true)
    (hpt : belongsTo f.type pt = true) (hd : delimited f = true ∨ rest = []) :
    ∃ r, decFrame pt (encBytes f ++ rest) = .ok f r ∧ (encBytes f ++ rest).length - r.length = (encBytes f).length :=
  ⟨rest, dec_enc_frame f pt rest hwf hpt hd, by simp⟩

/-- `put_frame` does not panic on a well-formed frame (CRYPTO's `assert_eq!`) and writes `encBytes`. -/
theorem enc_ok (f : Frame) (hwf : wf f = true) : enc f = .ok () (encBytes f) := by
  cases f <;> simp only [enc, encBytes]
  case crypto off len data =>
    simp only [wf, Bool.and_eq_true, decide_eq_true_eq] at hwf
    simp [hwf.1]

/-- **Declared size = written size** (`encoding_size()`, plus the separately carried data of
STREAM / CRYPTO / DATAGRAM). -/
theorem size_enc_frame (f : Frame) (hwf : wf f = true) : (encBytes f).length = sizeOf f + dataLen f :=
  size_enc_all f hwf

/-- **Declared size ≤ declared maximum.** -/
theorem size_le_max_frame (f : Frame) (hwf : wf f = true) : sizeOf f ≤ maxSizeOf f := size_le_max_all f hwf

/-- **Admitted by size ⇒ fits** (the test of `frame_packages!`: `remaining >= max_encoding_size() ||
remaining >= encoding_size()`; for the three data frames the test covers the header and the callers
size the data with `estimate_max_capacity`, hence `+ dataLen`). -/
theorem admitted_fits (f : Frame) (remaining : Nat) (hwf : wf f = true)
    (hadm : remaining ≥ maxSizeOf f ∨ remaining ≥ sizeOf f) :
    (encBytes f).length ≤ remaining + dataLen f := by
  have h1 := size_enc_frame f hwf
  have h2 := size_le_max_frame f hwf
  omega

example : wf (.newToken (List.replicate 64 7)) = true ∧ 67 ≥ sizeOf (.newToken (List.replicate 64 7)) := by decide

/-! #### the three codecs that were repaired (fix-C05-*.diff): the full statements hold of the fixed code -/

/-- NEW_TOKEN: tokens of 64 bytes and more declare the 2-byte length they write (§7 #18). -/
theorem size_enc_new_token (t : Bytes) (h : t.length < 2 ^ 32) :
    (encBytes (.newToken t)).length = sizeOf (.newToken t) :=
  size_enc_frame (.newToken t) (by simp [wf, h])

example : (encBytes (.newToken (List.replicate 64 7))).length = 67 := by decide

/-- CRYPTO: offsets up to 2^62 − 1 − length round-trip (§7 #19: the parser tested `offset + offset`). -/
theorem dec_enc_crypto (off : Nat) (data rest : Bytes) (pt : PktType) (h : off + data.length ≤ varintMax)
    (hpt : belongsTo .crypto pt = true) :
    decFrame pt (encBytes (.crypto off data.length data) ++ rest) = .ok (.crypto off data.length data) rest :=
  dec_enc_frame _ pt rest (by simp [wf, h]) hpt (Or.inl rfl)

example : decFrame .initial (encBytes (.crypto (2 ^ 61) 1 [5])) = .ok (.crypto (2 ^ 61) 1 [5]) [] := by decide

/-- CONNECTION_CLOSE (transport): every frame-type field value round-trips and is counted with its
real width (§7 #20), including extension numbers unknown to the table. -/
theorem dec_enc_close_quic (k : EKind) (t : ErrFty) (reason rest : Bytes) (pt : PktType)
    (hk : wfKind k = true) (ht : wfFty t = true) (hr : reason.length < 2 ^ 14) (hu : validUtf8 reason = true)
    (hpt : belongsTo (.connectionClose false) pt = true) :
    decFrame pt (encBytes (.closeQuic k t reason) ++ rest) = .ok (.closeQuic k t reason) rest :=
  dec_enc_frame _ pt rest (by simp [wf, hk, ht, hr, hu]) hpt (Or.inl rfl)

example : decFrame .handshake (encBytes (.closeQuic (.named 7) (.ext 0x4000) [0x78]))
    = .ok (.closeQuic (.named 7) (.ext 0x4000) [0x78]) [] := by decide

end GmQuic.Codec
