import GmQuic.Model.FrameWF
import GmQuic.Lemmas.Codec
/-!
C05, frames: every well-formed frame value decodes back to itself with exact consumption, in every
packet type `belongs_to` admits; the declared size is the written size and never exceeds the
declared maximum; a frame admitted by size fits.
-/
namespace GmQuic.Codec
open GmQuic.Wire GmQuic.Gen

/-- `be_varint ∘ put_varint = id` with exact consumption, for every encodable value. -/
theorem dec_enc_varint (v : Nat) (rest : Bytes) (h : v < 2 ^ 62) :
    decVarint (encVarint v ++ rest) = some (v, rest) := decVarint_encVarint v rest h

example : decVarint (encVarint (2 ^ 62 - 1) ++ [7]) = some (2 ^ 62 - 1, [7]) := by decide

/-- `put_varint` writes `VarInt::encoding_size` bytes, and that is the minimal width: 1, 2, 4, 8
exactly at the thresholds 2^6, 2^14, 2^30. -/
theorem size_enc_varint (v : Nat) : (encVarint v).length = varintSize v := encVarint_length v

theorem varint_minimal_width (v : Nat) (h : v < 2 ^ 62) :
    (varintSize v = 1 ↔ v < 2 ^ 6) ∧ (varintSize v = 2 ↔ 2 ^ 6 ≤ v ∧ v < 2 ^ 14) ∧
    (varintSize v = 4 ↔ 2 ^ 14 ≤ v ∧ v < 2 ^ 30) ∧ (varintSize v = 8 ↔ 2 ^ 30 ≤ v) := by
  unfold varintSize; split <;> (try split) <;> (try split) <;> omega

/-- frame-type number table generated from `frame.rs`: `TryFrom ∘ From = id`. -/
theorem frame_type_roundtrip (t : FrameType) : frameTypeOfNat (natOfFrameType t) = some t :=
  frameType_roundtrip t

/-- `be_frame_type ∘ put_frame_type = id`, exact consumption. -/
theorem dec_enc_frame_type (t : FrameType) (rest : Bytes) : decType (encType t ++ rest) = .ok t rest :=
  decType_enc t rest

/-- every frame type is admitted in 1-RTT packets, so "a permitted packet type" always exists -/
theorem one_rtt_admits_all (t : FrameType) : belongsTo t .oneRtt = true := by
  cases t <;> first | rfl | (rename_i a; cases a <;> rfl)

/-- `ErrorKind` code table generated from `error.rs`: `TryFrom ∘ From = id`. -/
theorem error_kind_roundtrip (k : EKind) (h : wfKind k = true) : errKindOfNat (natOfErrKind k) = some k := by
  cases k with
  | named i => exact errKind_roundtrip_named i (by simpa [wfKind] using h)
  | crypto x => exact errKind_roundtrip_crypto x (by simpa [wfKind] using h)

example : wfKind (.crypto 255) = true := by decide

end GmQuic.Codec
