import GmQuic.Lemmas.ConnState
/-! C17, part 1 — `ArcConnState`: for ANY number of racing threads, ANY assignment of entry points and ANY
interleaving of their atomic operations. -/
namespace GmQuic.ConnState

theorem inv_reach {n : Nat} (prog : Fin n → Closer) (sched : List (Fin n)) :
    Inv prog (sched.foldl (stepThread prog) (init n)) := by
  have : ∀ (l : List (Fin n)) (s : State n), Inv prog s → Inv prog (l.foldl (stepThread prog) s) := by
    intro l
    induction l with
    | nil => intro s h; exact h
    | cons a l ih => intro s h; exact ih _ (inv_step prog s a h)
  exact this sched _ (inv_init prog)

/-- DESIGN Appendix A, verbatim shape.  The error cell is written at most once (neither `expect` on
`terminated`, nor the one on `handshaked`, can fire), the state code only moves forward, and once every thread
has returned the error is stored exactly when the connection is closing / draining / closed. -/
theorem terminated_set_once (n : Nat) (prog : Fin n → Closer) (sched : List (Fin n)) :
    let s := sched.foldl (ConnState.stepThread prog) (ConnState.init n)
    s.expectFailed = false ∧ s.stateCodeTrace.Pairwise (· ≤ ·) ∧
    (s.allDone → (s.terminated.isSome ↔ 7 ≤ s.code)) := by
  intro s
  have h := inv_reach prog sched
  refine ⟨h.noFail, h.sorted, ?_⟩
  intro hd
  constructor
  · exact h.termCode
  · intro h7
    rcases h.closed h7 with ht | ⟨i, hi⟩
    · exact ht
    · have := hd i
      revert hi this
      cases (sched.foldl (stepThread prog) (init n)).pcs i <;> cases prog i <;> simp [isSetter, Pc.isDone]

/-- Stronger than the last conjunct above: not only at the end, but at every moment at which no thread stands
between its winning CAS and its `terminated.set`. -/
theorem terminated_iff_unless_setter_midway {n : Nat} (prog : Fin n → Closer) (sched : List (Fin n)) :
    let s := sched.foldl (stepThread prog) (init n)
    (∀ i, isSetter (prog i) (s.pcs i) = false) → (s.terminated.isSome ↔ 7 ≤ s.code) := by
  intro s hq
  have h := inv_reach prog sched
  constructor
  · exact h.termCode
  · intro h7
    rcases h.closed h7 with ht | ⟨i, hi⟩
    · exact ht
    · rw [hq i] at hi; cases hi

/-- A thread that observes the connection closed (`current() ≥ Closing`) while the error is not yet readable is
waiting for exactly ONE identified thread, which needs one more step (so `terminated().await` is not a lost wait). -/
theorem closing_without_error_has_unique_setter {n : Nat} (prog : Fin n → Closer) (sched : List (Fin n)) :
    let s := sched.foldl (stepThread prog) (init n)
    7 ≤ s.code → s.terminated = none →
      ∃ i, isSetter (prog i) (s.pcs i) = true ∧ ∀ j, isSetter (prog j) (s.pcs j) = true → j = i := by
  intro s h7 hn
  have h := inv_reach prog sched
  rcases h.closed h7 with ht | ⟨i, hi⟩
  · rw [show s.sh.terminated = none from hn] at ht; cases ht
  · exact ⟨i, hi, fun j hj => h.uniq j i hj hi⟩

/-- `state_monotone`: every stored code is larger than all earlier ones and the current code is the last one
stored; in particular attempted(1) → handshake confirmed(6) → closing(7) → draining(8) → closed(9) only forward. -/
theorem state_monotone (n : Nat) (prog : Fin n → Closer) (sched : List (Fin n)) (i : Fin n) :
    let s := sched.foldl (stepThread prog) (init n)
    s.code ≤ (stepThread prog s i).code ∧ (∀ x ∈ s.stateCodeTrace, x ≤ s.code) := by
  intro s
  have h := inv_reach prog sched
  have h' := inv_reach prog (sched ++ [i])
  simp only [List.foldl_append, List.foldl_cons, List.foldl_nil] at h'
  refine ⟨?_, h.bounded⟩
  show s.sh.code ≤ (stepThread prog s i).sh.code
  have hl := h.loadedLe i
  cases hp : prog i <;> cases hpc : s.pcs i <;>
    simp only [stepThread, stepPc, hp, hpc, afterWin, newCode, push] <;> grind

/-- The handshake cell is written only after the code reached 6 and the error cell only after it reached 7. -/
theorem cells_follow_code (n : Nat) (prog : Fin n → Closer) (sched : List (Fin n)) :
    let s := sched.foldl (stepThread prog) (init n)
    (s.handshaked = true → 6 ≤ s.code) ∧ (s.terminated.isSome → 7 ≤ s.code) := by
  intro s
  exact ⟨(inv_reach prog sched).hsCode, (inv_reach prog sched).termCode⟩

/-! ### Non-vacuity and necessity of the modelling decisions -/

/-- racing `enter_closing` (app close), `enter_draining` (peer CONNECTION_CLOSE), a second closer and the
`Terminated` event; the schedule lets thread 1 win 0→8 first, thread 0 loads 0 early and loses its CAS. -/
def demoProg : Fin 4 → Closer := fun i =>
  match i.val with | 0 => .closing 11 | 1 => .draining 22 | 2 => .closing 33 | _ => .terminate
def demoSched : List (Fin 4) := [0, 1, 1, 3, 0, 3, 3, 2, 2, 1, 0]

example :
    let s := demoSched.foldl (stepThread demoProg) (init 4)
    s.allDone ∧ s.code = 9 ∧ s.terminated = some 22 ∧ s.stateCodeTrace = [8, 9] ∧ s.expectFailed = false := by
  refine ⟨?_, by decide, by decide, by decide, by decide⟩
  intro i
  revert i
  decide

/-- Why `terminate` is modelled as enabled only after the code reached 7 (causality of the `Terminated` event):
a free-standing `update(Closed)` on a live connection would close it WITHOUT any stored error, and
`terminated().await` would then never complete.  (Not reachable through `ArcEventBroker`; kept as a statement of
what the third conjunct of `terminated_set_once` depends on.) -/
theorem update_closed_alone_would_leave_no_error :
    let sh := (runPc .terminate 4 {} (.loaded 0)).1
    sh.code = 9 ∧ sh.terminated = none := by decide

/-- Why the CAS loop matters: if `update` were `load; store` (no compare-exchange), two racing closers both
"win" and the second `terminated.set(..).expect(..)` panics.  `storeStep` is that mutant. -/
def storeUpdateWouldPanic : Bool :=
  -- thread A: load 0; thread B: load 0; A: store 7 (won); B: store 8 with old=0 ≠ 7 (won); A: set; B: set ⇒ expect fails
  let sh : Shared := {}
  let a1 := stepPc (.closing 1) sh .start
  let b1 := stepPc (.draining 2) a1.1 .start
  -- mutant CAS: ignores the comparison `sh.code = old`
  let a2 : Shared × Pc := (push b1.1 7, afterWin (.closing 1) 0)
  let b2 : Shared × Pc := (push a2.1 8, afterWin (.draining 2) 0)
  let a3 := stepPc (.closing 1) b2.1 a2.2
  let b3 := stepPc (.draining 2) a3.1 b2.2
  b3.1.expectFailed

theorem store_instead_of_cas_panics : storeUpdateWouldPanic = true := by decide

end GmQuic.ConnState
