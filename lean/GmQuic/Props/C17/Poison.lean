import GmQuic.Lemmas.Poison
/-! C17, part 2 — the poison graph: for ALL operation histories (any mix of stream creation, parked operations,
parameter arrival, the three `on_conn_error` calls in any order / repeated / with anything in between, late ops).
`g0 r` is the start state of the FIXED code (`fixedSid = true`); `g0u r` the code as found. -/
namespace GmQuic.Poison

def g0 (ready : Bool) : G := { fixedSid := true, ready := ready }
def g0u (ready : Bool) : G := { fixedSid := false, ready := ready }

theorem inv_run (g : G) (ops : List Op) (h : Inv g) : Inv (run g ops) := by
  induction ops generalizing g with
  | nil => exact h
  | cons o ops ih => exact ih _ (inv_step g o h)

theorem inv_g0 (fx r : Bool) : Inv { fixedSid := fx, ready := r } := by
  constructor <;> simp

/-! ### pending_released -/

/-- `DataStreams::on_conn_error` (fixed code): the set of wakers it wakes is EXACTLY the set of waiters parked at
any stream wait point — writable / flush / shutdown of every sender, read of every receiver, accept_bi, accept_uni,
open_bi / open_uni blocked on the stream limit — and none stays parked. -/
theorem pending_released (r : Bool) (ops : List Op) (e : Nat) :
    let g := run (g0 r) ops
    g.ds = none →
      (step g (.errDs e)).2.woken = parkedDs g ∧ parkedDs (step g (.errDs e)).1 = [] := by
  intro g hds
  have hi : Inv g := inv_run _ ops (inv_g0 true r)
  have hfx : g.fixedSid = true := by
    have : ∀ (ops : List Op) (g : G), g.fixedSid = true → (run g ops).fixedSid = true := by
      intro ops
      induction ops with
      | nil => intro g h; exact h
      | cons o ops ih =>
        intro g h
        apply ih
        cases o <;> simp only [step, sndOp, readOp, errDs] <;> (repeat' split) <;> simp_all
    exact this ops _ rfl
  have hi' := inv_step g (.errDs e) hi
  constructor
  · simp only [step, errDs, hds, Option.isSome_none, Bool.false_eq_true, if_false, hfx, if_true]
    rw [poisonSnds_woken e _ 0 hi.sndFlags, poisonRcvs_woken e _ 0 hi.rcvFlags]
    simp [parkedDs, List.append_assoc]
  · have hsome : (step g (.errDs e)).1.ds.isSome = true := by
      simp [step, errDs, hds]
    have h1 := hi'.dsLis hsome
    have hfx' : (step g (.errDs e)).1.fixedSid = true := by simp [step, errDs, hds, hfx]
    have h2 := hi'.dsSid hsome hfx'
    have h3 : sndLabs 0 (step g (.errDs e)).1.snds = [] := by
      apply sndLabs_nil_of
      intro s hs
      have hl := hi'.sndFlags s hs
      have hp := hi'.dsSnd hsome s hs
      unfold SndOk at hl
      cases h1 : s.wW <;> cases h2 : s.wF <;> cases h3 : s.wS <;> simp_all
    have h4 : rcvLabs 0 (step g (.errDs e)).1.rcvs = [] := by
      apply rcvLabs_nil_of
      intro s hs
      have hl := hi'.rcvFlags s hs
      have hp := hi'.dsRcv hsome s hs
      unfold RcvOk at hl
      cases h1 : s.wR <;> simp_all
    simp [parkedDs, h3, h4, h1.1, h1.2, h2.1, h2.2, flag]

example : (step (run (g0 true) [.mkSnd .sending true, .write 0, .flush 0, .mkRcv .recv, .read 0, .acceptBi, .exhaust, .openUni])
    (.errDs 5)).2.woken = [.w 0, .f 0, .r 0, .ab, .ou] := by decide

/-- The code AS FOUND: a stream `open` blocked on the peer's stream limit stays parked for ever. -/
theorem pending_released_fails :
    ¬ (∀ (r : Bool) (ops : List Op) (e : Nat),
        let g := run (g0u r) ops
        g.ds = none →
          (step g (.errDs e)).2.woken = parkedDs g ∧ parkedDs (step g (.errDs e)).1 = []) := by
  intro h
  have := h true [.exhaust, .openBi] 1 (by decide)
  revert this
  decide

/-- … and that is the only wait point the code as found misses. -/
theorem pending_released_partial (r : Bool) (ops : List Op) (e : Nat) :
    let g := run (g0u r) ops
    g.ds = none → g.sidOb = false → g.sidOu = false →
      (step g (.errDs e)).2.woken = parkedDs g ∧ parkedDs (step g (.errDs e)).1 = [] := by
  intro g hds hb hu
  have hi : Inv g := inv_run _ ops (inv_g0 false r)
  have hi' := inv_step g (.errDs e) hi
  have hsome : (step g (.errDs e)).1.ds.isSome = true := by simp [step, errDs, hds]
  constructor
  · simp only [step, errDs, hds, Option.isSome_none, Bool.false_eq_true, if_false]
    rw [poisonSnds_woken e _ 0 hi.sndFlags, poisonRcvs_woken e _ 0 hi.rcvFlags]
    simp [parkedDs, hb, hu, flag]
  · have h1 := hi'.dsLis hsome
    have h3 : sndLabs 0 (step g (.errDs e)).1.snds = [] := by
      apply sndLabs_nil_of
      intro s hs
      have hl := hi'.sndFlags s hs
      have hp := hi'.dsSnd hsome s hs
      unfold SndOk at hl
      cases h1 : s.wW <;> cases h2 : s.wF <;> cases h3 : s.wS <;> simp_all
    have h4 : rcvLabs 0 (step g (.errDs e)).1.rcvs = [] := by
      apply rcvLabs_nil_of
      intro s hs
      have hl := hi'.rcvFlags s hs
      have hp := hi'.dsRcv hsome s hs
      unfold RcvOk at hl
      cases h1 : s.wR <;> simp_all
    have h5 : (step g (.errDs e)).1.sidOb = false ∧ (step g (.errDs e)).1.sidOu = false := by
      simp [step, errDs, hds, hb, hu]
    simp [parkedDs, h3, h4, h1.1, h1.2, h5.1, h5.2, flag]

example : let g := run (g0u true) [.mkSnd .ready true, .write 0, .acceptUni]
    g.ds = none ∧ g.sidOb = false ∧ g.sidOu = false ∧ (step g (.errDs 1)).2.woken = [.w 0, .au] := by decide

/-- `ArcParameters::on_conn_error` (wakers woken by `Drop`) and `DatagramFlow::on_conn_error`, from ANY state. -/
theorem pending_released_params_datagram (g : G) (e : Nat) :
    (g.pr = none → (step g (.errPr e)).2.woken = parkedPr g ∧ parkedPr (step g (.errPr e)).1 = []) ∧
    (g.dg = none → (step g (.errDg e)).2.woken = parkedDg g ∧ parkedDg (step g (.errDg e)).1 = []) := by
  constructor <;> intro h <;> simp [step, h, parkedPr, parkedDg, flag]

/-- every `Pending` answer registers its waiter at a wait point covered by the theorems above: the listener,
the stream-id allocator, `Parameters.wakers`, the datagram reader … -/
theorem pending_is_parked (g : G) (op : Op) (h : (step g op).2.res = .pending)
    (hs : ∀ i, op ≠ .write i ∧ op ≠ .flush i ∧ op ≠ .shutdown i ∧ op ≠ .read i) :
    parkedDs (step g op).1 ++ parkedPr (step g op).1 ++ parkedDg (step g op).1 ≠ [] := by
  cases op with
  | write i => exact absurd rfl (hs i).1
  | flush i => exact absurd rfl (hs i).2.1
  | shutdown i => exact absurd rfl (hs i).2.2.1
  | read i => exact absurd rfl (hs i).2.2.2
  | _ =>
    revert h
    simp only [step, errDs]
    repeat' split
    all_goals simp_all [parkedDs, parkedPr, parkedDg, flag]

/-- … or the waker slot of the stream half it was called on. -/
theorem pending_is_parked_stream (g : G) (i : Nat) :
    ((step g (.write i)).2.res = .pending → ∃ s, (step g (.write i)).1.snds[i]? = some s ∧ s.wW = true ∧ s.poison = none) ∧
    ((step g (.flush i)).2.res = .pending → ∃ s, (step g (.flush i)).1.snds[i]? = some s ∧ s.wF = true ∧ s.poison = none) ∧
    ((step g (.shutdown i)).2.res = .pending → ∃ s, (step g (.shutdown i)).1.snds[i]? = some s ∧ s.wS = true ∧ s.poison = none) ∧
    ((step g (.read i)).2.res = .pending → ∃ x, (step g (.read i)).1.rcvs[i]? = some x ∧ x.wR = true ∧ x.poison = none) := by
  refine ⟨?_, ?_, ?_, ?_⟩ <;> intro h <;> revert h <;> simp only [step, sndOp, readOp] <;>
    (repeat' split) <;> simp_all [setAt, List.getElem?_set] <;>
    (refine ⟨_, ⟨?_, rfl⟩, by simp_all⟩; first | exact (List.getElem?_eq_some_iff.mp ‹g.snds[i]? = some _›).1 | exact (List.getElem?_eq_some_iff.mp ‹g.rcvs[i]? = some _›).1)

example : (step (run (g0 true) [.mkSnd .ready true]) (.write 0)).2.res = .pending := by decide

/-! ### error_is_first -/

theorem ds_sticky (g : G) (op : Op) (e : Nat) (h : g.ds = some e) : (step g op).1.ds = some e := by
  cases op <;> simp only [step, sndOp, readOp, errDs] <;> (repeat' split) <;> simp_all

theorem dg_sticky (g : G) (op : Op) (e : Nat) (h : g.dg = some e) : (step g op).1.dg = some e := by
  cases op <;> simp only [step, sndOp, readOp, errDs] <;> (repeat' split) <;> simp_all

theorem pr_sticky (g : G) (op : Op) (e : Nat) (h : g.pr = some e) : (step g op).1.pr = some e := by
  cases op <;> simp only [step, sndOp, readOp, errDs] <;> (repeat' split) <;> simp_all

theorem ds_sticky_run (ops : List Op) (g : G) (e : Nat) (h : g.ds = some e) : (run g ops).ds = some e := by
  induction ops generalizing g with
  | nil => exact h
  | cons o ops ih => exact ih _ (ds_sticky g o e h)

/-- The first `DataStreams::on_conn_error` fixes the error: whatever follows (including further connection
errors), the tables keep it, and every poisoned sender / receiver cell holds exactly it. -/
theorem error_is_first (fx r : Bool) (pre post : List Op) (e : Nat)
    (hpre : (run { fixedSid := fx, ready := r } pre).ds = none) :
    let g := run { fixedSid := fx, ready := r } (pre ++ .errDs e :: post)
    g.ds = some e ∧ (∀ s ∈ g.snds, ∀ e', s.poison = some e' → e' = e) ∧
      (∀ x ∈ g.rcvs, ∀ e', x.poison = some e' → e' = e) := by
  intro g
  have hg : g.ds = some e := by
    simp only [g, run, List.foldl_append, List.foldl_cons]
    apply ds_sticky_run
    have : (step (run { fixedSid := fx, ready := r } pre) (.errDs e)).1.ds = some e := by
      simp [step, errDs, hpre]
    exact this
  have hi : Inv g := inv_run _ _ (inv_g0 fx r)
  refine ⟨hg, ?_, ?_⟩
  · intro s hs e' he
    have := hi.sndPoison s hs e' he
    rw [hg] at this; exact (Option.some.inj this).symm
  · intro s hs e' he
    have := hi.rcvPoison s hs e' he
    rw [hg] at this; exact (Option.some.inj this).symm

example : (run (g0 true) ([.mkSnd .ready true] ++ .errDs 3 :: [.errDs 4, .errDg 4, .write 0])).ds = some 3 := by decide

/-! ### after_error_all_ops_fail -/

def SSt.liveP (s : SSt) : Prop := s.live = true

/-- After `DataStreams::on_conn_error e` — for every history before and after — every stream operation completes
at once: with the connection error `e` for `accept_*`, `open_*` and for every stream half that was not already
in a terminal state; a half that had reached a terminal state (`DataRcvd` = everything acknowledged, `ResetSent`,
`ResetRcvd`; `DataRcvd` = everything received, `DataRead`, `ResetRcvd`, `ResetRead`) keeps answering with its own
final result — never `Pending`. -/
theorem after_error_all_ops_fail (fx r : Bool) (ops : List Op) (e : Nat) :
    let g := run { fixedSid := fx, ready := r } ops
    g.ds = some e →
      (step g .acceptBi).2.res = .err e ∧ (step g .acceptUni).2.res = .err e ∧
      (step g .openBi).2.res = .err e ∧ (step g .openUni).2.res = .err e ∧
      (∀ i s, g.snds[i]? = some s →
        (s.st.live = true → (step g (.write i)).2.res = .err e ∧ (step g (.flush i)).2.res = .err e ∧
            (step g (.shutdown i)).2.res = .err e) ∧
        (step g (.write i)).2.res ≠ .pending ∧ (step g (.flush i)).2.res ≠ .pending ∧
        (step g (.shutdown i)).2.res ≠ .pending ∧ (step g (.write i)).2.res ≠ .ok) ∧
      (∀ i x, g.rcvs[i]? = some x →
        (x.st.live = true → (step g (.read i)).2.res = .err e) ∧ (step g (.read i)).2.res ≠ .pending) := by
  intro g hds
  have hi : Inv g := inv_run _ ops (inv_g0 fx r)
  have hsome : g.ds.isSome = true := by simp [hds]
  refine ⟨by simp [step, hds], by simp [step, hds], by simp [step, hds], by simp [step, hds], ?_, ?_⟩
  · intro i s hs
    have hm := mem_of_get? _ _ _ hs
    have hp := hi.dsSnd hsome s hm
    have hpe := hi.sndPoison s hm
    cases hpo : s.poison with
    | some e' =>
      have : e' = e := by have := hpe e' hpo; rw [hds] at this; exact (Option.some.inj this).symm
      subst this
      simp [step, sndOp, hs, hpo]
    | none =>
      have hnl : s.st.live = false := by
        cases hl : s.st.live with
        | false => rfl
        | true => have := hp hl; simp [hpo] at this
      simp only [step, sndOp, hs, hpo, hnl]
      cases hst : s.st <;> simp_all [SSt.live]
  · intro i x hx
    have hm := mem_of_get? _ _ _ hx
    have hp := hi.dsRcv hsome x hm
    have hpe := hi.rcvPoison x hm
    cases hpo : x.poison with
    | some e' =>
      have : e' = e := by have := hpe e' hpo; rw [hds] at this; exact (Option.some.inj this).symm
      subst this
      simp [step, readOp, hx, hpo]
    | none =>
      have hnl : x.st.live = false := by
        cases hl : x.st.live with
        | false => rfl
        | true => have := hp hl; simp [hpo] at this
      simp only [step, readOp, hx, hpo, hnl]
      cases hst : x.st <;> simp_all [RSt.live]

example : let g := run (g0 true) [.mkSnd .sending true, .mkRcv .recv, .errDs 9]
    g.ds = some 9 ∧ (step g (.write 0)).2.res = .err 9 ∧ (step g (.read 0)).2.res = .err 9 := by decide

/-- datagram and parameter operations after their `on_conn_error`, from ANY state -/
theorem after_error_datagram_params_fail (g : G) (e : Nat) :
    (g.dg = some e → (step g .dgRecv).2.res = .err e ∧ (step g .dgSend).2.res = .err e ∧
        (step g .dgIn).2.res = .err e ∧ (step g .dgNew).2.res = .two (some e) (some e)) ∧
    (g.pr = some e → (step g .ready).2.res = .err e ∧
        (g.ds = none → (step g .openBi).2.res = .err e ∧ (step g .openUni).2.res = .err e ∧
          (step g .acceptBi).2.res = .err e)) := by
  constructor <;> intro h <;> simp [step, h] <;> intro h' <;> simp [h']

/-! ### no_data_after_close -/

/-- Once the stream tables and the datagram flow are poisoned nothing more is accepted from the application, and
nothing more is handed to it — with ONE exception that the code makes on purpose: a stream whose data had been
received completely before the error (`DataRcvd`) can still be read out. -/
theorem no_data_after_close (fx r : Bool) (ops : List Op) (e e' : Nat) (op : Op) :
    let g := run { fixedSid := fx, ready := r } ops
    g.ds = some e → g.dg = some e' →
      (step g op).1.accepted = g.accepted ∧
      ((step g op).1.delivered = g.delivered ∨
        ∃ i x, op = .read i ∧ g.rcvs[i]? = some x ∧ x.st = .dataRcvd ∧ x.poison = none) := by
  intro g hds hdg
  have hi : Inv g := inv_run _ ops (inv_g0 fx r)
  have hsome : g.ds.isSome = true := by simp [hds]
  cases op with
  | write i =>
    simp only [step, sndOp]
    split
    · simp
    · rename_i s hs
      have hm := mem_of_get? _ _ _ hs
      have hp := hi.dsSnd hsome s hm
      split
      · simp
      · rename_i hpo
        cases hst : s.st <;> simp_all [SSt.live]
  | flush i =>
    simp only [step, sndOp]
    split
    · simp
    · rename_i s hs
      split
      · simp
      · cases hst : s.st <;> simp_all
  | shutdown i =>
    simp only [step, sndOp]
    split
    · simp
    · rename_i s hs
      split
      · simp
      · cases hst : s.st <;> simp_all
  | read i =>
    simp only [step, readOp]
    split
    · simp
    · rename_i x hx
      split
      · simp
      · rename_i hpo
        cases hst : x.st <;> simp_all
  | _ => simp only [step, errDs] <;> (repeat' split) <;> simp_all

example : let g := run (g0 true) [.mkSnd .ready false, .write 0, .dgSend, .errDs 1, .errDg 1, .write 0, .dgSend]
    g.accepted = 2 := by decide

/-- the exception is real (and bounded: one read empties the stream) -/
example : let g := run (g0 true) [.mkRcv .dataRcvd, .errDs 1, .errDg 1]
    (step g (.read 0)).2.res = .data ∧ (step (step g (.read 0)).1 (.read 0)).2.res = .eof := by decide

end GmQuic.Poison
