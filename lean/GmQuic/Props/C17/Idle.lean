import GmQuic.Lemmas.Idle
/-! C17, part 2 — `IdleTimer` / `IdleConfig` (qbase/src/time.rs).

History-level theorems: the timer starts as `{ cfg := c }` (no heartbeat, `last_effective_comm = None`,
`idle_begin_at = None`) and runs ANY list of ops; `negotiate` ops may occur anywhere (also in the middle): they
never change `defer`, and a timeout compares `idle_begin_at` with the `max_idle_timeout` in force at the moment
of the poll, so every statement below is about the cfg of the state on which the final `health` is called.

Vocabulary (GmQuic/Lemmas/Idle.lean): `Mono k ops` = the op times are non-decreasing and ≥ `k`;
`Op.effTime` = the time of an effective RECEIVED packet; `restart ops` = the RFC 9000 §10.1 bookkeeping of a
history (time of the last restart of the idle period; "an effective packet was sent since the last receive"): an
effective receive restarts, an effective send restarts only if it is the FIRST since the last received packet
(fixed code, repo_patches/fix-C17-idle-restart-on-send.diff); `lastEff ops` = time of the last restart
(characterised by `lastEff_snoc`, `lastEff_eq_none_iff`, `lastEff_mem`).  `stepOld`/`runOld` = the code as found. -/
namespace GmQuic.Idle

/-! ## 0. the timer's `last_effective_comm` is the last effective op of the history -/

theorem lastComm_is_lastEff (c : Cfg) (ops : List Op) : (run { cfg := c } ops).lastComm = lastEff ops :=
  run_init_lastComm c ops

/-! ## 1. never an idle timeout before `max_idle_timeout` of silence -/

/-- Strong form, over the individual ops of the history (only `ops` needs monotone times; the poll time `t` is
unconstrained).  If `health t` reports `.timeout` then idle timeout is enabled, some effective packet was sent or
received, and
* every RECEIVED packet (effective or not) is older than `maxIdle`,
* every effective RECEIVED packet, and the last restart event `lastEff ops` (an effective receive, or the first
  effective send after the last received packet), is older than `defer + maxIdle`
(non-effective sent packets, and effective sends that are not the first since the last receive, do not count). -/
theorem idle_not_before_ops (c : Cfg) (ops : List Op) (t : Nat) (hm : Mono 0 ops)
    (h : (step (run { cfg := c } ops) (.health t)).2 = .timeout) :
    let tm := run { cfg := c } ops
    tm.cfg.maxIdle ≠ 0 ∧ tm.cfg.defer = c.defer ∧
    (∃ c0, lastEff ops = some c0 ∧ c0 + tm.cfg.defer + tm.cfg.maxIdle < t) ∧
    (∀ e x, Op.rcvd e x ∈ ops → x + tm.cfg.maxIdle < t) ∧
    (∀ op ∈ ops, ∀ x, op.effTime = some x → x + tm.cfg.defer + tm.cfg.maxIdle < t) := by
  intro tm
  obtain ⟨k, g⟩ := good_reach c hm
  obtain ⟨h0, b, hb, hlt⟩ := health_timeout (tm := tm) h
  obtain ⟨_, ⟨c0, hc0, hcb⟩, hr⟩ := g.idle b hb
  refine ⟨h0, g.defer_eq, ⟨c0, ?_⟩, ?_, ?_⟩
  · refine ⟨by rw [← lastComm_is_lastEff c ops]; exact hc0, ?_⟩
    have hd : tm.cfg.defer = c.defer := g.defer_eq
    omega
  · intro e x hx
    have := hr e x hx
    omega
  · intro op ho x hx
    obtain ⟨c1, hc1, hle⟩ := g.eff_le op ho x hx
    have hd : tm.cfg.defer = c.defer := g.defer_eq
    have : c1 = c0 := by
      have := hc1.symm.trans hc0
      cases this; rfl
    omega

example :
    Mono 0 [.sent true 1, .negotiate 7, .rcvd false 2, .health 4, .rcvd false 5] ∧
    (step (run { cfg := Cfg.new 10 2 } [.sent true 1, .negotiate 7, .rcvd false 2, .health 4, .rcvd false 5])
      (.health 13)).2 = .timeout := by decide

/-- Headline.  A `.timeout` observation at `t` means: idle timeout is enabled and the last effective
communication `c0` is older than `defer + maxIdle`. -/
theorem idle_not_before (c : Cfg) (ops : List Op) (t : Nat) (hm : Mono 0 (ops ++ [.health t]))
    (h : (step (run { cfg := c } ops) (.health t)).2 = .timeout) :
    (run { cfg := c } ops).cfg.maxIdle ≠ 0 ∧
    ∃ c0, lastEff ops = some c0 ∧
      c0 + (run { cfg := c } ops).cfg.defer + (run { cfg := c } ops).cfg.maxIdle < t := by
  obtain ⟨h0, _, ⟨c0, hc0, hlt⟩, _, _⟩ := idle_not_before_ops c ops t (mono_append_left hm) h
  exact ⟨h0, c0, hc0, hlt⟩

example :
    Mono 0 ([.sent true 1, .health 4] ++ [.health 15]) ∧
    (step (run { cfg := Cfg.new 10 2 } [.sent true 1, .health 4]) (.health 15)).2 = .timeout := by decide

/-- `Mono` is needed: with a clock running backwards the bound fails (idle begins at 4, a stale non-effective
receive moves it back to 0). -/
example :
    (step (run { cfg := Cfg.new 10 2 } [.sent true 1, .health 4, .rcvd false 0]) (.health 11)).2 = .timeout ∧
    ¬ (1 + 2 + 10 < 11) := by decide

/-! ## 2. quirk: without any effective traffic the path never idles out -/

theorem idle_never_without_traffic (c : Cfg) (ops : List Op) (t : Nat) (hn : lastEff ops = none) :
    (step (run { cfg := c } ops) (.health t)).2 ≠ .timeout := by
  intro h
  obtain ⟨_, b, hb, _⟩ := health_timeout (tm := run { cfg := c } ops) h
  have hi : IdleHasComm (run { cfg := c } ops) := run_idleHasComm ops _ (by simp [IdleHasComm])
  have := hi (by rw [hb]; rfl)
  rw [lastComm_is_lastEff, hn] at this
  cases this

example : lastEff [.sent false 1, .rcvd false 2, .negotiate 3, .health 1000] = none := by decide

/-! ## 3. `max_idle_timeout = 0` disables the idle timeout -/

theorem idle_disabled_state (tm : Timer) (t : Nat) (h0 : tm.cfg.maxIdle = 0) : (health tm t).2 ≠ .timeout :=
  fun h => (health_timeout h).1 h0

theorem idle_disabled (c : Cfg) (ops : List Op) (t : Nat) (h0 : (run { cfg := c } ops).cfg.maxIdle = 0) :
    (step (run { cfg := c } ops) (.health t)).2 ≠ .timeout :=
  idle_disabled_state _ t h0

example : (run { cfg := Cfg.new 0 2 } [.sent true 1, .negotiate 0, .health 4]).cfg.maxIdle = 0 := by decide

/-! ## 4. liveness: two polls suffice -/

/-- From ANY timer state with some effective communication `c0` and idle timeout enabled: a poll at `t1` later
than `c0 + defer` followed (no op in between) by a poll at `t2` later than `t1 + maxIdle` reports `.timeout` at
the second poll at the latest. -/
theorem idle_eventually (tm : Timer) (c0 t1 t2 : Nat) (hc : tm.lastComm = some c0) (h0 : tm.cfg.maxIdle ≠ 0)
    (h1 : c0 + tm.cfg.defer < t1) (h2 : t1 + tm.cfg.maxIdle < t2) (hb : ∀ b, tm.idleBegin = some b → b ≤ t1) :
    (health tm t1).2 = .timeout ∨ (health (health tm t1).1 t2).2 = .timeout := by
  have e1 : t1 - c0 > tm.cfg.defer := by omega
  have e2 : t2 - c0 > tm.cfg.defer := by omega
  cases hi : tm.idleBegin with
  | none =>
    right
    have : t2 - t1 > tm.cfg.maxIdle := by omega
    simp [health, hc, e1, e2, hi, timeoutCheck, h0, this]
  | some b =>
    have hbt := hb b hi
    have : t2 - b > tm.cfg.maxIdle := by omega
    by_cases hx : t1 - b > tm.cfg.maxIdle
    · left; simp [health, hc, e1, hi, timeoutCheck, h0, hx]
    · right; simp [health, hc, e1, e2, hi, timeoutCheck, h0, hx, this]

example :
    let tm : Timer := { cfg := Cfg.new 10 2, lastComm := some 1 }
    tm.lastComm = some 1 ∧ tm.cfg.maxIdle ≠ 0 ∧ 1 + tm.cfg.defer < 4 ∧ 4 + tm.cfg.maxIdle < 15 ∧
    (∀ b, tm.idleBegin = some b → b ≤ 4) ∧ (health tm 4).2 = .ping ∧ (health (health tm 4).1 15).2 = .timeout := by
  decide

/-! ## 4b. liveness while SENDING: a silent peer is noticed whatever the endpoint itself sends -/

/-- **Full-strength clause (fixed code).**  From ANY timer state in which an effective packet has already been
sent since the last receive (`sentSinceRcvd`; the restart it caused was at `c0`), with idle timeout enabled: over
ANY send-only tail — any number of effective or non-effective sends and polls, nothing received — a poll at `t1`
later than `c0 + defer`, then anything the endpoint sends, then a poll at `t2` later than `t1 + maxIdle` reports
`.timeout`.  What the endpoint transmits (retransmissions to a dead peer) cannot postpone it. -/
theorem idle_eventually_despite_sending (tm : Timer) (c0 t1 t2 : Nat) (a b : List Op)
    (hf : tm.sentSinceRcvd = true) (hc : tm.lastComm = some c0) (h0 : tm.cfg.maxIdle ≠ 0)
    (ha : ∀ op ∈ a, op.sendOrPoll = true) (hb : ∀ op ∈ b, op.sendOrPoll = true)
    (hm : Mono (c0 + tm.cfg.defer + 1) (a ++ [.health t1] ++ b ++ [.health t2]))
    (hi : ∀ x, tm.idleBegin = some x → x ≤ c0 + tm.cfg.defer + 1)
    (h2 : t1 + tm.cfg.maxIdle < t2) :
    (step (run tm (a ++ [.health t1] ++ b)) (.health t2)).2 = .timeout :=
  despite_core true tm c0 t1 t2 a b (fun _ => hf) hc h0 (fun o ho => ⟨ha o ho, Or.inl rfl⟩)
    (fun o ho => ⟨hb o ho, Or.inl rfl⟩) hm hi h2

example :
    let tm : Timer := { cfg := Cfg.new 10 2, lastComm := some 1, sentSinceRcvd := true }
    (step (run tm ([.sent true 4, .sent true 5] ++ [.health 6] ++ [.sent true 8, .health 9, .sent true 14, .sent false 15]))
      (.health 17)).2 = .timeout := by decide

/-- The same clause from the initial timer, over histories: whatever happened before (`pre` arbitrary), once an
effective packet has been sent after the last received one (`(restart pre).2`), a send-only tail with a poll
after `lastEff pre + defer` and a poll `maxIdle` later times out. -/
theorem idle_eventually_despite_sending_hist (c : Cfg) (pre a b : List Op) (c0 t1 t2 : Nat)
    (hfl : (restart pre).2 = true) (hc : lastEff pre = some c0)
    (h0 : (run { cfg := c } pre).cfg.maxIdle ≠ 0)
    (ha : ∀ op ∈ a, op.sendOrPoll = true) (hb : ∀ op ∈ b, op.sendOrPoll = true)
    (hm : Mono (c0 + (run { cfg := c } pre).cfg.defer + 1) (a ++ [.health t1] ++ b ++ [.health t2]))
    (hi : ∀ x, (run { cfg := c } pre).idleBegin = some x → x ≤ c0 + (run { cfg := c } pre).cfg.defer + 1)
    (h2 : t1 + (run { cfg := c } pre).cfg.maxIdle < t2) :
    (step (run { cfg := c } (pre ++ (a ++ [.health t1] ++ b))) (.health t2)).2 = .timeout := by
  have hr : run { cfg := c } (pre ++ (a ++ [.health t1] ++ b)) = run (run { cfg := c } pre) (a ++ [.health t1] ++ b) := by
    simp [run, List.foldl_append]
  rw [hr]
  exact idle_eventually_despite_sending _ c0 t1 t2 a b (by rw [run_init_flag]; exact hfl)
    (by rw [run_init_lastComm]; exact hc) h0 ha hb hm hi h2

example : (restart [.rcvd true 1, .sent true 2, .sent true 9]).2 = true ∧
    lastEff [.rcvd true 1, .sent true 2, .sent true 9] = some 2 := by decide

/-- The code AS FOUND refutes the clause: every effective send restarts the timer, so an endpoint that keeps
(re)transmitting — one packet per period — never times out although nothing is ever received. -/
theorem idle_eventually_despite_sending_fails :
    ¬ (∀ (tm : Timer) (c0 t1 t2 : Nat) (a b : List Op),
        tm.lastComm = some c0 → tm.cfg.maxIdle ≠ 0 →
        (∀ op ∈ a, op.sendOrPoll = true) → (∀ op ∈ b, op.sendOrPoll = true) →
        Mono (c0 + tm.cfg.defer + 1) (a ++ [.health t1] ++ b ++ [.health t2]) →
        (∀ x, tm.idleBegin = some x → x ≤ c0 + tm.cfg.defer + 1) →
        t1 + tm.cfg.maxIdle < t2 →
        (stepOld (runOld tm (a ++ [.health t1] ++ b)) (.health t2)).2 = .timeout) := by
  intro h
  have := h { cfg := { maxIdle := 3, defer := 1, hb := 100 }, lastComm := some 0 } 0 2 6 [] [.sent true 3]
    rfl (by decide) (by simp) (by decide) (by decide) (by simp) (by decide)
  revert this
  decide

/-- the witness continued: one (re)transmission every 2 time units, polled every unit, idle timeout 3: never
`timeout` (40 units shown; the real-code replay in `C17i` runs it for 1 000 periods) -/
example :
    let tm : Timer := { cfg := { maxIdle := 3, defer := 1, hb := 100 }, lastComm := some 0 }
    let ops := (List.range 20).flatMap fun i => [Op.sent true (2 * i + 1), Op.health (2 * i + 1), Op.health (2 * i + 2)]
    (ops.foldl (fun (acc : Timer × Bool) o => let r := stepOld acc.1 o; (r.1, acc.2 || r.2 == .timeout)) (tm, false)).2 = false := by
  decide

/-- … and what the code as found does guarantee: the clause restricted to tails without effective sends. -/
theorem idle_eventually_despite_sending_partial (tm : Timer) (c0 t1 t2 : Nat) (a b : List Op)
    (hc : tm.lastComm = some c0) (h0 : tm.cfg.maxIdle ≠ 0)
    (ha : ∀ op ∈ a, op.sendOrPoll = true ∧ op.isEff = false) (hb : ∀ op ∈ b, op.sendOrPoll = true ∧ op.isEff = false)
    (hm : Mono (c0 + tm.cfg.defer + 1) (a ++ [.health t1] ++ b ++ [.health t2]))
    (hi : ∀ x, tm.idleBegin = some x → x ≤ c0 + tm.cfg.defer + 1)
    (h2 : t1 + tm.cfg.maxIdle < t2) :
    (stepOld (runOld tm (a ++ [.health t1] ++ b)) (.health t2)).2 = .timeout := by
  have hall : ∀ op ∈ a ++ [.health t1] ++ b, op.isEff = false := by
    intro op ho
    simp only [List.mem_append, List.mem_singleton] at ho
    rcases ho with (ho | ho) | ho
    · exact (ha op ho).2
    · subst ho; rfl
    · exact (hb op ho).2
  rw [runOld_eq_run _ tm hall, stepOld_eq_step _ _ rfl]
  exact despite_core false tm c0 t1 t2 a b (fun h => by cases h) hc h0
    (fun o ho => ⟨(ha o ho).1, Or.inr (ha o ho).2⟩) (fun o ho => ⟨(hb o ho).1, Or.inr (hb o ho).2⟩) hm hi h2

example :
    let tm : Timer := { cfg := { maxIdle := 3, defer := 1, hb := 100 }, lastComm := some 0 }
    (stepOld (runOld tm ([] ++ [.health 2] ++ [.sent false 3])) (.health 6)).2 = .timeout := by decide

/-! ## 5. `negotiate_max_idle_timeout` = RFC 9000 §10.1 (min of the two, 0 = absent); heartbeat interval -/

theorem negotiated_zero_iff (c : Cfg) (r : Nat) : (c.negotiate r).maxIdle = 0 ↔ c.maxIdle = 0 ∧ r = 0 := by
  simp only [Cfg.negotiate]; grind

theorem negotiated_remote_absent (c : Cfg) : (c.negotiate 0).maxIdle = c.maxIdle := by
  simp [Cfg.negotiate]

theorem negotiated_local_absent (c : Cfg) (r : Nat) (h : c.maxIdle = 0) : (c.negotiate r).maxIdle = r := by
  simp only [Cfg.negotiate]; grind

example : (Cfg.new 0 2).maxIdle = 0 := by decide

theorem negotiated_is_min_nonzero (c : Cfg) (r : Nat) (h1 : c.maxIdle ≠ 0) (h2 : r ≠ 0) :
    (c.negotiate r).maxIdle = min c.maxIdle r := by
  simp [Cfg.negotiate, h1, h2]

example : (Cfg.new 10 2).maxIdle ≠ 0 ∧ (7 : Nat) ≠ 0 ∧ ((Cfg.new 10 2).negotiate 7).maxIdle = 7 := by decide

/-- both endpoints compute the same effective timeout (and the same heartbeat interval) -/
theorem negotiated_comm (a b d : Nat) : (Cfg.new a d).negotiate b = (Cfg.new b d).negotiate a := by
  have : (if b = 0 then a else if a = 0 then b else min a b) = (if a = 0 then b else if b = 0 then a else min b a) := by
    grind
  simp only [Cfg.negotiate, Cfg.new, Cfg.mk.injEq, true_and]
  exact ⟨this, congrArg suitableHb this⟩

theorem negotiate_keeps_defer (c : Cfg) (r : Nat) : (c.negotiate r).defer = c.defer := rfl

/-- the heartbeat interval always follows the negotiated timeout -/
theorem negotiated_hb (c : Cfg) (r : Nat) : (c.negotiate r).hb = suitableHb (c.negotiate r).maxIdle := rfl

theorem suitableHb_bounds (m : Nat) : 1 * sec ≤ suitableHb m ∧ suitableHb m ≤ 30 * sec := by
  simp only [suitableHb, sec]; grind

/-- from 2 s on, the heartbeat interval is at most half the idle timeout … -/
theorem heartbeat_le_half_idle (m : Nat) (h : 2 * sec ≤ m) : suitableHb m ≤ m / 2 := by
  simp only [suitableHb, sec] at *; grind

example : 2 * sec ≤ 2 * sec ∧ suitableHb (2 * sec) = 1 * sec := by decide

/-- … but below 1 s (and non-zero) it is LONGER than the idle timeout (clamped to 1 s). -/
example : suitableHb 500000 = 1 * sec := by decide

/-! ## 6. the comparison is strict: idle for exactly `maxIdle` is not yet a timeout -/

theorem timeout_strict :
    let tm : Timer := { cfg := { maxIdle := 10, defer := 0, hb := 5 }, idleBegin := some 0 }
    (health tm 10).2 = .none ∧ (health tm 11).2 = .timeout := by decide

/-- the same with a `last_effective_comm` (the `elapsed > defer` comparison is strict too: at `now = c0 + defer`
idle has not begun) -/
theorem defer_strict :
    let tm : Timer := { cfg := { maxIdle := 10, defer := 3, hb := 5 }, lastComm := some 0 }
    (health tm 3).1.idleBegin = none ∧ (health tm 4).1.idleBegin = some 4 := by decide

end GmQuic.Idle
