import GmQuic.Lemmas.RecoveryBal
import GmQuic.Lemmas.RecoverySorted
import GmQuic.Lemmas.RecoverySortedInv
/-!
# C13 — loss detection and congestion control (qcongestion, NewReno)

Theorems about `Model/Recovery.lean` (tied to the real `ArcCC` by the exact correspondence run `C13`).
`St` is the whole integer state of the controller, `step` one `ArcCC` call, `run` a history of calls; the
float-derived values (`Inp`) are universally quantified inputs of every step.
Clauses that the unchanged code violates come as `…_fails` (negation, from the witness replayed on the real code
by the fixed cases of the harness) + `…_partial`.
-/
namespace GmQuic.Props.C13
open GmQuic.Recovery GmQuic.Gen

def inp1 : Inp := { ld0 := 1, ld1 := 1, srtt0 := 1, rttvar0 := 1, srtt1 := 1, rttvar1 := 1 }

/-! ## the congestion window never falls below two datagrams -/

/-- For every history of controller calls from `ArcCC::new`, with arbitrary RTT inputs, the window is at least
two datagrams (and the datagram size is the one given at construction). -/
theorem cwnd_ge_two_datagrams (server : Bool) (mtu mad : Nat) (s0 s : St) (h : List (Inp × Op))
    (hi : initSt server mtu mad = .ok s0) (hr : run s0 h = .ok s) : 2 * s.mds ≤ s.cwnd ∧ s.mds = mtu := by
  have k0 := initSt_win hi
  have k := run_keeps hr k0.1
  exact ⟨k.1, k.2.trans k0.2⟩

example : ∃ s0 s, initSt true 1200 0 = .ok s0 ∧
    run s0 [({ ld0 := 1, ld1 := 1, srtt0 := 1, rttvar0 := 1, srtt1 := 1, rttvar1 := 1 }, .sent 2 0 true true 1200)] = .ok s :=
  ⟨_, _, rfl, rfl⟩

/-- under the invariant, `cwnd - max_datagram_size` in `on_congestion_event` cannot underflow -/
theorem congestion_event_never_underflows (s : St) (t : Nat) (hw : 2 * s.mds ≤ s.cwnd) :
    ∃ s', onCongestionEvent s t = .ok s' := by
  unfold onCongestionEvent
  split
  · exact ⟨_, rfl⟩
  · split
    · omega
    · exact ⟨_, rfl⟩

example : ∃ s : St, 2 * s.mds ≤ s.cwnd := ⟨{}, by decide⟩

/-! ## the window grows only on acknowledgements, outside recovery -/

/-- No operation other than an ACK makes the window larger. -/
theorem grow_only_on_ack (s s' : St) (i : Inp) (op : Op) (o : Out) (hw : 2 * s.mds ≤ s.cwnd)
    (h : step s i op = .ok (s', o)) (hop : ∀ e a, op ≠ .ack e a) : s'.cwnd ≤ s.cwnd :=
  step_nonack_le h hw hop

example : ∃ (s s' : St) (o : Out), 2 * s.mds ≤ s.cwnd ∧
    step s { ld0 := 1, ld1 := 1, srtt0 := 1, rttvar0 := 1, srtt1 := 1, rttvar1 := 1 } (.tick 5) = .ok (s', o) :=
  ⟨{}, _, _, by decide, rfl⟩

/-- If an ACK makes the window larger, it newly acknowledges an in-flight-counted packet that was sent after
the start of the current recovery period (or there is no recovery period). -/
theorem grow_only_outside_recovery (s s' : St) (i : Inp) (e : Nat) (a : Ack) (l : List (Nat × List Nat))
    (hw : 2 * s.mds ≤ s.cwnd) (h : onAckRcvd s i e a = .ok (s', l)) (hg : s.cwnd < s'.cwnd) :
    ∃ p ∈ (getSp s e).sent, inRanges a.ranges p.pn = true ∧ p.st ≠ PSt.A ∧ p.cc = true ∧
      (∀ r, s.rs = some r → r < p.ts) := by
  obtain ⟨p, hp, h1, h2, h3, h4⟩ := onAckRcvd_grows h hw hg
  refine ⟨p, hp, h1, h2, h3, ?_⟩
  intro r hr
  unfold inRecovery at h4
  rw [hr] at h4
  simp only [decide_eq_false_iff_not, Nat.not_le] at h4
  exact h4

example : ∃ (s s' : St) (l : List (Nat × List Nat)), 2 * s.mds ≤ s.cwnd ∧
    onAckRcvd s inp1 2 { largest := 0, ranges := [(0, 0)], ce := none } = .ok (s', l) ∧ s.cwnd < s'.cwnd :=
  ⟨{ bytes := 1200, s2 := { tl := some 0, sent := [{ pn := 0, ts := 0, elic := true, cc := true, size := 1200, st := PSt.I }] } },
   _, _, by decide, rfl, by decide⟩

/-! ## an acknowledged packet is never declared lost; loss needs one of the two thresholds -/

/-- Every packet number handed to `may_loss` by a detection pass belongs to a packet that was `Inflight` (so
neither `Acked` nor already reported) and satisfies the time threshold or the (index-based) packet threshold;
packets already `Acked` stay in the list untouched. -/
theorem acked_never_lost (s s' : St) (e ld : Nat) (lost : List Nat) (h : detectLost s e ld = .ok (s', lost)) :
    ∀ pn ∈ lost, ∃ p ∈ (getSp s e).sent, p.pn = pn ∧ p.st = PSt.I := by
  intro pn hpn
  unfold detectLost at h
  simp only at h
  split at h
  · cases h; simp at hpn
  · split at h
    · cases h
    · cases h
      simp only [List.mem_map] at hpn
      obtain ⟨x, hx, rfl⟩ := hpn
      obtain ⟨p, hp, hI, hx2, _⟩ := lossWalk_lost _ _ _ _ _ _ x hx
      exact ⟨p, hp, by rw [hx2], hI⟩

/-- the two thresholds, as the code computes them: older than `loss_delay + max_ack_delay`, or at least
`PACKET_THRESHOLD = 3` positions before the position of the largest acknowledged number in the sent list -/
theorem lost_needs_threshold (s s' : St) (e ld : Nat) (lost : List Nat) (h : detectLost s e ld = .ok (s', lost)) :
    ∀ pn ∈ lost, ∃ p ∈ (getSp s e).sent, p.pn = pn ∧ p.st = PSt.I ∧
      (p.ts + ld + (getSp s e).mad < s.now ∨
       ∃ idx, idx + 3 ≤ bsearch (getSp s e).sent ((getSp s e).la.getD 0)) := by
  intro pn hpn
  unfold detectLost at h
  simp only at h
  split at h
  · cases h; simp at hpn
  · split at h
    · cases h
    · cases h
      simp only [List.mem_map] at hpn
      obtain ⟨x, hx, rfl⟩ := hpn
      obtain ⟨p, hp, hI, hx2, hthr⟩ := lossWalk_lost _ _ _ _ _ _ x hx
      refine ⟨p, hp, by rw [hx2], hI, ?_⟩
      rcases hthr with ht | ht
      · left; omega
      · right; exact ⟨x.1, by simpa [packetThreshold] using ht⟩


/-- the detection pass leaves every packet that is not `Inflight` (in particular every `Acked` one) in the list, unchanged -/
theorem acked_untouched_by_detection (T ld L : Nat) (l : List Pkt) (k : Nat) (lt : Option Nat) (q : Pkt)
    (hq : q ∈ l) (hst : q.st = PSt.A) : q ∈ (lossWalk T ld L l k lt).1 :=
  lossWalk_keeps T ld L l k lt q hq (by rw [hst]; decide)

example : ∃ q : Pkt, q ∈ [({ pn := 0, ts := 0, elic := true, cc := true, size := 1, st := PSt.A } : Pkt)] ∧ q.st = PSt.A :=
  ⟨_, List.mem_cons_self, rfl⟩

/-! ## FALSE of the unchanged code: a packet is declared lost although no later packet was acknowledged -/

def inp0 : Inp :=
  { ld0 := 37124999, ld1 := 37124999, srtt0 := 33000000, rttvar0 := 16500000, srtt1 := 33000000, rttvar1 := 16500000 }

/-- fixed case 0 of the harness (replayed on the real `ArcCC` on every run): client, anti-amplification limit
released, one ack-eliciting Initial packet, no ACK ever, tick after 37.125 ms -/
def hist0 : List (Inp × Op) := [(inp0, .grant), (inp0, .sent 0 0 true true 1200)]
def w0 : St := (initSt false 1200 25000000).toOption.getD {}
def w1 : St := (run w0 hist0).toOption.getD {}
def w2 : St × Out := (step w1 inp0 (.tick 37125000)).toOption.getD ({}, {})

/-- the property's first clause, for all histories -/
def LostNeedsLaterAck : Prop :=
  ∀ (server : Bool) (mtu mad : Nat) (h : List (Inp × Op)) (i : Inp) (op : Op) (s0 s s' : St) (o : Out),
    initSt server mtu mad = .ok s0 → run s0 h = .ok s → step s i op = .ok (s', o) →
    ∀ e pns, (e, pns) ∈ o.lost → ∀ pn ∈ pns, ∃ la, (getSp s' e).la = some la ∧ pn < la

theorem lost_needs_later_ack_fails : ¬ LostNeedsLaterAck := by
  intro h
  have h0 : initSt false 1200 25000000 = .ok w0 := rfl
  have h1 : run w0 hist0 = .ok w1 := rfl
  have h2 : step w1 inp0 (.tick 37125000) = .ok (w2.1, w2.2) := rfl
  have hl : (0, [0]) ∈ w2.2.lost := by decide
  have hnone : (getSp w2.1 0).la = none := by decide
  obtain ⟨la, hla, _⟩ := h false 1200 25000000 hist0 inp0 (.tick 37125000) w0 w1 w2.1 w2.2 h0 h1 h2 0 [0] hl 0 (by decide)
  rw [hnone] at hla
  cases hla

/-- what does hold, for every state whose sent list is sorted by packet number (C07): a packet is declared lost
only if it was `Inflight` and is older than the time threshold, or a packet at least three numbers later has been
covered by an ACK frame (`largest_acked ≥ pn + 3`) -/
theorem lost_needs_threshold_pn (s s' : St) (e ld : Nat) (lost : List Nat)
    (h : detectLost s e ld = .ok (s', lost)) (hs : Sorted (getSp s e).sent) :
    ∀ pn ∈ lost, ∃ p ∈ (getSp s e).sent, p.pn = pn ∧ p.st = PSt.I ∧
      (p.ts + ld + (getSp s e).mad < s.now ∨ ∃ la, (getSp s e).la = some la ∧ pn + 3 ≤ la) :=
  detectLost_pn h hs

/-- the full clause holds exactly when the time threshold does not fire: if no packet of the space is older than
`loss_delay + max_ack_delay`, every packet declared lost has a later acknowledged packet, three or more numbers ahead -/
theorem lost_needs_later_ack_partial (s s' : St) (e ld : Nat) (lost : List Nat)
    (h : detectLost s e ld = .ok (s', lost)) (hs : Sorted (getSp s e).sent)
    (hyoung : ∀ p ∈ (getSp s e).sent, ¬ p.ts + ld + (getSp s e).mad < s.now) :
    ∀ pn ∈ lost, ∃ la, (getSp s e).la = some la ∧ pn + 3 ≤ la := by
  intro pn hpn
  obtain ⟨p, hp, _, _, h3⟩ := detectLost_pn h hs pn hpn
  rcases h3 with h3 | h3
  · exact absurd h3 (hyoung p hp)
  · exact h3

/-- non-vacuity: five packets, the last acknowledged, nothing old: 0 and 1 are declared lost, `largest_acked = 4` -/
def spW : Space :=
  { la := some 4, sent := (List.range 5).map fun k =>
      { pn := k, ts := 100, elic := true, cc := true, size := 1200, st := if k == 4 then PSt.A else PSt.I } }
example : (detectLost { now := 100, s2 := spW } 2 50).toOption.map (·.2) = some [0, 1] := by decide
example : Sorted (getSp { now := 100, s2 := spW } 2).sent := by
  unfold Sorted; decide

/-- For every history from `ArcCC::new` whose sends use increasing packet numbers per space (`MonoHist`, the
caller's obligation proved for the sent journal in C07), the three sent lists stay sorted by packet number … -/
theorem sent_lists_sorted (server : Bool) (mtu mad : Nat) (s0 s : St) (h : List (Inp × Op))
    (hi : initSt server mtu mad = .ok s0) (hr : run s0 h = .ok s) (hm : MonoHist s0 h) (e : Nat) :
    Sorted (getSp s e).sent :=
  (run_sorted hr (initSt_sorted hi) hm).get e

/-- … hence in every reachable state a detection pass declares lost only `Inflight` packets that are older than the
time threshold or at least three packet numbers below the largest acknowledged one. -/
theorem lost_needs_threshold_reachable (server : Bool) (mtu mad : Nat) (s0 s s' : St) (h : List (Inp × Op))
    (hi : initSt server mtu mad = .ok s0) (hr : run s0 h = .ok s) (hm : MonoHist s0 h)
    (e ld : Nat) (lost : List Nat) (hd : detectLost s e ld = .ok (s', lost)) :
    ∀ pn ∈ lost, ∃ p ∈ (getSp s e).sent, p.pn = pn ∧ p.st = PSt.I ∧
      (p.ts + ld + (getSp s e).mad < s.now ∨ ∃ la, (getSp s e).la = some la ∧ pn + 3 ≤ la) :=
  detectLost_pn hd (sent_lists_sorted server mtu mad s0 s h hi hr hm e)

example : MonoHist w0 hist0 := by
  refine ⟨trivial, fun s' o h1 => ⟨?_, fun _ _ _ => trivial⟩⟩
  have : step w0 inp0 .grant = .ok ({ w0 with aaLimit := false }, {}) := rfl
  rw [this] at h1
  cases h1
  intro q hq
  have hnil : (getSp { w0 with aaLimit := false } 0).sent = [] := by decide
  rw [hnil] at hq
  cases hq

/-! ## the probe timeout doubles

(`fix-C13-pto-backoff`: before it only `max(4·rttvar, 1 ms)` was scaled by `2^pto_count`.) -/

/-- `pto (n+1) = 2 · pto n` for every RTT estimate, max_ack_delay and space (`Rtt::base_pto`, `get_pto`,
`get_pto_time_and_epoch`) -/
theorem pto_doubles (srtt rttvar mad n : Nat) (data : Bool) :
    ptoInterval srtt rttvar mad (n + 1) data = 2 * ptoInterval srtt rttvar mad n data := by
  have e1 : ∀ a b : Nat, a * (b * 2) = 2 * (a * b) := by
    intro a b; rw [Nat.mul_comm b 2, Nat.mul_left_comm]
  unfold ptoInterval basePto
  rw [Nat.pow_succ]
  split <;> simp only [e1] <;> omega

/-- hence the interval after `n` consecutive timeouts is `2^n` times the base interval -/
theorem pto_exponential (srtt rttvar mad n : Nat) (data : Bool) :
    ptoInterval srtt rttvar mad n data = 2 ^ n * ptoInterval srtt rttvar mad 0 data := by
  induction n with
  | zero => simp
  | succ k ih => rw [pto_doubles, ih, Nat.pow_succ, Nat.mul_comm (2 ^ k) 2, Nat.mul_assoc]

/-! ## FALSE of the unchanged code: the window shrinks more than once per round trip -/

/-- a loss event whose packets were all sent at or before the start of the current recovery period leaves the window alone -/
def ShrinkOncePerRtt : Prop :=
  ∀ (s s' : St) (l : List Pkt) (persistent : Bool) (r : Nat), onPacketsLost s l persistent = .ok s' →
    s.rs = some r → (∀ p ∈ l, p.cc = true → p.ts ≤ r) → s'.cwnd = s.cwnd

theorem shrink_once_per_rtt_fails : ¬ ShrinkOncePerRtt := by
  intro h
  have := h { cwnd := 12000, rs := some 10, now := 20 } (persistentCollapse { cwnd := 12000, rs := some 10, now := 20, bytes := 0 })
    [{ pn := 0, ts := 0, elic := true, cc := true, size := 1200, st := PSt.R }] true 10 rfl rfl (by decide)
  revert this
  decide

/-- without the `persistent_lost` branch (three consecutive sent-list entries lost in one pass) the clause holds,
and the recovery period stays in force -/
theorem shrink_once_per_rtt_partial (s s' : St) (l : List Pkt) (r : Nat) (h : onPacketsLost s l false = .ok s')
    (hrs : s.rs = some r) (hl : ∀ p ∈ l, p.cc = true → p.ts ≤ r) : s'.cwnd = s.cwnd ∧ s'.rs = s.rs :=
  onPacketsLost_in_recovery h hrs hl

example : ∃ s s' : St, onPacketsLost s [] false = .ok s' ∧ s.rs = some 5 := ⟨{ rs := some 5 }, _, rfl, rfl⟩

/-- ECN marks: a CE increase for a packet sent at or before the recovery start does not shrink the window either -/
theorem ecn_in_recovery_no_shrink (s : St) (t r : Nat) (hrs : s.rs = some r) (ht : t ≤ r) :
    onCongestionEvent s t = .ok s :=
  onCongestionEvent_in_recovery (by unfold inRecovery; simp [hrs, ht])

example : ∃ s : St, s.rs = some 5 := ⟨{ rs := some 5 }, rfl⟩

/-- fixed case 2 of the harness on the model: burst of ten 1200-byte packets at t = 0, ACK of 6, then ACK of 9:
the window goes 12000 → 6000 → 5040 although every lost packet was sent before the first reduction -/
def burst10 : List (Inp × Op) := (List.range 10).map fun k => (inp0, Op.sent 2 k true true 1200)
def hist2 : List (Inp × Op) :=
  [(inp0, .grant), (inp0, .hskey), (inp0, .confirmed)] ++ burst10 ++
  [(inp0, .tick 10000000), (inp0, .ack 2 { largest := 6, ranges := [(6, 6)], ce := none })]

example : ((initSt true 1200 25000000).toOption.bind fun s => (run s hist2).toOption.map fun s => (s.cwnd, s.rs))
    = some (6000, none) := by decide
example : ((initSt true 1200 25000000).toOption.bind fun s =>
      (run s (hist2 ++ [(inp0, .ack 2 { largest := 9, ranges := [(9, 9)], ce := none })])).toOption.map fun s => s.cwnd)
    = some 5040 := by decide

/-! ## FALSE of the unchanged code: quota is granted beyond the window -/

/-- `send_quota` answers `Err(CONGESTION)` whenever the bytes in flight have reached the window -/
theorem inflight_bounded_by_window_fails :
    ¬ (∀ (s : St) (pacerTokens : Nat), s.cwnd ≤ s.bytes → sendQuota s pacerTokens = none) := by
  intro h
  have := h { bytes := 13200 } 2272 (by decide)
  revert this
  decide

/-- the only refusal the code knows: fewer pacer tokens than one datagram -/
theorem inflight_bounded_by_window_partial (s : St) (pacerTokens : Nat) (h : pacerTokens < s.mds) :
    sendQuota s pacerTokens = none := by
  unfold sendQuota; simp; omega

example : ∃ (s : St) (t : Nat), t < s.mds := ⟨{}, 0, by decide⟩


/-! ## bytes in flight = sizes of the packets still outstanding -/

/-- For every history of controller calls from `ArcCC::new`, with arbitrary RTT inputs: `bytes_in_flight` equals
the sum of the sizes of the packets that are `Inflight` and counted for congestion control, over the three spaces. -/
theorem inflight_is_sum (server : Bool) (mtu mad : Nat) (s0 s : St) (h : List (Inp × Op))
    (hi : initSt server mtu mad = .ok s0) (hr : run s0 h = .ok s) : s.bytes = outstandingAll s :=
  run_bal hr (initSt_bal hi)

example : ∃ s0 s, initSt false 1500 0 = .ok s0 ∧
    run s0 [(inp0, .grant), (inp0, .sent 0 0 true true 700), (inp0, .sent 0 1 false false 90)] = .ok s ∧ s.bytes = 700 :=
  ⟨_, _, rfl, rfl, by decide⟩

/-- hence the unchecked `bytes_in_flight -= sent_bytes` of `remove_from_bytes_in_flight` (discarding a space)
never underflows in a reachable state -/
theorem discard_never_underflows (s : St) (e : Nat) (hb : s.bytes = outstandingAll s) :
    ∃ b, removeFromBytes ((getSp s e).sent.filter fun p => p.st == PSt.I) s.bytes = .ok b :=
  removeFromBytes_ok _ _ (by have := outstanding_le_all s e; omega)

example : ∃ s : St, s.bytes = outstandingAll s := ⟨{}, by decide⟩

/-! ## every ack-eliciting packet in flight is acknowledged, declared lost, or a timer is armed -/

/-- `set_loss_detection_timer` (which ends `on_packet_sent` for in-flight packets, `on_ack_rcvd` with newly
acknowledged packets, `on_loss_detection_timeout` and `discard_epoch`) leaves a timer armed whenever the endpoint
is not at the anti-amplification limit and an ack-eliciting packet is `Inflight` in the Initial or Handshake
space, or in the Data space once the handshake is confirmed (RFC 9002 §6.2.1 forbids arming the PTO for
Application Data before). -/
theorem outstanding_resolved (s s' : St) (srtt rttvar : Nat) (h : setTimer s srtt rttvar = .ok s')
    (haa : s.aaLimit = false)
    (hout : noElic s.s0 = false ∨ noElic s.s1 = false ∨ (noElic s.s2 = false ∧ s.confirmed = true)) :
    s'.timer.isSome = true :=
  setTimer_armed h haa hout

example : ∃ s s' : St, setTimer s 33000000 16500000 = .ok s' ∧ s.aaLimit = false ∧ noElic s.s0 = false :=
  ⟨{ aaLimit := false, s0 := { tl := some 0, sent := [{ pn := 0, ts := 0, elic := true, cc := true, size := 1200, st := PSt.I }] } },
   _, rfl, rfl, by decide⟩


/-! ## sending never forgets the PTO backoff

(`fix-C13-discard-once`: before it, `ArcCC::on_pkt_sent` reset `pto_count` through `discard_epoch(Initial)` on every
Handshake packet a client sent.) -/

theorem setSp_keeps (x : St) (e : Nat) (sp : Space) :
    (setSp x e sp).pto = x.pto ∧ (setSp x e sp).server = x.server ∧ (setSp x e sp).disc0 = x.disc0 ∧
    (setSp x e sp).disc1 = x.disc1 := by
  unfold setSp; split <;> exact ⟨rfl, rfl, rfl, rfl⟩

/-- discarding a space resets the backoff only the first time, and marks the space -/
theorem discard_resets_once (s s' : St) (e srtt rttvar : Nat) (h : discardEpoch s e srtt rttvar = .ok s') :
    isDiscarded s' e = true ∧ (isDiscarded s e = true → s'.pto = s.pto) := by
  unfold discardEpoch at h
  split at h
  · cases h
  · simp only [ebind_ok] at h
    obtain ⟨bytes, _, h2⟩ := h
    rw [setTimer_eq h2]
    have k := setSp_keeps { s with bytes := bytes } e { getSp s e with sent := [], tl := none, lt := none }
    unfold discardReset
    simp only
    cases hd : isDiscarded s e
    · simp only [Bool.false_eq_true, if_false]
      refine ⟨?_, fun h => by cases h⟩
      cases e with
      | zero => rfl
      | succ n => rfl
    · simp only [if_true]
      refine ⟨?_, fun _ => k.1⟩
      unfold isDiscarded at hd ⊢
      split at hd
      · simp only; rw [k.2.2.1]; exact hd
      · simp only; rw [k.2.2.2]; exact hd

example : ∃ s s' : St, discardEpoch s 0 1 1 = .ok s' ∧ isDiscarded s 0 = true ∧ s.pto = 3 :=
  ⟨{ disc0 := true, pto := 3 }, _, rfl, rfl, rfl⟩

/-- Sending a packet never lowers `pto_count`, except for the one Handshake packet with which a client discards
its Initial keys (RFC 9002 §6.2.2.1 / A.10: discarding keys resets the backoff). -/
theorem send_keeps_backoff (s s' : St) (i : Inp) (e pn : Nat) (elic infl : Bool) (size : Nat)
    (h : onPktSent s i e pn elic infl size = .ok s') (hne : s.disc0 = true ∨ s.server = true ∨ e ≠ 1) :
    s.pto ≤ s'.pto := by
  unfold onPktSent at h
  simp only [ebind_ok] at h
  obtain ⟨s1, h1, h2⟩ := h
  have k1 : s1.pto = s.pto ∧ s1.server = s.server ∧ s1.disc0 = s.disc0 := by
    split at h1
    · rw [setTimer_eq h1]
      unfold sentInflight
      simp only
      exact ⟨(setSp_keeps _ _ _).1, (setSp_keeps _ _ _).2.1, (setSp_keeps _ _ _).2.2.1⟩
    · cases h1; exact ⟨rfl, rfl, rfl⟩
  have k2 := setSp_keeps s1 e { getSp s1 e with sent := (getSp s1 e).sent ++ [{ pn := pn, ts := s.now, elic := elic, cc := infl, size := size, st := PSt.I }] }
  unfold pushPkt at h2
  simp only at h2
  split at h2
  · rename_i hc
    simp only [Bool.and_eq_true, beq_iff_eq, Bool.not_eq_true'] at hc
    rw [k2.2.1, k1.2.1] at hc
    rcases hne with hd | hs | he
    · have := (discard_resets_once _ s' 0 _ _ h2).2 (by unfold isDiscarded; rw [k2.2.2.1, k1.2.2]; exact hd)
      rw [this, k2.1, k1.1]; exact Nat.le_refl _
    · rw [hs] at hc; cases hc.2
    · exact absurd hc.1 he
  · cases h2
    rw [k2.1, k1.1]; exact Nat.le_refl _

example : ∃ (s s' : St), onPktSent s inp0 1 0 true true 300 = .ok s' ∧ s.disc0 = true ∧ s.pto = 3 ∧ s'.pto = 3 :=
  ⟨{ disc0 := true, pto := 3, aaLimit := false, hsKey := true }, _, rfl, rfl, rfl, by decide⟩

end GmQuic.Props.C13
