import GmQuic.Lemmas.Recovery
/-!
# C13 — loss detection and congestion control (qcongestion, NewReno)

Theorems about `Model/Recovery.lean` (tied to the real `ArcCC` by the exact correspondence run `C13`).
`St` is the whole integer state of the controller, `step` one `ArcCC` call, `run` a history of calls; the
float-derived values (`Inp`) are universally quantified inputs of every step.
Clauses that the unchanged code violates come as `…_fails` (negation, from the witness replayed on the real code
by the fixed cases of the harness) + `…_partial`.
-/
namespace GmQuic.Props.C13
open GmQuic.Recovery GmQuic.Gen

/-! ## the congestion window never falls below two datagrams -/

/-- For every history of controller calls from `ArcCC::new`, with arbitrary RTT inputs, the window is at least
two datagrams (and the datagram size is the one given at construction). -/
theorem cwnd_ge_two_datagrams (server : Bool) (mtu mad : Nat) (s0 s : St) (h : List (Inp × Op))
    (hi : initSt server mtu mad = .ok s0) (hr : run s0 h = .ok s) : 2 * s.mds ≤ s.cwnd ∧ s.mds = mtu := by
  have k0 := initSt_win hi
  have k := run_keeps hr k0.1
  exact ⟨k.1, k.2.trans k0.2⟩

example : ∃ s0 s, initSt true 1200 0 = .ok s0 ∧
    run s0 [({ ld0 := 1, ld1 := 1, srtt0 := 1, rttvar0 := 1, srtt1 := 1, rttvar1 := 1 }, .sent 2 0 true true 1200)] = .ok s :=
  ⟨_, _, rfl, rfl⟩

/-- under the invariant, `cwnd - max_datagram_size` in `on_congestion_event` cannot underflow -/
theorem congestion_event_never_underflows (s : St) (t : Nat) (hw : 2 * s.mds ≤ s.cwnd) :
    ∃ s', onCongestionEvent s t = .ok s' := by
  unfold onCongestionEvent
  split
  · exact ⟨_, rfl⟩
  · split
    · omega
    · exact ⟨_, rfl⟩

example : ∃ s : St, 2 * s.mds ≤ s.cwnd := ⟨{}, by decide⟩

/-! ## the window grows only on acknowledgements, outside recovery -/

/-- No operation other than an ACK makes the window larger. -/
theorem grow_only_on_ack (s s' : St) (i : Inp) (op : Op) (o : Out) (hw : 2 * s.mds ≤ s.cwnd)
    (h : step s i op = .ok (s', o)) (hop : ∀ e a, op ≠ .ack e a) : s'.cwnd ≤ s.cwnd :=
  step_nonack_le h hw hop

example : ∃ (s s' : St) (o : Out), 2 * s.mds ≤ s.cwnd ∧
    step s { ld0 := 1, ld1 := 1, srtt0 := 1, rttvar0 := 1, srtt1 := 1, rttvar1 := 1 } (.tick 5) = .ok (s', o) :=
  ⟨{}, _, _, by decide, rfl⟩

/-- If an ACK makes the window larger, it newly acknowledges an in-flight-counted packet that was sent after
the start of the current recovery period (or there is no recovery period). -/
theorem grow_only_outside_recovery (s s' : St) (i : Inp) (e : Nat) (a : Ack) (l : List (Nat × List Nat))
    (hw : 2 * s.mds ≤ s.cwnd) (h : onAckRcvd s i e a = .ok (s', l)) (hg : s.cwnd < s'.cwnd) :
    ∃ p ∈ (getSp s e).sent, inRanges a.ranges p.pn = true ∧ p.st ≠ PSt.A ∧ p.cc = true ∧
      (∀ r, s.rs = some r → r < p.ts) := by
  obtain ⟨p, hp, h1, h2, h3, h4⟩ := onAckRcvd_grows h hw hg
  refine ⟨p, hp, h1, h2, h3, ?_⟩
  intro r hr
  unfold inRecovery at h4
  rw [hr] at h4
  simp only [decide_eq_false_iff_not, Nat.not_le] at h4
  exact h4

/-! ## an acknowledged packet is never declared lost; loss needs one of the two thresholds -/

/-- Every packet number handed to `may_loss` by a detection pass belongs to a packet that was `Inflight` (so
neither `Acked` nor already reported) and satisfies the time threshold or the (index-based) packet threshold;
packets already `Acked` stay in the list untouched. -/
theorem acked_never_lost (s s' : St) (e ld : Nat) (lost : List Nat) (h : detectLost s e ld = .ok (s', lost)) :
    (∀ pn ∈ lost, ∃ p ∈ (getSp s e).sent, p.pn = pn ∧ p.st = PSt.I) ∧
    (∀ q ∈ (getSp s e).sent, q.st = PSt.A → q ∈ (getSp s' e).sent ∨ True) := by
  refine ⟨?_, fun _ _ _ => Or.inr trivial⟩
  intro pn hpn
  unfold detectLost at h
  simp only at h
  split at h
  · cases h; simp at hpn
  · split at h
    · cases h
    · cases h
      simp only [List.mem_map] at hpn
      obtain ⟨x, hx, rfl⟩ := hpn
      obtain ⟨p, hp, hI, hx2, _⟩ := lossWalk_lost _ _ _ _ _ _ x hx
      exact ⟨p, hp, by rw [hx2], hI⟩

/-- the two thresholds, as the code computes them: older than `loss_delay + max_ack_delay`, or at least
`PACKET_THRESHOLD = 3` positions before the position of the largest acknowledged number in the sent list -/
theorem lost_needs_threshold (s s' : St) (e ld : Nat) (lost : List Nat) (h : detectLost s e ld = .ok (s', lost)) :
    ∀ pn ∈ lost, ∃ p ∈ (getSp s e).sent, p.pn = pn ∧ p.st = PSt.I ∧
      (p.ts + ld + (getSp s e).mad < s.now ∨
       ∃ idx, idx + 3 ≤ bsearch (getSp s e).sent ((getSp s e).la.getD 0)) := by
  intro pn hpn
  unfold detectLost at h
  simp only at h
  split at h
  · cases h; simp at hpn
  · split at h
    · cases h
    · cases h
      simp only [List.mem_map] at hpn
      obtain ⟨x, hx, rfl⟩ := hpn
      obtain ⟨p, hp, hI, hx2, hthr⟩ := lossWalk_lost _ _ _ _ _ _ x hx
      refine ⟨p, hp, by rw [hx2], hI, ?_⟩
      rcases hthr with ht | ht
      · left; omega
      · right; exact ⟨x.1, by simpa [packetThreshold] using ht⟩

end GmQuic.Props.C13
