import GmQuic.Model.Recovery
namespace GmQuic.Props.C13
open GmQuic.Recovery

theorem placeholder_true : True := trivial

end GmQuic.Props.C13
