import GmQuic.Model.Wake
import GmQuic.Lemmas.Wake
import GmQuic.Model.WakeAA
import GmQuic.Model.Wake2
import GmQuic.Lemmas.Wake2
import GmQuic.Model.Wake3
import GmQuic.Lemmas.Wake3
import GmQuic.Model.Wake4
import GmQuic.Lemmas.Wake4
import GmQuic.Model.Wake5
import GmQuic.Lemmas.Wake5
import GmQuic.Model.WakeCid
import GmQuic.Lemmas.WakeCid
import GmQuic.Model.WakeFlow
import GmQuic.Lemmas.WakeFlow
import GmQuic.Model.WakeWakers
import GmQuic.Lemmas.WakeWakers
import GmQuic.Lemmas.WakeAA
/-!
C16 — no wake-up is ever lost.  Property theorems only.

Vocabulary (Model/Wake.lean): `run P sched` folds the protocol's atomic (lock-protected) steps over a schedule and
tracks the *sleepers*: tasks whose last poll answered `Pending`, that did not drop their future, and none of whose
wakers has been woken since (DESIGN Appendix A: `asleep ∧ ¬ wakePending`).  `cond P s x`: sleeper `x`'s own poll,
repeated in state `s`, would not answer `Pending`.  At lock granularity a notifier is never "midway" (set + notify
happen inside one critical section), so the Appendix-A disjunct `notifierMidway` is `False` for every mutex-based
instance; it appears only in the atomics-based `AntiAmplifier` instance.
-/
namespace GmQuic.Wake

/-! ### generic statements (DESIGN Appendix A), instantiated below -/

/-- For EVERY schedule (any length, any number of tasks / wakers / notifiers) of ops allowed by `ok`:
nobody sleeps on a satisfied condition. -/
theorem no_lost_wakeup (P : WaitProto) {ok : P.Op → Prop} (h : Sound P ok) (sched : List P.Op)
    (hok : ∀ op ∈ sched, ok op) :
    ∀ x ∈ (run P sched).slp, ¬ cond P (run P sched).st x := by
  intro x hx hc
  exact hc (h.safe _ _ x (h.run_inv sched hok) hx)

/-- For EVERY schedule: the close operation wakes every sleeper. -/
theorem close_wakes_all (P : WaitProto) {ok : P.Op → Prop} (h : CloseSound P ok) (sched : List P.Op)
    (hok : ∀ op ∈ sched, ok op) :
    ∀ x ∈ (run P sched).slp, x.w ∈ (P.step (run P sched).st P.close).2.wakes := by
  intro x hx
  exact h.closeWakes _ _ x (h.toSound.run_inv sched hok) hx

/-- hence: after the close operation nobody is asleep. -/
theorem close_leaves_no_sleeper (P : WaitProto) {ok : P.Op → Prop} (h : CloseSound P ok) (sched : List P.Op)
    (hok : ∀ op ∈ sched, ok op) (hnp : P.pollBy P.close = none) :
    (run P (sched ++ [P.close])).slp = [] := by
  have hall := close_wakes_all P h sched hok
  simp only [run] at hall
  simp only [run, List.foldl_append, List.foldl_cons, List.foldl_nil]
  simp only [Run.step, nextSlp, hnp]
  apply List.eq_nil_iff_forall_not_mem.mpr
  intro x hx
  simp only [List.mem_filter, Bool.not_eq_eq_eq_not, Bool.not_true, List.contains_eq_mem,
    decide_eq_false_iff_not] at hx
  have hx1 := hx.1
  have : x ∈ (List.foldl (Run.step P) (Run.init P) sched).slp := by
    cases hd : P.dropBy P.close with
    | some t => simp only [hd, List.mem_filter] at hx1; exact hx1.1
    | none => simpa only [hd] using hx1
  exact hx.2 (hall x this)

/-! ### 1. AsyncDeque — one waker slot; single waiting task (a second waker panics, explicit in the model) -/

theorem deque_no_lost_wakeup_partial (sched : List Deque.Op) (h1 : ∀ op ∈ sched, SingleTask Deque.proto op) :
    ∀ x ∈ (run Deque.proto sched).slp, ¬ cond Deque.proto (run Deque.proto sched).st x :=
  no_lost_wakeup _ Deque.sound.toSound sched h1

theorem deque_close_wakes_all (sched : List Deque.Op) (h1 : ∀ op ∈ sched, SingleTask Deque.proto op) :
    ∀ x ∈ (run Deque.proto sched).slp, x.w ∈ (Deque.step (run Deque.proto sched).st .close).2.wakes :=
  close_wakes_all _ Deque.sound sched h1

-- non-vacuity: a single-task schedule with a sleeper whose waker changed between polls
example : (∀ op ∈ [Deque.Op.poll 0 1, .pushBack 7, .poll 0 1, .poll 0 2], SingleTask Deque.proto op) ∧
    ((run Deque.proto [Deque.Op.poll 0 1, .pushBack 7, .poll 0 1, .poll 0 2]).slp.map (fun x => (x.t, x.w))) = [(0, 2)] := by
  refine ⟨?_, by decide⟩
  intro op hop t w hp
  simp only [List.mem_cons, List.not_mem_nil, or_false] at hop
  rcases hop with rfl | rfl | rfl | rfl <;> simp [Deque.proto] at hp <;> exact hp.1.symm

/-! ### 2. Receiving -/

/-- the pinned code: `poll` ignores `cx` — the sleeper is never woken although the frame arrived. -/
theorem receiving_pinned_no_lost_wakeup_fails :
    ¬ (∀ sched : List Receiving.Op, (∀ op ∈ sched, SingleTask (Receiving.proto false) op) →
        ∀ x ∈ (run (Receiving.proto false) sched).slp, ¬ cond (Receiving.proto false) (run (Receiving.proto false) sched).st x) := by
  intro h
  have := h [.poll 0 0, .recv 5] (by
    intro op hop t w hp
    simp only [List.mem_cons, List.not_mem_nil, or_false] at hop
    rcases hop with rfl | rfl <;> simp [Receiving.proto] at hp <;> exact hp.1.symm)
    ⟨0, 0, .poll 0 0⟩ (List.mem_cons_self ..)
  apply this
  simp [cond, run, Run.step, Run.init, Receiving.proto, Receiving.step]

/-- with repo_patches/fix-C16-receiving-waker.diff: full statement for one waiting task (any wakers). -/
theorem receiving_no_lost_wakeup_partial (sched : List Receiving.Op)
    (h1 : ∀ op ∈ sched, SingleTask (Receiving.proto true) op) :
    ∀ x ∈ (run (Receiving.proto true) sched).slp, ¬ cond (Receiving.proto true) (run (Receiving.proto true) sched).st x :=
  no_lost_wakeup _ Receiving.sound.toSound sched h1

theorem receiving_close_wakes_all (sched : List Receiving.Op)
    (h1 : ∀ op ∈ sched, SingleTask (Receiving.proto true) op) :
    ∀ x ∈ (run (Receiving.proto true) sched).slp,
      x.w ∈ (Receiving.step true (run (Receiving.proto true) sched).st .reset).2.wakes :=
  close_wakes_all _ Receiving.sound sched h1

/-- one waker slot: with two tasks waiting at once the first one is lost (why `SingleTask` is needed;
`ArcReceiving` hands the single frame to one consumer, two concurrent waiters are not a legitimate use). -/
theorem receiving_no_lost_wakeup_fails :
    ¬ (∀ sched : List Receiving.Op,
        ∀ x ∈ (run (Receiving.proto true) sched).slp, ¬ cond (Receiving.proto true) (run (Receiving.proto true) sched).st x) := by
  intro h
  have := h [.poll 0 0, .poll 1 1, .recv 5]
    ⟨0, 0, .poll 0 0⟩ (List.mem_cons_self ..)
  apply this
  simp [cond, run, Run.step, Run.init, Receiving.proto, Receiving.step]

/-! ### 3. SendWaker -/

theorem sendwaker_no_lost_wakeup_partial (sched : List SendWaker.Op)
    (h1 : ∀ op ∈ sched, SingleTask SendWaker.proto op) :
    ∀ x ∈ (run SendWaker.proto sched).slp, ¬ cond SendWaker.proto (run SendWaker.proto sched).st x :=
  no_lost_wakeup _ SendWaker.sound sched h1

/-- one waker slot + one state word: a second task waiting for a subset of the first task's signals takes
both over; the first is never woken although its poll would be `Ready`. -/
theorem sendwaker_no_lost_wakeup_fails :
    ¬ (∀ sched : List SendWaker.Op,
        ∀ x ∈ (run SendWaker.proto sched).slp, ¬ cond SendWaker.proto (run SendWaker.proto sched).st x) := by
  intro h
  have := h [.poll 0 0 3, .poll 1 1 1, .wakeBy 2]
    ⟨0, 0, .poll 0 0 3⟩ (List.mem_cons_of_mem _ (List.mem_cons_self ..))
  apply this
  unfold cond
  decide

/-! ### 4. opening a stream (`poll_open_*_stream` → `poll_alloc_sid`), any number of waiting tasks -/

/-- the pinned code: `on_conn_error` does not wake the tasks waiting for a stream id. -/
theorem open_pinned_no_lost_wakeup_fails :
    ¬ (∀ sched : List LocalSid.Op,
        ∀ x ∈ (run (LocalSid.proto false) sched).slp, ¬ cond (LocalSid.proto false) (run (LocalSid.proto false) sched).st x) := by
  intro h
  have := h [.poll 0 0 false, .connError] ⟨0, 0, .poll 0 0 false⟩
    (List.mem_cons_self ..)
  apply this
  simp [cond, run, Run.step, Run.init, LocalSid.proto, LocalSid.step, LocalSid.sel, LocalSid.upd, LocalSid.limit]

theorem open_pinned_close_wakes_all_fails :
    ¬ (∀ sched : List LocalSid.Op, ∀ x ∈ (run (LocalSid.proto false) sched).slp,
        x.w ∈ (LocalSid.step false (run (LocalSid.proto false) sched).st .connError).2.wakes) := by
  intro h
  have := h [.poll 0 0 false] ⟨0, 0, .poll 0 0 false⟩
    (List.mem_cons_self ..)
  simp [run, Run.step, Run.init, LocalSid.proto, LocalSid.step, LocalSid.sel, LocalSid.upd, LocalSid.limit] at this

/-- with repo_patches/fix-C16-sid-wake-on-error.diff: full statement, ALL schedules, any number of tasks. -/
theorem open_no_lost_wakeup (sched : List LocalSid.Op) :
    ∀ x ∈ (run (LocalSid.proto true) sched).slp, ¬ cond (LocalSid.proto true) (run (LocalSid.proto true) sched).st x :=
  no_lost_wakeup _ LocalSid.sound.toSound sched (fun _ _ => trivial)

theorem open_close_wakes_all (sched : List LocalSid.Op) :
    ∀ x ∈ (run (LocalSid.proto true) sched).slp,
      x.w ∈ (LocalSid.step true (run (LocalSid.proto true) sched).st .connError).2.wakes :=
  close_wakes_all _ LocalSid.sound sched (fun _ _ => trivial)

-- non-vacuity: three tasks asleep in two directions
example : ((run (LocalSid.proto true) [.poll 0 0 false, .poll 1 1 true, .maxStreams true 1, .poll 2 2 false, .poll 1 1 true, .poll 1 3 true]).slp.map
    (fun x => (x.t, x.w))) = [(1, 3), (2, 2), (0, 0)] := by decide

/-! ### 6. peer transport parameters (`ArcParameters::remote_ready`), any number of waiting tasks -/

/-- full statement, ALL schedules, any number of waiting tasks (the close path wakes through `Drop for Parameters`). -/
theorem params_no_lost_wakeup (sched : List Params.Op) :
    ∀ x ∈ (run Params.proto sched).slp, ¬ cond Params.proto (run Params.proto sched).st x :=
  no_lost_wakeup _ Params.sound.toSound sched (fun _ _ => trivial)

theorem params_close_wakes_all (sched : List Params.Op) :
    ∀ x ∈ (run Params.proto sched).slp,
      x.w ∈ (Params.step (run Params.proto sched).st .connError).2.wakes :=
  close_wakes_all _ Params.sound sched (fun _ _ => trivial)

example : ((run Params.proto [.poll 0 0, .recvParams, .poll 1 1, .poll 0 2]).slp.map (fun x => (x.t, x.w))) = [(0, 2), (1, 1)] := by
  decide

/-! ### 7. keys (`KeysState`, `OneRttKeysState`) — one slot, a second waker is `unreachable!` (explicit panic outcome) -/

theorem keys_no_lost_wakeup_partial (oneRtt : Bool) (sched : List Keys.Op)
    (h1 : ∀ op ∈ sched, SingleTask (Keys.proto oneRtt) op) :
    ∀ x ∈ (run (Keys.proto oneRtt) sched).slp, ¬ cond (Keys.proto oneRtt) (run (Keys.proto oneRtt) sched).st x :=
  no_lost_wakeup _ (Keys.sound oneRtt).toSound sched h1

theorem keys_close_wakes_all (oneRtt : Bool) (sched : List Keys.Op)
    (h1 : ∀ op ∈ sched, SingleTask (Keys.proto oneRtt) op) :
    ∀ x ∈ (run (Keys.proto oneRtt) sched).slp,
      x.w ∈ (Keys.step oneRtt (run (Keys.proto oneRtt) sched).st .invalid).2.wakes :=
  close_wakes_all _ (Keys.sound oneRtt) sched h1

/-- the slot is not cleared when the waiting future is dropped: the next task (another waker) panics. -/
theorem keys_second_waker_panics (oneRtt : Bool) :
    (Keys.step oneRtt (run (Keys.proto oneRtt) [.poll 0 0, .dropfut 0]).st (.poll 1 1)).2.res = .panic := by
  cases oneRtt <;> decide

/-! ### 8. DatagramReader — one slot, overwritten by every Pending poll -/

theorem dgram_no_lost_wakeup_partial (sched : List Dgram.Op) (h1 : ∀ op ∈ sched, SingleTask Dgram.proto op) :
    ∀ x ∈ (run Dgram.proto sched).slp, ¬ cond Dgram.proto (run Dgram.proto sched).st x :=
  no_lost_wakeup _ Dgram.sound.toSound sched h1

theorem dgram_close_wakes_all (sched : List Dgram.Op) (h1 : ∀ op ∈ sched, SingleTask Dgram.proto op) :
    ∀ x ∈ (run Dgram.proto sched).slp, x.w ∈ (Dgram.step (run Dgram.proto sched).st .connError).2.wakes :=
  close_wakes_all _ Dgram.sound sched h1

/-- `new_reader()` may be called repeatedly; two readers waiting at once: the first is never woken. -/
theorem dgram_no_lost_wakeup_fails :
    ¬ (∀ sched : List Dgram.Op,
        ∀ x ∈ (run Dgram.proto sched).slp, ¬ cond Dgram.proto (run Dgram.proto sched).st x) := by
  intro h
  have := h [.poll 0 0, .poll 1 1, .recv 5, .recv 6, .poll 1 1] ⟨0, 0, .poll 0 0⟩ (List.mem_cons_self ..)
  apply this
  unfold cond; decide

/-! ### 9. stream sender: writable / flush / shutdown wakers across Ready → Sending → DataSent → DataRcvd / reset / error.
`Writer`'s methods take `&mut self`: ONE owner task (task 0; `cancel` is its own action).  Includes the
Sending→DataSent upgrade that DROPS `writable_waker`: under one owner nobody is left asleep (after `poll_shutdown` the
owner's wait is the shutdown slot). -/

theorem sender_no_lost_wakeup_partial (m : Nat) (sched : List Snd.Op) (h1 : ∀ op ∈ sched, SingleTask (Snd.proto m) op) :
    ∀ x ∈ (run (Snd.proto m) sched).slp, ¬ cond (Snd.proto m) (run (Snd.proto m) sched).st x :=
  no_lost_wakeup _ (Snd.sound m).toSound sched h1

theorem sender_close_wakes_all (m : Nat) (sched : List Snd.Op) (h1 : ∀ op ∈ sched, SingleTask (Snd.proto m) op) :
    ∀ x ∈ (run (Snd.proto m) sched).slp, x.w ∈ (Snd.step (run (Snd.proto m) sched).st .connError).2.wakes :=
  close_wakes_all _ (Snd.sound m) sched h1

/-- two tasks sharing a `Writer` (e.g. behind a mutex): the writer task blocked on the window is not woken when
another task calls `poll_shutdown`, although its `poll_write` would now answer `EosSent` — the loss happens at
`poll_shutdown`, before (and independently of) the upgrade that drops `writable_waker`. -/
theorem sender_no_lost_wakeup_fails :
    ¬ (∀ sched : List Snd.Op,
        ∀ x ∈ (run (Snd.proto 0) sched).slp, ¬ cond (Snd.proto 0) (run (Snd.proto 0) sched).st x) := by
  intro h
  have := h [.poll 0 0 (.write 1), .poll 1 1 .shutdown] ⟨0, 0, .poll 0 0 (.write 1)⟩
    (List.mem_cons_of_mem _ (List.mem_cons_self ..))
  apply this
  unfold cond; decide

-- non-vacuity: one owner; blocked writer, then shutdown, FIN emitted (DataSent: writable slot dropped), owner asleep on shutdown
example : (run (Snd.proto 2) [.poll 0 0 (.write 3), .poll 0 0 (.write 1), .load, .poll 0 1 .shutdown, .window 9, .load]).st.phase = .dataSent ∧
    ((run (Snd.proto 2) [.poll 0 0 (.write 3), .poll 0 0 (.write 1), .load, .poll 0 1 .shutdown, .window 9, .load]).slp.map (fun x => (x.t, x.w))) = [(0, 1)] := by
  decide

/-! ### 10. stream receiver: `read_waker` across Recv → SizeKnown → DataRcvd, RESET_STREAM, connection error -/

theorem receiver_no_lost_wakeup_partial (fx : Bool) (m : Nat) (sched : List Rcv.Op)
    (h1 : ∀ op ∈ sched, SingleTask (Rcv.proto fx m) op) :
    ∀ x ∈ (run (Rcv.proto fx m) sched).slp, ¬ cond (Rcv.proto fx m) (run (Rcv.proto fx m) sched).st x :=
  no_lost_wakeup _ (Rcv.sound fx m) sched h1

/-- the pinned code: an INVALID RESET_STREAM removes the stream from the input map before it is validated; the
connection error that follows no longer reaches the reader, which stays asleep (and never learns of the error). -/
theorem receiver_pinned_close_wakes_all_fails :
    ¬ (∀ sched : List Rcv.Op, (∀ op ∈ sched, SingleTask (Rcv.proto false 100) op) →
        ∀ x ∈ (run (Rcv.proto false 100) sched).slp,
          x.w ∈ (Rcv.step false (run (Rcv.proto false 100) sched).st .connError).2.wakes) := by
  intro h
  have := h [.data 0 3 false, .poll 0 0 5, .poll 0 0 5, .reset 1] (by
    intro op hop t w hp
    simp only [List.mem_cons, List.not_mem_nil, or_false] at hop
    rcases hop with rfl | rfl | rfl | rfl <;> simp [Rcv.proto] at hp <;> exact hp.1.symm)
    ⟨0, 0, .poll 0 0 5⟩ (List.mem_cons_self ..)
  revert this
  simp [run, Run.step, Run.init, Rcv.proto, Rcv.step, Rcv.init, Rcv.waiting, nextSlp, takeWake,
    RecvBuf.recv, RecvBuf.ins, RecvBuf.isReadable, RecvBuf.tryRead, RecvBuf.readGo]

/-- with repo_patches/fix-C16-reset-validate-before-remove.diff -/
theorem receiver_close_wakes_all (m : Nat) (sched : List Rcv.Op) (h1 : ∀ op ∈ sched, SingleTask (Rcv.proto true m) op) :
    ∀ x ∈ (run (Rcv.proto true m) sched).slp,
      x.w ∈ (Rcv.step true (run (Rcv.proto true m) sched).st .connError).2.wakes :=
  close_wakes_all _ (Rcv.soundClose m) sched h1

/-! ### 11. Listener (accept_bi / accept_uni): one slot per direction -/

theorem listener_no_lost_wakeup_partial (m : Nat) (sched : List Listen.Op)
    (h1 : ∀ op ∈ sched, SingleTask (Listen.proto m) op) :
    ∀ x ∈ (run (Listen.proto m) sched).slp, ¬ cond (Listen.proto m) (run (Listen.proto m) sched).st x :=
  no_lost_wakeup _ (Listen.sound m).toSound sched h1

theorem listener_close_wakes_all (m : Nat) (sched : List Listen.Op)
    (h1 : ∀ op ∈ sched, SingleTask (Listen.proto m) op) :
    ∀ x ∈ (run (Listen.proto m) sched).slp, x.w ∈ (Listen.step (run (Listen.proto m) sched).st .connError).2.wakes :=
  close_wakes_all _ (Listen.sound m) sched h1

/-- two acceptor tasks (`accept_bi(&self)` on a shared connection handle): the second overwrites the first's waker;
two streams arrive, the second task takes one, the first sleeps on a non-empty queue. -/
theorem listener_no_lost_wakeup_fails :
    ¬ (∀ sched : List Listen.Op,
        ∀ x ∈ (run (Listen.proto 8) sched).slp, ¬ cond (Listen.proto 8) (run (Listen.proto 8) sched).st x) := by
  intro h
  have := h [.poll 0 0 false, .poll 1 1 false, .arrive false 1, .poll 1 1 false] ⟨0, 0, .poll 0 0 false⟩
    (List.mem_cons_self ..)
  apply this
  unfold cond; decide

/-! ### 12. `SendWakers::wake_all_by` fan-out: one burst task per path -/

theorem fanout_no_lost_wakeup_partial (sched : List Fan.Op) (h1 : ∀ op ∈ sched, Fan.OneTaskPerPath op) :
    ∀ x ∈ (run Fan.proto sched).slp, ¬ cond Fan.proto (run Fan.proto sched).st x :=
  no_lost_wakeup _ Fan.sound sched h1

/-- a signal wakes EVERY registered path whose task is asleep waiting for one of its bits -/
theorem fanout_reaches_every_matching_path (sched : List Fan.Op) (h1 : ∀ op ∈ sched, Fan.OneTaskPerPath op)
    (x : Sleeper Fan.Op) (hx : x ∈ (run Fan.proto sched).slp) (sig sg : BitVec 16)
    (hop : x.op = .poll x.t x.w sig) (hreg : Fan.registered (run Fan.proto sched).st x.t = true)
    (hm : sg &&& sig ≠ 0) :
    x.w ∈ (Fan.step (run Fan.proto sched).st (.wakeAll sg)).2.wakes :=
  Fan.fanout _ _ x (Fan.sound.run_inv sched h1) hx sig sg hop hreg hm

example : ((run Fan.proto [.insert false, .insert true, .poll 0 0 1, .poll 1 1 3, .wakeAll 4]).slp.map (fun x => (x.t, x.w))) = [(1, 1), (0, 0)]
    ∧ (Fan.step (run Fan.proto [.insert false, .insert true, .poll 0 0 1, .poll 1 1 3, .wakeAll 4]).st (.wakeAll 1)).2.wakes = [0, 1] := by
  decide

/-! ### 13/14. crypto stream (no close operation exists on either half) -/

/-- the pinned code: `flush_waker` is stored by `poll_flush` and never woken by anything. -/
theorem cryptowriter_pinned_no_lost_wakeup_fails :
    ¬ (∀ sched : List CrW.Op, (∀ op ∈ sched, SingleTask (CrW.proto false) op) →
        ∀ x ∈ (run (CrW.proto false) sched).slp, ¬ cond (CrW.proto false) (run (CrW.proto false) sched).st x) := by
  intro h
  have := h [.poll 0 0 (some 3), .load, .poll 0 0 none, .ack] (by
    intro op hop t w hp
    simp only [List.mem_cons, List.not_mem_nil, or_false] at hop
    rcases hop with rfl | rfl | rfl | rfl <;> simp [CrW.proto] at hp <;> exact hp.1.symm)
    ⟨0, 0, .poll 0 0 none⟩ (List.mem_cons_self ..)
  apply this
  unfold cond; decide

/-- with repo_patches/fix-C16-crypto-flush-waker.diff -/
theorem cryptowriter_no_lost_wakeup_partial (sched : List CrW.Op) (h1 : ∀ op ∈ sched, SingleTask (CrW.proto true) op) :
    ∀ x ∈ (run (CrW.proto true) sched).slp, ¬ cond (CrW.proto true) (run (CrW.proto true) sched).st x :=
  no_lost_wakeup _ CrW.sound sched h1

example : ((run (CrW.proto true) [.poll 0 0 (some 3), .load, .poll 0 0 none]).slp.map (fun x => (x.t, x.w))) = [(0, 0)] ∧
    (CrW.step true (run (CrW.proto true) [.poll 0 0 (some 3), .load, .poll 0 0 none]).st .ack).2.wakes = [0] := by decide

theorem cryptoreader_no_lost_wakeup_partial (sched : List CrR.Op) (h1 : ∀ op ∈ sched, SingleTask CrR.proto op) :
    ∀ x ∈ (run CrR.proto sched).slp, ¬ cond CrR.proto (run CrR.proto sched).st x :=
  no_lost_wakeup _ CrR.sound sched h1

/-! ### 15. `CidCell::borrow_cid` + the path's `SendWaker`: two critical sections on the waiter's side, all interleavings
with any number of `assign` / `retire` calls (each one critical section including its `wake_by`) -/

theorem cidcell_no_lost_wakeup (sched : List Cid.Op) :
    let s := Cid.run sched
    Cid.asleep s → ¬ Cid.wakePending s → ¬ Cid.cond s := by
  intro s hs hw hc
  have h := Cid.run_inv sched
  have hw' : s.woken = false := by
    cases hb : s.woken with
    | false => rfl
    | true => exact absurd hb hw
  have h1 := (h.a hs hw').1
  have h2 := h.b (Or.inr hs) hc
  change (Cid.run sched).bit = false at h1
  rw [h2] at h1; cases h1

/-- `retire` (the cell's close) wakes a sleeper -/
theorem cidcell_close_wakes (sched : List Cid.Op) (hs : Cid.asleep (Cid.run sched)) (hw : ¬ Cid.wakePending (Cid.run sched)) :
    Cid.wakePending (Cid.step (Cid.run sched) .retire) := by
  have h := Cid.run_inv sched
  have hnc := cidcell_no_lost_wakeup sched hs hw
  have hw' : (Cid.run sched).woken = false := by
    cases hb : (Cid.run sched).woken with
    | false => rfl
    | true => exact absurd hb hw
  have ha := h.a hs hw'
  have hd := h.d (Or.inr hs) hnc
  simp only [Cid.cond, not_or, Bool.not_eq_true] at hnc
  simp [Cid.wakePending, Cid.step, Cid.takeWakeBy, Cid.wakeBy, hnc.2, hd, ha.1, ha.2]

-- non-vacuity: asleep without an id; the assignment between `borrow_cid` and `wait_for` is not lost either
example : Cid.asleep (Cid.run [.waiter, .waiter]) ∧ ¬ Cid.wakePending (Cid.run [.waiter, .waiter]) ∧
    (Cid.run [.waiter, .assign, .waiter]).wpc = .c0 := by
  simp only [Cid.asleep, Cid.wakePending]; decide

/-! ### 16. connection-level send flow-control credit (`ArcSendControler`) + the path's `SendWaker` bit FLOW_CONTROL:
per critical section, ALL interleavings of the sending task (`credit` / drop of the `Credit` / `wait_for`) with any number
of MAX_DATA frames, handshake revisions (0-RTT accepted or rejected), other paths taking and returning credit, `on_error`. -/

theorem flow_no_lost_wakeup (m : Nat) (sched : List Flow.Op) :
    let s := Flow.run m sched
    Flow.asleep s → ¬ Flow.wakePending s → ¬ Flow.cond s := by
  intro s hs hw hc
  have h := Flow.run_inv m sched
  have hw' : s.woken = false := by
    cases hb : s.woken with
    | false => rfl
    | true => exact absurd hb hw
  have h1 := (h.a hs hw').1
  have h2 := h.b (Or.inr (Or.inr hs)) hc
  change (Flow.run m sched).bit = false at h1
  rw [h2] at h1; cases h1

-- non-vacuity: parked at the remembered limit; a rejected-0-RTT revision to a larger limit wakes the sender,
-- and one that arrives between the check and the park is observed (the sender does not go to sleep)
example : Flow.asleep (Flow.run 5 [.waiter 9 9, .waiter 0 9, .waiter 9 9, .waiter 0 0, .waiter 0 0]) ∧
    ¬ Flow.wakePending (Flow.run 5 [.waiter 9 9, .waiter 0 9, .waiter 9 9, .waiter 0 0, .waiter 0 0]) ∧
    Flow.wakePending (Flow.run 5 [.waiter 9 9, .waiter 0 9, .waiter 9 9, .waiter 0 0, .waiter 0 0, .revise true 20]) ∧
    (Flow.run 5 [.waiter 9 9, .waiter 0 9, .waiter 9 9, .waiter 0 0, .revise true 20, .waiter 0 0]).wpc = .w0 := by
  simp only [Flow.asleep, Flow.wakePending]; decide

/-! ### 17. `Wakers::combine_with`: register, THEN poll — per step, any number of tasks, notifier between any two steps -/

theorem wakers_no_lost_wakeup (sched : List Wks.Op) (t : Nat) :
    let s := Wks.run true sched
    Wks.asleep s t → ¬ Wks.wakePending s t → ¬ Wks.cond s := by
  intro s hs hw hc
  have h := Wks.run_inv sched
  have hw' : s.woken t = false := by
    cases hb : s.woken t with
    | false => rfl
    | true => exact absurd hb hw
  have := (h.i2 t hs hw').2.2
  change (Wks.run true sched).ready = false at this
  rw [hc] at this; cases this

/-- dropping the `Wakers` (`Drop for WakerVec`) wakes every sleeper -/
theorem wakers_close_wakes_all (sched : List Wks.Op) (t : Nat) (hs : Wks.asleep (Wks.run true sched) t) :
    Wks.wakePending (Wks.step true (Wks.run true sched) .dropAll) t := by
  have h := Wks.run_inv sched
  cases hb : (Wks.run true sched).woken t with
  | true => simp [Wks.wakePending, Wks.step, Wks.wakeAll, hb]
  | false =>
    have := (h.i2 t hs hb).1
    simp [Wks.wakePending, Wks.step, Wks.wakeAll, this]

/-- the reordering "poll, then register only if Pending" loses the notification that falls between the two steps -/
theorem wakers_poll_then_register_fails :
    ¬ (∀ (sched : List Wks.Op) (t : Nat),
        Wks.asleep (Wks.run false sched) t → ¬ Wks.wakePending (Wks.run false sched) t → ¬ Wks.cond (Wks.run false sched)) := by
  intro h
  exact h [.start 0, .notify, .finish 0] 0 (by simp [Wks.asleep, Wks.run, Wks.step, Wks.init, Wks.inner, Wks.register, Wks.set, Wks.wakeAll])
    (by simp [Wks.wakePending, Wks.run, Wks.step, Wks.init, Wks.inner, Wks.register, Wks.set, Wks.wakeAll])
    (by simp [Wks.cond, Wks.run, Wks.step, Wks.init, Wks.inner, Wks.register, Wks.set, Wks.wakeAll])

example : Wks.asleep (Wks.run true [.start 0, .start 1, .finish 0, .finish 1]) 0 ∧
    Wks.asleep (Wks.run true [.start 0, .start 1, .finish 0, .finish 1]) 1 ∧
    Wks.wakePending (Wks.run true [.start 0, .start 1, .finish 0, .notify, .finish 1]) 1 := by
  simp [Wks.asleep, Wks.wakePending, Wks.run, Wks.step, Wks.init, Wks.inner, Wks.register, Wks.set, Wks.wakeAll]

/-! ### 5. `AntiAmplifier::balance` + `SendWaker` — per atomic operation, ALL interleavings of the waiter with any
number of concurrent `on_rcvd` / `grant` / `abort` invocations (DESIGN Appendix A shape, verbatim) -/

theorem aa_no_lost_wakeup (sched : List AA.Op) :
    let s := AA.run sched
    AA.asleep s → ¬ AA.wakePending s → (¬ AA.cond s ∨ AA.notifierMidway s) := by
  intro s hs hw
  have h := AA.run_inv sched
  have hw' : s.woken = false := by
    cases hb : s.woken with
    | false => rfl
    | true => exact absurd hb hw
  have ha := h.a hs hw'
  by_cases hc : AA.cond s
  · right
    have := h.b3 (Or.inr hs) hc
    rcases this with hbit | h2 | h3
    · have h1 := ha.1
      change (AA.run sched).bit = true at hbit
      rw [hbit] at h1; cases h1
    · exact Or.inl h2
    · exact Or.inr h3
  · exact Or.inl hc

/-- hence at quiescence (no notifier between its set and its notify) a sleeper implies the condition is false -/
theorem aa_quiescent_sleeper_has_no_credit (sched : List AA.Op)
    (hs : AA.asleep (AA.run sched)) (hw : ¬ AA.wakePending (AA.run sched))
    (hq : ¬ AA.notifierMidway (AA.run sched)) : (AA.run sched).credit = 0 ∧ (AA.run sched).st = 0 := by
  rcases aa_no_lost_wakeup sched hs hw with h | h
  · simp only [AA.cond, not_or, Nat.not_lt, Nat.le_zero, ne_eq, Decidable.not_not] at h
    exact h
  · exact absurd h hq

-- non-vacuity: the waiter is asleep, credit has been added, the notifier has not yet called wake_by (midway) …
example : let s := AA.run [.waiter, .waiter, .waiter, .rcvdLoad, .waiter, .rcvdAdd 3]
    AA.asleep s ∧ ¬ AA.wakePending s ∧ AA.cond s ∧ AA.notifierMidway s := by
  simp only [AA.asleep, AA.wakePending, AA.cond, AA.notifierMidway]; decide
-- … and a state where it is asleep with nothing pending and the condition false
example : let s := AA.run [.waiter, .waiter, .waiter, .waiter]
    AA.asleep s ∧ ¬ AA.wakePending s ∧ ¬ AA.cond s ∧ ¬ AA.notifierMidway s := by
  simp only [AA.asleep, AA.wakePending, AA.cond, AA.notifierMidway]; decide

end GmQuic.Wake
