import GmQuic.Lemmas.SidInv
import GmQuic.Lemmas.StreamOffer
import GmQuic.Spec.Rfc9000Streams
/-!
C12 — stream limits, stream direction and final size are enforced.

All theorems are about the executable models `GmQuic.Sid` (`qbase/src/sid/**`) and `GmQuic.StreamRules`
(+ `GmQuic.StreamWindow.RecvHalf`, C11's model of `recv/recver.rs`), which are tied to the real code by the
exact correspondence runs `C12i`, `C12x`, `C12e`, `C12d`.  Statements quantify over all roles, initial
limits, strategies (an arbitrary `Strategy κ` where possible) and all operation histories.
-/
namespace GmQuic.Sid

/-! ## 1. An endpoint never opens more streams than its peer allows -/

/-- Every state, hence every history (0-RTT rejection included): `poll_alloc_sid` hands out the next unused
index of the kind, and only while it is below the limit in force at that moment. -/
theorem alloc_below_limit (l : Local) (d : Dir) (s : Nat) (h : (l.step (.alloc d)).2 = .sid s) :
    s = sid l.role d (l.unalloc.get d) ∧ l.unalloc.get d < l.max.get d := by
  rcases Local.step_alloc_cases l d with ⟨_, _, _, _, _, hn⟩ | ⟨hlt, _, _, ho, _⟩
  · exact absurd h (hn s)
  · rw [ho] at h; injection h with h; exact ⟨h.symm, hlt⟩

example : (({ role := .client, max := ⟨2, 0⟩ } : Local).step (.alloc .bi)).2 = .sid 0 := by decide

/-- The limit the peer has granted so far: the initial parameter and every MAX_STREAMS / parameter value
(limits are cumulative and never decrease, RFC 9000 §4.6): `grantedOf`. -/
def grantStep (d : Dir) (g : Nat) : LOp → Nat
  | .maxStreams d' v => if d' = d then Max.max g v else g
  | .revise _ b u => Max.max g ((⟨b, u⟩ : Per).get d)
  | .alloc _ => g

def grantedOf (init : Per) (ops : List LOp) (d : Dir) : Nat := ops.foldl (grantStep d) (init.get d)

theorem max_le_granted_aux (ops : List LOp) (l : Local) (g : Nat) (d : Dir) (h : l.max.get d ≤ g)
    (hr : ∀ op ∈ ops, op.isRejection = false) :
    (l.run ops).max.get d ≤ ops.foldl (grantStep d) g := by
  induction ops generalizing l g with
  | nil => exact h
  | cons op ops ih =>
    show ((l.step op).1.run ops).max.get d ≤ ops.foldl (grantStep d) (grantStep d g op)
    apply ih
    · cases op with
      | alloc d' =>
        rcases Local.step_alloc_cases l d' with ⟨_, _, h3, _⟩ | ⟨_, _, _, _, _, _, h3, _⟩ <;> (rw [h3]; exact h)
      | maxStreams d' v =>
        simp only [Local.step, grantStep]
        split
        · split <;> (dsimp only; omega)
        · split
          · split <;> (dsimp only; omega)
          · rename_i l' w he
            obtain ⟨_, _, _, _, _, _, h7⟩ := Local.increase_frame he
            rw [h7]
            by_cases e : d = d'
            · subst e; simp only [if_true]; omega
            · have e' : ¬ d' = d := fun x => e x.symm
              simp only [e, e', if_false]; omega
      | revise rej b u =>
        have hrej : rej = false := by
          have := hr (.revise rej b u) List.mem_cons_self
          cases rej <;> simp_all [LOp.isRejection]
        subst hrej
        simp only [Local.step, grantStep]
        split
        · dsimp only; omega
        · simp only [Bool.false_eq_true, if_false]
          split
          · dsimp only; omega
          · rename_i l1 w1 he1
            obtain ⟨_, _, _, _, _, _, a7⟩ := Local.increase_frame he1
            have h1 : l1.max.get d ≤ Max.max g ((⟨b, u⟩ : Per).get d) := by
              rw [a7]; cases d <;> simp [Per.get] at h ⊢ <;> omega
            split
            · exact h1
            · rename_i l2 w2 he2
              obtain ⟨_, _, _, _, _, _, b7⟩ := Local.increase_frame he2
              rw [b7]; cases d <;> simp [Per.get] at h1 ⊢ <;> omega
    · exact fun o ho => hr o (List.mem_cons_of_mem _ ho)

/-- **never_open_beyond_limit** (histories without a 0-RTT rejection): per kind, the streams opened are
exactly the indices `0 .. n-1`, each once, with `n ≤` the limit in force `≤` the largest limit the peer
ever granted. -/
theorem never_open_beyond_limit_partial (role : Role) (mb mu : Nat) (l0 : Local)
    (h0 : Local.new role mb mu = some l0) (ops : List LOp) (hr : ∀ op ∈ ops, op.isRejection = false)
    (d : Dir) :
    let l := l0.run ops
    ofDir l.opened d = idsFrom l0.role d 0 (l.unalloc.get d) ∧
    l.unalloc.get d ≤ l.max.get d ∧ l.max.get d ≤ grantedOf ⟨mb, mu⟩ ops d := by
  refine ⟨?_, ?_, ?_⟩
  · have := Local.inv_run l0 ops (Local.inv_new h0) d
    have hrole : (l0.run ops).role = l0.role := by
      clear this hr h0
      induction ops generalizing l0 with
      | nil => rfl
      | cons op ops ih =>
        show (Local.run (l0.step op).1 ops).role = l0.role
        rw [ih]
        cases op with
        | alloc d' => rcases Local.step_alloc_cases l0 d' with ⟨_, _, _, h4, _⟩ | ⟨_, _, _, _, _, _, _, h4, _⟩ <;> exact h4
        | maxStreams d' v => exact (Local.step_limit_frame l0 _ (by intro d h; cases h)).2.2
        | revise r b u => exact (Local.step_limit_frame l0 _ (by intro d h; cases h)).2.2
    rw [hrole] at this; exact this
  · exact Local.within_run l0 ops hr (Local.within_new h0) d
  · have hm : l0.max.get d ≤ (⟨mb, mu⟩ : Per).get d := by
      unfold Local.new at h0; split at h0
      · injection h0 with h0; subst h0; exact Nat.le_refl _
      · cases h0
    exact max_le_granted_aux ops l0 _ d hm hr

example : (Local.new .client 1 0).isSome ∧
    ∀ op ∈ [LOp.alloc .bi, .maxStreams .bi 3, .alloc .bi, .alloc .bi], op.isRejection = false := by decide

/-- The same statement over ALL histories is false: `revise_max_streams(true, …)` (0-RTT rejected) lowers
the limit below the number of streams already opened, and nothing takes them back (replayed on a real
`DataStreams`: run `C12d`, probe `0rtt`). -/
theorem never_open_beyond_limit_fails :
    ¬ (∀ (role : Role) (mb mu : Nat) (l0 : Local), Local.new role mb mu = some l0 →
        ∀ (ops : List LOp) (d : Dir), (l0.run ops).unalloc.get d ≤ (l0.run ops).max.get d) := by
  intro h
  have := h .client 3 3 _ rfl [.alloc .uni, .alloc .uni, .alloc .uni, .revise true 1 1] .uni
  revert this
  decide

/-- What `opened_streams` (the gate of `try_load_data_into_once`: only streams with an index below it are
sent on, and of `check_local_created`) answers is within the limit in force and within what was handed out —
in EVERY state, hence after every history, a rejected 0-RTT included: the streams opened with the remembered
limit stay allocated (`never_open_beyond_limit_fails`: ids cannot be taken back) but are held back until the
peer raises the limit.  Before `fix-C12-0rtt-opened-streams` it answered `unallocated` (3 with a limit of 1). -/
theorem usable_streams_within_limit (l : Local) (d : Dir) :
    l.openedStreams d ≤ l.max.get d ∧ l.openedStreams d ≤ l.unalloc.get d := by
  unfold Local.openedStreams; omega

/-- … and without a 0-RTT rejection nothing is held back: every stream handed out is usable. -/
theorem usable_streams_all (role : Role) (mb mu : Nat) (l0 : Local) (h0 : Local.new role mb mu = some l0)
    (ops : List LOp) (hr : ∀ op ∈ ops, op.isRejection = false) (d : Dir) :
    (l0.run ops).openedStreams d = (l0.run ops).unalloc.get d := by
  have := Local.within_run l0 ops hr (Local.within_new h0) d
  unfold Local.openedStreams; omega

example : (({ role := .client, max := ⟨3, 3⟩ } : Local).run
    [.alloc .uni, .alloc .uni, .alloc .uni, .revise true 1 1]).openedStreams .uni = 1 := by decide

/-- For ALL histories (rejection included) every stream id is handed out at most once. -/
theorem opened_each_once (role : Role) (mb mu : Nat) (l0 : Local) (h0 : Local.new role mb mu = some l0)
    (ops : List LOp) : (l0.run ops).opened.Nodup :=
  nodup_of_ofDir fun d => by
    rw [Local.inv_run l0 ops (Local.inv_new h0) d]; exact idsFrom_nodup _ _ _ _

/-! ## 2. MAX_STREAMS / initial_max_streams beyond 2^60 (DESIGN §7 item 23) -/

/-- everything a varint field / transport parameter can carry -/
def LOp.wire : LOp → Bool
  | .maxStreams _ v => v ≤ VARINT_MAX
  | .revise _ b u => b ≤ VARINT_MAX && u ≤ VARINT_MAX
  | .alloc _ => true

theorem Local.increase_ne_none (l : Local) (d : Dir) (v : Nat) (h : v ≤ LIMIT) : l.increase d v ≠ none := by
  unfold Local.increase
  split
  · omega
  · split <;> simp

def LOp.bounded : LOp → Bool
  | .maxStreams _ v => v ≤ LIMIT
  | .revise _ b u => b ≤ LIMIT && u ≤ LIMIT
  | .alloc _ => true

/-- Every value a transport parameter / a hand-built frame can carry (`≤ 2^62-1`) is survived: false —
`assert!(val <= MAX_STREAMS_LIMIT)` in `increase_limit` panics with the lock held (replayed: `C12d`). -/
theorem limit_update_no_panic_fails :
    ¬ (∀ (l0 : Local) (ops : List LOp), l0.poisoned = false →
        (∀ op ∈ ops, op.wire = true) →
        (l0.run ops).poisoned = false) := by
  intro h
  have := h { role := .client, max := ⟨0, 0⟩ } [.revise false (2^60) 0] rfl (by decide)
  revert this
  decide

theorem limit_update_no_panic_partial (l0 : Local) (ops : List LOp) (h0 : l0.poisoned = false)
    (hb : ∀ op ∈ ops, op.bounded = true) : (l0.run ops).poisoned = false := by
  induction ops generalizing l0 with
  | nil => exact h0
  | cons op ops ih =>
    apply ih _ _ (fun o ho => hb o (List.mem_cons_of_mem _ ho))
    have hb0 := hb op List.mem_cons_self
    cases op with
    | alloc d =>
      rcases Local.step_alloc_cases l0 d with ⟨_, _, _, _, h5, _⟩ | ⟨_, _, _, _, _, _, _, _, h5⟩
      · rw [h5]; exact h0
      · exact h5
    | maxStreams d v =>
      simp only [LOp.bounded, decide_eq_true_eq] at hb0
      simp only [Local.step, h0, Bool.false_eq_true, if_false]
      split
      · rename_i he; exact absurd he (Local.increase_ne_none _ _ _ hb0)
      · rename_i l' w he
        rw [(Local.increase_frame he).2.2.2.1]; exact h0
    | revise rej b u =>
      simp only [LOp.bounded, Bool.and_eq_true, decide_eq_true_eq] at hb0
      simp only [Local.step, h0, Bool.false_eq_true, if_false]
      split
      · rename_i he; exact absurd he (Local.increase_ne_none _ _ _ hb0.1)
      · rename_i l1 w1 he1
        have p1 : l1.poisoned = false := by
          rw [(Local.increase_frame he1).2.2.2.1]; cases rej <;> simp [h0]
        split
        · rename_i he; exact absurd he (Local.increase_ne_none _ _ _ hb0.2)
        · rename_i l2 w2 he2
          rw [(Local.increase_frame he2).2.2.2.1]; exact p1

example : ∀ op ∈ [LOp.maxStreams .bi (2^60 - 1), .revise true 5 LIMIT], op.bounded = true := by decide

/-! ## 3. Peer stream ids: limit and implicit opening (all strategies) -/

/-- **implicit_open_each_once**: for every strategy and every history, the ids yielded by all `NeedCreate`s
have no duplicates, per kind they are exactly the indices `0 .. unallocated-1` in increasing order, hence
downward closed. -/
theorem implicit_open_each_once {κ : Type} (S : Strategy κ) (role : Role) (mb mu : Nat) (k : κ)
    (ops : List ROp) :
    let r := (Remote.new role mb mu k).run S ops
    r.created.Nodup ∧
    (∀ d, ofDir r.created d = idsFrom role d 0 (r.unalloc.get d)) ∧
    (∀ d i j, j ≤ i → sid role d i ∈ r.created → sid role d j ∈ r.created) := by
  intro r
  have hinv : r.Inv := Remote.inv_run S _ ops (Remote.inv_new role mb mu k)
  have hrole : r.role = role := Remote.run_role S _ ops
  refine ⟨hinv.nodup, ?_, ?_⟩
  · intro d; have := hinv d; rw [hrole] at this; exact this
  · intro d i j hji hi
    rw [← hrole] at hi ⊢
    rw [hinv.mem_iff] at hi ⊢; omega

example : ((Remote.new .server 10 5 CtrlSt.demand).run std [.accept 21, .accept 25, .accept 7, .accept 41]).created
    = [1, 5, 9, 13, 17, 21, 25, 3, 7, 29, 33, 37, 41] := by decide

/-- What one `AcceptSid::New(NeedCreate{start,end})` is: it starts at the cursor of the kind, ends at the
stream id used, and the index used does not exceed the limit in force. -/
theorem accept_new_range {κ : Type} (S : Strategy κ) (r : Remote κ) (s a b : Nat) (f : Option Nat)
    (h : (r.step S (.accept s)).2 = .new a b f) :
    a = sid r.role (sidDir s) (r.unalloc.get (sidDir s)) ∧ b = s ∧
    r.unalloc.get (sidDir s) ≤ sidIdx s ∧ sidIdx s ≤ r.max.get (sidDir s) ∧
    (r.step S (.accept s)).1.created =
      r.created ++ idsFrom r.role (sidDir s) (r.unalloc.get (sidDir s)) (sidIdx s + 1 - r.unalloc.get (sidDir s)) := by
  rcases Remote.step_accept_cases S r s with ⟨_, _, _, hn⟩ | ⟨hp, hr, hle, hge, hc, _, _⟩
  · exact absurd h (hn a b f)
  · have key : sid r.role (sidDir s) (r.unalloc.get (sidDir s)) = a ∧ sid r.role (sidDir s) (sidIdx s) = b := by
      simp only [Remote.step, hp, Bool.false_eq_true, if_false] at h
      have hr' : ¬ sidRole s ≠ r.role := by simp [hr]
      have h1 : ¬ sidIdx s > r.max.get (sidDir s) := by omega
      have h2 : ¬ sidIdx s < r.unalloc.get (sidDir s) := by omega
      simp only [hr', h1, h2, if_false] at h
      split at h
      · cases h
      · injection h with ha hb _
        exact ⟨ha, hb⟩
    refine ⟨key.1.symm, ?_, hge, hle, hc⟩
    rw [← key.2, ← hr]; exact sid_decomp s

/-- **peer_beyond_limit_rejected** as the code implements it: an index strictly ABOVE the limit is refused
and nothing changes. -/
theorem peer_beyond_limit_rejected_partial {κ : Type} (S : Strategy κ) (r : Remote κ) (s : Nat)
    (hp : r.poisoned = false) (hr : sidRole s = r.role) (h : sidIdx s > r.max.get (sidDir s)) :
    r.step S (.accept s) = (r, .exceed (r.max.get (sidDir s))) := by
  simp [Remote.step, hp, hr, h]

example : ((Remote.new .client 0 0 CtrlSt.demand).step std (.accept 4)).2 = .exceed 0 := by decide

/-- The RFC statement (a limit of `N` allows the indices `0 .. N-1`, so index `≥ N` must be refused) is
false of the code: `sid.id() > self.max[idx]` lets index `N` through — with a limit of 0 the peer opens
stream 0.  The repo's own unit test asserts this behaviour (`test_try_accept_sid`), hence a known finding. -/
theorem peer_beyond_limit_rejected_fails :
    ¬ (∀ (r : Remote CtrlSt) (s : Nat), r.poisoned = false → sidRole s = r.role →
        sidIdx s ≥ r.max.get (sidDir s) → ∃ m, (r.step std (.accept s)).2 = .exceed m) := by
  intro h
  obtain ⟨m, hm⟩ := h (Remote.new .client 0 0 .demand) 0 rfl (by decide) (by decide)
  have e : ((Remote.new .client 0 0 CtrlSt.demand).step std (.accept 0)).2 = .new 0 0 none := by decide
  rw [e] at hm; cases hm

/-- What the code does guarantee: whatever is not refused has an index `≤` the limit (one too many). -/
theorem accepted_at_most_limit {κ : Type} (S : Strategy κ) (r : Remote κ) (s : Nat)
    (hp : r.poisoned = false) (hr : sidRole s = r.role)
    (h : ∀ m, (r.step S (.accept s)).2 ≠ .exceed m) : sidIdx s ≤ r.max.get (sidDir s) := by
  apply Nat.le_of_not_lt
  intro hlt
  have := peer_beyond_limit_rejected_partial S r s hp hr hlt
  exact h _ (by rw [this])

theorem accept_exceed_only_above {κ : Type} (S : Strategy κ) (r : Remote κ) (s m : Nat)
    (h : (r.step S (.accept s)).2 = .exceed m) : sidIdx s > r.max.get (sidDir s) := by
  simp only [Remote.step] at h
  split at h
  · cases h
  · split at h
    · cases h
    · split at h
      · assumption
      · split at h
        · cases h
        · split at h <;> cases h

/-! ### an advertised limit is never taken back — true for `ConsistentConcurrency`, false for `DemandConcurrency` -/

structure ConsInv (init : Per) (r : Remote CtrlSt) : Prop where
  sync : r.ctrl = .consistent r.max
  base : ∀ d, init.get d ≤ r.max.get d
  adv : ∀ x ∈ r.advertised, x.2 ≤ r.max.get x.1

theorem ConsInv.answer_none {init : Per} {r : Remote CtrlSt} (h : ConsInv init r) (d : Dir) :
    ConsInv init (r.answer d (r.ctrl, none)).1 := by
  simp only [Remote.answer]
  exact ⟨h.sync, h.base, h.adv⟩

theorem ConsInv.step {init : Per} {r : Remote CtrlSt} (h : ConsInv init r) (op : ROp) :
    ConsInv init (r.step std op).1 := by
  have hs := h.sync
  cases op with
  | accept s =>
    simp only [Remote.step]
    split
    · exact h
    · split
      · exact ⟨h.sync, h.base, h.adv⟩
      · split
        · exact h
        · split
          · exact h
          · have e : std.onAccept r.ctrl (sidDir s) (sidIdx s) = (r.ctrl, none) := by rw [hs]; rfl
            rw [e]
            simp only [Remote.answer, Bool.false_eq_true, if_false]
            exact ⟨h.sync, h.base, h.adv⟩
  | blocked d v =>
    simp only [Remote.step]
    split
    · exact h
    · have e : std.onBlocked r.ctrl d v = (r.ctrl, none) := by rw [hs]; rfl
      rw [e]
      simp only [Remote.answer, Option.bind, Bool.false_eq_true, if_false]
      exact ⟨h.sync, h.base, h.adv⟩
  | eos s =>
    simp only [Remote.step]
    split
    · exact h
    · split
      · exact h
      · have e : std.onEos r.ctrl (sidDir s) (sidIdx s) =
            (.consistent (r.max.set (sidDir s) (r.max.get (sidDir s) + 1)), some (r.max.get (sidDir s) + 1)) := by
          rw [hs]; rfl
        rw [e]
        have mono : ∀ d', r.max.get d' ≤ (r.max.set (sidDir s) (r.max.get (sidDir s) + 1)).get d' := by
          intro d'; rw [Per.get_set]; split
          · rename_i e; subst e; omega
          · exact Nat.le_refl _
        simp only [Remote.answer]
        split <;> simp only [Bool.false_eq_true, if_false, if_true] <;> refine ⟨rfl, ?_, ?_⟩
        · intro d'; exact Nat.le_trans (h.base d') (mono d')
        · intro x hx; exact Nat.le_trans (h.adv x hx) (mono x.1)
        · intro d'; exact Nat.le_trans (h.base d') (mono d')
        · intro x hx
          rcases List.mem_append.1 hx with hx | hx
          · exact Nat.le_trans (h.adv x hx) (mono x.1)
          · simp only [List.mem_singleton] at hx; subst hx; simp

theorem ConsInv.run {init : Per} (ops : List ROp) {r : Remote CtrlSt} (h : ConsInv init r) :
    ConsInv init (r.run std ops) := by
  induction ops generalizing r with
  | nil => exact h
  | cons op ops ih => exact ih (h.step op)

/-- With `ConsistentConcurrency`, after any history, a peer that stays below the initial limit or below any
MAX_STREAMS value it was ever sent is never answered with STREAM_LIMIT_ERROR. -/
theorem consistent_limit_never_withdrawn (role : Role) (mb mu : Nat) (ops : List ROp) (s : Nat) :
    let r := (Remote.new role mb mu (.consistent ⟨mb, mu⟩)).run std ops
    (sidIdx s < (⟨mb, mu⟩ : Per).get (sidDir s) ∨ ∃ m, (sidDir s, m) ∈ r.advertised ∧ sidIdx s < m) →
    ∀ m, (r.step std (.accept s)).2 ≠ .exceed m := by
  intro r hlt m hm
  have inv : ConsInv ⟨mb, mu⟩ r :=
    ConsInv.run ops ⟨rfl, fun d => Nat.le_refl _, by intro x hx; cases hx⟩
  have := accept_exceed_only_above std r s m hm
  rcases hlt with h | ⟨m', hm', hlt⟩
  · have := inv.base (sidDir s); omega
  · have := inv.adv _ hm'; simp only at this; omega

example : ((Remote.new .client 1 0 (.consistent ⟨1, 0⟩)).run std [.accept 0, .eos 0]).advertised = [(.bi, 2)] := by
  decide

/-! ### STREAMS_BLOCKED never lowers a limit, never panics, never advertises more than 2^60-1 — ANY strategy

`recv_streams_blocked_frame` after `fix-C12-streams-blocked-limit`: the strategy's answer is capped at
`MAX_STREAMS_LIMIT` and only taken when it raises the limit. -/

theorem Remote.step_blocked_eq {κ : Type} (S : Strategy κ) (r : Remote κ) (d : Dir) (v : Nat)
    (hp : r.poisoned = false) :
    (∃ m, (S.onBlocked r.ctrl d v).2 = some m ∧ min m LIMIT > r.max.get d ∧
        r.step S (.blocked d v) =
          ({ r with ctrl := (S.onBlocked r.ctrl d v).1, max := r.max.set d (min m LIMIT),
                    advertised := r.advertised ++ [(d, min m LIMIT)] }, .done (some (min m LIMIT)))) ∨
    (r.step S (.blocked d v) = ({ r with ctrl := (S.onBlocked r.ctrl d v).1 }, .done none)) := by
  have hL : LIMIT ≤ VARINT_MAX := by decide
  simp only [Remote.step, hp, Bool.false_eq_true, if_false]
  cases hk : (S.onBlocked r.ctrl d v).2 with
  | none => right; simp [Remote.answer] <;> exact hp
  | some m =>
    by_cases hg : min m LIMIT > r.max.get d
    · left
      refine ⟨m, rfl, hg, ?_⟩
      have hv : ¬ min m LIMIT > VARINT_MAX := by omega
      simp [Remote.answer, Option.bind, hg, hv] <;> exact hp
    · right; simp [Remote.answer, Option.bind, hg] <;> exact hp

/-- **streams_blocked_no_panic**: no STREAMS_BLOCKED value (the parser lets every varint through) panics,
whatever the strategy answers.  Before the fix: `STREAMS_BLOCKED(2^62-1)` + `DemandConcurrency` ⇒
`VarInt::from_u64(2^62).expect(..)` with the lock held. -/
theorem streams_blocked_no_panic {κ : Type} (S : Strategy κ) (r : Remote κ) (d : Dir) (v : Nat)
    (hp : r.poisoned = false) :
    (r.step S (.blocked d v)).2 ≠ .panic ∧ (r.step S (.blocked d v)).1.poisoned = false := by
  rcases Remote.step_blocked_eq S r d v hp with ⟨m, _, _, h⟩ | h <;> rw [h] <;> exact ⟨by simp, hp⟩

example : ((Remote.new .client 1 1 CtrlSt.demand).step std (.blocked .bi VARINT_MAX)).2 = .done (some LIMIT) := by
  decide

/-- A MAX_STREAMS frame answering a STREAMS_BLOCKED never carries more than `MAX_STREAMS_LIMIT` and always
raises the limit; the limit of the other kind is untouched; no limit ever goes down. -/
theorem streams_blocked_monotone {κ : Type} (S : Strategy κ) (r : Remote κ) (d : Dir) (v : Nat)
    (hp : r.poisoned = false) :
    (∀ d', r.max.get d' ≤ (r.step S (.blocked d v)).1.max.get d') ∧
    (∀ m, (r.step S (.blocked d v)).2 = .done (some m) →
        m ≤ LIMIT ∧ r.max.get d < m ∧ (r.step S (.blocked d v)).1.max.get d = m) := by
  rcases Remote.step_blocked_eq S r d v hp with ⟨m, _, hg, h⟩ | h <;> rw [h]
  · refine ⟨?_, ?_⟩
    · intro d'; simp only [Per.get_set]; split
      · rename_i e; subst e; omega
      · exact Nat.le_refl _
    · intro m' hm'
      injection hm' with hm'; injection hm' with hm'; subst hm'
      exact ⟨Nat.min_le_right _ _, hg, by simp⟩
  · exact ⟨fun _ => Nat.le_refl _, fun m' hm' => by injection hm' with hm'; cases hm'⟩

/-- Invariant of `DemandConcurrency`: the limits only grow. -/
structure DemInv (init : Per) (r : Remote CtrlSt) : Prop where
  sync : r.ctrl = .demand
  ok : r.poisoned = false
  base : ∀ d, init.get d ≤ r.max.get d
  adv : ∀ x ∈ r.advertised, x.2 ≤ r.max.get x.1

theorem DemInv.step {init : Per} {r : Remote CtrlSt} (h : DemInv init r) (op : ROp) :
    DemInv init (r.step std op).1 ∨ (r.step std op).1.poisoned = true := by
  have hs := h.sync
  cases op with
  | accept s =>
    simp only [Remote.step, h.ok, Bool.false_eq_true, if_false]
    split
    · right; rfl
    · split
      · left; exact h
      · split
        · left; exact h
        · left
          have e : std.onAccept r.ctrl (sidDir s) (sidIdx s) = (r.ctrl, none) := by rw [hs]; rfl
          rw [e]
          simp only [Remote.answer, Bool.false_eq_true, if_false]
          exact ⟨h.sync, rfl, h.base, h.adv⟩
  | eos s =>
    left
    simp only [Remote.step, h.ok, Bool.false_eq_true, if_false]
    split
    · exact h
    · have e : std.onEos r.ctrl (sidDir s) (sidIdx s) = (r.ctrl, none) := by rw [hs]; rfl
      rw [e]
      simp only [Remote.answer, Bool.false_eq_true, if_false]
      exact ⟨h.sync, h.ok, h.base, h.adv⟩
  | blocked d v =>
    left
    have hc : (std.onBlocked r.ctrl d v).1 = .demand := by rw [hs]; rfl
    rcases Remote.step_blocked_eq std r d v h.ok with ⟨m, _, hg, e⟩ | e <;> rw [e]
    · have mono : ∀ d', r.max.get d' ≤ (r.max.set d (min m LIMIT)).get d' := by
        intro d'; rw [Per.get_set]; split
        · rename_i e; subst e; omega
        · exact Nat.le_refl _
      refine ⟨hc, h.ok, fun d' => Nat.le_trans (h.base d') (mono d'), ?_⟩
      intro x hx
      rcases List.mem_append.1 hx with hx | hx
      · exact Nat.le_trans (h.adv x hx) (mono x.1)
      · simp only [List.mem_singleton] at hx; subst hx; simp
    · exact ⟨hc, h.ok, h.base, h.adv⟩

/-- **limit_never_withdrawn** for `DemandConcurrency` (the repo's default strategy besides
`ConsistentConcurrency`): after ANY history of peer frames — stale, repeated or absurd STREAMS_BLOCKED values
included — a peer stream below the initial limit or below any MAX_STREAMS value ever sent is never answered
with STREAM_LIMIT_ERROR.  Before the fix `STREAMS_BLOCKED(0)` took a limit of 5 down to 1 (see the
`example` below). -/
theorem demand_limit_never_withdrawn (role : Role) (mb mu : Nat) (ops : List ROp) (s : Nat) :
    let r := (Remote.new role mb mu .demand).run std ops
    r.poisoned = false →
    (sidIdx s < (⟨mb, mu⟩ : Per).get (sidDir s) ∨ ∃ m, (sidDir s, m) ∈ r.advertised ∧ sidIdx s < m) →
    ∀ m, (r.step std (.accept s)).2 ≠ .exceed m := by
  intro r hp hlt m hm
  have inv : DemInv ⟨mb, mu⟩ r := by
    have key : ∀ (ops : List ROp) (r0 : Remote CtrlSt), DemInv ⟨mb, mu⟩ r0 →
        (r0.run std ops).poisoned = false → DemInv ⟨mb, mu⟩ (r0.run std ops) := by
      intro ops
      induction ops with
      | nil => intro r0 h _; exact h
      | cons op ops ih =>
        intro r0 h hp'
        rcases h.step op with h' | h'
        · exact ih _ h' hp'
        · exfalso
          have : ∀ (ops : List ROp) (r1 : Remote CtrlSt), r1.poisoned = true → (r1.run std ops).poisoned = true := by
            intro ops
            induction ops with
            | nil => intro r1 h1; exact h1
            | cons op ops ih2 =>
              intro r1 h1
              apply ih2
              cases op <;> simp [Remote.step, h1]
          have := this ops _ h'
          change (Remote.run std (r0.step std op).1 ops).poisoned = false at hp'
          rw [this] at hp'; cases hp'
    exact key ops _ ⟨rfl, rfl, fun d => Nat.le_refl _, by intro x hx; cases hx⟩ hp
  have := accept_exceed_only_above std r s m hm
  rcases hlt with h | ⟨m', hm', hlt⟩
  · have := inv.base (sidDir s); omega
  · have := inv.adv _ hm'; simp only at this; omega

/-- The history that used to withdraw the limit (finding `conformant_peer_rejected:demand`, limit 5,
stale `STREAMS_BLOCKED(0)`, then peer stream index 3 = id 12): now accepted, no MAX_STREAMS(1) goes out. -/
example : ((Remote.new .client 5 5 CtrlSt.demand).run std [.blocked .bi 0]).max = ⟨5, 5⟩ ∧
    (((Remote.new .client 5 5 CtrlSt.demand).run std [.blocked .bi 0]).step std (.accept 12)).2 = .new 0 12 none ∧
    ((Remote.new .client 5 5 CtrlSt.demand).run std [.blocked .bi 7]).advertised = [(.bi, 8)] := by decide

end GmQuic.Sid

namespace GmQuic.StreamRules
open GmQuic.Sid GmQuic.Spec.Rfc9000Streams
open GmQuic.StreamWindow (RecvHalf RxObs Phase)

/-! ## 4. Stream direction -/

/-- **direction_table_is_rfc**: the gate of `recv_data` / `recv_stream_control` answers STREAM_STATE_ERROR
exactly where RFC 9000 §19.4/5/8/10/13 (via §2.1/§3) demands it; otherwise peer-initiated ids go through
`try_accept_sid` and locally initiated ones fall through. -/
theorem direction_table_is_rfc (k : FrameKind) (peerInit : Bool) (d : Dir) :
    codeGate k peerInit d =
      if directionOk k peerInit d then (if peerInit then .accept else .pass) else .streamState := by
  cases k <;> cases peerInit <;> cases d <;> rfl

/-- A frame on the wrong kind of stream is answered with STREAM_STATE_ERROR before anything else happens
(no stream is created, no limit is consulted) — for every endpoint state. -/
theorem direction_enforced (e : Endpoint) (k : FrameKind) (s a b : Nat) (fin : Bool)
    (h : directionOk k (sidRole s != e.role) (sidDir s) = false) :
    e.step (.frame k s a b fin) = (e, .err .streamState) := by
  have := direction_table_is_rfc k (sidRole s != e.role) (sidDir s)
  rw [h] at this
  simp only [Endpoint.step, this]
  rfl

example : directionOk .stream false .uni = false ∧ directionOk .stopSending true .uni = false := by decide

theorem deliver_not_streamState (e : Endpoint) (ms : List (Dir × Nat)) (k : FrameKind) (s a b : Nat) (fin : Bool) :
    (e.deliver ms k s a b fin).2 ≠ .err .streamState := by
  unfold Endpoint.deliver
  repeat' split
  all_goals (try simp only [apply_ite Prod.snd])
  all_goals (try split)
  all_goals simp

/-- The arms that check "already created" are exactly the frame kinds for which RFC 9000 §19.5/§19.8/§19.10
demands it. -/
theorem checksCreated_is_rfc (k : FrameKind) : checksCreated k = mustBeCreated k := by cases k <;> rfl

/-- **STREAM_STATE_ERROR exactly when the RFC says so** — for every endpoint state (local id lock not
poisoned) and every frame: the answer is STREAM_STATE_ERROR iff the frame is on the wrong kind of stream
(§19.4/5/8/10/13) or is a STREAM / STOP_SENDING / MAX_STREAM_DATA frame for a locally initiated stream that
is not (yet) open (§19.5/§19.8/§19.10).  Both directions: nothing illegal is accepted, nothing legal is
answered with this error (no false alarm). -/
theorem stream_state_error_iff (e : Endpoint) (k : FrameKind) (s a b : Nat) (fin : Bool)
    (hp : e.loc.poisoned = false) :
    (e.step (.frame k s a b fin)).2 = .err .streamState ↔
      (directionOk k (sidRole s != e.role) (sidDir s) = false ∨
        (sidRole s = e.role ∧ mustBeCreated k = true ∧ sidIdx s ≥ e.loc.openedStreams (sidDir s))) := by
  have hg := direction_table_is_rfc k (sidRole s != e.role) (sidDir s)
  have hc := checksCreated_is_rfc k
  cases hd : directionOk k (sidRole s != e.role) (sidDir s)
  · rw [hd] at hg
    simp only [Endpoint.step, hg]
    simp
  · rw [hd] at hg
    by_cases hrole : sidRole s = e.role
    · have hpi : (sidRole s != e.role) = false := by simp [hrole]
      rw [hpi] at hg
      simp only [Bool.false_eq_true, if_false, if_true] at hg
      simp only [Endpoint.step, hpi, hg, hc, hp, Bool.false_eq_true, if_false]
      cases hm : mustBeCreated k
      · simp only [Bool.false_eq_true, if_false]
        constructor
        · intro h; exact absurd h (deliver_not_streamState _ _ _ _ _ _ _)
        · rintro (h | ⟨_, h, _⟩) <;> cases h
      · simp only [if_true]
        by_cases hge : sidIdx s ≥ e.loc.openedStreams (sidDir s)
        · simp [hge, hrole]
        · simp only [hge, if_false]
          constructor
          · intro h; exact absurd h (deliver_not_streamState _ _ _ _ _ _ _)
          · rintro (h | ⟨_, _, h⟩)
            · cases h
            · first | exact h.elim | exact absurd h hge
    · have hpi : (sidRole s != e.role) = true := by simp [hrole]
      rw [hpi] at hg
      simp only [if_true] at hg
      simp only [Endpoint.step, hpi, hg]
      constructor
      · intro h
        exfalso
        revert h
        split
        · simp
        · simp
        · exact deliver_not_streamState _ _ _ _ _ _ _
      · rintro (h | ⟨h, _, _⟩)
        · cases h
        · exact absurd h hrole

/-- … in particular a frame that is legal on its stream type, for a peer-initiated stream or for a local
stream that is open, is never answered with STREAM_STATE_ERROR. -/
theorem direction_no_false_alarm (e : Endpoint) (k : FrameKind) (s a b : Nat) (fin : Bool)
    (hp : e.loc.poisoned = false)
    (h : directionOk k (sidRole s != e.role) (sidDir s) = true)
    (ho : sidRole s = e.role → sidIdx s < e.loc.openedStreams (sidDir s)) :
    (e.step (.frame k s a b fin)).2 ≠ .err .streamState := by
  intro hx
  rcases (stream_state_error_iff e k s a b fin hp).1 hx with h' | ⟨hr, _, hge⟩
  · rw [h] at h'; cases h'
  · have := ho hr; omega

example : directionOk .stream true .uni = true ∧ directionOk .maxStreamData false .uni = true := by decide

/-- At the endpoint: a peer-initiated stream id (legal direction) with an index above the limit in force is
answered with STREAM_LIMIT_ERROR and nothing changes (the off-by-one of `peer_beyond_limit_rejected_fails`
applies here too: index = limit is let through). -/
theorem endpoint_limit_enforced_partial (e : Endpoint) (k : FrameKind) (s a b : Nat) (fin : Bool)
    (hp : e.rem.poisoned = false) (hpeer : sidRole s = e.rem.role) (hne : sidRole s ≠ e.role)
    (hd : directionOk k true (sidDir s) = true) (h : sidIdx s > e.rem.max.get (sidDir s)) :
    e.step (.frame k s a b fin) = (e, .err .streamLimit) := by
  have hb : (sidRole s != e.role) = true := by simpa using hne
  have := direction_table_is_rfc k true (sidDir s)
  rw [hd] at this
  simp only [Endpoint.step, hb, this, if_true]
  have hs := peer_beyond_limit_rejected_partial std e.rem s hp hpeer h
  simp only [Endpoint.acceptSid, hs]

/-- **not_yet_created_rejected** (RFC 9000 §19.5/§19.8/§19.10): STREAM / STOP_SENDING / MAX_STREAM_DATA for a
locally initiated stream that has not yet been created ⇒ STREAM_STATE_ERROR, nothing changes — for every
endpoint state.  (`poisoned`: a panic under the `LocalStreamIds` mutex — not reachable from the wire, see
`limit_update_no_panic_partial` — makes every later call panic instead.)  Before
`fix-C12-not-yet-created` the frame was answered `Ok(0)`. -/
theorem not_yet_created_rejected (e : Endpoint) (k : FrameKind) (s a b : Nat) (fin : Bool)
    (hk : mustBeCreated k = true) (hr : sidRole s = e.role) (hp : e.loc.poisoned = false)
    (h : sidIdx s ≥ e.loc.unalloc.get (sidDir s)) :
    e.step (.frame k s a b fin) = (e, .err .streamState) := by
  have hge : sidIdx s ≥ e.loc.openedStreams (sidDir s) := by
    unfold Local.openedStreams; omega
  have hpi : (sidRole s != e.role) = false := by simp [hr]
  have hc := checksCreated_is_rfc k
  rw [hk] at hc
  cases hgate : codeGate k (sidRole s != e.role) (sidDir s) with
  | streamState => simp only [Endpoint.step, hgate]
  | pass => simp only [Endpoint.step, hgate, hc, hp, hge, if_true, Bool.false_eq_true, if_false]
  | accept =>
    exfalso
    rw [hpi] at hgate
    cases k <;> simp only [codeGate, Bool.false_eq_true, if_false] at hgate <;>
      first | (split at hgate <;> cases hgate) | cases hgate

/-- the witness of the former `not_yet_created_rejected_fails` (client, nothing opened, STREAM on stream 0) -/
example : let e0 : Endpoint :=
      { role := .client, loc := { role := .client, max := ⟨3, 3⟩ }, rem := Remote.new .server 3 3 .demand,
        win := ⟨100, 100, 100⟩ }
    (e0.step (.frame .stream 0 0 5 false)).2 = .err .streamState ∧
    ((e0.step (.open_ .bi)).1.step (.frame .stream 0 0 5 false)).2 = .ok 5 [] := by decide

/-! ## 5. Final size (RFC 9000 §4.5) -/

/-- The final size the receiving part knows. -/
def knownFinal (h : RecvHalf) : Option Nat :=
  match h.phase with
  | .sizeKnown fs => some fs
  | _ => none

/-- **final_size_rules**, STREAM frames: in every state in which the receiving part still exists
(`Recv` / `SizeKnown`), the answer is FINAL_SIZE_ERROR exactly when RFC 9000 §4.5 says so — (a) a final size
below data already received, (b) data beyond the known final size, (c) a different final size — and then
nothing is changed. -/
theorem final_size_rules_stream (h : RecvHalf) (off len : Nat) (fin : Bool) (hp : h.phase ≠ .done) :
    ((h.rx true off len fin).2 = .finalSize ↔
      streamFinalSizeError h.buf.largest (knownFinal h) off len fin = true) ∧
    ((h.rx true off len fin).2 = .finalSize → (h.rx true off len fin).1 = h) := by
  cases hph : h.phase with
  | done => exact absurd hph hp
  | recv =>
    cases fin
    · simp only [RecvHalf.rx, hph, streamFinalSizeError, knownFinal, Bool.false_eq_true, if_false, Bool.false_and]
      split <;> simp
    · simp only [RecvHalf.rx, hph, streamFinalSizeError, knownFinal, if_true, Bool.true_and]
      split
      · simp; omega
      · split
        · simp; omega
        · split <;> simp <;> omega
  | sizeKnown fs =>
    simp only [RecvHalf.rx, hph, streamFinalSizeError, knownFinal]
    split
    · simp; left; omega
    · split
      · rename_i h2; simp; right; exact ⟨h2.1, h2.2⟩
      · rename_i h1 h2
        have : ¬ (off + len > fs) := h1
        have key : fin = true → off + len = fs := by
          intro hf
          apply Classical.byContradiction
          intro e
          exact h2 ⟨hf, e⟩
        split <;> simp <;> exact ⟨by omega, key⟩

example : streamFinalSizeError 10 none 2 3 true = true ∧ streamFinalSizeError 10 (some 10) 8 5 false = true ∧
    streamFinalSizeError 10 (some 10) 2 3 true = true ∧ streamFinalSizeError 10 (some 10) 2 8 true = false := by
  decide

/-- **final_size_rules**, RESET_STREAM: FINAL_SIZE_ERROR exactly when the final size is below what was
received (`Recv`) or differs from the known final size (`SizeKnown`).  (A final size that is consistent
but beyond the stream's flow-control limit is a FLOW_CONTROL_ERROR: `reset_beyond_stream_limit`, C11.) -/
theorem final_size_rules_reset (h : RecvHalf) (final : Nat) (hp : h.phase ≠ .done) :
    resetRx h final = some .finalSize ↔ resetFinalSizeError h.largest (knownFinal h) final = true := by
  cases hph : h.phase with
  | done => exact absurd hph hp
  | recv =>
    simp only [resetRx, hph, resetFinalSizeError, knownFinal]
    split
    · simp; omega
    · split <;> simp <;> omega
  | sizeKnown fs =>
    simp only [resetRx, hph, resetFinalSizeError, knownFinal]
    split <;> simp <;> omega

example : resetFinalSizeError 10 none 9 = true ∧ resetFinalSizeError 10 (some 12) 13 = true ∧
    resetFinalSizeError 10 (some 12) 12 = false := by decide

/-- `Recv::recv_reset` after `fix-C11-reset-limit`: a RESET_STREAM that does not contradict the final size is
accepted iff its final size is within the advertised stream limit; otherwise FLOW_CONTROL_ERROR
(RFC 9000 §4.5: the final size counts against flow control). -/
theorem reset_beyond_stream_limit (h : RecvHalf) (final : Nat) (hp : h.phase = .recv) (hf : h.largest ≤ final) :
    (final > h.msd → resetRx h final = some .flowControl) ∧
    (final ≤ h.msd → resetRx h final = some (.sync (final - h.largest))) := by
  have h1 : ¬ final < h.largest := by omega
  constructor
  · intro hgt; simp [resetRx, hp, h1, hgt]
  · intro hle
    have h2 : ¬ final > h.msd := by omega
    simp [resetRx, hp, h1, h2]

example : resetRx (RecvHalf.mk0 55) 4318 = some .flowControl ∧ resetRx (RecvHalf.mk0 55) 55 = some (.sync 55) := by
  decide

/-- The four clauses by name, as consequences (for readers of the property text). -/
theorem final_size_smaller_than_received (h : RecvHalf) (off len : Nat) (hp : h.phase = .recv)
    (hlt : off + len < h.buf.largest) : h.rx true off len true = (h, .finalSize) := by
  have hne : h.phase ≠ .done := by rw [hp]; intro x; cases x
  have ⟨h1, h2⟩ := final_size_rules_stream h off len true hne
  have e : (h.rx true off len true).2 = .finalSize :=
    h1.2 (by simp [streamFinalSizeError, knownFinal, hp, hlt])
  exact Prod.ext (h2 e) e

theorem data_beyond_final_size (h : RecvHalf) (off len fs : Nat) (fin : Bool) (hp : h.phase = .sizeKnown fs)
    (hgt : off + len > fs) : h.rx true off len fin = (h, .finalSize) := by
  have hne : h.phase ≠ .done := by rw [hp]; intro x; cases x
  have ⟨h1, h2⟩ := final_size_rules_stream h off len fin hne
  have e : (h.rx true off len fin).2 = .finalSize :=
    h1.2 (by simp [streamFinalSizeError, knownFinal, hp, hgt])
  exact Prod.ext (h2 e) e

theorem final_size_changed (h : RecvHalf) (off len fs : Nat) (hp : h.phase = .sizeKnown fs)
    (hne' : off + len ≠ fs) : h.rx true off len true = (h, .finalSize) := by
  have hne : h.phase ≠ .done := by rw [hp]; intro x; cases x
  have ⟨h1, h2⟩ := final_size_rules_stream h off len true hne
  have e : (h.rx true off len true).2 = .finalSize :=
    h1.2 (by simp [streamFinalSizeError, knownFinal, hp, hne'])
  exact Prod.ext (h2 e) e

theorem reset_with_different_size (h : RecvHalf) (final fs : Nat) (hp : h.phase = .sizeKnown fs)
    (hne' : final ≠ fs) : resetRx h final = some .finalSize := by
  have hne : h.phase ≠ .done := by rw [hp]; intro x; cases x
  exact (final_size_rules_reset h final hne).2 (by simp [resetFinalSizeError, knownFinal, hp, hne'])

example : ∃ h : RecvHalf, h.phase = .sizeKnown 10 ∧ h.buf.largest = 4 :=
  ⟨(RecvHalf.mk0 100 |>.rx true 0 4 false).1 |>.rx true 10 0 true |>.1, by decide, by decide⟩

/-- Once known, the final size never changes: over every further history of frames and reads the phase is
`SizeKnown` with the SAME size, or the stream is complete. -/
theorem final_size_stable (h : RecvHalf) (fs : Nat) (ops : List StreamWindow.ROp)
    (hp : h.phase = .sizeKnown fs ∨ h.phase = .done) :
    (ops.foldl (RecvHalf.step true) h).phase = .sizeKnown fs ∨ (ops.foldl (RecvHalf.step true) h).phase = .done := by
  induction ops generalizing h with
  | nil => exact hp
  | cons op ops ih =>
    apply ih
    cases op with
    | rx off len fin =>
      simp only [RecvHalf.step, RecvHalf.rx]
      rcases hp with hp | hp <;> simp only [hp]
      · repeat' split
        all_goals first | (left; first | exact hp | rfl) | (right; rfl)
      · right; first | exact hp | rfl | trivial
    | read cap =>
      simp only [RecvHalf.step, RecvHalf.read]
      rcases hp with hp | hp <;> simp only [hp]
      · repeat' split
        all_goals first | (left; first | exact hp | rfl) | (right; rfl)
      · right; first | exact hp | rfl | trivial

/-- At the endpoint: a STREAM frame that contradicts the final size of a stream still in the input set is
answered with FINAL_SIZE_ERROR, whatever else is going on. -/
theorem deliver_final_size (e : Endpoint) (ms : List (Dir × Nat)) (s off len : Nat) (fin : Bool) (h : RecvHalf)
    (hl : lookup e.inputs s = some h) (hp : h.phase ≠ .done)
    (hv : streamFinalSizeError h.buf.largest (knownFinal h) off len fin = true) :
    e.deliver ms .stream s off len fin = (e, .err .finalSize) := by
  have ⟨h1, _⟩ := final_size_rules_stream h off len fin hp
  have e2 := h1.2 hv
  simp only [Endpoint.deliver, hl]
  cases hr : h.rx true off len fin with
  | mk h' o =>
    rw [hr] at e2
    simp only at e2
    subst e2
    rfl

theorem deliver_reset_final_size (e : Endpoint) (ms : List (Dir × Nat)) (s final : Nat) (h : RecvHalf)
    (hl : lookup e.inputs s = some h) (hp : h.phase ≠ .done)
    (hv : resetFinalSizeError h.largest (knownFinal h) final = true) :
    (e.deliver ms .resetStream s final 0 false).2 = .err .finalSize := by
  have e2 := (final_size_rules_reset h final hp).2 hv
  simp only [Endpoint.deliver, hl, e2]

/-! ## 6. Each implicitly opened stream is offered to the application exactly once — at the endpoint,
for ALL interleavings of peer frames, accept polls and the peer's transport parameters becoming ready -/

/-- One step of the endpoint — ANY operation: a peer frame of any kind on any stream id, one poll of
`accept_bi` / `accept_uni` (Pending or Ready), `drain`, `recv_remote_params`, the peer's source connection id
becoming known, local opens, MAX_STREAMS, STREAMS_BLOCKED — keeps the offer invariant. -/
theorem Endpoint.offer_step (e : Endpoint) (op : EOp) (h : Offer e) : Offer (e.step op).1 := by
  cases op with
  | acceptBi =>
    simp only [Endpoint.step]
    split
    · exact h
    · split
      · exact h
      · rename_i s t hl
        rcases h with h | h
        · exact Or.inl h
        · right
          have hb := h.bi
          rw [hl] at hb
          have hd := head_dir hb
          refine ⟨h.rinv, ?_, ?_⟩
          · show ofDir (e.offered ++ [s]) .bi ++ t = ofDir e.rem.created .bi
            rw [ofDir_append, ofDir_single_same hd, List.append_assoc]; exact hb
          · show ofDir (e.offered ++ [s]) .uni ++ e.listenUni = ofDir e.rem.created .uni
            rw [ofDir_append, ofDir_single_other hd (by decide), List.append_nil]; exact h.uni
  | acceptUni =>
    simp only [Endpoint.step]
    split
    · exact h
    · rename_i s t hl
      rcases h with h | h
      · exact Or.inl h
      · right
        have hu := h.uni
        rw [hl] at hu
        have hd := head_dir hu
        refine ⟨h.rinv, ?_, ?_⟩
        · show ofDir (e.offered ++ [s]) .bi ++ e.listenBi = ofDir e.rem.created .bi
          rw [ofDir_append, ofDir_single_other hd (by decide), List.append_nil]; exact h.bi
        · show ofDir (e.offered ++ [s]) .uni ++ t = ofDir e.rem.created .uni
          rw [ofDir_append, ofDir_single_same hd, List.append_assoc]; exact hu
  | drain =>
    simp only [Endpoint.step]
    rcases h with h | h
    · exact Or.inl h
    · right
      have b1 := ofDir_of_suffix h.bi
      have b2 : ofDir e.listenBi .uni = [] := ofDir_other_of_suffix h.bi (by decide)
      have u1 := ofDir_of_suffix h.uni
      have u2 : ofDir e.listenUni .bi = [] := ofDir_other_of_suffix h.uni (by decide)
      cases hr : e.ready
      · refine ⟨h.rinv, ?_, ?_⟩
        · show ofDir (e.offered ++ [] ++ e.listenUni) .bi ++ e.listenBi = _
          rw [List.append_nil, ofDir_append, u2, List.append_nil]; exact h.bi
        · show ofDir (e.offered ++ [] ++ e.listenUni) .uni ++ [] = _
          rw [List.append_nil, List.append_nil, ofDir_append, u1]; exact h.uni
      · refine ⟨h.rinv, ?_, ?_⟩
        · show ofDir (e.offered ++ e.listenBi ++ e.listenUni) .bi ++ [] = _
          rw [List.append_nil, ofDir_append, ofDir_append, u2, List.append_nil, b1]; exact h.bi
        · show ofDir (e.offered ++ e.listenBi ++ e.listenUni) .uni ++ [] = _
          rw [List.append_nil, ofDir_append, ofDir_append, b2, List.append_nil, u1]; exact h.uni
  | rparams =>
    simp only [Endpoint.step]
    split
    · exact h
    · exact h.congr (Same.trans ⟨rfl, rfl, rfl, rfl, rfl, rfl, id⟩ (becomeReady_same _))
  | rscid =>
    simp only [Endpoint.step]
    split
    · exact h
    · exact h.congr (Same.trans ⟨rfl, rfl, rfl, rfl, rfl, rfl, id⟩ (becomeReady_same _))
  | open_ d =>
    simp only [Endpoint.step]
    split
    · exact h
    · generalize e.loc.step (.alloc d) = st
      obtain ⟨l', o⟩ := st
      apply h.congr
      cases o <;> (try cases d) <;> exact ⟨rfl, rfl, rfl, rfl, rfl, rfl, id⟩
  | maxStreams d v =>
    simp only [Endpoint.step]
    generalize e.loc.step (.maxStreams d v) = st
    obtain ⟨l', o⟩ := st
    exact h.congr ⟨rfl, rfl, rfl, rfl, rfl, rfl, id⟩
  | streamsBlocked d v =>
    simp only [Endpoint.step]
    have hf := Remote.step_blocked_frame std e.rem d v
    have hp := Remote.step_poisoned std e.rem (.blocked d v)
    generalize e.rem.step std (.blocked d v) = st at hf hp
    obtain ⟨r', o⟩ := st
    simp only at hf hp
    apply h.congr
    cases o <;> exact same_of_rem rfl rfl rfl rfl hf.1 hf.2.1 hf.2.2 hp
  | frame k s a b fin =>
    simp only [Endpoint.step]
    split
    · exact h
    · split
      · split
        · exact h
        · split
          · exact h
          · exact h.congr (deliver_same _ _ _ _ _ _ _)
      · exact h.congr (deliver_same _ _ _ _ _ _ _)
    · have ha := acceptSid_offer e s h
      split
      · exact h
      · rename_i e1 ms hs; exact ha _ _ _ hs
      · rename_i e1 ms hs
        exact (ha _ _ _ hs).congr (deliver_same _ _ _ _ _ _ _)

theorem Endpoint.offer_run (e : Endpoint) (ops : List EOp) (h : Offer e) : Offer (e.run ops) := by
  induction ops generalizing e with
  | nil => exact h
  | cons op ops ih => exact ih _ (e.offer_step op h)

theorem Endpoint.offer_init {role : Role} {lb lu pb pu : Nat} {win : Windows} {k : CtrlSt} {e : Endpoint}
    (h : Endpoint.new role lb lu pb pu win k = some e ∨ Endpoint.newLate role lb lu pb pu win k = some e) :
    Offer e := by
  right
  rcases h with h | h
  · unfold Endpoint.new at h
    split at h
    · cases h
    · split at h
      · cases h
      · injection h with h; subst h
        exact ⟨Remote.inv_new _ _ _ _, rfl, rfl⟩
  · unfold Endpoint.newLate at h
    split at h
    · cases h
    · injection h with h; subst h
      exact ⟨Remote.inv_new _ _ _ _, rfl, rfl⟩

/-- **implicit_open_each_once at the endpoint** — for every role, limits, windows, shipped strategy, whether or
not the peer's transport parameters are known at the start, and EVERY interleaving of peer frames (any kind,
any stream id, legal or not), single `accept_bi` / `accept_uni` polls (Pending or Ready), `drain`s, the two
halves of "parameters ready" (`recv_remote_params`, source connection id), local opens, MAX_STREAMS and
STREAMS_BLOCKED (as long as no panic under the `RemoteStreamIds` mutex ended the connection): per kind, the
streams handed to the application so far followed by the streams still queued in the listener are EXACTLY the
peer stream indices `0 .. unallocated-1` in increasing order — nothing is lost, duplicated or reordered by a
poll that comes too early; what was handed out is duplicate free. -/
theorem offered_each_once (role : Role) (lb lu pb pu : Nat) (win : Windows) (k : CtrlSt) (e0 : Endpoint)
    (h0 : Endpoint.new role lb lu pb pu win k = some e0 ∨ Endpoint.newLate role lb lu pb pu win k = some e0)
    (ops : List EOp) :
    let e := e0.run ops
    e.rem.poisoned = false →
    (ofDir e.offered .bi ++ e.listenBi = idsFrom e.rem.role .bi 0 (e.rem.unalloc.get .bi)) ∧
    (ofDir e.offered .uni ++ e.listenUni = idsFrom e.rem.role .uni 0 (e.rem.unalloc.get .uni)) ∧
    e.offered.Nodup := by
  intro e hp
  have h := Endpoint.offer_run e0 ops (Endpoint.offer_init h0)
  rcases h with h | h
  · rw [hp] at h; cases h
  · have hb := h.bi; rw [h.rinv .bi] at hb
    have hu := h.uni; rw [h.rinv .uni] at hu
    refine ⟨hb, hu, ?_⟩
    apply nodup_of_ofDir
    intro d
    have key : ∀ (l q : List Nat) (n : Nat), l ++ q = idsFrom e.rem.role d 0 n → l.Nodup := by
      intro l q n hl
      have := idsFrom_nodup e.rem.role d 0 n
      rw [← hl] at this
      exact (List.nodup_append.1 this).1
    cases d
    · exact key _ _ _ hb
    · exact key _ _ _ hu

/-- Once the peer's parameters are ready, a poll of `accept_bi` never withholds a queued stream, and `drain`
empties both queues: together with `offered_each_once`, everything implicitly opened HAS been offered. -/
theorem accept_progress (e : Endpoint) (hr : e.ready = true) :
    (∀ s t, e.listenBi = s :: t → (e.step .acceptBi).2 = .accepted (some s)) ∧
    (∀ s t, e.listenUni = s :: t → (e.step .acceptUni).2 = .accepted (some s)) ∧
    (e.step .drain).1.listenBi = [] ∧ (e.step .drain).1.listenUni = [] := by
  refine ⟨?_, ?_, ?_, ?_⟩
  · intro s t hl; simp [Endpoint.step, hr, hl]
  · intro s t hl; simp [Endpoint.step, hl]
  · simp [Endpoint.step, hr]
  · simp [Endpoint.step]

/-- The interleaving of seeded change c12r2-1 (server, peer parameters late): the peer uses bidi stream 2
(id 8), the application polls `accept_bi` twice before the parameters are ready, then they arrive: streams 0, 4,
8 are all still offered, lowest first. -/
example : ∃ e0, Endpoint.newLate .server 8 8 3 3 ⟨100, 100, 100⟩ (.consistent ⟨8, 8⟩) = some e0 ∧
    ((e0.run [.frame .stream 8 0 2 false, .acceptBi, .acceptBi, .rparams, .rscid]).step .drain).2
      = .offered [0, 4, 8] [] ∧
    ((e0.run [.frame .stream 8 0 2 false]).step .acceptBi).2 = .accepted none := by
  refine ⟨_, rfl, ?_, ?_⟩ <;> decide

end GmQuic.StreamRules
