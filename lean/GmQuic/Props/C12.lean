import GmQuic.Model.Sid
/-! C12 — property theorems (vertical slice; widened below). -/
namespace GmQuic.Sid

/-- `poll_alloc_sid` hands out an id only below the limit in force at that moment. -/
theorem alloc_below_limit (l : Local) (d : Dir) (s : Nat) (h : (l.step (.alloc d)).2 = .sid s) :
    s = sid l.role d (l.unalloc.get d) ∧ l.unalloc.get d < l.max.get d := by
  simp only [Local.step] at h
  split at h
  · cases h
  · split at h
    · cases h
    · split at h
      · injection h with h; exact ⟨h.symm, by assumption⟩
      · cases h

end GmQuic.Sid
