import GmQuic.Model.Stream
import GmQuic.Lemmas.Stream
import GmQuic.Lemmas.StreamRun
/-!
C01 — stream data is delivered reliably, in order, exactly once.

Property theorems only.  Model: `GmQuic/Model/Stream.lean` (sender half with an abstract per-byte colour, the
adversarial network, receiver half on the C08 reassembly buffer).  Quantifier: "∀ hist" = every finite
`List Op` from `Stream.init sw rw` with `sw ≤ rw` (the sender's initial window does not exceed the
receiver's — RFC 9000 §18.2 makes them the same transport parameter, C11).  `pick off len` ranges over EVERY
range the implementation might choose (illegal choices are ignored by `step`), `deliver/ack/lose i` over every
frame ever emitted, in any order and multiplicity.
-/
namespace GmQuic.Stream
open GmQuic.RecvBuf (Bytes)

/-- the state after a history -/
def after (sw rw : Nat) (ops : List Op) : Stream := (Stream.init sw rw).run ops

theorem after_inv (sw rw : Nat) (h : sw ≤ rw) (ops : List Op) : Inv (after sw rw ops) :=
  inv_run (inv_init sw rw h) ops

/-! ### 1. exactly the written bytes, in order, each once -/

/-- ∀ hist: everything handed to the reader so far is exactly the first `nread` bytes the application wrote —
nothing missing, duplicated, altered or reordered — whatever was lost, duplicated, reordered, re-split or
retransmitted. -/
theorem read_is_prefix (sw rw : Nat) (h : sw ≤ rw) (ops : List Op) :
    (after sw rw ops).out = (after sw rw ops).snd.written.take (after sw rw ops).rcv.buf.nread ∧
    (after sw rw ops).rcv.buf.nread ≤ (after sw rw ops).snd.written.length := by
  have hi := after_inv sw rw h ops
  exact ⟨hi.b2, by have := hi.b1.nread_le; have := hi.b1.largest_le; omega⟩

/-- ∀ hist: the reader has received exactly `nread` bytes and the `i`-th of them is the `i`-th written byte. -/
theorem no_dup_no_gap (sw rw : Nat) (h : sw ≤ rw) (ops : List Op) :
    (after sw rw ops).out.length = (after sw rw ops).rcv.buf.nread ∧
    ∀ i, i < (after sw rw ops).out.length → (after sw rw ops).out[i]? = (after sw rw ops).snd.written[i]? := by
  obtain ⟨h1, h2⟩ := read_is_prefix sw rw h ops
  refine ⟨by rw [h1, List.length_take]; omega, fun i hi => ?_⟩
  rw [h1] at hi ⊢
  rw [List.length_take] at hi
  rw [List.getElem?_take]
  simp only [ite_eq_left_iff]
  intro hc; omega

/-- ∀ hist: every frame the sender ever emitted carries exactly the written bytes at its offset, and a frame
carries the FIN only if it ends at the final size after `shutdown`. -/
theorem frames_are_slices (sw rw : Nat) (h : sw ≤ rw) (ops : List Op) :
    ∀ f ∈ (after sw rw ops).emitted,
      f.data = slice (after sw rw ops).snd.written f.off f.data.length ∧
      f.stop ≤ (after sw rw ops).snd.written.length ∧
      (f.fin = true → f.stop = (after sw rw ops).snd.written.length ∧ (after sw rw ops).snd.shutdown = true) := by
  have hi := after_inv sw rw h ops
  intro f hm
  obtain ⟨x1, x2, _⟩ := hi.a1 f hm
  exact ⟨x2, x1, fun hf => ⟨hi.a3 f hm hf, (hi.a4 ⟨f, hm, hf⟩).1⟩⟩

/-! ### 2. end of stream -/

/-- ∀ hist: the reader sees end-of-stream only after the writer shut the stream down and after the reader got
every written byte. -/
theorem eof_only_at_end (sw rw : Nat) (h : sw ≤ rw) (ops : List Op) :
    (after sw rw ops).eof = true →
      (after sw rw ops).snd.shutdown = true ∧
      (after sw rw ops).rcv.buf.nread = (after sw rw ops).snd.written.length ∧
      (after sw rw ops).out = (after sw rw ops).snd.written := by
  intro he
  have hi := after_inv sw rw h ops
  obtain ⟨x1, x2, _⟩ := hi.b5 he
  refine ⟨x1, x2, ?_⟩
  rw [hi.b2, x2, List.take_length]

/-! ### 3. the receiver never rejects what this sender emits; no `unreachable!` is reached -/

/-- ∀ hist: no frame emitted by the sender (STREAM with or without FIN, RESET_STREAM) is answered with a
FLOW_CONTROL / FINAL_SIZE connection error, in whatever order and multiplicity the frames arrive; and the
`unreachable!()` arms of `Outgoing::{on_data_acked, may_loss_data}` and `Incoming::recv_reset` are not reached. -/
theorem no_spurious_error (sw rw : Nat) (h : sw ≤ rw) (ops : List Op) :
    (after sw rw ops).rxErr = none ∧ (after sw rw ops).snd.panicked = false ∧
    (after sw rw ops).rcv.panicked = false := by
  have hi := after_inv sw rw h ops
  exact ⟨hi.b8, hi.a8, hi.b7.2⟩

end GmQuic.Stream
