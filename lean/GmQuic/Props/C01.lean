import GmQuic.Model.Stream
import GmQuic.Lemmas.Stream
import GmQuic.Lemmas.StreamRun
import GmQuic.Lemmas.StreamMono
import GmQuic.Lemmas.StreamDone
/-!
C01 — stream data is delivered reliably, in order, exactly once.

Property theorems only.  Model: `GmQuic/Model/Stream.lean` (sender half with an abstract per-byte colour, the
adversarial network, receiver half on the C08 reassembly buffer).  Quantifier: "∀ hist" = every finite
`List Op` from `Stream.init sw rw` with `sw ≤ rw` (the sender's initial window does not exceed the
receiver's — RFC 9000 §18.2 makes them the same transport parameter, C11).  `pick off len` ranges over EVERY
range the implementation might choose (illegal choices are ignored by `step`), `deliver/ack/lose i` over every
frame ever emitted, in any order and multiplicity.
-/
namespace GmQuic.Stream
open GmQuic.RecvBuf (Bytes)

/-- the state after a history -/
def after (sw rw : Nat) (ops : List Op) : Stream := (Stream.init sw rw).run ops

theorem after_inv (sw rw : Nat) (h : sw ≤ rw) (ops : List Op) : Inv (after sw rw ops) :=
  inv_run (inv_init sw rw h) ops

/-- Non-vacuity witness: 8 bytes in two frames, the first one lost and retransmitted in two pieces, the second
delivered first, a duplicate delivery, FIN-only frame, acks in arbitrary order, reads of different sizes up to EOF. -/
def exOps : List Op :=
  [.write [1, 2, 3, 4, 5, 6, 7, 8], .pick 0 3, .pick 3 5, .shutdown, .deliver 1, .lose 0, .pick 0 2, .pick 2 1,
   .pick 8 0, .deliver 4, .deliver 3, .deliver 3, .read 2, .deliver 2, .read 5, .ack 1, .ack 4, .ack 3, .ack 2,
   .read 100, .read 100]

example : (5 : Nat) ≤ 7 ∧ (after 5 7 []).snd.maxData = 5 := by decide

/-! ### 1. exactly the written bytes, in order, each once -/

/-- ∀ hist: everything handed to the reader so far is exactly the first `nread` bytes the application wrote —
nothing missing, duplicated, altered or reordered — whatever was lost, duplicated, reordered, re-split or
retransmitted. -/
theorem read_is_prefix (sw rw : Nat) (h : sw ≤ rw) (ops : List Op) :
    (after sw rw ops).out = (after sw rw ops).snd.written.take (after sw rw ops).rcv.buf.nread ∧
    (after sw rw ops).rcv.buf.nread ≤ (after sw rw ops).snd.written.length := by
  have hi := after_inv sw rw h ops
  exact ⟨hi.b2, by have := hi.b1.nread_le; have := hi.b1.largest_le; omega⟩

/-- ∀ hist: the reader has received exactly `nread` bytes and the `i`-th of them is the `i`-th written byte. -/
theorem no_dup_no_gap (sw rw : Nat) (h : sw ≤ rw) (ops : List Op) :
    (after sw rw ops).out.length = (after sw rw ops).rcv.buf.nread ∧
    ∀ i, i < (after sw rw ops).out.length → (after sw rw ops).out[i]? = (after sw rw ops).snd.written[i]? := by
  obtain ⟨h1, h2⟩ := read_is_prefix sw rw h ops
  refine ⟨by rw [h1, List.length_take]; omega, fun i hi => ?_⟩
  rw [h1] at hi ⊢
  rw [List.length_take] at hi
  rw [List.getElem?_take]
  simp only [ite_eq_left_iff]
  intro hc; omega

/-- ∀ hist: every frame the sender ever emitted carries exactly the written bytes at its offset, and a frame
carries the FIN only if it ends at the final size after `shutdown`. -/
theorem frames_are_slices (sw rw : Nat) (h : sw ≤ rw) (ops : List Op) :
    ∀ f ∈ (after sw rw ops).emitted,
      f.data = slice (after sw rw ops).snd.written f.off f.data.length ∧
      f.stop ≤ (after sw rw ops).snd.written.length ∧
      (f.fin = true → f.stop = (after sw rw ops).snd.written.length ∧ (after sw rw ops).snd.shutdown = true) := by
  have hi := after_inv sw rw h ops
  intro f hm
  obtain ⟨x1, x2, _⟩ := hi.a1 f hm
  exact ⟨x2, x1, fun hf => ⟨hi.a3 f hm hf, (hi.a4 ⟨f, hm, hf⟩).1⟩⟩

/-! ### 2. end of stream -/

/-- ∀ hist: the reader sees end-of-stream only after the writer shut the stream down and after the reader got
every written byte. -/
theorem eof_only_at_end (sw rw : Nat) (h : sw ≤ rw) (ops : List Op) :
    (after sw rw ops).eof = true →
      (after sw rw ops).snd.shutdown = true ∧
      (after sw rw ops).rcv.buf.nread = (after sw rw ops).snd.written.length ∧
      (after sw rw ops).out = (after sw rw ops).snd.written := by
  intro he
  have hi := after_inv sw rw h ops
  obtain ⟨x1, x2, _⟩ := hi.b5 he
  refine ⟨x1, x2, ?_⟩
  rw [hi.b2, x2, List.take_length]

-- non-vacuity: the witness history reaches EOF with all 8 bytes, through a loss, a re-split and a duplicate
example : (after 20 20 exOps).eof = true ∧ (after 20 20 exOps).out = [1, 2, 3, 4, 5, 6, 7, 8] ∧
    (after 20 20 exOps).emitted.length = 5 ∧ (after 20 20 exOps).snd.st = .dataRcvd ∧
    (after 20 20 exOps).rcv.st = .dataRead := by decide

/-! ### 3. the receiver never rejects what this sender emits; no `unreachable!` is reached -/

/-- ∀ hist: no frame emitted by the sender (STREAM with or without FIN, RESET_STREAM) is answered with a
FLOW_CONTROL / FINAL_SIZE connection error, in whatever order and multiplicity the frames arrive; and the
`unreachable!()` arms of `Outgoing::{on_data_acked, may_loss_data}` and `Incoming::recv_reset` are not reached. -/
theorem no_spurious_error (sw rw : Nat) (h : sw ≤ rw) (ops : List Op) :
    (after sw rw ops).rxErr = none ∧ (after sw rw ops).snd.panicked = false ∧
    (after sw rw ops).rcv.panicked = false := by
  have hi := after_inv sw rw h ops
  exact ⟨hi.b8, hi.a8, hi.b7.2⟩

/-! ### 4. the state machines only move along the RFC 9000 §3 diagrams -/

/-- ∀ hist, ∀ continuation: the sending part only moves forward along
`Ready → Send → DataSent → DataRecvd` / `Ready|Send|DataSent → ResetSent → ResetRecvd` (RFC 9000 §3.1);
in particular it never leaves a terminal state and never goes back to accepting writes after the FIN. -/
theorem sender_monotone (sw rw : Nat) (ops more : List Op) :
    (after sw rw ops).snd.st.reach (after sw rw (ops ++ more)).snd.st = true := by
  unfold after; rw [run_append]; exact run_sreach _ _

/-- ∀ hist, ∀ continuation: the receiving part only moves forward along
`Recv → SizeKnown → DataRecvd → DataRead` / `Recv|SizeKnown → ResetRecvd → ResetRead` (RFC 9000 §3.2). -/
theorem recver_monotone (sw rw : Nat) (ops more : List Op) :
    (after sw rw ops).rcv.st.reach (after sw rw (ops ++ more)).rcv.st = true := by
  unfold after; rw [run_append]; exact run_rreach _ _

/-! ### 5. flush / shutdown complete exactly when everything is acknowledged -/

/-- ∀ hist: `poll_shutdown` completes iff the sender is in `DataRcvd`, and the sender is in `DataRcvd` only when
every written byte AND the FIN have been acknowledged; while it is in `DataSent` (FIN emitted) they have not all
been — so, once the FIN is out, shutdown completes exactly when data + FIN are acknowledged. -/
theorem shutdown_iff_all_acked (sw rw : Nat) (ops : List Op) :
    let s := (after sw rw ops).snd
    (s.pollShutdown.2 = "ready" ↔ s.err = false ∧ s.st = .dataRcvd) ∧
    (s.st = .dataRcvd → s.allAcked ∧ s.fin = .rcvd) ∧
    (s.st = .dataSent → ¬ (s.allAcked ∧ s.fin = .rcvd)) := by
  have hd := done_run (Stream.init sw rw) ops (done_init sw rw)
  refine ⟨?_, hd.1, hd.2⟩
  unfold Sender.pollShutdown
  cases (after sw rw ops).snd.err <;> cases (after sw rw ops).snd.st <;> simp

/-- ∀ hist: `poll_flush` completes iff (no FIN emitted yet and every written byte is acknowledged) or the sender
is in `DataRcvd`; in both cases every written byte has been acknowledged. -/
theorem flush_iff_all_acked (sw rw : Nat) (ops : List Op) :
    let s := (after sw rw ops).snd
    (s.pollFlush = "ready" ↔
      s.err = false ∧ (((s.st = .ready ∨ s.st = .sending) ∧ s.allAcked) ∨ s.st = .dataRcvd)) ∧
    (s.pollFlush = "ready" → s.allAcked) := by
  have hd := done_run (Stream.init sw rw) ops (done_init sw rw)
  have key : (after sw rw ops).snd.pollFlush = "ready" ↔
      (after sw rw ops).snd.err = false ∧ ((((after sw rw ops).snd.st = .ready ∨ (after sw rw ops).snd.st = .sending) ∧
        (after sw rw ops).snd.allAcked) ∨ (after sw rw ops).snd.st = .dataRcvd) := by
    unfold Sender.pollFlush
    cases (after sw rw ops).snd.err <;> cases (after sw rw ops).snd.st <;> simp
  refine ⟨key, fun hr => ?_⟩
  rcases (key.mp hr).2 with ⟨_, h2⟩ | h2
  · exact h2
  · exact (hd.1 h2).1

/-! ### 6. nothing that must be (re)sent is left behind -/

/-- When the model says the sender has nothing it must send (`somePick = none`; the correspondence run checks
that the real `try_load_data_into` returns nothing ONLY then), no written byte inside the window is unsent or
marked lost, and no FIN is due. -/
theorem idle_means_nothing_pending (s : Sender) (hl : s.live = true) (h : s.somePick = none) :
    (∀ x, x < s.written.length → x < s.maxData → (s.status x).pickable = false) ∧ ¬ s.finDue := by
  unfold Sender.somePick at h
  simp only [hl, if_true] at h
  split at h
  · cases h
  · rename_i hf
    refine ⟨fun x h1 h2 => ?_, fun hd => by simp [hd] at h⟩
    have := List.find?_eq_none.mp hf x (by simp; omega)
    simpa using this

-- non-vacuity: after the witness history minus the final acks the sender is live, idle and has nothing pending
example : (after 20 20 (exOps.take 15)).snd.live = true ∧ (after 20 20 (exOps.take 15)).snd.somePick = none ∧
    (after 20 20 (exOps.take 6)).snd.somePick = some (0, 1) := by decide

end GmQuic.Stream
