import GmQuic.Model.Stream
import GmQuic.Lemmas.Stream
import GmQuic.Lemmas.StreamRun
import GmQuic.Lemmas.StreamMono
import GmQuic.Lemmas.StreamDone
import GmQuic.Lemmas.StreamLiveN
import GmQuic.Lemmas.StreamLiveV
import GmQuic.Lemmas.StreamWinC
import GmQuic.Lemmas.StreamWinD
import GmQuic.Lemmas.StreamWinE
/-!
C01 — stream data is delivered reliably, in order, exactly once.

Property theorems only.  Model: `GmQuic/Model/Stream.lean` (sender half with an abstract per-byte colour, the
adversarial network, receiver half on the C08 reassembly buffer).  Quantifier: "∀ hist" = every finite
`List Op` from `Stream.init sw rw` with `sw ≤ rw` (the sender's initial window does not exceed the
receiver's — RFC 9000 §18.2 makes them the same transport parameter, C11).  `pick off len` ranges over EVERY
range the implementation might choose (illegal choices are ignored by `step`), `deliver/ack/lose i` over every
frame ever emitted, in any order and multiplicity.
-/
namespace GmQuic.Stream
open GmQuic.RecvBuf (Bytes)

/-- the state after a history -/
def after (sw rw : Nat) (ops : List Op) : Stream := (Stream.init sw rw).run ops

theorem after_inv (sw rw : Nat) (h : sw ≤ rw) (ops : List Op) : Inv (after sw rw ops) :=
  inv_run (inv_init sw rw h) ops

/-- Non-vacuity witness: 8 bytes in two frames, the first one lost and retransmitted in two pieces, the second
delivered first, a duplicate delivery, FIN-only frame, acks in arbitrary order, reads of different sizes up to EOF. -/
def exOps : List Op :=
  [.write [1, 2, 3, 4, 5, 6, 7, 8], .pick 0 3, .pick 3 5, .shutdown, .deliver 1, .lose 0, .pick 0 2, .pick 2 1,
   .pick 8 0, .deliver 4, .deliver 3, .deliver 3, .read 2, .deliver 2, .read 5, .ack 1, .ack 4, .ack 3, .ack 2,
   .read 100, .read 100]

example : (5 : Nat) ≤ 7 ∧ (after 5 7 []).snd.maxData = 5 := by decide

/-! ### 1. exactly the written bytes, in order, each once -/

/-- ∀ hist: everything handed to the reader so far is exactly the first `nread` bytes the application wrote —
nothing missing, duplicated, altered or reordered — whatever was lost, duplicated, reordered, re-split or
retransmitted. -/
theorem read_is_prefix (sw rw : Nat) (h : sw ≤ rw) (ops : List Op) :
    (after sw rw ops).out = (after sw rw ops).snd.written.take (after sw rw ops).rcv.buf.nread ∧
    (after sw rw ops).rcv.buf.nread ≤ (after sw rw ops).snd.written.length := by
  have hi := after_inv sw rw h ops
  exact ⟨hi.b2, by have := hi.b1.nread_le; have := hi.b1.largest_le; omega⟩

/-- ∀ hist: the reader has received exactly `nread` bytes and the `i`-th of them is the `i`-th written byte. -/
theorem no_dup_no_gap (sw rw : Nat) (h : sw ≤ rw) (ops : List Op) :
    (after sw rw ops).out.length = (after sw rw ops).rcv.buf.nread ∧
    ∀ i, i < (after sw rw ops).out.length → (after sw rw ops).out[i]? = (after sw rw ops).snd.written[i]? := by
  obtain ⟨h1, h2⟩ := read_is_prefix sw rw h ops
  refine ⟨by rw [h1, List.length_take]; omega, fun i hi => ?_⟩
  rw [h1] at hi ⊢
  rw [List.length_take] at hi
  rw [List.getElem?_take]
  simp only [ite_eq_left_iff]
  intro hc; omega

/-- ∀ hist: every frame the sender ever emitted carries exactly the written bytes at its offset, and a frame
carries the FIN only if it ends at the final size after `shutdown`. -/
theorem frames_are_slices (sw rw : Nat) (h : sw ≤ rw) (ops : List Op) :
    ∀ f ∈ (after sw rw ops).emitted,
      f.data = slice (after sw rw ops).snd.written f.off f.data.length ∧
      f.stop ≤ (after sw rw ops).snd.written.length ∧
      (f.fin = true → f.stop = (after sw rw ops).snd.written.length ∧ (after sw rw ops).snd.shutdown = true) := by
  have hi := after_inv sw rw h ops
  intro f hm
  obtain ⟨x1, x2, _⟩ := hi.a1 f hm
  exact ⟨x2, x1, fun hf => ⟨hi.a3 f hm hf, (hi.a4 ⟨f, hm, hf⟩).1⟩⟩

/-! ### 2. end of stream -/

/-- ∀ hist: the reader sees end-of-stream only after the writer shut the stream down and after the reader got
every written byte. -/
theorem eof_only_at_end (sw rw : Nat) (h : sw ≤ rw) (ops : List Op) :
    (after sw rw ops).eof = true →
      (after sw rw ops).snd.shutdown = true ∧
      (after sw rw ops).rcv.buf.nread = (after sw rw ops).snd.written.length ∧
      (after sw rw ops).out = (after sw rw ops).snd.written := by
  intro he
  have hi := after_inv sw rw h ops
  obtain ⟨x1, x2, _⟩ := hi.b5 he
  refine ⟨x1, x2, ?_⟩
  rw [hi.b2, x2, List.take_length]

-- non-vacuity: the witness history reaches EOF with all 8 bytes, through a loss, a re-split and a duplicate
example : (after 20 20 exOps).eof = true ∧ (after 20 20 exOps).out = [1, 2, 3, 4, 5, 6, 7, 8] ∧
    (after 20 20 exOps).emitted.length = 5 ∧ (after 20 20 exOps).snd.st = .dataRcvd ∧
    (after 20 20 exOps).rcv.st = .dataRead := by decide

/-! ### 3. the receiver never rejects what this sender emits; no `unreachable!` is reached -/

/-- ∀ hist: no frame emitted by the sender (STREAM with or without FIN, RESET_STREAM) is answered with a
FLOW_CONTROL / FINAL_SIZE connection error, in whatever order and multiplicity the frames arrive; and the
`unreachable!()` arms of `Outgoing::{on_data_acked, may_loss_data}` and `Incoming::recv_reset` are not reached. -/
theorem no_spurious_error (sw rw : Nat) (h : sw ≤ rw) (ops : List Op) :
    (after sw rw ops).rxErr = none ∧ (after sw rw ops).snd.panicked = false ∧
    (after sw rw ops).rcv.panicked = false := by
  have hi := after_inv sw rw h ops
  exact ⟨hi.b8, hi.a8, hi.b7.2⟩

/-! ### 4. the state machines only move along the RFC 9000 §3 diagrams -/

/-- ∀ hist, ∀ continuation: the sending part only moves forward along
`Ready → Send → DataSent → DataRecvd` / `Ready|Send|DataSent → ResetSent → ResetRecvd` (RFC 9000 §3.1);
in particular it never leaves a terminal state and never goes back to accepting writes after the FIN. -/
theorem sender_monotone (sw rw : Nat) (ops more : List Op) :
    (after sw rw ops).snd.st.reach (after sw rw (ops ++ more)).snd.st = true := by
  unfold after; rw [run_append]; exact run_sreach _ _

/-- ∀ hist, ∀ continuation: the receiving part only moves forward along
`Recv → SizeKnown → DataRecvd → DataRead` / `Recv|SizeKnown → ResetRecvd → ResetRead` (RFC 9000 §3.2). -/
theorem recver_monotone (sw rw : Nat) (ops more : List Op) :
    (after sw rw ops).rcv.st.reach (after sw rw (ops ++ more)).rcv.st = true := by
  unfold after; rw [run_append]; exact run_rreach _ _

/-! ### 5. flush / shutdown complete exactly when everything is acknowledged -/

/-- ∀ hist: `poll_shutdown` completes iff the sender is in `DataRcvd`, and the sender is in `DataRcvd` only when
every written byte AND the FIN have been acknowledged; while it is in `DataSent` (FIN emitted) they have not all
been — so, once the FIN is out, shutdown completes exactly when data + FIN are acknowledged. -/
theorem shutdown_iff_all_acked (sw rw : Nat) (ops : List Op) :
    let s := (after sw rw ops).snd
    (s.pollShutdown.2 = "ready" ↔ s.err = false ∧ s.st = .dataRcvd) ∧
    (s.st = .dataRcvd → s.allAcked ∧ s.fin = .rcvd) ∧
    (s.st = .dataSent → ¬ (s.allAcked ∧ s.fin = .rcvd)) := by
  have hd := done_run (Stream.init sw rw) ops (done_init sw rw)
  refine ⟨?_, hd.1, hd.2⟩
  unfold Sender.pollShutdown
  cases (after sw rw ops).snd.err <;> cases (after sw rw ops).snd.st <;> simp

/-- ∀ hist: `poll_flush` completes iff (no FIN emitted yet and every written byte is acknowledged) or the sender
is in `DataRcvd`; in both cases every written byte has been acknowledged. -/
theorem flush_iff_all_acked (sw rw : Nat) (ops : List Op) :
    let s := (after sw rw ops).snd
    (s.pollFlush = "ready" ↔
      s.err = false ∧ (((s.st = .ready ∨ s.st = .sending) ∧ s.allAcked) ∨ s.st = .dataRcvd)) ∧
    (s.pollFlush = "ready" → s.allAcked) := by
  have hd := done_run (Stream.init sw rw) ops (done_init sw rw)
  have key : (after sw rw ops).snd.pollFlush = "ready" ↔
      (after sw rw ops).snd.err = false ∧ ((((after sw rw ops).snd.st = .ready ∨ (after sw rw ops).snd.st = .sending) ∧
        (after sw rw ops).snd.allAcked) ∨ (after sw rw ops).snd.st = .dataRcvd) := by
    unfold Sender.pollFlush
    cases (after sw rw ops).snd.err <;> cases (after sw rw ops).snd.st <;> simp
  refine ⟨key, fun hr => ?_⟩
  rcases (key.mp hr).2 with ⟨_, h2⟩ | h2
  · exact h2
  · exact (hd.1 h2).1

/-! ### 6. nothing that must be (re)sent is left behind -/

/-- When the model says the sender has nothing it must send (`somePick = none`; the correspondence run checks
that the real `try_load_data_into` returns nothing ONLY then), no written byte inside the window is unsent or
marked lost, and no FIN is due. -/
theorem idle_means_nothing_pending (s : Sender) (hl : s.live = true) (h : s.somePick = none) :
    (∀ x, x < s.written.length → x < s.maxData → (s.status x).pickable = false) ∧ ¬ s.finDue := by
  unfold Sender.somePick at h
  simp only [hl, if_true] at h
  split at h
  · cases h
  · rename_i hf
    refine ⟨fun x h1 h2 => ?_, fun hd => by simp [hd] at h⟩
    have := List.find?_eq_none.mp hf x (by simp; omega)
    simpa using this

-- non-vacuity: after the witness history minus the final acks the sender is live, idle and has nothing pending
example : (after 20 20 (exOps.take 15)).snd.live = true ∧ (after 20 20 (exOps.take 15)).snd.somePick = none ∧
    (after 20 20 (exOps.take 6)).snd.somePick = some (0, 1) := by decide

/-! ### 7. liveness: if the network eventually delivers what is retransmitted, everything completes

`Fair s` (Lemmas/StreamLiveN) = the state is reachable (all invariants), no reset / stop / connection error happened
on either half (`SndOk`, `RcvOk`), and the network was honest so far (`Honest`: what is marked acknowledged has
reached the receiver).  `fair_history` shows that it holds after EVERY history of `HOp`s: arbitrary writes, shutdown,
picks, deliveries of any emitted frame in any order and multiplicity, loss declarations of any frame (spurious or
not, before or after a delivery / acknowledgement), reads, window updates, and acknowledgements that follow a delivery.

The cooperative suffix, from such a state with the whole stream inside the sender's window:
1. `shutdown`;
2. every frame ever emitted is, at the schedule's choice (`keep`), declared lost or delivered and acknowledged;
3. ANY sequence `ps` of legal picks (ranges chosen by the implementation) none of which merely repeats the FIN-only
   frame, continued until the sender has nothing to send (`somePick = none`) — at most `mu` picks
   (`pick_phase_terminates`), and while `somePick ≠ none` a next pick exists (`sender_deadlock_free`);
4. every frame emitted in phase 3 is delivered and acknowledged — and ONLY those: a frame declared lost in phase 2
   is never delivered or acknowledged, so whatever it carried must have been retransmitted by the sender itself;
5. two reads with room for more than the whole stream.
-/

/-- After every history without abort in which the network acknowledges only what it delivered, the hypotheses
of the liveness theorem hold. -/
theorem fair_history (sw rw : Nat) (h : sw ≤ rw) (l : List HOp) : Fair (after sw rw (hops l)) :=
  fair_run (fair_init sw rw h) l

/-- TERMINATION MEASURE of "pick until there is nothing to pick": any sequence of legal picks that never merely
repeats the FIN-only frame is at most `mu` long (`mu` = number of written bytes that are unsent or marked lost
+ 1 if a FIN (re)transmission is outstanding), from ANY state. -/
theorem pick_phase_terminates (s : Stream) (ps : List (Nat × Nat)) (h : PickSeq s ps) : ps.length ≤ s.snd.mu :=
  pickSeq_bound h

/-- DEADLOCK FREEDOM of the sender, ∀ hist: whenever the model says something must be sent (`somePick ≠ none`:
a byte inside the window is unsent or marked lost, or the FIN is due), a legal pick exists that strictly
decreases the measure. -/
theorem sender_deadlock_free (sw rw : Nat) (h : sw ≤ rw) (hist : List Op)
    (hn : (after sw rw hist).snd.somePick ≠ none) :
    ∃ o l, (after sw rw hist).snd.pickOk o l ∧ (l ≠ 0 ∨ (after sw rw hist).snd.finDue) ∧
      ((after sw rw hist).snd.pick o l).1.mu < (after sw rw hist).snd.mu := by
  obtain ⟨o, l, h1, h2⟩ := progress (reach_run (reach_init sw rw h) hist) hn
  exact ⟨o, l, h1, h2, pick_mu_lt h1 h2⟩

/-- LIVENESS (cooperative-suffix form, full strength): from EVERY state `s0` that satisfies `Fair` and has the whole
stream inside the sender's window, for EVERY choice `keep` of which frames in flight are lost and which are
delivered+acknowledged, and EVERY complete sequence `ps` of legal non-repeating picks: after delivering and
acknowledging exactly the frames emitted by these picks and reading, the reader has read exactly `written`, has seen
end-of-stream, the sender is in `DataRcvd`, `poll_shutdown` and `poll_flush` are `Ready(Ok)`, the receiver is in
`DataRead`. -/
theorem eventually_complete (s0 : Stream) (hf : Fair s0) (hwin : s0.snd.written.length ≤ s0.snd.maxData)
    (keep : Nat → Bool) (ps : List (Nat × Nat)) (cap : Nat) (hcap : s0.snd.written.length < cap) :
    let s2 := s0.run (.shutdown :: settleOps keep (List.range s0.emitted.length))
    PickSeq s2 ps →
    let s3 := s2.run (pickOps ps)
    s3.snd.somePick = none →
    let t := s3.run (settleOps (fun _ => true) (List.range' s0.emitted.length (s3.emitted.length - s0.emitted.length)) ++
                      [.read cap, .read cap])
    t.eof = true ∧ t.out = s0.snd.written ∧ t.snd.written = s0.snd.written ∧ t.snd.st = .dataRcvd ∧
      t.snd.pollShutdown.2 = "ready" ∧ t.snd.pollFlush = "ready" ∧ t.rcv.st = .dataRead := by
  intro s2 hps s3 hidle t
  obtain ⟨r2, ok2, so2, w2, m2, k2⟩ := phaseB hf.reach hf.hon hf.snd hf.rcv keep
  have k3 := k_picks hps k2
  have r3 : Reach s3 := reach_run r2 _
  have m23 : Mono s2 s3 := mono_run r2 _ (pickOps_coop ps)
  have hw3 : s3.snd.written = s0.snd.written := m23.wr.trans w2
  obtain ⟨d1, d2, d3, d4, hrd⟩ := phaseD r3 (m23.ok ok2) (m23.so so2) k3
    (by rw [hw3, m23.md, m2]; exact hwin) hidle (cap := cap) (by rw [hw3]; exact hcap)
  have hc : ∀ op ∈ (settleOps (fun _ => true) (List.range' s0.emitted.length (s3.emitted.length - s0.emitted.length)) ++
      [Op.read cap, Op.read cap]), op.coop = true := by
    intro op hm
    rcases List.mem_append.mp hm with e | e
    · exact settle_coop _ _ op e
    · simp at e; subst e; rfl
  have so6 : SndOk t.snd := (mono_run r3 _ hc).so (m23.so so2)
  refine ⟨d1, by rw [d2, hw3], by rw [d3, hw3], d4, ?_, ?_, hrd⟩
  · have d4' : t.snd.st = .dataRcvd := d4
    unfold Sender.pollShutdown; simp [so6.1, d4']
  · have d4' : t.snd.st = .dataRcvd := d4
    unfold Sender.pollFlush; simp [so6.1, d4']

/-- LIVENESS when the application never shuts the stream down ("EOF iff shutdown was called", the other half): from
every `Fair` state in which `shutdown` was not called, with the stream inside the window, the same suffix WITHOUT
`shutdown` (every frame in flight lost or delivered+acknowledged; any complete sequence of legal picks; exactly the new
frames delivered and acknowledged; one large read) ends with every written byte read, every byte acknowledged,
`poll_flush` = `Ready(Ok)`, and NO end-of-stream reported. -/
theorem eventually_flushed (s0 : Stream) (hf : Fair s0)
    (hopen : s0.snd.shutdown = false ∧ (s0.snd.st = .ready ∨ s0.snd.st = .sending))
    (hwin : s0.snd.written.length ≤ s0.snd.maxData)
    (keep : Nat → Bool) (ps : List (Nat × Nat)) (cap : Nat) (hcap : s0.snd.written.length < cap) :
    let s2 := s0.run (settleOps keep (List.range s0.emitted.length))
    PickSeq s2 ps →
    let s3 := s2.run (pickOps ps)
    s3.snd.somePick = none →
    let t := s3.run (settleOps (fun _ => true) (List.range' s0.emitted.length (s3.emitted.length - s0.emitted.length)) ++
                      [.read cap])
    t.out = s0.snd.written ∧ t.snd.written = s0.snd.written ∧ t.snd.pollFlush = "ready" ∧ t.snd.allAcked ∧
      t.eof = false := by
  intro s2 hps s3 hidle t
  have ho : Open s0.snd := ⟨hf.snd.1, hopen.1, hopen.2⟩
  obtain ⟨r2, ok2, o2, w2, m2, k2⟩ := phaseB' hf.reach hf.hon ho hf.rcv keep
  have k3 := kd_picks hps k2
  have r3 : Reach s3 := reach_run r2 _
  have m23 : Mono s2 s3 := mono_run r2 _ (pickOps_coop ps)
  have o3 : Open s3.snd := open_run _ (pickOps_noshut ps) o2
  have hw3 : s3.snd.written = s0.snd.written := m23.wr.trans w2
  obtain ⟨d1, d2, d3, d4, d5⟩ := phaseD' r3 (m23.ok ok2) o3 k3
    (by rw [hw3, m23.md, m2]; exact hwin) hidle (cap := cap) (by rw [hw3]; exact hcap)
  exact ⟨by rw [d1, hw3], by rw [d2, hw3], d3, d5, d4⟩

def exOpen : List HOp := [.write [1, 2, 3, 4], .pick 0 2, .pick 2 2, .lose 1, .deliverAck 0]

-- non-vacuity: two frames, the second lost; no shutdown; the retransmission `(2, 2)` completes the picks
example :
    let s2 := (after 20 20 (hops exOpen)).run (settleOps (fun _ => false) (List.range 2))
    (after 20 20 (hops exOpen)).snd.shutdown = false ∧ (after 20 20 (hops exOpen)).snd.st = .sending ∧
    s2.snd.pickOk 2 2 ∧ (s2.run (pickOps [(2, 2)])).snd.somePick = none := by decide

example :
    let t := (after 20 20 (hops exOpen)).run (settleOps (fun _ => false) (List.range 2) ++ pickOps [(2, 2)] ++
      settleOps (fun _ => true) (List.range' 2 1) ++ [.read 5])
    t.out = [1, 2, 3, 4] ∧ t.snd.pollFlush = "ready" ∧ t.eof = false ∧ t.snd.st = .sending := by decide

/-- A complete cooperative suffix EXISTS from every such state (so the theorem above is never vacuous and the
schedule it describes can always be played to the end). -/
theorem cooperative_suffix_exists (s0 : Stream) (hf : Fair s0) (keep : Nat → Bool) :
    let s2 := s0.run (.shutdown :: settleOps keep (List.range s0.emitted.length))
    ∃ ps, PickSeq s2 ps ∧ ps.length ≤ s2.snd.mu ∧ (s2.run (pickOps ps)).snd.somePick = none := by
  intro s2
  obtain ⟨ps, p1, p2⟩ := exists_drain s2.snd.mu (Nat.le_refl _) (reach_run hf.reach _)
  exact ⟨ps, p1, pickSeq_bound p1, p2⟩

/-- LIVENESS, all hypotheses but the window discharged: after EVERY no-abort history with an honest network, if the
stream fits the sender's window, then for every choice of which frames in flight are lost there is a finite continuation
(the cooperative suffix; `shutdown`, picks, deliveries, acknowledgements, loss declarations and reads only) after
which the reader has read exactly what was written, has seen end-of-stream, and the sender is in `DataRcvd`. -/
theorem completes_after_every_history (sw rw : Nat) (h : sw ≤ rw) (l : List HOp)
    (hwin : (after sw rw (hops l)).snd.written.length ≤ (after sw rw (hops l)).snd.maxData) (keep : Nat → Bool) :
    ∃ ops : List Op, (∀ op ∈ ops, op.coop = true) ∧
      ((after sw rw (hops l)).run ops).eof = true ∧
      ((after sw rw (hops l)).run ops).out = (after sw rw (hops l)).snd.written ∧
      ((after sw rw (hops l)).run ops).snd.st = .dataRcvd ∧
      ((after sw rw (hops l)).run ops).snd.pollShutdown.2 = "ready" ∧
      ((after sw rw (hops l)).run ops).snd.pollFlush = "ready" := by
  have hf := fair_history sw rw h l
  obtain ⟨ps, p1, _, p3⟩ := cooperative_suffix_exists _ hf keep
  have hc := eventually_complete _ hf hwin keep ps ((after sw rw (hops l)).snd.written.length + 1) (Nat.lt_succ_self _) p1 p3
  obtain ⟨c1, c2, _, c4, c5, c6, _⟩ := hc
  refine ⟨(.shutdown :: settleOps keep (List.range (after sw rw (hops l)).emitted.length)) ++ pickOps ps ++
    (settleOps (fun _ => true) (List.range' (after sw rw (hops l)).emitted.length
      ((((after sw rw (hops l)).run (.shutdown :: settleOps keep (List.range (after sw rw (hops l)).emitted.length))).run
        (pickOps ps)).emitted.length - (after sw rw (hops l)).emitted.length)) ++
     [.read ((after sw rw (hops l)).snd.written.length + 1), .read ((after sw rw (hops l)).snd.written.length + 1)]), ?_, ?_⟩
  · intro op hm
    rcases List.mem_append.mp hm with e | e
    · rcases List.mem_append.mp e with e | e
      · rcases List.mem_cons.mp e with e | e
        · subst e; rfl
        · exact settle_coop _ _ op e
      · exact pickOps_coop ps op e
    · rcases List.mem_append.mp e with e | e
      · exact settle_coop _ _ op e
      · simp at e; subst e; rfl
  · simp only [run_append] at c1 c2 c4 c5 c6 ⊢
    exact ⟨c1, c2, c4, c5, c6⟩

/-- the history of seeded change c01-1: the tail is sent without FIN, spuriously declared lost, the application
shuts down, the retransmission carries data + FIN, the original is delivered and acknowledged late -/
def exLate : List HOp :=
  [.write [1, 2, 3, 4, 5], .pick 0 5, .lose 0, .shutdown, .pick 0 5, .deliverAck 0]

-- non-vacuity: on that history, with the data+FIN retransmission then lost for good (`keep = false`), the sender
-- must come back with a FIN-only frame (the complete pick sequence is `[(5, 0)]`), and the suffix completes
example : (after 20 20 (hops exLate)).snd.st = .dataSent ∧ (after 20 20 (hops exLate)).snd.fin = .sent ∧
    (after 20 20 (hops exLate)).snd.written.length ≤ (after 20 20 (hops exLate)).snd.maxData := by decide

example :
    let s2 := (after 20 20 (hops exLate)).run (.shutdown :: settleOps (fun _ => false) (List.range 2))
    s2.snd.somePick = some (5, 0) ∧ s2.snd.pickOk 5 0 ∧ s2.snd.finDue ∧ s2.snd.mu = 1 ∧
    (s2.run (pickOps [(5, 0)])).snd.somePick = none := by decide

example :
    let t := (after 20 20 (hops exLate)).run (.shutdown :: settleOps (fun _ => false) (List.range 2) ++ pickOps [(5, 0)] ++
      settleOps (fun _ => true) (List.range' 2 1) ++ [.read 6, .read 6])
    t.eof = true ∧ t.out = [1, 2, 3, 4, 5] ∧ t.snd.st = .dataRcvd ∧ t.rcv.st = .dataRead ∧ t.emitted.length = 3 := by decide

/-! ### liveness with flow control: a window smaller than the stream

`eventually_complete` assumes that the whole stream fits the window the sender already has.  In reality the receiver
grants more (`Recv::poll_read` emits MAX_STREAM_DATA) as the application reads.  The cooperative ROUND (`wround`):
*(1) `shutdown`; (2) every frame ever emitted is lost or delivered+acknowledged (`keep`, chosen per round); (3) ANY
complete sequence of legal non-repeating picks — until the sender is blocked by the window or has nothing left;
(4) exactly the new frames are delivered and acknowledged; (5) `read cap` — everything available; (6) the last
MAX_STREAM_DATA frame emitted is delivered to the sender.*  Flow-control hypothesis `Flow s` (Lemmas/StreamWinB):
the receiver's advertised limit exceeds what was read by at least one byte (`nread < max_stream_data`; `Recv::poll_read`
re-establishes it on every read: limit := nread + 2_000_000 as soon as nread + 1_000_000 exceeds it), and the sender
knows that limit or it is the value of the last MAX_STREAM_DATA frame emitted (`Synced`). -/

/-- OUTER TERMINATION MEASURE (window deficit `|written| − maxData`): every round from a `Fair` state with the
flow-control hypothesis, for EVERY loss pattern and EVERY complete pick sequence, preserves `Fair` and the hypothesis,
writes nothing, never shrinks the window, and leaves the window covering the whole stream or STRICTLY larger. -/
theorem window_round_progress (s : Stream) (hf : Fair s) (hw : WinOk s) (hlen : s.snd.written.length < varintMax)
    (cap : Nat) (hcap : s.snd.written.length < cap) (c : Choice) (hok : RoundOk s c) :
    Fair (wround cap s c) ∧ WinOk (wround cap s c) ∧ (wround cap s c).snd.written = s.snd.written ∧
      s.snd.maxData ≤ (wround cap s c).snd.maxData ∧
      ((wround cap s c).snd.written.length ≤ (wround cap s c).snd.maxData ∨
        s.snd.maxData < (wround cap s c).snd.maxData) :=
  wround_spec cap hf hw hlen hcap c hok

/-- LIVENESS WITH FLOW CONTROL (cooperative form, full strength): from EVERY `Fair` state `s0` with the flow-control
hypothesis (or the stream inside the window: `WinOk`), stream shorter than 2^62 − 1 bytes, for EVERY schedule `cs` of
rounds (each with its own loss pattern and its own complete pick sequence — `Sched`) that is at least as long as the
window deficit `|written| − maxData` (or after which the window is seen to cover the stream), the final suffix of
`eventually_complete` (any loss pattern `keep`, any complete pick sequence `ps`, the new frames delivered and
acknowledged, two reads) ends with everything read, end-of-stream seen, the sender in `DataRcvd`, `poll_shutdown` and
`poll_flush` = `Ready(Ok)`, the receiver in `DataRead`.  Lexicographic measure: (window deficit — strictly smaller
after every round that does not end it, `window_round_progress`; `mu` — every pick inside a round, `pick_phase_terminates`). -/
theorem eventually_complete_windowed (s0 : Stream) (hf : Fair s0) (hw : WinOk s0)
    (hlen : s0.snd.written.length < varintMax) (cap : Nat) (hcap : s0.snd.written.length < cap)
    (cs : List Choice) (hs : Sched cap s0 cs)
    (hn : s0.snd.written.length - s0.snd.maxData ≤ cs.length ∨
      s0.snd.written.length ≤ (cs.foldl (wround cap) s0).snd.maxData)
    (keep : Nat → Bool) (ps : List (Nat × Nat)) :
    let s1 := cs.foldl (wround cap) s0
    let s2 := s1.run (.shutdown :: settleOps keep (List.range s1.emitted.length))
    PickSeq s2 ps →
    let s3 := s2.run (pickOps ps)
    s3.snd.somePick = none →
    let t := s3.run (settleOps (fun _ => true) (List.range' s1.emitted.length (s3.emitted.length - s1.emitted.length)) ++
                      [.read cap, .read cap])
    t.eof = true ∧ t.out = s0.snd.written ∧ t.snd.written = s0.snd.written ∧ t.snd.st = .dataRcvd ∧
      t.snd.pollShutdown.2 = "ready" ∧ t.snd.pollFlush = "ready" ∧ t.rcv.st = .dataRead := by
  intro s1 s2 hps s3 hidle t
  obtain ⟨f1, _, w1, _, g1⟩ := sched_spec cap cs hf hw hlen hcap hs
  have hfit : s1.snd.written.length ≤ s1.snd.maxData := by
    rcases g1 with g | g
    · exact g
    · show (cs.foldl (wround cap) s0).snd.written.length ≤ (cs.foldl (wround cap) s0).snd.maxData
      rw [w1]
      rcases hn with h | h
      · omega
      · exact h
  have hc := eventually_complete s1 f1 hfit keep ps cap
    (by show (cs.foldl (wround cap) s0).snd.written.length < cap; rw [w1]; exact hcap) hps hidle
  have w1' : s1.snd.written = s0.snd.written := w1
  rw [w1'] at hc
  exact hc

/-- The schedule can always be played: from every `Fair` state a schedule of rounds of ANY length exists (in particular
one as long as the window deficit), so `eventually_complete_windowed` is never vacuous. -/
theorem windowed_schedule_exists (s0 : Stream) (hf : Fair s0) (cap n : Nat) :
    ∃ cs : List Choice, cs.length = n ∧ Sched cap s0 cs :=
  sched_exists cap n hf

/-- non-vacuity: a 10-byte stream through a 4-byte window.  Round 1 can only send `[0, 4)`; the read of these 4 bytes
makes the receiver advertise 2 000 004, the MAX_STREAM_DATA frame is delivered, and the final suffix sends `[4, 10)` + FIN. -/
def exWin : Stream := after 4 4 [.write [1, 2, 3, 4, 5, 6, 7, 8, 9, 10]]

example : Fair exWin := fair_history 4 4 (Nat.le_refl _) [.write [1, 2, 3, 4, 5, 6, 7, 8, 9, 10]]
example : Flow exWin := ⟨by decide, Or.inl (by decide)⟩
example : exWin.snd.maxData = 4 ∧ exWin.snd.written.length = 10 ∧
    exWin.snd.written.length < varintMax := by decide
example : Sched 11 exWin [(fun _ => true, [(0, 4)])] :=
  ⟨⟨⟨by decide, Or.inl (by decide), trivial⟩, by decide⟩, trivial⟩
example : (wround 11 exWin (fun _ => true, [(0, 4)])).snd.maxData = 2000004 ∧
    (wround 11 exWin (fun _ => true, [(0, 4)])).out = [1, 2, 3, 4] ∧
    (wround 11 exWin (fun _ => true, [(0, 4)])).snd.somePick = some (4, 1) := by decide
example :
    let s1 := wround 11 exWin (fun _ => true, [(0, 4)])
    let s2 := s1.run (.shutdown :: settleOps (fun _ => true) (List.range s1.emitted.length))
    s2.snd.pickOk 4 6 ∧ (s2.run (pickOps [(4, 6)])).snd.somePick = none ∧
    let t := (s2.run (pickOps [(4, 6)])).run (settleOps (fun _ => true) (List.range' 1 1) ++ [.read 11, .read 11])
    t.eof = true ∧ t.out = [1, 2, 3, 4, 5, 6, 7, 8, 9, 10] ∧ t.snd.st = .dataRcvd ∧ t.rcv.st = .dataRead := by decide

/-- The flow-control hypothesis is discharged: `WinOk` holds after EVERY no-abort history with an honest network from
`init w w` (both ends start from the same positive `initial_max_stream_data`, RFC 9000 §18.2 / C11) — writes, picks,
deliveries in any order and multiplicity, losses, acknowledgements after deliveries, reads of any size, MAX_STREAM_DATA
frames delivered in any order, any number of times, or never. -/
theorem flow_history (w : Nat) (hw : 0 < w) (l : List HOp)
    (hlen : (after w w (hops l)).snd.written.length < varintMax) : WinOk (after w w (hops l)) :=
  winOk_of_winv (fair_history w w (Nat.le_refl _) l).reach hlen
    (winv_run (fair_init w w (Nat.le_refl _)) (winv_init w hw) l)

/-- LIVENESS WITH FLOW CONTROL, every hypothesis discharged: after EVERY no-abort history with an honest network from
`init w w`, `w > 0` — whatever the size of the stream relative to the window — there is a finite continuation made
of cooperative operations only (`shutdown`, picks, deliveries, acknowledgements, loss declarations, reads, delivery of
MAX_STREAM_DATA) after which the reader has read exactly what was written, has seen end-of-stream, and the sender is
in `DataRcvd`. -/
theorem completes_after_every_history_windowed (w : Nat) (hw : 0 < w) (l : List HOp)
    (hlen : (after w w (hops l)).snd.written.length < varintMax) :
    ∃ ops : List Op, (∀ op ∈ ops, op.coopW = true) ∧
      ((after w w (hops l)).run ops).eof = true ∧
      ((after w w (hops l)).run ops).out = (after w w (hops l)).snd.written ∧
      ((after w w (hops l)).run ops).snd.st = .dataRcvd ∧
      ((after w w (hops l)).run ops).snd.pollShutdown.2 = "ready" ∧
      ((after w w (hops l)).run ops).snd.pollFlush = "ready" := by
  have hf := fair_history w w (Nat.le_refl _) l
  have hwin := flow_history w hw l hlen
  generalize after w w (hops l) = s0 at *
  let cap := s0.snd.written.length + 1
  obtain ⟨cs, hcl, hsched⟩ := windowed_schedule_exists s0 hf cap (s0.snd.written.length - s0.snd.maxData)
  obtain ⟨f1, _, _, _, _⟩ := sched_spec cap cs hf hwin hlen (Nat.lt_succ_self _) hsched
  obtain ⟨o1, e1, c1⟩ := sched_ops cap cs s0
  obtain ⟨ps, p1, _, p3⟩ := cooperative_suffix_exists _ f1 (fun _ => true)
  have hc := eventually_complete_windowed s0 hf hwin hlen cap (Nat.lt_succ_self _) cs hsched (Or.inl (by omega))
    (fun _ => true) ps p1 p3
  obtain ⟨d1, d2, _, d4, d5, d6, _⟩ := hc
  generalize cs.foldl (wround cap) s0 = s1 at *
  subst e1
  refine ⟨o1 ++ ((.shutdown :: settleOps (fun _ => true) (List.range (s0.run o1).emitted.length)) ++ pickOps ps ++
    (settleOps (fun _ => true) (List.range' (s0.run o1).emitted.length
      ((((s0.run o1).run (.shutdown :: settleOps (fun _ => true) (List.range (s0.run o1).emitted.length))).run
        (pickOps ps)).emitted.length - (s0.run o1).emitted.length)) ++ [.read cap, .read cap])), ?_, ?_⟩
  · intro op hm
    rcases List.mem_append.mp hm with e | e
    · exact c1 op e
    · apply coopW_of_coop
      rcases List.mem_append.mp e with e | e
      · rcases List.mem_append.mp e with e | e
        · rcases List.mem_cons.mp e with e | e
          · subst e; rfl
          · exact settle_coop _ _ op e
        · exact pickOps_coop ps op e
      · rcases List.mem_append.mp e with e | e
        · exact settle_coop _ _ op e
        · have e' : op = .read cap := by simpa using e
          subst e'; rfl
  · simp only [run_append] at d1 d2 d4 d5 d6 ⊢
    exact ⟨d1, d2, d4, d5, d6⟩

-- non-vacuity: the 10-byte stream behind the 4-byte window is such a history
example : exWin = after 4 4 (hops [.write [1, 2, 3, 4, 5, 6, 7, 8, 9, 10]]) ∧ (0 : Nat) < 4 ∧
    exWin.snd.written.length < varintMax := ⟨rfl, by decide, by decide⟩

/-- LIVENESS WITH FLOW CONTROL when the application never shuts the stream down (the other half of "EOF iff shutdown was
called"): from every `Fair` state in which `shutdown` was not called, with `WinOk`, for EVERY schedule `cs` of rounds
WITHOUT `shutdown` (`wroundO`, `SchedO`) at least as long as the window deficit, the suffix of `eventually_flushed` ends
with every written byte read, every byte acknowledged, `poll_flush` = `Ready(Ok)`, and NO end-of-stream reported. -/
theorem eventually_flushed_windowed (s0 : Stream) (hf : Fair s0)
    (hopen : s0.snd.shutdown = false ∧ (s0.snd.st = .ready ∨ s0.snd.st = .sending)) (hw : WinOk s0)
    (hlen : s0.snd.written.length < varintMax) (cap : Nat) (hcap : s0.snd.written.length < cap)
    (cs : List Choice) (hs : SchedO cap s0 cs)
    (hn : s0.snd.written.length - s0.snd.maxData ≤ cs.length ∨
      s0.snd.written.length ≤ (cs.foldl (wroundO cap) s0).snd.maxData)
    (keep : Nat → Bool) (ps : List (Nat × Nat)) :
    let s1 := cs.foldl (wroundO cap) s0
    let s2 := s1.run (settleOps keep (List.range s1.emitted.length))
    PickSeq s2 ps →
    let s3 := s2.run (pickOps ps)
    s3.snd.somePick = none →
    let t := s3.run (settleOps (fun _ => true) (List.range' s1.emitted.length (s3.emitted.length - s1.emitted.length)) ++
                      [.read cap])
    t.out = s0.snd.written ∧ t.snd.written = s0.snd.written ∧ t.snd.pollFlush = "ready" ∧ t.snd.allAcked ∧
      t.eof = false := by
  intro s1 s2 hps s3 hidle t
  have ho : Open s0.snd := ⟨hf.snd.1, hopen.1, hopen.2⟩
  obtain ⟨f1, o1, w1, g1⟩ := schedO_spec cap cs hf ho hw hlen hcap hs
  have hfit : s1.snd.written.length ≤ s1.snd.maxData := by
    rcases g1 with g | g
    · exact g
    · show (cs.foldl (wroundO cap) s0).snd.written.length ≤ (cs.foldl (wroundO cap) s0).snd.maxData
      rw [w1]
      rcases hn with h | h
      · omega
      · exact h
  have hc := eventually_flushed s1 f1 ⟨o1.2.1, o1.2.2⟩ hfit keep ps cap
    (by show (cs.foldl (wroundO cap) s0).snd.written.length < cap; rw [w1]; exact hcap) hps hidle
  have w1' : s1.snd.written = s0.snd.written := w1
  rw [w1'] at hc
  exact hc

-- non-vacuity: the 10-byte stream behind the 4-byte window, never shut down
example : SchedO 11 exWin [(fun _ => true, [(0, 4)])] :=
  ⟨⟨⟨by decide, Or.inl (by decide), trivial⟩, by decide⟩, trivial⟩
example :
    let s1 := wroundO 11 exWin (fun _ => true, [(0, 4)])
    let s2 := s1.run (settleOps (fun _ => true) (List.range s1.emitted.length))
    s1.snd.maxData = 2000004 ∧ s2.snd.pickOk 4 6 ∧ (s2.run (pickOps [(4, 6)])).snd.somePick = none ∧
    let t := (s2.run (pickOps [(4, 6)])).run (settleOps (fun _ => true) (List.range' 1 1) ++ [.read 11])
    t.out = [1, 2, 3, 4, 5, 6, 7, 8, 9, 10] ∧ t.snd.pollFlush = "ready" ∧ t.eof = false ∧ t.snd.st = .sending := by decide

end GmQuic.Stream
