import GmQuic.Lemmas.AntiAmpPath
/-!
# C15 — an unvalidated address never receives more than 3x what it sent

`Path.step` is the tree with `repo_patches/fix-C15-burst-credit.diff` applied, `Path.stepFound` the tree as
found (`Rule.asFound`).  Histories are lists of `AaOp` (packet arrivals of any size, bursts of any
number of segments with any packet sizes / quota / MTU / forward header, CONNECTION_CLOSE sends,
grant, abort, polls).  The interleaving theorems (atomic-operation granularity) are in the second
half (`Conc`).
-/
namespace GmQuic.Props.C15
open GmQuic.AntiAmp

instance (ops : List AaOp) : Decidable (NotGranted ops) := by
  unfold NotGranted; infer_instance

theorem pinv_fold (r : Rule) (ops : List AaOp) (s : PathSt) (hi : PInv s) (hng : NotGranted ops)
    (hok : ∀ op ∈ ops, OpOk r op) : PInv (ops.foldl (Path.stepR r) s) := by
  induction ops generalizing s with
  | nil => exact hi
  | cons op ops ih =>
    simp only [List.foldl_cons]
    apply ih
    · exact pinv_step r s op hi (hng op (by simp)) (hok op (by simp))
    · intro o ho; exact hng o (by simp [ho])
    · intro o ho; exact hok o (by simp [ho])

theorem opOk_fixed (op : AaOp) : OpOk Rule.fixed op := by
  cases op <;> simp [OpOk, BurstOk, SegOk, Rule.fixed]

/-- **three_x** (DESIGN Appendix A shape): before the address is validated the bytes handed to the
    IO sender never exceed three times the bytes received, and the credit never wrapped — for every
    history.  Holds of the fixed tree. -/
theorem three_x (ops : List AaOp) (hng : NotGranted ops) :
    let s := ops.foldl Path.step Path.init
    s.underflow = false ∧ s.sentTotal ≤ 3 * s.rcvdTotal := by
  have h := pinv_fold Rule.fixed ops Path.init ⟨rfl, by decide, by decide⟩ hng
    (fun op _ => opOk_fixed op)
  exact ⟨h.uf, by have := h.le; unfold Path.step; omega⟩

/-- non-vacuity: a history with a tiny packet, an Initial-bearing burst, a six-segment burst and a close. -/
example :
    let ops : List AaOp := [.rcvd 40, .burst [⟨1200, 0, 12000, (90, true), [], 0⟩], .rcvd 1200,
      .burst (List.replicate 6 ⟨1200, 0, 12000, (0, true), [(1200, true)], 0⟩), .close 60, .poll]
    NotGranted ops ∧ (ops.foldl Path.step Path.init).sentTotal = 3720 ∧
      (ops.foldl Path.step Path.init).rcvdTotal = 1240 := by decide

/-- The tree as found violates the bound: 40 bytes received (credit 120), one Initial-bearing datagram
    padded to the full 1200-byte buffer; `on_sent(1200)` then wraps the credit. -/
theorem three_x_fails :
    ¬ ∀ (ops : List AaOp), NotGranted ops →
      let s := ops.foldl Path.stepFound Path.init
      s.underflow = false ∧ s.sentTotal ≤ 3 * s.rcvdTotal := by
  intro h
  have := h [.rcvd 40, .burst [⟨1200, 0, 12000, (90, true), [], 0⟩]] (by decide)
  revert this; decide

/-- Second, independent cause in the tree as found: every segment of one burst is loaded against the
    same `balance()`; 1200 bytes received (credit 3600), six full datagrams leave in one burst. -/
theorem three_x_fails_multi_segment :
    ¬ ∀ (ops : List AaOp), NotGranted ops →
      let s := ops.foldl Path.stepFound Path.init
      s.underflow = false ∧ s.sentTotal ≤ 3 * s.rcvdTotal := by
  intro h
  have := h [.rcvd 1200, .burst (List.replicate 6 ⟨1200, 0, 12000, (0, true), [(1200, true)], 0⟩)] (by decide)
  revert this; decide

/-- After the wrap the allowance is effectively unlimited (the property's last sentence). -/
theorem wrap_is_unlimited_found :
    let s := [AaOp.rcvd 40, .burst [⟨1200, 0, 12000, (90, true), [], 0⟩]].foldl Path.stepFound Path.init
    s.aa.balance.2 = .some (U - 1080) := by decide

/-- **three_x_partial**: the tree as found keeps the bound on histories whose bursts have a single
    segment, no forward header and no Initial packet, and that send no CONNECTION_CLOSE through the
    unconstrained closing path (exactly the three causes of `three_x_fails`). -/
theorem three_x_partial (ops : List AaOp) (hng : NotGranted ops)
    (hok : ∀ op ∈ ops, OpOk Rule.asFound op) :
    let s := ops.foldl Path.stepFound Path.init
    s.underflow = false ∧ s.sentTotal ≤ 3 * s.rcvdTotal := by
  have h := pinv_fold Rule.asFound ops Path.init ⟨rfl, by decide, by decide⟩ hng hok
  exact ⟨h.uf, by have := h.le; unfold Path.stepFound; omega⟩

example :
    let ops : List AaOp := [.rcvd 1200, .burst [⟨1200, 0, 12000, (0, true), [(1200, true)], 0⟩], .poll]
    NotGranted ops ∧ (∀ op ∈ ops, OpOk Rule.asFound op) ∧
      (ops.foldl Path.stepFound Path.init).sentTotal = 1200 := by
  refine ⟨by decide, ?_, by decide⟩
  intro op hop
  simp at hop
  rcases hop with rfl | rfl | rfl <;> simp [OpOk, BurstOk, SegOk, Rule.asFound]

end GmQuic.Props.C15
