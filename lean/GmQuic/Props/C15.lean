import GmQuic.Lemmas.AntiAmpMore
import GmQuic.Lemmas.AntiAmpConcSender
import GmQuic.Lemmas.AntiAmpFold
/-!
# C15 — an unvalidated address never receives more than 3x what it sent

`Path.step` is the tree as found (`Rule.asFound`); `Path.stepRepaired` is a repaired burst rule
(`Rule.fixed`: padding capped by the credit, credit carried across the segments of a burst, guarded
CONNECTION_CLOSE) — the design target for which the full bound is proved; the literal patch
(`repo_patches/experimental-C15-burst-credit.diff`) stalls the repo's handshake tests and is NOT a fix.
Histories are lists of `AaOp` (packet arrivals of any size, bursts of any
number of segments with any packet sizes / quota / MTU / forward header, CONNECTION_CLOSE sends,
grant, abort, polls).  The interleaving theorems (atomic-operation granularity) are in the second
half (`Conc`).
-/
namespace GmQuic.Props.C15
open GmQuic.AntiAmp

/-- **three_x** (DESIGN Appendix A shape): before the address is validated the bytes handed to the
    IO sender never exceed three times the bytes received, and the credit never wrapped — for every
    history.  Holds of the repaired rule; FALSE of the tree as found (`three_x_fails`). -/
theorem three_x_repaired (ops : List AaOp) (hng : NotGranted ops) :
    let s := ops.foldl Path.stepRepaired Path.init
    s.underflow = false ∧ s.sentTotal ≤ 3 * s.rcvdTotal := by
  have h := pinv_fold Rule.fixed ops Path.init ⟨rfl, by decide, by decide⟩ hng
    (fun op _ => opOk_fixed op)
  exact ⟨h.uf, by have := h.le; unfold Path.stepRepaired; omega⟩

/-- non-vacuity: a history with a tiny packet, an Initial-bearing burst, a six-segment burst and a close. -/
example :
    let ops : List AaOp := [.rcvd 40, .burst [⟨1200, 0, 12000, (90, true), [], 0⟩], .rcvd 1200,
      .burst (List.replicate 6 ⟨1200, 0, 12000, (0, true), [(1200, true)], 0⟩), .close 60, .poll]
    NotGranted ops ∧ (ops.foldl Path.stepRepaired Path.init).sentTotal = 3720 ∧
      (ops.foldl Path.stepRepaired Path.init).rcvdTotal = 1240 := by decide

/-- The tree as found violates the bound: 40 bytes received (credit 120), one Initial-bearing datagram
    padded to the full 1200-byte buffer; `on_sent(1200)` then wraps the credit. -/
theorem three_x_fails :
    ¬ ∀ (ops : List AaOp), NotGranted ops →
      let s := ops.foldl Path.step Path.init
      s.underflow = false ∧ s.sentTotal ≤ 3 * s.rcvdTotal := by
  intro h
  have := h [.rcvd 40, .burst [⟨1200, 0, 12000, (90, true), [], 0⟩]] (by decide)
  revert this; decide

/-- Second, independent cause in the tree as found: every segment of one burst is loaded against the
    same `balance()`; 1200 bytes received (credit 3600), six full datagrams leave in one burst. -/
theorem three_x_fails_multi_segment :
    ¬ ∀ (ops : List AaOp), NotGranted ops →
      let s := ops.foldl Path.step Path.init
      s.underflow = false ∧ s.sentTotal ≤ 3 * s.rcvdTotal := by
  intro h
  have := h [.rcvd 1200, .burst (List.replicate 6 ⟨1200, 0, 12000, (0, true), [(1200, true)], 0⟩)] (by decide)
  revert this; decide

/-- After the wrap the allowance is effectively unlimited (the property's last sentence). -/
theorem wrap_is_unlimited_found :
    let s := [AaOp.rcvd 40, .burst [⟨1200, 0, 12000, (90, true), [], 0⟩]].foldl Path.step Path.init
    s.aa.balance.2 = .some (U - 1080) := by decide

/-- **three_x_partial**: the tree as found keeps the bound on histories whose bursts have a single
    segment, no forward header and no Initial packet, and that send no CONNECTION_CLOSE through the
    unconstrained closing path (exactly the three causes of `three_x_fails`). -/
theorem three_x_partial (ops : List AaOp) (hng : NotGranted ops)
    (hok : ∀ op ∈ ops, OpOk Rule.asFound op) :
    let s := ops.foldl Path.step Path.init
    s.underflow = false ∧ s.sentTotal ≤ 3 * s.rcvdTotal := by
  have h := pinv_fold Rule.asFound ops Path.init ⟨rfl, by decide, by decide⟩ hng hok
  exact ⟨h.uf, by have := h.le; unfold Path.step; omega⟩

example :
    let ops : List AaOp := [.rcvd 1200, .burst [⟨1200, 0, 12000, (0, true), [(1200, true)], 0⟩], .poll]
    NotGranted ops ∧ (∀ op ∈ ops, OpOk Rule.asFound op) ∧
      (ops.foldl Path.step Path.init).sentTotal = 1200 := by
  refine ⟨by decide, ?_, by decide⟩
  intro op hop
  simp at hop
  rcases hop with rfl | rfl | rfl <;> simp [OpOk, BurstOk, SegOk, Rule.asFound]


/-- **no_underflow**: under the repaired rule the credit arithmetic never wraps, on any history at all
    (grants, aborts and closes included). -/
theorem no_underflow_repaired (ops : List AaOp) :
    (ops.foldl Path.stepRepaired Path.init).underflow = false := by
  suffices h : ∀ s : PathSt, s.aa.underflow = false → (ops.foldl Path.stepRepaired s).aa.underflow = false from
    h Path.init rfl
  induction ops with
  | nil => intro s h; exact h
  | cons op ops ih => intro s h; exact ih _ (uf_step s op h)

/-- **granted_is_unlimited** (1): `grant` on an unvalidated path takes effect and signals the sender. -/
theorem grant_takes_effect (s : PathSt) (h : s.aa.state = .normal) :
    (Path.step s .grant).aa.state = .granted ∧ (Path.step s .grant).aa.sig = true ∧
      (Path.step s .grant).aa.balance.2 = .unlimited := by
  simp [Path.step, Path.stepR, grant_eq, h, balance_snd]

/-- **granted_is_unlimited** (2): once granted, every later `balance()` is `usize::MAX` and neither
    arrivals nor sends touch the credit any more — for every continuation, under either rule. -/
theorem granted_is_unlimited (r : Rule) (ops : List AaOp) (s : PathSt) (h : s.aa.state = .granted) :
    let s' := ops.foldl (Path.stepR r) s
    s'.aa.balance.2 = .unlimited ∧ s'.aa.credit = s.aa.credit ∧ s'.aa.underflow = s.aa.underflow := by
  induction ops generalizing s with
  | nil => simp [balance_snd, h]
  | cons op ops ih =>
    have hs := granted_step r s op h
    have := ih _ hs.1
    simp only [List.foldl_cons]
    exact ⟨this.1, by rw [this.2.1, hs.2.1], by rw [this.2.2, hs.2.2]⟩

example : ∃ s : PathSt, s.aa.state = .granted :=
  ⟨Path.step (Path.step Path.init (.rcvd 1200)) .grant, by decide⟩

/-- **abort_stops** (1): `abort` on an unvalidated path takes effect and signals the sender. -/
theorem abort_takes_effect (s : PathSt) (h : s.aa.state = .normal) :
    (Path.step s .abort).aa.state = .aborted ∧ (Path.step s .abort).aa.sig = true ∧
      (Path.step s .abort).aa.balance.2 = .deactivated := by
  simp [Path.step, Path.stepR, abort_eq, h, balance_snd]

/-- **abort_stops** (2): after an abort nothing is ever sent on the path again and `balance()` is
    `Ok(None)` (the burst task ends) — for every continuation, a later `grant` included. -/
theorem abort_stops_repaired (ops : List AaOp) (s : PathSt) (h : s.aa.state = .aborted) :
    let s' := ops.foldl Path.stepRepaired s
    s'.sentTotal = s.sentTotal ∧ s'.aa.balance.2 = .deactivated := by
  induction ops generalizing s with
  | nil => simp [balance_snd, h]
  | cons op ops ih =>
    have hs := aborted_step s op h
    have := ih _ hs.1
    simp only [List.foldl_cons]
    exact ⟨by rw [this.1, hs.2], this.2⟩

example : ∃ s : PathSt, s.aa.state = .aborted :=
  ⟨Path.step (Path.step Path.init (.rcvd 1200)) .abort, by decide⟩

/-- **resumes_on_rcvd_or_grant** (method granularity): from ANY unvalidated state — in particular one
    in which `balance()` just answered `Err(CREDIT)` — a received packet of `n > 0` bytes makes
    `balance()` answer a positive allowance and sets the CREDIT signal; so does a grant (unlimited). -/
theorem resumes_on_rcvd_or_grant (s : PathSt) (h : s.aa.state = .normal) :
    (∀ n, 0 < n → s.aa.credit + n * 3 < U →
      let s' := Path.step s (.rcvd n)
      s'.aa.sig = true ∧ s'.aa.balance.2 = .some (s.aa.credit + 3 * n)) ∧
    ((Path.step s .grant).aa.sig = true ∧ (Path.step s .grant).aa.balance.2 = .unlimited) := by
  refine ⟨?_, ?_⟩
  · intro n hn hb
    have hN : N = 3 := rfl
    have h1 : n * N < U := by rw [hN]; omega
    simp only [Path.step, Path.stepR, onRcvd_eq, h, h1, ↓reduceIte]
    rw [fetchAdd_nowrap _ _ (by rw [hN]; omega)]
    simp only [AA.wake, balance_snd, h, hN]
    refine ⟨trivial, ?_⟩
    have : ¬ (s.aa.credit + n * 3 = 0) := by omega
    simp only [this, ↓reduceIte]
    congr 1; omega
  · simp [Path.step, Path.stepR, grant_eq, h, balance_snd]

example : (Path.step Path.init .poll).waiting = true ∧
    (Path.step (Path.step Path.init .poll) (.rcvd 1)).aa.balance.2 = .some 3 := by decide

/-! ## all interleavings of the atomic operations -/

/-- **three_x / no_underflow over all interleavings**: any number of concurrent `on_rcvd` / `abort`
    invocations and the single sending task (which sends at most the `balance()` it read), each
    advancing one atomic operation at a time in any order: before a grant the bytes committed to the
    wire never exceed 3x the bytes received and `fetch_sub` never wraps.  The only hypothesis is that
    fewer than 2^64/3 bytes were received (otherwise `fetch_add` itself wraps). -/
theorem three_x_conc (ops : List COp) (hng : NoGrantC ops) :
    let s := ops.foldl Conc.step {}
    3 * s.rcvdTotal < U → s.aa.underflow = false ∧ s.sentTotal ≤ 3 * s.rcvdTotal := by
  intro s hb
  have h := cinv_fold ops {} cinv_init hng hb
  exact ⟨h.uf, Nat.le_trans (Nat.le_add_right _ _) h.i3⟩

/-- non-vacuity: on_rcvd(400) racing with the sender's balance / send / on_sent and an abort. -/
example :
    let ops : List COp := [.callRcvd 400, .senderStep 0, .stepPool 0, .senderStep 0, .stepPool 0,
      .senderStep 0, .senderStep 0, .stepPool 0, .senderStep 0, .senderStep 0, .senderStep 0,
      .senderStep 700, .callAbort, .senderStep 0, .stepPool 0, .senderStep 0]
    NoGrantC ops ∧ (ops.foldl Conc.step {}).sentTotal = 700 ∧ (ops.foldl Conc.step {}).aa.credit = 500 := by
  decide


/-- **resumes_on_rcvd_or_grant over all interleavings** (no lost wake-up, grants included): whenever
    the sending task sleeps on `Err(CREDIT)` and no CREDIT signal is pending, either the path is still
    unvalidated with a credit of exactly zero, or some concurrent `on_rcvd` / `grant` / `abort` has
    already changed the credit / state and its `wake_by(CREDIT)` is its very next operation.  In
    particular, once every concurrent invocation has finished, a sleeping un-signalled sender means
    there is nothing it could send for; and a signalled sleeper re-polls at its next step. -/
theorem resumes_conc (ops : List COp) :
    let s := ops.foldl Conc.step {}
    (s.sender = .asleep → s.aa.sig = false →
      (s.aa.state = .normal ∧ s.aa.credit = 0) ∨ 0 < wakers s.pool) ∧
    (s.sender = .asleep → s.aa.sig = false → s.pool = [] → s.aa.state = .normal ∧ s.aa.credit = 0) ∧
    (s.sender = .asleep → s.aa.sig = true → (s.step (.senderStep 0)).sender = .idle) := by
  intro s
  have h : WInv s := winv_fold ops {} ⟨by simp, by simp, by simp⟩
  refine ⟨h.asleep, ?_, ?_⟩
  · intro h1 h2 h3
    rcases h.asleep h1 h2 with h4 | h4
    · exact h4
    · rw [h3] at h4; simp [wakers] at h4
  · intro h1 h2
    simp [Conc.step, h1, h2]

/-- non-vacuity: the sender reads credit 0, an `on_rcvd(5)` adds credit and wakes before the sender's
    second state check; the sender still goes to sleep but the signal is pending and it re-polls. -/
example :
    let ops : List COp := [.senderStep 0, .senderStep 0, .senderStep 0, .callRcvd 5, .stepPool 0,
      .stepPool 0, .stepPool 0, .senderStep 0]
    (ops.foldl Conc.step {}).sender = .asleep ∧ (ops.foldl Conc.step {}).aa.sig = true ∧
      (ops.foldl Conc.step {}).aa.credit = 15 ∧
      ((ops ++ [COp.senderStep 0]).foldl Conc.step {}).sender = .idle := by decide

end GmQuic.Props.C15
