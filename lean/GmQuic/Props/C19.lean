import GmQuic.Lemmas.DatagramRun
/-!
C19 — datagrams are carried whole, within the peer's size limit, or not at all.
Property theorems only (helper lemmas live in `GmQuic/Lemmas/Datagram*.lean`).

RFC 9221 §3: `max_datagram_frame_size` is the maximum size of a DATAGRAM *frame* (type byte, optional
length field and payload) the advertising endpoint will accept.  The loader may encode a datagram of `n`
bytes in either form; the largest is the with-length form, `hdrSize true n + n = 1 + varint(n) + n`.

The model follows the code WITH `repo_patches/fix-C19-frame-size-admission.diff` and
`fix-C19-offer-datagrams.diff` applied (known_findings/C19.json: both `fixed`).
-/
namespace GmQuic.Datagram
open GmQuic.Wire

/-! ### refusal -/

/-- `send_bytes` refuses exactly the datagrams whose frame, as the loader may encode it (with the
length field), exceeds the peer's limit; everything else is appended to the queue (and a refused
datagram leaves no trace). -/
theorem refused_iff_too_big (peerMax : Nat) (s : Sender) (d : Bytes) (h : s.closed = none) :
    ((send peerMax s d).2 = .refused ↔ peerMax < hdrSize true d.length + d.length) ∧
    ((send peerMax s d).2 = .queued ↔ hdrSize true d.length + d.length ≤ peerMax) ∧
    ((send peerMax s d).2 = .queued → (send peerMax s d).1 = { s with queue := s.queue ++ [d] }) ∧
    ((send peerMax s d).2 = .refused → (send peerMax s d).1 = s) := by
  unfold send
  simp only [h, hdrSize, if_true]
  by_cases hb : 1 + varintSize d.length + d.length > peerMax <;> simp [hb] <;> omega

example : (send 0 {} []).2 = .refused ∧ (send 1 {} []).2 = .refused ∧ (send 2 {} []).2 = .queued ∧
    (send 4 {} [1, 2, 3]).2 = .refused ∧ (send 5 {} [1, 2, 3]).2 = .queued ∧
    (send 66 {} (List.replicate 64 7)).2 = .refused ∧ (send 67 {} (List.replicate 64 7)).2 = .queued := by
  decide

/-- with the extension disabled by the peer (`max_datagram_frame_size = 0`) no writer exists and
every datagram would be refused -/
theorem disabled_refuses_all (s : Sender) (d : Bytes) (h : s.closed = none) :
    newWriter s 0 = .unsupported ∧ (send 0 s d).2 = .refused := by
  have : 0 < 1 + varintSize d.length + d.length := by omega
  simp [newWriter, send, h, this]

/-! ### one frame per datagram, for every remaining-space value -/

/-- On an open flow whose head datagram is `d`, for EVERY amount of room: either `d` does not fit
even in its smallest frame (`remaining ≤ |d|`) and nothing at all happens, or exactly `d` is popped
and the output is `pad` PADDING bytes followed by exactly one DATAGRAM frame whose payload is `d`
(the bytes decode to exactly that, with no error); the output fits; the length form is used exactly
when it fits and then there is no padding; the no-length form fills the packet to the last byte
(so nothing can follow it) with at most 7 bytes of padding in front. -/
theorem one_frame_per_datagram (remaining : Nat) (s : Sender) (d : Bytes) (rest : List Bytes)
    (hc : s.closed = none) (hq : s.queue = d :: rest) (hd : d.length < 2 ^ 62) :
    (remaining ≤ d.length ∧ tryLoad remaining s = (s, .noRoom)) ∨
    (d.length < remaining ∧ ∃ pad wl,
      tryLoad remaining s = ({ s with queue := rest }, .wrote pad wl d) ∧
      decAll (encLoaded pad wl d) = (List.replicate pad Frame.padding ++ [Frame.datagram wl d], none) ∧
      (encLoaded pad wl d).length ≤ remaining ∧
      (wl = true ↔ hdrSize true d.length + d.length ≤ remaining) ∧
      (wl = true → pad = 0) ∧
      (wl = false → (encLoaded pad wl d).length = remaining ∧ pad ≤ 7)) := by
  have htl := tryLoad_eq remaining s d rest hc hq hd
  by_cases h1 : remaining ≤ d.length
  · left; simp only [h1, if_true] at htl; exact ⟨h1, htl⟩
  · right
    refine ⟨by omega, ?_⟩
    simp only [h1, if_false] at htl
    have hdec : ∀ pad wl, decAll (encLoaded pad wl d) =
        (List.replicate pad Frame.padding ++ [Frame.datagram wl d], none) := by
      intro pad wl
      have := decAll_encPkt [⟨pad, wl, d⟩] hd
      simpa [encPkt, Loaded.enc, Loaded.frames] using this
    by_cases h2 : hdrSize true d.length + d.length ≤ remaining
    · simp only [h2, if_true] at htl
      refine ⟨0, true, htl, hdec 0 true, ?_, by simp [h2], by simp, by simp⟩
      rw [encLoaded_length]; omega
    · simp only [h2, if_false] at htl
      have hv := varintSize_le d.length
      refine ⟨remaining - d.length - 1, false, htl, hdec _ false, ?_, by simp [h2], by simp, ?_⟩
      · rw [encLoaded_length, hdrSize_false]; omega
      · intro _
        rw [encLoaded_length, hdrSize_false]
        simp only [hdrSize] at h2
        simp only [if_true] at h2
        omega

-- non-vacuity: both encodings and the refusal to write occur
example : tryLoad 5 { queue := [[1, 2, 3]] } = ({ queue := [] }, .wrote 0 true [1, 2, 3]) := by decide
example : tryLoad 4 { queue := [[1, 2, 3]] } = ({ queue := [] }, .wrote 0 false [1, 2, 3]) := by decide
example : tryLoad 3 { queue := [[1, 2, 3]] } = ({ queue := [[1, 2, 3]] }, .noRoom) := by decide
example : (tryLoad 66 { queue := [List.replicate 64 7] }).2 = .wrote 1 false (List.replicate 64 7) := by
  decide

/-- `try_load_data_into` cannot hit either of its `unwrap()`s on a datagram shorter than 2^62 bytes -/
theorem tryLoad_no_panic (remaining : Nat) (s : Sender) (h : ∀ d ∈ s.queue, d.length < 2 ^ 62) (site : String) :
    (tryLoad remaining s).2 ≠ .panic site := by
  cases hc : s.closed with
  | some e => simp [tryLoad_closed remaining s e hc]
  | none =>
    cases hq : s.queue with
    | nil => simp [tryLoad_empty remaining s hc hq]
    | cons d rest =>
      rw [tryLoad_eq remaining s d rest hc hq (h d (by simp [hq]))]
      split <;> (try split) <;> simp

/-! ### decode ∘ encode -/

/-- decode ∘ encode with exact consumption: the with-length frame gives back the payload and leaves
every following byte untouched; the no-length frame gives back the payload when it is the last
thing in the packet — and swallows whatever follows it otherwise (which is why the loader must put
it last). -/
theorem decode_gives_same_payload (d rest : Bytes) (hd : d.length < 2 ^ 62) :
    decFrame (encFrame true d ++ rest) = .ok (.datagram true d, rest) ∧
    decFrame (encFrame false d) = .ok (.datagram false d, []) ∧
    decFrame (encFrame false d ++ rest) = .ok (.datagram false (d ++ rest), []) ∧
    (encFrame true d).length = 1 + varintSize d.length + d.length ∧
    (encFrame false d).length = 1 + d.length := by
  refine ⟨decFrame_encFrame_withLen d rest hd, ?_, decFrame_encFrame_noLen d rest, ?_, ?_⟩
  · have := decFrame_encFrame_noLen d []
    simpa using this
  · rw [encFrame_length]; simp [hdrSize]
  · rw [encFrame_length]; simp [hdrSize]

example : encFrame true [1, 2, 3] = [0x31, 3, 1, 2, 3] ∧ encFrame false [1, 2, 3] = [0x30, 1, 2, 3] := by
  decide

/-- A whole packet written by repeated loading decodes to exactly its frames — no datagram is merged
with a neighbour, split, or lost — and it fits into the room it was given. -/
theorem packet_decodes_to_its_datagrams (calls remaining : Nat) (s : Sender)
    (h : ∀ d ∈ s.queue, d.length < 2 ^ 62) :
    let p := (loadN calls remaining s).2.1
    decAll (encPkt p) = (p.flatMap Loaded.frames, none) ∧
    framePayloads (decAll (encPkt p)).1 = Pkt.payloads p ∧
    (encPkt p).length ≤ remaining ∧
    (s.closed = none → Pkt.payloads p ++ (loadN calls remaining s).1.queue = s.queue) := by
  obtain ⟨s1, s2, _, s4, _⟩ := loadN_spec calls remaining s h
  have := decAll_encPkt _ s1
  refine ⟨this, ?_, s2, s4⟩
  rw [this]; exact framePayloads_pkt _

example : (loadN 9 11 { queue := [[1, 2, 3], [4, 5], [6]] }).2.1 =
    [⟨0, true, [1, 2, 3]⟩, ⟨0, true, [4, 5]⟩, ⟨0, false, [6]⟩] := by decide

/-! ### the receiving side -/

/-- The receiving flow answers PROTOCOL_VIOLATION exactly when the frame as it was on the wire (type
byte + length field if present + payload) is larger than the local `max_datagram_frame_size`;
otherwise the payload — and nothing else — is appended to the reader queue. -/
theorem oversize_is_protocol_violation (r : Receiver) (wl : Bool) (d : Bytes) (h : r.closed = none) :
    ((recvDatagram r wl d.length d).2 = .protocolViolation ↔ r.localMax < (encFrame wl d).length) ∧
    ((recvDatagram r wl d.length d).2 = .protocolViolation → (recvDatagram r wl d.length d).1 = r) ∧
    ((encFrame wl d).length ≤ r.localMax →
      (recvDatagram r wl d.length d).1.queue = r.queue ++ [d] ∧
      (recvDatagram r wl d.length d).2 = .ok r.waker) := by
  rw [encFrame_length]
  unfold recvDatagram
  simp only [h]
  by_cases hb : hdrSize wl d.length + d.length > r.localMax <;> simp [hb] <;> omega

example : (recvDatagram { localMax := 4 } true 3 [1, 2, 3]).2 = .protocolViolation ∧
    (recvDatagram { localMax := 4 } false 3 [1, 2, 3]).2 = .ok false ∧
    (recvDatagram { localMax := 0 } false 0 []).2 = .protocolViolation := by decide

/-- At the level of histories: delivering a packet in which the open receiving flow meets an oversize
frame closes that endpoint with PROTOCOL_VIOLATION — every later read reports the error and no
later datagram is queued. -/
theorem oversize_closes_connection (r : Run) (k : Nat) (p : Pkt) (hk : r.net[k]? = some p)
    (hpv : sawPV (feed r.rcv (decAll (encPkt p)).1).2 = true) :
    (r.step (.deliver k)).rcv.closed = some .protocolViolation ∧
    (read (r.step (.deliver k)).rcv).2 = .closed .protocolViolation := by
  have hopen : r.rcv.closed = none := by
    cases hc : r.rcv.closed with
    | none => rfl
    | some e =>
      have := (feed_closed (decAll (encPkt p)).1 r.rcv e hc).2.2
      rw [this] at hpv; simp at hpv
  have o1 := (feed_open (decAll (encPkt p)).1 r.rcv hopen).1
  have : (r.step (.deliver k)).rcv.closed = some .protocolViolation := by
    simp only [Run.step, Run.stepObs, hk, hpv, if_true]
    simp [Receiver.onConnError, o1]
  refine ⟨this, ?_⟩
  unfold read; simp [this]

/-! ### FIFO among those that arrive -/

/-- For EVERY history of sends, assembly passes (any room, any number of loader calls), deliveries
in any order, losses, reads and connection errors:

* what the application read is a prefix of what the receiving flow queued (`arrived`), which is a
  prefix of the payloads of the delivered packets taken in DELIVERY order, each packet contributing
  its datagrams in the order they were written — so the network can reorder whole packets, but never
  the datagrams inside one, and nothing is ever merged, split or duplicated by the endpoints;
* the payloads put on the wire, in wire order, are a prefix of the accepted datagrams in send order
  (exactly all of them minus the still-queued ones while the sender is open);
* the delivered, lost and in-flight packets together are a permutation of the packets put on the wire
  (the network neither invents nor duplicates packets). -/
theorem fifo_among_arrived (peerMax localMax : Nat) (ops : List Op) (hs : SmallOps ops) :
    let r := run peerMax localMax ops
    r.readLog <+: r.arrived ∧
    r.arrived <+: r.delivered.flatMap Pkt.payloads ∧
    r.wire.flatMap Pkt.payloads <+: r.accepted ∧
    (r.snd.closed = none → r.wire.flatMap Pkt.payloads ++ r.snd.queue = r.accepted) ∧
    (r.rcv.closed = none → r.readLog ++ r.rcv.queue = r.delivered.flatMap Pkt.payloads) ∧
    (r.delivered ++ (r.lost ++ r.net)).Perm r.wire := by
  have i := Inv.run peerMax localMax ops hs
  refine ⟨i.rcv_prefix, i.arr_prefix, i.snd_prefix, i.snd_fifo, ?_, i.net_perm⟩
  intro h; rw [i.rcv_all h, i.arr_all h]

/-- When the network only loses packets (it always delivers the oldest packet still in flight), the
sequence read by the peer application is a subsequence of the sequence of accepted datagrams: order
preserved, payloads unchanged, nothing merged. -/
theorem fifo_in_order_network (peerMax localMax : Nat) (ops : List Op) (hs : SmallOps ops)
    (hio : InOrderOps ops) :
    (run peerMax localMax ops).readLog.Sublist (run peerMax localMax ops).accepted := by
  have i := Inv.run peerMax localMax ops hs
  have hsub := inOrder_foldl ops (Run.config peerMax localMax) hio (by simp [Run.config])
  have h1 : (run peerMax localMax ops).delivered.Sublist (run peerMax localMax ops).wire :=
    (List.sublist_append_left _ _).trans hsub
  exact i.rcv_prefix.sublist.trans (i.arr_prefix.sublist.trans
    ((sublist_flatMap Pkt.payloads h1).trans i.snd_prefix.sublist))

/-- a history with a loss, a reordering-free delivery and reads: 3 datagrams sent, the middle packet
lost, the other two read in order -/
example :
    let ops := [Op.send [1], .send [2, 2], .send [3], .load 3 1, .load 4 1, .load 9 1,
                .drop 1, .deliver 0, .deliver 0, .read, .read, .read]
    SmallOps ops ∧ InOrderOps ops ∧ (run 10 10 ops).readLog = [[1], [3]] ∧
    (run 10 10 ops).accepted = [[1], [2, 2], [3]] := by
  intro ops
  refine ⟨?_, ?_, by decide, by decide⟩
  · intro op h
    simp only [ops, List.mem_cons, List.not_mem_nil, or_false] at h
    rcases h with rfl | rfl | rfl | rfl | rfl | rfl | rfl | rfl | rfl | rfl | rfl | rfl <;> simp [Op.Small]
  · intro op h
    simp only [ops, List.mem_cons, List.not_mem_nil, or_false] at h
    rcases h with rfl | rfl | rfl | rfl | rfl | rfl | rfl | rfl | rfl | rfl | rfl | rfl <;> simp [Op.InOrder]

/-- with reordering the read sequence follows the delivery order of the packets -/
example : (run 10 10 [Op.send [1], .send [2], .load 2 1, .load 2 1, .deliver 1, .deliver 0, .read, .read]).readLog
    = [[2], [1]] := by decide

/-! ### is an accepted datagram actually offered? -/

/-- Component level: a queued datagram at the head of an open flow IS written by the next
`try_load_data_into` that has room for its smallest frame. -/
theorem accepted_is_offered_component (remaining : Nat) (s : Sender) (d : Bytes) (rest : List Bytes)
    (hc : s.closed = none) (hq : s.queue = d :: rest) (hd : d.length < 2 ^ 62) (hroom : d.length < remaining) :
    ∃ pad wl, tryLoad remaining s = ({ s with queue := rest }, .wrote pad wl d) := by
  rcases one_frame_per_datagram remaining s d rest hc hq hd with h | ⟨_, pad, wl, h, _⟩
  · omega
  · exact ⟨pad, wl, h⟩

/-- …and a head datagram that is at least as large as the room offered is never written and blocks
every datagram behind it (head-of-line): an accepted datagram larger than any packet payload wedges
the queue for good. -/
theorem oversize_head_blocks_queue (calls remaining : Nat) (s : Sender) (d : Bytes) (rest : List Bytes)
    (hc : s.closed = none) (hq : s.queue = d :: rest) (hd : d.length < 2 ^ 62) (hbig : remaining ≤ d.length) :
    loadN (calls + 1) remaining s = (s, [], some .noRoom) := by
  have htl := tryLoad_eq remaining s d rest hc hq hd
  simp only [hbig, if_true] at htl
  exact loadN_stop calls remaining s s _ htl (by intros; simp)

/-- Integration level, the full clause: on an open flow whose head datagram `d` leaves room for its
smallest frame in the 1-RTT packet being assembled, the assembly pass of `Components::packages()`
(1-RTT sources) puts exactly `d`, whole, on the wire as the first DATAGRAM frame of the pass.
(Was `accepted_is_offered_fails` before fix-C19-offer-datagrams: `packages()` had no datagram source.) -/
theorem accepted_is_offered (remaining : Nat) (s : Sender) (d : Bytes) (rest : List Bytes)
    (hc : s.closed = none) (hq : s.queue = d :: rest) (hd : d.length < 2 ^ 62) (hroom : d.length < remaining) :
    ∃ pad wl p, (assembleDatagrams oneRttSources remaining s).2 = ⟨pad, wl, d⟩ :: p := by
  obtain ⟨pad, wl, h⟩ := accepted_is_offered_component remaining s d rest hc hq hd hroom
  obtain ⟨p, hp⟩ := assemble_head oneRttSources (by decide) remaining s _ pad wl d h
  exact ⟨pad, wl, p, hp⟩

example : (assembleDatagrams oneRttSources 100 { queue := [[1, 2, 3], [4]] }).2 =
    [⟨0, true, [1, 2, 3]⟩, ⟨0, true, [4]⟩] := by decide

/-- …and nothing is lost or reordered by a pass: what it wrote, followed by what it left queued, is
the queue it found (so a pass with room for the head always shortens the queue, and `|queue|` passes
with room for every queued datagram put all of them on the wire, in order). -/
theorem assembly_pass_takes_queue_prefix (remaining : Nat) (s : Sender)
    (h : ∀ d ∈ s.queue, d.length < 2 ^ 62) (hc : s.closed = none) :
    Pkt.payloads (assembleDatagrams oneRttSources remaining s).2 ++
      (assembleDatagrams oneRttSources remaining s).1.queue = s.queue := by
  have := (packet_decodes_to_its_datagrams (remaining + 1) remaining s h).2.2.2 hc
  simpa [assembleDatagrams, oneRttSources] using this

/-- Liveness on an open, uncongested flow, for ANY queue: if every queued datagram leaves room for its
smallest frame in the room a 1-RTT packet offers (`remaining`), then `|queue|` assembly passes (or
more) put ALL queued datagrams on the wire — the payloads of the packets, in packet order and
inside a packet in frame order, are exactly the queue — and leave the queue empty.  No datagram the
API accepted stays behind. -/
theorem all_accepted_reach_wire (n : Nat) : ∀ (remaining : Nat) (s : Sender), s.closed = none →
    (∀ d ∈ s.queue, d.length < remaining ∧ d.length < 2 ^ 62) → s.queue.length ≤ n →
    (passes n remaining s).1.queue = [] ∧ (passes n remaining s).2.flatMap Pkt.payloads = s.queue := by
  induction n with
  | zero =>
    intro remaining s _ _ hn
    have : s.queue = [] := List.length_eq_zero_iff.mp (by omega)
    simp [passes, this]
  | succ n ih =>
    intro remaining s hc h hn
    have hsmall : ∀ d ∈ s.queue, d.length < 2 ^ 62 := fun d hd => (h d hd).2
    have hpre := assembly_pass_takes_queue_prefix remaining s hsmall hc
    have hclosed : (assembleDatagrams oneRttSources remaining s).1.closed = none := by
      have := (loadN_spec (remaining + 1) remaining s hsmall).2.2.1
      simpa [assembleDatagrams, oneRttSources, hc] using this
    have hsub : ∀ d ∈ (assembleDatagrams oneRttSources remaining s).1.queue, d ∈ s.queue := by
      intro d hd; rw [← hpre]; exact List.mem_append_right _ hd
    have hlen : (assembleDatagrams oneRttSources remaining s).1.queue.length ≤ n := by
      cases hq : s.queue with
      | nil =>
        rw [hq] at hpre
        have := List.append_eq_nil_iff.mp hpre
        simp [this.2]
      | cons d rest =>
        obtain ⟨pad, wl, p, hp⟩ := accepted_is_offered remaining s d rest hc hq (h d (by simp [hq])).2 (h d (by simp [hq])).1
        have hl := congrArg List.length hpre
        rw [hp] at hl
        simp only [Pkt.payloads, List.map_cons, List.length_append, List.length_cons, List.length_map] at hl
        rw [hq] at hn; simp only [List.length_cons] at hn
        rw [hq] at hl; simp only [List.length_cons] at hl
        omega
    have := ih remaining (assembleDatagrams oneRttSources remaining s).1 hclosed (fun d hd => h d (hsub d hd)) hlen
    simp only [passes, List.flatMap_cons]
    refine ⟨this.1, ?_⟩
    rw [this.2, hpre]

example : (passes 2 9 { queue := [[1, 2, 3], [4, 5, 6], [7]] }).2 =
    [[⟨0, true, [1, 2, 3]⟩, ⟨0, false, [4, 5, 6]⟩], [⟨0, true, [7]⟩]] := by decide

/-- the same clause for any source list that contains the datagram queue -/
theorem accepted_is_offered_any_sources (sources : List Source) (hsrc : Source.datagrams ∈ sources)
    (remaining : Nat) (s : Sender) (d : Bytes) (rest : List Bytes)
    (hc : s.closed = none) (hq : s.queue = d :: rest) (hd : d.length < 2 ^ 62) (hroom : d.length < remaining) :
    (assembleDatagrams sources remaining s).2 ≠ [] := by
  obtain ⟨pad, wl, h⟩ := accepted_is_offered_component remaining s d rest hc hq hd hroom
  obtain ⟨p, hp⟩ := assemble_head sources hsrc remaining s _ pad wl d h
  rw [hp]; simp

example : (assembleDatagrams (.datagrams :: zeroRttSources) 100 { queue := [[1, 2, 3]] }).2 =
    [⟨0, true, [1, 2, 3]⟩] := by decide

/-- 0-RTT packets carry no datagrams (`packages()` keeps `// TODO: datagram` there): a datagram queued
before the handshake completes waits for the first 1-RTT pass; it is not dropped. -/
theorem zero_rtt_offers_no_datagrams (remaining : Nat) (s : Sender) :
    assembleDatagrams zeroRttSources remaining s = (s, []) := rfl

/-! ### the peer's limit on the wire (RFC 9221 §3: the limit bounds the whole frame) -/

/-- Component level: every DATAGRAM frame the loader writes for a datagram that `send_bytes` accepted
is within the peer's `max_datagram_frame_size`, whichever encoding the loader picks, whatever the room.
(Was `wire_frame_within_peer_limit_fails` before fix-C19-frame-size-admission: limit 1, the empty
datagram went out as `31 00`.) -/
theorem frame_within_peer_limit_component (peerMax remaining : Nat) (d : Bytes) (pad : Nat) (wl : Bool)
    (s s' : Sender) (hq : (send peerMax s d).2 = .queued)
    (_hl : tryLoad remaining (send peerMax s d).1 = (s', .wrote pad wl d)) :
    (encFrame wl d).length ≤ peerMax := by
  have h1 := send_queued_admitted peerMax s d hq
  rw [encFrame_length]
  cases wl <;> simp [hdrSize] at * <;> omega

/-- History level, the full clause: for EVERY history of sends, assembly passes (any room, any number
of loader calls), deliveries, losses, reads and connection errors, every DATAGRAM frame of every packet
ever put on the wire is at most the peer's `max_datagram_frame_size` bytes long — type byte, length
field if present, payload. -/
theorem frame_within_peer_limit (peerMax localMax : Nat) (ops : List Op) (hs : SmallOps ops) :
    ∀ p ∈ (run peerMax localMax ops).wire, ∀ l ∈ p, (encFrame l.withLen l.payload).length ≤ peerMax := by
  intro p hp l hl
  have i := Inv.run peerMax localMax ops hs
  have hmem : l.payload ∈ (run peerMax localMax ops).wire.flatMap Pkt.payloads :=
    List.mem_flatMap.mpr ⟨p, hp, List.mem_map.mpr ⟨l, hl, rfl⟩⟩
  have hacc := i.snd_prefix.subset hmem
  have h1 := run_accepted_admitted peerMax localMax ops _ hacc
  rw [encFrame_length]
  cases hw : l.withLen <;> simp [hdrSize, hw] at * <;> omega

/-- …hence a peer that enforces exactly the limit it advertised (gm-quic's own `recv_datagram` does)
never answers PROTOCOL_VIOLATION to a frame this sender put on the wire: an accepted datagram cannot
kill the connection.  (Was `accepted_datagram_survives_same_limit_fails`.) -/
theorem accepted_datagram_survives_same_limit (limit localMax : Nat) (ops : List Op) (hs : SmallOps ops)
    (r : Receiver) (hr : r.localMax = limit) :
    ∀ p ∈ (run limit localMax ops).wire, ∀ l ∈ p,
      (recvDatagram r l.withLen l.payload.length l.payload).2 ≠ .protocolViolation := by
  intro p hp l hl hpv
  have hb := frame_within_peer_limit limit localMax ops hs p hp l hl
  cases hc : r.closed with
  | some e => simp [recvDatagram, hc] at hpv
  | none =>
    have := ((oversize_is_protocol_violation r l.withLen l.payload hc).1).mp hpv
    omega

-- non-vacuity: near-limit datagrams do reach the wire, in both encodings, and stay within the limit
example :
    let ops := [Op.send (List.replicate 97 0), .send (List.replicate 98 0), .send [1, 2, 3], .load 1200 9, .load 4 1]
    SmallOps ops ∧
    (run 100 100 ops).accepted = [List.replicate 97 0, [1, 2, 3]] ∧
    (run 100 100 ops).wire = [[⟨0, true, List.replicate 97 0⟩, ⟨0, true, [1, 2, 3]⟩]] ∧
    (encFrame true (List.replicate 97 (0 : UInt8))).length = 100 := by
  intro ops
  refine ⟨?_, by decide, by decide, by decide⟩
  intro op h
  simp only [ops, List.mem_cons, List.not_mem_nil, or_false] at h
  rcases h with rfl | rfl | rfl | rfl | rfl <;> simp [Op.Small]

example : (run 5 5 [Op.send [1, 2, 3], .load 4 1]).wire = [[⟨0, false, [1, 2, 3]⟩]] := by decide

end GmQuic.Datagram
