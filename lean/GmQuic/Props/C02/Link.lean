import GmQuic.Props.C02.Safety
import GmQuic.Lemmas.NetLink
/-!
C02 — the hypotheses of `net_safety` discharged by NAMED theorems of the neighbouring properties.  Property theorems only.

* C07 (`Pn.decode_pn_never_accepts_twice`, `Pn.decode_pn_rejects_dup_and_old`): along EVERY history of the stack the
  receive journal of a direction follows a history of the C07 receiver model, so a packet number the sink dispatched is
  never accepted by `decode_pn` again, however it is encoded — "each packet number at most once" is C07's theorem
  transported (the C02 invariant `deliv_nodup` used `Lemmas/Rcvd` directly; this file goes through the Props theorem).
* (Superseded: see `Props/C02/LinkC06.lean`, which uses C06's multi-packet `IdealOver`.)  Earlier note — C06 was NOT connected here while it had only `Protect.IdealFor` is a SINGLE-packet game (nothing
  opens under any key except the one sealed packet), while `Crypto.open_seal` requires every sealed packet to open.
  For any `Crypto` instance whose `openP` accepts only what `Protect.receive` accepts, `IdealFor` + `open_seal` force
  all packets to share one ciphertext and `open_seal` then fails for two different packets: the joint hypotheses are
  unsatisfiable, so a theorem "`Authentic` from `accepted_only_original`" over `Crypto` would be vacuous.  A
  multi-packet ideal-integrity statement in C06 is the missing piece; `Authentic` stays a hypothesis (docs/C02.md).
-/
namespace GmQuic.Net
open GmQuic.RecvBuf (Bytes)
open GmQuic

/-! ### C07 ⇒ each packet number at most once -/

/-- ∀ state, ∀ packet the sink of `d` dispatches, ∀ later history of the stack (adversary included), ∀ encoding:
C07's `decode_pn` on the sink's journal never answers `Ok(pn)` for that packet's number again. -/
theorem dispatched_pn_never_accepted_again {C : Type} (K : Crypto C) (ord : Order) (σ : Net C) (d : Dir) (p : Packet)
    (later : List (Op C)) (e : Pn.PacketNumber) :
    ((run K ord (dispatch σ d p) later).rcvd d).decodePn e ≠ .ok p.pn := by
  obtain ⟨rops, h⟩ := rcvd_run_rop K ord later (dispatch σ d p) d
  rw [h, rcvd_dispatch, upd_same]
  exact Pn.decode_pn_never_accepts_twice (σ.rcvd d) p.pn rops e

/-- …hence the stack's freshness test (which IS `decode_pn` acceptance, `fresh_iff_decodePn`) fails for that number
ever after, for every encoding `e` of it that the journal decodes to it: the packet cannot be dispatched twice. -/
theorem dispatched_pn_never_fresh_again {C : Type} (K : Crypto C) (ord : Order) (σ : Net C) (d : Dir) (p : Packet)
    (later : List (Op C)) (e : Pn.PacketNumber)
    (he : Pn.decode e ((run K ord (dispatch σ d p) later).rcvd d).largest = .ok p.pn) :
    fresh ((run K ord (dispatch σ d p) later).rcvd d) p.pn = false := by
  cases hf : fresh ((run K ord (dispatch σ d p) later).rcvd d) p.pn with
  | false => rfl
  | true =>
    exact absurd ((fresh_iff_decodePn _ e p.pn he).mp hf) (dispatched_pn_never_accepted_again K ord σ d p later e)

-- non-vacuity: packet number 0 dispatched, then a slide and another packet; `u16 0` still decodes to 0 and is refused
example :
    let σ := dispatch (Net.init ToyC 10 10) .c2s ⟨0, []⟩
    let τ := run toy .afterAuth σ [.slide .c2s 0, .send .c2s [], .send .c2s [], .recv .c2s ⟨some ⟨1, []⟩, false⟩]
    Pn.decode (.u16 0) (τ.rcvd .c2s).largest = .ok 0 ∧ (τ.rcvd .c2s).decodePn (.u16 0) = .duplicate ∧
      (τ.delivered .c2s).map (·.pn) = [0, 1] := by decide

end GmQuic.Net
