import GmQuic.Props.C02.Safety
import GmQuic.Lemmas.NetDg2
/-!
C02 — the DATAGRAM clause by REFINEMENT to the C19 `Run` model (`Model/Datagram.lean`).  Property theorems only.

"Every DATAGRAM payload received was sent by the peer, unchanged, unmerged, in order among those that arrive": each
direction of a packet-level history of `Model/Net` projects to a history of the C19 model (sends, assembly passes,
deliveries of in-flight packets — at most once each, which is where the receive journal and AEAD integrity enter), and the
clause is C19's invariant (`Datagram.Inv.run`, the content of `fifo_among_arrived`) transported along the projection.

`Model/Net` lets the honest sender put ANY queued datagram into a packet, any number of times (`legal`); C19's sender
pops its queue front, each datagram once (`tryLoad`, tied to the code by C19's correspondence run).  The refinement
therefore needs `DgDiscipline` — a hypothesis on the HONEST SENDER, none on the adversary: the datagrams put into packets
so far are a prefix of the datagrams queued.  `DgSmall` (every queued datagram shorter than `B ≤ 2^62`) fixes the C19
limits `peerMax = B`, `localMax = B + 9` under which nothing is refused and no PROTOCOL_VIOLATION arises.
-/
namespace GmQuic.Net
open GmQuic.RecvBuf (Bytes)
open GmQuic

/-- REFINEMENT to C19.  ∀ hist (AEAD integrity; the sender of `d` respects its queue), ∀ `d`: there is a history `dops` of
the C19 datagram model — whatever the adversary dropped, delayed, reordered, duplicated, truncated, flipped, injected or
replayed — with the same accepted datagrams, the same datagrams on the wire, the same datagrams in delivered packets
and the same datagrams handed to the receiving flow, both flows open. -/
theorem net_refines_c19 {C : Type} (K : Crypto C) (ord : Order) (sw rw : Nat) (ops : List (Op C)) (d : Dir) (B : Nat)
    (hn : Authentic K ord sw rw ops) (hq : DgDiscipline K ord d (Net.init C sw rw) ops)
    (hB : B ≤ 2 ^ 62) (hs : DgSmall d B ops) :
    ∃ dops : List Datagram.Op, Datagram.SmallOps dops ∧
      let σ := after K ord sw rw ops
      let r := Datagram.run (B + 9) (B + 9) dops
      r.snd.closed = none ∧ r.rcv.closed = none ∧
      r.accepted = σ.dgSent d ∧ r.arrived = σ.dgRcvd d ∧
      r.wire.flatMap Datagram.Pkt.payloads = dgsOf (σ.sent d) ∧
      r.delivered.flatMap Datagram.Pkt.payloads = dgsOf (σ.delivered d) :=
  GmQuic.Net.net_refines_c19' K ord sw rw ops d B hn hq hB hs

/-- C19's theorem TRANSPORTED: what the receiving flow of `d` got is EXACTLY the concatenation, over the dispatched
packets in dispatch order, of the datagrams each carried, in the order written — unchanged, unmerged, unsplit, nothing
else; the datagrams put into packets are a prefix of those the application queued (each once, in order); every
datagram received was put on the wire and queued by the peer application. -/
theorem net_datagrams_fifo {C : Type} (K : Crypto C) (ord : Order) (sw rw : Nat) (ops : List (Op C)) (d : Dir) (B : Nat)
    (hn : Authentic K ord sw rw ops) (hq : DgDiscipline K ord d (Net.init C sw rw) ops)
    (hB : B ≤ 2 ^ 62) (hs : DgSmall d B ops) :
    let σ := after K ord sw rw ops
    σ.dgRcvd d = dgsOf (σ.delivered d) ∧
    dgsOf (σ.sent d) <+: σ.dgSent d ∧
    (∀ x ∈ σ.dgRcvd d, x ∈ dgsOf (σ.sent d) ∧ x ∈ σ.dgSent d) :=
  GmQuic.Net.net_datagrams_fifo' K ord sw rw ops d B hn hq hB hs

/-- "In order among those that arrive": if the network only LOSES packets of direction `d` (the dispatched packet numbers
increase), the datagrams received are a SUBSEQUENCE of the datagrams the peer application queued. -/
theorem net_datagrams_in_order {C : Type} (K : Crypto C) (ord : Order) (sw rw : Nat) (ops : List (Op C)) (d : Dir)
    (B : Nat) (hn : Authentic K ord sw rw ops) (hq : DgDiscipline K ord d (Net.init C sw rw) ops)
    (hB : B ≤ 2 ^ 62) (hs : DgSmall d B ops)
    (hio : (((after K ord sw rw ops).delivered d).map (·.pn)).Pairwise (· < ·)) :
    ((after K ord sw rw ops).dgRcvd d).Sublist ((after K ord sw rw ops).dgSent d) :=
  GmQuic.Net.net_datagrams_in_order' K ord sw rw ops d B hn hq hB hs hio

-- non-vacuity on the witness history of `Safety` (reordering, duplicate, garbage, replay; one datagram `[42]`)
example : DgDiscipline toy .afterAuth .c2s (Net.init ToyC 10 10) exOps ∧ DgSmall .c2s 2 exOps ∧
    (after toy .afterAuth 10 10 exOps).dgRcvd .c2s = [[42]] := by
  refine ⟨?_, ?_, by decide⟩
  · simp only [exOps, DgDiscipline, and_true]; decide
  · intro x hx
    simp only [exOps, List.mem_cons, Op.dgSend.injEq, true_and, reduceCtorEq, List.not_mem_nil, or_false, false_or] at hx
    subst hx; decide

example : (((after toy .afterAuth 10 10 (exOps.take 7)).delivered .c2s).map (·.pn)).Pairwise (· < ·) := by decide

/-- the discipline is needed: without it the stack's sender may seal the same queued datagram twice, and the receiver
gets it twice (C19's sender cannot do that) -/
example :
    let ops : List (Op ToyC) := [.dgSend .c2s [1], .send .c2s [.dgram [1]], .send .c2s [.dgram [1]],
      .recv .c2s ⟨some ⟨0, [.dgram [1]]⟩, false⟩, .recv .c2s ⟨some ⟨1, [.dgram [1]]⟩, false⟩]
    (after toy .afterAuth 10 10 ops).dgRcvd .c2s = [[1], [1]] ∧ (after toy .afterAuth 10 10 ops).dgSent .c2s = [[1]] ∧
      ¬ DgDiscipline toy .afterAuth .c2s (Net.init ToyC 10 10) ops := by
  refine ⟨by decide, by decide, ?_⟩
  simp only [DgDiscipline, and_true]; decide

end GmQuic.Net
