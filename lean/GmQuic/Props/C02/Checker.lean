import GmQuic.Lemmas.NetChk2
/-!
C02 — what "the driver accepted the transcript" MEANS.  Property theorems only.

`Drv/C02.lean` replays the application history of every simulator run (real dquic client and server over the
fault-injecting network) and reports a DIFF on the first line the application projection of `Model/Net` does not allow.
`Accepted ls` = no DIFF on `ls` (`run` folds `Drv.C02.step` from `model.init` and stops at the first `some msg`).  The
observables `wrote`, `readN`, `sdSeen`, `eofSeen`, `keyOf` are folds over the PARSED TRANSCRIPT ALONE (never the
checker's state; an `open` of a stream direction resets them, so everything is relative to the last `open`).  The
theorems say: an accepted transcript has the prefix property — the conclusions of `net_safety` (C01 `read_is_prefix`,
`eof_only_at_end`) and `no_error_from_tampering`, evaluated on the real trace.  (The stronger "∃ Model/Net history with
this application projection" is OPEN, see docs/C02.md.)
-/
namespace GmQuic.Net
open GmQuic.Drv.C02

/-- MEANING OF ACCEPTANCE: for every accepted transcript `ls` and every line `l` of it (`ls = pre ++ l :: post`):
1. a read `r ep sid n => a s` on direction `k = (sid, writer = peer ep)`: every byte read had been written by the peer
   EARLIER in the transcript (`readN pre k + n ≤ wrote pre k`), no EOF had been reported, and `(a, s)` are the running
   sums of the first `readN pre k + n` canonical bytes of the stream's key — the data read is (up to the checksum) the
   prefix of what the peer wrote;
2. `eof ep sid`: the writer had requested shutdown and everything written had been read;
3. `w ep sid n`: the writer had not requested shutdown (so `wrote` is final once EOF is legal);
4. `term ep => kind`: `kind` is application close or loss of the path, never a transport error;
5. `accept ep sid`: the peer's `open` of `sid` occurs earlier. -/
theorem checker_sound {ls pre post : List Line} {l : Line} (hacc : Accepted ls) (hsplit : ls = pre ++ l :: post) :
    (∀ ep sid n a sm, parse l = some (.r ep sid n a sm) →
      readN (plines pre) (sid, peer ep) + n ≤ wrote (plines pre) (sid, peer ep) ∧
      eofSeen (plines pre) (sid, peer ep) = false ∧
      ∃ key, keyOf (plines pre) (sid, peer ep) = some key ∧
        (a, sm) = sumsFrom key 0 (readN (plines pre) (sid, peer ep) + n) (1, 0)) ∧
    (∀ ep sid, parse l = some (.eof ep sid) →
      sdSeen (plines pre) (sid, peer ep) = true ∧ readN (plines pre) (sid, peer ep) = wrote (plines pre) (sid, peer ep)) ∧
    (∀ ep sid n, parse l = some (.w ep sid n) → sdSeen (plines pre) (sid, ep) = false) ∧
    (∀ ep kind, parse l = some (.term ep kind) → allowedTerm kind = true) ∧
    (∀ ep sid, parse l = some (.acc ep sid) → ∃ key, PLine.opn (peer ep) sid key ∈ plines pre) :=
  GmQuic.Drv.C02.checker_sound hacc hsplit

/-- At EVERY point of an accepted transcript, for EVERY stream direction: no more was read than written, and once EOF
was reported the writer had shut down and read = written (with clauses 1 and 3 above: EOF is final). -/
theorem checker_prefix_invariants {ls pre post : List Line} (hacc : Accepted ls) (hsplit : ls = pre ++ post) (k : Key) :
    readN (plines pre) k ≤ wrote (plines pre) k ∧
    (eofSeen (plines pre) k = true →
      sdSeen (plines pre) k = true ∧ readN (plines pre) k = wrote (plines pre) k) :=
  prefix_invariants hacc hsplit k

/-- an accepted transcript is accepted by the parsed checker `prun` (every line parses and `pstep` allows it) — the parsed form on which the
non-vacuity examples of `Lemmas/NetChk2` run (`okP` accepted; eight one-defect variants rejected) -/
theorem checker_accepted_parsed (ls : List Line) (t : St) :
    GmQuic.Drv.C02.run model.init ls = some t → prun model.init (plines ls) = some t :=
  prun_of_run

-- non-vacuity: the accepted sample transcript, and "read before write" rejected
example : (prun [] okP).isSome = true := by decide
example : prun [] [.opn "c" 0 7, .r "s" 0 3 290 570] = none := by decide

end GmQuic.Net
