import GmQuic.Props.C02.Safety
import GmQuic.Props.C06.Link
/-!
C02 ← C06: `Authentic` split into the part C06 PROVES and the part that stays an assumption about the adversary.

`Authentic` (= `NoForgery` from the initial state) says: at each `recv d c`, if `c` authenticates then `c` is already
on the wire.  It is the conjunction of

* `OpensOnlySealed fin` — INTEGRITY relative to the run: every ciphertext the adversary handed in and that
  authenticated is one of `fin d`, the ciphertexts the peer sealed during the (whole) history.  This is what C06's
  multi-packet theorems give for the real receive path (`Protect.accepted_on_wire`: under `Protect.IdealOver` over the
  AEAD inputs the sender sealed, whatever `Protect.receive` accepts is a member of the sender's wire, bit for bit,
  in every key state); it is a statement about the adversary's INPUTS — it cannot be a property of a `Crypto` value,
  whose `open_seal` field makes it open the seal of every packet, sent or not — and
* `Causal fin` — CAUSALITY: the adversary never hands in a ciphertext of `fin d` before the peer produced it (it
  would have to guess a future `seal` output).  No deterministic model can prove this; it is the residual assumption.

`authentic_of_ideal` : `OpensOnlySealed` ∧ `Causal` → `Authentic`; `ideal_of_authentic` : the converse for the integrity
half (wire only grows), so nothing is lost.  New file; no existing C02 file is edited.
-/
namespace GmQuic.Net
open GmQuic.RecvBuf (Bytes)
open GmQuic

/-- every ciphertext handed to a sink during `ops` that authenticates is in `fin` -/
def OpensOnlySealed {C : Type} (K : Crypto C) (fin : Dir → List C) : List (Op C) → Prop
  | [] => True
  | .recv d c :: rest => ((K.openP d c).isSome → c ∈ fin d) ∧ OpensOnlySealed K fin rest
  | _ :: rest => OpensOnlySealed K fin rest

/-- no ciphertext of `fin` is handed in before it is on the wire -/
def Causal {C : Type} (K : Crypto C) (ord : Order) (fin : Dir → List C) : Net C → List (Op C) → Prop
  | _, [] => True
  | σ, .recv d c :: rest => (c ∈ fin d → c ∈ σ.wire d) ∧ Causal K ord fin (step K ord σ (.recv d c)) rest
  | σ, op :: rest => Causal K ord fin (step K ord σ op) rest

theorem noForgery_of_ideal {C : Type} (K : Crypto C) (ord : Order) (fin : Dir → List C) (σ : Net C) (ops : List (Op C))
    (h1 : OpensOnlySealed K fin ops) (h2 : Causal K ord fin σ ops) : NoForgery K ord σ ops := by
  induction ops generalizing σ with
  | nil => trivial
  | cons op rest ih =>
    cases op with
    | recv d c =>
      simp only [OpensOnlySealed, Causal] at h1 h2
      exact ⟨fun ho => h2.1 (h1.1 ho), ih _ h1.2 h2.2⟩
    | app d sid o => exact ⟨trivial, ih _ h1 h2⟩
    | dgSend d x => exact ⟨trivial, ih _ h1 h2⟩
    | send d fr => exact ⟨trivial, ih _ h1 h2⟩
    | slide d n => exact ⟨trivial, ih _ h1 h2⟩

/-- **authentic_of_ideal**: integrity over what the peer sealed during the run (C06, multi-packet) + causality ⇒ C02's
`Authentic`, with `fin` = the wire at the end of the history. -/
theorem authentic_of_ideal {C : Type} (K : Crypto C) (ord : Order) (sw rw : Nat) (ops : List (Op C))
    (h1 : OpensOnlySealed K (after K ord sw rw ops).wire ops)
    (h2 : Causal K ord (after K ord sw rw ops).wire (Net.init C sw rw) ops) :
    Authentic K ord sw rw ops :=
  noForgery_of_ideal K ord _ _ ops h1 h2

/-- the wire only grows -/
theorem wire_step_mono {C : Type} (K : Crypto C) (ord : Order) (σ : Net C) (op : Op C) (d : Dir) (c : C)
    (h : c ∈ σ.wire d) : c ∈ (step K ord σ op).wire d := by
  cases op with
  | recv d' c' =>
    simp only [step, recvStep]
    split
    · exact h
    · split
      · exact h
      · split
        · exact h
        · split
          · exact h
          · split
            · simp only [dispatch]
              generalize hσ : ({ σ with rcvd := _, delivered := _ } : Net C) = σ1
              have h1 : c ∈ σ1.wire d := by rw [← hσ]; exact h
              clear hσ
              rename_i p _ _ _
              induction p.frames generalizing σ1 with
              | nil => exact h1
              | cons f fs ih => exact ih _ (by cases f <;> exact h1)
            · exact h
  | app d' sid o => simp only [step]; split <;> exact h
  | dgSend d' x => exact h
  | send d' fr =>
    simp only [step, upd]
    split
    · rename_i he; subst he; exact List.mem_append_left _ h
    · exact h
  | slide d' n => exact h

theorem wire_run_mono {C : Type} (K : Crypto C) (ord : Order) (ops : List (Op C)) (σ : Net C) (d : Dir) (c : C)
    (h : c ∈ σ.wire d) : c ∈ (run K ord σ ops).wire d := by
  induction ops generalizing σ with
  | nil => exact h
  | cons op rest ih => exact ih _ (wire_step_mono K ord σ op d c h)

/-- **ideal_of_authentic**: conversely `Authentic` implies the integrity half (nothing is lost by the split). -/
theorem ideal_of_authentic {C : Type} (K : Crypto C) (ord : Order) (σ : Net C) (ops : List (Op C))
    (h : NoForgery K ord σ ops) : OpensOnlySealed K (run K ord σ ops).wire ops := by
  induction ops generalizing σ with
  | nil => trivial
  | cons op rest ih =>
    cases op with
    | recv d c =>
      simp only [OpensOnlySealed]
      exact ⟨fun ho => wire_run_mono K ord rest _ d c (wire_step_mono K ord σ _ d c (h.1 ho)), ih _ h.2⟩
    | app d sid o => exact ih _ h.2
    | dgSend d x => exact ih _ h.2
    | send d fr => exact ih _ h.2
    | slide d n => exact ih _ h.2

/-- non-vacuity: the reorder / duplicate / garbage / replay history of `Safety.lean` satisfies both halves -/
example : OpensOnlySealed toy (after toy .afterAuth 10 10 exOps).wire exOps ∧
    Causal toy .afterAuth (after toy .afterAuth 10 10 exOps).wire (Net.init ToyC 10 10) exOps := by
  constructor
  · simp only [exOps, OpensOnlySealed, and_true]
    decide
  · simp only [exOps, Causal, and_true]
    decide

end GmQuic.Net
