import GmQuic.Model.Net
import GmQuic.Lemmas.Net
import GmQuic.Props.C01
/-!
C02 — a connection survives an adversarial network without corrupting data.  Property theorems only.

Model: `GmQuic/Model/Net.lean` — the ABSTRACT stack: per direction and stream id one C01 stream, DATAGRAM payloads,
a packet layer sealed by an abstract AEAD (`Crypto C`, hypotheses only), the C07/C10 receive journal for
de-duplication, and an adversary that may hand ANY ciphertext to either endpoint at any time
(`Op.recv`; drop / delay / reorder / duplicate / replay / truncate / flip / inject are instances, `Adv`).
"∀ hist" = every finite `List (Op C)` from `Net.init C sw rw`, for every ciphertext type `C` and every `K : Crypto C`.
`NoForgery` is AEAD integrity stated on the history: a ciphertext that authenticates was put on the wire by the
peer (INT-CTXT; assumed of ring's AEAD, never proved).  PARTIAL: nothing here is about the tokio program — panics,
hangs and timers of the real endpoints are explored by the simulator (`harness2/`), not proved.
-/
namespace GmQuic.Net
open GmQuic.RecvBuf (Bytes)
open GmQuic

/-- the state after a history -/
def after {C : Type} (K : Crypto C) (ord : Order) (sw rw : Nat) (ops : List (Op C)) : Net C :=
  run K ord (Net.init C sw rw) ops

/-- AEAD integrity along a history from the initial state -/
def Authentic {C : Type} (K : Crypto C) (ord : Order) (sw rw : Nat) (ops : List (Op C)) : Prop :=
  NoForgery K ord (Net.init C sw rw) ops

/-! ### a toy instance (non-vacuity; also the counter-example carrier) -/

structure ToyC where
  pkt : Option Packet
  rsv : Bool
deriving DecidableEq

def toy : Crypto ToyC where
  sealP _ p := ⟨some p, false⟩
  openP _ c := if c.rsv then none else c.pkt
  reserved _ c := c.rsv
  open_seal _ _ := rfl
  open_inj _ c p h := by
    cases c with
    | mk pkt rsv =>
      cases rsv
      · simp at h; simp [h]
      · simp at h
  seal_reserved _ _ := rfl

/-- 3 bytes written and emitted in two frames, sealed in two packets; the second packet arrives first, the first
twice, then a truncated-to-garbage datagram and a replay; a datagram payload rides in the second packet. -/
def exOps : List (Op ToyC) :=
  [.app .c2s 0 (.write [7, 8, 9]), .app .c2s 0 (.pick 0 2), .app .c2s 0 (.pick 2 1), .dgSend .c2s [42],
   .send .c2s [.stream 0 ⟨0, [7, 8], false⟩, .stream 0 ⟨0, [6, 6], false⟩],
   .send .c2s [.stream 0 ⟨2, [9], false⟩, .dgram [42], .dgram [43]],
   .recv .c2s ⟨some ⟨1, [.stream 0 ⟨2, [9], false⟩, .dgram [42]]⟩, false⟩,
   .recv .c2s ⟨some ⟨0, [.stream 0 ⟨0, [7, 8], false⟩]⟩, false⟩,
   .recv .c2s ⟨some ⟨0, [.stream 0 ⟨0, [7, 8], false⟩]⟩, false⟩,
   .recv .c2s ⟨none, false⟩,
   .recv .c2s ⟨some ⟨1, [.stream 0 ⟨2, [9], false⟩, .dgram [42]]⟩, false⟩,
   .app .c2s 0 (.read 10)]

/-! ### 1. only what the peer sealed reaches the frame handlers, each packet number once -/

/-- ∀ hist (with AEAD integrity): every packet whose frames were handed to the frame handlers of an endpoint is a
packet the peer sealed — never a truncated, flipped, injected or otherwise rewritten datagram — and no packet number
is dispatched twice, however often the adversary replays. -/
theorem tampered_never_delivered {C : Type} (K : Crypto C) (ord : Order) (sw rw : Nat) (ops : List (Op C))
    (hn : Authentic K ord sw rw ops) (d : Dir) :
    (∀ p ∈ (after K ord sw rw ops).delivered d, p ∈ (after K ord sw rw ops).sent d) ∧
    (((after K ord sw rw ops).delivered d).map (·.pn)).Nodup := by
  have hi := inv_run ord ops _ (inv_init K sw rw) hn
  exact ⟨hi.deliv_sent d, hi.deliv_nodup d⟩

example : Authentic toy .afterAuth 10 10 exOps ∧
    ((after toy .afterAuth 10 10 exOps).delivered .c2s).map (·.pn) = [1, 0] ∧
    ((after toy .afterAuth 10 10 exOps).sent .c2s).length = 2 := by
  refine ⟨?_, by decide, by decide⟩
  simp only [Authentic, exOps, NoForgery, opAuthentic, and_true, true_and]
  decide

/-- At ANY state: a datagram that does not authenticate (bit flip, truncation, garbage) changes nothing — when the
reserved-bit check comes after authentication, or the bits happen to be clear. -/
theorem unauthenticated_changes_nothing {C : Type} (K : Crypto C) (ord : Order) (σ : Net C) (d : Dir) (c : C)
    (ho : K.openP d c = none) (hr : ord = .afterAuth ∨ K.reserved d c = false) : step K ord σ (.recv d c) = σ :=
  recv_unauth_noop K ord σ d c ho hr

example : (toy.openP .c2s ⟨none, false⟩ = none) ∧ ((Order.afterAuth = .afterAuth) ∨ toy.reserved .c2s ⟨none, false⟩ = false) := by
  decide

/-- ∀ hist: replaying a datagram whose packet was already dispatched changes nothing. -/
theorem replay_changes_nothing {C : Type} (K : Crypto C) (ord : Order) (sw rw : Nat) (ops : List (Op C))
    (hn : Authentic K ord sw rw ops) (d : Dir) (p : Packet) (hp : p ∈ (after K ord sw rw ops).delivered d) :
    step K ord (after K ord sw rw ops) (.recv d (K.sealP d p)) = after K ord sw rw ops :=
  recv_replay_noop ord (inv_run ord ops _ (inv_init K sw rw) hn) d p hp

/-- Every named move of the adversary — deliver an observed datagram again / late / out of order (`deliver`), deliver
any function of an observed datagram: truncation, bit flips (`tamper`), deliver arbitrary bytes (`inject`) — is a
`recv` step, so the "∀ hist" of the theorems in this file covers all of them, in any interleaving. -/
theorem adversary_moves_are_recv {C : Type} (σ : Net C) (a : Adv C) (op : Op C) (h : a.toOp σ = some op) :
    ∃ d c, op = .recv d c := by
  cases a with
  | deliver d i =>
    simp only [Adv.toOp, Option.map_eq_some_iff] at h
    obtain ⟨c, _, rfl⟩ := h; exact ⟨d, c, rfl⟩
  | tamper d i f =>
    simp only [Adv.toOp, Option.map_eq_some_iff] at h
    obtain ⟨c, _, rfl⟩ := h; exact ⟨d, f c, rfl⟩
  | inject d c =>
    simp only [Adv.toOp, Option.some.injEq] at h
    exact ⟨d, c, h.symm⟩

example : ((Adv.tamper .c2s 0 (fun c => { c with rsv := true })).toOp (after toy .afterAuth 10 10 exOps)).isSome = true ∧
    ((Adv.deliver (C := ToyC) .c2s 7).toOp (after toy .afterAuth 10 10 exOps)).isSome = false := by
  constructor <;> rfl

/-! ### 2. refinement: every packet-level history is a frame-level history of the C01 model -/

/-- ∀ hist (with AEAD integrity), every stream of either direction is in a state the C01 model reaches by some C01
history (`Stream.after`): the packet layer, the de-duplication and the adversary add no behaviour a C01 adversary
does not already have. -/
theorem net_refines_c01 {C : Type} (K : Crypto C) (ord : Order) (sw rw : Nat) (ops : List (Op C))
    (hn : Authentic K ord sw rw ops) (d : Dir) (sid : Nat) :
    ∃ sops : List Stream.Op, (after K ord sw rw ops).streams d sid = Stream.after sw rw sops :=
  (inv_run ord ops _ (inv_init K sw rw) hn).refines d sid

/-- ∀ hist (with AEAD integrity), for both directions and every stream: everything the application read is exactly the
first `nread` bytes the peer application wrote on that stream; it sees EOF only after the peer shut the stream down
and after it read every byte; no frame of an honest sender is answered with a stream error; and every DATAGRAM
payload handed to the receiving flow is a payload the peer application queued. -/
theorem net_safety {C : Type} (K : Crypto C) (ord : Order) (sw rw : Nat) (h : sw ≤ rw) (ops : List (Op C))
    (hn : Authentic K ord sw rw ops) (d : Dir) :
    (∀ sid, let s := (after K ord sw rw ops).streams d sid
      s.out = s.snd.written.take s.rcv.buf.nread ∧ s.rcv.buf.nread ≤ s.snd.written.length ∧
      (s.eof = true → s.snd.shutdown = true ∧ s.rcv.buf.nread = s.snd.written.length ∧ s.out = s.snd.written) ∧
      s.rxErr = none) ∧
    (∀ x ∈ (after K ord sw rw ops).dgRcvd d, x ∈ (after K ord sw rw ops).dgSent d) := by
  have hi := inv_run ord ops _ (inv_init K sw rw) hn
  refine ⟨fun sid => ?_, hi.dg d⟩
  obtain ⟨sops, hs⟩ := hi.refines d sid
  show _ ∧ _ ∧ _ ∧ _
  have hs' : (after K ord sw rw ops).streams d sid = Stream.after sw rw sops := hs
  rw [hs']
  obtain ⟨h1, h2⟩ := Stream.read_is_prefix sw rw h sops
  exact ⟨h1, h2, Stream.eof_only_at_end sw rw h sops, (Stream.no_spurious_error sw rw h sops).1⟩

example : ((after toy .afterAuth 10 10 exOps).streams .c2s 0).out = [7, 8, 9] ∧
    (after toy .afterAuth 10 10 exOps).dgRcvd .c2s = [[42]] ∧ (after toy .afterAuth 10 10 exOps).dgSent .c2s = [[42]] := by
  decide

/-! ### 3. tampering never raises a connection error -/

/-- With the reserved-bit check AFTER authentication (RFC 9001 §5.4; the code with `fix-C02-reserved-bits`):
∀ hist — no integrity assumption needed — no datagram whatsoever makes an endpoint raise a connection error. -/
theorem no_error_from_tampering {C : Type} (K : Crypto C) (sw rw : Nat) (ops : List (Op C)) (d : Dir) :
    (after K .afterAuth sw rw ops).connErr d = none :=
  connErr_run_after K ops _ (fun _ => rfl) d

/-- The order the unchanged code has (check after header-protection removal, BEFORE authentication) does not have the
property: one injected datagram whose unmasked reserved bits are set closes the connection with PROTOCOL_VIOLATION. -/
theorem no_error_from_tampering_fails :
    ¬ (∀ (C : Type) (K : Crypto C) (sw rw : Nat) (ops : List (Op C)) (d : Dir),
        (after K .beforeAuth sw rw ops).connErr d = none) := by
  intro h
  have := h ToyC toy 10 10 [.recv .c2s ⟨none, true⟩] .c2s
  revert this
  decide

/-- What does hold for that order: no connection error as long as no delivered datagram has its (unmasked) reserved
bits set — a condition on the adversary, which is why it is a defect (DESIGN §7 item 26). -/
theorem no_error_from_tampering_partial {C : Type} (K : Crypto C) (sw rw : Nat) (ops : List (Op C))
    (hc : ∀ op ∈ ops, opCleanBits K op) (d : Dir) : (after K .beforeAuth sw rw ops).connErr d = none :=
  connErr_run_before K ops _ hc (fun _ => rfl) d

example : ∀ op ∈ exOps, opCleanBits toy op := by
  intro op hop
  cases op with
  | recv d c =>
    simp [exOps] at hop
    rcases hop with ⟨_, rfl⟩ | ⟨_, rfl⟩ | ⟨_, rfl⟩ | ⟨_, rfl⟩ <;> rfl
  | _ => trivial

/-! ### 4. progress of the packet layer (what is provable of `net_liveness_bounded`; the rest is OPEN, see docs) -/

/-- ∀ hist (with AEAD integrity), for every frame list: if the source of `d` now seals a packet and the network hands
it over unmodified (the adversary is the identity for this datagram), the sink authenticates it, finds its number
fresh and dispatches exactly that packet — unless it already failed.  So under an identity network every `send` is a
C01 `deliver` of each STREAM frame it carries: liveness of the stack reduces to the C01 cooperative schedule. -/
theorem honest_packet_accepted {C : Type} (K : Crypto C) (ord : Order) (sw rw : Nat) (ops : List (Op C))
    (hn : Authentic K ord sw rw ops) (d : Dir) (frames : List PFrame)
    (hne : (after K ord sw rw ops).connErr d = none) :
    let σ := after K ord sw rw ops
    let p : Packet := ⟨σ.nextPn d, frames.filter (legal σ d)⟩
    (step K ord (step K ord σ (.send d frames)) (.recv d (K.sealP d p))).delivered d = σ.delivered d ++ [p] := by
  intro σ p
  have hi : Inv K sw rw σ := inv_run ord ops _ (inv_init K sw rw) hn
  have hf := fresh_next hi d
  have hne' : (σ.connErr d) = none := hne
  simp only [step, recvStep, hne', Option.isSome_none, Bool.false_eq_true, if_false, K.seal_reserved, and_false,
    K.open_seal, upd_same]
  have : fresh (σ.rcvd d) p.pn = true := hf
  simp only [this, if_true, dispatch]
  have ht := handles_fold sw rw d p.frames
    ({ σ with sent := upd σ.sent d (σ.sent d ++ [p]), wire := upd σ.wire d (σ.wire d ++ [K.sealP d p]),
              nextPn := upd σ.nextPn d (σ.nextPn d + 1),
              rcvd := upd σ.rcvd d ((σ.rcvd d).onRcvd p.pn),
              delivered := upd σ.delivered d (σ.delivered d ++ [p]) } : Net C)
    (by
      intro fr hfr
      have : legal σ d fr = true := (List.mem_filter.mp hfr).2
      exact (legal_iff σ d fr).mp this)
  rw [ht.delivered]
  show upd σ.delivered d (σ.delivered d ++ [p]) d = _
  rw [upd_same]

example : ((after toy .afterAuth 10 10 (exOps.take 5)).connErr .c2s = none) := by decide

end GmQuic.Net
