import GmQuic.Props.C02.Safety
import GmQuic.Lemmas.NetCoop
/-!
C02 — liveness of the ABSTRACT stack under bounded faults.  Property theorems only.

"When the faults are bounded the handshake completes and all application data is delivered", on `Model/Net`
(the handshake is abstracted: the keys of `Crypto C` are established): after EVERY history — any interleaving of
application calls, packet assemblies and ADVERSARY deliveries of arbitrary ciphertexts (drop, delay, reorder, duplicate,
truncate, flip, inject, replay) — in which no endpoint terminated or aborted (`LiveHist`), if from that point on the
network is the identity, the cooperative schedule completes: every written byte is read at the peer, EOF iff shutdown.
Obtained from C01's `eventually_complete` / `eventually_flushed` THROUGH THE REFINEMENT: `net_fair_history` (the
refinement preserves C01's `Fair`) and `liftAll_run` (the packet-level cooperative suffix IS C01's cooperative suffix on the
stream).  Inherited window hypothesis: the stream fits the sender's CURRENT flow-control window
(`written.length ≤ maxData` at the point where the faults stop) — C01's `hwin`; window updates during the suffix are
not part of the schedule.  Nothing here is about the tokio program (timers, PTO, handshake of rustls).
-/
namespace GmQuic.Net
open GmQuic.RecvBuf (Bytes)
open GmQuic

/-- no endpoint terminates / aborts a stream, and endpoints acknowledge only STREAM frames they dispatched -/
def LiveHist {C : Type} (K : Crypto C) (ord : Order) (sw rw : Nat) (ops : List (Op C)) : Prop :=
  Live K ord (Net.init C sw rw) ops

/-- a lossy, reordering, injecting prefix: 3 bytes in two frames and two packets; the second packet arrives, the
first never does; a garbage datagram and a replay are injected; the receiver acknowledges frame 1; the sender
declares frame 0 lost. -/
def exLive : List (Op ToyC) :=
  [.app .c2s 0 (.write [7, 8, 9]), .app .c2s 0 (.pick 0 2), .app .c2s 0 (.pick 2 1),
   .send .c2s [.stream 0 ⟨0, [7, 8], false⟩],
   .send .c2s [.stream 0 ⟨2, [9], false⟩],
   .recv .c2s ⟨some ⟨1, [.stream 0 ⟨2, [9], false⟩]⟩, false⟩,
   .recv .c2s ⟨none, false⟩,
   .recv .c2s ⟨some ⟨1, [.stream 0 ⟨2, [9], false⟩]⟩, false⟩,
   .app .c2s 0 (.ack 1), .app .c2s 0 (.lose 0)]

/-! ### 1. the refinement preserves `Fair` -/

/-- ∀ hist (AEAD integrity; no endpoint terminated): every stream of either direction satisfies the hypotheses of
C01's liveness theorem — it is reachable, untouched by reset / stop / connection error, and what its sender holds
acknowledged has reached its receiver — WHATEVER the adversary dropped, delayed, reordered, duplicated, truncated,
flipped, injected or replayed. -/
theorem net_fair_history {C : Type} (K : Crypto C) (ord : Order) (sw rw : Nat) (h : sw ≤ rw) (ops : List (Op C))
    (hn : Authentic K ord sw rw ops) (hl : LiveHist K ord sw rw ops) (d : Dir) (sid : Nat) :
    Stream.Fair ((after K ord sw rw ops).streams d sid) :=
  (finv_run ord ops _ (inv_init K sw rw) (finv_init C sw rw h) hn hl).fair d sid

theorem exLive_ok : Authentic toy .afterAuth 10 10 exLive ∧ LiveHist toy .afterAuth 10 10 exLive := by
  constructor
  · simp only [Authentic, exLive, NoForgery, opAuthentic, and_true, true_and]
    decide
  · simp only [LiveHist, exLive, Live, opLive, and_true, true_and]
    exact ⟨⟨2, [9], false⟩, by decide, ⟨1, [.stream 0 ⟨2, [9], false⟩]⟩, by decide, by decide⟩

example : Authentic toy .afterAuth 10 10 exLive ∧ LiveHist toy .afterAuth 10 10 exLive ∧
    ((after toy .afterAuth 10 10 exLive).streams .c2s 0).out = [] ∧
    ((after toy .afterAuth 10 10 exLive).delivered .c2s).map (·.pn) = [1] :=
  ⟨exLive_ok.1, exLive_ok.2, by decide, by decide⟩

/-! ### 2. bounded faults ⇒ everything is delivered -/

/-- THE REFINEMENT IN THE DIRECTION LIVENESS NEEDS, for EVERY C01 history (any order and multiplicity of deliveries,
acknowledgements, losses, picks, reads, local calls): from the state after every history of the stack (AEAD integrity,
sink of `d` not failed), the packet-level carriage `liftAll … sops` of a C01 history `sops` of stream `(d, sid)` — each C01
`deliver i` = "seal a packet with STREAM frame `i`, hand exactly that ciphertext to the sink" — contains no forgery, hands
the sink exactly the ciphertexts it seals (each once, in order), touches no other stream and no error flag, dispatches
every packet it seals, and leaves the stream in the state the C01 model reaches by `sops`. -/
theorem net_carries_c01_history {C : Type} (K : Crypto C) (ord : Order) (sw rw : Nat) (ops : List (Op C))
    (hn : Authentic K ord sw rw ops) (d : Dir) (sid : Nat) (hne : (after K ord sw rw ops).connErr d = none)
    (sops : List Stream.Op) :
    let σ0 := after K ord sw rw ops
    let coop := liftAll K ord d sid σ0 sops
    let τ := run K ord σ0 coop
    τ.streams d sid = (σ0.streams d sid).run sops ∧
    (∀ d' sid', ¬ (d' = d ∧ sid' = sid) → τ.streams d' sid' = σ0.streams d' sid') ∧
    Authentic K ord sw rw (ops ++ coop) ∧ τ.wire d = σ0.wire d ++ recvd d coop ∧ (∀ d', d' ≠ d → recvd d' coop = []) ∧
    (τ.delivered d).length + (σ0.sent d).length = (τ.sent d).length + (σ0.delivered d).length ∧
    τ.connErr = σ0.connErr := by
  intro σ0 coop τ
  have hi : Inv K sw rw σ0 := inv_run ord ops _ (inv_init K sw rw) hn
  have L := liftAll_run ord d sid sops hi hne
  exact ⟨L.str, L.other, noForgery_append K ord _ _ _ hn L.auth, L.wire, fun d' hd => (L.wireO d' hd).2, L.deliv d, L.err⟩

-- non-vacuity: out-of-order, duplicated deliveries of the C01 level carried as packets on top of `exLive`
example :
    let σ0 := after toy .afterAuth 10 10 exLive
    let τ := run toy .afterAuth σ0 (liftAll toy .afterAuth .c2s 0 σ0 [.lose 0, .pick 0 2, .deliver 2, .deliver 2, .deliver 0, .read 9])
    (τ.streams .c2s 0).out = [7, 8, 9] ∧ (τ.sent .c2s).length = 5 ∧ (τ.delivered .c2s).map (·.pn) = [1, 2, 3, 4] := by
  decide

/-- LIVENESS of the abstract stack.  From the state after EVERY history `ops` (AEAD integrity, no endpoint terminated,
the sink of `d` has not failed), for every stream `(d, sid)` that fits its sender's window, for EVERY choice `keep` of
which STREAM frames in flight are lost for good and which arrive, and EVERY complete sequence `ps` of legal
non-repeating picks (retransmissions chosen by the implementation): the packet-level cooperative suffix
`coop = liftAll … (coopSuffix …)` — shutdown; each surviving frame sealed into a packet, the ciphertext handed over
unmodified, the frame acknowledged, the others declared lost; the picks; each new frame sealed, handed over,
acknowledged; two reads —
* is an identity-network history: it contains no forgery, the ciphertexts handed to the sink of `d` are EXACTLY the
  ciphertexts sealed during the suffix, each once, in order, nothing is handed to the other sink, every packet sealed
  is dispatched, and no connection-error flag changes;
* acts on the stream as C01's cooperative suffix (`t = s0.run (coopSuffix …)`, the refinement);
* ends with the reader having read exactly what was written, EOF seen, the sender in `DataRcvd`, `poll_shutdown` and
  `poll_flush` ready, the receiver in `DataRead`. -/
theorem net_liveness_bounded {C : Type} (K : Crypto C) (ord : Order) (sw rw : Nat) (h : sw ≤ rw) (ops : List (Op C))
    (hn : Authentic K ord sw rw ops) (hl : LiveHist K ord sw rw ops) (d : Dir) (sid : Nat)
    (hne : (after K ord sw rw ops).connErr d = none)
    (hwin : ((after K ord sw rw ops).streams d sid).snd.written.length ≤ ((after K ord sw rw ops).streams d sid).snd.maxData)
    (keep : Nat → Bool) (ps : List (Nat × Nat)) (cap : Nat)
    (hcap : ((after K ord sw rw ops).streams d sid).snd.written.length < cap) :
    let σ0 := after K ord sw rw ops
    let s0 := σ0.streams d sid
    let s2 := s0.run (.shutdown :: Stream.settleOps keep (List.range s0.emitted.length))
    Stream.PickSeq s2 ps →
    (s2.run (Stream.pickOps ps)).snd.somePick = none →
    let coop := liftAll K ord d sid σ0 (Stream.coopSuffix s0 keep ps cap)
    let τ := run K ord σ0 coop
    let t := τ.streams d sid
    (NoForgery K ord σ0 coop ∧ τ.wire d = σ0.wire d ++ recvd d coop ∧ (∀ d', d' ≠ d → recvd d' coop = []) ∧
      (τ.delivered d).length + (σ0.sent d).length = (τ.sent d).length + (σ0.delivered d).length ∧
      τ.connErr = σ0.connErr) ∧
    t = s0.run (Stream.coopSuffix s0 keep ps cap) ∧
    t.eof = true ∧ t.out = s0.snd.written ∧ t.snd.written = s0.snd.written ∧ t.snd.st = .dataRcvd ∧
      t.snd.pollShutdown.2 = "ready" ∧ t.snd.pollFlush = "ready" ∧ t.rcv.st = .dataRead := by
  intro σ0 s0 s2 hps hidle coop τ t
  have hi : Inv K sw rw σ0 := inv_run ord ops _ (inv_init K sw rw) hn
  have hf : Stream.Fair s0 := net_fair_history K ord sw rw h ops hn hl d sid
  have L := liftAll_run ord d sid (Stream.coopSuffix s0 keep ps cap) hi hne
  have hc := Stream.eventually_complete s0 hf hwin keep ps cap hcap hps hidle
  have ht : t = s0.run (Stream.coopSuffix s0 keep ps cap) := L.str
  refine ⟨⟨L.auth, L.wire, fun d' hd => (L.wireO d' hd).2, L.deliv d, L.err⟩, ht, ?_⟩
  rw [ht, Stream.coopSuffix_run]
  exact hc

/-- the retransmission of the lost frame 0 = bytes `[0, 2)`, then the FIN-only frame, complete the picks; the suffix
carries three packets; the reader ends with `[7, 8, 9]` and EOF -/
example :
    let s0 := (after toy .afterAuth 10 10 exLive).streams .c2s 0
    let s2 := s0.run (.shutdown :: Stream.settleOps (fun _ => false) (List.range s0.emitted.length))
    (after toy .afterAuth 10 10 exLive).connErr .c2s = none ∧ s0.snd.written.length ≤ s0.snd.maxData ∧
    Stream.PickSeq s2 [(0, 2), (3, 0)] ∧ (s2.run (Stream.pickOps [(0, 2), (3, 0)])).snd.somePick = none :=
  ⟨by decide, by decide, ⟨by decide, by decide, by decide, by decide, trivial⟩, by decide⟩

example :
    let σ0 := after toy .afterAuth 10 10 exLive
    let τ := run toy .afterAuth σ0 (liftAll toy .afterAuth .c2s 0 σ0
      (Stream.coopSuffix (σ0.streams .c2s 0) (fun _ => false) [(0, 2), (3, 0)] 4))
    (τ.streams .c2s 0).out = [7, 8, 9] ∧ (τ.streams .c2s 0).eof = true ∧ (τ.sent .c2s).length = 4 ∧
      (τ.delivered .c2s).map (·.pn) = [1, 2, 3] := by
  decide

/-- The other half of "EOF iff shutdown": if the application never shut the stream down, the same suffix WITHOUT
`shutdown` delivers and acknowledges every written byte, `poll_flush` is ready, and NO end-of-stream is reported. -/
theorem net_liveness_no_shutdown {C : Type} (K : Crypto C) (ord : Order) (sw rw : Nat) (h : sw ≤ rw) (ops : List (Op C))
    (hn : Authentic K ord sw rw ops) (hl : LiveHist K ord sw rw ops) (d : Dir) (sid : Nat)
    (hne : (after K ord sw rw ops).connErr d = none)
    (hopen : ((after K ord sw rw ops).streams d sid).snd.shutdown = false ∧
      (((after K ord sw rw ops).streams d sid).snd.st = .ready ∨ ((after K ord sw rw ops).streams d sid).snd.st = .sending))
    (hwin : ((after K ord sw rw ops).streams d sid).snd.written.length ≤ ((after K ord sw rw ops).streams d sid).snd.maxData)
    (keep : Nat → Bool) (ps : List (Nat × Nat)) (cap : Nat)
    (hcap : ((after K ord sw rw ops).streams d sid).snd.written.length < cap) :
    let σ0 := after K ord sw rw ops
    let s0 := σ0.streams d sid
    let s2 := s0.run (Stream.settleOps keep (List.range s0.emitted.length))
    Stream.PickSeq s2 ps →
    (s2.run (Stream.pickOps ps)).snd.somePick = none →
    let coop := liftAll K ord d sid σ0 (Stream.flushSuffix s0 keep ps cap)
    let τ := run K ord σ0 coop
    let t := τ.streams d sid
    (NoForgery K ord σ0 coop ∧ τ.wire d = σ0.wire d ++ recvd d coop ∧ (∀ d', d' ≠ d → recvd d' coop = []) ∧
      (τ.delivered d).length + (σ0.sent d).length = (τ.sent d).length + (σ0.delivered d).length ∧
      τ.connErr = σ0.connErr) ∧
    t = s0.run (Stream.flushSuffix s0 keep ps cap) ∧
    t.out = s0.snd.written ∧ t.snd.written = s0.snd.written ∧ t.snd.pollFlush = "ready" ∧ t.snd.allAcked ∧
      t.eof = false := by
  intro σ0 s0 s2 hps hidle coop τ t
  have hi : Inv K sw rw σ0 := inv_run ord ops _ (inv_init K sw rw) hn
  have hf : Stream.Fair s0 := net_fair_history K ord sw rw h ops hn hl d sid
  have L := liftAll_run ord d sid (Stream.flushSuffix s0 keep ps cap) hi hne
  have hc := Stream.eventually_flushed s0 hf hopen hwin keep ps cap hcap hps hidle
  have ht : t = s0.run (Stream.flushSuffix s0 keep ps cap) := L.str
  refine ⟨⟨L.auth, L.wire, fun d' hd => (L.wireO d' hd).2, L.deliv d, L.err⟩, ht, ?_⟩
  rw [ht, Stream.flushSuffix_run]
  exact hc

example :
    let σ0 := after toy .afterAuth 10 10 exLive
    let s0 := σ0.streams .c2s 0
    let τ := run toy .afterAuth σ0 (liftAll toy .afterAuth .c2s 0 σ0 (Stream.flushSuffix s0 (fun _ => false) [(0, 2)] 4))
    (s0.snd.shutdown = false ∧ s0.snd.st = .sending) ∧
    Stream.PickSeq (s0.run (Stream.settleOps (fun _ => false) (List.range s0.emitted.length))) [(0, 2)] ∧
    (τ.streams .c2s 0).out = [7, 8, 9] ∧ (τ.streams .c2s 0).eof = false :=
  ⟨by decide, ⟨by decide, by decide, trivial⟩, by decide, by decide⟩

/-- EXISTENCE, all hypotheses but the window discharged (so the theorem above is never vacuous): after every such
history, for every choice of which frames in flight are lost, there IS a finite identity-network continuation
(cooperative operations on the stream, packets sealed and handed over unmodified, nothing else) after which the reader
has read exactly what was written and has seen end-of-stream. -/
theorem net_completes_after_every_history {C : Type} (K : Crypto C) (ord : Order) (sw rw : Nat) (h : sw ≤ rw)
    (ops : List (Op C)) (hn : Authentic K ord sw rw ops) (hl : LiveHist K ord sw rw ops) (d : Dir) (sid : Nat)
    (hne : (after K ord sw rw ops).connErr d = none)
    (hwin : ((after K ord sw rw ops).streams d sid).snd.written.length ≤ ((after K ord sw rw ops).streams d sid).snd.maxData)
    (keep : Nat → Bool) :
    ∃ more : List (Op C),
      Authentic K ord sw rw (ops ++ more) ∧
      (after K ord sw rw (ops ++ more)).wire d = (after K ord sw rw ops).wire d ++ recvd d more ∧
      ((after K ord sw rw (ops ++ more)).streams d sid).eof = true ∧
      ((after K ord sw rw (ops ++ more)).streams d sid).out = ((after K ord sw rw ops).streams d sid).snd.written ∧
      ((after K ord sw rw (ops ++ more)).streams d sid).snd.st = .dataRcvd := by
  have hf := net_fair_history K ord sw rw h ops hn hl d sid
  obtain ⟨ps, p1, _, p3⟩ := Stream.cooperative_suffix_exists _ hf keep
  have hc := net_liveness_bounded K ord sw rw h ops hn hl d sid hne hwin keep ps
    (((after K ord sw rw ops).streams d sid).snd.written.length + 1) (Nat.lt_succ_self _) p1 p3
  obtain ⟨⟨a1, a2, _, _, _⟩, _, c1, c2, _, c4, _⟩ := hc
  refine ⟨_, noForgery_append K ord _ _ _ hn a1, ?_, ?_, ?_, ?_⟩ <;>
    (simp only [after, run_append]; first | exact a2 | exact c1 | exact c2 | exact c4)

end GmQuic.Net
