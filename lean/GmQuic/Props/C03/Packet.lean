import GmQuic.Lemmas.PacketRd
import GmQuic.Lemmas.PacketMux
/-!
C03, part 1: a UDP datagram → QUIC packets (`qbase::packet::PacketReader`, `be_packet`) and the pre-QUIC
demultiplexer of `qtraversal/src/route.rs`.  All statements are for ALL byte strings and every
connection-ID length `≤ 20` (`ConnectionId::from_slice` is the reason for the bound; the deployed value is 8).
-/
namespace GmQuic.Props.C03
open GmQuic.Wire GmQuic.Codec GmQuic.PacketDec

/-- **DESIGN Appendix A, verbatim.**  One step of the packet reader never panics: none of the `unreachable!`,
`usize` subtractions, `split_to`, slice-index or `from_slice` sites on the path is reachable. -/
theorem packet_no_panic (bs : Bytes) (dcidLen : Nat) (h : dcidLen ≤ 20) :
    ∀ site, PacketReader.next bs dcidLen ≠ .panic site :=
  fun site => next_np bs dcidLen h site

/-- The bound on the connection-ID length is needed: with 21 the short-header arm reaches `from_slice`. -/
theorem packet_no_panic_needs_bound :
    ¬ (∀ (bs : Bytes) (dcidLen : Nat) site, PacketReader.next bs dcidLen ≠ .panic site) := by
  intro h
  exact h (0x40 :: List.replicate 41 0) 21 "qbase/src/cid/connection_id.rs:from_slice:len>20" (by decide)

example : PacketReader.next [0x40] 8 = .dropped (.incompleteHeader (.short false)) [] := by decide

/-- Whole datagram: iterating the reader to the end never panics and never needs more than `len + 1` calls
(**terminates**: the loop cannot spin without consuming). -/
theorem reader_terminates (bs : Bytes) (dcidLen : Nat) (h : dcidLen ≤ 20) :
    Clean (PacketReader.all bs dcidLen) :=
  (run_spec dcidLen h (bs.length + 1) bs (Nat.lt_succ_self _)).1

/-- Each successfully parsed packet consumes at least one byte (in fact at least 7: a long header). -/
theorem packet_step_consumes (bs : Bytes) (dcidLen : Nat) (p : Packet) (rest : Bytes) :
    PacketReader.next bs dcidLen = .pkt p rest → rest.length < bs.length :=
  fun h => (next_pkt bs dcidLen p rest h).2

example : PacketReader.next ([0xe0, 0, 0, 0, 1, 0, 0, 20] ++ List.replicate 20 7 ++ [0x40]) 8 =
    .pkt (.data (.handshake [] []) ([0xe0, 0, 0, 0, 1, 0, 0, 20] ++ List.replicate 20 7) 8) [0x40] := by decide

/-- **A malformed datagram is simply dropped**: when a step fails, the reader's buffer is emptied … -/
theorem malformed_datagram_dropped (bs : Bytes) (dcidLen : Nat) (e : PErr) (rest : Bytes) :
    PacketReader.next bs dcidLen = .dropped e rest → rest = [] ∧ PacketReader.next rest dcidLen = .eof :=
  fun h => by have := next_dropped bs dcidLen e rest h; subst this; exact ⟨rfl, rfl⟩

/-- … so over the whole datagram nothing is ever yielded after an error item. -/
theorem nothing_after_error (bs : Bytes) (dcidLen : Nat) (h : dcidLen ≤ 20) :
    ErrLast (PacketReader.all bs dcidLen) :=
  (run_spec dcidLen h (bs.length + 1) bs (Nat.lt_succ_self _)).2

example : PacketReader.all ([0xe0, 0, 0, 0, 1, 0, 0, 20] ++ List.replicate 20 7 ++ [0xe0, 0, 0, 0, 1, 21]) 8 =
    [.pkt (.data (.handshake [] []) ([0xe0, 0, 0, 0, 1, 0, 0, 20] ++ List.replicate 20 7) 8),
     .err (.incompleteHeader (.long .handshake))] := by decide

/-- **No mis-framing / no out-of-bounds** (`no_oob`): a packet the reader delivers is exactly a prefix of the
buffer and what stays in the buffer is exactly the suffix (`bytes ++ rest = bs`: nothing skipped, duplicated or
invented); the header length `offset` is positive and the 4 + 16 bytes that header-protection removal samples
(`offset + 20`) lie inside the packet; VN / Retry empty the buffer. -/
theorem no_oob (bs : Bytes) (dcidLen : Nat) (p : Packet) (rest : Bytes) :
    PacketReader.next bs dcidLen = .pkt p rest →
      match p with
      | .ctl _ => rest = []
      | .data _ bytes off => bytes ++ rest = bs ∧ 0 < off ∧ off + 20 ≤ bytes.length :=
  fun h => by
    have := (next_pkt bs dcidLen p rest h).1
    cases p <;> exact this

/-- Every length the header parsers slice by is compared with what is left first: `streaming::take(n)`
succeeds only for `n ≤ len` and then returns exactly `take n` / `drop n`. -/
theorem take_no_oob (n : Nat) (bs a rest : Bytes) (h : pTakeS n bs = .ok a rest) :
    n ≤ bs.length ∧ a = bs.take n ∧ rest = bs.drop n :=
  let t := pTakeS_ok n bs a rest h; ⟨t.1, t.2.1, t.2.2.1⟩

/-- A long header whose connection-ID length byte exceeds 20 is a parse error of the packet
(DESIGN §7 item 1, repaired in /repo: used to be `unreachable!`). -/
theorem cid_len_over_20_is_error (b0 : UInt8) (cl : UInt8) (tail : Bytes) (d : Nat)
    (hb : b0.toNat / 16 = 0xe) (hcl : cl.toNat > 20) :
    ∃ t, bePacket (b0 :: 0 :: 0 :: 0 :: 1 :: cl :: tail) d = .err (.incompleteHeader t) := by
  have h1 : ¬ b0.toNat < 128 := by omega
  have h2 : ¬ (b0.toNat / 64 % 2 == 0) = true := by simp; omega
  have h3 : v1Type b0.toNat = some .handshake := by
    simp [v1Type, hb]
  refine ⟨.long .handshake, ?_⟩
  unfold bePacket bePacketType
  simp only [h1, if_false, List.length_cons, h2, h3]
  have : ¬ (tail.length + 1 + 1 + 1 + 1 + 1 < 4) := by omega
  simp only [this, if_false]
  have hv : beVal (List.take 4 (0 :: 0 :: 0 :: 1 :: cl :: tail)) = 1 := by rfl
  simp only [hv]
  have hc : pCid (cl :: tail) = .err (.nom .tooLarge) := by
    unfold pCid pU8S; simp only [Res.bind]; rw [if_pos (by unfold maxCidSize; omega)]
  simp [beHeader, List.drop, hc, Res.bind]

/-! ### the demultiplexer in front of the packet reader -/

/-- The pre-QUIC switch never panics (in particular `EndpointAddr::encoding_size`'s `unimplemented!` arm for
mixed address families is unreachable: both endpoints are parsed with the one family bit of the header). -/
theorem demux_no_panic (bs : Bytes) : ∀ site, demux bs ≠ .panic site := by
  intro site
  unfold demux
  cases ht : tHeader bs with
  | err k => intro h; cases h
  | panic s =>
    exfalso
    revert ht
    unfold tHeader
    split
    · intro h; cases h
    · rename_i first r
      simp only
      split
      · split
        · intro h; cases h
        · split
          · refine fun h => absurd h (np_bind (pU8S_np _) (fun _ r => np_bind (pU8S_np _) (fun _ r => ?_)) s)
            split
            · exact np_err _
            · exact np_ok _ _
          · intro h; cases h
      · split
        · refine fun h => absurd h (np_bind (pU8S_np _) (fun flag r => ?_) s)
          apply np_bind
          · unfold pEndpoint; split
            · exact np_bind (pSockAddr_np _ _) (fun _ _ => np_bind (pSockAddr_np _ _) (fun _ _ => np_ok _ _))
            · exact np_map (pSockAddr_np _ _)
          · intro src r
            apply np_bind
            · unfold pEndpoint; split
              · exact np_bind (pSockAddr_np _ _) (fun _ _ => np_bind (pSockAddr_np _ _) (fun _ _ => np_ok _ _))
              · exact np_map (pSockAddr_np _ _)
            · intro dst r; exact np_ok _ _
        · intro h; cases h
  | ok hd rest =>
    cases hd with
    | stun v => intro h; cases h
    | forward flag src dst =>
      simp only
      -- both endpoints carry the family of the header: encSize is defined
      have hfam : ∃ n, forwardEncSize src dst = some n := by
        revert ht
        unfold tHeader
        split
        · intro h; cases h
        · rename_i first r
          simp only
          split
          · split
            · intro h; cases h
            · split
              · intro h
                cases h1 : pU8S (List.drop 4 r) with
                | ok a r1 =>
                  rw [h1] at h; simp only [Res.bind] at h
                  cases h2 : pU8S r1 with
                  | ok b r2 => rw [h2] at h; simp only at h; split at h <;> cases h
                  | err k => rw [h2] at h; cases h
                  | panic s => rw [h2] at h; cases h
                | err k => rw [h1] at h; cases h
                | panic s => rw [h1] at h; cases h
              · intro h; cases h
          · split
            · intro h
              cases h1 : pU8S r with
              | err k => rw [h1] at h; cases h
              | panic s => rw [h1] at h; cases h
              | ok fl r1 =>
                rw [h1] at h; simp only [Res.bind] at h
                generalize hv6 : (fl / 4 % 2 == 1) = v6 at h
                have ep : ∀ relay bs e r', pEndpoint relay v6 bs = .ok e r' →
                    (∃ a, e = .direct a ∧ a.v6 = v6) ∨ (∃ a o, e = .agent a o ∧ a.v6 = v6 ∧ o.v6 = v6) := by
                  intro relay bs e r' he
                  unfold pEndpoint at he
                  have sa : ∀ bs a r', pSockAddr v6 bs = .ok a r' → a.v6 = v6 := by
                    intro bs a r' hs
                    unfold pSockAddr at hs
                    cases hp : pBeC 2 bs with
                    | ok p r2 =>
                      rw [hp] at hs; simp only [Res.bind] at hs
                      cases hi : pBeC (if v6 = true then 16 else 4) r2 with
                      | ok i r3 => rw [hi] at hs; simp only at hs; cases hs; rfl
                      | err k => rw [hi] at hs; cases hs
                      | panic s => rw [hi] at hs; cases hs
                    | err k => rw [hp] at hs; cases hs
                    | panic s => rw [hp] at hs; cases hs
                  split at he
                  · cases ha : pSockAddr v6 bs with
                    | ok a r2 =>
                      rw [ha] at he; simp only [Res.bind] at he
                      cases ho : pSockAddr v6 r2 with
                      | ok o r3 =>
                        rw [ho] at he; simp only at he; cases he
                        exact Or.inr ⟨a, o, rfl, sa _ _ _ ha, sa _ _ _ ho⟩
                      | err k => rw [ho] at he; cases he
                      | panic s => rw [ho] at he; cases he
                    | err k => rw [ha] at he; cases he
                    | panic s => rw [ha] at he; cases he
                  · cases ha : pSockAddr v6 bs with
                    | ok a r2 => rw [ha] at he; simp only [Res.map] at he; cases he; exact Or.inl ⟨a, rfl, sa _ _ _ ha⟩
                    | err k => rw [ha] at he; cases he
                    | panic s => rw [ha] at he; cases he
                cases hs : pEndpoint (fl / 2 % 2 == 1) v6 r1 with
                | err k => rw [hs] at h; cases h
                | panic s => rw [hs] at h; cases h
                | ok s' r2 =>
                  rw [hs] at h; simp only at h
                  cases hdst : pEndpoint (fl % 2 == 1) v6 r2 with
                  | err k => rw [hdst] at h; cases h
                  | panic s => rw [hdst] at h; cases h
                  | ok d' r3 =>
                    rw [hdst] at h; simp only at h; cases h
                    have es := ep _ _ _ _ hs
                    have ed := ep _ _ _ _ hdst
                    rcases ed with ⟨a, rfl, _⟩ | ⟨a, o, rfl, ha, ho⟩
                    · exact ⟨0, rfl⟩
                    · rcases es with ⟨b, rfl, _⟩ | ⟨b, c, rfl, hb, hc⟩
                      · simp [forwardEncSize, Endpoint.encSize, ha, ho]
                      · simp [forwardEncSize, Endpoint.encSize, ha, ho, hb, hc]
            · intro h; cases h
      obtain ⟨n, hn⟩ := hfam
      rw [hn]; intro h; cases h

/-- The STUN message parser behind the demultiplexer (`deliver_stun_packet`) never panics: the `split_at(16)` of the
transaction id is guarded (repaired by `fix-C03-stun-short-message`; before it any datagram made of a STUN header
and 2..17 more bytes panicked the receive task). -/
theorem stun_msg_no_panic (body : Bytes) : ∀ site, stunMsg body ≠ .panic site := by
  intro site
  unfold stunMsg
  simp only
  repeat' split
  all_goals first | (intro h; cases h; done) | (simp only [List.length_drop] at *; omega)

example : stunMsg [0x14, 0xf4] = .err .incomplete := by decide

/-- Whatever the demultiplexer hands to the packet reader (the datagram itself or the part behind a forward
header), the deployed `PacketReader::new(_, 8)` loop neither panics nor spins on it. -/
theorem datagram_entry_no_panic (bs : Bytes) :
    (∀ site, demux bs ≠ .panic site) ∧
    (∀ inner, (demux bs = .quic inner ∨ ∃ s d n, demux bs = .forward s d n inner) →
      Clean (PacketReader.all inner deployedDcidLen) ∧ ErrLast (PacketReader.all inner deployedDcidLen)) :=
  ⟨demux_no_panic bs, fun inner _ =>
    ⟨reader_terminates inner _ (by decide), nothing_after_error inner _ (by decide)⟩⟩

/-- The full statement one would want of the forward path: the bytes stripped before the rest is delivered as
a QUIC packet are exactly the forward header that was parsed.  **False of the code**: for a header whose
destination endpoint is `Direct`, `ForwardHeader::encoding_size` answers 0 and the header itself is delivered
as the beginning of a QUIC packet (replayed on the real code by run C03mux, monitor
`misframe:forward:strip!=header`). -/
theorem forward_strips_header_fails :
    ¬ (∀ (bs : Bytes) s d n inner, demux bs = .forward s d n inner → inner = bs.drop n) := by
  intro h
  have := h ([0x60, 0x00] ++ List.replicate 12 1 ++ [0x40, 9, 9]) (.direct ⟨false, 16843009, 257⟩)
    (.direct ⟨false, 16843009, 257⟩) 14 ([0x60, 0x00] ++ List.replicate 12 1 ++ [0x40, 9, 9]) (by decide)
  revert this; decide

/-- … and it holds exactly when the destination endpoint is an `Agent` (the only kind gm-quic's sender writes). -/
theorem forward_strips_header_partial (bs : Bytes) (s : Endpoint) (a o : SockAddr) (n : Nat) (inner : Bytes)
    (h : demux bs = .forward s (.agent a o) n inner) : inner = bs.drop n := by
  unfold demux at h
  cases ht : tHeader bs with
  | err k => rw [ht] at h; cases h
  | panic s' => rw [ht] at h; cases h
  | ok hd rest =>
    rw [ht] at h
    cases hd with
    | stun v => cases h
    | forward flag src dst =>
      simp only at h
      obtain ⟨x, y, hx, hy, hlen⟩ := tHeader_forward bs flag src dst rest ht
      cases hf : forwardEncSize src dst with
      | none => rw [hf] at h; cases h
      | some m =>
        rw [hf] at h
        simp only [Demux.forward.injEq] at h
        obtain ⟨rfl, rfl, rfl, rfl⟩ := h
        unfold forwardEncSize at hf
        simp only [hx, hy, Option.some.injEq] at hf
        congr 1; omega

example : demux ([0x60, 0x01] ++ List.replicate 18 1 ++ [0x40, 9, 9]) =
    .forward (.direct ⟨false, 16843009, 257⟩) (.agent ⟨false, 16843009, 257⟩ ⟨false, 16843009, 257⟩) 20 [0x40, 9, 9] := by
  decide

end GmQuic.Props.C03
