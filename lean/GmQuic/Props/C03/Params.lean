import GmQuic.Lemmas.ParamsDec
/-!
C03, part 3: the peer's transport-parameter blob (`Parameters::<R>::parse_from_bytes`,
`ServerParameters::try_from_remembered_bytes`, `be_preferred_address`) for ALL byte strings and both roles.
-/
namespace GmQuic.Props.C03
open GmQuic.Wire GmQuic.Codec GmQuic.Params GmQuic.ParamsDec GmQuic.PacketDec GmQuic.FrameRd GmQuic.Gen.Params

/-- `be_preferred_address` never panics (slice indexing and `copy_from_slice` are guarded by the `take`s). -/
theorem preferred_address_no_panic (bs : Bytes) : ∀ site, pPreferred bs ≠ .panic site :=
  (pPreferred_good bs bs.length (Nat.le_refl _)).1

/-- **params_no_panic**: parsing a peer's transport-parameter blob never panics and the loop terminates
(the fuel `len + 1` is never exhausted), for every byte string and either sender role — including every
malformed `preferred_address`, connection-ID and reset-token value (DESIGN §7 items 2–4, repaired in /repo). -/
theorem params_no_panic (sender : Role) (blob : Bytes) : ∀ site, parseFromBytes sender blob ≠ .panic site := by
  intro site
  unfold parseFromBytes
  have := loop_np sender (blob.length + 1) blob [] (Nat.lt_succ_self _)
  cases h : parseLoopR sender (blob.length + 1) blob [] with
  | ok m => simp only; split <;> (intro h'; cases h')
  | err w => intro h'; cases h'
  | panic s => exact absurd h (this s)

/-- the same for the remembered-parameters path (`ServerParameters::try_from_remembered_bytes`, which parses
stored bytes of an earlier connection) -/
theorem remembered_params_no_panic (blob : Bytes) : ∀ site, rememberedFromBytes blob ≠ .panic site :=
  loop_np .server (blob.length + 1) blob [] (Nat.lt_succ_self _)

/-- **param_err_is_tp_error**: whatever makes the parse fail, the connection error is
TRANSPORT_PARAMETER_ERROR (`impl From<param::Error> for QuicError`, regenerated from param/error.rs). -/
theorem param_err_is_tp_error (sender : Role) (blob : Bytes) (why : String)
    (_h : parseFromBytes sender blob = .err why) : errKind why = "TransportParameter" := by
  rfl

example : parseFromBytes .client [0x0f, 0x01, 0xaa, 0x0c, 0x01, 0x00] = .err "IncompleteValue" := by decide
example : parseFromBytes .server [0x0f, 0x01, 0xaa, 0x00, 0x15] = .err "IncompleteParameterId" := by decide
example : parseFromBytes .client [0x0f, 0x01, 0xaa] = .ok [(15, .cid [0xaa])] := by decide

end GmQuic.Props.C03
