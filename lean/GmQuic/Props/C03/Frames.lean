import GmQuic.Lemmas.FrameLoop
/-!
C03, part 2: a decrypted packet payload → frames (`be_frame`, `FrameReader`, the `read_plain_packet` loop, the
frame dispatchers).  For ALL byte strings and every packet type.
-/
namespace GmQuic.Props.C03
open GmQuic.Wire GmQuic.Codec GmQuic.FrameRd GmQuic.PacketDec GmQuic.Gen GmQuic.Gen.C03

/-- `be_frame` never panics: none of the 40 frame-type arms of `complete_frame` (slice / `raw.slice(..)` /
`&input[len..]` sites included, which the model guards exactly as the Rust does) can panic. -/
theorem frame_no_panic (bs : Bytes) (t : PktType) : ∀ site, decFrame t bs ≠ .panic site :=
  fun site => decFrame_np t bs site

/-- **DESIGN Appendix A**: a successfully decoded frame consumes at least one byte — the `FrameReader` loop
cannot spin.  (`beFrame bs t = .ok (f, rest)` of the appendix is `decFrame t bs = .ok f rest` here.) -/
theorem frame_step_consumes (bs : Bytes) (t : PktType) (f : Frame) (rest : Bytes) :
    decFrame t bs = .ok f rest → rest.length < bs.length :=
  decFrame_lt t bs f rest

example : decFrame .initial [0x00, 0x01] = .ok .padding [0x01] := by decide

/-- the iterator: never panics; an `Ok` step advances the payload by at least one byte -/
theorem frame_reader_step (bs : Bytes) (t : PktType) :
    (∀ site, FrameReader.next t bs ≠ .panic site) ∧
    (∀ f rest, FrameReader.next t bs = .frame f rest → rest.length < bs.length) :=
  next_step bs t

/-- After an error `FrameReader` does NOT advance (`FrStep.err` carries no new buffer: unlike `PacketReader` the
reader keeps its payload), so asking again yields the same error for ever — witness: a non-empty payload that
errs.  A caller must stop at the first error, as `read_plain_packet` does with `?`; a
`for f in reader.flatten()` would spin. -/
theorem frame_reader_error_is_sticky :
    ∃ (bs : Bytes) (t : PktType) (k : ErrKind), bs ≠ [] ∧ FrameReader.next t bs = .err k :=
  ⟨[0x1e], .initial, .wrongType, by decide, by decide⟩

/-- The whole payload as `read_plain_packet` decodes it: no panic and it terminates within `len + 1` reader
calls, for every byte string and packet type. -/
theorem payload_no_panic_terminates (bs : Bytes) (t : PktType) :
    (∀ s, readPlain t bs ≠ .panic s) ∧ readPlain t bs ≠ .outOfFuel := by
  unfold readPlain
  split
  · exact ⟨fun s h => (by cases h), fun h => (by cases h)⟩
  · have := run_ok t (bs.length + 1) bs [] (Nat.lt_succ_self _)
    exact ⟨this.1, this.2.1⟩

example : readPlain .oneRtt [0x01, 0x00, 0x1e, 0x40] = .err [.ping, .padding, .handshakeDone] .incompleteType := by decide

/-! ### the prescribed connection error (RFC 9000 §12.4) against the generated table T3 -/

/-- RFC 9000 §12.4: a frame in a packet type that does not permit it, and a packet without frames, are
PROTOCOL_VIOLATION; an unknown frame type or a malformed frame is FRAME_ENCODING_ERROR. -/
def prescribed : FErr → String
  | .noFrames | .wrongType => "ProtocolViolation"
  | .incompleteType | .invalidType | .incompleteFrame | .parseError => "FrameEncoding"

/-- The full statement: every decoding error of a payload is reported as the connection error the protocol
prescribes (`impl From<frame::Error> for QuicError`, regenerated from frame/error.rs on every run).
**False of the code**: `WrongType` is mapped to FRAME_ENCODING_ERROR (known finding
`errkind:WrongType:FrameEncoding`; the repo's own unit test asserts that mapping, so it is not repaired). -/
theorem frame_err_kind_prescribed_fails : ¬ (∀ e : FErr, frameErrKind e = prescribed e) := by
  intro h; exact absurd (h .wrongType) (by decide)

/-- … and it holds for every error class except that one. -/
theorem frame_err_kind_prescribed_partial (e : FErr) (h : e ≠ .wrongType) : frameErrKind e = prescribed e := by
  cases e <;> first | rfl | exact absurd rfl h

example : (FErr.invalidType) ≠ .wrongType := by decide

/-- A malformed frame / unknown type is FRAME_ENCODING_ERROR. -/
theorem frame_err_is_frame_encoding (bs : Bytes) (t : PktType) (k : ErrKind) (h : decFrame t bs = .err k) :
    k ≠ .wrongType → ∃ e, ferrOf k = some e ∧ frameErrKind e = "FrameEncoding" ∧ prescribed e = "FrameEncoding" := by
  intro hk
  obtain ⟨e, he, _⟩ := decFrame_err t bs k h
  refine ⟨e, he, ?_⟩
  cases k <;> simp [ferrOf] at he hk ⊢ <;> subst he <;> exact ⟨rfl, rfl⟩

example : decFrame .oneRtt [0x40, 0x21] = .err (.invalidType 33) := by decide

/-- The full statement for a frame in a packet type that does not admit it: PROTOCOL_VIOLATION (RFC 9000 §12.4).
**False of the code**, witness: NEW_TOKEN (type 0x07) in an Initial packet. -/
theorem wrong_packet_type_is_protocol_violation_fails :
    ¬ (∀ (bs : Bytes) (t : PktType), decFrame t bs = .err .wrongType → frameErrKind .wrongType = "ProtocolViolation") := by
  intro h; exact absurd (h [0x07] .initial (by decide)) (by decide)

/-- What does hold: such a frame is refused — the loop of `read_plain_packet` stops there with `WrongType`, nothing of
it reaches a dispatcher — and the connection error raised is FRAME_ENCODING_ERROR (any other kind, or a later repair
to PROTOCOL_VIOLATION, makes this theorem or `…_fails` stop checking). -/
theorem wrong_packet_type_is_protocol_violation_partial (bs : Bytes) (t : PktType)
    (h : decFrame t bs = .err .wrongType) :
    FrameReader.next t bs = .err .wrongType ∧ ferrOf .wrongType = some .wrongType ∧
    frameErrKind .wrongType = "FrameEncoding" := by
  refine ⟨?_, rfl, rfl⟩
  unfold FrameReader.next
  have hne : bs.isEmpty = false := by
    cases bs with
    | nil => simp [decFrame, decType, GmQuic.Wire.decVarint, Res.bind] at h
    | cons _ _ => rfl
  rw [hne]; simp only [Bool.false_eq_true, if_false]; rw [h]

example : decFrame .initial [0x07] = .err .wrongType := by decide   -- NEW_TOKEN in an Initial packet
example : decFrame .handshake [0x08, 0x00] = .err .wrongType := by decide   -- STREAM in a Handshake packet

/-- … and so is `NoFrames`, whenever it is raised. -/
theorem noframes_is_protocol_violation : frameErrKind .noFrames = "ProtocolViolation" := by rfl

/-- **RFC 9000 §12.4, no frames**: `read_plain_packet` refuses an empty payload with `Error::NoFrames`, which is a
PROTOCOL_VIOLATION (fix-C03-no-frames; `readPlainRejectsEmpty` is read from the source on every run: on a tree whose
`read_plain_packet` does not raise `Error::NoFrames` it is `false` and this proof fails).  Before the fix the packet
was accepted with zero frames (known finding `noframes:accepted`, kept as the `example` below). -/
theorem empty_payload_rejected (t : PktType) :
    readPlain t [] = .err [] .noFrames ∧ frameErrKind .noFrames = "ProtocolViolation" := by
  have h : readPlainRejectsEmpty = true := by decide
  exact ⟨by simp [readPlain, h], rfl⟩

/-- what the bare frame loop does on an empty payload (= the unfixed function): accepts, no frames -/
example : readPlainRun 1 .oneRtt [] [] = .ok [] := by decide

/-- … hence **every accepted packet contains at least one frame**. -/
theorem accepted_packet_has_a_frame (t : PktType) (bs : Bytes) (fs : List Frame) (h : readPlain t bs = .ok fs) :
    fs ≠ [] := by
  have hflag : readPlainRejectsEmpty = true := by decide
  unfold readPlain at h
  cases bs with
  | nil => simp [hflag] at h
  | cons b bs =>
    simp only [List.isEmpty_cons, Bool.false_and, Bool.false_eq_true, if_false] at h
    unfold readPlainRun at h
    cases hn : FrameReader.next t (b :: bs) with
    | eof => simp [FrameReader.next] at hn; split at hn <;> (try split at hn) <;> cases hn
    | panic s => rw [hn] at h; cases h
    | frame f rest =>
      rw [hn] at h
      have := run_ok_len t _ rest [f] fs h
      intro e; subst e; simp at this
    | err k =>
      rw [hn] at h
      cases hk : ferrOf k <;> simp [hk] at h

example : readPlain .oneRtt [0x01] = .ok [.ping] := by decide   -- a PING-only packet is accepted
example : readPlain .oneRtt [0x00, 0x00] = .ok [.padding, .padding] := by decide   -- PADDING frames are frames

/-- `NoFrames` is never produced by decoding a non-empty payload. -/
theorem noframes_only_for_empty (bs : Bytes) (t : PktType) (fr : List Frame) (h : readPlain t bs = .err fr .noFrames) :
    bs = [] := by
  unfold readPlain at h
  split at h
  · rename_i hc
    simp only [Bool.and_eq_true, List.isEmpty_iff] at hc
    exact hc.1
  · exact absurd rfl ((run_ok t (bs.length + 1) bs [] (Nat.lt_succ_self _)).2.2 fr _ h)

/-! ### dispatch -/

theorem allFrameTypes_complete (t : FrameType) : t ∈ allFrameTypes := by
  cases t <;> (try rename_i a; cases a) <;> (try rename_i b; cases b) <;> (try rename_i c; cases c) <;> decide

/-- **dispatch_total**: every frame type `belongs_to` admits in a packet type is handled by the dispatcher of
that packet's space — the `unreachable!()` that ends the Initial and Handshake dispatchers is unreachable —
whatever cargo features are enabled. -/
theorem dispatch_total (t : FrameType) (pt : PktType) (feat : String → Bool) (h : belongsTo t pt = true) :
    handle pt feat t ≠ .unreachable := by
  have key : ∀ d : Bool, (allFrameTypes.all fun t => allPktTypes.all fun pt =>
      !belongsTo t pt || handle pt (fun _ => d) t != .unreachable) = true := by
    intro d; cases d <;> decide
  -- only the feature `datagram` occurs, and only in the data space whose fall-through is `{}`
  have indep : ∀ pt t, handle pt feat t = .unreachable → handle pt (fun _ => true) t = .unreachable := by
    intro pt t
    cases pt <;> simp only [handle, spaceOf] <;> (try (intro h; exact h))
    all_goals (unfold dispatch; simp only [dataFallUnreachable]; split <;> (try split) <;> intro h <;> cases h)
  intro hu
  have h1 := indep pt t hu
  have h2 := key true
  rw [List.all_eq_true] at h2
  have h3 := h2 t (allFrameTypes_complete t)
  rw [List.all_eq_true] at h3
  have h4 := h3 pt (by cases pt <;> decide)
  simp [h, h1] at h4

/-- What the data-space dispatcher silently ignores although `belongs_to` admits it: PADDING and PING (no
action needed), CONNECTION_CLOSE in a 0-RTT packet (the guard admits it only in 1-RTT), DATAGRAM when the
cargo feature is off.  Everything else is processed. -/
theorem dispatch_ignored_exactly (d : Bool) :
    (allFrameTypes.all fun t => allPktTypes.all fun pt =>
      !belongsTo t pt || (pt == .retry || pt == .versionNegotiation) ||
      ((handle pt (fun _ => d) t == .ignore) ==
        (fvarOf t == .padding || fvarOf t == .ping || (fvarOf t == .close && pt == .zeroRtt) ||
         (fvarOf t == .datagram && !d)))) = true := by
  cases d <;> decide

end GmQuic.Props.C03
