import GmQuic.Lemmas.JsonEnvelope
import GmQuic.Lemmas.Span
import GmQuic.Lemmas.JsonFine
import GmQuic.Gen.QSpans
/-!
# C20 — event logging is well-formed and purely observational (the proved part)

* `de_ser_roundtrip`: for EVERY schema of the serde-derive model and every value of its type, `de (ser v) = v`
  provided the schema is well formed (`wf`, decidable) — "parses back to an equal event";
* `qevent_schemas_wf`: `wf` of the schema GENERATED from the current qevent source for EVERY covered derived type, hence
  `qevent_roundtrip` / `event_roundtrip` at full strength;
* `qevent_untagged_unambiguous_except_known`: no `#[serde(untagged)]` alternative can accept what a later one writes, except
  in the six listed enum nodes (there the round trip holds for canonical values only — `hasType` says which);
* `envelope_has_mandatory_fields`: every serialised `Event` is an object with `time` (number), `name` (string),
  `data` (object);
* `emit_no_panic_iff_context`, `emit_without_context_never_panics`, `emit_never_panics_under_repo_spans`,
  `event_sites_custom_fields_not_reserved`: the `event!` expansion and the generated call-site tables.
* `new_trace_never_panics_in_caller`, `emit_never_panics_under_repo_spans_and_failing_storage`: failing storages of the
  repo's own loggers (shape extracted from handy.rs) never surface in the code that logs.
Observational purity (same behaviour with logging on / off / filtered) is NOT a theorem; see docs/C20.md.
-/
namespace GmQuic.Props.C20
open GmQuic.Model.Json GmQuic.Model.Span GmQuic.Gen.QEvent GmQuic.Gen.QSpans

/-! ## generic round trip -/

theorem de_ser_roundtrip (s : Schema) (v : Val) (hw : wf s = true) (ht : hasType s v = true) :
    de s (ser s v) = some v := de_ser s v hw ht

-- non-vacuity: a well-formed schema with flatten / adjacent tag / rest map and a typed value with custom fields
example : wf (.struct (.cons "time" .req .flt (.cons "data" .flat (.adjacent "name" "data" (.cons "a:b" .req (.struct (.cons "x" .opt .str .nil) false) .nil))
    (.cons "path" .opt .str .nil))) true) = true := by decide
example : hasType (.struct (.cons "time" .req .flt (.cons "data" .flat (.adjacent "name" "data" (.cons "a:b" .req (.struct (.cons "x" .opt .str .nil) false) .nil))
    (.cons "path" .opt .str .nil))) true) (.rcd [.flt "1.5", .var 0 (.rcd [.none] []), .some (.str "p")] [("custom", .int 3)]) = true := by decide

/-- `skip_serializing_if` without `default`: the well-formedness hypothesis of `de_ser_roundtrip` cannot be dropped.
Witness = the schema of `qevent::quic::transport::PacketsAcked` as it stands in the unfixed tree, with an empty
`packet_nubers`: it is written as `{}` and read back as `missing field`. -/
theorem roundtrip_skip_without_default_fails :
    ¬ (∀ (s : Schema) (v : Val), hasType s v = true → de s (ser s v) = some v) := by
  intro h
  have := h (.struct (.cons "packet_number_space" .opt (.unitEnum ["initial", "handshake", "application_data"])
              (.cons "packet_nubers" (.skipEmpty false) (.seq (.int 0 18446744073709551615) none) .nil)) false)
            (.rcd [.none, .list []] []) (by decide)
  simp [ser, de, serFields, deFields, lookup, isEmptyVal, keys] at this

/-- `#[serde(untagged)]` with overlapping alternatives: the canonicity condition inside `hasType` cannot be dropped.
Witness = `ConnectionCloseErrorCode`: `ApplicationError("no_error")` is written as `"no_error"` and read back as
`TransportError(NoError)`. -/
theorem roundtrip_untagged_ambiguous_fails :
    ¬ (∀ (alts : Fields) (i : Nat) (x : Val), wfAlts alts = true → typedAlt alts i x = true →
        de (.untagged alts) (ser (.untagged alts) (.var i x)) = some (.var i x)) := by
  intro h
  have := h (.cons "TransportError" .req (.unitEnum ["no_error", "internal_error"]) (.cons "ApplicationError" .req .str .nil))
            1 (.str "no_error") (by decide) (by decide)
  simp [ser, de, serAlt, deUntagged, nameIdx] at this

/-- where the alternatives of an untagged enum have pairwise disjoint JSON shapes, every typed value is canonical -/
theorem untagged_canonical_of_disjoint (alts : Fields) (i : Nat) (x : Val) (hd : wfDisjoint alts = true)
    (ht : typedAlt alts i x = true) : earlierReject alts i (serAlt alts i x) = true :=
  earlierReject_of_disjoint alts i x hd ht

example : wfDisjoint (.cons "ApplicationError" .req .str (.cons "Value" .req (.int 0 4294967295) .nil)) = true := by decide

/-! ## the schemas generated from qevent/src/** -/

/-- EVERY covered derived type of qevent has a well-formed schema (no key collision incl. through flatten, every
`skip_serializing_if` paired with `default`, `Option` never around a nullable type, tags distinct from field names …).
Regenerated from the source on every run: re-introducing e.g. `skip_serializing_if` without `default` makes this false. -/
theorem qevent_schemas_wf : (covered.all fun p => wf p.2) = true := by decide +kernel

/-- The only `#[serde(untagged)]` nodes in which an earlier alternative can accept what a later one writes — identified by
`untaggedKey` = alternative names ++ unit-variant names of the first alternative — are the confirmed findings
`roundtrip:untagged-ambiguous:*`: TimeClockType, TimeEpoch, ConnectionState, ConnectionCloseErrorCode (quic and legacy),
legacy StreamDataLocation.  For every other untagged enum of the table (ApplicationCode, ConnectionCode, StreamState,
ConnectionCloseTriggerFrameType, Traces, …) every value is canonical. -/
def knownAmbiguousEnums : List (List String) :=
  [["", "Custom", "system", "monotaonic"],
   ["", "RFC3339DateTime", "Unknow"],
   ["Base", "Granular", "attempted", "handshake_started", "handshake_complete", "closed"],
   ["TransportError", "CryptoError", "ApplicationError", "Value", "no_error", "internal_error", "connection_refused",
    "flow_control_error", "stream_limit_error", "stream_state_error", "final_size_error", "frame_encoding_error",
    "transport_parameter_error", "connection_id_limit_error", "protocol_violation", "invalid_token", "application_error",
    "crypto_buffer_exceeded", "key_update_error", "aead_limit_reached", "no_viable_path"],
   ["TransportError", "ApplicationError", "Value", "NoError", "InternalError", "ConnectionRefused", "FlowControlError",
    "StreamLimitError", "StreamStateError", "FinalSizeError", "FrameEncodingError", "TransportParameterError",
    "ConnectionIdLimitError", "ProtocolViolation", "InvalidToken", "ApplicationError", "CryptoBufferExceeded",
    "KeyUpdateError", "AeadLimitReached", "NoViablePath"],
   ["", "Other", "user", "application", "transport", "network"]]

theorem qevent_untagged_unambiguous_except_known :
    (covered.all fun p => fineEx knownAmbiguousEnums p.2) = true := by decide +kernel

/-- every covered qevent type round-trips: all values of the type (`hasType`: in range, custom keys not reserved, canonical on
the ambiguous untagged enums, validation of `ReferenceTime` satisfied) -/
theorem qevent_roundtrip (name : String) (s : Schema) (hc : (name, s) ∈ covered)
    (v : Val) (ht : hasType s v = true) : de s (ser s v) = some v := by
  have h := qevent_schemas_wf
  rw [List.all_eq_true] at h
  exact de_ser s v (h (name, s) hc) ht

/-- in particular every event envelope, whatever the payload -/
theorem event_roundtrip (v : Val) (ht : hasType eventSchema v = true) :
    de eventSchema (ser eventSchema v) = some v :=
  de_ser eventSchema v (by decide +kernel) ht

example : hasType eventSchema (.rcd [.flt "1.5", .var 0 (.rcd [.some (.str "127.0.0.1"), .none, .some (.int 443), .none, .none] []),
    .some (.str "p"), .none, .none, .some (.str "abcd"), .none] [("foo", .int 1)]) = true := by decide +kernel

/-! ## envelope -/

theorem obj_of_shape (s : Schema) (v : Val) (ht : hasType s v = true) (hs : shape s = [6]) : ∃ kvs, ser s v = .obj kvs := by
  have := ser_kind s v ht
  rw [hs] at this
  cases h : ser s v <;> simp_all [kindOf]

theorem envelope_has_mandatory_fields (v : Val) (ht : hasType eventSchema v = true) :
    ∃ kvs t n d, ser eventSchema v = .obj kvs ∧ ("time", t) ∈ kvs ∧ (kindOf t = 2 ∨ kindOf t = 3) ∧
      ("name", n) ∈ kvs ∧ kindOf n = 4 ∧ ("data", d) ∈ kvs ∧ kindOf d = 6 := by
  obtain ⟨kvs, hk⟩ := obj_of_shape eventSchema v ht (by decide +kernel)
  have h1 : ("time", [2, 3]) ∈ mandatoryK eventSchema := by decide +kernel
  have h2 : ("name", [4]) ∈ mandatoryK eventSchema := by decide +kernel
  have h3 : ((mandatoryK eventSchema).any fun p => p.1 == "data" && p.2.all (· == 6)) = true := by decide +kernel
  obtain ⟨t, ht1, ht2⟩ := mandatoryK_sound eventSchema v ht _ h1
  obtain ⟨n, hn1, hn2⟩ := mandatoryK_sound eventSchema v ht _ h2
  rw [List.any_eq_true] at h3
  obtain ⟨p, hp, hp2⟩ := h3
  simp only [Bool.and_eq_true, beq_iff_eq, List.all_eq_true] at hp2
  obtain ⟨d, hd1, hd2⟩ := mandatoryK_sound eventSchema v ht p hp
  rw [hk] at ht1 hn1 hd1
  simp only [objKvs] at ht1 hn1 hd1
  refine ⟨kvs, t, n, d, hk, ht1, ?_, hn1, ?_, ?_, ?_⟩
  · simpa using ht2
  · simpa using hn2
  · rw [← hp2.1]; exact hd1
  · exact hp2.2 _ hd2

/-! ## the `event!` expansion and its call sites -/

/-- `event!` panics exactly when a known field that IS present in the ambient span does not deserialise as its type;
a field that is absent never makes it panic. -/
theorem emit_no_panic_iff_context (m : SFields) (time : String) (i : Nat) (data : Val) (custom : Kvs) (a b c : String × Schema) :
    (∃ ev, emit [a, b, c] true m time i data custom = .emitted ev) ↔ contextWellTyped [a, b, c] m := by
  unfold emit
  simp only [Bool.not_true, Bool.false_eq_true, if_false]
  cases h : loadKnown m [a, b, c] with
  | panic =>
      have := (loadKnown_panic_iff m [a, b, c]).mp h
      simp [this]
  | ok rs =>
      have hl := loadKnown_length m [a, b, c] rs h
      have hn : ¬ (loadKnown m [a, b, c] = .panic) := by simp [h]
      have hc : contextWellTyped [a, b, c] m := by
        by_cases hc : contextWellTyped [a, b, c] m
        · exact hc
        · exact absurd ((loadKnown_panic_iff m [a, b, c]).mpr hc) hn
      match rs, hl with
      | [p, pt, g], _ => simp [hc]

example : knownLoads.length = 3 := by decide

theorem emit_filtered (ks : List (String × Schema)) (m : SFields) (time : String) (i : Nat) (data : Val) (custom : Kvs) :
    emit ks false m time i data custom = .filtered := by simp [emit]

/-- lack of context: under a span that has none of the known fields the event is emitted, never a panic -/
theorem emit_without_context_never_panics (m : SFields) (hm : ∀ p ∈ knownLoads, lookup p.1 m = none)
    (time : String) (i : Nat) (data : Val) (custom : Kvs) :
    ∃ ev, emit knownLoads true m time i data custom = .emitted ev := by
  have h : contextWellTyped knownLoads m := by
    intro p hp j hj; rw [hm p hp] at hj; cases hj
  exact (emit_no_panic_iff_context m time i data custom _ _ _).mpr h

/-- a span site of the generated table only adds string-valued fields, and only to known fields that accept any string -/
def siteOk (site : String × String × List (String × String)) : Bool :=
  site.2.2.all fun f => f.2 == "s" &&
    (match knownLoads.find? (fun p => p.1 == f.1) with
      | none => true
      | some p => (match p.2 with | .str => true | _ => false))

/-- every `span!` site of the repo is inside the translated fragment (its field values are syntactically strings) -/
theorem span_sites_all_covered : spanSitesUncovered.isEmpty = true := by decide

theorem span_sites_ok : (spanSites.all siteOk) = true := by decide +kernel

/-- the known loads have pairwise different names (so `find?` is the lookup the macro performs) -/
theorem known_names_nodup : (knownLoads.map (·.1)).Nodup := by decide +kernel

/-- invariant: every known field present in the map is well typed -/
theorem enter_preserves (m : SFields) (adds : List (String × Json)) (hm : contextWellTyped knownLoads m)
    (ha : ∀ a ∈ adds, ∀ p ∈ knownLoads, p.1 = a.1 → (de p.2 a.2).isSome = true) :
    contextWellTyped knownLoads (enter m adds) := by
  unfold enter
  induction adds generalizing m with
  | nil => simpa using hm
  | cons a tl ih =>
      simp only [List.foldl_cons]
      apply ih
      · intro p hp j hj
        rw [lookup_insert] at hj
        by_cases he : a.1 = p.1
        · simp [he] at hj; subst hj; exact ha a (by simp) p hp he.symm
        · simp [he] at hj; exact hm p hp j hj
      · intro x hx; exact ha x (by simp [hx])

/-- Every nesting of the repo's `span!` sites (any string values) gives a context under which `event!` never panics. -/
theorem emit_never_panics_under_repo_spans
    (stack : List ((String × String × List (String × String)) × (String → String)))
    (hs : ∀ e ∈ stack, e.1 ∈ spanSites)
    (time : String) (i : Nat) (data : Val) (custom : Kvs) :
    ∃ ev, emit knownLoads true
      (stack.foldl (fun m e => enter m (e.1.2.2.map fun f => (f.1, Json.str (e.2 f.1)))) []) time i data custom = .emitted ev := by
  apply (emit_no_panic_iff_context _ time i data custom _ _ _).mpr
  have hall := span_sites_ok
  rw [List.all_eq_true] at hall
  have key : ∀ (st : List ((String × String × List (String × String)) × (String → String))) (m : SFields),
      (∀ e ∈ st, e.1 ∈ spanSites) → contextWellTyped knownLoads m →
      contextWellTyped knownLoads (st.foldl (fun m e => enter m (e.1.2.2.map fun f => (f.1, Json.str (e.2 f.1)))) m) := by
    intro st
    induction st with
    | nil => intro m _ hm; simpa using hm
    | cons e tl ih =>
        intro m he hm
        simp only [List.foldl_cons]
        apply ih _ (fun x hx => he x (by simp [hx]))
        apply enter_preserves m _ hm
        intro a ha p hp hpa
        simp only [List.mem_map] at ha
        obtain ⟨f, hf, rfl⟩ := ha
        have hsite := hall e.1 (he e (by simp))
        simp only [siteOk, List.all_eq_true, Bool.and_eq_true] at hsite
        have hf2 := (hsite f hf).2
        -- `p` is the entry `find?` returns for `f.1`
        have hfind : knownLoads.find? (fun q => q.1 == f.1) = some p := by
          have hp' := hp
          simp only [knownLoads, List.mem_cons, List.mem_nil_iff, or_false] at hp'
          simp only [] at hpa
          rcases hp' with rfl | rfl | rfl <;> simp [knownLoads, List.find?] at hpa ⊢ <;> simp [← hpa]
        rw [hfind] at hf2
        cases hp2 : p.2 <;> simp [hp2] at hf2
        simp [de]
  exact key stack [] hs (by intro p _ j hj; simp [lookup] at hj)

/-! ### failing storages -/

/-- the shape of the repo's sequential logger over a storage `T`, as extracted from qevent/src/telemetry/handy.rs -/
def repoLoggerShape (eager : Bool) : LoggerShape :=
  { joinEager := eager, awaitsInTask := seqLoggerAwaitsInTask, callerFallible := seqLoggerCallerFallible,
    sendErrorIgnored := senderEmitIgnoresClosedChannel }

/-- Whatever the storage does (file cannot be created, write / flush errors), `new_trace` of the repo's logger over ANY
of the repo's storages never panics in its caller: the failure stays in the writer task. -/
theorem new_trace_never_panics_in_caller (p : String × Bool) (hp : p ∈ storageJoinEager) (st : StorageResult) :
    (newTrace (repoLoggerShape p.2) st).callerPanics = false := by
  have h : (storageJoinEager.all fun p => [StorageResult.ok, .openFails, .writeFails, .flushFails].all fun st =>
      !(newTrace (repoLoggerShape p.2) st).callerPanics) = true := by decide +kernel
  rw [List.all_eq_true] at h
  have h' := h p hp
  simp only [List.all_cons, List.all_nil, Bool.and_true, Bool.and_eq_true, Bool.not_eq_true'] at h'
  cases st
  · exact h'.1
  · exact h'.2.1
  · exact h'.2.2.1
  · exact h'.2.2.2

/-- … and `event!` under any nesting of the repo's `span!` sites below such a trace emits exactly the event it emits with a
working storage: storage failure is invisible to the code that logs (`emit_never_panics_under_repo_spans` extended to
failing storages). -/
theorem emit_never_panics_under_repo_spans_and_failing_storage
    (p : String × Bool) (hp : p ∈ storageJoinEager) (st : StorageResult)
    (stack : List ((String × String × List (String × String)) × (String → String)))
    (hs : ∀ e ∈ stack, e.1 ∈ spanSites)
    (time : String) (i : Nat) (data : Val) (custom : Kvs) :
    ∃ ev, emitLogged (repoLoggerShape p.2) st knownLoads
        (stack.foldl (fun m e => enter m (e.1.2.2.map fun f => (f.1, Json.str (e.2 f.1)))) []) time i data custom = .emitted ev ∧
      emitLogged (repoLoggerShape p.2) .ok knownLoads
        (stack.foldl (fun m e => enter m (e.1.2.2.map fun f => (f.1, Json.str (e.2 f.1)))) []) time i data custom = .emitted ev := by
  obtain ⟨ev, hev⟩ := emit_never_panics_under_repo_spans stack hs time i data custom
  have h1 := new_trace_never_panics_in_caller p hp st
  have h2 := new_trace_never_panics_in_caller p hp .ok
  have h3 : senderEmitIgnoresClosedChannel = true := by decide
  have h4 : (repoLoggerShape p.2).sendErrorIgnored = true := h3
  refine ⟨ev, ?_, ?_⟩
  · simp only [emitLogged, h1, h4]; simpa using hev
  · simp only [emitLogged, h2, h4]; simpa using hev

/-- the hypothesis is needed: a storage whose `join` does its fallible work eagerly panics in the caller -/
theorem eager_storage_panics_in_caller :
    (newTrace { joinEager := true, awaitsInTask := true, callerFallible := false, sendErrorIgnored := true } .openFails).callerPanics = true := by
  decide

/-- the unchanged code does lose the trace by a panic CONTAINED in the writer task when the file cannot be created
(finding `logger-task-panic:qevent/src/telemetry/handy.rs`) -/
theorem open_failure_panics_inside_writer_task :
    (storageJoinEager.all fun p => (newTrace (repoLoggerShape p.2) .openFails).writer == .panicked) = true := by decide +kernel

/-- names the `Event` struct itself writes at the top level of the JSON object -/
def reservedNames : List String := match eventSchema with | .struct fs _ => allNames fs | _ => []

/-- no `event!` site passes a custom field whose name collides with a field of the envelope -/
theorem event_sites_custom_fields_not_reserved :
    (eventSites.all fun s => s.2.2.all fun c => !reservedNames.contains c) = true := by decide +kernel

example : reservedNames = ["time", "name", "data", "path", "time_format", "protocol_types", "group_id", "system_info"] := by decide +kernel

end GmQuic.Props.C20
