import GmQuic.Lemmas.Flow
import GmQuic.Lemmas.FlowStream
import GmQuic.Lemmas.FlowRcvr
import GmQuic.Lemmas.FlowRecverObs
import GmQuic.Lemmas.FlowSender
import GmQuic.Lemmas.FlowRevise
/-!
C11 — flow-control limits are never exceeded and violations are detected.
Property theorems only (helper lemmas: `GmQuic/Lemmas/Flow*.lean`).

Part 1: connection-level controllers (`qbase/src/flow.rs`), model `GmQuic/Model/Flow.lean`,
tied to the real `ArcSendControler` / `ArcRecvController` by the exact run `C11c`.
-/
namespace GmQuic.Flow

/-! ## Part 1 — connection level -/

/-- DESIGN Appendix A statement (with the two guards the `Result`/`Mutex` wrappers force: once
`on_error` replaced the controller by `Err`, or a panic poisoned the lock, there is no `sent_data`
left to speak about).  FALSE of the unchanged code: `revise_max_data(true, m)` (0-RTT rejected)
installs the server's real `initial_max_data` but keeps `sent_data`, so the limit can end up below
what was already charged. -/
def ConnLimitRespected (m0 : Nat) (ops : List SendOp) : Prop :=
  let s := SendCtl.run m0 ops
  s.freshTotal ≤ s.max ∧
    (s.openCredits = 0 → s.dead = false → s.poisoned = false → s.sent = s.freshTotal)

theorem conn_limit_respected_fails : ¬ ∀ m0 ops, ConnLimitRespected m0 ops := by
  intro h
  have := (h 1000 [.credit 800, .post 0 800, .drop 0, .revise true 500]).1
  revert this; decide

/-- … and what the code does with that state after fix-C11-avaliable-saturating: `avaliable()` saturates,
so the next `credit` hands out nothing (and reports DATA_BLOCKED once) until MAX_DATA has caught up with what
was already charged.  Before the fix it evaluated `max_data - sent_data` = 500 − 800 unchecked: panic with the
lock held in the dev profile, wrap-around = no limit at all in release (the former `no_panic_fails`). -/
example : let s := SendCtl.run 1000 [.credit 800, .post 0 800, .drop 0, .revise true 500]
    (s.step (.credit 1)).2 = .credit 0 (some 500) ∧ (s.step (.credit 1)).1.poisoned = false ∧
    ((s.step (.maxdata 900)).1.step (.credit 200)).2 = .credit 100 (some 900) := by decide

/-- Σ fresh bytes ≤ the limit in force, for EVERY history without a 0-RTT rejection: any number
of `Credit` guards alive at once, any interleaving of `credit`/`post_sent`/drop/MAX_DATA/
`revise_max_data(false,_)`/`on_error`, any quotas (also `post_sent` beyond the credit, which
panics without changing anything). -/
theorem conn_limit_respected_partial (m0 : Nat) (ops : List SendOp)
    (h : ∀ op ∈ ops, op.NoReject) : ConnLimitRespected m0 ops := by
  have ha := SendCtl.acct_foldl ops (SendCtl.init m0) (SendCtl.acct_init m0)
  have hb := SendCtl.bound_foldl ops (SendCtl.init m0) h (by simp [SendCtl.init])
  unfold ConnLimitRespected SendCtl.run
  constructor
  · have := ha.le; have := hb.1; omega
  · intro ho hd hp
    have := ha.eq hd hp
    have hc : (ops.foldl (fun s op => (s.step op).1) (SendCtl.init m0)).credits = [] := by
      simpa [SendCtl.openCredits] using ho
    rw [hc] at this; simpa using this

example : ∃ s, s = SendCtl.run 100 [.credit 200, .post 0 60, .credit 10, .maxdata 150, .drop 0,
      .credit 500, .post 0 0, .post 1 90, .drop 0, .drop 0] ∧
    s.freshTotal = 150 ∧ s.sent = 150 ∧ s.max = 150 ∧ s.openCredits = 0 ∧ s.blocked = [100, 150] :=
  ⟨_, rfl, by decide⟩

/-- Unused credit is returned, each byte is charged exactly once — for EVERY history, 0-RTT
rejection included: whenever no `Credit` is outstanding, `sent_data` is exactly the number of
bytes that were reported fresh through `post_sent`. -/
theorem credit_returned (m0 : Nat) (ops : List SendOp) :
    let s := SendCtl.run m0 ops
    s.openCredits = 0 → s.dead = false → s.poisoned = false → s.sent = s.freshTotal := by
  intro s ho hd hp
  have ha := SendCtl.acct_foldl ops (SendCtl.init m0) (SendCtl.acct_init m0)
  have := ha.eq hd hp
  have hc : s.credits = [] := by simpa [SendCtl.openCredits] using ho
  show s.sent = s.freshTotal
  have e : s = ops.foldl (fun s op => (s.step op).1) (SendCtl.init m0) := rfl
  rw [← e, hc] at this; simpa using this

/-- While credits are outstanding, `sent_data` over-approximates: it is the fresh bytes plus all
unreturned credit (so concurrent packet assemblers can never jointly exceed the limit). -/
theorem credit_accounting (m0 : Nat) (ops : List SendOp) :
    let s := SendCtl.run m0 ops
    s.freshTotal + s.credits.sum ≤ s.sent :=
  (SendCtl.acct_foldl ops (SendCtl.init m0) (SendCtl.acct_init m0)).le

/-- Reporting a retransmission (`post_sent(0)`) charges nothing. -/
theorem retransmit_free_conn (s : SendCtl) (k : Nat) :
    (s.step (.post k 0)).1.sent = s.sent ∧ (s.step (.post k 0)).1.freshTotal = s.freshTotal := by
  unfold SendCtl.step
  split
  · simp
  · simp only
    split
    · simp
    · split <;> simp

/-- **no_panic**: no arithmetic panic / lock poisoning over ANY history — 0-RTT rejection, concurrent
credits, `on_error` included (limits are varints, as everything that comes from MAX_DATA frames or transport
parameters is).  A `post_sent` beyond the credit still panics in the caller, without touching the
controller. -/
theorem no_panic (m0 : Nat) (ops : List SendOp) (hm : m0 ≤ VARINT_MAX)
    (h : ∀ op ∈ ops, op.Bounded) : (SendCtl.run m0 ops).poisoned = false :=
  SendCtl.nopoison_foldl ops (SendCtl.init m0) h (SendCtl.acct_init m0)
    (by simpa [SendCtl.init] using hm) rfl

example : (100 : Nat) ≤ VARINT_MAX ∧
    ∀ op ∈ [SendOp.credit 80, .post 0 80, .drop 0, .revise true 50, .credit 1], op.Bounded := by
  refine ⟨by decide, ?_⟩
  intro op hop
  simp only [List.mem_cons, List.mem_nil_iff, or_false] at hop
  rcases hop with h | h | h | h | h <;> subst h <;> simp [SendOp.Bounded, VARINT_MAX]

/-- The peer's limit as seen by the sender never decreases (no 0-RTT rejection). -/
theorem send_limit_monotone (m0 : Nat) (ops : List SendOp) (op : SendOp)
    (h : ∀ o ∈ ops, o.NoReject) (ho : op.NoReject) :
    (SendCtl.run m0 ops).max ≤ ((SendCtl.run m0 ops).step op).1.max := by
  have hb := SendCtl.bound_foldl ops (SendCtl.init m0) h (by simp [SendCtl.init])
  exact ((SendCtl.run m0 ops).bound_step op ho hb.1).2

/-- Advertised connection limits never decrease: the MAX_DATA values emitted over any history are
non-decreasing and never below the initial limit; the limit enforced is the last one advertised. -/
theorem advertised_monotone_conn (m0 : Nat) (ns : List Nat) :
    let s := RecvCtl.run m0 ns
    s.advertised.Pairwise (· ≤ ·) ∧ (∀ a ∈ s.advertised, m0 ≤ a) ∧
      (s.poisoned = false → s.max = s.advertised.getLast?.getD m0) := by
  have h := RecvCtl.inv_foldl m0 ns (RecvCtl.init m0) (RecvCtl.inv_init m0)
  exact ⟨h.mono, fun a ha => (h.adv a ha).1, h.last⟩

example : (RecvCtl.run 100 [20, 30, 60, 40]).advertised = [150, 200, 250] ∧
    (RecvCtl.run 100 [20, 30, 60, 40]).max = 250 := by decide

/-- Connection-level over-limit data is detected: after any history, an amount that takes the
running total above the limit last advertised yields `FlowControl` (and only then). -/
theorem over_limit_detected_conn (m0 : Nat) (ns : List Nat) (n : Nat) :
    let s := RecvCtl.run m0 ns
    s.poisoned = false → s.total + n < 2^64 →
      (s.total + n > s.advertised.getLast?.getD m0 ↔ (s.onNewRcvd n).2 = .flowControl) := by
  intro s hp hn
  have h := RecvCtl.inv_foldl m0 ns (RecvCtl.init m0) (RecvCtl.inv_init m0)
  have hl : s.max = s.advertised.getLast?.getD m0 := h.last hp
  have ht : s.rcvd = s.total := h.tot hp
  rw [← hl, ← ht]
  unfold RecvCtl.onNewRcvd
  dsimp only
  simp only [hp, Bool.false_eq_true, ↓reduceIte]
  have : ¬ (s.rcvd + n ≥ 2^64) := by omega
  simp only [this, ↓reduceIte]
  split
  · split
    · split <;> simp <;> omega
    · simp; omega
  · simp; omega

example : ((RecvCtl.run 100 [20, 30]).onNewRcvd 101).2 = .flowControl ∧
    ((RecvCtl.run 100 [20, 30]).onNewRcvd 100).2 = .ok 100 (some 200) := by decide

end GmQuic.Flow

/-! ## Part 2 — window-source table (run `C11w`: observed exhaustively on the real `DataStreams`) -/
namespace GmQuic.StreamWindow
open GmQuic.Flow GmQuic.Spec.Rfc9000

/-- Every stream half takes its initial window from the transport parameter RFC 9000 §18.2 names.
`fixed = false`: the unchanged tree; `fixed = true`: with `repo_patches/fix-C11-uni-window.diff`. -/
def WindowSourceIsRfc (fixed : Bool) : Prop :=
  ∀ w i d sd, codeWindow fixed w i d sd = rfcWindow i d sd

/-- FALSE of the unchanged tree: a locally opened unidirectional stream takes its send window from
the peer's `initial_max_stream_data_bidi_remote` (peer: uni = 111, bidi_remote = 222 ⇒ 222). -/
theorem window_source_is_rfc_fails : ¬ WindowSourceIsRfc false := by
  intro h
  have := h .client .loc .uni .send
  revert this; decide

example : let p : P6 := ⟨fun _ => 0, fun | .uni => 111 | .bidiRemote => 222 | .bidiLocal => 0⟩
    (codeWindow false .client .loc .uni .send).map p.value = some 222 ∧
    (rfcWindow .loc .uni .send).map p.value = some 111 := by decide

/-- Every other cell (and the 0-RTT path of that cell) is as the RFC says. -/
theorem window_source_is_rfc_partial (w : Wiring) (i : Initiator) (d : SDir) (sd : Side)
    (h : ¬ (i = .loc ∧ d = .uni ∧ sd = .send ∧ w ≠ .client0rtt)) :
    codeWindow false w i d sd = rfcWindow i d sd := by
  cases w <;> cases i <;> cases d <;> cases sd <;> first | rfl | (exfalso; apply h; decide)

/-- With the one-line fix the whole table is the RFC's. -/
theorem window_source_is_rfc : WindowSourceIsRfc true := by
  intro w i d sd
  cases w <;> cases i <;> cases d <;> cases sd <;> rfl

/-! ## Part 3 — stream level (run `C11s`) -/

/-- No STREAM frame ever ends beyond the stream limit the peer has granted (initial window and
every MAX_STREAM_DATA seen so far), for every history of writes, FIN requests, MAX_STREAM_DATA
and every emission the specification relation allows. -/
theorem stream_limit_respected (w : Nat) (ops : List SOp) :
    let h := SendHalf.run w ops
    (∀ r ∈ h.emitted, r.2 ≤ grantedOf w ops) ∧ h.maxData ≤ grantedOf w ops := by
  intro h
  have hi := SendHalf.inv_foldl ops (SendHalf.init w) (SendHalf.inv_init w)
  have hg : h.granted = grantedOf w ops := SendHalf.granted_foldl ops (SendHalf.init w)
  rw [← hg]
  constructor
  · intro r hr
    have := (hi.emHi r hr).2; have := hi.hiMax; have := hi.maxGr
    show r.2 ≤ h.granted
    have e : h = ops.foldl SendHalf.step (SendHalf.init w) := rfl
    rw [e]; omega
  · exact hi.maxGr

/-- … and at the moment of emission the frame is within the limit granted up to then. -/
theorem stream_limit_respected_step (w : Nat) (ops : List SOp) (a b : Nat) (fin : Bool)
    (avail c : Nat) (h' : SendHalf)
    (he : (SendHalf.run w ops).emit a b fin avail = some (h', c)) :
    b ≤ grantedOf w ops ∧ c ≤ avail := by
  have hi := SendHalf.inv_foldl ops (SendHalf.init w) (SendHalf.inv_init w)
  have hg : (SendHalf.run w ops).granted = grantedOf w ops :=
    SendHalf.granted_foldl ops (SendHalf.init w)
  have := SendHalf.emit_inv _ h' a b fin avail c hi he
  rw [← hg]
  exact ⟨this.2.2.2.2.1, this.2.1⟩

example : (SendHalf.run 10 [.write 30, .emit 0 10 false 100, .msd 25, .emit 10 25 false 100,
      .emit 3 7 false 0, .emit 25 30 false 100]).emitted = [(0, 10), (10, 25), (3, 7)] ∧
    grantedOf 10 [.write 30, .emit 0 10 false 100, .msd 25] = 25 := by decide

/-- Retransmissions are free and every byte is charged exactly once: the amount posted to the
connection credit for a frame is exactly the part of it that lies beyond everything emitted
before (`[0, sentHi)`), and the stream's running total of charges equals `sentHi`. -/
theorem retransmit_free (w : Nat) (ops : List SOp) :
    let h := SendHalf.run w ops
    h.charged = h.sentHi ∧ (∀ r ∈ h.emitted, r.1 ≤ r.2 ∧ r.2 ≤ h.sentHi) := by
  have hi := SendHalf.inv_foldl ops (SendHalf.init w) (SendHalf.inv_init w)
  exact ⟨hi.chg, hi.emHi⟩

theorem retransmit_free_step (h h' : SendHalf) (a b : Nat) (fin : Bool) (avail c : Nat)
    (he : h.emit a b fin avail = some (h', c)) :
    c = b - max a h.sentHi ∧ h'.sentHi = max h.sentHi b := by
  unfold SendHalf.emit at he
  split at he
  · split at he
    · split at he
      · simp only [Option.some.injEq, Prod.mk.injEq] at he
        obtain ⟨rfl, rfl⟩ := he
        constructor
        · omega
        · show b = max h.sentHi b; omega
      · simp at he
    · split at he
      · simp only [Option.some.injEq, Prod.mk.injEq] at he
        obtain ⟨rfl, rfl⟩ := he
        constructor
        · omega
        · show h.sentHi = max h.sentHi b; omega
      · simp at he
  · simp at he

/-- Advertised stream limits never decrease: the MAX_STREAM_DATA values emitted over any history
of frames and reads are non-decreasing, never below the initial window, and the limit enforced is
the last one advertised. -/
theorem advertised_monotone_stream (fixed : Bool) (w : Nat) (ops : List ROp) :
    let h := RecvHalf.run fixed w ops
    h.advertised.Pairwise (· ≤ ·) ∧ (∀ a ∈ h.advertised, h.init ≤ a) ∧
      h.msd = h.advertised.getLast?.getD h.init := by
  have hi := RecvHalf.inv_foldl fixed ops (RecvHalf.mk0 w) (RecvHalf.inv_mk0 w)
  exact ⟨hi.mono, fun a ha => (hi.adv a ha).1, hi.last⟩

/-- Data beyond the advertised stream limit is detected in every receiving state, FIN-bearing
frames included.  `fixed = false` is the unchanged tree, `true` has
`repo_patches/fix-C11-fin-limit.diff`. -/
def OverLimitDetected (fixed : Bool) : Prop :=
  ∀ (w : Nat) (ops : List ROp) (off len : Nat) (fin : Bool),
    let h := RecvHalf.run fixed w ops
    h.phase ≠ .done → off + len > h.msd → ∀ n, (h.rx fixed off len fin).2 ≠ .fresh n

/-- FALSE of the unchanged tree: limit 100, a FIN-bearing frame at offset 5000 is accepted and
5020 bytes are counted as received. -/
theorem over_limit_detected_fails : ¬ OverLimitDetected false := by
  intro h
  have := h 100 [] 5000 20 true (by decide) (by decide) 5020
  revert this; decide

/-- What the unchanged tree does detect: data frames without FIN before the size is known. -/
theorem over_limit_detected_partial (h : RecvHalf) (off len : Nat)
    (hp : h.phase = .recv) (ho : off + len > h.msd) :
    (h.rx false off len false).2 = .flowControl := by
  unfold RecvHalf.rx
  simp only [hp, Bool.false_eq_true, ↓reduceIte, ho]

/-- With the fix every over-limit frame is an error (FlowControl, or FinalSize when it also
contradicts the final size), in every reachable state. -/
theorem over_limit_detected : OverLimitDetected true := by
  intro w ops off len fin h hd ho n
  have hi := RecvHalf.inv_foldl true ops (RecvHalf.mk0 w) (RecvHalf.inv_mk0 w)
  have hf : h.FinOk := RecvHalf.finOk_foldl ops (RecvHalf.mk0 w) (RecvHalf.inv_mk0 w)
    (by intro fs hfs; simp [RecvHalf.mk0] at hfs)
  unfold RecvHalf.rx
  cases hph : h.phase with
  | recv =>
    cases fin
    · simp only [Bool.false_eq_true, ↓reduceIte, ho]; simp
    · simp only [↓reduceIte]
      split
      · simp
      · simp only [true_and, ho, ↓reduceIte]; simp
  | sizeKnown fs =>
    have : fs ≤ h.msd := hf fs hph
    have : off + len > fs := by omega
    simp only [this, ↓reduceIte]; simp
  | done => exact absurd hph hd

example : ((RecvHalf.run true 100 [.rx 0 40 false]).rx true 5000 20 true).2 = .flowControl ∧
    ((RecvHalf.run true 100 [.rx 0 40 false]).rx true 60 40 true).2 = .fresh 60 := by decide


/-! ## Part 4 — the whole receiving state machine: `stop()`, reader drop, RESET_STREAM (run `C11s`)

`AOp` histories: peer STREAM frames, application reads (`poll_read` and `poll_next`), `Reader::stop`, dropping the `Reader`, RESET_STREAM
from the peer.  `fixed = true` is the current tree (FIN-limit fix 36fc566 in); `rfix` is whether
`Recv::recv_reset` compares the final size with the stream limit (current tree, fix-C11-reset-limit: it
does, `rfix = true`; the theorems that hold for both trees keep the parameter). -/

/-- Data beyond the advertised stream limit is refused after EVERY history of frames, reads, `stop()`,
reader drop and resets, as long as the stream is still known to the endpoint (`Recv` / `SizeKnown`;
once all data or a RESET_STREAM was received the stream has left the input set and frames for it are
ignored, RFC 9000 §3.2). -/
def OverLimitDetectedAll (fixed rfix : Bool) : Prop :=
  ∀ (w : Nat) (ops : List AOp) (off len : Nat) (fin : Bool),
    let r := Rcvr.run fixed rfix w ops
    r.live = true → off + len > r.half.msd → ∀ n, (r.rx fixed off len fin).2 ≠ .fresh n

theorem over_limit_detected_all (rfix : Bool) : OverLimitDetectedAll true rfix := by
  intro w ops off len fin r hl ho n
  have hi : r.Inv := Rcvr.inv_foldl rfix ops (Rcvr.mk0 w) (Rcvr.inv_mk0 w)
  obtain ⟨hr, hd⟩ := (Rcvr.live_iff r).mp hl
  rw [Rcvr.rx_obs true r off len fin hr]
  exact RecvHalf.rx_over r.half off len fin hi.bnd hd ho n

example : let r := Rcvr.run true false 100 [.rx 0 40 false, .stop 7, .dropReader, .rx 40 10 false]
    r.live = true ∧ r.stopped = some 7 ∧ r.half.msd = 100 ∧ (r.rx true 90 11 false).2 = .flowControl ∧
    (r.rx true 90 11 true).2 = .flowControl ∧ (r.rx true 90 10 false).2 = .fresh 50 := by decide

/-- The application's own actions never change what the peer is allowed to send nor what is charged to
the connection: the answer to any frame, the resulting half and the resulting charge are the same
whether or not `stop(code)` was called / the `Reader` was dropped just before. -/
theorem limit_enforcement_ignores_stop (fixed : Bool) (r : Rcvr) (code off len : Nat) (fin : Bool) :
    ((r.stop code).1.rx fixed off len fin).2 = (r.rx fixed off len fin).2 ∧
    ((r.stop code).1.rx fixed off len fin).1.half = (r.rx fixed off len fin).1.half ∧
    ((r.stop code).1.rx fixed off len fin).1.charged = (r.rx fixed off len fin).1.charged := by
  obtain ⟨h1, h2, h3⟩ := r.stop_fields code
  exact Rcvr.rx_congr fixed r _ h1 h2 h3 off len fin

theorem limit_enforcement_ignores_reader_drop (fixed rfix : Bool) (r : Rcvr) (off len : Nat) (fin : Bool) :
    ((r.step fixed rfix .dropReader).rx fixed off len fin).2 = (r.rx fixed off len fin).2 ∧
    ((r.step fixed rfix .dropReader).rx fixed off len fin).1.charged = (r.rx fixed off len fin).1.charged := by
  have := Rcvr.rx_congr fixed r (r.step fixed rfix .dropReader) rfl rfl rfl off len fin
  exact ⟨this.1, this.2.2⟩

/-- Advertised stream limits never decrease — over histories with application actions and resets, for
both trees. -/
theorem advertised_monotone_all (fixed rfix : Bool) (w : Nat) (ops : List AOp) :
    let h := (Rcvr.run fixed rfix w ops).half
    h.advertised.Pairwise (· ≤ ·) ∧ (∀ a ∈ h.advertised, h.init ≤ a) ∧
      h.msd = h.advertised.getLast?.getD h.init := by
  have hi := Rcvr.halfInv_foldl fixed rfix ops (Rcvr.mk0 w) (RecvHalf.inv_mk0 w)
  exact ⟨hi.mono, fun a ha => (hi.adv a ha).1, hi.last⟩

/-- Connection-level accounting of one stream, for every history (current tree, either `rfix`): as long
as no RESET_STREAM was accepted, the total handed to `on_new_rcvd` is exactly the largest offset
received (each byte once, nothing for retransmissions, the same after `stop()`), and that is within the
stream's own advertised limit; after a RESET_STREAM it is at most the final size; `stop()` sends at
most one STOP_SENDING. -/
theorem stream_charge_accounting (rfix : Bool) (w : Nat) (ops : List AOp) :
    let r := Rcvr.run true rfix w ops
    (r.rst = none → r.charged = r.half.buf.largest ∧ r.charged ≤ r.half.msd) ∧
    (∀ f, r.rst = some f → r.charged ≤ f) ∧ r.stops ≤ 1 := by
  intro r
  have hi : r.Inv := Rcvr.inv_foldl rfix ops (Rcvr.mk0 w) (Rcvr.inv_mk0 w)
  refine ⟨fun hr => ⟨hi.chg hr, ?_⟩, hi.chgR, hi.stops.1⟩
  rw [hi.chg hr]; exact hi.bnd.le_msd

example : let r := Rcvr.run true false 100 [.rx 10 20 false, .stop 3, .rx 0 30 false, .rx 50 10 false, .reset 80]
    r.charged = 80 ∧ r.rst = some 80 ∧ r.stops = 1 := by decide

/-- A RESET_STREAM whose final size lies beyond the advertised stream limit claims that more was sent
than allowed (RFC 9000 §4.5: the final size counts against flow control; §4.1: FLOW_CONTROL_ERROR). -/
def ResetOverLimitDetected (rfix : Bool) : Prop :=
  ∀ (w : Nat) (ops : List AOp) (final : Nat),
    let r := Rcvr.run true rfix w ops
    r.live = true → final > r.half.msd → ∀ n, (r.reset rfix final).2 ≠ .sync n

/-- What the fix excludes — the tree before fix-C11-reset-limit (`rfix = false`): limit 100,
`RESET_STREAM(final_size = 5000)` was accepted in `Recv` and 5000 bytes were handed to the connection-level
controller (the former `reset_over_limit_detected_fails`). -/
example : ((Rcvr.run true false 100 []).reset false 5000).2 = .sync 5000 ∧
    ((Rcvr.run true true 100 []).reset true 5000).2 = .flowControl := by decide

/-- **reset_over_limit_detected** — the current tree, every history of frames, reads, `stop()`, reader drop
and resets: while the stream is still known to the endpoint, a RESET_STREAM whose final size lies beyond the
advertised stream limit is never accepted (FLOW_CONTROL_ERROR in `Recv`, FINAL_SIZE_ERROR in `SizeKnown`,
where the known final size is within the limit). -/
theorem reset_over_limit_detected : ResetOverLimitDetected true := by
  intro w ops final r hl ho n
  have hi : r.Inv := Rcvr.inv_foldl true ops (Rcvr.mk0 w) (Rcvr.inv_mk0 w)
  obtain ⟨hr, hd⟩ := (Rcvr.live_iff r).mp hl
  have hb := hi.bnd.2
  unfold Rcvr.reset
  simp only [hr, Option.isSome_none, Bool.false_eq_true, ↓reduceIte]
  cases hph : r.half.phase with
  | recv =>
    simp only
    split
    · simp
    · simp only [true_and, ho, ↓reduceIte]; simp
  | sizeKnown fs =>
    simp only [hph] at hb
    have : final ≠ fs := by omega
    simp only [ne_eq, this, not_false_eq_true, ↓reduceIte]; simp
  | done => exact absurd hph hd

example : ((Rcvr.run true true 100 [.rx 0 40 false, .stop 1]).reset true 101).2 = .flowControl ∧
    ((Rcvr.run true true 100 [.rx 0 40 false, .stop 1]).reset true 100).2 = .sync 60 := by decide

/-! ## Part 5 — the whole sending state machine: `cancel()` / STOP_SENDING (run `C11s`) -/

/-- No STREAM frame ends beyond the limit granted by the peer — over histories that also contain
`Writer::cancel` and STOP_SENDING from the peer. -/
theorem stream_limit_respected_all (w : Nat) (ops : List TOp) :
    let s := Sndr.run w ops
    (∀ r ∈ s.half.emitted, r.2 ≤ grantedOfT w ops) ∧ s.half.maxData ≤ grantedOfT w ops := by
  intro s
  have hi := (Sndr.inv_foldl ops (Sndr.init w) (Sndr.inv_init w)).half
  have hg : s.half.granted = grantedOfT w ops := Sndr.granted_foldl ops (Sndr.init w)
  rw [← hg]
  refine ⟨?_, hi.maxGr⟩
  intro r hr
  have h1 := (hi.emHi r hr).2; have h2 := hi.hiMax; have h3 := hi.maxGr
  exact Nat.le_trans h1 (Nat.le_trans h2 h3)

/-- The final size announced in a RESET_STREAM (cancel or STOP_SENDING, in any sending state) is exactly
what this stream has charged to the connection-level credit — so both endpoints account the same number
of bytes for a reset stream —, covers every frame ever emitted and is within the peer's stream limit. -/
theorem reset_final_size_is_charge (w : Nat) (ops : List TOp) (f : Nat) :
    let s := Sndr.run w ops
    s.rst = some f →
      f = s.half.charged ∧ (∀ r ∈ s.half.emitted, r.2 ≤ f) ∧ f ≤ grantedOfT w ops := by
  intro s hr
  have hi := Sndr.inv_foldl ops (Sndr.init w) (Sndr.inv_init w)
  have hg : s.half.granted = grantedOfT w ops := Sndr.granted_foldl ops (Sndr.init w)
  have hf := hi.rst f hr
  have h2 := hi.half.hiMax; have h3 := hi.half.maxGr
  refine ⟨by rw [hf]; exact hi.half.chg.symm, ?_, ?_⟩
  · intro r hr'; rw [hf]; exact (hi.half.emHi r hr').2
  · rw [← hg, hf]; exact Nat.le_trans h2 h3

/-- After the reset the stream emits nothing and charges nothing, whatever happens next
(writes, MAX_STREAM_DATA for the terminal stream, further cancels, assembly attempts). -/
theorem no_emission_after_reset (s : Sndr) (hr : s.rst.isSome = true) (ops : List TOp) :
    (∀ a b fin avail, s.emit a b fin avail = none) ∧
    (ops.foldl Sndr.step s).half.charged = s.half.charged ∧
    (ops.foldl Sndr.step s).half.emitted = s.half.emitted ∧ (ops.foldl Sndr.step s).rst = s.rst := by
  obtain ⟨e1, e2, e3⟩ := Sndr.foldl_frozen ops s hr
  refine ⟨?_, e2, e3, e1⟩
  intro a b fin avail
  simp only [Sndr.emit, hr, ↓reduceIte]

example : let s := Sndr.run 50 [.half (.write 80), .half (.emit 0 30 false 100), .cancel,
      .half (.msd 500), .half (.emit 30 50 false 100), .stopSending]
    s.rst = some 30 ∧ s.half.charged = 30 ∧ s.half.emitted = [(0, 30)] := by decide

end GmQuic.StreamWindow

/-! ## Part 6 — the remembered-parameters (0-RTT) path: `DataStreams::revise_params` (run `C11s`)

A resuming client opens streams and sends under REMEMBERED limits (`pre`), then the handshake completes and
`revise_params(rejected, fresh windows, fresh stream counts)` runs once, then anything (`post`: more streams,
writes, assembly, MAX_STREAM_DATA, MAX_STREAMS re-admitting streams above a lowered count, cancel, …).
The ghost `granted` of a stream is the limit its peer most recently advertised for it: after a rejection
the fresh `initial_max_stream_data_*` of its kind, raised by every later MAX_STREAM_DATA
(`Sndr.revise`, `Sndr.step_granted`). -/
namespace GmQuic.StreamRevise
open GmQuic.StreamWindow GmQuic.Sid

/-- For ALL histories — any number of streams opened before the revision, 0-RTT accepted or rejected,
fresh limits lower / equal / higher than the remembered ones, stream counts lowered below what is open —
no stream ever emits beyond the limit most recently advertised for it, and its window never exceeds it. -/
theorem limits_respected_after_rejected_0rtt (mb0 mu0 wb0 wu0 : Nat) (pre post : List ZOp) (rej : Bool)
    (fb fu mb mu : Nat) :
    let e := (((ZEp.init mb0 mu0 wb0 wu0).run pre).revise rej fb fu mb mu).run post
    ∀ z ∈ e.ss, (∀ r ∈ z.s.half.emitted, r.2 ≤ z.s.half.granted) ∧
      z.s.half.maxData ≤ z.s.half.granted := by
  intro e z hz
  have hp := preInv_run pre _ (preInv_init mb0 mu0 wb0 wu0)
  have hg : Good e := good_run post _ (revise_good _ rej fb fu mb mu hp)
  have hi := (hg z hz).half
  refine ⟨fun r hr => ?_, hi.maxGr⟩
  exact Nat.le_trans (hi.emHi r hr).2 (Nat.le_trans hi.hiMax hi.maxGr)

/-- A rejection restarts EVERY stream opened under the remembered parameters (none is skipped, whatever
the fresh stream count): nothing counts as sent, window = advertised limit = the fresh value of its kind. -/
theorem rejection_restarts_every_stream (mb0 mu0 wb0 wu0 : Nat) (pre : List ZOp) (fb fu mb mu : Nat) :
    let e0 := (ZEp.init mb0 mu0 wb0 wu0).run pre
    let e := e0.revise true fb fu mb mu
    e.ss.length = e0.ss.length ∧
    ∀ z ∈ e.ss, z.s.rst = none →
      z.s.half.granted = (match z.dir with | .bi => fb | .uni => fu) ∧
      z.s.half.maxData = z.s.half.granted ∧ z.s.half.emitted = [] ∧ z.s.half.sentHi = 0 := by
  intro e0 e
  have hp : PreInv e0 := preInv_run pre _ (preInv_init mb0 mu0 wb0 wu0)
  refine ⟨by simp [e, ZEp.revise], ?_⟩
  intro z hz hr
  simp only [e, ZEp.revise, List.mem_map] at hz
  obtain ⟨z0, hz0, rfl⟩ := hz
  have h1 := hp.below z0 hz0
  have h2 := hp.within z0.dir
  unfold Local.openedStreams at hr ⊢
  cases hd : z0.dir <;> simp only [hd] at h1 h2 hr ⊢
  · have hc : z0.idx < min (e0.ids.unalloc.get Dir.bi) (e0.ids.max.get Dir.bi) := by omega
    rw [if_pos hc] at hr ⊢
    have hr0 : z0.s.rst = none := by
      unfold Sndr.revise at hr
      split at hr <;> exact hr
    obtain ⟨a, b, c, d, _⟩ := z0.s.revise_rejected fb hr0
    exact ⟨a, by rw [b, a], c, d⟩
  · have hc : z0.idx < min (e0.ids.unalloc.get Dir.uni) (e0.ids.max.get Dir.uni) := by omega
    rw [if_pos hc] at hr ⊢
    have hr0 : z0.s.rst = none := by
      unfold Sndr.revise at hr
      split at hr <;> exact hr
    obtain ⟨a, b, c, d, _⟩ := z0.s.revise_rejected fu hr0
    exact ⟨a, by rw [b, a], c, d⟩

example : ((((ZEp.init 10 10 1000 1000).run
      [.openS .uni, .openS .uni, .snd .uni 0 (.half (.write 800)), .snd .uni 1 (.half (.write 800)),
       .snd .uni 0 (.half (.emit 0 800 false 5000))]).revise true 300 300 1 1).run
      [.snd .uni 1 (.half (.emit 0 800 false 5000)), .maxStreams .uni 4,
       .snd .uni 1 (.half (.emit 0 800 false 5000)), .snd .uni 1 (.half (.emit 0 300 false 5000))]).ss.map
        (fun z => (z.idx, z.s.half.maxData, z.s.half.emitted)) =
      [(0, 300, []), (1, 300, [(0, 300)])] := by decide

end GmQuic.StreamRevise
