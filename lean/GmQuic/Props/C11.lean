import GmQuic.Lemmas.Flow
/-!
C11 — flow-control limits are never exceeded and violations are detected.
Property theorems only (helper lemmas: `GmQuic/Lemmas/Flow*.lean`).

Part 1: connection-level controllers (`qbase/src/flow.rs`), model `GmQuic/Model/Flow.lean`,
tied to the real `ArcSendControler` / `ArcRecvController` by the exact run `C11c`.
-/
namespace GmQuic.Flow

/-! ## Part 1 — connection level -/

/-- DESIGN Appendix A statement (with the two guards the `Result`/`Mutex` wrappers force: once
`on_error` replaced the controller by `Err`, or a panic poisoned the lock, there is no `sent_data`
left to speak about).  FALSE of the unchanged code: `revise_max_data(true, m)` (0-RTT rejected)
installs the server's real `initial_max_data` but keeps `sent_data`, so the limit can end up below
what was already charged. -/
def ConnLimitRespected (m0 : Nat) (ops : List SendOp) : Prop :=
  let s := SendCtl.run m0 ops
  s.freshTotal ≤ s.max ∧
    (s.openCredits = 0 → s.dead = false → s.poisoned = false → s.sent = s.freshTotal)

theorem conn_limit_respected_fails : ¬ ∀ m0 ops, ConnLimitRespected m0 ops := by
  intro h
  have := (h 1000 [.credit 800, .post 0 800, .drop 0, .revise true 500]).1
  revert this; decide

/-- … and what the unchanged code then does with that state: the next `credit` evaluates
`max_data - sent_data` = 500 − 800 (panic in the dev profile while the lock is held, every later
call panics on the poisoned mutex; in a release build the subtraction wraps and the limit is void). -/
theorem no_panic_fails : ¬ ∀ m0 ops, (SendCtl.run m0 ops).poisoned = false := by
  intro h
  have := h 1000 [.credit 800, .post 0 800, .drop 0, .revise true 500, .credit 1]
  revert this; decide

/-- Σ fresh bytes ≤ the limit in force, for EVERY history without a 0-RTT rejection: any number
of `Credit` guards alive at once, any interleaving of `credit`/`post_sent`/drop/MAX_DATA/
`revise_max_data(false,_)`/`on_error`, any quotas (also `post_sent` beyond the credit, which
panics without changing anything). -/
theorem conn_limit_respected_partial (m0 : Nat) (ops : List SendOp)
    (h : ∀ op ∈ ops, op.NoReject) : ConnLimitRespected m0 ops := by
  have ha := SendCtl.acct_foldl ops (SendCtl.init m0) (SendCtl.acct_init m0)
  have hb := SendCtl.bound_foldl ops (SendCtl.init m0) h (by simp [SendCtl.init])
  unfold ConnLimitRespected SendCtl.run
  constructor
  · have := ha.le; have := hb.1; omega
  · intro ho hd hp
    have := ha.eq hd hp
    have hc : (ops.foldl (fun s op => (s.step op).1) (SendCtl.init m0)).credits = [] := by
      simpa [SendCtl.openCredits] using ho
    rw [hc] at this; simpa using this

example : ∃ s, s = SendCtl.run 100 [.credit 200, .post 0 60, .credit 10, .maxdata 150, .drop 0,
      .credit 500, .post 0 0, .post 1 90, .drop 0, .drop 0] ∧
    s.freshTotal = 150 ∧ s.sent = 150 ∧ s.max = 150 ∧ s.openCredits = 0 ∧ s.blocked = [100, 150] :=
  ⟨_, rfl, by decide⟩

/-- Unused credit is returned, each byte is charged exactly once — for EVERY history, 0-RTT
rejection included: whenever no `Credit` is outstanding, `sent_data` is exactly the number of
bytes that were reported fresh through `post_sent`. -/
theorem credit_returned (m0 : Nat) (ops : List SendOp) :
    let s := SendCtl.run m0 ops
    s.openCredits = 0 → s.dead = false → s.poisoned = false → s.sent = s.freshTotal := by
  intro s ho hd hp
  have ha := SendCtl.acct_foldl ops (SendCtl.init m0) (SendCtl.acct_init m0)
  have := ha.eq hd hp
  have hc : s.credits = [] := by simpa [SendCtl.openCredits] using ho
  show s.sent = s.freshTotal
  have e : s = ops.foldl (fun s op => (s.step op).1) (SendCtl.init m0) := rfl
  rw [← e, hc] at this; simpa using this

/-- While credits are outstanding, `sent_data` over-approximates: it is the fresh bytes plus all
unreturned credit (so concurrent packet assemblers can never jointly exceed the limit). -/
theorem credit_accounting (m0 : Nat) (ops : List SendOp) :
    let s := SendCtl.run m0 ops
    s.freshTotal + s.credits.sum ≤ s.sent :=
  (SendCtl.acct_foldl ops (SendCtl.init m0) (SendCtl.acct_init m0)).le

/-- Reporting a retransmission (`post_sent(0)`) charges nothing. -/
theorem retransmit_free_conn (s : SendCtl) (k : Nat) :
    (s.step (.post k 0)).1.sent = s.sent ∧ (s.step (.post k 0)).1.freshTotal = s.freshTotal := by
  unfold SendCtl.step
  split
  · simp
  · simp only
    split
    · simp
    · split <;> simp

/-- No arithmetic panic / lock poisoning without a 0-RTT rejection (limits are varints). -/
theorem no_panic_partial (m0 : Nat) (ops : List SendOp) (hm : m0 ≤ VARINT_MAX)
    (h : ∀ op ∈ ops, op.NoReject ∧ op.Bounded) : (SendCtl.run m0 ops).poisoned = false :=
  SendCtl.nopoison_foldl ops (SendCtl.init m0) h (SendCtl.acct_init m0) (by simp [SendCtl.init])
    (by simpa [SendCtl.init] using hm) rfl

/-- The peer's limit as seen by the sender never decreases (no 0-RTT rejection). -/
theorem send_limit_monotone (m0 : Nat) (ops : List SendOp) (op : SendOp)
    (h : ∀ o ∈ ops, o.NoReject) (ho : op.NoReject) :
    (SendCtl.run m0 ops).max ≤ ((SendCtl.run m0 ops).step op).1.max := by
  have hb := SendCtl.bound_foldl ops (SendCtl.init m0) h (by simp [SendCtl.init])
  exact ((SendCtl.run m0 ops).bound_step op ho hb.1).2

/-- Advertised connection limits never decrease: the MAX_DATA values emitted over any history are
non-decreasing and never below the initial limit; the limit enforced is the last one advertised. -/
theorem advertised_monotone_conn (m0 : Nat) (ns : List Nat) :
    let s := RecvCtl.run m0 ns
    s.advertised.Pairwise (· ≤ ·) ∧ (∀ a ∈ s.advertised, m0 ≤ a) ∧
      (s.poisoned = false → s.max = s.advertised.getLast?.getD m0) := by
  have h := RecvCtl.inv_foldl m0 ns (RecvCtl.init m0) (RecvCtl.inv_init m0)
  exact ⟨h.mono, fun a ha => (h.adv a ha).1, h.last⟩

example : (RecvCtl.run 100 [20, 30, 60, 40]).advertised = [150, 200, 250] ∧
    (RecvCtl.run 100 [20, 30, 60, 40]).max = 250 := by decide

/-- Connection-level over-limit data is detected: after any history, an amount that takes the
running total above the limit last advertised yields `FlowControl` (and only then). -/
theorem over_limit_detected_conn (m0 : Nat) (ns : List Nat) (n : Nat) :
    let s := RecvCtl.run m0 ns
    s.poisoned = false → s.total + n < 2^64 →
      (s.total + n > s.advertised.getLast?.getD m0 ↔ (s.onNewRcvd n).2 = .flowControl) := by
  intro s hp hn
  have h := RecvCtl.inv_foldl m0 ns (RecvCtl.init m0) (RecvCtl.inv_init m0)
  have hl : s.max = s.advertised.getLast?.getD m0 := h.last hp
  have ht : s.rcvd = s.total := h.tot hp
  rw [← hl, ← ht]
  unfold RecvCtl.onNewRcvd
  dsimp only
  simp only [hp, Bool.false_eq_true, ↓reduceIte]
  have : ¬ (s.rcvd + n ≥ 2^64) := by omega
  simp only [this, ↓reduceIte]
  split
  · split
    · split <;> simp <;> omega
    · simp; omega
  · simp; omega

example : ((RecvCtl.run 100 [20, 30]).onNewRcvd 101).2 = .flowControl ∧
    ((RecvCtl.run 100 [20, 30]).onNewRcvd 100).2 = .ok 100 (some 200) := by decide

end GmQuic.Flow
