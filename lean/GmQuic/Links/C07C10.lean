import GmQuic.Props.C07.Journal
import GmQuic.Props.C10.Sent
/-!
Link C07 ↔ C10 (sent journal).

C07 (`Model/SentJournal.lean`) models the guard life-cycle operation by operation (`begin`, `frame`, `trivial`, `build`,
`abandon`, …) without frame contents; C10 (`Model/SentFrames.lean`) models whole guard life-cycles as single operations
(`pkt frames trivial rt et`, `leak frames`, …) with the frame contents, reusing C07's record states.  Each has a caller
obligation as hypothesis of its headline theorem:
* C07 `pn_strictly_increasing`: `NoEmptyBuild` (no `build_with_time` on a guard that recorded nothing);
  C07 `queue_records_agree`: `NoAbandonAfterRecord` (no guard dropped after `record_frame`);
* C10 `acked_frames_exact` & co.: every operation is `plain` (no `leak` = guard dropped after `record_frame`, no
  `fast_retransmit`).
Here: `expand` compiles a C10 history into the C07 history it stands for, ONE predicate `CallerOk` on C10 histories
("every guard is built, and never untouched") implies C10's `plain` AND, for the expansion, C07's `NoEmptyBuild` AND
`NoAbandonAfterRecord`; the headline theorems are restated under `CallerOk` alone; and the obligations are shown to be
the same ones (`leak` expands to an abandon-after-record, `pkt [] false` to an empty build).
-/
namespace GmQuic.Links
open GmQuic.SentJournal (State Guard step Rec)

/-- the C07 operations a C10 operation stands for (its doc comment in `Model/SentFrames.lean`) -/
def expand : SentFrames.Op → List SentJournal.Op
  | .pkt frames trivial rt et =>
    [.begin] ++ List.replicate frames.length .frame ++ (if trivial then [.trivial] else []) ++ [.build rt et]
  | .leak frames => [.begin] ++ List.replicate frames.length .frame ++ [.abandon]
  | .ack f =>
    [.ackLargest f.largest] ++
      (match f.iter with | some rs => (RcvdJournal.pnsDesc rs).map .acked | none => [])
  | .acked pns => pns.map .acked
  | .lost pns => pns.map .lost
  | .fastretx => [.rotate]
  | .rotate => [.rotate]
  | .tick ms => [.tick ms]

def expandAll (ops : List SentFrames.Op) : List SentJournal.Op := ops.flatMap expand

/-- **The single caller obligation**: every guard that is taken is built (`plain`: never dropped after
`record_frame`; no `fast_retransmit`, which has no caller in the workspace), and `build_with_time` is never reached on
a guard that recorded neither a frame nor `record_trivial`. -/
def CallerOk (ops : List SentFrames.Op) : Prop :=
  ∀ op ∈ ops, op.plain = true ∧ ∀ rt et, op ≠ .pkt [] false rt et

/-! ### the C07 model along an expansion -/

theorem fold_poisoned (l : List SentJournal.Op) (s : State) (hp : s.poisoned.isSome = true) : l.foldl step s = s := by
  induction l with
  | nil => rfl
  | cons o l ih =>
    have : step s o = s := by unfold step; rw [if_pos hp]
    rw [List.foldl_cons, this, ih]

theorem frames_fold (n : Nat) (s : State) (g : Guard) (hp : s.poisoned = none) (hg : s.guard = some g) :
    (List.replicate n SentJournal.Op.frame).foldl step s =
      { s with j := { s.j with queueLen := s.j.queueLen + n } } := by
  induction n generalizing s with
  | zero => rfl
  | succ n ih =>
    have h1 : step s .frame = { s with j := { s.j with queueLen := s.j.queueLen + 1 } } := by
      simp [step, hp, hg]
    have h2 := ih (step s .frame) (by rw [h1]; exact hp) (by rw [h1]; exact hg)
    rw [List.replicate_succ, List.foldl_cons, h2, h1]
    simp only [Nat.add_assoc, Nat.add_comm 1 n]

/-- operations that take no `NewPacketGuard` -/
def quiet : SentJournal.Op → Bool
  | .ackLargest _ => true
  | .rotate => true
  | .acked _ => true
  | .lost _ => true
  | .tick _ => true
  | _ => false

theorem resize_fields (s : State) :
    (SentJournal.resize s).guard = s.guard ∧ (SentJournal.resize s).leaked = s.leaked ∧
    (SentJournal.resize s).emptyBuilds = s.emptyBuilds := by
  unfold SentJournal.resize
  dsimp only
  split <;> exact ⟨rfl, rfl, rfl⟩

theorem quiet_step (s : State) (hg : s.guard = none) (o : SentJournal.Op) (ho : quiet o = true) :
    (step s o).guard = none ∧ (step s o).leaked = s.leaked ∧ (step s o).emptyBuilds = s.emptyBuilds := by
  by_cases hp : s.poisoned.isSome = true
  · have : step s o = s := by unfold step; rw [if_pos hp]
    rw [this]; exact ⟨hg, rfl, rfl⟩
  · have hpn : s.poisoned = none := by cases h : s.poisoned <;> simp_all
    cases o with
    | ackLargest n =>
      have e : step s (.ackLargest n) = SentJournal.resize
          (if SentJournal.updateLargestOk s.j n then { s with j := { s.j with la := max s.j.la n } } else s) := by
        simp [step, hpn, hg]
      obtain ⟨a, b, c⟩ := resize_fields
        (if SentJournal.updateLargestOk s.j n then { s with j := { s.j with la := max s.j.la n } } else s)
      rw [e, a, b, c]
      split <;> exact ⟨hg, rfl, rfl⟩
    | rotate =>
      have e : step s .rotate = SentJournal.resize s := by simp [step, hpn, hg]
      obtain ⟨a, b, c⟩ := resize_fields s
      rw [e, a, b, c]; exact ⟨hg, rfl, rfl⟩
    | acked pn =>
      have e : step s (.acked pn) = SentJournal.resize { s with j := (SentJournal.touch s.j pn Rec.beAcked).1 } := by
        simp [step, hpn, hg]
      obtain ⟨a, b, c⟩ := resize_fields { s with j := (SentJournal.touch s.j pn Rec.beAcked).1 }
      rw [e, a, b, c]; exact ⟨hg, rfl, rfl⟩
    | lost pn =>
      have e : step s (.lost pn) = SentJournal.resize { s with j := (SentJournal.touch s.j pn Rec.maybeLost).1 } := by
        simp [step, hpn, hg]
      obtain ⟨a, b, c⟩ := resize_fields { s with j := (SentJournal.touch s.j pn Rec.maybeLost).1 }
      rw [e, a, b, c]; exact ⟨hg, rfl, rfl⟩
    | tick ms =>
      have e : step s (.tick ms) = { s with now := s.now + ms } := by simp [step, hpn, hg]
      rw [e]; exact ⟨hg, rfl, rfl⟩
    | _ => simp [quiet] at ho

theorem quiet_fold (l : List SentJournal.Op) (s : State) (hg : s.guard = none) (hl : ∀ o ∈ l, quiet o = true) :
    (l.foldl step s).guard = none ∧ (l.foldl step s).leaked = s.leaked ∧
    (l.foldl step s).emptyBuilds = s.emptyBuilds := by
  induction l generalizing s with
  | nil => exact ⟨hg, rfl, rfl⟩
  | cons o l ih =>
    obtain ⟨a, b, c⟩ := quiet_step s hg o (hl o (by simp))
    obtain ⟨a', b', c'⟩ := ih (step s o) a (fun o' ho' => hl o' (by simp [ho']))
    exact ⟨a', by rw [List.foldl_cons, b', b], by rw [List.foldl_cons, c', c]⟩

theorem pushRec_fields (s : State) (r : Rec) :
    (SentJournal.pushRec s r).guard = none ∧ (SentJournal.pushRec s r).leaked = s.leaked ∧
    (SentJournal.pushRec s r).emptyBuilds = s.emptyBuilds := by
  unfold SentJournal.pushRec
  split <;> exact ⟨rfl, rfl, rfl⟩

/-- one C10 operation, expanded, on a C07 state between guards: again between guards; nothing leaks unless the
operation is `leak`; no empty build unless it is `pkt [] false` -/
theorem expand_ok (s : State) (hg : s.guard = none) (op : SentFrames.Op) :
    ((expand op).foldl step s).guard = none ∧
    (op.plain = true → ((expand op).foldl step s).leaked = s.leaked) ∧
    ((∀ rt et, op ≠ .pkt [] false rt et) → ((expand op).foldl step s).emptyBuilds = s.emptyBuilds) := by
  by_cases hp : s.poisoned.isSome = true
  · rw [fold_poisoned _ s hp]; exact ⟨hg, fun _ => rfl, fun _ => rfl⟩
  have hpn : s.poisoned = none := by cases h : s.poisoned <;> simp_all
  have hbegin : step s .begin = { s with guard := some { trivial := false, originLen := s.j.queueLen } } := by
    simp [step, hpn, hg]
  cases op with
  | pkt frames trivial rt et =>
    simp only [expand, List.foldl_append, List.foldl_cons, List.foldl_nil, hbegin]
    rw [frames_fold frames.length { s with guard := some { trivial := false, originLen := s.j.queueLen } }
      { trivial := false, originLen := s.j.queueLen } hpn rfl]
    cases trivial with
    | false =>
      simp only [Bool.false_eq_true, if_false, List.foldl_nil, step, hpn, Option.isSome_none, false_and,
        Nat.add_sub_cancel_left]
      by_cases hn : frames.length > 0
      · simp only [hn, if_true]
        exact ⟨(pushRec_fields _ _).1, fun _ => (pushRec_fields _ _).2.1, fun _ => (pushRec_fields _ _).2.2⟩
      · simp only [hn, if_false]
        refine ⟨(by first | rfl | exact True.intro), fun _ => (by first | rfl | exact True.intro), fun h => ?_⟩
        have : frames = [] := List.eq_nil_of_length_eq_zero (by omega)
        exact absurd (by rw [this]) (h rt et)
    | true =>
      simp only [if_true, List.foldl_cons, List.foldl_nil, step, hpn, Option.isSome_none, Bool.false_eq_true,
        if_false, Nat.add_sub_cancel_left, true_and]
      by_cases hn : frames.length = 0
      · simp only [hn, if_true]
        exact ⟨(pushRec_fields _ _).1, fun _ => (pushRec_fields _ _).2.1, fun _ => (pushRec_fields _ _).2.2⟩
      · have hn' : frames.length > 0 := by omega
        simp only [hn, if_false, hn', if_true]
        exact ⟨(pushRec_fields _ _).1, fun _ => (pushRec_fields _ _).2.1, fun _ => (pushRec_fields _ _).2.2⟩
  | leak frames =>
    simp only [expand, List.foldl_append, List.foldl_cons, List.foldl_nil, hbegin]
    rw [frames_fold frames.length { s with guard := some { trivial := false, originLen := s.j.queueLen } }
      { trivial := false, originLen := s.j.queueLen } hpn rfl]
    simp only [step, hpn, Option.isSome_none, Bool.false_eq_true, if_false]
    exact ⟨(by first | rfl | exact True.intro), fun h => (by simp [SentFrames.Op.plain] at h), fun _ => (by first | rfl | exact True.intro)⟩
  | ack f =>
    obtain ⟨a, b, c⟩ := quiet_fold (expand (.ack f)) s hg (by
      intro o ho
      simp only [expand, List.mem_append, List.mem_singleton] at ho
      rcases ho with rfl | ho
      · rfl
      · split at ho
        · obtain ⟨x, _, rfl⟩ := List.mem_map.1 ho; rfl
        · cases ho)
    exact ⟨a, fun _ => b, fun _ => c⟩
  | acked pns =>
    obtain ⟨a, b, c⟩ := quiet_fold (expand (.acked pns)) s hg (by
      intro o ho; obtain ⟨x, _, rfl⟩ := List.mem_map.1 ho; rfl)
    exact ⟨a, fun _ => b, fun _ => c⟩
  | lost pns =>
    obtain ⟨a, b, c⟩ := quiet_fold (expand (.lost pns)) s hg (by
      intro o ho; obtain ⟨x, _, rfl⟩ := List.mem_map.1 ho; rfl)
    exact ⟨a, fun _ => b, fun _ => c⟩
  | fastretx =>
    obtain ⟨a, b, c⟩ := quiet_fold [.rotate] s hg (by simp [quiet])
    exact ⟨a, fun _ => b, fun _ => c⟩
  | rotate =>
    obtain ⟨a, b, c⟩ := quiet_fold [.rotate] s hg (by simp [quiet])
    exact ⟨a, fun _ => b, fun _ => c⟩
  | tick ms =>
    obtain ⟨a, b, c⟩ := quiet_fold [.tick ms] s hg (by simp [quiet])
    exact ⟨a, fun _ => b, fun _ => c⟩

theorem expandAll_ok (ops : List SentFrames.Op) (s : State) (hg : s.guard = none) (h : CallerOk ops) :
    ((expandAll ops).foldl step s).guard = none ∧ ((expandAll ops).foldl step s).leaked = s.leaked ∧
    ((expandAll ops).foldl step s).emptyBuilds = s.emptyBuilds := by
  induction ops generalizing s with
  | nil => exact ⟨hg, rfl, rfl⟩
  | cons op ops ih =>
    obtain ⟨a, b, c⟩ := expand_ok s hg op
    obtain ⟨h1, h2⟩ := h op (by simp)
    obtain ⟨a', b', c'⟩ := ih ((expand op).foldl step s) a (fun o ho => h o (by simp [ho]))
    simp only [expandAll, List.flatMap_cons, List.foldl_append] at a' b' c' ⊢
    exact ⟨a', by rw [b', b h1], by rw [c', c h2]⟩

/-- **One predicate discharges all three caller obligations.** -/
theorem callerOk_discharges (ops : List SentFrames.Op) (h : CallerOk ops) :
    (∀ op ∈ ops, op.plain = true) ∧
    SentJournal.NoEmptyBuild (expandAll ops) ∧ SentJournal.NoAbandonAfterRecord (expandAll ops) := by
  obtain ⟨_, b, c⟩ := expandAll_ok ops SentJournal.init rfl h
  exact ⟨fun op ho => (h op ho).1, c, b⟩

/-! ### the headline theorems under the single predicate -/

/-- C07's headline under `CallerOk`: the packets that leave carry strictly increasing packet numbers, and between guards
every frame in `queue` is accounted for by a record. -/
theorem c07_headline_callerOk (ops : List SentFrames.Op) (h : CallerOk ops) :
    (SentJournal.builtPns ((expandAll ops).foldl step SentJournal.init)).Pairwise (· < ·) ∧
    (((expandAll ops).foldl step SentJournal.init).poisoned = none →
      SentJournal.sumFrames ((expandAll ops).foldl step SentJournal.init).j.recs =
        ((expandAll ops).foldl step SentJournal.init).j.queueLen) := by
  obtain ⟨_, h1, h2⟩ := callerOk_discharges ops h
  obtain ⟨hg, _, _⟩ := expandAll_ok ops SentJournal.init rfl h
  exact ⟨SentJournal.pn_strictly_increasing _ h1, fun hp => SentJournal.queue_records_agree _ h2 hp hg⟩

/-- C10's headline under `CallerOk`: after the same history `on_packet_acked(pn)` yields exactly the frames recorded
for `pn`. -/
theorem c10_headline_callerOk (ops : List SentFrames.Op) (h : CallerOk ops) (pn : Nat) :
    ∃ s', SentFrames.touchFrames (SentFrames.runFrom SentFrames.init ops) pn Rec.beAcked =
        some (s', SentFrames.live (SentFrames.runFrom SentFrames.init ops) pn) ∧
      (pn < (SentFrames.runFrom SentFrames.init ops).largest → SentFrames.Settled s' pn) :=
  Props.C10.acked_frames_exact ops (callerOk_discharges ops h).1 pn

/-- the obligations are the same ones: C10's excluded `leak` IS C07's abandon-after-record, and the `pkt [] false`
that `CallerOk` excludes IS C07's empty build (C10's model answers it with `pn none`: "number not consumed") -/
theorem obligations_correspond :
    ¬ SentJournal.NoAbandonAfterRecord (expandAll [.leak [7]]) ∧
    ¬ SentJournal.NoEmptyBuild (expandAll [.pkt [] false 1 1]) ∧
    (SentFrames.step SentFrames.init (.pkt [] false 1 1)).2 = .pn none := by
  refine ⟨by decide, by decide, by decide⟩

-- non-vacuity: a `CallerOk` history with data packets, a trivial packet, an ACK frame, loss marking, rotation, ticks
example : CallerOk [.pkt [1, 2] false 5 9, .pkt [] true 5 9, .pkt [3] true 5 9, .ack ⟨1, 0, 0, []⟩, .lost [0, 2], .rotate,
      .tick 20, .acked [2]] ∧
    SentJournal.builtPns ((expandAll [.pkt [1, 2] false 5 9, .pkt [] true 5 9, .pkt [3] true 5 9, .ack ⟨1, 0, 0, []⟩,
      .lost [0, 2], .rotate, .tick 20, .acked [2]]).foldl step SentJournal.init) = [0, 1, 2] := by
  refine ⟨?_, by decide⟩
  intro op ho
  simp only [List.mem_cons, List.mem_nil_iff, or_false] at ho
  rcases ho with rfl | rfl | rfl | rfl | rfl | rfl | rfl | rfl <;> exact ⟨rfl, fun _ _ h => by cases h⟩

end GmQuic.Links
