import GmQuic.Props.C01
import GmQuic.Props.C11
/-!
Link C11 ↔ C01, sender side: C01's sending half, projected on its window-relevant fields, IS a history of C11's
whole-sender model `Sndr` (`Model/StreamWindow.lean`), so C11's `stream_limit_respected_all` speaks about every frame
C01's sender emits.

Projection (`SR`): `maxData`, `|written|`, `sentHi` are equal; C11's `finReq` is C01's `shutdown` flag
(`Ready`/`Sending`) resp. `true` (`DataSent`); C11's `finSent` is "C01 has left `Ready`/`Sending`"; C11's `rst` is set
when C01 is reset.  One C01 operation is 0, 1 or 2 C11 operations:
* a legal `pick off len` is ONE C11 `emit` — fresh (`off = sentHi`), retransmission (`off+len ≤ sentHi`) or the
  FIN-only frame — except that C01's may-relation also allows a range that *straddles* `sentHi` (lost bytes followed by
  never-sent ones), which C11's `emit` refuses: such a pick is TWO C11 emissions (`[off, sentHi)` as a retransmission,
  `[sentHi, off+len)` as fresh data) with the same end offset.  C09's `pickOk` (uniformly coloured ranges) never
  produces a straddling range, so for the transliterated buffer it is always one emission.
* `deliverMsd i` is C11's `msd m` when C01's sender looks at it (`Ready`/`Sending`, no connection error), nothing otherwise
  (C11's `Sndr` has no connection-error state).
-/
namespace GmQuic.Links
open GmQuic.StreamWindow

/-- C01's sender `s` and C11's `t` agree on everything the stream window depends on -/
structure SR (s : Stream.Sender) (t : Sndr) : Prop where
  inv : t.Inv
  maxData : t.half.maxData = s.maxData
  written : t.half.written = s.written.length
  sentHi : t.half.sentHi = s.sentHi
  live : s.live = true → t.rst = none
  early : s.st = .ready ∨ s.st = .sending → t.half.finReq = s.shutdown ∧ t.half.finSent = false
  sent : s.st = .dataSent → t.half.finReq = true

theorem sr_init (w : Nat) : SR ({ maxData := w } : Stream.Sender) (Sndr.init w) where
  inv := Sndr.inv_init w
  maxData := rfl
  written := rfl
  sentHi := rfl
  live := fun _ => rfl
  early := fun _ => ⟨rfl, rfl⟩
  sent := fun h => by cases h

/-- `s'` differs from `s` only in ways the projection does not see (or sees as "fewer obligations") -/
structure Weaker (s s' : Stream.Sender) : Prop where
  maxData : s'.maxData = s.maxData
  written : s'.written.length = s.written.length
  sentHi : s'.sentHi = s.sentHi
  live : s'.live = true → s.live = true
  early : s'.st = .ready ∨ s'.st = .sending → (s.st = .ready ∨ s.st = .sending) ∧ s'.shutdown = s.shutdown
  sent : s'.st = .dataSent → s.st = .dataSent

theorem SR.weaker {s s' : Stream.Sender} {t : Sndr} (h : SR s t) (w : Weaker s s') : SR s' t where
  inv := h.inv
  maxData := by rw [w.maxData]; exact h.maxData
  written := by rw [w.written]; exact h.written
  sentHi := by rw [w.sentHi]; exact h.sentHi
  live := fun hl => h.live (w.live hl)
  early := fun he => by
    obtain ⟨h1, h2⟩ := w.early he
    rw [h2]; exact h.early h1
  sent := fun hd => h.sent (w.sent hd)

theorem Weaker.refl (s : Stream.Sender) : Weaker s s :=
  ⟨rfl, rfl, rfl, id, fun h => ⟨h, rfl⟩, id⟩

macro "weaker_tac" : tactic => `(tactic|
  first
  | exact Weaker.refl _
  | exact ⟨rfl, rfl, rfl, id, fun h => ⟨h, rfl⟩, id⟩
  | (refine ⟨rfl, rfl, rfl, ?_, ?_, ?_⟩ <;> simp_all [Stream.Sender.live]))

theorem weaker_touch (s : Stream.Sender) : Weaker s s.touch := by
  unfold Stream.Sender.touch
  split
  · rename_i h
    simp only [Bool.and_eq_true, Bool.not_eq_eq_eq_not, Bool.not_true, beq_iff_eq] at h
    refine ⟨rfl, rfl, rfl, ?_, fun _ => ⟨Or.inl h.2, rfl⟩, fun hc => (by cases hc)⟩
    intro _
    simp [Stream.Sender.live, h.1, h.2]
  · exact Weaker.refl s

theorem weaker_ack (s : Stream.Sender) (f : Stream.Frame) : Weaker s (s.ack f) := by
  unfold Stream.Sender.ack
  split
  · weaker_tac
  · split
    · weaker_tac
    · dsimp only
      (repeat' split) <;> weaker_tac
    · weaker_tac
    · weaker_tac

theorem weaker_lose (s : Stream.Sender) (f : Stream.Frame) : Weaker s (s.lose f) := by
  unfold Stream.Sender.lose
  (repeat' split) <;> weaker_tac

theorem weaker_cancel (s : Stream.Sender) : Weaker s s.cancel.1 := by
  unfold Stream.Sender.cancel
  (repeat' split) <;> weaker_tac

theorem weaker_beStopped (s : Stream.Sender) : Weaker s s.beStopped.1 := by
  unfold Stream.Sender.beStopped
  (repeat' split) <;> weaker_tac

theorem weaker_resetAcked (s : Stream.Sender) : Weaker s s.resetAcked := by
  unfold Stream.Sender.resetAcked
  (repeat' split) <;> weaker_tac

theorem weaker_connError (s : Stream.Sender) : Weaker s s.connError := by
  unfold Stream.Sender.connError
  (repeat' split) <;> weaker_tac

/-! ### C11 emissions, explicitly -/

theorem emit_retrans (t : Sndr) (a b : Nat) (fin : Bool) (hr : t.rst = none) (hab : a ≤ b)
    (hm : b ≤ t.half.maxData) (hw : b ≤ t.half.written)
    (hf : fin = true → t.half.finReq = true ∧ b = t.half.written) (hs : b ≤ t.half.sentHi) :
    t.step (.half (.emit a b fin 0)) =
      { t with half := { t.half with finSent := t.half.finSent || fin, emitted := t.half.emitted ++ [(a, b)] } } := by
  have h1 : ¬ (a = t.half.sentHi ∧ a < b) := by omega
  have h0 : a ≤ b ∧ b ≤ t.half.maxData ∧ b ≤ t.half.written ∧ (fin = true → t.half.finReq = true ∧ b = t.half.written) :=
    ⟨hab, hm, hw, hf⟩
  simp only [Sndr.step, Sndr.emit, hr, Option.isSome_none, Bool.false_eq_true, if_false, SendHalf.emit, if_pos h0,
    if_neg h1, if_pos hs]

theorem emit_fresh (t : Sndr) (a b : Nat) (fin : Bool) (hr : t.rst = none) (ha : a = t.half.sentHi) (hab : a < b)
    (hm : b ≤ t.half.maxData) (hw : b ≤ t.half.written)
    (hf : fin = true → t.half.finReq = true ∧ b = t.half.written) :
    t.step (.half (.emit a b fin (b - a))) =
      { t with half := { t.half with sentHi := b, finSent := t.half.finSent || fin,
                                     emitted := t.half.emitted ++ [(a, b)], charged := t.half.charged + (b - a) } } := by
  have h1 : a = t.half.sentHi ∧ a < b := ⟨ha, hab⟩
  have h0 : a ≤ b ∧ b ≤ t.half.maxData ∧ b ≤ t.half.written ∧ (fin = true → t.half.finReq = true ∧ b = t.half.written) :=
    ⟨by omega, hm, hw, hf⟩
  simp only [Sndr.step, Sndr.emit, hr, Option.isSome_none, Bool.false_eq_true, if_false, SendHalf.emit, if_pos h0,
    if_pos h1, Nat.le_refl, if_true]

/-- C01's emitted frames, as far as C11 sees them: every frame end is the end of a C11 emission -/
def EmOk (S : Stream.Stream) (t : Sndr) : Prop := ∀ f ∈ S.emitted, ∃ r ∈ t.half.emitted, r.2 = f.stop

end GmQuic.Links
