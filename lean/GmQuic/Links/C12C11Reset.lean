import GmQuic.Model.StreamRules
import GmQuic.Links.C11Rcvr
/-!
Link C12 ↔ C11 ↔ C01 on RESET_STREAM.  C12's endpoint answers a RESET_STREAM through `resetRx` (its own transcription of
`Incoming::recv_reset`, over C11's receiving half); C11 models the same code path as `Rcvr.reset` (whole receiver, with the
flow-control ghost `charged`); C01 models it as `Recver.rxReset` (real payload).  The three were written and validated
separately (C12e, C11s, C01 runs).  Here: for EVERY live receiver and EVERY final size the three verdicts are the same, and
the error C12's endpoint raises is the one C11 predicts — so C12's final-size theorems and C11's flow-control theorems talk
about one receiver, not two.
-/
namespace GmQuic.Links
open GmQuic.StreamWindow
open GmQuic.StreamRules

/-- C12's verdict in C11's vocabulary -/
def toRst : ResetObs → RstObs
  | .sync n => .sync n
  | .finalSize => .finalSize
  | .flowControl => .flowControl

/-- **C12's `resetRx` is C11's `Rcvr.reset`** on every receiver that is still in the input set (`live`: not reset, not
`done` — exactly the receivers `DataStreams` can hand a RESET_STREAM to), for ANY final size. -/
theorem c12_reset_is_c11_reset (q : Rcvr) (final : Nat) (hl : q.live = true) :
    (resetRx q.half final).map toRst = some (q.reset true final).2 := by
  unfold Rcvr.live at hl
  simp only [Bool.and_eq_true, Option.isNone_iff_eq_none, bne_iff_ne, ne_eq] at hl
  obtain ⟨hr, hp⟩ := hl
  unfold resetRx Rcvr.reset
  simp only [hr, Option.isSome_none, Bool.false_eq_true, if_false, true_and]
  cases hph : q.half.phase with
  | recv =>
    simp only []
    by_cases c1 : final < q.half.largest
    · simp [c1, toRst]
    · by_cases c2 : final > q.half.msd
      · simp [c1, c2, toRst]
      · simp [c1, c2, toRst]
  | sizeKnown fs =>
    simp only []
    by_cases c1 : final ≠ fs
    · simp [c1, toRst]
    · simp [c1, toRst]
  | done => exact absurd hph hp

/-- Outside the input set C12's `resetRx` is only reachable in the `done` phase, where it is the `unreachable!()` arm;
C11 ignores the frame there (`sync 0`): the two models differ ONLY on states `DataStreams` never dispatches to. -/
theorem c12_reset_none_iff (h : RecvHalf) (final : Nat) : resetRx h final = none ↔ h.phase = .done := by
  unfold resetRx
  cases h.phase with
  | recv => simp only []; split <;> (try split) <;> simp
  | sizeKnown fs => simp only []; split <;> simp
  | done => simp

/-- **Three models, one verdict**: C01's `Recver.rxReset`, C11's `Rcvr.reset` and C12's `resetRx` agree on every related
live receiver and any final size. -/
theorem reset_three_models_agree {r : Stream.Recver} {q : Rcvr} (h : RR r q) (final : Nat) (hl : q.live = true) :
    (resetRx q.half final).map toRst = some (obsRst (r.rxReset final).2) := by
  rw [reset_models_agree h final]; exact c12_reset_is_c11_reset q final hl

/-- **The connection error C12's endpoint raises for a RESET_STREAM is the one C11 predicts**: for any endpoint whose input
set holds the receiving half of a live C11 receiver under stream `s` — FINAL_SIZE_ERROR / FLOW_CONTROL_ERROR exactly when
C11's `Rcvr.reset` says so (endpoint unchanged), otherwise the frame is accepted and the number of newly accounted bytes
(`sync n`, what `on_new_rcvd` is charged with) is C11's. -/
theorem c12_endpoint_reset_verdict (e : Endpoint) (ms : List (GmQuic.Sid.Dir × Nat)) (s final b : Nat) (fin : Bool)
    (q : Rcvr) (hl : q.live = true) (hin : lookup e.inputs s = some q.half) :
    match (q.reset true final).2 with
    | .finalSize => e.deliver ms .resetStream s final b fin = (e, .err .finalSize)
    | .flowControl => e.deliver ms .resetStream s final b fin = (e, .err .flowControl)
    | .sync n => (e.deliver ms .resetStream s final b fin).2 = .panic ∨
        ∃ ms2, (e.deliver ms .resetStream s final b fin).2 = .ok n (ms ++ ms2) := by
  have hk := c12_reset_is_c11_reset q final hl
  unfold Endpoint.deliver
  simp only [hin]
  cases ho : resetRx q.half final with
  | none => simp [ho] at hk
  | some o =>
    rw [ho] at hk
    simp only [Option.map_some, Option.some.injEq] at hk
    rw [← hk]
    cases o with
    | finalSize => simp only [toRst]
    | flowControl => simp only [toRst]
    | sync n =>
      simp only [toRst]
      split
      · exact Or.inl rfl
      · exact Or.inr ⟨_, rfl⟩

/-! ### STREAM frames: C12's endpoint and C01's receiver

`Endpoint.deliver .stream` runs C11's `RecvHalf.rx true` itself, so C12 = C11 there by construction; with `hr_rx` the verdict is
also C01's, for ANY frame (not only frames of a conformant sender). -/

/-- C01's error string as C12's connection-error kind -/
def errKind (k : String) : ErrKind := if k = "FlowControl" then .flowControl else .finalSize

/-- **The connection error C12's endpoint raises for a STREAM frame is the one C01's receiver raises**, and an accepted frame
reports C01's number of newly covered bytes: for any endpoint whose input set holds, under stream `s`, a receiving half related
(`HR`, up to payload bytes) to a C01 receiver `r`, and ANY frame `f`. -/
theorem c12_endpoint_stream_verdict (e : Endpoint) (ms : List (GmQuic.Sid.Dir × Nat)) (s : Nat) (f : Stream.Frame)
    {r : Stream.Recver} {hh : RecvHalf} (h : HR r hh none) (hin : lookup e.inputs s = some hh) :
    match (r.rx f).2 with
    | .error k => e.deliver ms .stream s f.off f.data.length f.fin = (e, .err (errKind k))
    | .ok n => (e.deliver ms .stream s f.off f.data.length f.fin).2 = .panic ∨
        ∃ ms', (e.deliver ms .stream s f.off f.data.length f.fin).2 = .ok n ms' := by
  have hk := (hr_rx h rfl f).1
  unfold Endpoint.deliver
  simp only [hin]
  cases ho : (r.rx f).2 with
  | error k =>
    rw [ho] at hk
    simp only [obsRx] at hk
    by_cases c : k = "FlowControl"
    · simp only [c, if_true] at hk; simp only [hk, errKind, c, if_true]
    · simp only [c, if_false] at hk; simp only [hk, errKind, c, if_false]
  | ok n =>
    rw [ho] at hk
    simp only [obsRx] at hk
    simp only [hk]
    split
    · split
      · exact Or.inl rfl
      · exact Or.inr ⟨_, rfl⟩
    · exact Or.inr ⟨_, rfl⟩

-- non-vacuity: a live receiver with limit 100 that has seen 10 bytes: 5 ↦ FINAL_SIZE, 5000 ↦ FLOW_CONTROL, 60 ↦ 50 new bytes
example : let q : Rcvr := { half := { msd := 100, init := 100, largest := 10 } }
    q.live = true ∧ resetRx q.half 5 = some .finalSize ∧ resetRx q.half 5000 = some .flowControl ∧
    resetRx q.half 60 = some (.sync 50) ∧ (q.reset true 60).2 = .sync 50 := by decide

-- non-vacuity of the STREAM premises: a fresh C01 receiver with limit 100 is related to the half C12 stores for stream 4
example : HR ({ maxSD := 100 } : Stream.Recver) (RecvHalf.mk0 100) none ∧
    (lookup [(4, RecvHalf.mk0 100)] 4).isSome = true ∧
    (({ maxSD := 100 } : Stream.Recver).rx { off := 90, data := List.replicate 20 0, fin := false }).2 = .error "FlowControl" :=
  ⟨(rr_init 100).hr, by decide, by rfl⟩

end GmQuic.Links
