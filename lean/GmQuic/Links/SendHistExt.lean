import GmQuic.Links.SendHist
import GmQuic.Props.C01
/-!
Link C09 ⊑ C01 (sender side), round 2: `extend` (= `update_window`, a MAX_STREAM_DATA frame reaching the sender) at history
level.  `spec_trace_is_c01_history` starts from `Stream.init`, where the receiving half has emitted no MAX_STREAM_DATA yet, so
it has to exclude `extend`.  Here the data-phase history theorem is stated from ANY C01 stream `S0` whose sender carries the
buffer: `extend m` is allowed for every value `m` the receiving half of `S0` has emitted (`m ∈ S0.msds`; the mirrored history
does not touch the receiver, so `msds` stays what it was), acknowledgements / loss reports may also name frames `S0` had
already emitted.
-/
namespace GmQuic.Links
open GmQuic.SendSpec

def OpOkE (ms : List Nat) (rs : List (Nat × Nat)) : SendOp → Prop
  | .ack a b => (a, b) ∈ rs
  | .lose a b => (a, b) ∈ rs
  | .write _ => True
  | .pick _ _ => True
  | .extend m => m ∈ ms
  | .resend => False
  | .forget => False

def discE (ms : List Nat) (rs : List (Nat × Nat)) : List (SendOp × SendObs) → Prop
  | [] => True
  | e :: tr => OpOkE ms rs e.1 ∧ discE ms (rs ++ obsRange e.2) tr

theorem discE_snoc (ms : List Nat) (rs : List (Nat × Nat)) (tr : List (SendOp × SendObs)) (e : SendOp × SendObs) :
    discE ms rs (tr ++ [e]) ↔ discE ms rs tr ∧ OpOkE ms (rs ++ pickedRanges tr) e.1 := by
  induction tr generalizing rs with
  | nil => simp [discE, pickedRanges]
  | cons x t ih =>
    obtain ⟨op, obs⟩ := x
    simp only [List.cons_append, discE, ih]
    have : pickedRanges ((op, obs) :: t) = obsRange obs ++ pickedRanges t := by cases obs <;> rfl
    rw [this, List.append_assoc, and_assoc]

/-- **Data-phase histories with window updates**, from any C01 stream whose sender carries the buffer. -/
theorem data_phase_history (S0 : Stream.Stream) (p0 : SendSpec) (h0 : Sim p0 S0.snd) (hI0 : Inv p0)
    (tr : List (SendOp × SendObs)) (p : SendSpec) (ht : Trace.Ok p0 tr p)
    (hd : discE S0.msds (ranges S0.emitted) tr) :
    ∃ ops : List Stream.Op, Sim p (S0.run ops).snd ∧
      ranges (S0.run ops).emitted = ranges S0.emitted ++ pickedRanges tr ∧
      (S0.run ops).rcv = S0.rcv ∧ (S0.run ops).msds = S0.msds ∧ ops.length = tr.length := by
  induction ht with
  | nil => exact ⟨[], h0, by simp [Stream.Stream.run, pickedRanges], rfl, rfl, rfl⟩
  | @snoc tr0 p1 op obs p2 ht hs ih =>
    obtain ⟨hd0, hop⟩ := (discE_snoc _ _ tr0 (op, obs)).1 hd
    obtain ⟨ops, hsim, hrg, hrcv, hms, hlen⟩ := ih hd0
    have hI : Inv p1 := Inv.trace ht hI0
    have hside : StreamSide (S0.run ops) op := by
      cases op with
      | ack a b =>
        have hm : (a, b) ∈ ranges (S0.run ops).emitted := by rw [hrg]; exact hop
        obtain ⟨f, hf, he⟩ := List.mem_map.1 hm
        obtain ⟨i, hi, hif⟩ := List.getElem_of_mem hf
        simp only [Prod.mk.injEq] at he
        exact ⟨i, f, by rw [List.getElem?_eq_getElem hi, hif], he.1, he.2⟩
      | lose a b =>
        have hm : (a, b) ∈ ranges (S0.run ops).emitted := by rw [hrg]; exact hop
        obtain ⟨f, hf, he⟩ := List.mem_map.1 hm
        obtain ⟨i, hi, hif⟩ := List.getElem_of_mem hf
        simp only [Prod.mk.injEq] at he
        exact ⟨i, f, by rw [List.getElem?_eq_getElem hi, hif], he.1, he.2⟩
      | extend m =>
        have hm : m ∈ (S0.run ops).msds := by rw [hms]; exact hop
        obtain ⟨i, hi, hif⟩ := List.getElem_of_mem hm
        exact ⟨i, by rw [List.getElem?_eq_getElem hi, hif]⟩
      | write _ => simp [StreamSide]
      | pick _ _ => simp [StreamSide]
      | resend => exact hop.elim
      | forget => exact hop.elim
    obtain ⟨o, g1, g2, g3, g4, _, _, _, _⟩ := sim_stream_step (S0.run ops) hsim hI hs hside
    have hrun : S0.run (ops ++ [o]) = (S0.run ops).step o := by rw [Stream.run_append]; rfl
    refine ⟨ops ++ [o], by rw [hrun]; exact g1, ?_, by rw [hrun, g3]; exact hrcv, by rw [hrun, g4]; exact hms,
      by simp [hlen]⟩
    rw [hrun, g2, pickedRanges_append, pickedRanges_single, ← List.append_assoc, ← hrg]
    unfold ranges
    rw [List.map_append]
    congr 1
    apply ranges_obsFrames
    intro a b fr ho
    subst ho
    obtain ⟨pred, flow, rfl, hp⟩ := stepOk_range hs
    obtain ⟨_, _, hab, _⟩ := pickOk_range hp
    exact ⟨Nat.le_of_lt hab, (sim_pick hsim hI hp).2.2.1⟩

-- non-vacuity: a C01 stream (receiver window 10) whose receiving half has emitted MAX_STREAM_DATA 2000004 after a read, and
-- whose sender is still in the data phase: `extend 2000004` is allowed by `discE`
example :
    let S0 := Stream.after 10 10 [.write [1, 2, 3, 4, 5, 6], .pick 0 4, .deliver 0, .read 4]
    S0.msds = [2000004] ∧ S0.snd.st = .sending ∧ S0.snd.shutdown = false ∧
    discE S0.msds (ranges S0.emitted) [(.extend 2000004, .unit), (.ack 0 4, .unit)] := by
  refine ⟨by decide, by decide, by decide, ?_⟩
  have h1 : (Stream.after 10 10 [.write [1, 2, 3, 4, 5, 6], .pick 0 4, .deliver 0, .read 4]).msds = [2000004] := by decide
  have h2 : ranges (Stream.after 10 10 [.write [1, 2, 3, 4, 5, 6], .pick 0 4, .deliver 0, .read 4]).emitted = [(0, 4)] := by
    decide
  simp only [h1, h2, discE, OpOkE, obsRange]
  simp

end GmQuic.Links
