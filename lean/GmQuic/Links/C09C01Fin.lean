import GmQuic.Links.C09C01
import GmQuic.Links.SendHistFin
/-!
Link C09 ⊑ C01 (sender side), round 3: the corollary about the transliterated Rust algorithm through `shutdown` and the FIN.
`run_refines` (C09, `Lemmas/BufMapRefine.lean`) holds from ANY pair `Rel b₀ s₀`, so the refinement of the FIN-phase run of the
transliterated `SendBuf`/`BufMap` — which starts in the state the data phase left — composes with `refines_spec` for the data
phase and with `spec_trace_with_fin_is_c01_history`: a run of the transliteration = data phase, the application's `shutdown`,
FIN phase (the data+FIN frame, retransmissions, acknowledgements and loss reports of every frame sent so far, up to and beyond
`DataRcvd`) IS the sender side of the C01 history `ops1 ++ [shutdown] ++ ops2`.
-/
namespace GmQuic.Links
open GmQuic.SendSpec GmQuic.BufMap

/-- nothing is written in the FIN phase -/
theorem discF_no_write (rs : List (Nat × Nat)) (tr : List (SendOp × SendObs)) (h : discF rs tr) :
    writtenBytes tr = [] := by
  induction tr generalizing rs with
  | nil => rfl
  | cons e t ih =>
    obtain ⟨op, obs⟩ := e
    simp only [discF] at h
    obtain ⟨hok, hrest⟩ := h
    cases op with
    | write bs => exact hok.elim
    | pick pr fl => simpa [writtenBytes] using ih _ hrest
    | ack a b => simpa [writtenBytes] using ih _ hrest
    | lose a b => simpa [writtenBytes] using ih _ hrest
    | extend m => exact hok.elim
    | resend => exact hok.elim
    | forget => exact hok.elim

/-- **C09 ⊑ C01 for the Rust algorithm, data phase + `shutdown` + FIN phase.**  `tr1`: a frame-disciplined run of the
transliterated buffer from `with_capacity(cap)`; `tr2`: its continuation after the application called `shutdown` — only
`pick_up`, `on_data_acked`, `may_loss_data` (`discF`: acknowledgements / loss reports name ranges `pick_up` returned in `tr1` or
earlier in `tr2`).  Then there are C01 operations `ops1`, `ops2` such that after `ops1 ++ [shutdown] ++ ops2` C01's sender holds
the very same buffer (`status x = col (BufMap.abs x)` for the final run list, same written bytes, same window), the FIN was
requested, and the STREAM frames C01 emitted are exactly the ranges `pick_up` returned in `tr1` and `tr2`, in order. -/
theorem bufmap_history_with_fin_is_c01_sender_history (cap rw : Nat) (tr1 tr2 : List (SendOp × SendObs))
    (b1 b2 : SendBuf) (h1 : XRun (SendBuf.withCapacity cap) tr1 b1) (hd1 : Disciplined tr1)
    (h2 : XRun b1 tr2 b2) (hd2 : discF (pickedRanges tr1) tr2) :
    ∃ ops1 ops2 : List Stream.Op,
      (∀ x, (Stream.after cap rw (ops1 ++ [.shutdown] ++ ops2)).snd.status x = col (b2.state.abs x)) ∧
      (Stream.after cap rw (ops1 ++ [.shutdown] ++ ops2)).snd.written = writtenBytes tr1 ∧
      (Stream.after cap rw (ops1 ++ [.shutdown] ++ ops2)).snd.written.length = b2.written ∧
      (Stream.after cap rw (ops1 ++ [.shutdown] ++ ops2)).snd.maxData = b2.maxData ∧
      ranges (Stream.after cap rw (ops1 ++ [.shutdown] ++ ops2)).emitted = pickedRanges tr1 ++ pickedRanges tr2 ∧
      (Stream.after cap rw (ops1 ++ [.shutdown])).snd.shutdown = true ∧
      ∃ p, Rel b2 p ∧ SimF p (Stream.after cap rw (ops1 ++ [.shutdown] ++ ops2)).snd := by
  obtain ⟨p1, ht1, hR1⟩ := refines_spec cap tr1 b1 h1
  obtain ⟨p2, ht2, hR2⟩ := run_refines ackRefines shiftRefines pickRefines b1 p1 hR1 tr2 b2 h2 (fun _ => lossRefines)
  obtain ⟨ops1, ops2, hsim, hrg, hsh⟩ := spec_trace_with_fin_is_c01_history cap rw tr1 tr2 p1 p2 ht1 hd1 ht2 hd2
  have hdata : p2.data = writtenBytes tr1 ++ writtenBytes tr2 := by
    rw [trace_data ht2, reachable_data ht1]
  have hnow : writtenBytes tr2 = [] := discF_no_write _ tr2 hd2
  refine ⟨ops1, ops2, ?_, ?_, ?_, ?_, hrg, hsh, p2, hR2, hsim⟩
  · intro x; rw [hsim.status, hR2.colour]
  · rw [hsim.written, hdata, hnow, List.append_nil]
  · rw [hsim.written, hR2.written]
  · rw [hsim.maxData, hR2.maxData]

/-! ### non-vacuity: 6 bytes written, 4 sent; `shutdown`; the remaining 2 leave (they carry the FIN in C01); both frames
acknowledged — the run list of the transliteration ends empty with `offset = 6` -/

def exRunA : List (SendOp × SendObs) :=
  [] ++ [(.write [1, 2, 3, 4, 5, 6], .unit)] ++ [(.pick (fun _ => some 4) 100, .range 0 4 true)]

def exRunB : List (SendOp × SendObs) :=
  [] ++ [(.pick (fun _ => some 4) 100, .range 4 6 true)] ++ [(.ack 0 4, .unit)] ++ [(.ack 4 6, .unit)]

def exB6 : SendBuf := { offset := 0, chunks := [6], maxData := 10, state := { runs := [(0, .flighting)], size := 6 } }
def exB7 : SendBuf := { offset := 4, chunks := [2], maxData := 10, state := { runs := [(4, .flighting)], size := 6 } }
def exB8 : SendBuf := { offset := 6, chunks := [], maxData := 10, state := { runs := [], size := 6 } }

theorem exRunA_ok : XRun exB0 exRunA exB2 := by
  have h1 : XRun exB0 ([] ++ [(.write [1, 2, 3, 4, 5, 6], .unit)]) exB1 :=
    XRun.snoc (XRun.nil _) (by simp [DomX, exB0, SendBuf.withCapacity, SendBuf.written]) rfl
  exact XRun.snoc (obs := .range 0 4 true) (b' := exB2) h1
    (show DomX exB1 (.pick (fun _ => some 4) 100) from by intro x n h; simp at h; subst h; omega) rfl

theorem exRunB_ok : XRun exB2 exRunB exB8 := by
  have h1 := XRun.snoc (obs := .range 4 6 true) (b' := exB6) (XRun.nil exB2)
    (show DomX exB2 (.pick (fun _ => some 4) 100) from by intro x n h; simp at h; subst h; omega) rfl
  have h2 := XRun.snoc (op := .ack 0 4) (obs := .unit) (b' := exB7) h1
    (by
      refine ⟨by omega, by decide, fun x h1 h2 => ?_⟩
      have : x = 0 ∨ x = 1 ∨ x = 2 ∨ x = 3 := by omega
      rcases this with rfl | rfl | rfl | rfl <;> decide) rfl
  exact XRun.snoc (op := .ack 4 6) (obs := .unit) (b' := exB8) h2
    (by
      refine ⟨by omega, by decide, fun x h1 h2 => ?_⟩
      have : x = 4 ∨ x = 5 := by omega
      rcases this with rfl | rfl <;> decide) rfl

-- every hypothesis of `bufmap_history_with_fin_is_c01_sender_history` is satisfiable …
example : XRun (SendBuf.withCapacity 10) exRunA exB2 ∧ Disciplined exRunA ∧ XRun exB2 exRunB exB8 ∧
    discF (pickedRanges exRunA) exRunB :=
  ⟨exRunA_ok, by simp [Disciplined, exRunA, disc, OpOk], exRunB_ok,
   by simp [exRunA, exRunB, discF, OpOkF, obsRange, pickedRanges]⟩

-- … and the mirrored C01 history ends in `DataRcvd` with every byte acknowledged, as the empty run list says
example :
    let S := Stream.after 10 10 [.write [1, 2, 3, 4, 5, 6], .pick 0 4, .shutdown, .pick 4 2, .ack 0, .ack 1]
    S.snd.st = .dataRcvd ∧ ranges S.emitted = pickedRanges exRunA ++ pickedRanges exRunB ∧
    (∀ x, x < 8 → S.snd.status x = col (exB8.state.abs x)) := by decide

end GmQuic.Links
