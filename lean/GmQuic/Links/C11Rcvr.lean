import GmQuic.Links.C11Recv
import GmQuic.Props.C11
/-! Link C11 ↔ C01, receiver side, part 3: the whole receivers (`Recver` vs `Rcvr`). -/
namespace GmQuic.Links
open GmQuic.StreamWindow
open GmQuic.RecvBuf (SameShape)

/-! ### the whole receivers: `Rcvr` -/

/-- C01's `Recver` and C11's `Rcvr` -/
structure RR (r : Stream.Recver) (q : Rcvr) : Prop where
  hr : HR r q.half q.rst
  stopped : q.stopped.isSome = r.stopped

theorem rr_init (w : Nat) : RR ({ maxSD := w } : Stream.Recver) (Rcvr.mk0 w) :=
  ⟨⟨rfl, ⟨rfl, rfl, rfl⟩, rfl, rfl, .recv rfl rfl rfl rfl⟩, rfl⟩

theorem rx_stopped (r : Stream.Recver) (f : Stream.Frame) : (r.rx f).1.stopped = r.stopped := by
  unfold Stream.Recver.rx
  split
  · rfl
  · split
    · split
      · split
        · rfl
        · split
          · rfl
          · dsimp only
            split <;> rfl
      · split <;> rfl
    · split
      · rfl
      · split
        · rfl
        · dsimp only
          split <;> rfl
    · rfl

theorem rcvr_rx_fields (q : Rcvr) (hr : q.rst = none) (off len : Nat) (fin : Bool) :
    (q.rx true off len fin).2 = (q.half.rx true off len fin).2 ∧
    (q.rx true off len fin).1.half = (q.half.rx true off len fin).1 ∧
    (q.rx true off len fin).1.rst = none ∧ (q.rx true off len fin).1.stopped = q.stopped := by
  unfold Rcvr.rx
  simp only [hr, Option.isSome_none, Bool.false_eq_true, if_false]
  split
  · rename_i n hn
    exact ⟨hn.symm, rfl, (by first | rfl | exact hr), rfl⟩
  · exact ⟨rfl, rfl, (by first | rfl | exact hr), rfl⟩

/-- **C01's receiver and C11's receiver give the same answer to every STREAM frame** and stay related. -/
theorem rr_rx {r : Stream.Recver} {q : Rcvr} (h : RR r q) (f : Stream.Frame) :
    (q.rx true f.off f.data.length f.fin).2 = obsRx (r.rx f).2 ∧
    RR (r.rx f).1 (q.rx true f.off f.data.length f.fin).1 := by
  cases hq : q.rst with
  | none =>
    obtain ⟨g1, g2, g3, g4⟩ := rcvr_rx_fields q hq f.off f.data.length f.fin
    obtain ⟨k1, k2⟩ := hr_rx h.hr hq f
    exact ⟨by rw [g1, k1], ⟨by rw [g2, g3]; exact k2, by rw [g4, rx_stopped]; exact h.stopped⟩⟩
  | some v =>
    have hh := h.hr
    cases hh.ph with
    | recv _ h2 _ _ => rw [hq] at h2; cases h2
    | sized _ h2 _ _ => rw [hq] at h2; cases h2
    | done _ h2 _ _ => rw [hq] at h2; cases h2
    | reset h1 h2 h3 =>
      have e1 : r.rx f = (r, .ok 0) := by unfold Stream.Recver.rx; simp [h1]
      have e2 : q.rx true f.off f.data.length f.fin = (q, .fresh 0) := by unfold Rcvr.rx; simp [hq]
      rw [e1, e2]
      exact ⟨rfl, h⟩

/-! ### what the agreement buys: the peer hypothesis of C01, discharged by C11's theorem about the peer -/

/-- C01's receiver raises FLOW_CONTROL_ERROR only for a frame that ends beyond its advertised limit. -/
theorem c01_flow_error_only_beyond_limit (r : Stream.Recver) (f : Stream.Frame)
    (h : (r.rx f).2 = .error "FlowControl") : f.stop > r.maxSD := by
  unfold Stream.Recver.rx at h
  split at h
  · cases h
  · split at h
    · split at h
      · split at h
        · simp at h
        · split at h
          · assumption
          · dsimp only at h
            split at h <;> cases h
      · split at h
        · assumption
        · cases h
    · split at h
      · simp at h
      · split at h
        · simp at h
        · dsimp only at h
          split at h <;> cases h
    · cases h

/-- **No FLOW_CONTROL error for a C11-conformant sender.**  Take ANY history `tops` of C11's sender model `Sndr`
(writes, FIN, MAX_STREAM_DATA, every emission the relation allows, cancel, STOP_SENDING) whose granted limit does not
exceed what C01's receiver `r` advertises (`grantedOfT w tops ≤ r.maxSD`: the MAX_STREAM_DATA values it was given came
from this receiver).  Then no frame that sender emitted — delivered at any time, in any order, with or without FIN — is
answered with FLOW_CONTROL_ERROR by C01's receiver; and C11's receiver `q` related to `r` gives the same verdict.  The
premise "the peer respects the limit" of the receiver is a theorem about the peer's model (`stream_limit_respected_all`). -/
theorem c11_conformant_sender_no_flow_error (w : Nat) (tops : List TOp) (r : Stream.Recver) (q : Rcvr) (hrr : RR r q)
    (hg : grantedOfT w tops ≤ r.maxSD) (f : Stream.Frame)
    (hf : (f.off, f.stop) ∈ (Sndr.run w tops).half.emitted) :
    (r.rx f).2 ≠ .error "FlowControl" ∧ (q.rx true f.off f.data.length f.fin).2 ≠ .flowControl := by
  have hle : f.stop ≤ r.maxSD := Nat.le_trans ((stream_limit_respected_all w tops).1 _ hf) hg
  have h1 : (r.rx f).2 ≠ .error "FlowControl" := by
    intro hc
    have := c01_flow_error_only_beyond_limit r f hc
    omega
  refine ⟨h1, ?_⟩
  rw [(rr_rx hrr f).1]
  intro hc
  apply h1
  cases hres : (r.rx f).2 with
  | ok n => rw [hres] at hc; cases hc
  | error k =>
    rw [hres] at hc
    simp only [obsRx] at hc
    split at hc
    · rename_i hk; rw [hk]
    · cases hc

-- non-vacuity: a C11 sender history (window 10, MAX_STREAM_DATA 25) and a related pair of fresh receivers with limit 25
example : grantedOfT 10 [.half (.write 30), .half (.emit 0 10 false 100), .half (.msd 25), .half (.emit 10 25 false 100)]
      ≤ ({ maxSD := 25 } : Stream.Recver).maxSD ∧
    ((10 : Nat), (25 : Nat)) ∈ (Sndr.run 10 [.half (.write 30), .half (.emit 0 10 false 100), .half (.msd 25),
      .half (.emit 10 25 false 100)]).half.emitted ∧ RR ({ maxSD := 25 } : Stream.Recver) (Rcvr.mk0 25) :=
  ⟨by decide, by decide, rr_init 25⟩

/-- C01's answer to a RESET_STREAM frame, in C11's vocabulary -/
def obsRst : Except String Nat → RstObs
  | .ok n => .sync n
  | .error k => if k = "FlowControl" then .flowControl else .finalSize

/-- **The two models agree on RESET_STREAM** (they differed before: `reset_models_differ`, a finding of the link —
C01's `Recver.rxReset` lacked the FLOW_CONTROL branch of `Recv::recv_reset`, repair 2d10252).  For ANY related pair of
receivers (`RR r q`, every phase) and ANY final size — also one no conformant sender would send — C01's `rxReset` and C11's
`Rcvr.reset` with `rfix = true` (the current tree) give the same verdict: FINAL_SIZE below the largest offset seen /
different from the known final size, FLOW_CONTROL beyond the advertised limit (checked in that order), otherwise the
same number of newly accounted bytes; nothing when the entry is gone. -/
theorem reset_models_agree {r : Stream.Recver} {q : Rcvr} (h : RR r q) (final : Nat) :
    obsRst (r.rxReset final).2 = (q.reset true final).2 := by
  obtain ⟨⟨hne, _, hmsd, hlg, hph⟩, _⟩ := h
  unfold Stream.Recver.rxReset Rcvr.reset
  cases hph with
  | recv g rs st ph =>
    simp only [g, rs, st, ph, hne, hmsd, hlg, Bool.false_eq_true, if_false, Option.isSome_none, true_and]
    by_cases c1 : final < r.largest
    · simp [c1, obsRst]
    · by_cases c2 : final > r.maxSD
      · simp [c1, c2, obsRst]
      · simp [c1, c2, obsRst]
  | sized g rs st ph =>
    simp only [g, rs, st, ph, hne, Bool.false_eq_true, if_false, Option.isSome_none]
    by_cases c1 : final ≠ r.finalSize
    · simp [c1, obsRst]
    · simp [c1, obsRst]
  | done g rs st ph =>
    simp only [g, rs, ph, if_true, Option.isSome_none, Bool.false_eq_true, if_false, obsRst]
  | reset g rs st =>
    simp only [g, rs, if_true, obsRst]

-- the input on which the models differed before: limit 100, final size 5000 — both refuse now; at the limit both accept
example : (({ maxSD := 100 } : Stream.Recver).rxReset 5000).2 = .error "FlowControl" ∧
    ((Rcvr.mk0 100).reset true 5000).2 = .flowControl ∧
    (({ maxSD := 100 } : Stream.Recver).rxReset 100).2 = .ok 100 ∧ ((Rcvr.mk0 100).reset true 100).2 = .sync 100 ∧
    RR ({ maxSD := 100 } : Stream.Recver) (Rcvr.mk0 100) := ⟨rfl, by decide, rfl, by decide, rr_init 100⟩

end GmQuic.Links
