import GmQuic.Links.C11RcvrOps
import GmQuic.Props.C01
/-!
Link C11 ↔ C01, receiver side, part 5: histories.  For every history of C01's stream model without a connection error on the
receiving endpoint (C11's `Rcvr` has no such state) there is a history of C11's whole-receiver model `Rcvr` (current tree:
`fixed = rfix = true`), at most one C11 operation per C01 operation, after which the two receivers are related (`RR`) and
C11's ghost list of advertised MAX_STREAM_DATA values IS C01's list `msds` of emitted MAX_STREAM_DATA frames.  So C11's
receiver theorems (`advertised_monotone_all`, `over_limit_detected_all`, `stream_charge_accounting`, …) speak about the
receiving half of every C01 stream.
-/
namespace GmQuic.Links
open GmQuic.StreamWindow

theorem half_rx_advertised (hh : RecvHalf) (off len : Nat) (fin : Bool) :
    (hh.rx true off len fin).1.advertised = hh.advertised := by
  unfold RecvHalf.rx
  dsimp only
  (repeat' split) <;> rfl

theorem rcvr_rx_advertised (q : Rcvr) (off len : Nat) (fin : Bool) :
    (q.rx true off len fin).1.half.advertised = q.half.advertised := by
  unfold Rcvr.rx
  split
  · rfl
  · dsimp only
    split <;> exact half_rx_advertised q.half off len fin

theorem rcvr_stop_half (q : Rcvr) (code : Nat) : (q.stop code).1.half = q.half := by
  unfold Rcvr.stop; (repeat' split) <;> rfl

theorem rcvr_reset_half (q : Rcvr) (v : Nat) : (q.reset true v).1.half = q.half := by
  unfold Rcvr.reset; (repeat' split) <;> rfl

theorem rcv11_step (S : Stream.Stream) (q : Rcvr) (h : RR S.rcv q) (ha : q.half.advertised = S.msds)
    (o : Stream.Op) (ho : o ≠ .connErrorRcv) :
    ∃ l : List AOp, RR (S.step o).rcv (l.foldl (Rcvr.step true true) q) ∧
      (l.foldl (Rcvr.step true true) q).half.advertised = (S.step o).msds ∧ l.length ≤ 1 := by
  have nil : ∀ S' : Stream.Stream, S'.rcv = S.rcv → S'.msds = S.msds →
      ∃ l : List AOp, RR S'.rcv (l.foldl (Rcvr.step true true) q) ∧
        (l.foldl (Rcvr.step true true) q).half.advertised = S'.msds ∧ l.length ≤ 1 :=
    fun S' h1 h2 => ⟨[], by rw [h1]; exact h, by rw [h2]; exact ha, by simp⟩
  cases o with
  | write bs => exact nil _ rfl rfl
  | shutdown => exact nil _ rfl rfl
  | pick a n => apply nil <;> simp only [Stream.Stream.step] <;> split <;> rfl
  | touch => exact nil _ rfl rfl
  | ack i => apply nil <;> simp only [Stream.Stream.step] <;> split <;> rfl
  | lose i => apply nil <;> simp only [Stream.Stream.step] <;> split <;> rfl
  | cancel => exact nil _ rfl rfl
  | deliverStop => apply nil <;> simp only [Stream.Stream.step] <;> split <;> rfl
  | ackReset => apply nil <;> simp only [Stream.Stream.step] <;> split <;> rfl
  | deliverMsd i => apply nil <;> simp only [Stream.Stream.step] <;> split <;> rfl
  | connErrorSnd => exact nil _ rfl rfl
  | connErrorRcv => exact absurd rfl ho
  | stop =>
    refine ⟨[.stop 0], ?_, ?_, by simp⟩
    · exact (rr_stop h 0).2
    · show (q.stop 0).1.half.advertised = S.msds
      rw [rcvr_stop_half]; exact ha
  | deliver i =>
    cases hi : S.emitted[i]? with
    | none => apply nil <;> simp only [Stream.Stream.step, hi]
    | some f =>
      have hS : (S.step (.deliver i)).rcv = (S.rcv.rx f).1 ∧ (S.step (.deliver i)).msds = S.msds := by
        constructor <;> simp [Stream.Stream.step, hi]
      refine ⟨[.rx f.off f.data.length f.fin], ?_, ?_, by simp⟩
      · rw [hS.1]; exact (rr_rx h f).2
      · rw [hS.2]
        show (q.rx true f.off f.data.length f.fin).1.half.advertised = S.msds
        rw [rcvr_rx_advertised]; exact ha
  | deliverReset i =>
    cases hi : S.resets[i]? with
    | none => apply nil <;> simp only [Stream.Stream.step, hi]
    | some v =>
      have hS : (S.step (.deliverReset i)).rcv = (S.rcv.rxReset v).1 ∧ (S.step (.deliverReset i)).msds = S.msds := by
        constructor <;> simp [Stream.Stream.step, hi]
      refine ⟨[.reset v], ?_, ?_, by simp⟩
      · rw [hS.1]; exact rr_reset h v
      · rw [hS.2]
        show (q.reset true v).1.half.advertised = S.msds
        rw [rcvr_reset_half]; exact ha
  | read cap =>
    have hS1 : (S.step (.read cap)).rcv = (S.rcv.read cap).1 := by
      simp only [Stream.Stream.step]; split <;> rfl
    have hS2 : (S.step (.read cap)).msds = S.msds ++ (S.rcv.read cap).2.2.toList := by
      have : (S.step (.read cap)).msds =
          match (S.rcv.read cap).2.2 with | some v => S.msds ++ [v] | none => S.msds := by
        simp only [Stream.Stream.step]; split <;> rfl
      rw [this]
      cases (S.rcv.read cap).2.2 <;> simp
    obtain ⟨k1, k2, _⟩ := rr_read h cap (S.rcv.read cap).1 (S.rcv.read cap).2.1 (S.rcv.read cap).2.2 rfl
    refine ⟨[.read cap], ?_, ?_, by simp⟩
    · rw [hS1]; exact k1
    · rw [hS2, ← ha]; exact k2

theorem rcv11_run (ops : List Stream.Op) (S : Stream.Stream) (q : Rcvr) (h : RR S.rcv q)
    (ha : q.half.advertised = S.msds) (hne : Stream.Op.connErrorRcv ∉ ops) :
    ∃ l : List AOp, RR (S.run ops).rcv (l.foldl (Rcvr.step true true) q) ∧
      (l.foldl (Rcvr.step true true) q).half.advertised = (S.run ops).msds ∧ l.length ≤ ops.length := by
  induction ops generalizing S q with
  | nil => exact ⟨[], h, ha, Nat.le_refl _⟩
  | cons o ops ih =>
    obtain ⟨l1, g1, g2, g3⟩ := rcv11_step S q h ha o (fun hc => hne (by simp [hc]))
    obtain ⟨l2, k1, k2, k3⟩ := ih (S.step o) _ g1 g2 (fun hc => hne (by simp [hc]))
    exact ⟨l1 ++ l2, by rw [List.foldl_append]; exact k1, by rw [List.foldl_append]; exact k2, by simp; omega⟩

/-- **C01's receiver is a history of C11's `Rcvr`.** -/
theorem c01_receiver_is_c11_rcvr_history (sw rw : Nat) (ops : List Stream.Op) (hne : Stream.Op.connErrorRcv ∉ ops) :
    ∃ aops : List AOp,
      RR (Stream.after sw rw ops).rcv (Rcvr.run true true rw aops) ∧
      (Rcvr.run true true rw aops).half.advertised = (Stream.after sw rw ops).msds ∧
      aops.length ≤ ops.length :=
  rcv11_run ops (Stream.Stream.init sw rw) (Rcvr.mk0 rw) (rr_init rw) rfl hne

/-- What it buys, one instance: C11's `advertised_monotone_all` / receiver invariant read on C01 — the MAX_STREAM_DATA
frames a C01 stream emits carry non-decreasing values, and none exceeds the limit C01's receiver enforces. -/
theorem c01_msds_monotone_via_c11 (sw rw : Nat) (ops : List Stream.Op) (hne : Stream.Op.connErrorRcv ∉ ops) :
    (Stream.after sw rw ops).msds.Pairwise (· ≤ ·) ∧
    (∀ a ∈ (Stream.after sw rw ops).msds, a ≤ (Stream.after sw rw ops).rcv.maxSD) := by
  obtain ⟨aops, h1, h2, _⟩ := c01_receiver_is_c11_rcvr_history sw rw ops hne
  obtain ⟨m1, _, _⟩ := advertised_monotone_all true true rw aops
  have hi := Rcvr.halfInv_foldl true true aops (Rcvr.mk0 rw) (RecvHalf.inv_mk0 rw)
  rw [h2] at m1
  refine ⟨m1, fun a ha => ?_⟩
  rw [← h1.hr.msd]
  exact (hi.adv a (by rw [show (List.foldl (Rcvr.step true true) (Rcvr.mk0 rw) aops) = Rcvr.run true true rw aops from rfl, h2]; exact ha)).2

-- non-vacuity: C01's witness history contains no receiver-side connection error
example : Stream.Op.connErrorRcv ∉ Stream.exOps := by simp [Stream.exOps]

end GmQuic.Links
