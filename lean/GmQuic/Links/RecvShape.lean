import GmQuic.Model.RecvBuf
/-!
Helper for the C11 ↔ C01 receiver link: C08's reassembly buffer is *parametric in the bytes*.  C11's `RecvHalf` runs the
C08 model on zero-filled payloads (it only needs offsets and lengths), C01's `Recver` runs it on the real payload.
`SameShape b b'` = same read position, same `largest_offset`, same segment offsets and lengths.  `recv`, `try_read`,
`available`, `is_readable` depend on — and preserve — the shape only.
-/
namespace GmQuic.RecvBuf

def shape (l : List Seg) : List (Nat × Nat) := l.map fun s => (s.off, s.data.length)

structure SameShape (b b' : State) : Prop where
  nread : b.nread = b'.nread
  largest : b.largest = b'.largest
  segs : shape b.segs = shape b'.segs

theorem SameShape.refl (b : State) : SameShape b b := ⟨rfl, rfl, rfl⟩

theorem shape_cons_inv {seg : Seg} {rest l' : List Seg} (h : shape (seg :: rest) = shape l') :
    ∃ seg' rest', l' = seg' :: rest' ∧ seg.off = seg'.off ∧ seg.data.length = seg'.data.length ∧
      shape rest = shape rest' := by
  cases l' with
  | nil => simp [shape] at h
  | cons seg' rest' =>
    simp only [shape, List.map_cons, List.cons.injEq, Prod.mk.injEq] at h
    exact ⟨seg', rest', rfl, h.1.1, h.1.2, h.2⟩

theorem shape_nil_inv {l' : List Seg} (h : shape [] = shape l') : l' = [] := by
  cases l' with
  | nil => rfl
  | cons _ _ => simp [shape] at h

theorem isEmpty_len (d : Bytes) : d.isEmpty = decide (d.length = 0) := by cases d <;> simp

theorem ins_shape (segs : List Seg) : ∀ (segs' : List Seg) (start : Nat) (data data' : Bytes) (lg : Nat),
    shape segs = shape segs' → data.length = data'.length →
    shape (ins segs start data lg).1 = shape (ins segs' start data' lg).1 ∧
      (ins segs start data lg).2 = (ins segs' start data' lg).2 := by
  induction segs with
  | nil =>
    intro segs' start data data' lg hs hd
    rw [shape_nil_inv hs]
    simp only [ins, isEmpty_len, hd]
    split
    · exact ⟨rfl, rfl⟩
    · simp [shape, hd]
  | cons seg rest ih =>
    intro segs' start data data' lg hs hd
    obtain ⟨seg', rest', rfl, ho, hl, hr⟩ := shape_cons_inv hs
    have hstop : seg.stop = seg'.stop := by unfold Seg.stop; rw [ho, hl]
    simp only [ins, isEmpty_len, hd, ho, hstop]
    split
    · exact ⟨hs, rfl⟩
    · split
      · refine ⟨?_, rfl⟩
        simp only [shape, List.map_cons, hd, ho, hl] 
        congr 2
      · split
        · obtain ⟨i1, i2⟩ := ih rest' start data data' lg hr hd
          refine ⟨?_, i2⟩
          simp only [shape, List.map_cons, ho, hl] at i1 ⊢
          rw [i1]
        · have hd' : (data.drop (seg'.stop - start)).length = (data'.drop (seg'.stop - start)).length := by
            simp only [List.length_drop, hd]
          obtain ⟨i1, i2⟩ := ih rest' (max start seg'.stop) (data.drop (seg'.stop - start))
            (data'.drop (seg'.stop - start)) (if start < seg'.off then max lg seg'.off else lg) hr hd'
          refine ⟨?_, i2⟩
          simp only [shape, List.map_append, List.map_cons, ho, hl] at i1 ⊢
          rw [i1]
          congr 1
          split
          · simp [List.length_take, hd]
          · rfl

theorem recv_shape {b b' : State} (h : SameShape b b') (off : Nat) (d d' : Bytes) (hd : d.length = d'.length) :
    SameShape (recv b off d).1 (recv b' off d').1 ∧ (recv b off d).2 = (recv b' off d').2 := by
  have hd' : (d.drop (min d.length (max off b.nread - off))).length =
      (d'.drop (min d'.length (max off b.nread - off))).length := by
    simp only [List.length_drop, hd]
  obtain ⟨i1, i2⟩ := ins_shape b.segs b'.segs (max off b.nread) _ _ b.largest h.segs hd'
  have e1 : (recv b off d).1.nread = b.nread := rfl
  have e2 : (recv b off d).1.largest =
      (ins b.segs (max off b.nread) (d.drop (min d.length (max off b.nread - off))) b.largest).2 := rfl
  have e3 : (recv b off d).1.segs =
      (ins b.segs (max off b.nread) (d.drop (min d.length (max off b.nread - off))) b.largest).1 := rfl
  have e4 : (recv b off d).2 =
      (ins b.segs (max off b.nread) (d.drop (min d.length (max off b.nread - off))) b.largest).2 - b.largest := rfl
  have f1 : (recv b' off d').1.nread = b'.nread := rfl
  have f2 : (recv b' off d').1.largest =
      (ins b'.segs (max off b'.nread) (d'.drop (min d'.length (max off b'.nread - off))) b'.largest).2 := rfl
  have f3 : (recv b' off d').1.segs =
      (ins b'.segs (max off b'.nread) (d'.drop (min d'.length (max off b'.nread - off))) b'.largest).1 := rfl
  have f4 : (recv b' off d').2 =
      (ins b'.segs (max off b'.nread) (d'.drop (min d'.length (max off b'.nread - off))) b'.largest).2 - b'.largest := rfl
  rw [← h.nread, ← h.largest] at f2 f3 f4
  exact ⟨⟨by rw [e1, f1, h.nread], by rw [e2, f2, i2], by rw [e3, f3, i1]⟩, by rw [e4, f4, i2]⟩

theorem contEnd_shape (segs : List Seg) : ∀ (segs' : List Seg) (o : Nat), shape segs = shape segs' →
    contEnd segs o = contEnd segs' o := by
  induction segs with
  | nil => intro segs' o hs; rw [shape_nil_inv hs]
  | cons seg rest ih =>
    intro segs' o hs
    obtain ⟨seg', rest', rfl, ho, hl, hr⟩ := shape_cons_inv hs
    simp only [contEnd, ho, hl]
    split
    · exact ih rest' _ hr
    · rfl

theorem available_shape {b b' : State} (h : SameShape b b') : available b = available b' := by
  unfold available
  rw [contEnd_shape _ _ _ h.segs, h.nread]

theorem isReadable_shape {b b' : State} (h : SameShape b b') : isReadable b = isReadable b' := by
  unfold isReadable
  have hs := h.segs
  cases hb : b.segs with
  | nil => rw [hb] at hs; rw [shape_nil_inv hs]
  | cons seg rest =>
    rw [hb] at hs
    obtain ⟨seg', rest', hb', ho, _, _⟩ := shape_cons_inv hs
    rw [hb']
    simp only [ho, h.nread]

theorem readGo_shape (segs : List Seg) : ∀ (segs' : List Seg) (nread cap : Nat), shape segs = shape segs' →
    shape (readGo segs nread cap).1 = shape (readGo segs' nread cap).1 ∧
      (readGo segs nread cap).2.1 = (readGo segs' nread cap).2.1 ∧
      (readGo segs nread cap).2.2.length = (readGo segs' nread cap).2.2.length := by
  induction segs with
  | nil => intro segs' nread cap hs; rw [shape_nil_inv hs]; exact ⟨rfl, rfl, rfl⟩
  | cons seg rest ih =>
    intro segs' nread cap hs
    obtain ⟨seg', rest', rfl, ho, hl, hr⟩ := shape_cons_inv hs
    simp only [readGo, ho, hl]
    split
    · exact ⟨hs, rfl, rfl⟩
    · split
      · refine ⟨?_, rfl, ?_⟩
        · simp only [shape, List.map_cons, List.length_drop, hl] at hr ⊢
          rw [hr]
        · simp only [List.length_take, hl]
      · obtain ⟨i1, i2, i3⟩ := ih rest' (nread + min cap seg'.data.length) (cap - min cap seg'.data.length) hr
        exact ⟨i1, i2, by simp only [List.length_append, hl, i3]⟩

theorem tryRead_shape {b b' : State} (h : SameShape b b') (cap : Nat) :
    SameShape (tryRead b cap).1 (tryRead b' cap).1 ∧ (tryRead b cap).2.length = (tryRead b' cap).2.length := by
  unfold tryRead
  obtain ⟨i1, i2, i3⟩ := readGo_shape b.segs b'.segs b.nread cap h.segs
  rw [h.nread] at i1 i2 i3 ⊢
  exact ⟨⟨i2, h.largest, i1⟩, i3⟩

theorem isEmpty_shape {b b' : State} (h : SameShape b b') : b.segs.isEmpty = b'.segs.isEmpty := by
  have hs := h.segs
  cases hb : b.segs with
  | nil => rw [hb] at hs; rw [shape_nil_inv hs]
  | cons seg rest =>
    rw [hb] at hs
    obtain ⟨seg', rest', hb', _⟩ := shape_cons_inv hs
    rw [hb']; rfl

end GmQuic.RecvBuf
