import GmQuic.Links.C07C10
/-!
Link C07 ↔ C10, round 2 (partial): semantic agreement of the two journal models on packet building, rotation and the clock.
`JF J F`: C07's state `J` (between guards, not poisoned) and C10's state `F` have the same window (`offset`, record list,
largest acked), the same queue length and the same clock.  `jf_step`: for `pkt` (data / trivial / untouched guard), `rotate`
and `tick`, running C07's expansion and C10's single step keeps `JF`, and the packet number C10 reports is the one C07 logs in
`built` — as long as the packet number space is not exhausted (`largest ≤ varintMax`; both models panic/poison there).
OPEN: `ack f` / `acked pns` / `lost pns` (one rotate guard in C10 = several in the expansion: needs `resize` commutation with
`touch`, and C10's `touchFrames ≠ none`, which is `acked_spec` under `SInv`).
-/
namespace GmQuic.Links
open GmQuic.SentJournal (State Guard step Rec)

structure JF (J : State) (F : SentFrames.State) : Prop where
  guard : J.guard = none
  poisoned : J.poisoned = none
  offset : J.j.offset = F.offset
  recs : J.j.recs = F.recs
  la : J.j.la = F.la
  qlen : J.j.queueLen = F.queue.length
  now : J.now = F.now

theorem jf_init : JF SentJournal.init SentFrames.init := ⟨rfl, rfl, rfl, rfl, rfl, rfl, rfl⟩

theorem jf_largest {J : State} {F : SentFrames.State} (h : JF J F) : J.j.largest = F.largest := by
  unfold SentJournal.Journal.largest SentFrames.State.largest
  rw [h.offset, h.recs]

/-- `resize` agrees -/
theorem jf_resize {J : State} {F : SentFrames.State} (h : JF J F) :
    (∃ F', SentFrames.resize F = some F' ∧ JF (SentJournal.resize J) F') ∨
    (SentFrames.resize F = none ∧ (SentJournal.resize J).poisoned = some .drain) := by
  unfold SentFrames.resize SentJournal.resize
  dsimp only
  rw [h.now, h.recs, h.qlen]
  by_cases c : F.queue.length < (SentJournal.dropCount F.now F.recs).2
  · right; simp only [c, if_true]; exact ⟨(by first | rfl | exact True.intro), (by first | rfl | exact True.intro)⟩
  · left
    simp only [c, if_false]
    refine ⟨_, rfl, ⟨h.guard, h.poisoned, ?_, (by first | rfl | exact h.recs), h.la, ?_, (by first | rfl | exact h.now)⟩⟩
    · show J.j.offset + _ = F.offset + _; rw [h.offset]
    · show F.queue.length - _ = (F.queue.drop _).length; rw [List.length_drop]

theorem jf_tick {J : State} {F : SentFrames.State} (h : JF J F) (ms : Nat) :
    JF ((expand (.tick ms)).foldl step J) (SentFrames.step F (.tick ms)).1 := by
  have e : step J (.tick ms) = { J with now := J.now + ms } := by
    simp [step, h.poisoned, h.guard]
  simp only [expand, List.foldl_cons, List.foldl_nil, e, SentFrames.step, SentFrames.stepWith]
  exact ⟨h.guard, h.poisoned, h.offset, h.recs, h.la, h.qlen, by show J.now + ms = F.now + ms; rw [h.now]⟩

theorem jf_rotate {J : State} {F : SentFrames.State} (h : JF J F)
    (hok : (SentFrames.step F .rotate).2 ≠ .panic) :
    JF ((expand .rotate).foldl step J) (SentFrames.step F .rotate).1 := by
  have e : step J .rotate = SentJournal.resize J := by simp [step, h.poisoned, h.guard]
  simp only [expand, List.foldl_cons, List.foldl_nil, e]
  rcases jf_resize h with ⟨F', hF, hj⟩ | ⟨hF, _⟩
  · simp only [SentFrames.step, SentFrames.stepWith, SentFrames.withResize, hF]; exact hj
  · exfalso; apply hok
    simp only [SentFrames.step, SentFrames.stepWith, SentFrames.withResize, hF]

/-- **Packet building agrees**: after C07's expansion of `pkt frames trivial rt et` and after C10's single step the journals
agree again, and the number C10 reports for the packet is the number C07 logs as built. -/
theorem jf_pkt {J : State} {F : SentFrames.State} (h : JF J F) (frames : List Nat) (trivial : Bool) (rt et : Nat)
    (hov : ¬ F.largest > Gen.varintMax) :
    JF ((expand (.pkt frames trivial rt et)).foldl step J) (SentFrames.step F (.pkt frames trivial rt et)).1 ∧
    ((SentFrames.step F (.pkt frames trivial rt et)).2 = .pn (some F.largest) →
      ((expand (.pkt frames trivial rt et)).foldl step J).built = J.built ++ [F.largest]) := by
  have hpn := h.poisoned
  have hg := h.guard
  have hl := jf_largest h
  have hovJ : ¬ J.j.largest > Gen.varintMax := by rw [hl]; exact hov
  have hbegin : step J .begin = { J with guard := some { trivial := false, originLen := J.j.queueLen } } := by
    simp [step, hpn, hg]
  simp only [expand, List.foldl_append, List.foldl_cons, List.foldl_nil, hbegin]
  rw [frames_fold frames.length { J with guard := some { trivial := false, originLen := J.j.queueLen } }
    { trivial := false, originLen := J.j.queueLen } hpn rfl]
  simp only [SentFrames.step, SentFrames.stepWith]
  cases trivial with
  | false =>
    simp only [Bool.false_eq_true, if_false, List.foldl_nil, step, hpn, Option.isSome_none, false_and,
      Nat.add_sub_cancel_left]
    by_cases hn : frames.length > 0
    · simp only [hn, if_true, hov, if_false, SentJournal.pushRec]
      have hovJ' : ¬ (J.j.offset + J.j.recs.length > Gen.varintMax) := hovJ
      simp only [SentJournal.Journal.largest, hovJ', if_false]
      refine ⟨⟨rfl, (by first | rfl | exact hpn), h.offset, ?_, h.la, ?_, h.now⟩, fun _ => ?_⟩
      · show J.j.recs ++ _ = F.recs ++ _
        rw [h.recs, h.now]
      · show J.j.queueLen + frames.length = (F.queue ++ frames).length
        rw [List.length_append, h.qlen]
      · show J.built ++ [J.j.offset + J.j.recs.length] = _
        rw [← hl]; rfl
    · simp only [hn, if_false]
      refine ⟨⟨rfl, (by first | rfl | exact hpn), h.offset, h.recs, h.la, ?_, h.now⟩, fun hc => ?_⟩
      · show J.j.queueLen + frames.length = F.queue.length
        rw [h.qlen]; omega
      · cases hc
  | true =>
    simp only [if_true, List.foldl_cons, List.foldl_nil, step, hpn, Option.isSome_none, Bool.false_eq_true,
      if_false, Nat.add_sub_cancel_left, true_and]
    by_cases hn : frames.length = 0
    · simp only [hn, if_true, hov, if_false, SentJournal.pushRec]
      have hovJ' : ¬ (J.j.offset + J.j.recs.length > Gen.varintMax) := hovJ
      simp only [SentJournal.Journal.largest, hovJ', if_false]
      refine ⟨⟨rfl, (by first | rfl | exact hpn), h.offset, ?_, h.la, ?_, h.now⟩, fun _ => ?_⟩
      · show J.j.recs ++ _ = F.recs ++ _
        rw [h.recs]
      · show J.j.queueLen + 0 = F.queue.length
        rw [h.qlen]; rfl
      · show J.built ++ [J.j.offset + J.j.recs.length] = _
        rw [← hl]; rfl
    · have hn' : frames.length > 0 := by omega
      simp only [hn, if_false, hn', if_true, hov, SentJournal.pushRec]
      have hovJ' : ¬ (J.j.offset + J.j.recs.length > Gen.varintMax) := hovJ
      simp only [SentJournal.Journal.largest, hovJ', if_false]
      refine ⟨⟨rfl, (by first | rfl | exact hpn), h.offset, ?_, h.la, ?_, h.now⟩, fun _ => ?_⟩
      · show J.j.recs ++ _ = F.recs ++ _
        rw [h.recs, h.now]
      · show J.j.queueLen + frames.length = (F.queue ++ frames).length
        rw [List.length_append, h.qlen]
      · show J.built ++ [J.j.offset + J.j.recs.length] = _
        rw [← hl]; rfl

-- non-vacuity of `jf_rotate`: rotation after a trivial packet does not panic and drops the skipped record in both models
example : (SentFrames.step (SentFrames.runFrom SentFrames.init [.pkt [] true 1 1]) .rotate).2 ≠ .panic ∧
    (SentFrames.step (SentFrames.runFrom SentFrames.init [.pkt [] true 1 1]) .rotate).1.offset = 1 ∧
    ((expandAll [.pkt [] true 1 1, .rotate]).foldl step SentJournal.init).j.offset = 1 := by decide

end GmQuic.Links
