import GmQuic.Model.Stream
import GmQuic.Model.SendSpec
import GmQuic.Lemmas.SendSpec
/-!
Link C09 ⊑ C01 (sender side), part 1: the simulation relation and the step lemmas.

C01's stream model (`Model/Stream.lean`) keeps the send buffer abstractly: one colour per byte (`Sender.status`),
`written`, `sentHi`, `maxData`, and a may-relation `Sender.pickOk` for the range a load may emit.  C09's
specification layer (`Model/SendSpec.lean`) has the same ingredients under other names (`colour`, `data`, `sent`,
`maxData`, relation `SendSpec.pickOk`) and is PROVED to be refined by the transliterated `BufMap`/`SendBuf`
(`Props/C09/Refine.lean`, `refines_spec`).  Here: `Sim p s` ("the C01 sender `s` carries the buffer `p`") and, for
every legal specification step `stepOk p op obs p'` of the data phase, the C01 sender operation that mirrors it.

Side conditions, exactly:
* `Sim` is the *data phase* of C01's sender (`Ready`/`Sending`, `shutdown = false`, no connection error): the
  specification has no FIN; the FIN-only frame, `fin_state` and `DataSent → DataRcvd` are C01's own
  (`Sender.pickOk` with `len = 0`), not the buffer's.  So C01's relation is strictly larger than C09's.
* `resend` (`resend_flighting`, crypto streams) and `forget` (`forget_sent_state`, 0-RTT rejection) have no
  counterpart in C01 (documented out of scope there); they are excluded (`DataOp`).
* `pick`: C09's `pred` (frame capacity) and `flow` (connection-level credit) only restrict the answer further;
  C01's relation ignores them.
-/
namespace GmQuic.Links
open GmQuic.SendSpec

/-- the colour vocabulary of C09 in C01's words -/
def col : Colour → Stream.BSt
  | .pending => .unsent
  | .flighting => .inflight
  | .lost => .lost
  | .recved => .acked

theorem col_lostOf (c : Colour) : col (lostOf c) = Stream.lostOf (col c) := by cases c <;> rfl

theorem col_unsent {c : Colour} : col c = .unsent ↔ c = .pending := by cases c <;> simp [col]

theorem col_acked {c : Colour} : col c = .acked ↔ c = .recved := by cases c <;> simp [col]

/-- **Simulation relation**: the C01 sender `s` (data phase) carries the C09 buffer `p`. -/
structure Sim (p : SendSpec) (s : Stream.Sender) : Prop where
  written : s.written = p.data
  status : ∀ x, s.status x = col (p.colour x)
  maxData : s.maxData = p.maxData
  /-- `sentHi` is the boundary of the `Pending` suffix, i.e. `SendBuf::sent()` (`sim_sent`) -/
  below : ∀ x, x < s.sentHi → p.colour x ≠ .pending
  above : ∀ x, s.sentHi ≤ x → p.colour x = .pending
  sent_le : s.sentHi ≤ p.size
  st : s.st = .ready ∨ s.st = .sending
  ready0 : s.st = .ready → s.sentHi = 0
  noerr : s.err = false
  noshut : s.shutdown = false

/-- the fresh C01 sender with window `cap` carries `SendBuf::with_capacity(cap)` -/
theorem sim_init (cap : Nat) : Sim (SendSpec.init cap) ({ maxData := cap } : Stream.Sender) where
  written := rfl
  status := fun _ => rfl
  maxData := rfl
  below := fun _ h => absurd h (Nat.not_lt_zero _)
  above := fun _ _ => rfl
  sent_le := Nat.le_refl 0
  st := Or.inl rfl
  ready0 := fun _ => rfl
  noerr := rfl
  noshut := rfl

/-- C01's `sentHi` IS C09's `sent()` (first `Pending` offset of the coloured prefix). -/
theorem sim_sent {p : SendSpec} {s : Stream.Sender} (h : Sim p s) : s.sentHi = p.sent := by
  unfold SendSpec.sent
  symm
  apply least_eq_of _ _ _ h.sent_le
  · intro x hx
    have := h.below x hx
    simp [this]
  · intro _
    simp [h.above _ (Nat.le_refl _)]

theorem sim_live {p : SendSpec} {s : Stream.Sender} (h : Sim p s) : s.live = true := by
  unfold Stream.Sender.live
  rw [h.noerr]
  rcases h.st with h1 | h1 <;> simp [h1]

theorem slice_length (bs : List UInt8) (a n : Nat) (h : a + n ≤ bs.length) : (Stream.slice bs a n).length = n := by
  unfold Stream.slice
  rw [List.length_take, List.length_drop]
  omega

/-! ### write -/

theorem sim_write {p : SendSpec} {s : Stream.Sender} (h : Sim p s) (hI : Inv p) (bs : List UInt8) :
    Sim (p.write bs) (s.write bs).1 ∧ (s.write bs).2 = "ok" := by
  have hw : s.write bs = ({ s with written := s.written ++ bs }, "ok") := by
    unfold Stream.Sender.write
    rw [h.noerr, h.noshut]
    rcases h.st with h1 | h1 <;> simp [h1]
  rw [hw]
  refine ⟨?_, rfl⟩
  unfold SendSpec.write
  by_cases hb : bs = []
  · subst hb
    simp only [List.isEmpty_nil, if_true, List.append_nil]
    exact h
  · have : bs.isEmpty = false := by cases bs <;> simp_all
    simp only [this, Bool.false_eq_true, if_false]
    exact {
      written := by simp [h.written]
      status := h.status
      maxData := h.maxData
      below := h.below
      above := h.above
      sent_le := by
        have h1 := h.sent_le
        have h2 := hI.size_eq
        show s.sentHi ≤ min (p.data.length + bs.length) p.maxData
        omega
      st := h.st
      ready0 := h.ready0
      noerr := h.noerr
      noshut := h.noshut }

/-! ### extend = `update_window` -/

theorem sim_extend {p : SendSpec} {s : Stream.Sender} (h : Sim p s) (hI : Inv p) (m : Nat) (hm : p.maxData ≤ m) :
    Sim (p.extend m) (s.updateWindow m) := by
  have key : Sim (p.extend m) ({ s with maxData := m } : Stream.Sender) := {
    written := h.written
    status := h.status
    maxData := rfl
    below := h.below
    above := h.above
    sent_le := by
      have h1 := h.sent_le
      have h2 := hI.size_eq
      show s.sentHi ≤ min p.data.length m
      omega
    st := h.st
    ready0 := h.ready0
    noerr := h.noerr
    noshut := h.noshut }
  by_cases hgt : m > s.maxData
  · have hw : s.updateWindow m = { s with maxData := m } := by
      unfold Stream.Sender.updateWindow
      rcases h.st with h1 | h1 <;> simp [h.noerr, h1, hgt]
    rw [hw]; exact key
  · have hw : s.updateWindow m = s := by
      unfold Stream.Sender.updateWindow
      rcases h.st with h1 | h1 <;> simp [h.noerr, h1, hgt]
    have e : s.maxData = m := by have := h.maxData; omega
    have e2 : ({ s with maxData := m } : Stream.Sender) = s := by rw [← e]
    rw [hw]
    rw [e2] at key
    exact key

/-! ### pick_up -/

/-- a range the specification may answer is a range C01's relation allows; the FIN flag is off, the payload is the
slice of `written`, and the states stay related. -/
theorem sim_pick {p : SendSpec} {s : Stream.Sender} (h : Sim p s) (hI : Inv p) {pred flow a b fresh}
    (hp : pickOk p pred flow (.range a b fresh)) :
    s.pickOk a (b - a) ∧
    (s.pick a (b - a)).2 = ⟨a, Stream.slice s.written a (b - a), false⟩ ∧
    b ≤ s.written.length ∧
    Sim (p.picked (.range a b fresh)) (s.pick a (b - a)).1 := by
  obtain ⟨_, _, hab, hbw, hca, hcol, _⟩ := pickOk_range hp
  have hsz := hI.size_eq
  have hbs : b ≤ p.size := by unfold SendSpec.win at hbw; omega
  have hbd : b ≤ p.data.length := by omega
  have hbm : b ≤ p.maxData := by unfold SendSpec.win at hbw; omega
  have hpk : ∀ x, a ≤ x → x < b → p.colour x = .pending ∨ p.colour x = .lost := pickOk_range_colour hp
  -- `a ≤ sentHi`: either `a` is `Pending` — then nothing below it is, so it is the boundary — or it is `Lost`
  have ha : a ≤ s.sentHi := by
    apply Nat.le_of_not_lt
    intro hlt
    -- sentHi < a: colour sentHi = pending, sentHi < a = firstCand: not a candidate unless flow = 0; but then a is Lost
    rcases cand_iff.1 hca with hl | ⟨hpd, hfl⟩
    · have := h.above a (Nat.le_of_lt hlt)
      rw [this] at hl; cases hl
    · obtain ⟨h1, _⟩ := pickOk_range hp
      have h2 : p.cand flow s.sentHi = false := by
        rw [h1] at hlt
        exact least_min _ _ _ hlt
      have h3 := (cand_false_iff.1 h2).2 (h.above _ (Nat.le_refl _))
      omega
  have hfin : s.pickFin a (b - a) = false := by
    unfold Stream.Sender.pickFin
    rw [h.noshut]
    rcases h.st with h1 | h1 <;> simp [h1]
  have hnd : s.st ≠ .dataSent := by rcases h.st with h1 | h1 <;> simp [h1]
  refine ⟨?_, ?_, by rw [h.written]; exact hbd, ?_⟩
  · refine ⟨sim_live h, ?_⟩
    have : b - a ≠ 0 := by omega
    rw [if_neg this]
    refine ⟨by rw [h.written]; omega, by rw [h.maxData]; omega, fun k hk => ?_, ha⟩
    rw [h.status]
    rcases hpk (a + k) (by omega) (by omega) with h1 | h1 <;> rw [h1] <;> rfl
  · unfold Stream.Sender.pick
    simp only [hfin]
  · unfold Stream.Sender.pick
    simp only [hfin, if_neg hnd, Bool.false_eq_true, if_false]
    have hab' : a + (b - a) = b := by omega
    exact {
      written := h.written
      status := by
        intro x
        show Stream.setRange s.status a (a + (b - a)) (fun _ => .inflight) x = col (setRange p.colour a b (fun _ => .flighting) x)
        unfold Stream.setRange setRange
        rw [hab']
        by_cases hx : a ≤ x ∧ x < b
        · rw [if_pos hx, if_pos hx]; rfl
        · rw [if_neg hx, if_neg hx]; exact h.status x
      maxData := h.maxData
      below := by
        intro x hx
        show setRange p.colour a b (fun _ => .flighting) x ≠ .pending
        unfold setRange
        by_cases hx' : a ≤ x ∧ x < b
        · rw [if_pos hx']; simp
        · rw [if_neg hx']
          apply h.below
          change x < max s.sentHi (a + (b - a)) at hx
          omega
      above := by
        intro x hx
        show setRange p.colour a b (fun _ => .flighting) x = .pending
        have hx1 : max s.sentHi (a + (b - a)) ≤ x := hx
        unfold setRange
        rw [if_neg (by omega)]
        exact h.above x (by omega)
      sent_le := by
        show max s.sentHi (a + (b - a)) ≤ p.size
        have := h.sent_le
        omega
      st := Or.inr rfl
      ready0 := by intro hc; cases hc
      noerr := h.noerr
      noshut := h.noshut }

/-- a silent `pick_up` is C01's `touch` (a load attempt that finds nothing still performs `Ready → Sending`) -/
theorem sim_touch {p : SendSpec} {s : Stream.Sender} (h : Sim p s) : Sim p s.touch := by
  rcases h.st with h1 | h1
  · have hw : s.touch = { s with st := .sending } := by
      unfold Stream.Sender.touch
      simp [h.noerr, h1]
    rw [hw]
    exact {
      written := h.written
      status := h.status
      maxData := h.maxData
      below := h.below
      above := h.above
      sent_le := h.sent_le
      st := Or.inr rfl
      ready0 := by intro hc; cases hc
      noerr := h.noerr
      noshut := h.noshut }
  · have hw : s.touch = s := by
      unfold Stream.Sender.touch
      simp [h1]
    rw [hw]; exact h

/-! ### on_data_acked / may_loss_data -/

/-- inside `RangeDom` (some byte below `b` is not `Pending`) the C01 sender is past `Ready`: the `unreachable!` arm of
`Outgoing::{on_data_acked, may_loss_data}` is not reached -/
theorem sim_sending {p : SendSpec} {s : Stream.Sender} (h : Sim p s) {a b : Nat} (hd : RangeDom p a b) :
    s.st = .sending ∧ b ≤ s.sentHi := by
  obtain ⟨hab, _, hnp⟩ := hd
  have hb : b ≤ s.sentHi := by
    apply Nat.le_of_not_lt
    intro hlt
    exact hnp (b - 1) (by omega) (by omega) (h.above _ (by omega))
  refine ⟨?_, hb⟩
  rcases h.st with h1 | h1
  · have := h.ready0 h1; omega
  · exact h1

theorem sim_ack {p : SendSpec} {s : Stream.Sender} (h : Sim p s) {a b : Nat} (hd : RangeDom p a b)
    (f : Stream.Frame) (hoff : f.off = a) (hstop : f.stop = b) :
    Sim (p.ack a b) (s.ack f) ∧ (s.ack f).panicked = s.panicked := by
  obtain ⟨hst, hb⟩ := sim_sending h hd
  have hw : s.ack f = { s with status := Stream.setRange s.status a b (fun _ => .acked) } := by
    unfold Stream.Sender.ack
    rw [h.noerr, hoff, hstop]
    simp [hst]
  rw [hw]
  refine ⟨?_, rfl⟩
  exact {
    written := h.written
    status := by
      intro x
      show Stream.setRange s.status a b (fun _ => .acked) x = col (setRange p.colour a b (fun _ => .recved) x)
      unfold Stream.setRange setRange
      by_cases hx : a ≤ x ∧ x < b
      · rw [if_pos hx, if_pos hx]; rfl
      · rw [if_neg hx, if_neg hx]; exact h.status x
    maxData := h.maxData
    below := by
      intro x hx
      show setRange p.colour a b (fun _ => .recved) x ≠ .pending
      unfold setRange
      by_cases hx' : a ≤ x ∧ x < b
      · rw [if_pos hx']; simp
      · rw [if_neg hx']; exact h.below x hx
    above := by
      intro x hx
      show setRange p.colour a b (fun _ => .recved) x = .pending
      have hx1 : s.sentHi ≤ x := hx
      unfold setRange
      rw [if_neg (by omega)]
      exact h.above x hx1
    sent_le := h.sent_le
    st := h.st
    ready0 := h.ready0
    noerr := h.noerr
    noshut := h.noshut }

theorem sim_lose {p : SendSpec} {s : Stream.Sender} (h : Sim p s) {a b : Nat} (hd : RangeDom p a b)
    (f : Stream.Frame) (hoff : f.off = a) (hstop : f.stop = b) :
    Sim (p.lose a b) (s.lose f) ∧ (s.lose f).panicked = s.panicked := by
  obtain ⟨hst, hb⟩ := sim_sending h hd
  have hw : s.lose f = { s with status := Stream.setRange s.status a b Stream.lostOf } := by
    unfold Stream.Sender.lose
    rw [h.noerr, hoff, hstop]
    simp [hst]
  rw [hw]
  refine ⟨?_, rfl⟩
  exact {
    written := h.written
    status := by
      intro x
      show Stream.setRange s.status a b Stream.lostOf x = col (setRange p.colour a b lostOf x)
      unfold Stream.setRange setRange
      by_cases hx : a ≤ x ∧ x < b
      · rw [if_pos hx, if_pos hx, col_lostOf, h.status]
      · rw [if_neg hx, if_neg hx]; exact h.status x
    maxData := h.maxData
    below := by
      intro x hx
      show setRange p.colour a b lostOf x ≠ .pending
      unfold setRange
      by_cases hx' : a ≤ x ∧ x < b
      · rw [if_pos hx']
        intro hc
        exact h.below x hx (lostOf_eq_pending.1 hc)
      · rw [if_neg hx']; exact h.below x hx
    above := by
      intro x hx
      show setRange p.colour a b lostOf x = .pending
      have hx1 : s.sentHi ≤ x := hx
      unfold setRange
      rw [if_neg (by omega)]
      exact h.above x hx1
    sent_le := h.sent_le
    st := h.st
    ready0 := h.ready0
    noerr := h.noerr
    noshut := h.noshut }

/-! ### the must side: a silent buffer means C01's sender has nothing it must send -/

/-- If `pick_up` may stay silent because nothing is offerable inside the window while connection-level credit is
available (`flow > 0`), then C01's `somePick` is `none`: the two "must send" sides agree in the data phase. -/
theorem sim_none_idle {p : SendSpec} {s : Stream.Sender} (h : Sim p s) (hI : Inv p) {flow : Nat} (hf : 0 < flow)
    (hn : p.firstCand flow = p.win) : s.somePick = none := by
  unfold Stream.Sender.somePick
  rw [if_pos (sim_live h)]
  have hall : ∀ x, x < p.win → p.cand flow x = false := (least_eq_self_iff _ _).1 hn
  have hwin : min s.written.length s.maxData = p.win := by
    unfold SendSpec.win
    rw [h.written, h.maxData, hI.size_eq]
    omega
  have hfind : (List.range (min s.written.length s.maxData)).find? (fun x => (s.status x).pickable) = none := by
    rw [List.find?_eq_none]
    intro x hx
    rw [List.mem_range, hwin] at hx
    obtain ⟨h1, h2⟩ := cand_false_iff.1 (hall x hx)
    rw [h.status]
    cases hc : p.colour x
    · have := h2 hc; omega
    · simp [col, Stream.BSt.pickable]
    · exact absurd hc h1
    · simp [col, Stream.BSt.pickable]
  rw [hfind]
  have : ¬ s.finDue := by
    unfold Stream.Sender.finDue
    rw [h.noshut]
    rcases h.st with h1 | h1 <;> simp [h1]
  simp [this]

end GmQuic.Links
