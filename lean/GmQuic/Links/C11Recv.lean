import GmQuic.Links.RecvShape
import GmQuic.Model.Stream
import GmQuic.Model.StreamWindow
/-!
Link C11 ↔ C01, receiver side, part 1: the relation `RR` between C01's `Recver` (real payload) and C11's whole-receiver
model `Rcvr` (zero-filled payload, `fixed = true`, `rfix = true`: the current tree), and the agreement of the two models
on every incoming STREAM frame — ANY frame, not only frames of C01's own sender.
-/
namespace GmQuic.Links
open GmQuic.StreamWindow
open GmQuic.RecvBuf (SameShape)

/-- which phase the two receivers are in (`hh`, `rst` = the `half` and `rst` fields of C11's `Rcvr`) -/
inductive Ph (r : Stream.Recver) (hh : RecvHalf) (rst : Option Nat) : Prop
  | recv : r.gone = false → rst = none → r.st = .recv → hh.phase = .recv → Ph r hh rst
  | sized : r.gone = false → rst = none → r.st = .sizeKnown → hh.phase = .sizeKnown r.finalSize → Ph r hh rst
  | done : r.gone = true → rst = none → (r.st = .dataRcvd ∨ (r.st = .dataRead ∧ r.buf.segs = [])) →
      hh.phase = .done → Ph r hh rst
  | reset : r.gone = true → rst.isSome = true → (r.st = .resetRcvd ∨ r.st = .resetRead) → Ph r hh rst

/-- C01's receiver `r` and C11's receiver (`half = hh`, `rst`) are the same receiver, up to the payload bytes -/
structure HR (r : Stream.Recver) (hh : RecvHalf) (rst : Option Nat) : Prop where
  noerr : r.err = false
  shape : SameShape r.buf hh.buf
  msd : hh.msd = r.maxSD
  largest : hh.largest = r.largest
  ph : Ph r hh rst

/-- C01's answer to a frame, in C11's vocabulary -/
def obsRx : Except String Nat → RxObs
  | .ok n => .fresh n
  | .error k => if k = "FlowControl" then .flowControl else .finalSize

theorem zeros_length (n : Nat) : (zeros n).length = n := by simp [zeros]

theorem allRcvd_shape {b b' : RecvBuf.State} (h : SameShape b b') (e : Nat) :
    allRcvd b' e = (b.nread + RecvBuf.available b == e) := by
  unfold allRcvd
  rw [RecvBuf.available_shape h, h.nread]

theorem hr_rx {r : Stream.Recver} {hh : RecvHalf} {rst : Option Nat} (h : HR r hh rst) (hrst : rst = none)
    (f : Stream.Frame) :
    (hh.rx true f.off f.data.length f.fin).2 = obsRx (r.rx f).2 ∧
    HR (r.rx f).1 (hh.rx true f.off f.data.length f.fin).1 none := by
  obtain ⟨hs, hsz⟩ := RecvBuf.recv_shape h.shape f.off f.data (zeros f.data.length) (zeros_length _).symm
  have hstop : f.stop = f.off + f.data.length := rfl
  have hlg : hh.buf.largest = r.buf.largest := h.shape.largest.symm
  have hall := allRcvd_shape hs
  cases h.ph with
  | recv h1 h2 h3 h4 =>
    unfold Stream.Recver.rx RecvHalf.rx
    simp only [h1, h.noerr, h3, h4, Bool.false_eq_true, or_self, if_false, hstop, hlg, h.msd, h.largest, hall, ← hsz,
      true_and, Stream.Recver.allRcvd]
    by_cases hfin : f.fin = true
    · simp only [hfin, if_true]
      by_cases c1 : r.buf.largest > f.off + f.data.length
      · simp only [c1, if_true, obsRx]
        exact ⟨(by first | rfl | exact True.intro | simp), h.noerr, h.shape, h.msd, h.largest, .recv h1 rfl h3 h4⟩
      · simp only [c1, if_false]
        by_cases c2 : f.off + f.data.length > r.maxSD
        · simp only [c2, if_true, obsRx]
          exact ⟨(by first | rfl | exact True.intro | simp), h.noerr, h.shape, h.msd, h.largest, .recv h1 rfl h3 h4⟩
        · simp only [c2, if_false]
          by_cases c3 : ((RecvBuf.recv r.buf f.off f.data).fst.nread +
              RecvBuf.available (RecvBuf.recv r.buf f.off f.data).fst == f.off + f.data.length) = true
          · simp only [c3, if_true, obsRx]
            exact ⟨(by first | rfl | exact True.intro), rfl, hs, rfl, rfl, .done rfl rfl (Or.inl rfl) rfl⟩
          · simp only [c3, obsRx]
            exact ⟨(by first | rfl | exact True.intro), rfl, hs, rfl, rfl, .sized rfl rfl rfl rfl⟩
    · simp only [hfin]
      by_cases c2 : f.off + f.data.length > r.maxSD
      · simp only [c2, if_true, obsRx]
        exact ⟨(by first | rfl | exact True.intro | simp), h.noerr, h.shape, h.msd, h.largest, .recv h1 rfl h3 h4⟩
      · simp only [c2, if_false, obsRx]
        exact ⟨(by first | rfl | exact True.intro), rfl, hs, rfl, rfl, .recv rfl rfl rfl rfl⟩
  | sized h1 h2 h3 h4 =>
    unfold Stream.Recver.rx RecvHalf.rx
    simp only [h1, h.noerr, h3, h4, Bool.false_eq_true, or_self, if_false, hstop, h.msd, h.largest, hall, ← hsz,
      Stream.Recver.allRcvd]
    by_cases c1 : f.off + f.data.length > r.finalSize
    · simp only [c1, if_true, obsRx]
      exact ⟨(by first | rfl | exact True.intro | simp), h.noerr, h.shape, h.msd, h.largest, .sized h1 rfl h3 h4⟩
    · simp only [c1, if_false]
      by_cases c2 : f.fin = true ∧ f.off + f.data.length ≠ r.finalSize
      · simp only [if_pos c2, obsRx]
        exact ⟨(by first | rfl | exact True.intro | simp), h.noerr, h.shape, h.msd, h.largest, .sized h1 rfl h3 h4⟩
      · simp only [if_neg c2]
        by_cases c3 : ((RecvBuf.recv r.buf f.off f.data).fst.nread +
            RecvBuf.available (RecvBuf.recv r.buf f.off f.data).fst == r.finalSize) = true
        · simp only [c3, if_true, obsRx]
          exact ⟨(by first | rfl | exact True.intro), rfl, hs, rfl, rfl, .done rfl rfl (Or.inl rfl) rfl⟩
        · simp only [c3, obsRx]
          exact ⟨(by first | rfl | exact True.intro), rfl, hs, rfl, rfl, .sized rfl rfl rfl rfl⟩
  | done h1 h2 h3 h4 =>
    unfold Stream.Recver.rx RecvHalf.rx
    simp only [h1, h4, true_or, if_true, obsRx]
    exact ⟨(by first | rfl | exact True.intro), h.noerr, h.shape, h.msd, h.largest, .done h1 rfl h3 h4⟩
  | reset h1 h2 h3 => rw [hrst] at h2; cases h2


end GmQuic.Links
