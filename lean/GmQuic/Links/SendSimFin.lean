import GmQuic.Links.SendSim
/-!
Link C09 ⊑ C01 (sender side), round 2: the simulation beyond the data phase.  `SimF` drops `shutdown = false` and lets
C01's sender be in `DataSent` (FIN emitted, acknowledgements outstanding) or `DataRcvd`: the buffer operations that still
happen there — `pick_up` (retransmissions, the data+FIN frame), `on_data_acked`, `may_loss_data` — are mirrored by C01's
`pick` / `ack` / `lose` whatever the FIN flag of the frames and whatever `fin_state` is (both are C01's own).  In `DataRcvd`
C01 no longer calls the buffer; the relation is kept because every byte of the coloured prefix is `Recved` there, so late
acknowledgements / loss reports change no colour and `pick_up` has nothing to offer.
Not mirrored after `shutdown`/FIN (no C01 counterpart, and `Outgoing` does not call them): `write` (refused with
`EosSent`), `extend` (`update_window` is ignored from `DataSent` on).
-/
namespace GmQuic.Links
open GmQuic.SendSpec

structure SimF (p : SendSpec) (s : Stream.Sender) : Prop where
  written : s.written = p.data
  status : ∀ x, s.status x = col (p.colour x)
  maxData : s.maxData = p.maxData
  below : ∀ x, x < s.sentHi → p.colour x ≠ .pending
  above : ∀ x, s.sentHi ≤ x → p.colour x = .pending
  sent_le : s.sentHi ≤ p.size
  st : s.st = .ready ∨ s.st = .sending ∨ s.st = .dataSent ∨ s.st = .dataRcvd
  ready0 : s.st = .ready → s.sentHi = 0
  noerr : s.err = false
  done : s.st = .dataRcvd → ∀ x, x < p.size → p.colour x = .recved

theorem Sim.toF {p : SendSpec} {s : Stream.Sender} (h : Sim p s) : SimF p s :=
  ⟨h.written, h.status, h.maxData, h.below, h.above, h.sent_le,
   h.st.elim Or.inl (fun x => Or.inr (Or.inl x)), h.ready0, h.noerr,
   fun hd => by rcases h.st with h1 | h1 <;> rw [h1] at hd <;> cases hd⟩

/-- `Writer::poll_shutdown` keeps the relation (the buffer is not touched) -/
theorem simF_shutdown {p : SendSpec} {s : Stream.Sender} (h : SimF p s) : SimF p s.pollShutdown.1 := by
  unfold Stream.Sender.pollShutdown
  split
  · exact h
  · split
    · exact { h with }
    · exact { h with }
    all_goals exact h

/-- a range the buffer may answer, in ANY phase: legal for C01, states stay related; the FIN flag is C01's `pickFin` -/
theorem simF_pick {p : SendSpec} {s : Stream.Sender} (h : SimF p s) (hI : Inv p) {pred flow a b fresh}
    (hp : pickOk p pred flow (.range a b fresh)) :
    s.pickOk a (b - a) ∧ b ≤ s.written.length ∧ SimF (p.picked (.range a b fresh)) (s.pick a (b - a)).1 := by
  obtain ⟨h1, _, hab, hbw, hca, hcol, _⟩ := pickOk_range hp
  have hsz := hI.size_eq
  have hbs : b ≤ p.size := by unfold SendSpec.win at hbw; omega
  have hbd : b ≤ p.data.length := by omega
  have hbm : b ≤ p.maxData := by unfold SendSpec.win at hbw; omega
  have hpk : ∀ x, a ≤ x → x < b → p.colour x = .pending ∨ p.colour x = .lost := pickOk_range_colour hp
  have hnd : s.st ≠ .dataRcvd := by
    intro hd
    have := h.done hd a (by omega)
    rcases hpk a (Nat.le_refl _) hab with hc | hc <;> rw [this] at hc <;> cases hc
  have ha : a ≤ s.sentHi := by
    apply Nat.le_of_not_lt
    intro hlt
    rcases cand_iff.1 hca with hl | ⟨hpd, hfl⟩
    · have := h.above a (Nat.le_of_lt hlt)
      rw [this] at hl; cases hl
    · have h2 : p.cand flow s.sentHi = false := by
        rw [h1] at hlt
        exact least_min _ _ _ hlt
      have h3 := (cand_false_iff.1 h2).2 (h.above _ (Nat.le_refl _))
      omega
  have hlive : s.live = true := by
    unfold Stream.Sender.live
    rw [h.noerr]
    rcases h.st with h1 | h1 | h1 | h1 <;> simp [h1] <;> exact absurd h1 hnd
  have hab' : a + (b - a) = b := by omega
  refine ⟨⟨hlive, ?_⟩, by rw [h.written]; exact hbd, ?_⟩
  · have : b - a ≠ 0 := by omega
    rw [if_neg this]
    refine ⟨by rw [h.written]; omega, by rw [h.maxData]; omega, fun k hk => ?_, ha⟩
    rw [h.status]
    rcases hpk (a + k) (by omega) (by omega) with h1 | h1 <;> rw [h1] <;> rfl
  · unfold Stream.Sender.pick
    dsimp only
    exact {
      written := h.written
      status := by
        intro x
        show Stream.setRange s.status a (a + (b - a)) (fun _ => .inflight) x = col (setRange p.colour a b (fun _ => .flighting) x)
        unfold Stream.setRange setRange
        rw [hab']
        by_cases hx : a ≤ x ∧ x < b
        · rw [if_pos hx, if_pos hx]; rfl
        · rw [if_neg hx, if_neg hx]; exact h.status x
      maxData := h.maxData
      below := by
        intro x hx
        show setRange p.colour a b (fun _ => .flighting) x ≠ .pending
        unfold setRange
        by_cases hx' : a ≤ x ∧ x < b
        · rw [if_pos hx']; simp
        · rw [if_neg hx']
          apply h.below
          change x < max s.sentHi (a + (b - a)) at hx
          omega
      above := by
        intro x hx
        show setRange p.colour a b (fun _ => .flighting) x = .pending
        have hx1 : max s.sentHi (a + (b - a)) ≤ x := hx
        unfold setRange
        rw [if_neg (by omega)]
        exact h.above x (by omega)
      sent_le := by
        show max s.sentHi (a + (b - a)) ≤ p.size
        have := h.sent_le
        omega
      st := by
        show (if s.st = .dataSent then Stream.SSt.dataSent else if s.pickFin a (b - a) then .dataSent else .sending) = .ready ∨ _
        split
        · exact Or.inr (Or.inr (Or.inl rfl))
        · split
          · exact Or.inr (Or.inr (Or.inl rfl))
          · exact Or.inr (Or.inl rfl)
      ready0 := by
        intro hc
        change (if s.st = .dataSent then Stream.SSt.dataSent else if s.pickFin a (b - a) then .dataSent else .sending) = .ready at hc
        split at hc
        · cases hc
        · split at hc <;> cases hc
      noerr := h.noerr
      done := by
        intro hc
        change (if s.st = .dataSent then Stream.SSt.dataSent else if s.pickFin a (b - a) then .dataSent else .sending) = .dataRcvd at hc
        split at hc
        · cases hc
        · split at hc <;> cases hc }

theorem simF_touch {p : SendSpec} {s : Stream.Sender} (h : SimF p s) : SimF p s.touch := by
  unfold Stream.Sender.touch
  split
  · exact {
      written := h.written
      status := h.status
      maxData := h.maxData
      below := h.below
      above := h.above
      sent_le := h.sent_le
      st := Or.inr (Or.inl rfl)
      ready0 := fun hc => (by cases hc)
      noerr := h.noerr
      done := fun hc => (by cases hc) }
  · exact h

theorem simF_not_ready {p : SendSpec} {s : Stream.Sender} (h : SimF p s) {a b : Nat} (hd : RangeDom p a b) :
    s.st ≠ .ready ∧ b ≤ s.sentHi := by
  obtain ⟨hab, _, hnp⟩ := hd
  have hb : b ≤ s.sentHi := by
    apply Nat.le_of_not_lt
    intro hlt
    exact hnp (b - 1) (by omega) (by omega) (h.above _ (by omega))
  exact ⟨fun h1 => by have := h.ready0 h1; omega, hb⟩

/-- the colour part of the relation after recolouring `[a, b)` by `g` on the buffer and by `g'` on C01's side -/
theorem simF_recolour {p : SendSpec} {s : Stream.Sender} (h : SimF p s) {a b : Nat} (hb : b ≤ s.sentHi)
    (g : Colour → Colour) (g' : Stream.BSt → Stream.BSt) (hg : ∀ c, g' (col c) = col (g c))
    (hgp : ∀ c, c ≠ .pending → g c ≠ .pending) :
    (∀ x, Stream.setRange s.status a b g' x = col (setRange p.colour a b g x)) ∧
    (∀ x, x < s.sentHi → setRange p.colour a b g x ≠ .pending) ∧
    (∀ x, s.sentHi ≤ x → setRange p.colour a b g x = .pending) := by
  refine ⟨fun x => ?_, fun x hx => ?_, fun x hx => ?_⟩
  · unfold Stream.setRange setRange
    by_cases hx : a ≤ x ∧ x < b
    · rw [if_pos hx, if_pos hx, h.status, hg]
    · rw [if_neg hx, if_neg hx]; exact h.status x
  · unfold setRange
    by_cases hx' : a ≤ x ∧ x < b
    · rw [if_pos hx']; exact hgp _ (h.below x hx)
    · rw [if_neg hx']; exact h.below x hx
  · unfold setRange
    rw [if_neg (by omega)]
    exact h.above x hx

/-- the relation for any C01 state `s'` that differs from `s` by a recolouring of `[a, b)` (and `st`, `fin`, `panicked`) -/
theorem simF_of_fields {p p' : SendSpec} {s s' : Stream.Sender} (h : SimF p s) (_hI : Inv p)
    (hsz : p'.size = p.size) (hdata : p'.data = p.data) (hmd : p'.maxData = p.maxData)
    (e1 : s'.written = s.written) (e2 : s'.maxData = s.maxData) (e3 : s'.sentHi = s.sentHi) (e4 : s'.err = false)
    (hst : s'.st = .sending ∨ s'.st = .dataSent ∨ s'.st = .dataRcvd)
    (c1 : ∀ x, s'.status x = col (p'.colour x))
    (c2 : ∀ x, x < s.sentHi → p'.colour x ≠ .pending) (c3 : ∀ x, s.sentHi ≤ x → p'.colour x = .pending)
    (hdone : s'.st = .dataRcvd → ∀ x, x < p'.size → p'.colour x = .recved) : SimF p' s' where
  written := by rw [e1, hdata]; exact h.written
  status := c1
  maxData := by rw [e2, hmd]; exact h.maxData
  below := by rw [e3]; exact c2
  above := by rw [e3]; exact c3
  sent_le := by rw [e3, hsz]; exact h.sent_le
  st := Or.inr hst
  ready0 := fun hc => (by rcases hst with e | e | e <;> rw [e] at hc <;> cases hc)
  noerr := e4
  done := hdone

/-- `on_data_acked` in any phase: in `Sending` and `DataSent` C01 recolours the same range (and may move to `DataRcvd`); in
`DataRcvd` C01 ignores the acknowledgement and the buffer's recolouring changes nothing. -/
theorem simF_ack {p : SendSpec} {s : Stream.Sender} (h : SimF p s) (hI : Inv p) {a b : Nat} (hd : RangeDom p a b)
    (f : Stream.Frame) (hoff : f.off = a) (hstop : f.stop = b) :
    SimF (p.ack a b) (s.ack f) ∧ (s.ack f).panicked = s.panicked := by
  obtain ⟨hnr, hb⟩ := simF_not_ready h hd
  obtain ⟨c1, c2, c3⟩ := simF_recolour h hb (fun _ => .recved) (fun _ => .acked) (fun _ => rfl) (fun _ _ => by simp)
  have he := h.noerr
  rcases h.st with h1 | h1 | h1 | h1
  · exact absurd h1 hnr
  · have e : s.ack f = { s with status := Stream.setRange s.status a b (fun _ => .acked) } := by
      unfold Stream.Sender.ack; simp only [he, h1, hoff, hstop, Bool.false_eq_true, if_false]
    rw [e]
    exact ⟨simF_of_fields h hI rfl rfl rfl rfl rfl rfl he (Or.inl h1) c1 c2 c3
      (fun hc => by rw [h1] at hc; cases hc), rfl⟩
  · unfold Stream.Sender.ack
    simp only [he, h1, hoff, hstop, Bool.false_eq_true, if_false]
    (repeat' split) <;> first
      | exact ⟨simF_of_fields h hI rfl rfl rfl rfl rfl rfl (by first | rfl | exact he) (Or.inr (Or.inl rfl)) c1 c2 c3
          (fun hc => by cases hc), rfl⟩
      | (rename_i hc
         exact ⟨simF_of_fields h hI rfl rfl rfl rfl rfl rfl (by first | rfl | exact he) (Or.inr (Or.inr rfl)) c1 c2 c3
          (fun _ x hx => by
            have hx' : x < p.size := hx
            have h2 := hc.1 x (by show x < s.written.length; rw [h.written]; have := hI.size_eq; omega)
            change Stream.setRange s.status a b (fun _ => .acked) x = .acked at h2
            rw [c1 x] at h2
            exact col_acked.1 h2), rfl⟩)
  · have e : s.ack f = s := by
      unfold Stream.Sender.ack; simp only [he, h1, Bool.false_eq_true, if_false]
    rw [e]
    refine ⟨?_, rfl⟩
    have hdn := h.done h1
    have heq : ∀ x, setRange p.colour a b (fun _ => Colour.recved) x = p.colour x := by
      intro x
      unfold setRange
      split
      · rename_i hx; exact (hdn x (by have := hd.2.1; omega)).symm
      · rfl
    exact simF_of_fields h hI rfl rfl rfl rfl rfl rfl he (Or.inr (Or.inr h1))
      (fun x => by show s.status x = col (setRange p.colour a b (fun _ => .recved) x); rw [heq]; exact h.status x)
      (fun x hx => by show setRange p.colour a b (fun _ => .recved) x ≠ _; rw [heq]; exact h.below x hx)
      (fun x hx => by show setRange p.colour a b (fun _ => .recved) x = _; rw [heq]; exact h.above x hx)
      (fun _ x hx => by show setRange p.colour a b (fun _ => .recved) x = _; rw [heq]; exact hdn x hx)

/-- `may_loss_data` in any phase. -/
theorem simF_lose {p : SendSpec} {s : Stream.Sender} (h : SimF p s) (hI : Inv p) {a b : Nat} (hd : RangeDom p a b)
    (f : Stream.Frame) (hoff : f.off = a) (hstop : f.stop = b) :
    SimF (p.lose a b) (s.lose f) ∧ (s.lose f).panicked = s.panicked := by
  obtain ⟨hnr, hb⟩ := simF_not_ready h hd
  obtain ⟨c1, c2, c3⟩ := simF_recolour h hb lostOf Stream.lostOf (fun c => (col_lostOf c).symm)
    (fun c hc hl => hc (lostOf_eq_pending.1 hl))
  have he := h.noerr
  rcases h.st with h1 | h1 | h1 | h1
  · exact absurd h1 hnr
  · have e : s.lose f = { s with status := Stream.setRange s.status a b Stream.lostOf } := by
      unfold Stream.Sender.lose; simp only [he, h1, hoff, hstop, Bool.false_eq_true, if_false]
    rw [e]
    exact ⟨simF_of_fields h hI rfl rfl rfl rfl rfl rfl he (Or.inl h1) c1 c2 c3
      (fun hc => by rw [h1] at hc; cases hc), rfl⟩
  · have e : s.lose f = { s with status := Stream.setRange s.status a b Stream.lostOf,
                                  fin := if f.fin ∧ s.fin ≠ .rcvd then .lost else s.fin } := by
      unfold Stream.Sender.lose; simp only [he, h1, hoff, hstop, Bool.false_eq_true, if_false]
    rw [e]
    exact ⟨simF_of_fields h hI rfl rfl rfl rfl rfl rfl he (Or.inr (Or.inl h1)) c1 c2 c3
      (fun hc => by rw [h1] at hc; cases hc), rfl⟩
  · have e : s.lose f = s := by
      unfold Stream.Sender.lose; simp only [he, h1, Bool.false_eq_true, if_false]
    rw [e]
    refine ⟨?_, rfl⟩
    have hdn := h.done h1
    have heq : ∀ x, setRange p.colour a b lostOf x = p.colour x := by
      intro x
      unfold setRange
      split
      · rename_i hx; rw [hdn x (by have := hd.2.1; omega)]; rfl
      · rfl
    exact simF_of_fields h hI rfl rfl rfl rfl rfl rfl he (Or.inr (Or.inr h1))
      (fun x => by show s.status x = col (setRange p.colour a b lostOf x); rw [heq]; exact h.status x)
      (fun x hx => by show setRange p.colour a b lostOf x ≠ _; rw [heq]; exact h.below x hx)
      (fun x hx => by show setRange p.colour a b lostOf x = _; rw [heq]; exact h.above x hx)
      (fun _ x hx => by show setRange p.colour a b lostOf x = _; rw [heq]; exact hdn x hx)

/-- what a FIN-phase buffer operation needs from the stream: `ack`/`lose` name an emitted frame; no `write`/`extend` -/
def FinSide (S : Stream.Stream) : SendOp → Prop
  | .ack a b => ∃ (i : Nat) (f : Stream.Frame), S.emitted[i]? = some f ∧ f.off = a ∧ f.stop = b
  | .lose a b => ∃ (i : Nat) (f : Stream.Frame), S.emitted[i]? = some f ∧ f.off = a ∧ f.stop = b
  | .pick _ _ => True
  | _ => False

/-- **The FIN phase at stream level.**  On any C01 stream whose sender carries the buffer (`SimF`, any of `Ready` … `DataRcvd`,
`shutdown` called or not), a `pick_up` answer / acknowledgement / loss report of the buffer is mirrored by ONE `Stream.Op`;
the frame C01 emits for a range carries C01's own FIN flag (`pickFin`: set iff the range ends at the final size after
`shutdown`). -/
theorem simF_stream_step (S : Stream.Stream) {p : SendSpec} (h : SimF p S.snd) (hI : Inv p)
    {op : SendOp} {obs : SendObs} {p' : SendSpec} (hs : stepOk p op obs p')
    (hside : FinSide S op) :
    ∃ o : Stream.Op, SimF p' (S.step o).snd ∧ (S.step o).rcv = S.rcv ∧
      (S.step o).emitted = S.emitted ++ (match obs with
        | .range a b _ => [⟨a, Stream.slice S.snd.written a (b - a), S.snd.pickFin a (b - a)⟩]
        | _ => []) := by
  cases op with
  | pick pred flow =>
    obtain ⟨_, hp, rfl⟩ := hs
    cases obs with
    | unit => exact hp.elim
    | none => exact ⟨.touch, simF_touch h, rfl, by simp [Stream.Stream.step]⟩
    | range a b fresh =>
      obtain ⟨hok, _, hsim⟩ := simF_pick h hI hp
      refine ⟨.pick a (b - a), ?_, ?_, ?_⟩ <;> simp only [Stream.Stream.step, if_pos hok]
      · exact hsim
      · rfl
  | ack a b =>
    cases obs <;> simp only [stepOk] at hs <;> try exact hs.elim
    obtain ⟨hd, rfl⟩ := hs
    obtain ⟨i, f, hi, hoff, hstop⟩ := hside
    refine ⟨.ack i, ?_, ?_, ?_⟩ <;> simp only [Stream.Stream.step, hi, List.append_nil]
    exact (simF_ack h hI hd f hoff hstop).1
  | lose a b =>
    cases obs <;> simp only [stepOk] at hs <;> try exact hs.elim
    obtain ⟨hd, rfl⟩ := hs
    obtain ⟨i, f, hi, hoff, hstop⟩ := hside
    refine ⟨.lose i, ?_, ?_, ?_⟩ <;> simp only [Stream.Stream.step, hi, List.append_nil]
    exact (simF_lose h hI hd f hoff hstop).1
  | write _ => exact hside.elim
  | extend _ => exact hside.elim
  | resend => exact hside.elim
  | forget => exact hside.elim

end GmQuic.Links
