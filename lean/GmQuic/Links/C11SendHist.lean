import GmQuic.Links.C11Send
/-!
Link C11 ↔ C01, sender side, part 2: every C01 operation as 0–2 operations of C11's `Sndr`; histories; the corollary
that C11's `stream_limit_respected_all` bounds every frame C01's sender emits.
-/
namespace GmQuic.Links
open GmQuic.StreamWindow

/-- only MAX_STREAM_DATA values the receiving half of the C01 stream emitted are fed to C11's sender -/
def MsdFrom (S : Stream.Stream) (l : List TOp) : Prop := ∀ m, TOp.half (.msd m) ∈ l → m ∈ S.msds

theorem sr_nil (S S' : Stream.Stream) (t : Sndr) (h : SR S.snd t) (hem : EmOk S t)
    (hw : Weaker S.snd S'.snd) (he : S'.emitted = S.emitted) :
    ∃ l : List TOp, SR S'.snd (l.foldl Sndr.step t) ∧ EmOk S' (l.foldl Sndr.step t) ∧ MsdFrom S l ∧ l.length ≤ 2 :=
  ⟨[], h.weaker hw, (by intro f hf; rw [he] at hf; exact hem f hf), fun _ hm => (by cases hm), (by simp)⟩

theorem pick_fin_ok {s : Stream.Sender} {t : Sndr} (h : SR s t) (hl : s.live = true) (a n : Nat)
    (hf : s.pickFin a n = true) : t.half.finReq = true ∧ a + n = t.half.written := by
  unfold Stream.Sender.pickFin at hf
  split at hf
  · rename_i hd
    simp only [beq_iff_eq] at hf
    exact ⟨h.sent hd, by rw [h.written]; exact hf⟩
  · rename_i hd
    simp only [Bool.and_eq_true, beq_iff_eq] at hf
    have hst : s.st = .ready ∨ s.st = .sending := by
      unfold Stream.Sender.live at hl
      simp only [Bool.and_eq_true, Bool.or_eq_true, beq_iff_eq] at hl
      rcases hl.2 with (h1 | h1) | h1
      · exact Or.inl h1
      · exact Or.inr h1
      · exact absurd h1 hd
    exact ⟨by rw [(h.early hst).1]; exact hf.1, by rw [h.written]; exact hf.2⟩

theorem live_early {s : Stream.Sender} (hl : s.live = true) (hd : s.st ≠ .dataSent) : s.st = .ready ∨ s.st = .sending := by
  unfold Stream.Sender.live at hl
  simp only [Bool.and_eq_true, Bool.or_eq_true, beq_iff_eq] at hl
  rcases hl.2 with (h1 | h1) | h1
  · exact Or.inl h1
  · exact Or.inr h1
  · exact absurd h1 hd

/-- the SR facts after a legal pick, for any C11 state `t'` that has the right fields -/
theorem sr_pick {s : Stream.Sender} {t t' : Sndr} (h : SR s t) (hl : s.live = true) (a n : Nat)
    (hinv : t'.Inv) (h1 : t'.half.maxData = t.half.maxData) (h2 : t'.half.written = t.half.written)
    (h3 : t'.half.sentHi = max s.sentHi (a + n)) (h4 : t'.rst = t.rst) (h5 : t'.half.finReq = t.half.finReq)
    (h6 : t'.half.finSent = (t.half.finSent || s.pickFin a n)) :
    SR (s.pick a n).1 t' := by
  have hfin := pick_fin_ok h hl a n
  have hst' : (s.pick a n).1.st =
      if s.st = .dataSent then .dataSent else if s.pickFin a n then .dataSent else .sending := rfl
  exact {
    inv := hinv
    maxData := by rw [h1]; exact h.maxData
    written := by rw [h2]; exact h.written
    sentHi := h3
    live := fun _ => by rw [h4]; exact h.live hl
    early := by
      intro he
      rw [hst'] at he
      by_cases hd : s.st = .dataSent
      · rw [if_pos hd] at he; rcases he with he | he <;> cases he
      · rw [if_neg hd] at he
        cases hp : s.pickFin a n
        · rw [h5, h6, hp, Bool.or_false]
          exact h.early (live_early hl hd)
        · rw [hp] at he; simp at he
    sent := by
      intro he
      rw [h5]
      by_cases hd : s.st = .dataSent
      · exact h.sent hd
      · rw [hst', if_neg hd] at he
        cases hp : s.pickFin a n
        · rw [hp] at he; simp at he
        · exact (hfin hp).1 }

/-- **One C01 operation = 0, 1 or 2 operations of C11's sender.** -/
theorem sr_step (S : Stream.Stream) (t : Sndr) (h : SR S.snd t) (hem : EmOk S t) (o : Stream.Op) :
    ∃ l : List TOp, SR (S.step o).snd (l.foldl Sndr.step t) ∧ EmOk (S.step o) (l.foldl Sndr.step t) ∧
      MsdFrom S l ∧ l.length ≤ 2 := by
  cases o with
  | touch => exact sr_nil S _ t h hem (weaker_touch _) rfl
  | deliver i =>
    apply sr_nil S _ t h hem <;> simp only [Stream.Stream.step] <;> split <;> first | exact Weaker.refl _ | rfl
  | read cap =>
    apply sr_nil S _ t h hem <;> simp only [Stream.Stream.step] <;> split <;> first | exact Weaker.refl _ | rfl
  | stop => exact sr_nil S _ t h hem (Weaker.refl _) rfl
  | deliverReset i =>
    apply sr_nil S _ t h hem <;> simp only [Stream.Stream.step] <;> split <;> first | exact Weaker.refl _ | rfl
  | connErrorRcv => exact sr_nil S _ t h hem (Weaker.refl _) rfl
  | ack i =>
    apply sr_nil S _ t h hem <;> simp only [Stream.Stream.step] <;> split <;>
      first | exact weaker_ack _ _ | exact Weaker.refl _ | rfl
  | lose i =>
    apply sr_nil S _ t h hem <;> simp only [Stream.Stream.step] <;> split <;>
      first | exact weaker_lose _ _ | exact Weaker.refl _ | rfl
  | cancel => exact sr_nil S _ t h hem (weaker_cancel _) rfl
  | deliverStop =>
    apply sr_nil S _ t h hem <;> simp only [Stream.Stream.step] <;> split <;>
      first | exact weaker_beStopped _ | exact Weaker.refl _ | rfl
  | ackReset =>
    apply sr_nil S _ t h hem <;> simp only [Stream.Stream.step] <;> split <;>
      first | exact weaker_resetAcked _ | exact Weaker.refl _ | rfl
  | connErrorSnd => exact sr_nil S _ t h hem (weaker_connError _) rfl
  | write bs =>
    by_cases hacc : S.snd.err = false ∧ (S.snd.st = .ready ∨ S.snd.st = .sending) ∧ S.snd.shutdown = false
    · obtain ⟨he, hst, hsh⟩ := hacc
      have hw : (S.snd.write bs).1 = { S.snd with written := S.snd.written ++ bs } := by
        unfold Stream.Sender.write
        rcases hst with h1 | h1 <;> simp [he, h1, hsh]
      have hl : S.snd.live = true := by
        unfold Stream.Sender.live; rcases hst with h1 | h1 <;> simp [he, h1]
      have hr := h.live hl
      have hfr : t.half.finReq = false := by rw [(h.early hst).1]; exact hsh
      have ht : t.step (.half (.write bs.length)) =
          { t with half := { t.half with written := t.half.written + bs.length } } := by
        simp [Sndr.step, hr, SendHalf.step, hfr]
      refine ⟨[.half (.write bs.length)], ?_, ?_, fun m hm => by simp at hm, by simp⟩
      · simp only [List.foldl_cons, List.foldl_nil, Stream.Stream.step, hw]
        have hinv := t.step_inv (.half (.write bs.length)) h.inv
        rw [ht] at hinv ⊢
        exact {
          inv := hinv
          maxData := h.maxData
          written := by
            show t.half.written + bs.length = (S.snd.written ++ bs).length
            rw [List.length_append, h.written]
          sentHi := h.sentHi
          live := fun _ => hr
          early := h.early
          sent := h.sent }
      · simp only [List.foldl_cons, List.foldl_nil, ht]
        intro f hf
        exact hem f hf
    · have hw : (S.snd.write bs).1 = S.snd := by
        unfold Stream.Sender.write
        cases he : S.snd.err <;> cases hs : S.snd.st <;> cases hh : S.snd.shutdown <;> simp_all
      apply sr_nil S _ t h hem
      · show Weaker S.snd (S.snd.write bs).1
        rw [hw]; exact Weaker.refl _
      · rfl
  | shutdown =>
    by_cases hacc : S.snd.err = false ∧ (S.snd.st = .ready ∨ S.snd.st = .sending)
    · obtain ⟨he, hst⟩ := hacc
      have hw : S.snd.pollShutdown.1 = { S.snd with shutdown := true } := by
        unfold Stream.Sender.pollShutdown
        rcases hst with h1 | h1 <;> simp [he, h1]
      have hl : S.snd.live = true := by
        unfold Stream.Sender.live; rcases hst with h1 | h1 <;> simp [he, h1]
      have hr := h.live hl
      have ht : t.step (.half .fin) = { t with half := { t.half with finReq := true } } := by
        simp [Sndr.step, hr, SendHalf.step]
      refine ⟨[.half .fin], ?_, ?_, fun m hm => by simp at hm, by simp⟩
      · simp only [List.foldl_cons, List.foldl_nil, Stream.Stream.step, hw]
        have hinv := t.step_inv (.half .fin) h.inv
        rw [ht] at hinv ⊢
        exact {
          inv := hinv
          maxData := h.maxData
          written := h.written
          sentHi := h.sentHi
          live := fun _ => hr
          early := fun hs => ⟨rfl, (h.early hs).2⟩
          sent := fun _ => rfl }
      · simp only [List.foldl_cons, List.foldl_nil, ht]
        intro f hf
        exact hem f hf
    · have hw : S.snd.pollShutdown.1 = S.snd := by
        unfold Stream.Sender.pollShutdown
        cases he : S.snd.err <;> cases hs : S.snd.st <;> simp_all
      apply sr_nil S _ t h hem
      · show Weaker S.snd S.snd.pollShutdown.1
        rw [hw]; exact Weaker.refl _
      · rfl
  | deliverMsd i =>
    cases hi : S.msds[i]? with
    | none =>
      apply sr_nil S _ t h hem <;> simp only [Stream.Stream.step, hi]
      · exact Weaker.refl _
    | some m =>
      have hS : S.step (.deliverMsd i) = { S with snd := S.snd.updateWindow m } := by
        simp only [Stream.Stream.step, hi]
      by_cases hacc : S.snd.err = false ∧ (S.snd.st = .ready ∨ S.snd.st = .sending)
      · obtain ⟨he, hst⟩ := hacc
        have hl : S.snd.live = true := by
          unfold Stream.Sender.live; rcases hst with h1 | h1 <;> simp [he, h1]
        have hr := h.live hl
        have hfs := (h.early hst).2
        have hinv := t.step_inv (.half (.msd m)) h.inv
        refine ⟨[.half (.msd m)], ?_, ?_, ?_, by simp⟩
        · simp only [List.foldl_cons, List.foldl_nil, hS]
          by_cases hgt : m > S.snd.maxData
          · have hw : S.snd.updateWindow m = { S.snd with maxData := m } := by
              unfold Stream.Sender.updateWindow
              rcases hst with h1 | h1 <;> simp [he, h1, hgt]
            have ht : t.step (.half (.msd m)) =
                { t with half := { t.half with granted := max t.half.granted m, maxData := m } } := by
              have : m > t.half.maxData := by rw [h.maxData]; exact hgt
              simp [Sndr.step, Sndr.updateWindow, hr, SendHalf.updateWindow, hfs, this]
            rw [ht] at hinv ⊢
            rw [hw]
            exact {
              inv := hinv
              maxData := rfl
              written := h.written
              sentHi := h.sentHi
              live := fun _ => hr
              early := h.early
              sent := h.sent }
          · have hw : S.snd.updateWindow m = S.snd := by
              unfold Stream.Sender.updateWindow
              rcases hst with h1 | h1 <;> simp [he, h1, hgt]
            have ht : t.step (.half (.msd m)) =
                { t with half := { t.half with granted := max t.half.granted m } } := by
              have : ¬ m > t.half.maxData := by rw [h.maxData]; exact hgt
              simp [Sndr.step, Sndr.updateWindow, hr, SendHalf.updateWindow, hfs, this]
            rw [ht] at hinv ⊢
            rw [hw]
            exact {
              inv := hinv
              maxData := h.maxData
              written := h.written
              sentHi := h.sentHi
              live := fun _ => hr
              early := h.early
              sent := h.sent }
        · simp only [List.foldl_cons, List.foldl_nil, hS]
          have hem' : (t.step (.half (.msd m))).half.emitted = t.half.emitted := by
            simp only [Sndr.step, Sndr.updateWindow, hr, Option.isSome_none, Bool.false_eq_true, if_false,
              SendHalf.updateWindow, hfs]
            split <;> rfl
          intro f hf
          rw [hem']
          exact hem f hf
        · intro m' hm'
          simp only [List.mem_singleton, TOp.half.injEq, SOp.msd.injEq] at hm'
          subst hm'
          exact List.mem_of_getElem? hi
      · have hw : S.snd.updateWindow m = S.snd := by
          unfold Stream.Sender.updateWindow
          cases he : S.snd.err <;> cases hs : S.snd.st <;> simp_all
        apply sr_nil S _ t h hem
        · rw [hS]; show Weaker S.snd (S.snd.updateWindow m); rw [hw]; exact Weaker.refl _
        · rw [hS]
  | pick a n =>
    by_cases hok : S.snd.pickOk a n
    · have hS : S.step (.pick a n) =
          { S with snd := (S.snd.pick a n).1, emitted := S.emitted ++ [(S.snd.pick a n).2] } := by
        simp only [Stream.Stream.step, if_pos hok]
      have hl : S.snd.live = true := hok.1
      have hr := h.live hl
      have hfin := pick_fin_ok h hl a n
      have hhi : t.half.sentHi ≤ t.half.maxData := h.inv.half.hiMax
      have hhw : t.half.sentHi ≤ t.half.written := h.inv.hiW
      -- what `pickOk` says, in C11's vocabulary
      have hb : a + n ≤ t.half.maxData ∧ a + n ≤ t.half.written ∧ a ≤ t.half.sentHi ∧ (n = 0 → a = t.half.sentHi) := by
        have h2 := hok.2
        have e1 := h.maxData
        have e2 := h.written
        have e3 := h.sentHi
        by_cases hn : n = 0
        · rw [if_pos hn] at h2
          obtain ⟨x1, x2, _⟩ := h2
          omega
        · rw [if_neg hn] at h2
          obtain ⟨x1, x2, _, x4⟩ := h2
          omega
      obtain ⟨hbm, hbw, has, hn0⟩ := hb
      have hstop : (S.snd.pick a n).2.stop = a + n := by
        show a + (Stream.slice S.snd.written a n).length = a + n
        rw [Stream.slice_length _ _ _ (by rw [← h.written]; exact hbw)]
      have hfin' : S.snd.pickFin a n = true → t.half.finReq = true ∧ a + n = t.half.written := hfin
      -- the common tail: given the C11 list and its explicit result, conclude
      have fin_of : ∀ (l : List TOp) (t' : Sndr), l.foldl Sndr.step t = t' → l.length ≤ 2 →
          (∀ m, TOp.half (.msd m) ∉ l) →
          t'.half.maxData = t.half.maxData → t'.half.written = t.half.written →
          t'.half.sentHi = max S.snd.sentHi (a + n) → t'.rst = t.rst → t'.half.finReq = t.half.finReq →
          t'.half.finSent = (t.half.finSent || S.snd.pickFin a n) →
          (∀ r ∈ t.half.emitted, r ∈ t'.half.emitted) → (∃ r ∈ t'.half.emitted, r.2 = a + n) →
          ∃ l : List TOp, SR (S.step (.pick a n)).snd (l.foldl Sndr.step t) ∧
            EmOk (S.step (.pick a n)) (l.foldl Sndr.step t) ∧ MsdFrom S l ∧ l.length ≤ 2 := by
        intro l t' hl' hlen hmsd g1 g2 g3 g4 g5 g6 g7 g8
        refine ⟨l, ?_, ?_, fun m hm => absurd hm (hmsd m), hlen⟩
        · rw [hl', hS]
          have hinv : t'.Inv := by rw [← hl']; exact Sndr.inv_foldl l t h.inv
          exact sr_pick h hl a n hinv g1 g2 g3 g4 g5 g6
        · rw [hl', hS]
          intro f hf
          rcases List.mem_append.1 hf with hf | hf
          · obtain ⟨r, hr1, hr2⟩ := hem f hf
            exact ⟨r, g7 r hr1, hr2⟩
          · simp only [List.mem_singleton] at hf
            subst hf
            obtain ⟨r, hr1, hr2⟩ := g8
            exact ⟨r, hr1, by rw [hr2, hstop]⟩
      by_cases hret : a + n ≤ t.half.sentHi
      · -- retransmission or FIN-only frame: one emission
        have ht := emit_retrans t a (a + n) (S.snd.pickFin a n) hr (by omega) hbm hbw hfin' hret
        refine fin_of [.half (.emit a (a + n) (S.snd.pickFin a n) 0)]
          { t with half := { t.half with finSent := t.half.finSent || S.snd.pickFin a n,
                                         emitted := t.half.emitted ++ [(a, a + n)] } }
          (by simp only [List.foldl_cons, List.foldl_nil]; exact ht)
          (by simp) (by simp) rfl rfl ?_ rfl rfl rfl ?_ ?_
        · show t.half.sentHi = max S.snd.sentHi (a + n)
          rw [← h.sentHi]; omega
        · intro r hr; exact List.mem_append_left _ hr
        · exact ⟨(a, a + n), by simp, rfl⟩
      · by_cases hfr : a = t.half.sentHi
        · -- fresh data: one emission
          have ht := emit_fresh t a (a + n) (S.snd.pickFin a n) hr hfr (by omega) hbm hbw hfin'
          refine fin_of [.half (.emit a (a + n) (S.snd.pickFin a n) (a + n - a))]
            { t with half := { t.half with sentHi := a + n, finSent := t.half.finSent || S.snd.pickFin a n,
                                           emitted := t.half.emitted ++ [(a, a + n)],
                                           charged := t.half.charged + (a + n - a) } }
            (by simp only [List.foldl_cons, List.foldl_nil]; exact ht) (by simp) (by simp) rfl rfl ?_ rfl rfl rfl ?_ ?_
          · show a + n = max S.snd.sentHi (a + n)
            rw [← h.sentHi]; omega
          · intro r hr; exact List.mem_append_left _ hr
          · exact ⟨(a, a + n), by simp, rfl⟩
        · -- straddling `sentHi`: a retransmission and a fresh emission
          have hlt : a < t.half.sentHi := by omega
          have ht1 := emit_retrans t a t.half.sentHi false hr (by omega) hhi hhw (fun hc => by cases hc) (Nat.le_refl _)
          let t1 : Sndr := { t with half := { t.half with finSent := t.half.finSent || false,
                                                          emitted := t.half.emitted ++ [(a, t.half.sentHi)] } }
          have ht2 := emit_fresh t1 t.half.sentHi (a + n) (S.snd.pickFin a n) hr rfl (by omega) hbm hbw hfin'
          refine fin_of [.half (.emit a t.half.sentHi false 0),
              .half (.emit t.half.sentHi (a + n) (S.snd.pickFin a n) (a + n - t.half.sentHi))]
            { t1 with half := { t1.half with sentHi := a + n, finSent := t1.half.finSent || S.snd.pickFin a n,
                                             emitted := t1.half.emitted ++ [(t.half.sentHi, a + n)],
                                             charged := t1.half.charged + (a + n - t.half.sentHi) } }
            (by simp only [List.foldl_cons, List.foldl_nil]; rw [ht1]; exact ht2) (by simp) (by simp) rfl rfl ?_ rfl rfl ?_ ?_ ?_
          · show a + n = max S.snd.sentHi (a + n)
            rw [← h.sentHi]; omega
          · show (t.half.finSent || false || S.snd.pickFin a n) = (t.half.finSent || S.snd.pickFin a n)
            rw [Bool.or_false]
          · intro r hr
            exact List.mem_append_left _ (List.mem_append_left _ hr)
          · exact ⟨(t.half.sentHi, a + n), by simp [t1], rfl⟩
    · apply sr_nil S _ t h hem <;> simp only [Stream.Stream.step, if_neg hok]
      · exact Weaker.refl _

/-! ### histories -/

theorem step_msds (S : Stream.Stream) (o : Stream.Op) : ∃ t, (S.step o).msds = S.msds ++ t := by
  cases o with
  | read cap =>
    have : (S.step (.read cap)).msds =
        match (S.rcv.read cap).2.2 with | some v => S.msds ++ [v] | none => S.msds := by
      simp only [Stream.Stream.step]; split <;> rfl
    rw [this]
    split
    · exact ⟨_, rfl⟩
    · exact ⟨[], by simp⟩
  | _ => simp only [Stream.Stream.step] <;> (try split) <;> exact ⟨[], by simp⟩

theorem run_msds (ops : List Stream.Op) (S : Stream.Stream) : ∃ t, (S.run ops).msds = S.msds ++ t := by
  induction ops generalizing S with
  | nil => exact ⟨[], by simp [Stream.Stream.run]⟩
  | cons o l ih =>
    obtain ⟨t1, h1⟩ := step_msds S o
    obtain ⟨t2, h2⟩ := ih (S.step o)
    have : S.run (o :: l) = (S.step o).run l := rfl
    exact ⟨t1 ++ t2, by rw [this, h2, h1, List.append_assoc]⟩

theorem sr_run (ops : List Stream.Op) (S : Stream.Stream) (t : Sndr) (h : SR S.snd t) (hem : EmOk S t) :
    ∃ l : List TOp, SR (S.run ops).snd (l.foldl Sndr.step t) ∧ EmOk (S.run ops) (l.foldl Sndr.step t) ∧
      MsdFrom (S.run ops) l ∧ l.length ≤ 2 * ops.length := by
  induction ops generalizing S t with
  | nil => exact ⟨[], h, hem, fun _ hm => (by cases hm), Nat.le_refl _⟩
  | cons o ops ih =>
    obtain ⟨l1, g1, g2, g3, g4⟩ := sr_step S t h hem o
    obtain ⟨l2, k1, k2, k3, k4⟩ := ih (S.step o) (l1.foldl Sndr.step t) g1 g2
    have hrun : S.run (o :: ops) = (S.step o).run ops := rfl
    obtain ⟨u1, hu1⟩ := step_msds S o
    obtain ⟨u2, hu2⟩ := run_msds ops (S.step o)
    refine ⟨l1 ++ l2, ?_, ?_, ?_, by simp; omega⟩
    · rw [hrun, List.foldl_append]; exact k1
    · rw [hrun, List.foldl_append]; exact k2
    · intro m hm
      rw [hrun]
      rcases List.mem_append.1 hm with hm | hm
      · rw [hu2, hu1]
        exact List.mem_append_left _ (List.mem_append_left _ (g3 m hm))
      · exact k3 m hm

/-- **C01's sender is a history of C11's `Sndr`.**  For EVERY C01 history there is a history `tops` of C11's
whole-sender model from the same initial window (≤ 2 C11 operations per C01 operation) such that the two senders
agree on `max_data`, `written`, `sent()` (`SR`), every end offset of a C01 frame is the end offset of a C11 emission,
and the only MAX_STREAM_DATA values C11's sender was given are values C01's receiving half emitted. -/
theorem c01_sender_is_c11_sndr_history (sw rw : Nat) (ops : List Stream.Op) :
    ∃ tops : List TOp,
      SR (Stream.after sw rw ops).snd (Sndr.run sw tops) ∧
      EmOk (Stream.after sw rw ops) (Sndr.run sw tops) ∧
      MsdFrom (Stream.after sw rw ops) tops ∧ tops.length ≤ 2 * ops.length :=
  sr_run ops (Stream.Stream.init sw rw) (Sndr.init sw) (sr_init sw) (fun _ hf => by cases hf)

theorem grantedOfT_le (tops : List TOp) (w g : Nat) (hw : w ≤ g) (hm : ∀ m, TOp.half (.msd m) ∈ tops → m ≤ g) :
    grantedOfT w tops ≤ g := by
  unfold grantedOfT
  induction tops generalizing w with
  | nil => exact hw
  | cons o l ih =>
    simp only [List.foldl_cons]
    apply ih
    · split
      · rename_i m
        have := hm m (by simp)
        omega
      · exact hw
    · intro m hm'
      exact hm m (List.mem_cons_of_mem _ hm')

/-- **C01's frames are inside C11's granted limit** — the stream-limit clause of C01 obtained from C11's
`stream_limit_respected_all` through the projection: no frame C01's sender ever emits ends beyond the limit granted
to the projected C11 sender, and that limit is at most any bound `g` on the initial window and on the MAX_STREAM_DATA
values C01's receiving half emitted. -/
theorem c01_frames_within_c11_granted (sw rw : Nat) (ops : List Stream.Op) :
    ∃ tops : List TOp,
      (∀ f ∈ (Stream.after sw rw ops).emitted, f.stop ≤ grantedOfT sw tops) ∧
      (Stream.after sw rw ops).snd.maxData ≤ grantedOfT sw tops ∧
      ∀ g, sw ≤ g → (∀ m ∈ (Stream.after sw rw ops).msds, m ≤ g) → grantedOfT sw tops ≤ g := by
  obtain ⟨tops, h1, h2, h3, _⟩ := c01_sender_is_c11_sndr_history sw rw ops
  obtain ⟨c1, c2⟩ := stream_limit_respected_all sw tops
  refine ⟨tops, ?_, ?_, fun g hg hm => grantedOfT_le tops sw g hg (fun m hmm => hm m (h3 m hmm))⟩
  · intro f hf
    obtain ⟨r, hr1, hr2⟩ := h2 f hf
    rw [← hr2]
    exact c1 r hr1
  · rw [← h1.maxData]; exact c2

-- non-vacuity: C01's witness history (two fresh frames, a loss, re-split retransmission, FIN-only frame) and a
-- straddling pick (`pick 0 3`, `lose 0`, `pick 1 4`: bytes 1–2 lost, 3–4 never sent) are legal C01 histories
example : (Stream.after 20 20 Stream.exOps).emitted.length = 5 ∧
    (Stream.after 20 20 [.write [1, 2, 3, 4, 5, 6], .pick 0 3, .lose 0, .pick 1 4]).emitted.map (fun f => (f.off, f.stop))
      = [(0, 3), (1, 5)] := by decide

end GmQuic.Links
