import GmQuic.Model.Stream
import GmQuic.Lemmas.StreamRun
/-!
Helper for the links: the written bytes of a C01 stream only grow by appending (no operation other than an accepted
`write` touches `Sender.written`).
-/
namespace GmQuic.Stream
open GmQuic.RecvBuf (Bytes)

theorem write_written (s : Sender) (bs : Bytes) : ∃ t, (s.write bs).1.written = s.written ++ t := by
  unfold Sender.write
  split
  · exact ⟨[], by simp⟩
  · split
    · split
      · exact ⟨[], by simp⟩
      · exact ⟨bs, rfl⟩
    · split
      · exact ⟨[], by simp⟩
      · exact ⟨bs, rfl⟩
    all_goals exact ⟨[], by simp⟩

theorem pollShutdown_written (s : Sender) : s.pollShutdown.1.written = s.written := by
  unfold Sender.pollShutdown; (repeat' split) <;> rfl
theorem pick_written (s : Sender) (a n : Nat) : (s.pick a n).1.written = s.written := rfl
theorem touch_written (s : Sender) : s.touch.written = s.written := by
  unfold Sender.touch; split <;> rfl
theorem ack_written (s : Sender) (f : Frame) : (s.ack f).written = s.written := by
  unfold Sender.ack
  split
  · rfl
  · split
    · rfl
    · dsimp only
      (repeat' split) <;> rfl
    · rfl
    · rfl
theorem lose_written (s : Sender) (f : Frame) : (s.lose f).written = s.written := by
  unfold Sender.lose; (repeat' split) <;> rfl
theorem updateWindow_written (s : Sender) (m : Nat) : (s.updateWindow m).written = s.written := by
  unfold Sender.updateWindow; (repeat' split) <;> rfl
theorem cancel_written (s : Sender) : s.cancel.1.written = s.written := by
  unfold Sender.cancel; (repeat' split) <;> rfl
theorem beStopped_written (s : Sender) : s.beStopped.1.written = s.written := by
  unfold Sender.beStopped; (repeat' split) <;> rfl
theorem resetAcked_written (s : Sender) : s.resetAcked.written = s.written := by
  unfold Sender.resetAcked; (repeat' split) <;> rfl
theorem connError_written (s : Sender) : s.connError.written = s.written := by
  unfold Sender.connError; (repeat' split) <;> rfl

theorem step_written (S : Stream) (o : Op) : ∃ t, (S.step o).snd.written = S.snd.written ++ t := by
  cases o with
  | write bs => exact write_written S.snd bs
  | shutdown => exact ⟨[], by simp [Stream.step, pollShutdown_written]⟩
  | pick a n =>
    refine ⟨[], ?_⟩
    simp only [Stream.step]
    split
    · simp [pick_written]
    · simp
  | touch => exact ⟨[], by simp [Stream.step, touch_written]⟩
  | deliver i => refine ⟨[], ?_⟩; simp only [Stream.step]; split <;> simp
  | ack i => refine ⟨[], ?_⟩; simp only [Stream.step]; split <;> simp [ack_written]
  | lose i => refine ⟨[], ?_⟩; simp only [Stream.step]; split <;> simp [lose_written]
  | read cap => refine ⟨[], ?_⟩; simp only [Stream.step]; split <;> simp
  | cancel => exact ⟨[], by simp [Stream.step, cancel_written]⟩
  | stop => exact ⟨[], by simp [Stream.step]⟩
  | deliverStop => refine ⟨[], ?_⟩; simp only [Stream.step]; split <;> simp [beStopped_written]
  | deliverReset i => refine ⟨[], ?_⟩; simp only [Stream.step]; split <;> simp
  | ackReset => refine ⟨[], ?_⟩; simp only [Stream.step]; split <;> simp [resetAcked_written]
  | deliverMsd i => refine ⟨[], ?_⟩; simp only [Stream.step]; split <;> simp [updateWindow_written]
  | connErrorSnd => exact ⟨[], by simp [Stream.step, connError_written]⟩
  | connErrorRcv => exact ⟨[], by simp [Stream.step]⟩

/-- after any continuation the written bytes extend the written bytes before it -/
theorem run_written_prefix (S : Stream) (more : List Op) : ∃ t, (S.run more).snd.written = S.snd.written ++ t := by
  induction more generalizing S with
  | nil => exact ⟨[], by simp [Stream.run]⟩
  | cons o l ih =>
    obtain ⟨t1, h1⟩ := step_written S o
    obtain ⟨t2, h2⟩ := ih (S.step o)
    refine ⟨t1 ++ t2, ?_⟩
    have : S.run (o :: l) = (S.step o).run l := rfl
    rw [this, h2, h1, List.append_assoc]

end GmQuic.Stream
