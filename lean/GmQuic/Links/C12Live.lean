import GmQuic.Props.C12
import GmQuic.Lemmas.FlowRecver
/-!
C12, closing a hypothesis: the endpoint theorems about final size (`deliver_final_size`, `deliver_reset_final_size`) and the
C12 ↔ C11 link (`c12_reset_is_c11_reset`) assume that the receiving half found in the input set is not in the `done` phase —
the phase in which `Incoming::recv_reset` is `unreachable!()`.  Here that assumption is PROVED for every reachable endpoint:
`InLive` (no half in `DataStreams::input` is `done`) holds initially and after ANY operation, so over any history a
RESET_STREAM never reaches the `unreachable!()` arm and the final-size theorems apply to every stream the endpoint can look up.
-/
namespace GmQuic.StreamRules
open GmQuic.Sid GmQuic.Spec.Rfc9000Streams
open GmQuic.StreamWindow (RecvHalf RxObs Phase)

/-- no receiving half in the input set has already delivered everything -/
def InLive (e : Endpoint) : Prop := ∀ p ∈ e.inputs, p.2.phase ≠ .done

theorem lookup_mem {l : List (Nat × RecvHalf)} {s : Nat} {h : RecvHalf} (hl : lookup l s = some h) :
    ∃ p ∈ l, p.2 = h := by
  unfold lookup at hl
  cases hf : l.find? (·.1 == s) with
  | none => simp [hf] at hl
  | some p =>
    rw [hf] at hl
    simp only [Option.map_some, Option.some.injEq] at hl
    exact ⟨p, List.mem_of_find?_eq_some hf, hl⟩

theorem shutRecv_inputs (e : Endpoint) (s : Nat) : (e.shutRecv s).1.inputs = e.inputs := by
  unfold Endpoint.shutRecv
  repeat' split
  all_goals rfl

theorem becomeReady_inputs (e : Endpoint) : e.becomeReady.1.inputs = e.inputs := by
  unfold Endpoint.becomeReady
  repeat' split
  all_goals rfl

theorem acceptSid_live (e : Endpoint) (s : Nat) (h : InLive e) (r : Endpoint × List (Dir × Nat) × Bool)
    (hr : e.acceptSid s = some r) : InLive r.1 := by
  unfold Endpoint.acceptSid at hr
  cases ho : e.rem.step std (.accept s) with
  | mk r' o =>
    rw [ho] at hr
    cases o with
    | «new» a b f =>
      simp only [Option.some.injEq] at hr
      subst hr
      intro p hp
      cases hd : sidDir s <;> simp only [hd] at hp <;>
        (rcases List.mem_append.mp hp with hp1 | hp1
         · exact h p hp1
         · obtain ⟨i, _, rfl⟩ := List.mem_map.mp hp1
           intro hc; cases hc)
    | _ =>
      first
        | (simp only [Option.some.injEq] at hr; subst hr; exact h)
        | (simp only [reduceCtorEq] at hr)

theorem deliver_live (e : Endpoint) (ms : List (Dir × Nat)) (k : FrameKind) (s a b : Nat) (fin : Bool)
    (h : InLive e) : InLive (e.deliver ms k s a b fin).1 := by
  unfold Endpoint.deliver
  cases k with
  | stream =>
    simp only []
    split
    · exact h
    · split
      · exact h
      · exact h
      · split
        · split
          all_goals
            intro p hp
            rw [shutRecv_inputs] at hp
            exact h p ((List.mem_filter.mp hp).1)
        · rename_i hnd
          intro p hp
          obtain ⟨x, hx, rfl⟩ := List.mem_map.mp hp
          split
          · exact hnd
          · exact h x hx
  | resetStream =>
    simp only []
    split
    · exact h
    · split
      · exact h
      · exact h
      · exact h
      · split
        all_goals
          intro p hp
          rw [shutRecv_inputs] at hp
          exact h p ((List.mem_filter.mp hp).1)
  | stopSending => exact h
  | maxStreamData => exact h
  | streamDataBlocked => exact h

theorem inlive_of_inputs {e e' : Endpoint} (h : InLive e) (hi : e'.inputs = e.inputs) : InLive e' := by
  intro p hp; rw [hi] at hp; exact h p hp

/-- **Any operation keeps the input set free of finished halves.** -/
theorem Endpoint.live_step (e : Endpoint) (op : EOp) (h : InLive e) : InLive (e.step op).1 := by
  cases op with
  | acceptBi =>
    apply inlive_of_inputs h; simp only [Endpoint.step]; repeat' split
    all_goals rfl
  | acceptUni =>
    apply inlive_of_inputs h; simp only [Endpoint.step]; repeat' split
    all_goals rfl
  | rparams =>
    apply inlive_of_inputs h; simp only [Endpoint.step]; split
    · rfl
    · rw [becomeReady_inputs]
  | rscid =>
    apply inlive_of_inputs h; simp only [Endpoint.step]; split
    · rfl
    · rw [becomeReady_inputs]
  | open_ d =>
    simp only [Endpoint.step]
    split
    · exact h
    · cases hs : e.loc.step (.alloc d) with
      | mk l' o =>
        cases o with
        | sid s =>
          cases d with
          | bi =>
            intro p hp
            rcases List.mem_append.mp hp with hp1 | hp1
            · exact h p hp1
            · simp only [List.mem_singleton] at hp1; subst hp1; intro hc; cases hc
          | uni => exact h
        | _ => exact h
  | frame k s a b fin =>
    simp only [Endpoint.step]
    split
    · exact h
    · split
      · split
        · exact h
        · split
          · exact h
          · exact deliver_live e [] k s a b fin h
      · exact deliver_live e [] k s a b fin h
    · split
      · exact h
      · rename_i e1 _ heq; exact acceptSid_live e s h _ heq
      · rename_i e1 ms heq; exact deliver_live e1 ms k s a b fin (acceptSid_live e s h _ heq)
  | maxStreams d v => exact h
  | streamsBlocked d v =>
    apply inlive_of_inputs h; simp only [Endpoint.step]; repeat' split
    all_goals rfl
  | drain => exact h

/-- … hence every state reached by ANY history from a state with the invariant has it. -/
theorem Endpoint.live_run (e : Endpoint) (ops : List EOp) (h : InLive e) : InLive (e.run ops) := by
  unfold Endpoint.run
  induction ops generalizing e with
  | nil => exact h
  | cons op t ih => exact ih _ (Endpoint.live_step e op h)

theorem Endpoint.live_new {role : Role} {lb lu pb pu : Nat} {win : Windows} {k : CtrlSt} {e : Endpoint}
    (h : Endpoint.new role lb lu pb pu win k = some e ∨ Endpoint.newLate role lb lu pb pu win k = some e) :
    InLive e := by
  have hi : e.inputs = [] := by
    rcases h with h | h
    · unfold Endpoint.new at h
      split at h
      · cases h
      · split at h
        · cases h
        · simp only [Option.some.injEq] at h; subst h; rfl
    · unfold Endpoint.newLate at h
      split at h
      · cases h
      · simp only [Option.some.injEq] at h; subst h; rfl
  intro p hp; rw [hi] at hp; cases hp

/-- **On every reachable endpoint a RESET_STREAM never reaches the `unreachable!()` arm of `Incoming::recv_reset`**:
for every history of operations from a fresh endpoint (parameters ready or late), every stream `s` the endpoint can look
up and every final size, `resetRx` answers. -/
theorem reset_never_unreachable {role : Role} {lb lu pb pu : Nat} {win : Windows} {k : CtrlSt} {e0 : Endpoint}
    (h0 : Endpoint.new role lb lu pb pu win k = some e0 ∨ Endpoint.newLate role lb lu pb pu win k = some e0)
    (ops : List EOp) (s final : Nat) (h : RecvHalf) (hl : lookup (e0.run ops).inputs s = some h) :
    h.phase ≠ .done ∧ (resetRx h final).isSome = true := by
  obtain ⟨p, hp, rfl⟩ := lookup_mem hl
  have hnd := Endpoint.live_run e0 ops (Endpoint.live_new h0) p hp
  refine ⟨hnd, ?_⟩
  unfold resetRx
  cases hph : p.2.phase with
  | recv => simp only []; split <;> (try split) <;> rfl
  | sizeKnown fs => simp only []; split <;> rfl
  | done => exact absurd hph hnd

/-- `deliver_reset_final_size` without its phase hypothesis, on every reachable endpoint. -/
theorem reachable_reset_final_size {role : Role} {lb lu pb pu : Nat} {win : Windows} {k : CtrlSt} {e0 : Endpoint}
    (h0 : Endpoint.new role lb lu pb pu win k = some e0 ∨ Endpoint.newLate role lb lu pb pu win k = some e0)
    (ops : List EOp) (ms : List (Dir × Nat)) (s final : Nat) (h : RecvHalf)
    (hl : lookup (e0.run ops).inputs s = some h)
    (hv : resetFinalSizeError h.largest (knownFinal h) final = true) :
    ((e0.run ops).deliver ms .resetStream s final 0 false).2 = .err .finalSize :=
  deliver_reset_final_size _ ms s final h hl (reset_never_unreachable h0 ops s final h hl).1 hv

/-- `deliver_final_size` without its phase hypothesis, on every reachable endpoint. -/
theorem reachable_stream_final_size {role : Role} {lb lu pb pu : Nat} {win : Windows} {k : CtrlSt} {e0 : Endpoint}
    (h0 : Endpoint.new role lb lu pb pu win k = some e0 ∨ Endpoint.newLate role lb lu pb pu win k = some e0)
    (ops : List EOp) (ms : List (Dir × Nat)) (s off len : Nat) (fin : Bool) (h : RecvHalf)
    (hl : lookup (e0.run ops).inputs s = some h)
    (hv : streamFinalSizeError h.buf.largest (knownFinal h) off len fin = true) :
    (e0.run ops).deliver ms .stream s off len fin = (e0.run ops, .err .finalSize) :=
  deliver_final_size _ ms s off len fin h hl (reset_never_unreachable h0 ops s 0 h hl).1 hv

/-! ### any per-half invariant of C11's receiving half lifts to the whole endpoint

C11 proves its receiving-side facts for ONE `RecvHalf` driven by STREAM frames and reads.  C12's endpoint holds a set of
them, created lazily (implicit opens, local opens), fed through the direction / limit gate and removed on completion or
reset.  `InAll P`: every half in the input set satisfies `P`.  For any `P` that holds of a fresh half and is kept by
`RecvHalf.rx true`, `InAll P` is an invariant of EVERY endpoint operation. -/

def InAll (P : RecvHalf → Prop) (e : Endpoint) : Prop := ∀ p ∈ e.inputs, P p.2

theorem inall_of_inputs {P : RecvHalf → Prop} {e e' : Endpoint} (h : InAll P e) (hi : e'.inputs = e.inputs) :
    InAll P e' := by
  intro p hp; rw [hi] at hp; exact h p hp

section lift
variable {P : RecvHalf → Prop} (hmk : ∀ w, P (RecvHalf.mk0 w))
  (hrx : ∀ (h : RecvHalf) (off len : Nat) (fin : Bool), P h → P (h.rx true off len fin).1)
include hmk

theorem acceptSid_all (e : Endpoint) (s : Nat) (h : InAll P e) (r : Endpoint × List (Dir × Nat) × Bool)
    (hr : e.acceptSid s = some r) : InAll P r.1 := by
  unfold Endpoint.acceptSid at hr
  cases ho : e.rem.step std (.accept s) with
  | mk r' o =>
    rw [ho] at hr
    cases o with
    | «new» a b f =>
      simp only [Option.some.injEq] at hr
      subst hr
      intro p hp
      cases hd : sidDir s <;> simp only [hd] at hp <;>
        (rcases List.mem_append.mp hp with hp1 | hp1
         · exact h p hp1
         · obtain ⟨i, _, rfl⟩ := List.mem_map.mp hp1
           exact hmk _)
    | _ =>
      first
        | (simp only [Option.some.injEq] at hr; subst hr; exact h)
        | (simp only [reduceCtorEq] at hr)

include hrx

omit hmk in
theorem deliver_all (e : Endpoint) (ms : List (Dir × Nat)) (k : FrameKind) (s a b : Nat) (fin : Bool)
    (h : InAll P e) : InAll P (e.deliver ms k s a b fin).1 := by
  unfold Endpoint.deliver
  cases k with
  | stream =>
    simp only []
    split
    · exact h
    · rename_i hh hl
      obtain ⟨p0, hp0, rfl⟩ := lookup_mem hl
      have hP := hrx p0.2 a b fin (h p0 hp0)
      split
      · exact h
      · exact h
      · split
        · split
          all_goals
            intro p hp
            rw [shutRecv_inputs] at hp
            exact h p (List.mem_filter.mp hp).1
        · intro p hp
          obtain ⟨x, hx, rfl⟩ := List.mem_map.mp hp
          split
          · exact hP
          · exact h x hx
  | resetStream =>
    simp only []
    split
    · exact h
    · split
      · exact h
      · exact h
      · exact h
      · split
        all_goals
          intro p hp
          rw [shutRecv_inputs] at hp
          exact h p (List.mem_filter.mp hp).1
  | stopSending => exact h
  | maxStreamData => exact h
  | streamDataBlocked => exact h

theorem Endpoint.all_step (e : Endpoint) (op : EOp) (h : InAll P e) : InAll P (e.step op).1 := by
  cases op with
  | acceptBi =>
    apply inall_of_inputs h; simp only [Endpoint.step]; repeat' split
    all_goals rfl
  | acceptUni =>
    apply inall_of_inputs h; simp only [Endpoint.step]; repeat' split
    all_goals rfl
  | rparams =>
    apply inall_of_inputs h; simp only [Endpoint.step]; split
    · rfl
    · rw [becomeReady_inputs]
  | rscid =>
    apply inall_of_inputs h; simp only [Endpoint.step]; split
    · rfl
    · rw [becomeReady_inputs]
  | open_ d =>
    simp only [Endpoint.step]
    split
    · exact h
    · cases hs : e.loc.step (.alloc d) with
      | mk l' o =>
        cases o with
        | sid s =>
          cases d with
          | bi =>
            intro p hp
            rcases List.mem_append.mp hp with hp1 | hp1
            · exact h p hp1
            · simp only [List.mem_singleton] at hp1; subst hp1; exact hmk _
          | uni => exact h
        | _ => exact h
  | frame k s a b fin =>
    simp only [Endpoint.step]
    split
    · exact h
    · split
      · split
        · exact h
        · split
          · exact h
          · exact deliver_all hrx e [] k s a b fin h
      · exact deliver_all hrx e [] k s a b fin h
    · split
      · exact h
      · rename_i e1 _ heq; exact acceptSid_all hmk e s h _ heq
      · rename_i e1 ms heq; exact deliver_all hrx e1 ms k s a b fin (acceptSid_all hmk e s h _ heq)
  | maxStreams d v => exact h
  | streamsBlocked d v =>
    apply inall_of_inputs h; simp only [Endpoint.step]; repeat' split
    all_goals rfl
  | drain => exact h

theorem Endpoint.all_run (e : Endpoint) (ops : List EOp) (h : InAll P e) : InAll P (e.run ops) := by
  unfold Endpoint.run
  induction ops generalizing e with
  | nil => exact h
  | cons op t ih => exact ih _ (Endpoint.all_step hmk hrx e op h)

end lift

/-- **At the endpoint, for every history: no stream ever holds data beyond the limit advertised for it.**  For every history
of operations (frames of all kinds on all streams, implicit and local opens, accept polls, late parameters, MAX_STREAMS,
STREAMS_BLOCKED) from a fresh endpoint and every stream `s` still in the input set: the reassembly buffer is structurally
sound and its largest offset is within `max_stream_data` (C11's `RecvHalf.Bnd`, proved there for ONE half, here for the whole
`DataStreams`). -/
theorem endpoint_stream_data_within_limit {role : Role} {lb lu pb pu : Nat} {win : Windows} {k : CtrlSt} {e0 : Endpoint}
    (h0 : Endpoint.new role lb lu pb pu win k = some e0 ∨ Endpoint.newLate role lb lu pb pu win k = some e0)
    (ops : List EOp) (s : Nat) (h : RecvHalf) (hl : lookup (e0.run ops).inputs s = some h) :
    h.Bnd ∧ h.buf.largest ≤ h.msd := by
  obtain ⟨p, hp, rfl⟩ := lookup_mem hl
  have hi : InAll RecvHalf.Bnd e0 := by
    intro q hq
    have := Endpoint.live_new h0
    have hnil : e0.inputs = [] := by
      rcases h0 with h0 | h0
      · unfold Endpoint.new at h0
        split at h0
        · cases h0
        · split at h0
          · cases h0
          · simp only [Option.some.injEq] at h0; subst h0; rfl
      · unfold Endpoint.newLate at h0
        split at h0
        · cases h0
        · simp only [Option.some.injEq] at h0; subst h0; rfl
    rw [hnil] at hq; cases hq
  have hb := Endpoint.all_run (P := RecvHalf.Bnd) RecvHalf.bnd_mk0
    (fun h off len fin hb => (RecvHalf.rx_bnd h off len fin hb).1) e0 ops hi p hp
  exact ⟨hb, hb.le_msd⟩

-- non-vacuity: a server endpoint after a frame on stream 4 (implicitly opens 0 and 4) and the complete stream 0 (5 bytes + FIN):
-- stream 4 is still looked up (the theorems apply to it), the finished stream 0 has LEFT the input set (why `InLive` holds)
example : ∃ e0, Endpoint.new .server 4 4 4 4 ⟨100,100,100⟩ CtrlSt.demand = some e0 ∧
    (lookup (e0.run [.frame .stream 4 0 10 false, .frame .stream 0 0 5 true]).inputs 4).isSome = true ∧
    (lookup (e0.run [.frame .stream 4 0 10 false, .frame .stream 0 0 5 true]).inputs 0).isSome = false :=
  ⟨_, rfl, by decide, by decide⟩

end GmQuic.StreamRules
