import GmQuic.Props.C01
import GmQuic.Props.C08
/-!
Link C08 inside C01 (receiver side).

C01's receiving half embeds the very `RecvBuf.State` of C08 and touches it only through `RecvBuf.recv` (`Recver.rx`)
and `RecvBuf.tryRead` (`Recver.read`).  Here the dependency is a theorem:

* `c01_receiver_is_c08_history`: for EVERY C01 history there is a C08 history (`List RecvBuf.Op`: one `recv off data`
  per delivered frame that reached the buffer, one `read cap` per read that consulted it) whose C08 run has the same
  buffer and the same ghost output as the C01 stream; every `recv` of it carries an emitted frame.
* `c01_read_is_prefix_from_c08`: C01's `read_is_prefix` is C08's `read_prefix` for that history with
  `src := written` — the premise of `read_prefix` ("every fragment is a slice of `src`") is C01's `frames_are_slices`.
* `c08_read_prefix_specialises_c01`: conversely, the conclusion of C08's `read_prefix` at the embedded buffer.
-/
namespace GmQuic.Links
open GmQuic.RecvBuf (Bytes)
open GmQuic.Stream

theorem rx_buf (r : Recver) (f : Frame) :
    (r.rx f).1.buf = r.buf ∨ (r.rx f).1.buf = (RecvBuf.recv r.buf f.off f.data).1 := by
  unfold Recver.rx
  split
  · exact Or.inl rfl
  · split
    · split
      · split
        · exact Or.inl rfl
        · split
          · exact Or.inl rfl
          · dsimp only
            split <;> exact Or.inr rfl
      · split
        · exact Or.inl rfl
        · exact Or.inr rfl
    · split
      · exact Or.inl rfl
      · split
        · exact Or.inl rfl
        · dsimp only
          split <;> exact Or.inr rfl
    · exact Or.inl rfl

theorem read_buf (r : Recver) (cap : Nat) :
    ((r.read cap).1.buf = r.buf ∧ ∀ bs, (r.read cap).2.1 = .data bs → bs = []) ∨
    ((r.read cap).1.buf = (RecvBuf.tryRead r.buf cap).1 ∧ (r.read cap).2.1 = .data (RecvBuf.tryRead r.buf cap).2) := by
  unfold Recver.read
  split
  · exact Or.inl ⟨rfl, fun _ h => by cases h⟩
  · split
    · split
      · exact Or.inl ⟨rfl, fun _ h => by cases h⟩
      · dsimp only
        (repeat' split) <;> exact Or.inr ⟨rfl, rfl⟩
    · split
      · exact Or.inl ⟨rfl, fun _ h => by cases h⟩
      · exact Or.inr ⟨rfl, rfl⟩
    · exact Or.inr ⟨rfl, rfl⟩
    · exact Or.inl ⟨rfl, fun _ h => by cases h; rfl⟩
    · exact Or.inl ⟨rfl, fun _ h => by cases h⟩
    · exact Or.inl ⟨rfl, fun _ h => by cases h⟩

theorem stop_buf (r : Recver) : r.stop.1.buf = r.buf := by
  unfold Recver.stop; (repeat' split) <;> rfl
theorem rxReset_buf (r : Recver) (v : Nat) : (r.rxReset v).1.buf = r.buf := by
  unfold Recver.rxReset
  (repeat' split) <;> rfl
theorem connError_buf (r : Recver) : r.connError.buf = r.buf := by
  unfold Recver.connError; (repeat' split) <;> rfl

theorem step_emitted (S : Stream) (o : Op) : ∃ t, (S.step o).emitted = S.emitted ++ t := by
  cases o with
  | pick a n =>
    simp only [Stream.step]
    split
    · exact ⟨_, rfl⟩
    · exact ⟨[], by simp⟩
  | _ => simp only [Stream.step] <;> (try split) <;> exact ⟨[], by simp⟩

/-- what a C08 operation of the projected history is: the `recv` of an emitted frame, or a `read` -/
def FromStream (S : Stream) (op : RecvBuf.Op) : Prop :=
  (∃ f ∈ S.emitted, op = .recv f.off f.data) ∨ ∃ cap, op = .read cap

/-- one C01 operation = at most one C08 operation on the embedded buffer -/
theorem rcv_step (S : Stream) (o : Op) (r : RecvBuf.Run) (hb : r.buf = S.rcv.buf) (ho : r.out = S.out) :
    ∃ l : List RecvBuf.Op, (l.foldl RecvBuf.Run.step r).buf = (S.step o).rcv.buf ∧
      (l.foldl RecvBuf.Run.step r).out = (S.step o).out ∧ l.length ≤ 1 ∧ ∀ op ∈ l, FromStream S op := by
  have nil : ∀ S' : Stream, S'.rcv.buf = S.rcv.buf → S'.out = S.out →
      ∃ l : List RecvBuf.Op, (l.foldl RecvBuf.Run.step r).buf = S'.rcv.buf ∧
        (l.foldl RecvBuf.Run.step r).out = S'.out ∧ l.length ≤ 1 ∧ ∀ op ∈ l, FromStream S op :=
    fun S' h1 h2 => ⟨[], by simp [hb, h1], by simp [ho, h2], by simp, fun _ h => by cases h⟩
  cases o with
  | write bs => exact nil _ rfl rfl
  | shutdown => exact nil _ rfl rfl
  | pick a n => apply nil <;> simp only [Stream.step] <;> split <;> rfl
  | touch => exact nil _ rfl rfl
  | ack i => apply nil <;> simp only [Stream.step] <;> split <;> rfl
  | lose i => apply nil <;> simp only [Stream.step] <;> split <;> rfl
  | cancel => exact nil _ rfl rfl
  | stop => exact nil _ (stop_buf _) rfl
  | deliverStop => apply nil <;> simp only [Stream.step] <;> split <;> rfl
  | deliverReset i =>
    apply nil <;> simp only [Stream.step] <;> split <;> first | rfl | exact rxReset_buf _ _
  | ackReset => apply nil <;> simp only [Stream.step] <;> split <;> rfl
  | deliverMsd i => apply nil <;> simp only [Stream.step] <;> split <;> rfl
  | connErrorSnd => exact nil _ rfl rfl
  | connErrorRcv => exact nil _ (connError_buf _) rfl
  | deliver i =>
    cases hi : S.emitted[i]? with
    | none => apply nil <;> simp only [Stream.step, hi]
    | some f =>
      have hS : (S.step (.deliver i)).rcv = (S.rcv.rx f).1 ∧ (S.step (.deliver i)).out = S.out := by
        constructor <;> simp [Stream.step, hi]
      rcases rx_buf S.rcv f with h | h
      · exact nil _ (by rw [hS.1, h]) hS.2
      · refine ⟨[.recv f.off f.data], ?_, ?_, by simp, ?_⟩
        · simp only [List.foldl_cons, List.foldl_nil, RecvBuf.Run.step]
          rw [hS.1, h, hb]
        · simp only [List.foldl_cons, List.foldl_nil, RecvBuf.Run.step]
          rw [hS.2, ho]
        · intro op hop
          simp only [List.mem_singleton] at hop
          exact Or.inl ⟨f, List.mem_of_getElem? hi, hop⟩
  | read cap =>
    have hS1 : (S.step (.read cap)).rcv = (S.rcv.read cap).1 := by
      simp only [Stream.step]
      split <;> rfl
    have hS2 : ∀ bs, (S.rcv.read cap).2.1 = .data bs → (S.step (.read cap)).out = S.out ++ bs := by
      intro bs h
      simp only [Stream.step, h]
    have hS3 : (∀ bs, (S.rcv.read cap).2.1 ≠ .data bs) → (S.step (.read cap)).out = S.out := by
      intro h
      cases hr : (S.rcv.read cap).2.1 with
      | data bs => exact absurd hr (h bs)
      | pending => simp only [Stream.step, hr]
      | err k => simp only [Stream.step, hr]
    rcases read_buf S.rcv cap with ⟨h1, h2⟩ | ⟨h1, h2⟩
    · apply nil
      · rw [hS1, h1]
      · cases hr : (S.rcv.read cap).2.1 with
        | data bs => rw [hS2 bs hr, h2 bs hr, List.append_nil]
        | pending => exact hS3 (fun bs hc => by rw [hr] at hc; cases hc)
        | err k => exact hS3 (fun bs hc => by rw [hr] at hc; cases hc)
    · refine ⟨[.read cap], ?_, ?_, by simp, ?_⟩
      · simp only [List.foldl_cons, List.foldl_nil, RecvBuf.Run.step]
        rw [hS1, h1, hb]
      · simp only [List.foldl_cons, List.foldl_nil, RecvBuf.Run.step]
        rw [hS2 _ h2, hb, ho]
      · intro op hop
        simp only [List.mem_singleton] at hop
        exact Or.inr ⟨cap, hop⟩

theorem FromStream.mono {S S' : Stream} {op : RecvBuf.Op} (h : FromStream S op) (t : List Frame)
    (he : S'.emitted = S.emitted ++ t) : FromStream S' op := by
  rcases h with ⟨f, hf, h⟩ | h
  · exact Or.inl ⟨f, by rw [he]; exact List.mem_append_left _ hf, h⟩
  · exact Or.inr h

theorem run_emitted (ops : List Op) (S : Stream) : ∃ t, (S.run ops).emitted = S.emitted ++ t := by
  induction ops generalizing S with
  | nil => exact ⟨[], by simp [Stream.run]⟩
  | cons o l ih =>
    obtain ⟨t1, h1⟩ := step_emitted S o
    obtain ⟨t2, h2⟩ := ih (S.step o)
    have : S.run (o :: l) = (S.step o).run l := rfl
    exact ⟨t1 ++ t2, by rw [this, h2, h1, List.append_assoc]⟩

theorem rcv_run (ops : List Op) (S : Stream) (r : RecvBuf.Run) (hb : r.buf = S.rcv.buf) (ho : r.out = S.out) :
    ∃ bops : List RecvBuf.Op, (bops.foldl RecvBuf.Run.step r).buf = (S.run ops).rcv.buf ∧
      (bops.foldl RecvBuf.Run.step r).out = (S.run ops).out ∧ bops.length ≤ ops.length ∧
      ∀ op ∈ bops, FromStream (S.run ops) op := by
  induction ops generalizing S r with
  | nil => exact ⟨[], by simp [Stream.run, hb], by simp [Stream.run, ho], Nat.le_refl _, fun _ h => by cases h⟩
  | cons o l ih =>
    obtain ⟨l1, g1, g2, g3, g4⟩ := rcv_step S o r hb ho
    obtain ⟨l2, k1, k2, k3, k4⟩ := ih (S.step o) (l1.foldl RecvBuf.Run.step r) g1 g2
    have hrun : S.run (o :: l) = (S.step o).run l := rfl
    obtain ⟨t1, ht1⟩ := step_emitted S o
    obtain ⟨t2, ht2⟩ := run_emitted l (S.step o)
    refine ⟨l1 ++ l2, ?_, ?_, by simp; omega, ?_⟩
    · rw [hrun, List.foldl_append]; exact k1
    · rw [hrun, List.foldl_append]; exact k2
    · intro op hop
      rw [hrun]
      rcases List.mem_append.1 hop with hm | hm
      · exact (g4 op hm).mono (t1 ++ t2) (by rw [ht2, ht1, List.append_assoc])
      · exact k4 op hm

/-- **C08 inside C01, all histories.**  For every history of C01's stream model (any windows, no premise) there is
a history of C08's buffer model — at most one C08 operation per C01 operation — whose run ends in exactly the buffer
embedded in C01's receiver and has handed out exactly what C01's reader got; each of its `recv` operations carries
a frame C01's sender emitted. -/
theorem c01_receiver_is_c08_history (sw rw : Nat) (ops : List Op) :
    ∃ bops : List RecvBuf.Op,
      (RecvBuf.run bops).buf = (after sw rw ops).rcv.buf ∧
      (RecvBuf.run bops).out = (after sw rw ops).out ∧
      bops.length ≤ ops.length ∧
      ∀ op ∈ bops, FromStream (after sw rw ops) op := by
  obtain ⟨bops, h1, h2, h3, h4⟩ := rcv_run ops (Stream.init sw rw) {} rfl rfl
  exact ⟨bops, h1, h2, h3, h4⟩

/-- **C01's `read_is_prefix` IS C08's `read_prefix`** at the projected history with `src := written`: the premise of
C08's theorem (every fragment is a slice of the source) is discharged by C01's `frames_are_slices`. -/
theorem c01_read_is_prefix_from_c08 (sw rw : Nat) (h : sw ≤ rw) (ops : List Op) :
    ∃ bops : List RecvBuf.Op,
      (∀ op ∈ bops, op.SliceOf (after sw rw ops).snd.written) ∧
      (RecvBuf.run bops).buf = (after sw rw ops).rcv.buf ∧ (RecvBuf.run bops).out = (after sw rw ops).out ∧
      (after sw rw ops).out = (after sw rw ops).snd.written.take (after sw rw ops).rcv.buf.nread ∧
      RecvBuf.Inv (after sw rw ops).snd.written (after sw rw ops).rcv.buf := by
  obtain ⟨bops, h1, h2, _, h4⟩ := c01_receiver_is_c08_history sw rw ops
  have hsl : ∀ op ∈ bops, op.SliceOf (after sw rw ops).snd.written := by
    intro op hop
    rcases h4 op hop with ⟨f, hf, rfl⟩ | ⟨cap, rfl⟩
    · obtain ⟨x1, x2, _⟩ := frames_are_slices sw rw h ops f hf
      exact ⟨x2, x1⟩
    · trivial
  obtain ⟨p1, p2⟩ := RecvBuf.read_prefix _ bops hsl
  rw [h1, h2] at p1
  rw [h1] at p2
  exact ⟨bops, hsl, h1, h2, p1, p2⟩

/-- the first conjunct of C01's `read_is_prefix`, obtained through C08 only -/
theorem c08_read_prefix_specialises_c01 (sw rw : Nat) (h : sw ≤ rw) (ops : List Op) :
    (after sw rw ops).out = (after sw rw ops).snd.written.take (after sw rw ops).rcv.buf.nread :=
  let ⟨_, _, _, _, p, _⟩ := c01_read_is_prefix_from_c08 sw rw h ops
  p

-- non-vacuity: on C01's witness history (loss, re-split, duplicate and out-of-order delivery, reads of three sizes)
-- the hypothesis holds and the projected C08 history is non-trivial (all 8 bytes go through the embedded buffer)
example : (20 : Nat) ≤ 20 ∧ (after 20 20 exOps).out = [1, 2, 3, 4, 5, 6, 7, 8] ∧ (after 20 20 exOps).rcv.buf.nread = 8 := by
  decide

end GmQuic.Links
