import GmQuic.Links.SendSim
import GmQuic.Lemmas.StreamRun
/-!
Link C09 ⊑ C01 (sender side), part 2: from steps to histories of C01's `Stream`.

`sim_stream_step`: one legal specification step, mirrored as ONE `Stream.Op` on any C01 stream whose sender carries
the buffer; `spec_trace_is_c01_history`: every legal specification trace from `SendBuf::with_capacity(cap)` whose
acknowledgement / loss reports name ranges `pick_up` answered earlier (`Disciplined`: that is how `Outgoing` uses the
buffer — `on_data_acked` / `may_loss_data` are called with the range of a frame that was sent) is mirrored by a
history of C01's stream model from `Stream.init cap rw`: same written bytes, same colour per byte, `sentHi = sent()`,
same window, and the frames C01 emitted are exactly the ranges the buffer answered, in order, without FIN.
-/
namespace GmQuic.Links
open GmQuic.SendSpec

/-- the ranges `pick_up` answered during a history, in order -/
def pickedRanges : List (SendOp × SendObs) → List (Nat × Nat)
  | [] => []
  | (_, .range a b _) :: tr => (a, b) :: pickedRanges tr
  | (_, .unit) :: tr => pickedRanges tr
  | (_, .none) :: tr => pickedRanges tr

def obsRange : SendObs → List (Nat × Nat)
  | .range a b _ => [(a, b)]
  | _ => []

theorem pickedRanges_append (t1 t2 : List (SendOp × SendObs)) :
    pickedRanges (t1 ++ t2) = pickedRanges t1 ++ pickedRanges t2 := by
  induction t1 with
  | nil => rfl
  | cons e t ih =>
    obtain ⟨op, obs⟩ := e
    cases obs <;> simp [pickedRanges, ih]

theorem pickedRanges_single (op : SendOp) (obs : SendObs) : pickedRanges [(op, obs)] = obsRange obs := by
  cases obs <;> rfl

/-- what one operation needs from the stream around the sender to be mirrored by a `Stream.Op`:
`ack`/`lose` name (the range of) a frame the stream emitted; `extend m` a MAX_STREAM_DATA value the receiving half
emitted; `resend`/`forget` have no counterpart in C01. -/
def StreamSide (S : Stream.Stream) : SendOp → Prop
  | .ack a b => ∃ (i : Nat) (f : Stream.Frame), S.emitted[i]? = some f ∧ f.off = a ∧ f.stop = b
  | .lose a b => ∃ (i : Nat) (f : Stream.Frame), S.emitted[i]? = some f ∧ f.off = a ∧ f.stop = b
  | .extend m => ∃ i : Nat, S.msds[i]? = some m
  | .write _ => True
  | .pick _ _ => True
  | .resend => False
  | .forget => False

/-- the frame C01 emits for an answer of `pick_up` -/
def obsFrames (w : List UInt8) : SendObs → List Stream.Frame
  | .range a b _ => [⟨a, Stream.slice w a (b - a), false⟩]
  | _ => []

/-- **One step.**  A legal specification step on the buffer carried by the sender of ANY C01 stream `S` is mirrored
by one `Stream.Op` `o`: the sender of `S.step o` carries the new buffer; exactly the answered range is emitted (as a
frame without FIN whose payload is the slice of `written`); the receiving half, the control frames and the ghost
fields are untouched; no `unreachable!` arm is hit. -/
theorem sim_stream_step (S : Stream.Stream) {p : SendSpec} (h : Sim p S.snd) (hI : Inv p)
    {op : SendOp} {obs : SendObs} {p' : SendSpec} (hs : stepOk p op obs p') (hside : StreamSide S op) :
    ∃ o : Stream.Op, Sim p' (S.step o).snd ∧
      (S.step o).emitted = S.emitted ++ obsFrames S.snd.written obs ∧
      (S.step o).rcv = S.rcv ∧ (S.step o).msds = S.msds ∧ (S.step o).resets = S.resets ∧
      (S.step o).out = S.out ∧ (S.step o).rxErr = S.rxErr ∧
      (S.step o).snd.panicked = S.snd.panicked := by
  cases op with
  | write bs =>
    cases obs <;> simp only [stepOk] at hs <;> try exact hs.elim
    obtain ⟨_, rfl⟩ := hs
    refine ⟨.write bs, (sim_write h hI bs).1, by simp [Stream.Stream.step, obsFrames], rfl, rfl, rfl, rfl, rfl, ?_⟩
    show (S.snd.write bs).1.panicked = _
    unfold Stream.Sender.write
    rw [h.noerr, h.noshut]
    rcases h.st with h1 | h1 <;> simp [h1]
  | extend m =>
    cases obs <;> simp only [stepOk] at hs <;> try exact hs.elim
    obtain ⟨hm, rfl⟩ := hs
    obtain ⟨i, hi⟩ := hside
    refine ⟨.deliverMsd i, ?_, ?_, ?_, ?_, ?_, ?_, ?_, ?_⟩ <;> simp only [Stream.Stream.step, hi, obsFrames, List.append_nil]
    · exact sim_extend h hI m hm
    · unfold Stream.Sender.updateWindow
      rw [h.noerr]
      rcases h.st with h1 | h1 <;> simp only [h1, Bool.false_eq_true, if_false] <;> split <;> rfl
  | pick pred flow =>
    obtain ⟨_, hp, rfl⟩ := hs
    cases obs with
    | unit => exact hp.elim
    | none =>
      refine ⟨.touch, sim_touch h, by simp [Stream.Stream.step, obsFrames], rfl, rfl, rfl, rfl, rfl, ?_⟩
      show S.snd.touch.panicked = _
      unfold Stream.Sender.touch
      split <;> rfl
    | range a b fresh =>
      obtain ⟨hok, hfr, _, hsim⟩ := sim_pick h hI hp
      refine ⟨.pick a (b - a), ?_, ?_, ?_, ?_, ?_, ?_, ?_, ?_⟩ <;> simp only [Stream.Stream.step, if_pos hok]
      · exact hsim
      · rw [hfr]; rfl
      · rfl
  | ack a b =>
    cases obs <;> simp only [stepOk] at hs <;> try exact hs.elim
    obtain ⟨hd, rfl⟩ := hs
    obtain ⟨i, f, hi, hoff, hstop⟩ := hside
    obtain ⟨h1, h2⟩ := sim_ack h hd f hoff hstop
    refine ⟨.ack i, ?_, ?_, ?_, ?_, ?_, ?_, ?_, ?_⟩ <;> simp only [Stream.Stream.step, hi, obsFrames, List.append_nil]
    · exact h1
    · exact h2
  | lose a b =>
    cases obs <;> simp only [stepOk] at hs <;> try exact hs.elim
    obtain ⟨hd, rfl⟩ := hs
    obtain ⟨i, f, hi, hoff, hstop⟩ := hside
    obtain ⟨h1, h2⟩ := sim_lose h hd f hoff hstop
    refine ⟨.lose i, ?_, ?_, ?_, ?_, ?_, ?_, ?_, ?_⟩ <;> simp only [Stream.Stream.step, hi, obsFrames, List.append_nil]
    · exact h1
    · exact h2
  | resend => exact hside.elim
  | forget => exact hside.elim

/-! ### histories -/

theorem stepOk_range {p : SendSpec} {op : SendOp} {a b : Nat} {fr : Bool} {p' : SendSpec}
    (hs : stepOk p op (.range a b fr) p') : ∃ pred flow, op = .pick pred flow ∧ pickOk p pred flow (.range a b fr) := by
  cases op <;> simp only [stepOk] at hs <;> try exact hs.elim
  exact ⟨_, _, rfl, hs.2.1⟩

/-- what a history entry may be, given the ranges answered before it -/
def OpOk (rs : List (Nat × Nat)) : SendOp → Prop
  | .ack a b => (a, b) ∈ rs
  | .lose a b => (a, b) ∈ rs
  | .write _ => True
  | .pick _ _ => True
  | .extend _ => False
  | .resend => False
  | .forget => False

def disc (rs : List (Nat × Nat)) : List (SendOp × SendObs) → Prop
  | [] => True
  | e :: tr => OpOk rs e.1 ∧ disc (rs ++ obsRange e.2) tr

/-- **Frame discipline** of a buffer history: every acknowledgement / loss report names a range that `pick_up`
answered earlier in the history (a frame that was sent); the window is the initial one (no `extend`; see
`sim_stream_step` for `extend` = delivery of a MAX_STREAM_DATA frame the receiving half emitted); no
`resend_flighting` / `forget_sent_state`. -/
def Disciplined (tr : List (SendOp × SendObs)) : Prop := disc [] tr

theorem disc_snoc (rs : List (Nat × Nat)) (tr : List (SendOp × SendObs)) (e : SendOp × SendObs) :
    disc rs (tr ++ [e]) ↔ disc rs tr ∧ OpOk (rs ++ pickedRanges tr) e.1 := by
  induction tr generalizing rs with
  | nil => simp [disc, pickedRanges]
  | cons x t ih =>
    obtain ⟨op, obs⟩ := x
    simp only [List.cons_append, disc, ih]
    have : pickedRanges ((op, obs) :: t) = obsRange obs ++ pickedRanges t := by cases obs <;> rfl
    rw [this, List.append_assoc, and_assoc]

def ranges (l : List Stream.Frame) : List (Nat × Nat) := l.map fun f => (f.off, f.stop)

theorem ranges_obsFrames (w : List UInt8) (obs : SendObs) (h : ∀ a b fr, obs = .range a b fr → a ≤ b ∧ b ≤ w.length) :
    ranges (obsFrames w obs) = obsRange obs := by
  cases obs with
  | range a b fr =>
    obtain ⟨h1, h2⟩ := h a b fr rfl
    simp only [obsFrames, ranges, obsRange, List.map_cons, List.map_nil, Stream.Frame.stop]
    rw [slice_length _ _ _ (by omega)]
    congr 2; omega
  | unit => rfl
  | none => rfl

/-- **Histories.**  Every legal, frame-disciplined specification trace from `SendBuf::with_capacity(cap)` is
mirrored by a history `ops` of C01's stream model from `Stream.init cap rw` (any receiver window `rw`): the sender
carries the final buffer (`Sim`: same bytes, same colour per byte, same window, `sentHi = sent()`), the emitted
frames are exactly the answered ranges, in order, all without FIN, and the receiving half has not moved. -/
theorem spec_trace_is_c01_history (cap rw : Nat) (tr : List (SendOp × SendObs)) (p : SendSpec)
    (h : Trace.Ok (SendSpec.init cap) tr p) (hd : Disciplined tr) :
    ∃ ops : List Stream.Op,
      Sim p ((Stream.Stream.init cap rw).run ops).snd ∧
      ranges ((Stream.Stream.init cap rw).run ops).emitted = pickedRanges tr ∧
      (∀ f ∈ ((Stream.Stream.init cap rw).run ops).emitted, f.fin = false) ∧
      ((Stream.Stream.init cap rw).run ops).rcv = (Stream.Stream.init cap rw).rcv ∧
      ops.length = tr.length := by
  generalize hp0 : SendSpec.init cap = p0 at h
  induction h with
  | nil =>
    subst hp0
    exact ⟨[], sim_init cap, rfl, fun _ hf => (by cases hf), rfl, rfl⟩
  | @snoc tr0 p1 op obs p2 ht hs ih =>
    subst hp0
    obtain ⟨hd0, hop⟩ := (disc_snoc [] tr0 (op, obs)).1 hd
    obtain ⟨ops, hsim, hrg, hfin, hrcv, hlen⟩ := ih hd0
    have hI : Inv p1 := Inv.reachable ht
    let S := (Stream.Stream.init cap rw).run ops
    have hside : StreamSide S op := by
      simp only [List.nil_append] at hop
      cases op with
      | ack a b =>
        have hm : (a, b) ∈ ranges S.emitted := by rw [hrg]; exact hop
        obtain ⟨f, hf, he⟩ := List.mem_map.1 hm
        obtain ⟨i, hi, hif⟩ := List.getElem_of_mem hf
        simp only [Prod.mk.injEq] at he
        exact ⟨i, f, by rw [List.getElem?_eq_getElem hi, hif], he.1, he.2⟩
      | lose a b =>
        have hm : (a, b) ∈ ranges S.emitted := by rw [hrg]; exact hop
        obtain ⟨f, hf, he⟩ := List.mem_map.1 hm
        obtain ⟨i, hi, hif⟩ := List.getElem_of_mem hf
        simp only [Prod.mk.injEq] at he
        exact ⟨i, f, by rw [List.getElem?_eq_getElem hi, hif], he.1, he.2⟩
      | write _ => simp [StreamSide]
      | pick _ _ => simp [StreamSide]
      | extend _ => exact hop.elim
      | resend => exact hop.elim
      | forget => exact hop.elim
    obtain ⟨o, h1, h2, h3, _, _, _, _, _⟩ := sim_stream_step S hsim hI hs hside
    have hrun : (Stream.Stream.init cap rw).run (ops ++ [o]) = S.step o := by
      rw [Stream.run_append]; rfl
    refine ⟨ops ++ [o], ?_, ?_, ?_, ?_, by simp [hlen]⟩
    · rw [hrun]; exact h1
    · rw [hrun, h2, pickedRanges_append, pickedRanges_single, ← hrg]
      unfold ranges
      rw [List.map_append]
      congr 1
      apply ranges_obsFrames
      intro a b fr ho
      subst ho
      obtain ⟨pred, flow, rfl, hp⟩ := stepOk_range hs
      obtain ⟨_, _, hab, _⟩ := pickOk_range hp
      exact ⟨Nat.le_of_lt hab, (sim_pick hsim hI hp).2.2.1⟩
    · rw [hrun, h2]
      intro f hf
      rcases List.mem_append.1 hf with hf | hf
      · exact hfin f hf
      · cases obs <;> simp [obsFrames] at hf
        subst hf; rfl
    · rw [hrun, h3]; exact hrcv

end GmQuic.Links
