import GmQuic.Links.SendSimFin
import GmQuic.Links.SendHist
import GmQuic.Props.C01
/-!
Link C09 ⊑ C01 (sender side), round 2: histories through `shutdown` and the FIN.  A buffer history = a data phase (`tr1`:
writes, picks, acks, losses — `spec_trace_is_c01_history`), then the application calls `shutdown`, then a FIN phase (`tr2`:
picks — among them the frame that carries the FIN —, acks and losses of any frame emitted so far, until and beyond
`DataRcvd`).  The whole of it is mirrored by a C01 history `ops1 ++ [shutdown] ++ ops2`.
-/
namespace GmQuic.Links
open GmQuic.SendSpec

/-- what a FIN-phase entry may be, given the ranges emitted before it -/
def OpOkF (rs : List (Nat × Nat)) : SendOp → Prop
  | .ack a b => (a, b) ∈ rs
  | .lose a b => (a, b) ∈ rs
  | .pick _ _ => True
  | _ => False

def discF (rs : List (Nat × Nat)) : List (SendOp × SendObs) → Prop
  | [] => True
  | e :: tr => OpOkF rs e.1 ∧ discF (rs ++ obsRange e.2) tr

theorem discF_snoc (rs : List (Nat × Nat)) (tr : List (SendOp × SendObs)) (e : SendOp × SendObs) :
    discF rs (tr ++ [e]) ↔ discF rs tr ∧ OpOkF (rs ++ pickedRanges tr) e.1 := by
  induction tr generalizing rs with
  | nil => simp [discF, pickedRanges]
  | cons x t ih =>
    obtain ⟨op, obs⟩ := x
    simp only [List.cons_append, discF, ih]
    have : pickedRanges ((op, obs) :: t) = obsRange obs ++ pickedRanges t := by cases obs <;> rfl
    rw [this, List.append_assoc, and_assoc]

/-- **FIN-phase histories**, from ANY C01 stream whose sender carries the buffer. -/
theorem fin_phase_history (S0 : Stream.Stream) (p0 : SendSpec) (h0 : SimF p0 S0.snd) (hI0 : Inv p0)
    (tr : List (SendOp × SendObs)) (p : SendSpec) (ht : Trace.Ok p0 tr p) (hd : discF (ranges S0.emitted) tr) :
    ∃ ops : List Stream.Op, SimF p (S0.run ops).snd ∧
      ranges (S0.run ops).emitted = ranges S0.emitted ++ pickedRanges tr ∧
      (S0.run ops).rcv = S0.rcv ∧ ops.length = tr.length := by
  induction ht with
  | nil => exact ⟨[], h0, by simp [Stream.Stream.run, pickedRanges], rfl, rfl⟩
  | @snoc tr0 p1 op obs p2 ht hs ih =>
    obtain ⟨hd0, hop⟩ := (discF_snoc _ tr0 (op, obs)).1 hd
    obtain ⟨ops, hsim, hrg, hrcv, hlen⟩ := ih hd0
    have hI : Inv p1 := Inv.trace ht hI0
    have hside : FinSide (S0.run ops) op := by
      cases op with
      | ack a b =>
        have hm : (a, b) ∈ ranges (S0.run ops).emitted := by rw [hrg]; exact hop
        obtain ⟨f, hf, he⟩ := List.mem_map.1 hm
        obtain ⟨i, hi, hif⟩ := List.getElem_of_mem hf
        simp only [Prod.mk.injEq] at he
        exact ⟨i, f, by rw [List.getElem?_eq_getElem hi, hif], he.1, he.2⟩
      | lose a b =>
        have hm : (a, b) ∈ ranges (S0.run ops).emitted := by rw [hrg]; exact hop
        obtain ⟨f, hf, he⟩ := List.mem_map.1 hm
        obtain ⟨i, hi, hif⟩ := List.getElem_of_mem hf
        simp only [Prod.mk.injEq] at he
        exact ⟨i, f, by rw [List.getElem?_eq_getElem hi, hif], he.1, he.2⟩
      | pick _ _ => exact True.intro
      | write _ => exact hop.elim
      | extend _ => exact hop.elim
      | resend => exact hop.elim
      | forget => exact hop.elim
    obtain ⟨o, g1, g2, g3⟩ := simF_stream_step (S0.run ops) hsim hI hs hside
    have hrun : S0.run (ops ++ [o]) = (S0.run ops).step o := by rw [Stream.run_append]; rfl
    refine ⟨ops ++ [o], by rw [hrun]; exact g1, ?_, by rw [hrun, g2]; exact hrcv, by simp [hlen]⟩
    rw [hrun, g3, pickedRanges_append, pickedRanges_single, ← List.append_assoc, ← hrg]
    unfold ranges
    rw [List.map_append]
    congr 1
    cases obs with
    | unit => rfl
    | none => rfl
    | range a b fr =>
      obtain ⟨pred, flow, rfl, hp⟩ := stepOk_range hs
      obtain ⟨_, hbw, _⟩ := simF_pick hsim hI hp
      obtain ⟨_, _, hab, _⟩ := pickOk_range hp
      simp only [List.map_cons, List.map_nil, obsRange, Stream.Frame.stop]
      rw [slice_length _ _ _ (by omega)]
      congr 2; omega

/-- **Data phase, `shutdown`, FIN phase**: the whole buffer history is a C01 history. -/
theorem spec_trace_with_fin_is_c01_history (cap rw : Nat) (tr1 tr2 : List (SendOp × SendObs)) (p1 p2 : SendSpec)
    (h1 : Trace.Ok (SendSpec.init cap) tr1 p1) (hd1 : Disciplined tr1)
    (h2 : Trace.Ok p1 tr2 p2) (hd2 : discF (pickedRanges tr1) tr2) :
    ∃ ops1 ops2 : List Stream.Op,
      SimF p2 (Stream.after cap rw (ops1 ++ [.shutdown] ++ ops2)).snd ∧
      ranges (Stream.after cap rw (ops1 ++ [.shutdown] ++ ops2)).emitted = pickedRanges tr1 ++ pickedRanges tr2 ∧
      (Stream.after cap rw (ops1 ++ [.shutdown])).snd.shutdown = true := by
  obtain ⟨ops1, hsim, hrg, _, _, _⟩ := spec_trace_is_c01_history cap rw tr1 p1 h1 hd1
  let S1 := ((Stream.Stream.init cap rw).run ops1).step .shutdown
  have hS1 : Stream.after cap rw (ops1 ++ [.shutdown]) = S1 := by
    unfold Stream.after; rw [Stream.run_append]; rfl
  have hF : SimF p1 S1.snd := simF_shutdown hsim.toF
  have hem : S1.emitted = ((Stream.Stream.init cap rw).run ops1).emitted := rfl
  obtain ⟨ops2, g1, g2, _, _⟩ := fin_phase_history S1 p1 hF (Inv.reachable h1) tr2 p2 h2 (by rw [hem, hrg]; exact hd2)
  refine ⟨ops1, ops2, ?_, ?_, ?_⟩
  · unfold Stream.after at hS1 ⊢
    rw [Stream.run_append, hS1]; exact g1
  · unfold Stream.after at hS1 ⊢
    rw [Stream.run_append, hS1, g2, hem, hrg]
  · rw [hS1]
    show ((Stream.Stream.init cap rw).run ops1).snd.pollShutdown.1.shutdown = true
    unfold Stream.Sender.pollShutdown
    rw [hsim.noerr]
    rcases hsim.st with e | e <;> simp [e]

/-! ### non-vacuity: 6 bytes, 4 sent in the data phase; `shutdown`; the remaining 2 leave with the FIN; both frames acknowledged -/

def exFin1 : List (SendOp × SendObs) := [exE1, exE2]
def exFin2 : List (SendOp × SendObs) := [exE3, (.ack 0 4, .unit), (.ack 4 6, .unit)]

theorem exFin1_ok : Trace.Ok (SendSpec.init 10) exFin1 exS2 := Trace.Ok.cons exStep1 (Trace.Ok.single exStep2)

theorem exFin2_ok : Trace.Ok exS2 exFin2 ((exS3.ack 0 4).ack 4 6) :=
  Trace.Ok.cons exStep3 (Trace.Ok.cons (show stepOk exS3 (.ack 0 4) .unit (exS3.ack 0 4) from ⟨RangeDom.of_dec (by decide), rfl⟩)
    (Trace.Ok.single (show stepOk (exS3.ack 0 4) (.ack 4 6) .unit ((exS3.ack 0 4).ack 4 6) from
      ⟨RangeDom.of_dec (by decide), rfl⟩)))

-- the hypotheses of `spec_trace_with_fin_is_c01_history` are satisfiable …
example : Disciplined exFin1 ∧ discF (pickedRanges exFin1) exFin2 := by
  constructor
  · simp [Disciplined, exFin1, exE1, exE2, disc, OpOk, obsRange]
  · simp [exFin1, exFin2, exE1, exE2, exE3, discF, OpOkF, obsRange, pickedRanges]

-- … and the mirrored C01 history reaches `DataRcvd` through a data+FIN frame (evaluation of C01's model)
example :
    let S := Stream.after 10 10 [.write [1, 2, 3, 4, 5, 6], .pick 0 4, .shutdown, .pick 4 2, .ack 0, .ack 1]
    S.snd.st = .dataRcvd ∧ S.emitted.map (fun f => (f.off, f.stop, f.fin)) = [(0, 4, false), (4, 6, true)] := by decide

end GmQuic.Links
