import GmQuic.Links.SendHist
import GmQuic.Links.StreamWritten
import GmQuic.Props.C09.Refine
import GmQuic.Props.C01
/-!
Link C09 ⊑ C01 (sender side), part 3: the corollaries about the transliterated Rust algorithm.

`Props/C09/Refine.lean` proves that every run of the transliterated `SendBuf`/`BufMap` is a trace of `SendSpec`
(`refines_spec`); `Links/SendHist.lean` proves that every frame-disciplined `SendSpec` trace is mirrored by a history
of C01's stream model.  Composed: every frame-disciplined run of the transliterated buffer IS (the sender side of) a
C01 history, so every C01 theorem — each quantifies over all `List Op` from `Stream.init` — speaks about the
streams the transliterated algorithm produces, and about every continuation of them (shutdown, FIN-only frame,
delivery, loss, reads, resets: C01's own operations).
-/
namespace GmQuic.Links
open GmQuic.SendSpec GmQuic.BufMap

/-- **C09 ⊑ C01.**  For every run of the transliterated `SendBuf` from `with_capacity(cap)` (operations in their
domain, answers as the transliteration gave them) that is frame-disciplined, there is a C01 history `ops` from
`Stream.init cap rw` (one `Op` per buffer operation) after which C01's sender holds the very same buffer: the written
bytes are the bytes written to the buffer, the colour of every offset is the colour in the run list (`BufMap.abs`),
`sentHi = sent()`, the window is `max_data`, and the STREAM frames C01 emitted are exactly the ranges `pick_up`
returned, in order.  Each of those ranges was therefore legal for C01's may-relation `Sender.pickOk`. -/
theorem bufmap_history_is_c01_sender_history (cap rw : Nat) (tr : List (SendOp × SendObs)) (b : SendBuf)
    (h : XRun (SendBuf.withCapacity cap) tr b) (hd : Disciplined tr) :
    ∃ ops : List Stream.Op,
      (Stream.after cap rw ops).snd.written = writtenBytes tr ∧
      (Stream.after cap rw ops).snd.written.length = b.written ∧
      (∀ x, (Stream.after cap rw ops).snd.status x = col (b.state.abs x)) ∧
      (Stream.after cap rw ops).snd.maxData = b.maxData ∧
      ranges (Stream.after cap rw ops).emitted = pickedRanges tr ∧
      (∀ f ∈ (Stream.after cap rw ops).emitted, f.fin = false) ∧
      ops.length = tr.length ∧
      ∃ p, Rel b p ∧ Sim p (Stream.after cap rw ops).snd := by
  obtain ⟨p, htr, hR⟩ := refines_spec cap tr b h
  obtain ⟨ops, hsim, hrg, hfin, _, hlen⟩ := spec_trace_is_c01_history cap rw tr p htr hd
  refine ⟨ops, ?_, ?_, ?_, ?_, hrg, hfin, hlen, p, hR, hsim⟩
  · show ((Stream.Stream.init cap rw).run ops).snd.written = _
    rw [hsim.written, reachable_data htr]
  · show ((Stream.Stream.init cap rw).run ops).snd.written.length = _
    rw [hsim.written, hR.written]
  · intro x
    show ((Stream.Stream.init cap rw).run ops).snd.status x = _
    rw [hsim.status, hR.colour]
  · show ((Stream.Stream.init cap rw).run ops).snd.maxData = _
    rw [hsim.maxData, hR.maxData]

/-- **What the link buys** (one instance spelled out): take any frame-disciplined run of the transliterated buffer,
the C01 history that mirrors it, and ANY continuation `more` of that history by C01 operations (shutdown, further
loads, delivery / duplication / reordering / loss of the frames, reads, …), receiver window ≥ sender window.  Then the
reader has been handed a prefix of exactly the bytes written to the buffer (plus what `more` wrote), the receiver has
raised no error against any frame, and every frame — in particular every range the buffer returned — carries the
written bytes at its offset. -/
theorem bufmap_history_covered_by_c01 (cap rw : Nat) (hw : cap ≤ rw) (tr : List (SendOp × SendObs)) (b : SendBuf)
    (h : XRun (SendBuf.withCapacity cap) tr b) (hd : Disciplined tr) :
    ∃ ops : List Stream.Op,
      ranges (Stream.after cap rw ops).emitted = pickedRanges tr ∧
      (Stream.after cap rw ops).snd.written = writtenBytes tr ∧
      ∀ more : List Stream.Op,
        let S := Stream.after cap rw (ops ++ more)
        S.out = S.snd.written.take S.rcv.buf.nread ∧
        S.rxErr = none ∧ S.snd.panicked = false ∧
        (∀ f ∈ S.emitted, f.data = Stream.slice S.snd.written f.off f.data.length) ∧
        (writtenBytes tr).length ≤ S.snd.written.length ∧
        S.snd.written.take (writtenBytes tr).length = writtenBytes tr := by
  obtain ⟨ops, h1, _, _, _, h5, _, _, _⟩ := bufmap_history_is_c01_sender_history cap rw tr b h hd
  refine ⟨ops, h5, h1, fun more => ?_⟩
  refine ⟨(Stream.read_is_prefix cap rw hw _).1, (Stream.no_spurious_error cap rw hw _).1,
    (Stream.no_spurious_error cap rw hw _).2.1, fun f hf => (Stream.frames_are_slices cap rw hw _ f hf).1, ?_⟩
  have hpre := Stream.run_written_prefix (Stream.after cap rw ops) more
  unfold Stream.after at hpre h1 ⊢
  rw [Stream.run_append]
  obtain ⟨t, ht⟩ := hpre
  rw [ht, h1]
  simp

/-! ### non-vacuity: a frame-disciplined run of the transliteration with a loss, a re-split retransmission and an
acknowledgement of the retransmitted piece -/

def exB0 : SendBuf := SendBuf.withCapacity 10
def exB1 : SendBuf := { offset := 0, chunks := [6], maxData := 10, state := { runs := [(0, .pending)], size := 6 } }
def exB2 : SendBuf := { offset := 0, chunks := [6], maxData := 10, state := { runs := [(0, .flighting), (4, .pending)], size := 6 } }
def exB3 : SendBuf := { offset := 0, chunks := [6], maxData := 10, state := { runs := [(0, .lost), (4, .pending)], size := 6 } }
def exB4 : SendBuf := { offset := 0, chunks := [6], maxData := 10, state := { runs := [(0, .flighting), (2, .lost), (4, .pending)], size := 6 } }
def exB5 : SendBuf := { offset := 2, chunks := [4], maxData := 10, state := { runs := [(2, .lost), (4, .pending)], size := 6 } }

def exRun : List (SendOp × SendObs) :=
  [] ++ [(.write [1, 2, 3, 4, 5, 6], .unit)] ++ [(.pick (fun _ => some 4) 100, .range 0 4 true)] ++ [(.lose 0 4, .unit)]
    ++ [(.pick (fun _ => some 2) 100, .range 0 2 false)] ++ [(.ack 0 2, .unit)]

theorem exRun_ok : XRun exB0 exRun exB5 := by
  have h1 : XRun exB0 ([] ++ [(.write [1, 2, 3, 4, 5, 6], .unit)]) exB1 :=
    XRun.snoc (XRun.nil _) (by simp [DomX, exB0, SendBuf.withCapacity, SendBuf.written]) rfl
  have h2 := XRun.snoc (obs := .range 0 4 true) (b' := exB2) h1
    (show DomX exB1 (.pick (fun _ => some 4) 100) from by intro x n h; simp at h; subst h; omega) rfl
  have h3 := XRun.snoc (op := .lose 0 4) (obs := .unit) (b' := exB3) h2
    (by
      refine ⟨by omega, by decide, fun x h1 h2 => ?_⟩
      have : x = 0 ∨ x = 1 ∨ x = 2 ∨ x = 3 := by omega
      rcases this with rfl | rfl | rfl | rfl <;> decide) rfl
  have h4 := XRun.snoc (obs := .range 0 2 false) (b' := exB4) h3
    (show DomX exB3 (.pick (fun _ => some 2) 100) from by intro x n h; simp at h; subst h; omega) rfl
  exact XRun.snoc (op := .ack 0 2) (obs := .unit) h4
    (by
      refine ⟨by omega, by decide, fun x h1 h2 => ?_⟩
      have : x = 0 ∨ x = 1 := by omega
      rcases this with rfl | rfl <;> decide) rfl

theorem exRun_disciplined : Disciplined exRun := by
  simp [Disciplined, exRun, disc, OpOk, obsRange]

-- the hypotheses of `bufmap_history_is_c01_sender_history` / `bufmap_history_covered_by_c01` are satisfiable …
example : XRun (SendBuf.withCapacity 10) exRun exB5 ∧ Disciplined exRun ∧ (10 : Nat) ≤ 10 :=
  ⟨exRun_ok, exRun_disciplined, Nat.le_refl _⟩

-- … and the mirrored C01 history is the expected one (checked by evaluation on C01's model)
example :
    let S := Stream.after 10 10 [.write [1, 2, 3, 4, 5, 6], .pick 0 4, .lose 0, .pick 0 2, .ack 1]
    ranges S.emitted = pickedRanges exRun ∧ S.snd.written = writtenBytes exRun ∧ S.snd.sentHi = 4 ∧
    (∀ x, x < 8 → S.snd.status x = col (exB5.state.abs x)) := by decide

-- spec-level non-vacuity (for `spec_trace_is_c01_history`, `sim_stream_step`): the same history as a `SendSpec` trace
example : ∃ p, Trace.Ok (SendSpec.init 10) exRun p ∧ Disciplined exRun :=
  let ⟨p, h, _⟩ := refines_spec 10 exRun exB5 exRun_ok
  ⟨p, h, exRun_disciplined⟩

end GmQuic.Links
