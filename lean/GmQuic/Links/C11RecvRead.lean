import GmQuic.Links.C11Recv
/-! Link C11 ↔ C01, receiver side, part 2: agreement on reads (bytes handed out, MAX_STREAM_DATA decision and value). -/
namespace GmQuic.Links
open GmQuic.StreamWindow
open GmQuic.RecvBuf (SameShape)

/-! ### reads -/

theorem tryRead_nil (b : RecvBuf.State) (cap : Nat) (h : b.segs = []) : (RecvBuf.tryRead b cap).1 = b := by
  cases b with
  | mk n l s =>
    simp only at h
    subst h
    rfl

/-- C01's result of a read, in C11's vocabulary -/
def obsRead : Stream.ReadRes × Option Nat → Option ReadObs
  | (.pending, _) => some .pending
  | (.data bs, m) => some (.read bs.length m)
  | (.err _, _) => none

/-- C01's `Recv::poll_read` on a readable buffer, with the MAX_STREAM_DATA decision written as C11's `growWindow` -/
theorem c01_read_recv (r : Stream.Recver) (cap : Nat) (he : r.err = false) (h3 : r.st = .recv)
    (hr : RecvBuf.isReadable r.buf = true) :
    r.read cap =
      ({ r with buf := (RecvBuf.tryRead r.buf cap).1,
                maxSD := (growWindow r.maxSD (RecvBuf.tryRead r.buf cap).1.nread).1 },
       .data (RecvBuf.tryRead r.buf cap).2, (growWindow r.maxSD (RecvBuf.tryRead r.buf cap).1.nread).2) := by
  unfold Stream.Recver.read growWindow
  simp only [he, h3, hr, Bool.false_eq_true, if_false, Bool.not_true]
  show (if (RecvBuf.tryRead r.buf cap).1.nread + THRESHOLD > r.maxSD then _ else _) = _
  split
  · show (if min ((RecvBuf.tryRead r.buf cap).1.nread + THRESHOLD * 2) Flow.VARINT_MAX > r.maxSD then _ else _) = _
    split <;> rfl
  · rfl

/-- `RecvHalf.grow` with the `let` expanded (proved by unfolding only: a definitional-equality check that has to
*evaluate* `growWindow` on open terms peels the literals 1 000 000 / 2^62-1 in unary and does not come back) -/
theorem grow_eq (h : RecvHalf) (b : RecvBuf.State) :
    h.grow b = ({ h with buf := b, msd := (growWindow h.msd b.nread).1,
                         advertised := h.advertised ++ (growWindow h.msd b.nread).2.toList },
                (growWindow h.msd b.nread).2) := rfl

/-- the same with the window decision named: no projection of an unevaluated `growWindow` is left in the statement -/
theorem c01_read_recv' (r : Stream.Recver) (cap : Nat) (he : r.err = false) (h3 : r.st = .recv)
    (hr : RecvBuf.isReadable r.buf = true) (g : Nat × Option Nat)
    (hg : growWindow r.maxSD (RecvBuf.tryRead r.buf cap).1.nread = g) :
    r.read cap = ({ r with buf := (RecvBuf.tryRead r.buf cap).1, maxSD := g.1 },
       .data (RecvBuf.tryRead r.buf cap).2, g.2) := by
  subst hg; exact c01_read_recv r cap he h3 hr

theorem grow_eq' (h : RecvHalf) (b : RecvBuf.State) (g : Nat × Option Nat) (hg : growWindow h.msd b.nread = g) :
    h.grow b = ({ h with buf := b, msd := g.1, advertised := h.advertised ++ g.2.toList }, g.2) := by
  subst hg; exact grow_eq h b


/-- reads on a readable buffer in `Recv` (the only case with a MAX_STREAM_DATA decision), results named -/
theorem hr_read_recv_aux {r : Stream.Recver} {hh : RecvHalf} {rst : Option Nat} (h : HR r hh rst)
    (h1 : r.gone = false) (h3 : r.st = .recv) (h4 : hh.phase = .recv) (c0 : RecvBuf.isReadable r.buf = true)
    (cap : Nat) (r' : Stream.Recver) (res : Stream.ReadRes) (m : Option Nat) (hr' : r.read cap = (r', res, m))
    (hh' : RecvHalf) (o : ReadObs) (hh'' : hh.read cap = (hh', o)) (g : Nat × Option Nat)
    (hg : growWindow r.maxSD (RecvBuf.tryRead r.buf cap).1.nread = g) :
    some o = obsRead (res, m) ∧ HR r' hh' none ∧ hh'.advertised = hh.advertised ++ m.toList := by
  obtain ⟨hs, hlen⟩ := RecvBuf.tryRead_shape h.shape cap
  have hrd := RecvBuf.isReadable_shape h.shape
  have hm := h.msd
  have hl := h.largest
  have hn := h.noerr
  have hg' : growWindow hh.msd (RecvBuf.tryRead hh.buf cap).1.nread = g := by
    rw [hm, ← hs.nread]; exact hg
  have e1 := c01_read_recv' r cap hn h3 c0 g hg
  have e2 : hh.read cap = ((hh.grow (RecvBuf.tryRead hh.buf cap).1).1,
      .read (RecvBuf.tryRead hh.buf cap).2.length (hh.grow (RecvBuf.tryRead hh.buf cap).1).2) := by
    unfold RecvHalf.read; simp only [h4, ← hrd, c0, Bool.not_true, Bool.false_eq_true, if_false]
  rw [e1] at hr'
  rw [e2, grow_eq' hh _ g hg'] at hh''
  simp only [Prod.mk.injEq] at hr' hh''
  obtain ⟨q1, q2, q3⟩ := hr'
  obtain ⟨p1, p2⟩ := hh''
  subst q1 q2 q3 p1 p2
  refine ⟨?_, ⟨hn, hs, rfl, hl, .recv h1 rfl h3 h4⟩, rfl⟩
  simp only [obsRead, hlen]

/-- reads on a readable buffer in `Recv` (the only case with a MAX_STREAM_DATA decision), results named -/
theorem hr_read_recv {r : Stream.Recver} {hh : RecvHalf} {rst : Option Nat} (h : HR r hh rst)
    (h1 : r.gone = false) (h3 : r.st = .recv) (h4 : hh.phase = .recv) (c0 : RecvBuf.isReadable r.buf = true)
    (cap : Nat) (r' : Stream.Recver) (res : Stream.ReadRes) (m : Option Nat) (hr' : r.read cap = (r', res, m))
    (hh' : RecvHalf) (o : ReadObs) (hh'' : hh.read cap = (hh', o)) :
    some o = obsRead (res, m) ∧ HR r' hh' none ∧ hh'.advertised = hh.advertised ++ m.toList :=
  hr_read_recv_aux h h1 h3 h4 c0 cap r' res m hr' hh' o hh'' _ rfl

/-- every other case (nothing readable in `Recv`; `SizeKnown`; `DataRcvd`/`DataRead`): no MAX_STREAM_DATA decision -/
theorem hr_read_other {r : Stream.Recver} {hh : RecvHalf} {rst : Option Nat} (h : HR r hh rst) (hrst : rst = none)
    (cap : Nat) (hnr : r.st = .recv → RecvBuf.isReadable r.buf = false) :
    some (hh.read cap).2 = obsRead (r.read cap).2 ∧
    HR (r.read cap).1 (hh.read cap).1 none ∧
    (hh.read cap).1.advertised = hh.advertised ++ (r.read cap).2.2.toList := by
  obtain ⟨hs, hlen⟩ := RecvBuf.tryRead_shape h.shape cap
  have hrd := RecvBuf.isReadable_shape h.shape
  have hm := h.msd
  have hl := h.largest
  have hn := h.noerr
  cases h.ph with
  | recv h1 h2 h3 h4 =>
    have c0 := hnr h3
    have e1 : r.read cap = (r, .pending, none) := by
      unfold Stream.Recver.read; simp only [hn, h3, c0, Bool.false_eq_true, if_false, Bool.not_false, if_true]
    have e2 : hh.read cap = (hh, .pending) := by
      unfold RecvHalf.read; simp only [h4, ← hrd, c0, Bool.not_false, if_true]
    rw [e1, e2]
    exact ⟨rfl, ⟨hn, h.shape, hm, hl, .recv h1 rfl h3 h4⟩, (by simp)⟩
  | sized h1 h2 h3 h4 =>
    unfold Stream.Recver.read RecvHalf.read
    simp only [h.noerr, h3, h4, Bool.false_eq_true, if_false, ← hrd]
    by_cases c0 : (!RecvBuf.isReadable r.buf) = true
    · simp only [c0, if_true, obsRead, Option.toList, List.append_nil]
      exact ⟨(by first | exact True.intro | rfl), ⟨hn, h.shape, hm, hl, .sized h1 rfl (by first | rfl | exact h3) (by first | rfl | exact h4)⟩, (by first | exact True.intro | rfl)⟩
    · simp only [c0, Bool.false_eq_true, if_false, obsRead, hlen, Option.toList, List.append_nil]
      exact ⟨(by first | exact True.intro | rfl), ⟨(by first | rfl | exact hn), hs, (by first | rfl | exact hm), hl, .sized h1 rfl (by first | rfl | exact h3) (by first | rfl | exact h4)⟩, (by first | exact True.intro | rfl)⟩
  | done h1 h2 h3 h4 =>
    rcases h3 with h3 | ⟨h3, h5⟩
    · unfold Stream.Recver.read RecvHalf.read
      simp only [h.noerr, h3, h4, Bool.false_eq_true, if_false, obsRead, hlen, Option.toList, List.append_nil]
      refine ⟨(by first | exact True.intro | rfl), ⟨(by first | rfl | exact hn), hs, (by first | rfl | exact hm), hl, ?_⟩, (by first | exact True.intro | rfl)⟩
      have he := RecvBuf.isEmpty_shape hs
      by_cases c : (RecvBuf.tryRead r.buf cap).1.segs.isEmpty = true
      · simp only [c, if_true]
        exact .done h1 rfl (Or.inr ⟨rfl, by simpa using c⟩) (by first | rfl | exact h4)
      · simp only [c, Bool.false_eq_true, if_false]
        exact .done h1 rfl (Or.inl rfl) (by first | rfl | exact h4)
    · have hseg : hh.buf.segs = [] := by
        have := h.shape.segs
        rw [h5] at this
        exact RecvBuf.shape_nil_inv this
      unfold Stream.Recver.read RecvHalf.read
      simp only [h.noerr, h3, h4, Bool.false_eq_true, if_false, obsRead, tryRead_nil _ _ hseg, Option.toList,
        List.append_nil]
      have hl0 : (RecvBuf.tryRead hh.buf cap).2.length = 0 := by
        rw [← hlen]
        have : (RecvBuf.tryRead r.buf cap).2 = [] := by
          unfold RecvBuf.tryRead; rw [h5]; rfl
        rw [this]; rfl
      refine ⟨by rw [hl0]; rfl, ⟨hn, h.shape, hm, hl, .done h1 rfl (Or.inr ⟨h3, h5⟩) (by first | rfl | exact h4)⟩, (by first | exact True.intro | rfl)⟩
  | reset h1 h2 h3 => rw [hrst] at h2; cases h2


/-- **Agreement on reads** (no RESET_STREAM accepted yet), results named: same number of bytes handed out, same
MAX_STREAM_DATA decision and value, the receivers stay related, and C11's advertised list grows by exactly the value C01
emitted.  (The window decision `growWindow` compares against 1 000 000 and 2^62-1; `hr_read_recv_aux` keeps it behind a
genuine variable — `generalize` is not enough, `instantiateMVars` β-reduces it away and the kernel then evaluates the
comparison on open terms by unary peeling.) -/
theorem hr_read {r : Stream.Recver} {hh : RecvHalf} {rst : Option Nat} (h : HR r hh rst) (hrst : rst = none)
    (cap : Nat) (r' : Stream.Recver) (res : Stream.ReadRes) (m : Option Nat) (hr' : r.read cap = (r', res, m))
    (hh' : RecvHalf) (o : ReadObs) (hh'' : hh.read cap = (hh', o)) :
    some o = obsRead (res, m) ∧ HR r' hh' none ∧ hh'.advertised = hh.advertised ++ m.toList := by
  by_cases hc : r.st = .recv ∧ RecvBuf.isReadable r.buf = true
  · cases h.ph with
    | recv h1 h2 h3 h4 => exact hr_read_recv h h1 h3 h4 hc.2 cap r' res m hr' hh' o hh''
    | sized _ _ h3 _ => rw [h3] at hc; exact absurd hc.1 (by decide)
    | done _ _ h3 _ =>
      rcases h3 with h3 | ⟨h3, _⟩ <;> rw [h3] at hc <;> exact absurd hc.1 (by decide)
    | reset _ h2 _ => rw [hrst] at h2; cases h2
  · have p := hr_read_other h hrst cap (fun h3 => by
      cases hb : RecvBuf.isReadable r.buf with
      | false => rfl
      | true => exact absurd ⟨h3, hb⟩ hc)
    rw [hr', hh''] at p
    exact p

end GmQuic.Links
