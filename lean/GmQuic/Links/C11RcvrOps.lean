import GmQuic.Links.C11RecvRead
import GmQuic.Links.C11Rcvr
/-!
Link C11 ↔ C01, receiver side, part 4: the remaining operations on the whole receivers (`Recver` vs `Rcvr`): reads,
`stop`, RESET_STREAM — same observation, and the relation `RR` is preserved by every one of them (with `rr_rx`: by every
operation except a connection error, which C11's `Rcvr` does not model).
-/
namespace GmQuic.Links
open GmQuic.StreamWindow
open GmQuic.RecvBuf (SameShape)

theorem read_stopped (r : Stream.Recver) (cap : Nat) : (r.read cap).1.stopped = r.stopped := by
  unfold Stream.Recver.read
  split
  · rfl
  · split
    · split
      · rfl
      · dsimp only
        (repeat' split) <;> rfl
    · split <;> rfl
    all_goals rfl

/-- **Reads agree**: the receivers stay related, C11's advertised list grows by exactly the MAX_STREAM_DATA value C01
emitted (if any), and the observations correspond (`Err(Reset)` after a RESET_STREAM on both sides). -/
theorem rr_read {r : Stream.Recver} {q : Rcvr} (h : RR r q) (cap : Nat)
    (r' : Stream.Recver) (res : Stream.ReadRes) (m : Option Nat) (hr' : r.read cap = (r', res, m)) :
    RR r' (q.read cap).1 ∧ (q.read cap).1.half.advertised = q.half.advertised ++ m.toList ∧
    (q.read cap).2 = (match obsRead (res, m) with | some o => RdObs.half o | none => RdObs.resetErr) := by
  have hst : r'.stopped = r.stopped := by
    have e : (r.read cap).1 = r' := congrArg Prod.fst hr'
    rw [← e]; exact read_stopped r cap
  cases hq : q.rst with
  | none =>
    have e : q.read cap = ({ q with half := (q.half.read cap).1 }, .half (q.half.read cap).2) := by
      unfold Rcvr.read; simp only [hq, Option.isSome_none, Bool.false_eq_true, if_false]
    obtain ⟨k1, k2, k3⟩ := hr_read h.hr hq cap r' res m hr' (q.half.read cap).1 (q.half.read cap).2 rfl
    rw [e]
    refine ⟨⟨?_, ?_⟩, k3, ?_⟩
    · show HR r' (q.half.read cap).1 q.rst
      rw [hq]; exact k2
    · show q.stopped.isSome = r'.stopped
      rw [hst]; exact h.stopped
    · rw [← k1]
  | some v =>
    have hh := h.hr
    have e : q.read cap = (q, .resetErr) := by unfold Rcvr.read; simp only [hq, Option.isSome_some, if_true]
    rw [e]
    cases hh.ph with
    | recv _ h2 _ _ => rw [hq] at h2; cases h2
    | sized _ h2 _ _ => rw [hq] at h2; cases h2
    | done _ h2 _ _ => rw [hq] at h2; cases h2
    | reset h1 h2 h3 =>
      rcases h3 with h3 | h3
      · have e1 : r.read cap = ({ r with st := .resetRead }, .err "Reset", none) := by
          unfold Stream.Recver.read; simp only [hh.noerr, h3, Bool.false_eq_true, if_false]
        rw [e1] at hr'
        simp only [Prod.mk.injEq] at hr'
        obtain ⟨q1, q2, q3⟩ := hr'
        subst q1 q2 q3
        exact ⟨⟨⟨hh.noerr, hh.shape, hh.msd, hh.largest, .reset h1 h2 (Or.inr rfl)⟩, h.stopped⟩, by simp, rfl⟩
      · have e1 : r.read cap = (r, .err "Reset", none) := by
          unfold Stream.Recver.read; simp only [hh.noerr, h3, Bool.false_eq_true, if_false]
        rw [e1] at hr'
        simp only [Prod.mk.injEq] at hr'
        obtain ⟨q1, q2, q3⟩ := hr'
        subst q1 q2 q3
        exact ⟨h, by simp, rfl⟩

/-- **`Reader::stop` agrees**: a STOP_SENDING frame goes out on one side iff on the other; the receivers stay related. -/
theorem rr_stop {r : Stream.Recver} {q : Rcvr} (h : RR r q) (code : Nat) :
    (q.stop code).2 = r.stop.2 ∧ RR r.stop.1 (q.stop code).1 := by
  have hh := h.hr
  have hs := h.stopped
  unfold Stream.Recver.stop Rcvr.stop
  cases hh.ph with
  | recv h1 h2 h3 h4 =>
    simp only [hh.noerr, h2, h3, h4, Option.isSome_none, Bool.false_eq_true, if_false, hs]
    cases hst : r.stopped with
    | true => simp only [if_true]; exact ⟨(by first | exact True.intro | rfl), h⟩
    | false =>
      simp only [Bool.false_eq_true, if_false]
      exact ⟨(by first | exact True.intro | rfl), ⟨(by first | rfl | exact hh.noerr), hh.shape, hh.msd, hh.largest, .recv (by first | rfl | exact h1) (by first | rfl | exact h2) (by first | rfl | exact h3) (by first | rfl | exact h4)⟩, (by first | rfl | exact hs)⟩
  | sized h1 h2 h3 h4 =>
    simp only [hh.noerr, h2, h3, h4, Option.isSome_none, Bool.false_eq_true, if_false, hs]
    cases hst : r.stopped with
    | true => simp only [if_true]; exact ⟨(by first | exact True.intro | rfl), h⟩
    | false =>
      simp only [Bool.false_eq_true, if_false]
      exact ⟨(by first | exact True.intro | rfl), ⟨(by first | rfl | exact hh.noerr), hh.shape, hh.msd, hh.largest, .sized (by first | rfl | exact h1) (by first | rfl | exact h2) (by first | rfl | exact h3) (by first | rfl | exact h4)⟩, (by first | rfl | exact hs)⟩
  | done h1 h2 h3 h4 =>
    simp only [hh.noerr, h2, h4, Option.isSome_none, Bool.false_eq_true, if_false]
    rcases h3 with h3 | ⟨h3, _⟩ <;> simp only [h3] <;> exact ⟨(by first | exact True.intro | rfl), h⟩
  | reset h1 h2 h3 =>
    simp only [hh.noerr, h2, if_true, Bool.false_eq_true, if_false]
    rcases h3 with h3 | h3 <;> simp only [h3] <;> exact ⟨(by first | exact True.intro | rfl), h⟩

/-- **RESET_STREAM keeps the receivers related** (the verdicts agree: `reset_models_agree`), whether the frame is
accepted or refused. -/
theorem rr_reset {r : Stream.Recver} {q : Rcvr} (h : RR r q) (final : Nat) :
    RR (r.rxReset final).1 (q.reset true final).1 := by
  have hh := h.hr
  unfold Stream.Recver.rxReset Rcvr.reset
  cases hh.ph with
  | recv h1 h2 h3 h4 =>
    simp only [h1, hh.noerr, h2, h3, h4, hh.msd, hh.largest, Option.isSome_none, Bool.false_eq_true, if_false, true_and]
    by_cases c1 : final < r.largest
    · simp only [c1, if_true]; exact h
    · simp only [c1, if_false]
      by_cases c2 : final > r.maxSD
      · simp only [c2, if_true]; exact h
      · simp only [c2, if_false]
        exact ⟨⟨(by first | rfl | exact hh.noerr), hh.shape, hh.msd, hh.largest, .reset rfl rfl (Or.inl rfl)⟩, h.stopped⟩
  | sized h1 h2 h3 h4 =>
    simp only [h1, hh.noerr, h2, h3, h4, Option.isSome_none, Bool.false_eq_true, if_false]
    by_cases c1 : final ≠ r.finalSize
    · simp only [if_pos c1]; exact h
    · simp only [if_neg c1]
      exact ⟨⟨(by first | rfl | exact hh.noerr), hh.shape, hh.msd, hh.largest, .reset rfl rfl (Or.inl rfl)⟩, h.stopped⟩
  | done h1 h2 h3 h4 =>
    simp only [h1, h2, h4, if_true, Option.isSome_none, Bool.false_eq_true, if_false]
    exact h
  | reset h1 h2 h3 =>
    simp only [h1, h2, if_true]
    exact h

end GmQuic.Links
