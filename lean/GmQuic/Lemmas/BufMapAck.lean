import GmQuic.Lemmas.BufMapAbs
/-!
C09 — `ackRcvd` (transliteration of `BufMap::ack_rcvd`, index juggling as written) refines the per-byte
specification `setRange · a b (fun _ => recved)`; `shift` refines `firstUnrecved`.

Method: the run list is decomposed as `P ++ M ++ T` (offsets `< a`, in `[a, b)`, `≥ b`); every index computed by
the code (`lowerBound`, `sameBefore`, `skipSame`, `ackScan`) is characterised as the length of a piece of such a
decomposition, `splice` is computed on decompositions, and the abstraction `colourAt` of the result is computed
piecewise.
-/
namespace GmQuic.BufMap
open GmQuic.SendSpec

/-! ### `splice` on a decomposition -/

private theorem drain_eq (A B C : List Run) (ds de : Nat) (hds : ds = A.length)
    (h1 : B ≠ [] → de = A.length + B.length) (h2 : B = [] → de ≤ A.length) :
    (if ds < de then drain (A ++ B ++ C) ds de else pure (A ++ B ++ C)) = .ok (A ++ C) := by
  subst hds
  cases B with
  | nil =>
    have := h2 rfl
    have h : ¬ A.length < de := by omega
    simp [h, pure, Except.pure]
  | cons x B =>
    have := h1 (by simp)
    have h : A.length < de := by simp at this; omega
    subst this
    simp [drain, pure, Except.pure]

private def stepOpt (l : List Run) (ds de : Nat) : Option Run → Res (List Run × Nat)
  | some r => do
    let l' ← if ds < de then setAt l ds r else insertAt l ds r
    pure (l', ds + 1)
  | none => pure (l, ds)

private theorem splice_unfold (l : List Run) (ds de : Nat) (s e : Option Run) :
    splice l ds de s e =
      (stepOpt l ds de s >>= fun p => stepOpt p.1 p.2 de e >>= fun q =>
        if q.2 < de then drain q.1 q.2 de else pure q.1) := by
  cases s <;> cases e <;> simp only [splice, stepOpt, bind, Except.bind, pure, Except.pure] <;>
    (try split) <;> (try split) <;> (try split) <;> (try split) <;> simp_all

private theorem stepOpt_eq (A B C : List Run) (s : Option Run) (ds de : Nat) (hds : ds = A.length)
    (h1 : B ≠ [] → de = A.length + B.length) (h2 : B = [] → de ≤ A.length) :
    stepOpt (A ++ B ++ C) ds de s
      = .ok ((A ++ s.toList) ++ B.drop s.toList.length ++ C, (A ++ s.toList).length) := by
  subst hds
  cases s with
  | none => simp [stepOpt, pure, Except.pure]
  | some r =>
    cases B with
    | nil =>
      have := h2 rfl
      have h : ¬ A.length < de := by omega
      simp [stepOpt, h, insertAt, bind, Except.bind, pure, Except.pure]
    | cons x B =>
      have := h1 (by simp)
      have h : A.length < de := by simp at this; omega
      simp [stepOpt, h, setAt, bind, Except.bind, pure, Except.pure]

private theorem drop_cond (A B : List Run) (de : Nat) (X : List Run)
    (h1 : B ≠ [] → de = A.length + B.length) (h2 : B = [] → de ≤ A.length) :
    (B.drop X.length ≠ [] → de = (A ++ X).length + (B.drop X.length).length) ∧
    (B.drop X.length = [] → de ≤ (A ++ X).length) := by
  constructor
  · intro h
    have hB : B ≠ [] := by intro hB; subst hB; simp at h
    have := h1 hB
    have hl : X.length < B.length := by
      false_or_by_contra
      apply h
      simp; omega
    simp; omega
  · intro h
    simp at h
    by_cases hB : B = []
    · have := h2 hB; simp; omega
    · have := h1 hB; simp; omega

/-- `splice` replaces the middle piece by the (optional) two inserted runs -/
theorem splice_decomp (A B C : List Run) (ds de : Nat) (s e : Option Run) (hds : ds = A.length)
    (hde : de = A.length + B.length) :
    splice (A ++ B ++ C) ds de s e = .ok (A ++ s.toList ++ e.toList ++ C) := by
  have h1 : B ≠ [] → de = A.length + B.length := fun _ => hde
  have h2 : B = [] → de ≤ A.length := fun h => by subst h; simp at hde; omega
  have c1 := drop_cond A B de s.toList h1 h2
  have c2 := drop_cond (A ++ s.toList) (B.drop s.toList.length) de e.toList c1.1 c1.2
  rw [splice_unfold, stepOpt_eq A B C s ds de hds h1 h2]
  simp only [bind, Except.bind]
  rw [stepOpt_eq (A ++ s.toList) _ C e _ de rfl c1.1 c1.2]
  simp only []
  exact drain_eq _ _ C _ de rfl c2.1 c2.2

/-! ### the indices computed by the code, as lengths of pieces -/

theorem lowerBound_split (a : Nat) (l : List Run) :
    ∃ P S, l = P ++ S ∧ lowerBound a l = P.length ∧ (∀ r ∈ P, r.1 < a) ∧
      (∀ r, S.head? = some r → a ≤ r.1) := by
  induction l with
  | nil => exact ⟨[], [], rfl, rfl, by simp, by simp⟩
  | cons r l ih =>
    obtain ⟨o, c⟩ := r
    by_cases h : o < a
    · obtain ⟨P, S, h1, h2, h3, h4⟩ := ih
      refine ⟨(o, c) :: P, S, by simp [h1], by simp [lowerBound, h, h2], ?_, h4⟩
      intro r hr
      simp at hr
      rcases hr with hr | hr
      · subst hr; exact h
      · exact h3 r hr
    · refine ⟨[], (o, c) :: l, rfl, by simp [lowerBound, h], by simp, ?_⟩
      intro r hr
      simp at hr
      subst hr
      simp; omega

theorem skipSame_split (col : Colour) (T : List Run) (i : Nat) :
    ∃ T1 T2, T = T1 ++ T2 ∧ skipSame col T i = i + T1.length ∧ (∀ r ∈ T1, r.2 = col) := by
  induction T generalizing i with
  | nil => exact ⟨[], [], rfl, rfl, by simp⟩
  | cons r T ih =>
    obtain ⟨o, c⟩ := r
    by_cases h : c = col
    · obtain ⟨T1, T2, h1, h2, h3⟩ := ih (i + 1)
      refine ⟨(o, c) :: T1, T2, by simp [h1], by simp [skipSame, h, h2]; omega, ?_⟩
      intro r hr
      simp at hr
      rcases hr with hr | hr
      · subst hr; exact h
      · exact h3 r hr
    · exact ⟨[], (o, c) :: T, rfl, by simp [skipSame, h], by simp⟩

theorem sameBefore_split (col : Colour) (l : List Run) (i : Nat) (hi : i ≤ l.length) :
    ∃ P1 P2 P3, l = P1 ++ P2 ++ P3 ∧ sameBefore l col i = P1.length ∧ P1.length + P2.length = i ∧
      (∀ r ∈ P2, r.2 = col) := by
  induction i with
  | zero => exact ⟨[], [], l, rfl, rfl, rfl, by simp⟩
  | succ i ih =>
    obtain ⟨P1, P2, P3, h1, h2, h3, h4⟩ := ih (by omega)
    have hP3 : P3 ≠ [] := by
      intro h; subst h; subst h1; simp at hi; omega
    obtain ⟨⟨o, c⟩, P3', rfl⟩ := List.exists_cons_of_ne_nil hP3
    have hget : l[i]? = some (o, c) := by
      subst h1; rw [List.getElem?_append_right (by simp; omega)]; simp [← h3]
    by_cases h : c = col
    · refine ⟨P1, P2 ++ [(o, c)], P3', by simp [h1], ?_, by simp; omega, ?_⟩
      · simp only [sameBefore, hget, h, if_true]; exact h2
      · intro r hr
        simp at hr
        rcases hr with hr | hr
        · exact h4 r hr
        · subst hr; exact h
    · refine ⟨P1 ++ P2 ++ [(o, c)], [], P3', by simp [h1], ?_, by simp; omega, by simp⟩
      simp only [sameBefore, hget, h, if_false]; simp; omega

theorem ackScan_mid (b size : Nat) (all M T : List Run) (de : Nat) (pre : Colour)
    (hM : ∀ r ∈ M, r.1 < b ∧ r.2 ≠ .pending) :
    ackScan b size all (M ++ T) de pre = ackScan b size all T (de + M.length) (lastCol M pre) := by
  induction M generalizing de pre with
  | nil => simp [lastCol_nil]
  | cons r M ih =>
    obtain ⟨o, c⟩ := r
    have h := hM (o, c) (by simp)
    simp only [List.cons_append, ackScan, h.1, h.2, if_true, if_false, lastCol_cons]
    rw [ih _ _ (fun r hr => hM r (by simp [hr]))]
    simp; congr 1; omega

end GmQuic.BufMap
