import GmQuic.Lemmas.BufMapAbs
/-!
C09 — `ackRcvd` (transliteration of `BufMap::ack_rcvd`, index juggling as written) refines the per-byte
specification `setRange · a b (fun _ => recved)`; `shift` refines `firstUnrecved`.

Method: the run list is decomposed as `P ++ M ++ T` (offsets `< a`, in `[a, b)`, `≥ b`); every index computed by
the code (`lowerBound`, `sameBefore`, `skipSame`, `ackScan`) is characterised as the length of a piece of such a
decomposition, `splice` is computed on decompositions, and the abstraction `colourAt` of the result is computed
piecewise.
-/
namespace GmQuic.BufMap
open GmQuic.SendSpec

-- helper lemmas live in `GmQuic.BufMap.Ack` (sibling files define similarly named ones)
namespace Ack

/-! ### `splice` on a decomposition -/

private theorem drain_eq (A B C : List Run) (ds de : Nat) (hds : ds = A.length)
    (h1 : B ≠ [] → de = A.length + B.length) (h2 : B = [] → de ≤ A.length) :
    (if ds < de then drain (A ++ B ++ C) ds de else pure (A ++ B ++ C)) = .ok (A ++ C) := by
  subst hds
  cases B with
  | nil =>
    have := h2 rfl
    have h : ¬ A.length < de := by omega
    simp [h, pure, Except.pure]
  | cons x B =>
    have := h1 (by simp)
    have h : A.length < de := by simp at this; omega
    subst this
    simp [drain, pure, Except.pure]

private def stepOpt (l : List Run) (ds de : Nat) : Option Run → Res (List Run × Nat)
  | some r => do
    let l' ← if ds < de then setAt l ds r else insertAt l ds r
    pure (l', ds + 1)
  | none => pure (l, ds)

private theorem splice_unfold (l : List Run) (ds de : Nat) (s e : Option Run) :
    splice l ds de s e =
      (stepOpt l ds de s >>= fun p => stepOpt p.1 p.2 de e >>= fun q =>
        if q.2 < de then drain q.1 q.2 de else pure q.1) := by
  cases s <;> cases e <;> simp only [splice, stepOpt, bind, Except.bind, pure, Except.pure] <;>
    (try split) <;> (try split) <;> (try split) <;> (try split) <;> simp_all

private theorem stepOpt_eq (A B C : List Run) (s : Option Run) (ds de : Nat) (hds : ds = A.length)
    (h1 : B ≠ [] → de = A.length + B.length) (h2 : B = [] → de ≤ A.length) :
    stepOpt (A ++ B ++ C) ds de s
      = .ok ((A ++ s.toList) ++ B.drop s.toList.length ++ C, (A ++ s.toList).length) := by
  subst hds
  cases s with
  | none => simp [stepOpt, pure, Except.pure]
  | some r =>
    cases B with
    | nil =>
      have := h2 rfl
      have h : ¬ A.length < de := by omega
      simp [stepOpt, h, insertAt, bind, Except.bind, pure, Except.pure]
    | cons x B =>
      have := h1 (by simp)
      have h : A.length < de := by simp at this; omega
      simp [stepOpt, h, setAt, bind, Except.bind, pure, Except.pure]

private theorem drop_cond (A B : List Run) (de : Nat) (X : List Run)
    (h1 : B ≠ [] → de = A.length + B.length) (h2 : B = [] → de ≤ A.length) :
    (B.drop X.length ≠ [] → de = (A ++ X).length + (B.drop X.length).length) ∧
    (B.drop X.length = [] → de ≤ (A ++ X).length) := by
  constructor
  · intro h
    have hB : B ≠ [] := by intro hB; subst hB; simp at h
    have := h1 hB
    have hl : X.length < B.length := by
      false_or_by_contra
      apply h
      simp; omega
    simp; omega
  · intro h
    simp at h
    by_cases hB : B = []
    · have := h2 hB; simp; omega
    · have := h1 hB; simp; omega

/-- `splice` replaces the middle piece by the (optional) two inserted runs -/
theorem splice_decomp (A B C : List Run) (ds de : Nat) (s e : Option Run) (hds : ds = A.length)
    (hde : de = A.length + B.length) :
    splice (A ++ B ++ C) ds de s e = .ok (A ++ s.toList ++ e.toList ++ C) := by
  have h1 : B ≠ [] → de = A.length + B.length := fun _ => hde
  have h2 : B = [] → de ≤ A.length := fun h => by subst h; simp at hde; omega
  have c1 := drop_cond A B de s.toList h1 h2
  have c2 := drop_cond (A ++ s.toList) (B.drop s.toList.length) de e.toList c1.1 c1.2
  rw [splice_unfold, stepOpt_eq A B C s ds de hds h1 h2]
  simp only [bind, Except.bind]
  rw [stepOpt_eq (A ++ s.toList) _ C e _ de rfl c1.1 c1.2]
  simp only []
  exact drain_eq _ _ C _ de rfl c2.1 c2.2

/-! ### the indices computed by the code, as lengths of pieces -/

theorem lowerBound_split (a : Nat) (l : List Run) :
    ∃ P S, l = P ++ S ∧ lowerBound a l = P.length ∧ (∀ r ∈ P, r.1 < a) ∧
      (∀ r, S.head? = some r → a ≤ r.1) := by
  induction l with
  | nil => exact ⟨[], [], rfl, rfl, by simp, by simp⟩
  | cons r l ih =>
    obtain ⟨o, c⟩ := r
    by_cases h : o < a
    · obtain ⟨P, S, h1, h2, h3, h4⟩ := ih
      refine ⟨(o, c) :: P, S, by simp [h1], by simp [lowerBound, h, h2], ?_, h4⟩
      intro r hr
      simp at hr
      rcases hr with hr | hr
      · subst hr; exact h
      · exact h3 r hr
    · refine ⟨[], (o, c) :: l, rfl, by simp [lowerBound, h], by simp, ?_⟩
      intro r hr
      simp at hr
      subst hr
      simp; omega

theorem skipSame_split (col : Colour) (T : List Run) (i : Nat) :
    ∃ T1 T2, T = T1 ++ T2 ∧ skipSame col T i = i + T1.length ∧ (∀ r ∈ T1, r.2 = col) := by
  induction T generalizing i with
  | nil => exact ⟨[], [], rfl, rfl, by simp⟩
  | cons r T ih =>
    obtain ⟨o, c⟩ := r
    by_cases h : c = col
    · obtain ⟨T1, T2, h1, h2, h3⟩ := ih (i + 1)
      refine ⟨(o, c) :: T1, T2, by simp [h1], by simp [skipSame, h, h2]; omega, ?_⟩
      intro r hr
      simp at hr
      rcases hr with hr | hr
      · subst hr; exact h
      · exact h3 r hr
    · exact ⟨[], (o, c) :: T, rfl, by simp [skipSame, h], by simp⟩

theorem sameBefore_split (col : Colour) (l : List Run) (i : Nat) (hi : i ≤ l.length) :
    ∃ P1 P2 P3, l = P1 ++ P2 ++ P3 ∧ sameBefore l col i = P1.length ∧ P1.length + P2.length = i ∧
      (∀ r ∈ P2, r.2 = col) := by
  induction i with
  | zero => exact ⟨[], [], l, rfl, rfl, rfl, by simp⟩
  | succ i ih =>
    obtain ⟨P1, P2, P3, h1, h2, h3, h4⟩ := ih (by omega)
    have hP3 : P3 ≠ [] := by
      intro h; subst h; subst h1; simp at hi; omega
    obtain ⟨⟨o, c⟩, P3', rfl⟩ := List.exists_cons_of_ne_nil hP3
    have hget : l[i]? = some (o, c) := by
      subst h1; rw [List.getElem?_append_right (by simp; omega)]; simp [← h3]
    by_cases h : c = col
    · refine ⟨P1, P2 ++ [(o, c)], P3', by simp [h1], ?_, by simp; omega, ?_⟩
      · simp only [sameBefore, hget, h, if_true]; exact h2
      · intro r hr
        simp at hr
        rcases hr with hr | hr
        · exact h4 r hr
        · subst hr; exact h
    · refine ⟨P1 ++ P2 ++ [(o, c)], [], P3', by simp [h1], ?_, by simp; omega, by simp⟩
      simp only [sameBefore, hget, h, if_false]; simp; omega

theorem ackScan_mid (b size : Nat) (all M T : List Run) (de : Nat) (pre : Colour)
    (hM : ∀ r ∈ M, r.1 < b ∧ r.2 ≠ .pending) :
    ackScan b size all (M ++ T) de pre = ackScan b size all T (de + M.length) (lastCol M pre) := by
  induction M generalizing de pre with
  | nil => simp [lastCol_nil]
  | cons r M ih =>
    obtain ⟨o, c⟩ := r
    have h := hM (o, c) (by simp)
    simp only [List.cons_append, ackScan, h.1, h.2, if_true, if_false, lastCol_cons]
    rw [ih _ _ (fun r hr => hM r (by simp [hr]))]
    simp; congr 1; omega

/-! ### abstraction helpers -/

theorem colourAt_lt_head (l : List Run) (p : Colour) (x : Nat) (h : ∀ r, l.head? = some r → x < r.1) :
    colourAt l p x = p := by
  have := colourAt_append_gt [] l p x h
  simpa [colourAt] using this

theorem colourAt_same (M : List Run) (c : Colour) (x : Nat) (h : ∀ r ∈ M, r.2 = c) : colourAt M c x = c := by
  induction M with
  | nil => rfl
  | cons r M ih =>
    obtain ⟨o, c'⟩ := r
    have hc : c' = c := h (o, c') (by simp)
    subst hc
    simp only [colourAt]
    split
    · rfl
    · exact ih (fun r hr => h r (by simp [hr]))

theorem colourAt_append_congr (P X Y : List Run) (p : Colour) (x : Nat)
    (h : colourAt X (lastCol P p) x = colourAt Y (lastCol P p) x) :
    colourAt (P ++ X) p x = colourAt (P ++ Y) p x := by
  induction P generalizing p with
  | nil => simpa [lastCol_nil] using h
  | cons r P ih =>
    obtain ⟨o, c⟩ := r
    simp only [List.cons_append, colourAt]
    split
    · rfl
    · exact ih c (by simpa [lastCol_cons] using h)

theorem lastCol_append (A B : List Run) (p : Colour) : lastCol (A ++ B) p = lastCol B (lastCol A p) := by
  induction A generalizing p with
  | nil => simp [lastCol_nil]
  | cons r A ih => simp only [List.cons_append, lastCol_cons, ih]

theorem lastCol_single (r : Run) (p : Colour) : lastCol [r] p = r.2 := by
  simp [lastCol_cons, lastCol_nil]

theorem sorted_head_all (S : List Run) (a : Nat) (hs : Sorted S) (h : ∀ r, S.head? = some r → a ≤ r.1) :
    ∀ r ∈ S, a ≤ r.1 := by
  cases S with
  | nil => simp
  | cons r0 S =>
    have h0 := h r0 rfl
    have hs' := List.pairwise_cons.mp hs
    intro r hr
    simp at hr
    rcases hr with hr | hr
    · subst hr; exact h0
    · have := hs'.1 r hr; omega

theorem sorted_append {A B : List Run} (h : Sorted (A ++ B)) :
    Sorted A ∧ Sorted B ∧ ∀ r ∈ A, ∀ r' ∈ B, r.1 < r'.1 := List.pairwise_append.mp h

theorem colourAt_drop_same (T1 T2 : List Run) (c : Colour) (x : Nat) (hs : Sorted (T1 ++ T2))
    (h : ∀ r ∈ T1, r.2 = c) : colourAt (T1 ++ T2) c x = colourAt T2 c x := by
  induction T1 with
  | nil => rfl
  | cons r T1 ih =>
    obtain ⟨o, c'⟩ := r
    have hc : c' = c := h (o, c') (by simp)
    subst hc
    have hs' := List.pairwise_cons.mp hs
    simp only [List.cons_append, colourAt]
    split
    · rename_i hx
      symm
      apply colourAt_lt_head
      intro r hr
      have : r ∈ T1 ++ T2 := by
        cases T2 with
        | nil => simp at hr
        | cons r2 T2 => simp at hr; subst hr; simp
      have := hs'.1 r this
      simp at this; omega
    · exact ih hs'.2 (fun r hr => h r (by simp [hr]))

/-- a run starts with its own colour -/
theorem abs_at_run (m : BufMap) (hwf : WF m) (o : Nat) (c : Colour) (h : (o, c) ∈ m.runs) : m.abs o = c := by
  have hlt := hwf.lt_size _ h
  rw [abs_of_lt m o hlt]
  obtain ⟨X, Y, hXY⟩ := List.append_of_mem h
  have hs := hwf.sorted
  rw [hXY] at hs ⊢
  obtain ⟨_, hY, hXY'⟩ := sorted_append hs
  rw [colourAt_append_le X _ _ o (fun r hr => by have := hXY' r hr (o, c) (by simp); simp at this; omega)]
  simp only [colourAt, Nat.lt_irrefl, if_false]
  apply colourAt_lt_head
  intro r hr
  have hY' := List.pairwise_cons.mp hY
  have : r ∈ Y := by
    cases Y with
    | nil => simp at hr
    | cons r2 Y => simp at hr; subst hr; simp
  exact hY'.1 r this

/-! ### the scan and the tail of the result -/

theorem ack_tail (b size : Nat) (all X M T : List Run) (pre0 : Colour) (hall : all = X ++ (M ++ T))
    (hM : ∀ r ∈ M, r.1 < b ∧ r.2 ≠ .pending) (hT : ∀ r, T.head? = some r → b ≤ r.1) (hb : b ≤ size)
    (hTs : Sorted T) (hTlt : ∀ r ∈ T, r.1 < size) :
    ∃ T1 T2 nie, T = T1 ++ T2 ∧
      ackScan b size all (M ++ T) X.length pre0
        = .ok (X.length + M.length + T1.length, lastCol M pre0, nie) ∧
      Sorted ((if nie then some (b, lastCol M pre0) else none).toList ++ T2) ∧
      (∀ r ∈ (if nie then some (b, lastCol M pre0) else none).toList ++ T2, b ≤ r.1 ∧ r.1 < size) ∧
      ∀ x, b ≤ x → x < size →
        colourAt ((if nie then some (b, lastCol M pre0) else none).toList ++ T2) .recved x
          = colourAt T (lastCol M pre0) x := by
  rw [ackScan_mid _ _ _ _ _ _ _ hM]
  generalize lastCol M pre0 = pre
  have hTall := sorted_head_all T b hTs hT
  cases T with
  | nil =>
    have h : ¬ b > size := by omega
    refine ⟨[], [], decide (b < size) && pre != .recved, rfl, by simp [ackScan, h, pure, Except.pure], ?_⟩
    by_cases hn : (decide (b < size) && pre != .recved) = true
    · simp only [hn, if_true, Option.toList, List.append_nil]
      simp at hn
      refine ⟨by simp [Sorted], by simp; omega, ?_⟩
      intro x hx _
      have : ¬ x < b := by omega
      simp [colourAt, this]
    · simp only [hn, Option.toList, List.append_nil]
      refine ⟨by simp [Sorted], by simp, ?_⟩
      intro x hx hxs
      simp only [colourAt]
      have : b < size := by omega
      simp [this] at hn
      exact hn.symm
  | cons r T' =>
    obtain ⟨o, c⟩ := r
    have ho : b ≤ o := hT (o, c) rfl
    have h1 : ¬ o < b := by omega
    by_cases hob : o = b
    · subst hob
      obtain ⟨T1, T2, hsplit, hskip, hcol⟩ := skipSame_split .recved ((o, c) :: T') (X.length + M.length)
      have hdrop : all.drop (X.length + M.length) = (o, c) :: T' := by
        subst hall
        rw [← List.append_assoc]
        exact List.drop_left' (by simp)
      refine ⟨T1, T2, false, hsplit, ?_, ?_⟩
      · simp only [ackScan, h1, if_false, if_true, sameAfterP1, hdrop, hskip, pure, Except.pure]
      · simp only [Bool.false_eq_true, if_false, Option.toList, List.nil_append]
        rw [hsplit] at hTs
        refine ⟨(sorted_append hTs).2.1, ?_, ?_⟩
        · intro r hr
          have : r ∈ (o, c) :: T' := by rw [hsplit]; simp [hr]
          exact ⟨hTall r this, hTlt r this⟩
        · intro x hx _
          have hnx : ¬ x < o := by omega
          have : colourAt ((o, c) :: T') pre x = colourAt ((o, c) :: T') .recved x := by
            simp [colourAt, hnx]
          rw [this, hsplit]
          exact (colourAt_drop_same T1 T2 .recved x hTs hcol).symm
    · have h2 : ¬ o = b := hob
      refine ⟨[], (o, c) :: T', pre != .recved, rfl, ?_, ?_⟩
      · simp only [ackScan, h1, h2, if_false, pure, Except.pure, List.length_nil, Nat.add_zero]
      · by_cases hn : (pre != .recved) = true
        · simp only [hn, if_true, Option.toList, List.cons_append, List.nil_append]
          refine ⟨?_, ?_, ?_⟩
          · refine List.pairwise_cons.mpr ⟨?_, hTs⟩
            intro r hr
            have hs' := List.pairwise_cons.mp hTs
            simp at hr
            rcases hr with hr | hr
            · subst hr; simp; omega
            · have := hs'.1 r hr; simp at this ⊢; omega
          · intro r hr
            simp at hr
            rcases hr with hr | hr
            · subst hr; have := hTlt (o, c) (by simp); simp at this ⊢; omega
            · rcases hr with hr | hr
              · subst hr; exact ⟨ho, hTlt _ (by simp)⟩
              · exact ⟨hTall r (by simp [hr]), hTlt r (by simp [hr])⟩
          · intro x hx _
            have : ¬ x < b := by omega
            simp only [colourAt, this, if_false]
        · simp only [hn, Option.toList]
          simp at hn
          subst hn
          exact ⟨hTs, fun r hr => ⟨hTall r hr, hTlt r hr⟩, fun _ _ _ => rfl⟩

/-- the result `H ++ Z` of `ack_rcvd` on `P ++ S`: well-formed, and its abstraction -/
theorem ack_assemble (m : BufMap) (a b : Nat) (hab : a < b) (hb : b ≤ m.size)
    (P S H Z T : List Run) (pre : Colour)
    (hL : m.runs = P ++ S) (hS : ∀ r, S.head? = some r → a ≤ r.1)
    (hTc : ∀ x, b ≤ x → colourAt m.runs .recved x = colourAt T pre x)
    (hH1 : Sorted H) (hH2 : ∀ r ∈ H, r.1 ≤ a) (hH3 : lastCol H .recved = .recved)
    (hH4 : ∀ x, x < a → colourAt H .recved x = colourAt P .recved x)
    (hZ1 : Sorted Z) (hZ2 : ∀ r ∈ Z, b ≤ r.1 ∧ r.1 < m.size)
    (hZ3 : ∀ x, b ≤ x → x < m.size → colourAt Z .recved x = colourAt T pre x) :
    WF { m with runs := H ++ Z } ∧
      ∀ x, BufMap.abs { m with runs := H ++ Z } x = setRange m.abs a b (fun _ => Colour.recved) x := by
  have hZhead : ∀ x, x < b → ∀ r, Z.head? = some r → x < r.1 := by
    intro x hx r hr
    have : r ∈ Z := by
      cases Z with
      | nil => simp at hr
      | cons r2 Z => simp at hr; subst hr; simp
    have := (hZ2 r this).1
    omega
  refine ⟨⟨?_, ?_⟩, ?_⟩
  · refine List.pairwise_append.mpr ⟨hH1, hZ1, ?_⟩
    intro r hr r' hr'
    have := hH2 r hr
    have := (hZ2 r' hr').1
    omega
  · intro r hr
    simp at hr
    rcases hr with hr | hr
    · have := hH2 r hr; simp; omega
    · exact (hZ2 r hr).2
  · intro x
    by_cases hxs : x < m.size
    · simp only [BufMap.abs, hxs, if_true, setRange]
      by_cases hxa : x < a
      · have : ¬ (a ≤ x ∧ x < b) := by omega
        simp only [this, if_false]
        rw [colourAt_append_gt H Z _ x (hZhead x (by omega)), hH4 x hxa, hL,
          colourAt_append_gt P S _ x (fun r hr => by have := hS r hr; omega)]
      · rw [colourAt_append_le H Z _ x (fun r hr => by have := hH2 r hr; omega), hH3]
        by_cases hxb : x < b
        · have : a ≤ x ∧ x < b := by omega
          simp only [this, and_self, if_true]
          exact colourAt_lt_head Z _ x (hZhead x hxb)
        · have : ¬ (a ≤ x ∧ x < b) := by omega
          simp only [this, if_false]
          rw [hZ3 x (by omega) hxs, hTc x (by omega)]
    · have h1 : ¬ (a ≤ x ∧ x < b) := by omega
      simp [BufMap.abs, hxs, setRange, h1]

/-! ### `ack_rcvd` -/

/-- `ack_rcvd` after the `match pos` -/
private def ackRest (m : BufMap) (a b : Nat) (runs1 : List Run) (ds : Nat) (nis : Bool) (de0 : Nat)
    (pre0 : Colour) : Res BufMap := do
  let (de, pre, nie) ← ackScan b m.size runs1 (runs1.drop de0) de0 pre0
  let runs2 ← splice runs1 ds de (if nis then some (a, .recved) else none) (if nie then some (b, pre) else none)
  pure { m with runs := runs2 }

private theorem ack_rest (m : BufMap) (a b : Nat) (runs1 X M T A B : List Run) (pre0 : Colour) (nis : Bool)
    (hr : runs1 = X ++ (M ++ T)) (hAB : X ++ M = A ++ B)
    (hM : ∀ r ∈ M, r.1 < b ∧ r.2 ≠ .pending) (hT : ∀ r, T.head? = some r → b ≤ r.1) (hb : b ≤ m.size)
    (hTs : Sorted T) (hTlt : ∀ r ∈ T, r.1 < m.size) :
    ∃ Z, ackRest m a b runs1 A.length nis X.length pre0
        = .ok { m with runs := (A ++ (if nis then some (a, Colour.recved) else none).toList) ++ Z } ∧
      Sorted Z ∧ (∀ r ∈ Z, b ≤ r.1 ∧ r.1 < m.size) ∧
      ∀ x, b ≤ x → x < m.size → colourAt Z .recved x = colourAt T (lastCol M pre0) x := by
  obtain ⟨T1, T2, nie, hT12, hscan, hZ1, hZ2, hZ3⟩ := ack_tail b m.size runs1 X M T pre0 hr hM hT hb hTs hTlt
  refine ⟨_, ?_, hZ1, hZ2, hZ3⟩
  have hdrop : runs1.drop X.length = M ++ T := by subst hr; exact List.drop_left' rfl
  have hlen : X.length + M.length = A.length + B.length := by
    have := congrArg List.length hAB; simpa using this
  have hr' : runs1 = A ++ (B ++ T1) ++ T2 := by
    rw [hr, hT12, ← List.append_assoc, ← List.append_assoc, hAB]; simp
  simp only [ackRest, hdrop, hscan, bind, Except.bind]
  rw [hr', splice_decomp A (B ++ T1) T2 A.length _ _ _ rfl (by simp; omega)]
  simp [pure, Except.pure]

private theorem ackRcvd_found (m : BufMap) (a b idx o : Nat) (c : Colour)
    (h1 : bsearch m.runs a = (true, idx)) (h2 : m.runs[idx]? = some (o, c)) (h3 : c ≠ .pending) :
    ackRcvd m a b = ackRest m a b (m.runs.set idx (o, .recved))
      (sameBefore (m.runs.set idx (o, .recved)) .recved idx + 1) false (idx + 1) c := by
  unfold ackRcvd ackRest
  simp only [h1, h2, h3, if_false]
  rfl

private theorem ackRcvd_notfound (m : BufMap) (a b idx : Nat) (c : Colour)
    (h1 : bsearch m.runs a = (false, idx))
    (h2 : (idx = 0 ∧ c = .recved) ∨ (idx ≠ 0 ∧ ∃ o, m.runs[idx - 1]? = some (o, c))) (h3 : c ≠ .pending) :
    ackRcvd m a b = ackRest m a b m.runs idx (c != .recved) idx c := by
  unfold ackRcvd ackRest
  rcases h2 with ⟨h0, hc⟩ | ⟨h0, o, h2⟩
  · subst h0; subst hc
    simp only [h1, if_true]
    rfl
  · simp only [h1, h0, h2, h3, if_false]
    rfl

theorem head_mem {l : List Run} {r : Run} (h : l.head? = some r) : r ∈ l := by
  cases l with
  | nil => simp at h
  | cons r2 l => simp at h; subst h; simp

end Ack
open Ack

theorem ackRcvd_refines (m : BufMap) (a b : Nat) (hwf : WF m) (hab : a < b) (hb : b ≤ m.size)
    (hnp : ∀ x, a ≤ x → x < b → m.abs x ≠ .pending) :
    ∃ m', ackRcvd m a b = .ok m' ∧ WF m' ∧ m'.size = m.size ∧
      ∀ x, m'.abs x = setRange m.abs a b (fun _ => Colour.recved) x := by
  obtain ⟨P, S, hL, hlb, hP, hS⟩ := lowerBound_split a m.runs
  have hsort := hwf.sorted
  rw [hL] at hsort
  obtain ⟨hPs, hSs, hPS⟩ := sorted_append hsort
  have hSall := sorted_head_all S a hSs hS
  have hrun : ∀ r ∈ m.runs, a ≤ r.1 → r.1 < b → r.2 ≠ .pending := by
    intro r hr h1 h2
    have h3 := abs_at_run m hwf r.1 r.2 hr
    have h4 := hnp r.1 h1 h2
    rw [h3] at h4; exact h4
  have hlt := hwf.lt_size
  by_cases hfound : ∃ c S', S = (a, c) :: S'
  · -- `Ok(idx)`
    obtain ⟨c, S', rfl⟩ := hfound
    obtain ⟨M, T, hS', _, hM, hT⟩ := lowerBound_split b S'
    subst hS'
    have hget : m.runs[P.length]? = some (a, c) := by rw [hL]; simp
    have hbs : bsearch m.runs a = (true, P.length) := by
      simp only [bsearch, hlb, hget]; simp
    have hc : c ≠ .pending := hrun (a, c) (by rw [hL]; simp) (Nat.le_refl _) hab
    have hset : m.runs.set P.length (a, .recved) = P ++ (a, .recved) :: (M ++ T) := by rw [hL]; simp
    obtain ⟨_, hS's⟩ := List.pairwise_cons.mp hSs
    obtain ⟨_, hTs, _⟩ := sorted_append hS's
    have hM' : ∀ r ∈ M, r.1 < b ∧ r.2 ≠ .pending := by
      intro r hr
      have hmem : r ∈ m.runs := by rw [hL]; simp [hr]
      have := hSall r (by simp [hr])
      exact ⟨hM r hr, hrun r hmem this (hM r hr)⟩
    have hTlt : ∀ r ∈ T, r.1 < m.size := fun r hr => hlt r (by rw [hL]; simp [hr])
    have hTc : ∀ x, b ≤ x → colourAt m.runs .recved x = colourAt T (lastCol M c) x := by
      intro x hx
      have : m.runs = (P ++ (a, c) :: M) ++ T := by rw [hL]; simp
      rw [this, colourAt_append_le _ T _ x, lastCol_append, lastCol_cons]
      intro r hr
      simp at hr
      rcases hr with hr | hr | hr
      · have := hP r hr; omega
      · subst hr; simp; omega
      · have := hM r hr; omega
    rw [ackRcvd_found m a b P.length a c hbs hget hc, hset]
    obtain ⟨P1, P2, P3, hsplit, hsb, hlen, hcol⟩ :=
      sameBefore_split .recved (P ++ (a, .recved) :: (M ++ T)) P.length (by simp)
    have hinj := List.append_inj (s₁ := P1 ++ P2) (t₁ := P3) (s₂ := P) (t₂ := (a, .recved) :: (M ++ T))
      hsplit.symm (by simp [hlen])
    obtain ⟨hP12, hP3⟩ := hinj
    rw [hsb]
    cases P2 with
    | nil =>
      simp at hP12
      subst hP12
      obtain ⟨Z, hres, hZ1, hZ2, hZ3⟩ := ack_rest m a b (P1 ++ (a, .recved) :: (M ++ T)) (P1 ++ [(a, .recved)]) M T
        (P1 ++ [(a, .recved)]) M c false (by simp) rfl hM' hT hb hTs hTlt
      simp only [List.length_append, List.length_cons, List.length_nil, Nat.zero_add] at hres
      refine ⟨_, hres, ?_⟩
      simp only [Bool.false_eq_true, if_false, Option.toList, List.append_nil]
      have := ack_assemble m a b hab hb P1 _ (P1 ++ [(a, .recved)]) Z T (lastCol M c) hL hS hTc
        (List.pairwise_append.mpr ⟨hPs, by simp, by
          intro r hr r' hr'; simp at hr'; subst hr'; exact hP r hr⟩)
        (by intro r hr; simp at hr; rcases hr with hr | hr
            · have := hP r hr; omega
            · subst hr; simp)
        (by rw [lastCol_append, lastCol_single])
        (by intro x hx; apply colourAt_append_gt; intro r hr; simp at hr; subst hr; exact hx)
        hZ1 hZ2 hZ3
      exact ⟨this.1, trivial, this.2⟩
    | cons p2 P2' =>
      subst hP12
      have hp2 : p2.2 = .recved := hcol p2 (by simp)
      obtain ⟨Z, hres, hZ1, hZ2, hZ3⟩ := ack_rest m a b ((P1 ++ p2 :: P2') ++ (a, .recved) :: (M ++ T))
        ((P1 ++ p2 :: P2') ++ [(a, .recved)]) M T
        (P1 ++ [p2]) (P2' ++ (a, .recved) :: M) c false (by simp) (by simp) hM' hT hb hTs hTlt
      simp only [List.length_append, List.length_cons, List.length_nil, Nat.zero_add] at hres
      simp only [List.length_append, List.length_cons] at hres ⊢
      refine ⟨_, hres, ?_⟩
      simp only [Bool.false_eq_true, if_false, Option.toList, List.append_nil]
      have hP1s : Sorted (P1 ++ [p2]) := by
        have : P1 ++ p2 :: P2' = (P1 ++ [p2]) ++ P2' := by simp
        rw [this] at hPs
        exact (sorted_append hPs).1
      have := ack_assemble m a b hab hb (P1 ++ p2 :: P2') _ (P1 ++ [p2]) Z T (lastCol M c) hL hS hTc
        hP1s
        (by intro r hr
            have : r ∈ P1 ++ p2 :: P2' := by
              simp at hr ⊢; rcases hr with hr | hr
              · exact Or.inl hr
              · exact Or.inr (Or.inl hr)
            have := hP r this; omega)
        (by rw [lastCol_append, lastCol_single, hp2])
        (by intro x _
            have h1 : P1 ++ p2 :: P2' = (P1 ++ [p2]) ++ P2' := by simp
            have h2 : P1 ++ [p2] = (P1 ++ [p2]) ++ [] := by simp
            rw [h1]
            conv => lhs; rw [h2]
            apply colourAt_append_congr
            rw [lastCol_append, lastCol_single, hp2]
            simp only [colourAt]
            exact (colourAt_same P2' .recved x (fun r hr => hcol r (by simp [hr]))).symm)
        hZ1 hZ2 hZ3
      exact ⟨this.1, trivial, this.2⟩
  · -- `Err(idx)`
    have hShead : ∀ r, S.head? = some r → a < r.1 := by
      intro r hr
      have h1 := hS r hr
      have h2 : r.1 ≠ a := by
        intro h
        apply hfound
        cases S with
        | nil => simp at hr
        | cons r2 S' => simp at hr; subst hr; exact ⟨r2.2, S', by rw [← h]⟩
      omega
    have hbs : bsearch m.runs a = (false, P.length) := by
      simp only [bsearch, hlb]
      cases hS0 : S with
      | nil => rw [hL, hS0]; simp
      | cons r S' =>
        have h := hShead r (by rw [hS0]; rfl)
        have hget : m.runs[P.length]? = some r := by rw [hL, hS0]; simp
        have : (r.1 == a) = false := by simp; omega
        rw [hget]; simp only [this]
    have hc0 : lastCol P .recved ≠ .pending := by
      have h1 := hnp a (Nat.le_refl _) hab
      rw [abs_of_lt m a (by omega), hL,
        colourAt_append_le P S _ a (fun r hr => by have := hP r hr; omega),
        colourAt_lt_head S _ a hShead] at h1
      exact h1
    have h2 : (P.length = 0 ∧ lastCol P .recved = .recved) ∨
        (P.length ≠ 0 ∧ ∃ o, m.runs[P.length - 1]? = some (o, lastCol P .recved)) := by
      by_cases hPn : P = []
      · left; subst hPn; exact ⟨rfl, rfl⟩
      · right
        refine ⟨by intro h; exact hPn (List.length_eq_zero_iff.mp h), ?_⟩
        have hdl := List.dropLast_concat_getLast hPn
        refine ⟨(P.getLast hPn).1, ?_⟩
        have hl : lastCol P .recved = (P.getLast hPn).2 := by
          conv => lhs; rw [← hdl]
          rw [lastCol_append, lastCol_single]
        rw [hl, hL, List.getElem?_append_left (by have := List.length_pos_iff.mpr hPn; omega)]
        rw [← List.getLast?_eq_getElem?, List.getLast?_eq_some_getLast hPn]
    rw [ackRcvd_notfound m a b P.length _ hbs h2 hc0]
    obtain ⟨M, T, hS', _, hM, hT⟩ := lowerBound_split b S
    subst hS'
    obtain ⟨_, hTs, _⟩ := sorted_append hSs
    have hM' : ∀ r ∈ M, r.1 < b ∧ r.2 ≠ .pending := by
      intro r hr
      have hmem : r ∈ m.runs := by rw [hL]; simp [hr]
      have := hSall r (by simp [hr])
      exact ⟨hM r hr, hrun r hmem this (hM r hr)⟩
    have hTlt : ∀ r ∈ T, r.1 < m.size := fun r hr => hlt r (by rw [hL]; simp [hr])
    have hTc : ∀ x, b ≤ x → colourAt m.runs .recved x = colourAt T (lastCol M (lastCol P .recved)) x := by
      intro x hx
      have : m.runs = (P ++ M) ++ T := by rw [hL]; simp
      rw [this, colourAt_append_le _ T _ x, lastCol_append]
      intro r hr
      simp at hr
      rcases hr with hr | hr
      · have := hP r hr; omega
      · have := hM r hr; omega
    obtain ⟨Z, hres, hZ1, hZ2, hZ3⟩ := ack_rest m a b m.runs P M T P M (lastCol P .recved)
      (lastCol P .recved != .recved) hL rfl hM' hT hb hTs hTlt
    refine ⟨_, hres, ?_⟩
    by_cases hcr : lastCol P .recved = .recved
    · have hn : (lastCol P .recved != .recved) = false := by simp [hcr]
      simp only [hn, Bool.false_eq_true, if_false, Option.toList, List.append_nil]
      have := ack_assemble m a b hab hb P _ P Z T _ hL hS hTc hPs
        (fun r hr => by have := hP r hr; omega) hcr (fun _ _ => rfl) hZ1 hZ2 hZ3
      exact ⟨this.1, trivial, this.2⟩
    · have hn : (lastCol P .recved != .recved) = true := by simp [hcr]
      simp only [hn, if_true, Option.toList]
      have := ack_assemble m a b hab hb P _ (P ++ [(a, .recved)]) Z T _ hL hS hTc
        (List.pairwise_append.mpr ⟨hPs, by simp, by
          intro r hr r' hr'; simp at hr'; subst hr'; exact hP r hr⟩)
        (by intro r hr; simp at hr; rcases hr with hr | hr
            · have := hP r hr; omega
            · subst hr; simp)
        (by rw [lastCol_append, lastCol_single])
        (by intro x hx; apply colourAt_append_gt; intro r hr; simp at hr; subst hr; exact hx)
        hZ1 hZ2 hZ3
      exact ⟨this.1, trivial, this.2⟩

/-! ### `shift` -/

private theorem least_unique' (p : Nat → Bool) (n k : Nat) (hk : k ≤ n) (h1 : ∀ x, x < k → p x = false)
    (h2 : k < n → p k = true) : least p n = k := by
  induction n generalizing k with
  | zero => simp [least]; omega
  | succ n ih =>
    simp only [least]
    by_cases hkn : k ≤ n
    · have := ih k hkn h1 (fun h => h2 (by omega))
      rw [this]
      by_cases hlt : k < n
      · simp [hlt]
      · have hkn' : k = n := by omega
        subst hkn'
        simp [h2 (by omega)]
    · have hkn' : k = n + 1 := by omega
      subst hkn'
      have := ih n (Nat.le_refl _) (fun x hx => h1 x (by omega)) (fun h => by omega)
      rw [this]
      simp [h1 n (by omega)]

private theorem shift_go_split (l : List Run) :
    ∃ R1, l = R1 ++ (shift.go l).1 ∧ (∀ r ∈ R1, r.2 = Colour.recved) ∧
      (((shift.go l).1 = [] ∧ (shift.go l).2 = none) ∨
        ∃ o c rest, (shift.go l).1 = (o, c) :: rest ∧ c ≠ Colour.recved ∧ (shift.go l).2 = some o) := by
  induction l with
  | nil => exact ⟨[], rfl, by simp, Or.inl ⟨rfl, rfl⟩⟩
  | cons r l ih =>
    obtain ⟨o, c⟩ := r
    by_cases h : c = .recved
    · obtain ⟨R1, h1, h2, h3⟩ := ih
      have hgo : shift.go ((o, c) :: l) = shift.go l := by simp [shift.go, h]
      rw [hgo]
      refine ⟨(o, c) :: R1, by simp [← h1], ?_, h3⟩
      intro r hr
      simp at hr
      rcases hr with hr | hr
      · subst hr; exact h
      · exact h2 r hr
    · have hgo : shift.go ((o, c) :: l) = ((o, c) :: l, some o) := by simp [shift.go, h]
      rw [hgo]
      exact ⟨[], rfl, by simp, Or.inr ⟨o, c, l, rfl, h, rfl⟩⟩

private theorem shift_eq (m : BufMap) :
    (shift m).1 = { m with runs := (shift.go m.runs).1 } ∧
    (shift m).2 = (match (shift.go m.runs).2 with | some o => o | none => m.size) := by
  unfold shift
  cases h : shift.go m.runs with
  | mk runs opt => cases opt <;> simp

theorem shift_refines (m : BufMap) (hwf : WF m) :
    WF (shift m).1 ∧ (shift m).1.size = m.size ∧ (∀ x, (shift m).1.abs x = m.abs x) ∧
    (shift m).2 = firstUnrecved m.abs m.size := by
  obtain ⟨he1, he2⟩ := shift_eq m
  obtain ⟨R1, hL, hR1, hcase⟩ := shift_go_split m.runs
  have hs := hwf.sorted
  rw [hL] at hs
  have habs : ∀ x, (shift m).1.abs x = m.abs x := by
    intro x
    rw [he1]
    simp only [BufMap.abs]
    split
    · conv => rhs; rw [hL]
      exact (colourAt_drop_same R1 _ .recved x hs hR1).symm
    · rfl
  refine ⟨?_, by rw [he1], habs, ?_⟩
  · rw [he1]
    exact ⟨(sorted_append hs).2.1, fun r hr => hwf.lt_size r (by rw [hL]; simp [hr])⟩
  · rw [he2]
    unfold firstUnrecved
    symm
    rcases hcase with ⟨hnil, hnone⟩ | ⟨o, c, rest, hcons, hc, hsome⟩
    · simp only [hnone]
      apply least_unique' _ _ _ (Nat.le_refl _)
      · intro x hx
        rw [abs_of_lt m x hx, hL, hnil, List.append_nil, colourAt_same R1 .recved x hR1]
        rfl
      · intro h; omega
    · simp only [hsome]
      have hmem : (o, c) ∈ m.runs := by rw [hL, hcons]; simp
      have holt : o < m.size := hwf.lt_size _ hmem
      apply least_unique' _ _ _ (by omega)
      · intro x hx
        have := habs x
        rw [← this, he1]
        simp only [BufMap.abs]
        have hxs : x < m.size := by omega
        simp only [hxs, if_true, hcons]
        rw [colourAt_cons_lt o c rest _ x hx]
        rfl
      · intro _
        rw [abs_at_run m hwf o c hmem]
        simp [hc]

end GmQuic.BufMap
