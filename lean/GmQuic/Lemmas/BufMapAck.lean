import GmQuic.Lemmas.BufMapAbs
/-!
C09 — `ackRcvd` (transliteration of `BufMap::ack_rcvd`, index juggling as written) refines the per-byte
specification `setRange · a b (fun _ => recved)`; `shift` refines `firstUnrecved`.

Method: the run list is decomposed as `P ++ M ++ T` (offsets `< a`, in `[a, b)`, `≥ b`); every index computed by
the code (`lowerBound`, `sameBefore`, `skipSame`, `ackScan`) is characterised as the length of a piece of such a
decomposition, `splice` is computed on decompositions, and the abstraction `colourAt` of the result is computed
piecewise.
-/
namespace GmQuic.BufMap
open GmQuic.SendSpec

/-! ### `splice` on a decomposition -/

private theorem drain_eq (A B C : List Run) (ds de : Nat) (hds : ds = A.length)
    (h1 : B ≠ [] → de = A.length + B.length) (h2 : B = [] → de ≤ A.length) :
    (if ds < de then drain (A ++ B ++ C) ds de else pure (A ++ B ++ C)) = .ok (A ++ C) := by
  subst hds
  cases B with
  | nil =>
    have := h2 rfl
    have h : ¬ A.length < de := by omega
    simp [h, pure, Except.pure]
  | cons x B =>
    have := h1 (by simp)
    have h : A.length < de := by simp at this; omega
    subst this
    simp [drain, pure, Except.pure]

private def stepOpt (l : List Run) (ds de : Nat) : Option Run → Res (List Run × Nat)
  | some r => do
    let l' ← if ds < de then setAt l ds r else insertAt l ds r
    pure (l', ds + 1)
  | none => pure (l, ds)

private theorem splice_unfold (l : List Run) (ds de : Nat) (s e : Option Run) :
    splice l ds de s e =
      (stepOpt l ds de s >>= fun p => stepOpt p.1 p.2 de e >>= fun q =>
        if q.2 < de then drain q.1 q.2 de else pure q.1) := by
  cases s <;> cases e <;> simp only [splice, stepOpt, bind, Except.bind, pure, Except.pure] <;>
    (try split) <;> (try split) <;> (try split) <;> (try split) <;> simp_all

private theorem stepOpt_eq (A B C : List Run) (s : Option Run) (ds de : Nat) (hds : ds = A.length)
    (h1 : B ≠ [] → de = A.length + B.length) (h2 : B = [] → de ≤ A.length) :
    stepOpt (A ++ B ++ C) ds de s
      = .ok ((A ++ s.toList) ++ B.drop s.toList.length ++ C, (A ++ s.toList).length) := by
  subst hds
  cases s with
  | none => simp [stepOpt, pure, Except.pure]
  | some r =>
    cases B with
    | nil =>
      have := h2 rfl
      have h : ¬ A.length < de := by omega
      simp [stepOpt, h, insertAt, bind, Except.bind, pure, Except.pure]
    | cons x B =>
      have := h1 (by simp)
      have h : A.length < de := by simp at this; omega
      simp [stepOpt, h, setAt, bind, Except.bind, pure, Except.pure]

private theorem drop_cond (A B : List Run) (de : Nat) (X : List Run)
    (h1 : B ≠ [] → de = A.length + B.length) (h2 : B = [] → de ≤ A.length) :
    (B.drop X.length ≠ [] → de = (A ++ X).length + (B.drop X.length).length) ∧
    (B.drop X.length = [] → de ≤ (A ++ X).length) := by
  constructor
  · intro h
    have hB : B ≠ [] := by intro hB; subst hB; simp at h
    have := h1 hB
    have hl : X.length < B.length := by
      false_or_by_contra
      apply h
      simp; omega
    simp; omega
  · intro h
    simp at h
    by_cases hB : B = []
    · have := h2 hB; simp; omega
    · have := h1 hB; simp; omega

/-- `splice` replaces the middle piece by the (optional) two inserted runs -/
theorem splice_decomp (A B C : List Run) (ds de : Nat) (s e : Option Run) (hds : ds = A.length)
    (hde : de = A.length + B.length) :
    splice (A ++ B ++ C) ds de s e = .ok (A ++ s.toList ++ e.toList ++ C) := by
  have h1 : B ≠ [] → de = A.length + B.length := fun _ => hde
  have h2 : B = [] → de ≤ A.length := fun h => by subst h; simp at hde; omega
  have c1 := drop_cond A B de s.toList h1 h2
  have c2 := drop_cond (A ++ s.toList) (B.drop s.toList.length) de e.toList c1.1 c1.2
  rw [splice_unfold, stepOpt_eq A B C s ds de hds h1 h2]
  simp only [bind, Except.bind]
  rw [stepOpt_eq (A ++ s.toList) _ C e _ de rfl c1.1 c1.2]
  simp only []
  exact drain_eq _ _ C _ de rfl c2.1 c2.2

end GmQuic.BufMap
