import GmQuic.Lemmas.CidRemote
/-! C14 — accounting of RETIRE_CONNECTION_ID frames: every sequence number below `cursor` is either held by exactly one
cell or has been put into exactly one RETIRE_CONNECTION_ID frame (never both, never two).  Cell-level conservation
lemmas and the counting lemmas used by `CidSwitch.lean`. -/
namespace GmQuic.Cid

/-- sequence numbers a cell holds (`allocated_cids`, front = newest) -/
def Cell.seqs (c : Cell) : List Nat := c.alloc.map (·.1)

namespace Remote

/-- all sequence numbers held by some cell, with multiplicity -/
def held (s : Remote) : List Nat := s.cells.flatMap Cell.seqs

/-- how often `q` is accounted for: RETIRE_CONNECTION_ID frames carrying it + cells holding it -/
def acct (s : Remote) (q : Nat) : Nat := s.frames.count q + s.held.count q

end Remote

/-! ### lists -/

theorem count_range' (q : Nat) : ∀ (n a : Nat), (List.range' a n).count q = if a ≤ q ∧ q < a + n then 1 else 0 := by
  intro n
  induction n with
  | zero => intro a; simp
  | succ n ih =>
    intro a
    rw [List.range'_succ, List.count_cons, ih]
    by_cases h1 : a = q
    · subst h1
      have h2 : ¬ (a + 1 ≤ a ∧ a < a + 1 + n) := by omega
      have h3 : a ≤ a ∧ a < a + (n + 1) := by omega
      simp [h2, h3]
    · have : (a == q) = false := by simpa using h1
      simp only [this]
      by_cases h2 : a + 1 ≤ q ∧ q < a + 1 + n
      · have h3 : a ≤ q ∧ q < a + (n + 1) := by omega
        simp [h2, h3]
      · have h3 : ¬ (a ≤ q ∧ q < a + (n + 1)) := by omega
        simp [h2, h3]

theorem count_flatMap_set {α : Type} (f : α → List Nat) (q : Nat) :
    ∀ (l : List α) (i : Nat) (x : α) (h : i < l.length),
      ((l.set i x).flatMap f).count q + (f l[i]).count q = (l.flatMap f).count q + (f x).count q := by
  intro l
  induction l with
  | nil => intro i x h; simp at h
  | cons a rest ih =>
    intro i x h
    cases i with
    | zero => simp [List.flatMap_cons, List.count_append]; omega
    | succ i =>
      have := ih i x (by simpa using h)
      simp [List.flatMap_cons, List.count_append] at this ⊢
      omega

/-! ### cells: ids leave a cell only into RETIRE frames -/

namespace Cell

theorem shrink_count (a : List (Nat × Cid)) (q : Nat) :
    ((shrink a).1.map (·.1)).count q + (shrink a).2.count q = (a.map (·.1)).count q := by
  cases a with
  | nil => simp [shrink]
  | cons x rest => simp [shrink, List.count_cons]; omega

theorem shrink_mem (a : List (Nat × Cid)) (q : Nat) (h : q ∈ a.map (·.1)) :
    q ∈ (shrink a).1.map (·.1) ∨ q ∈ (shrink a).2 := by
  cases a with
  | nil => simp at h
  | cons x rest =>
    simp [shrink] at h ⊢
    rcases h with h | h
    · exact Or.inl h
    · exact Or.inr h

/-- `shrink` keeps the front -/
theorem shrink_head (x : Nat × Cid) (rest : List (Nat × Cid)) : (shrink (x :: rest)).1 = [x] := rfl

theorem assign_count (c : Cell) (seq : Nat) (cid : Cid) (q : Nat) :
    (c.assign seq cid).1.seqs.count q + (c.assign seq cid).2.count q = c.seqs.count q + (if seq = q then 1 else 0) := by
  unfold assign seqs
  split
  · simp [List.count_cons]
  · have := shrink_count ((seq, cid) :: c.alloc) q
    simp only [List.map_cons, List.count_cons] at this
    simp only
    rw [this]
    simp

theorem assign_mem (c : Cell) (seq : Nat) (cid : Cid) (q : Nat) (h : q ∈ c.seqs) :
    q ∈ (c.assign seq cid).1.seqs ∨ q ∈ (c.assign seq cid).2 := by
  unfold assign seqs at *
  split
  · left; simp; right; simpa using h
  · exact shrink_mem _ q (by simp; right; simpa using h)

/-- after `assign` the new id is the front -/
theorem assign_head (c : Cell) (seq : Nat) (cid : Cid) : ∃ rest, (c.assign seq cid).1.alloc = (seq, cid) :: rest := by
  unfold assign
  split
  · exact ⟨c.alloc, rfl⟩
  · exact ⟨[], rfl⟩

theorem renew_count (c c' : Cell) (fr : List Nat) (h : c.renew = some (c', fr)) (q : Nat) :
    c'.seqs.count q + fr.count q = c.seqs.count q := by
  unfold renew at h
  split at h
  · simp only [Option.some.injEq, Prod.mk.injEq] at h
    obtain ⟨rfl, rfl⟩ := h
    exact shrink_count c.alloc q
  · cases h

theorem renew_mem (c c' : Cell) (fr : List Nat) (h : c.renew = some (c', fr)) (q : Nat) (hq : q ∈ c.seqs) :
    q ∈ c'.seqs ∨ q ∈ fr := by
  unfold renew at h
  split at h
  · simp only [Option.some.injEq, Prod.mk.injEq] at h
    obtain ⟨rfl, rfl⟩ := h
    exact shrink_mem c.alloc q hq
  · cases h

/-- `renew` keeps the front id and clears `is_using` -/
theorem renew_alloc (c c' : Cell) (fr : List Nat) (h : c.renew = some (c', fr)) :
    c'.inUse = false ∧ c'.alloc = (shrink c.alloc).1 ∧ fr = (shrink c.alloc).2 := by
  unfold renew at h
  split at h
  · simp only [Option.some.injEq, Prod.mk.injEq] at h
    obtain ⟨rfl, rfl⟩ := h
    exact ⟨rfl, rfl, rfl⟩
  · cases h

theorem retire_count (c : Cell) (q : Nat) : c.retire.1.seqs.count q + c.retire.2.count q = c.seqs.count q := by
  unfold retire seqs
  split
  · simp
  · simp

theorem retire_mem (c : Cell) (q : Nat) (hq : q ∈ c.seqs) : q ∈ c.retire.1.seqs ∨ q ∈ c.retire.2 := by
  unfold retire seqs at *
  split
  · left; exact hq
  · right; exact hq

theorem retire_retired (c : Cell) : c.retire.1.retired = true := by
  unfold retire
  split
  · rename_i h; exact h
  · rfl

theorem borrow_alloc (c : Cell) : c.borrow.1.alloc = c.alloc := by
  unfold borrow
  split
  · rfl
  · split <;> rfl

end Cell

/-! ### the state -/

namespace Remote

theorem cell_lt (s : Remote) (i : Nat) (h : i < s.cells.length) : s.cell i = s.cells[i] := by
  unfold cell; simp [h]

theorem cell_ge (s : Remote) (i : Nat) (h : s.cells.length ≤ i) : s.cell i = Cell.fresh := by
  unfold cell; simp [h]

/-- replacing cell `i` by `c'` and emitting the frames `fr` -/
theorem acct_of_set (s s' : Remote) (i : Nat) (c' : Cell) (fr : List Nat) (q : Nat) (h : i < s.cells.length)
    (hc : s'.cells = s.cells.set i c') (hf : s'.frames = s.frames ++ fr) :
    s'.acct q + (s.cell i).seqs.count q = s.acct q + c'.seqs.count q + fr.count q := by
  unfold acct held
  rw [hc, hf, cell_lt s i h, List.count_append]
  have := count_flatMap_set Cell.seqs q s.cells i c' h
  omega

theorem acct_of_eq (s s' : Remote) (fr : List Nat) (q : Nat) (hc : s'.cells = s.cells) (hf : s'.frames = s.frames ++ fr) :
    s'.acct q = s.acct q + fr.count q := by
  unfold acct held
  rw [hc, hf, List.count_append]
  omega

/-- ids leave a cell only into RETIRE_CONNECTION_ID frames, and frames are only ever appended -/
structure Leaves (s s' : Remote) : Prop where
  frames : ∃ extra, s'.frames = s.frames ++ extra
  mem : ∀ c q, q ∈ (s.cell c).seqs → q ∈ (s'.cell c).seqs ∨ q ∈ s'.frames

theorem Leaves.refl (s : Remote) : Leaves s s := ⟨⟨[], by simp⟩, fun _ _ h => Or.inl h⟩

theorem Leaves.trans {a b c : Remote} (h1 : Leaves a b) (h2 : Leaves b c) : Leaves a c := by
  obtain ⟨e1, he1⟩ := h1.frames
  obtain ⟨e2, he2⟩ := h2.frames
  refine ⟨⟨e1 ++ e2, by rw [he2, he1, List.append_assoc]⟩, fun i q hq => ?_⟩
  rcases h1.mem i q hq with h | h
  · exact h2.mem i q h
  · right; rw [he2]; exact List.mem_append_left _ h

theorem Leaves.of_cells_eq {s s' : Remote} (hc : s'.cells = s.cells) (hf : ∃ extra, s'.frames = s.frames ++ extra) :
    Leaves s s' :=
  ⟨hf, fun c q h => Or.inl (by unfold cell at *; rw [hc]; exact h)⟩

/-- cell `i` replaced by `c'`, frames `fr` emitted, where every id of the old cell is in `c'` or in `fr` -/
theorem Leaves.of_set {s s' : Remote} (i : Nat) (c' : Cell) (fr : List Nat)
    (hc : s'.cells = s.cells.set i c') (hf : s'.frames = s.frames ++ fr)
    (hm : ∀ q, q ∈ (s.cell i).seqs → q ∈ c'.seqs ∨ q ∈ fr) : Leaves s s' := by
  refine ⟨⟨fr, hf⟩, fun c q hq => ?_⟩
  have hcell : s'.cell c = (s.setCell i c').cell c := by unfold cell setCell; rw [hc]
  rw [hcell, cell_setCell]
  split
  · rename_i h
    obtain ⟨rfl, _⟩ := h
    rcases hm q hq with h' | h'
    · exact Or.inl h'
    · right; rw [hf]; exact List.mem_append_right _ h'
  · exact Or.inl hq

end Remote

end GmQuic.Cid
