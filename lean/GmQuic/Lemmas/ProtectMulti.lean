import GmQuic.Lemmas.ProtectState
/-! C06: multi-packet ideal integrity (INT-CTXT relative to the LIST of sealed tuples) and a lookup-table cipher. -/
namespace GmQuic.Protect
open GmQuic.Wire GmQuic.Pn

/-- one sealed AEAD input: key, nonce (packet number), associated data, plaintext -/
structure Sealed (K : Type) where
  k : K
  n : Nat
  a : Bytes
  p : Bytes

/-- AEAD correctness on everything that was sealed -/
def CorrectOver {K : Type} (A : Aead K) (S : List (Sealed K)) : Prop :=
  ∀ x ∈ S, A.aopen x.k x.n x.a (A.aseal x.k x.n x.a x.p) = some x.p

/-- Ideal integrity relative to the list `S` of sealed tuples (INT-CTXT idealised, any number of packets, any keys —
hence across key updates): whatever opens, under whatever key, was sealed — same key, nonce, AAD, and the
ciphertext is bit for bit the one that was produced.  Satisfiable together with `CorrectOver S` for every `S`
(`tableAead`).  A hypothesis, never an axiom. -/
def IdealOver {K : Type} (A : Aead K) (S : List (Sealed K)) : Prop :=
  ∀ k n a c p, A.aopen k n a c = some p → ∃ x ∈ S, x.k = k ∧ x.n = n ∧ x.a = a ∧ x.p = p ∧ c = A.aseal k n a p

/-- the single-packet game is the instance `S = [x]` -/
theorem idealFor_of_idealOver {K : Type} (A : Aead K) (k : K) (n : Nat) (a p : Bytes)
    (h : IdealOver A [⟨k, n, a, p⟩]) : IdealFor A k n a p := by
  intro k' n' a' c' ho
  cases hp : A.aopen k' n' a' c' with
  | none => exact absurd hp ho
  | some p' =>
    obtain ⟨x, hx, h1, h2, h3, h4, h5⟩ := h _ _ _ _ _ hp
    simp only [List.mem_singleton] at hx
    subst hx
    simp only at h1 h2 h3 h4
    subst h1 h2 h3 h4
    exact ⟨rfl, rfl, rfl, h5⟩

theorem idealOver_of_idealFor {K : Type} (A : Aead K) (k : K) (n : Nat) (a p : Bytes)
    (hc : CorrectAt A k n a p) (h : IdealFor A k n a p) : IdealOver A [⟨k, n, a, p⟩] := by
  intro k' n' a' c' p' ho
  obtain ⟨rfl, rfl, rfl, rfl⟩ := h k' n' a' c' (by rw [ho]; simp)
  have : some p' = some p := by rw [← ho]; exact hc
  refine ⟨⟨k', n', a', p⟩, by simp, rfl, rfl, rfl, (Option.some.inj this).symm, ?_⟩
  rw [Option.some.inj this]

/-- a lookup-table cipher: seals like `A`, opens exactly the table entries -/
def tableAead {K : Type} [DecidableEq K] (A : Aead K) (S : List (Sealed K)) : Aead K :=
  { A with aopen := fun k n a c =>
      (S.find? (fun x => decide (x.k = k ∧ x.n = n ∧ x.a = a ∧ c = A.aseal k n a x.p))).map (·.p) }

theorem tableAead_idealOver {K : Type} [DecidableEq K] (A : Aead K) (S : List (Sealed K)) :
    IdealOver (tableAead A S) S := by
  intro k n a c p ho
  simp only [tableAead, Option.map_eq_some_iff] at ho
  obtain ⟨x, hf, hp⟩ := ho
  have hm := List.mem_of_find?_eq_some hf
  have hx := List.find?_some hf
  simp only [decide_eq_true_eq] at hx
  refine ⟨x, hm, hx.1, hx.2.1, hx.2.2.1, hp, ?_⟩
  rw [← hp]; exact hx.2.2.2

theorem tableAead_correctOver {K : Type} [DecidableEq K] (A : Aead K) (S : List (Sealed K))
    (hinj : ∀ k n a p p', A.aseal k n a p = A.aseal k n a p' → p = p') :
    CorrectOver (tableAead A S) S := by
  intro x hx
  simp only [tableAead]
  have hsome : (S.find? (fun y => decide (y.k = x.k ∧ y.n = x.n ∧ y.a = x.a ∧ A.aseal x.k x.n x.a x.p = A.aseal x.k x.n x.a y.p))).isSome := by
    rw [List.find?_isSome]
    exact ⟨x, hx, by simp⟩
  obtain ⟨y, hy⟩ := Option.isSome_iff_exists.mp hsome
  rw [hy]
  have hyp := List.find?_some hy
  simp only [decide_eq_true_eq] at hyp
  simp only [Option.map_some, Option.some.injEq]
  exact (hinj _ _ _ _ _ hyp.2.2.2).symm

/-- The receiver opened something whose AAD and ciphertext are those of a packet the sender produced: it is that packet. -/
theorem opened_eq_sealed {K H : Type} (A : Aead K) (P : Hp H) (c : RxCfg K H) (k : K) (t : TxPkt)
    (pkt : Bytes) (off : Nat) (w : WfHdr t)
    (hp : protect A P k (c.hpKey t.ptype) t = .ok pkt off)
    (buf' : Bytes) (off' : Nat) (sp' : Split) (ty' : PType)
    (hs : split buf' off' = some sp') (hty : typeOfFirst sp'.first = some ty')
    (ha : (unmask (P.mask (c.hpKey ty') (sp'.tail.take 16)) sp').aad sp' = aadOf A.tagLen t)
    (hc : (unmask (P.mask (c.hpKey ty') (sp'.tail.take 16)) sp').ct sp' = A.aseal k t.pn (aadOf A.tagLen t) t.body) :
    buf' = pkt ∧ off' = off ∧ ty' = t.ptype := by
  obtain ⟨sp, v⟩ := protect_view A P k (c.hpKey t.ptype) t pkt off w hp
  have s' := split_some hs
  have s0 := split_some v.hsplit
  have heq : sp' = sp :=
    unmask_inj (fun ty smp => P.mask (c.hpKey ty) smp) sp' sp ty' t.ptype s'.2.2.1 v.h4 hty v.hty
      (by rw [ha, v.haad]) (by rw [hc, v.hct])
  subst heq
  refine ⟨by rw [← s'.1, s0.1], by rw [← s'.2.1, s0.2.1], ?_⟩
  have := v.hty; rw [hty] at this; exact Option.some.inj this

end GmQuic.Protect
