import GmQuic.Lemmas.StreamWinC
/-!
C01 liveness with flow control, part 4: the flow-control hypothesis is an INVARIANT of every no-abort history with an
honest network (`HOp`) from `init w w`, `w > 0` — so `WinOk` is discharged for every such history.
-/
namespace GmQuic.Stream
open GmQuic.RecvBuf (Bytes covered)

/-- what `Recv::poll_read` and `update_window` maintain: the advertised limit exceeds what was read (or has reached the
largest encodable value), and the sender is `Synced` — until a FIN-bearing frame exists (then the whole stream is
inside the window anyway). -/
def WInv (s : Stream) : Prop :=
  HasFin s.emitted ∨ ((s.rcv.buf.nread < s.rcv.maxSD ∨ varintMax ≤ s.rcv.maxSD) ∧ Synced s)

theorem winv_init (w : Nat) (h : 0 < w) : WInv (Stream.init w w) :=
  Or.inr ⟨Or.inl h, Or.inl rfl⟩

theorem hasFin_mono {s t : Stream} (m : Mono s t) (h : HasFin s.emitted) : HasFin t.emitted := by
  obtain ⟨f, hm, hf⟩ := h
  obtain ⟨i, hi⟩ := List.getElem?_of_mem hm
  exact ⟨f, List.mem_of_getElem? (m.em i f hi), hf⟩

theorem winv_sameW {s t : Stream} (h : SameW s t) (he : HasFin s.emitted → HasFin t.emitted) (w : WInv s) : WInv t := by
  rcases w with w | ⟨p, q⟩
  · exact Or.inl (he w)
  · right
    refine ⟨by rw [h.nr, h.sd]; exact p, ?_⟩
    unfold Synced at *
    rw [h.md, h.sd, h.ms]; exact q

theorem write_maxData (s : Sender) (bs : Bytes) : (s.write bs).1.maxData = s.maxData := by
  unfold Sender.write
  cases s.err <;> cases s.st <;> simp <;> split <;> rfl

theorem touch_maxData (s : Sender) : s.touch.maxData = s.maxData := by
  unfold Sender.touch; split <;> rfl

theorem winv_coop_net {s : Stream} (hr : Reach s) {op : Op} (hc : op.coop = true) (hn : op.net = true) (w : WInv s) :
    WInv (s.step op) :=
  winv_sameW (sameW_step s hn) (hasFin_mono (mono_step hr hc)) w

theorem winv_read {s : Stream} (hf : Fair s) (cap : Nat) (w : WInv s) : WInv (s.step (.read cap)) := by
  rcases w with w | ⟨p, q⟩
  · exact Or.inl (hasFin_mono (mono_step hf.reach (op := .read cap) rfl) w)
  · by_cases hfin : HasFin s.emitted
    · exact Or.inl (hasFin_mono (mono_step hf.reach (op := .read cap) rfl) hfin)
    · right
      have hrecv : s.rcv.st = .recv := by
        have hns : ¬ Sized s.rcv := fun hz => hfin (hf.reach.inv.b3 hz).1
        obtain ⟨_, r1, r2⟩ := hf.rcv
        unfold Sized at hns
        cases hx : s.rcv.st
        · rfl
        · exact absurd (Or.inl hx) hns
        · exact absurd (Or.inr (Or.inl hx)) hns
        · exact absurd (Or.inr (Or.inr hx)) hns
        · exact absurd hx r1
        · exact absurd hx r2
      obtain ⟨hrcv, hmsd⟩ := step_read_fields s cap
      have hsnd := step_read_snd s cap
      rcases read_recv_w s.rcv cap hf.rcv.1 hrecv with ⟨m0, sd0, dj⟩ | ⟨v, m1, sd1, lt1, ev⟩
      · rw [m0] at hmsd
        refine ⟨?_, ?_⟩
        · rw [hrcv, sd0]
          rcases dj with d | d | d
          · left; unfold msdThreshold at d; omega
          · exact Or.inr d
          · have hb : (s.rcv.read cap).1.buf = s.rcv.buf := by
              rw [read_recv_buf s.rcv cap hf.rcv.1 hrecv, d]; simp
            rw [hb]; exact p
        · unfold Synced at *
          rw [hsnd, hrcv, sd0, hmsd]; exact q
      · rw [m1] at hmsd
        refine ⟨?_, ?_⟩
        · rw [hrcv, sd1, ev]
          by_cases hle : (s.rcv.read cap).1.buf.nread + msdThreshold * 2 ≤ varintMax
          · left; rw [Nat.min_eq_left hle]; unfold msdThreshold; omega
          · right; rw [Nat.min_eq_right (by omega)]; exact Nat.le_refl _
        · right
          rw [hmsd, hrcv, sd1]; simp

theorem winv_msd {s : Stream} (hf : Fair s) (i : Nat) (w : WInv s) : WInv (s.step (.deliverMsd i)) := by
  cases hm : s.msds[i]? with
  | none => simp only [Stream.step, hm]; exact w
  | some m =>
    rw [step_msd_some hm]
    rcases w with w | ⟨p, q⟩
    · exact Or.inl w
    · right
      refine ⟨p, ?_⟩
      have hle : m ≤ s.rcv.maxSD := hf.reach.inv.b9.2 m (List.mem_of_getElem? hm)
      rcases q with e | e
      · left
        show (s.snd.updateWindow m).maxData = s.rcv.maxSD
        have : (s.snd.updateWindow m) = s.snd := by
          unfold Sender.updateWindow
          have : ¬ m > s.snd.maxData := by omega
          cases s.snd.err <;> cases s.snd.st <;> simp [this]
        rw [this]; exact e
      · exact Or.inr e

theorem winv_step {s : Stream} (hf : Fair s) (o : HOp) (w : WInv s) : WInv (s.run o.ops) := by
  cases o with
  | write bs =>
    show WInv (s.step (.write bs))
    exact winv_sameW (s := s) (t := s.step (.write bs)) ⟨rfl, rfl, rfl, write_maxData s.snd bs⟩ id w
  | shutdown => exact winv_coop_net hf.reach (op := .shutdown) rfl rfl w
  | pick off len => exact winv_coop_net hf.reach (op := .pick off len) rfl rfl w
  | touch =>
    show WInv (s.step .touch)
    exact winv_sameW (s := s) (t := s.step .touch) ⟨rfl, rfl, rfl, touch_maxData s.snd⟩ id w
  | deliver i => exact winv_coop_net hf.reach (op := .deliver i) rfl rfl w
  | deliverAck i =>
    have h1 : Fair (s.step (.deliver i)) := fair_step hf (.deliver i)
    have w1 := winv_coop_net hf.reach (op := .deliver i) rfl rfl w
    exact winv_coop_net h1.reach (op := .ack i) rfl rfl w1
  | lose i => exact winv_coop_net hf.reach (op := .lose i) rfl rfl w
  | read cap => exact winv_read hf cap w
  | deliverMsd i => exact winv_msd hf i w

theorem winv_run {s : Stream} (hf : Fair s) (w : WInv s) (l : List HOp) : WInv (s.run (hops l)) := by
  induction l generalizing s with
  | nil => exact w
  | cons o l ih =>
    simp only [hops, List.flatMap_cons, run_append]
    exact ih (fair_step hf o) (winv_step hf o w)

/-- the invariant gives the hypothesis of the windowed liveness theorem -/
theorem winOk_of_winv {s : Stream} (hr : Reach s) (hlen : s.snd.written.length < varintMax) (w : WInv s) : WinOk s := by
  rcases w with w | ⟨p, q⟩
  · left
    have h1 := (hr.inv.a4 w).2.2.2
    have h2 := hr.inv.a2.2
    omega
  · right
    refine ⟨?_, q⟩
    rcases p with p | p
    · exact p
    · have a := hr.inv.b1.nread_le
      have b := hr.inv.b1.largest_le
      omega

/-! ### a schedule of rounds is a finite list of cooperative operations -/

/-- the operations of the windowed cooperative schedule: those of the suffix, and delivery of MAX_STREAM_DATA -/
def Op.coopW : Op → Bool
  | .deliverMsd _ => true
  | op => op.coop

theorem coopW_of_coop {op : Op} (h : op.coop = true) : op.coopW = true := by
  cases op <;> first | rfl | cases h

theorem wround_ops (cap : Nat) (s : Stream) (c : Choice) :
    ∃ ops : List Op, wround cap s c = s.run ops ∧ ∀ op ∈ ops, op.coopW = true := by
  let s2 := s.run (.shutdown :: settleOps c.1 (List.range s.emitted.length))
  let s3 := s2.run (pickOps c.2)
  let tail := settleOps (fun _ => true) (List.range' s.emitted.length (s3.emitted.length - s.emitted.length)) ++ [Op.read cap]
  let s5 := s3.run tail
  refine ⟨(.shutdown :: settleOps c.1 (List.range s.emitted.length)) ++ pickOps c.2 ++ tail ++
    [.deliverMsd (s5.msds.length - 1)], ?_, ?_⟩
  · simp only [run_append]; rfl
  · intro op hm
    rcases List.mem_append.mp hm with e | e
    · apply coopW_of_coop
      rcases List.mem_append.mp e with e | e
      · rcases List.mem_append.mp e with e | e
        · rcases List.mem_cons.mp e with e | e
          · subst e; rfl
          · exact settle_coop _ _ op e
        · exact pickOps_coop _ op e
      · rcases List.mem_append.mp e with e | e
        · exact settle_coop _ _ op e
        · simp at e; subst e; rfl
    · simp at e; subst e; rfl

theorem sched_ops (cap : Nat) (cs : List Choice) : ∀ s : Stream,
    ∃ ops : List Op, cs.foldl (wround cap) s = s.run ops ∧ ∀ op ∈ ops, op.coopW = true := by
  induction cs with
  | nil => intro s; exact ⟨[], rfl, fun _ h => by cases h⟩
  | cons c cs ih =>
    intro s
    obtain ⟨o1, e1, c1⟩ := wround_ops cap s c
    obtain ⟨o2, e2, c2⟩ := ih (wround cap s c)
    refine ⟨o1 ++ o2, ?_, ?_⟩
    · rw [List.foldl_cons, e2, e1, run_append]
    · intro op hm
      rcases List.mem_append.mp hm with e | e
      · exact c1 op e
      · exact c2 op e

end GmQuic.Stream
