import GmQuic.Model.WakeCid
namespace GmQuic.Wake.Cid

structure Inv (s : State) : Prop where
  a : s.wpc = .asleep → s.woken = false → s.bit = false ∧ s.registered = true
  c : s.wpc = .asleep → s.woken = true → s.bit = true
  b : (s.wpc = .c1 ∨ s.wpc = .asleep) → cond s → s.bit = true
  d : (s.wpc = .c1 ∨ s.wpc = .asleep) → ¬ cond s → s.cellWaker = true

theorem inv_init : Inv init := by constructor <;> simp [init]

theorem inv_step (s : State) (op : Op) (h : Inv s) : Inv (step s op) := by
  obtain ⟨ha, hc, hb, hd⟩ := h
  cases op with
  | waiter =>
    cases hp : s.wpc <;> simp only [step, hp] <;> (try split) <;> (try split) <;> constructor <;>
      simp_all [cond] <;> grind
  | restart => simp only [step]; constructor <;> simp_all
  | assign =>
    simp only [step, takeWakeBy]; split <;> (try split) <;> constructor <;> simp_all [cond, wakeBy] <;> grind
  | retire =>
    simp only [step, takeWakeBy]; split <;> (try split) <;> constructor <;> simp_all [cond, wakeBy] <;> grind

theorem run_inv (sched : List Op) : Inv (run sched) := by
  have : ∀ s, Inv s → Inv (sched.foldl step s) := by
    induction sched with
    | nil => intro s h; exact h
    | cons op rest ih => intro s h; exact ih _ (inv_step s op h)
  exact this init inv_init

end GmQuic.Wake.Cid
