import GmQuic.Lemmas.JsonShape
/-! C20: lookup / key-set lemmas for the struct and flatten cases of `de_ser`. -/
namespace GmQuic.Model.Json

theorem lookup_append (k : String) (a b : Kvs) :
    lookup k (a ++ b) = (match lookup k a with | some j => some j | none => lookup k b) := by
  induction a with
  | nil => simp [lookup]
  | cons hd tl ih =>
      obtain ⟨k', j⟩ := hd
      by_cases h : k' = k <;> simp [lookup, h, ih]

theorem lookup_none_of_not_mem (k : String) (a : Kvs) (h : k ∉ keys a) : lookup k a = none := by
  induction a with
  | nil => simp [lookup]
  | cons hd tl ih =>
      obtain ⟨k', j⟩ := hd
      simp [keys] at h
      have h1 : ¬ k' = k := fun e => h.1 e.symm
      simp [lookup, h1]
      exact ih (by simpa [keys] using h.2)

theorem lookup_append_left (k : String) (a b : Kvs) (h : k ∉ keys b) : lookup k (a ++ b) = lookup k a := by
  rw [lookup_append, lookup_none_of_not_mem k b h]; cases lookup k a <;> rfl

theorem lookup_append_right (k : String) (a b : Kvs) (h : k ∉ keys a) : lookup k (a ++ b) = lookup k b := by
  rw [lookup_append, lookup_none_of_not_mem k a h]

theorem keys_append (a b : Kvs) : keys (a ++ b) = keys a ++ keys b := by simp [keys]

theorem disjointB_spec {a b : List String} (h : disjointB a b = true) : ∀ x ∈ a, x ∉ b := by
  intro x hx; simp [disjointB] at h; exact h x hx

theorem disjointN_spec {a b : List Nat} (h : disjointN a b = true) : ∀ x ∈ a, x ∉ b := by
  intro x hx; simp [disjointN] at h; exact h x hx

/- the keys a typed value writes are a sublist (same order, some omitted) of the declared names -/
mutual
theorem keys_ser_sublist : ∀ (s : Schema) (v : Val), wf s = true → flattenable s = true → hasType s v = true →
    List.Sublist (keys (objKvs (ser s v))) (namesOf s)
  | .struct fs rest, v, hw, hf, ht => by
      cases rest <;> simp [flattenable] at hf
      simp only [wf, Bool.and_eq_true] at hw
      cases v <;> simp [hasType] at ht
      rename_i vs r
      obtain ⟨h1, h2⟩ := ht
      subst h2
      simpa [ser, objKvs, namesOf] using keys_serFields_sublist fs vs hw.1 h1
  | .adjacent t c alts, v, _, _, ht => by
      cases v <;> simp [hasType] at ht
      simp [ser, objKvs, namesOf, keys]
  | .bool, _, _, hf, _ | .int _ _, _, _, hf, _ | .flt, _, _, hf, _ | .str, _, _, hf, _ | .hex _ _, _, _, hf, _
  | .any, _, _, hf, _ | .opt _, _, _, hf, _ | .seq _ _, _, _, hf, _ | .map, _, _, hf, _ | .unitEnum _, _, _, hf, _
  | .untagged _, _, _, hf, _ | .internal _ _, _, _, hf, _ | .refine _ _, _, _, hf, _ => by simp [flattenable] at hf
theorem keys_serFields_sublist : ∀ (fs : Fields) (vs : List Val), wfFields fs = true → typedFields fs vs = true →
    List.Sublist (keys (serFields fs vs)) (allNames fs)
  | .nil, _, _, _ => by simp [serFields, keys]
  | .cons name kind s tl, vs, hw, ht => by
      cases vs with
      | nil => simp [serFields, keys]
      | cons v vs' =>
        simp only [typedFields, Bool.and_eq_true] at ht
        simp only [wfFields, Bool.and_eq_true] at hw
        have ih := keys_serFields_sublist tl vs' hw.2 ht.2
        simp only [serFields, allNames, keys_append]
        refine List.Sublist.append ?_ ih
        cases kind with
        | req => simp [keys]
        | opt => cases v <;> simp [keys]
        | optNull => cases v <;> simp [keys]
        | skipEmpty d => by_cases he : isEmptyVal v = true <;> simp [he, keys]
        | flat =>
            exact keys_ser_sublist s v hw.1.1 (by simpa [kindOk] using hw.1.2) ht.1
end

end GmQuic.Model.Json
