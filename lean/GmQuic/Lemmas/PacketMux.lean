import GmQuic.Lemmas.PacketDec
/-!
C03 helper lemmas: exact consumption of the forward header parser of `qtraversal/src/packet.rs`.
-/
namespace GmQuic.PacketDec
open GmQuic.Wire GmQuic.Codec

theorem pBeC_exact (w : Nat) (bs : Bytes) (a : Nat) (r : Bytes) (h : pBeC w bs = .ok a r) : r.length + w = bs.length := by
  unfold pBeC at h
  split at h
  · cases h
  · cases h; simp; omega

theorem pSockAddr_exact (v6 : Bool) (bs : Bytes) (a : SockAddr) (r : Bytes) (h : pSockAddr v6 bs = .ok a r) :
    a.v6 = v6 ∧ r.length + (if v6 then 18 else 6) = bs.length := by
  unfold pSockAddr at h
  cases hp : pBeC 2 bs with
  | ok p r2 =>
    rw [hp] at h; simp only [Res.bind] at h
    cases hi : pBeC (if v6 = true then 16 else 4) r2 with
    | ok i r3 =>
      rw [hi] at h; simp only at h; cases h
      have h1 := pBeC_exact _ _ _ _ hp
      have h2 := pBeC_exact _ _ _ _ hi
      refine ⟨rfl, ?_⟩
      cases v6 <;> simp at h2 ⊢ <;> omega
    | err k => rw [hi] at h; cases h
    | panic s => rw [hi] at h; cases h
  | err k => rw [hp] at h; cases h
  | panic s => rw [hp] at h; cases h

theorem pEndpoint_exact (relay v6 : Bool) (bs : Bytes) (e : Endpoint) (r : Bytes) (h : pEndpoint relay v6 bs = .ok e r) :
    ∃ n, e.encSize = some n ∧ r.length + n = bs.length ∧
      (relay = true → ∃ a o, e = .agent a o) ∧ (relay = false → ∃ a, e = .direct a) := by
  unfold pEndpoint at h
  split at h
  · rename_i hr
    cases ha : pSockAddr v6 bs with
    | ok a r2 =>
      rw [ha] at h; simp only [Res.bind] at h
      cases ho : pSockAddr v6 r2 with
      | ok o r3 =>
        rw [ho] at h; simp only at h; cases h
        have h1 := pSockAddr_exact _ _ _ _ ha
        have h2 := pSockAddr_exact _ _ _ _ ho
        refine ⟨if v6 then 36 else 12, ?_, ?_, fun _ => ⟨a, o, rfl⟩, fun hf => by rw [hr] at hf; cases hf⟩
        · simp [Endpoint.encSize, h1.1, h2.1]
        · cases v6 <;> simp at h1 h2 ⊢ <;> omega
      | err k => rw [ho] at h; cases h
      | panic s => rw [ho] at h; cases h
    | err k => rw [ha] at h; cases h
    | panic s => rw [ha] at h; cases h
  · rename_i hr
    cases ha : pSockAddr v6 bs with
    | ok a r2 =>
      rw [ha] at h; simp only [Res.map] at h; cases h
      have h1 := pSockAddr_exact _ _ _ _ ha
      refine ⟨if v6 then 18 else 6, ?_, h1.2, fun ht => absurd ht hr, fun _ => ⟨a, rfl⟩⟩
      simp [Endpoint.encSize, h1.1]
    | err k => rw [ha] at h; cases h
    | panic s => rw [ha] at h; cases h

/-- a parsed forward header is `1 + 1 + src + dst` bytes long -/
theorem tHeader_forward (bs : Bytes) (flag : Nat) (src dst : Endpoint) (rest : Bytes)
    (h : tHeader bs = .ok (.forward flag src dst) rest) :
    ∃ a b, src.encSize = some a ∧ dst.encSize = some b ∧ rest.length + (1 + 1 + a + b) = bs.length := by
  unfold tHeader at h
  split at h
  · cases h
  · rename_i first r
    simp only at h
    split at h
    · split at h
      · cases h
      · split at h
        · cases h1 : pU8S (List.drop 4 r) with
          | ok a r1 =>
            rw [h1] at h; simp only [Res.bind] at h
            cases h2 : pU8S r1 with
            | ok b r2 => rw [h2] at h; simp only at h; split at h <;> cases h
            | err k => rw [h2] at h; cases h
            | panic s => rw [h2] at h; cases h
          | err k => rw [h1] at h; cases h
          | panic s => rw [h1] at h; cases h
        · cases h
    · split at h
      · cases h1 : pU8S r with
        | err k => rw [h1] at h; cases h
        | panic s => rw [h1] at h; cases h
        | ok fl r1 =>
          rw [h1] at h; simp only [Res.bind] at h
          have hr1 : r1.length + 1 = r.length := by
            unfold pU8S at h1; split at h1
            · cases h1
            · cases h1; simp
          cases hs : pEndpoint (fl / 2 % 2 == 1) (fl / 4 % 2 == 1) r1 with
          | err k => rw [hs] at h; cases h
          | panic s => rw [hs] at h; cases h
          | ok s' r2 =>
            rw [hs] at h; simp only at h
            cases hd : pEndpoint (fl % 2 == 1) (fl / 4 % 2 == 1) r2 with
            | err k => rw [hd] at h; cases h
            | panic s => rw [hd] at h; cases h
            | ok d' r3 =>
              rw [hd] at h; simp only at h; cases h
              obtain ⟨a, ha, hal, _⟩ := pEndpoint_exact _ _ _ _ _ hs
              obtain ⟨b, hb, hbl, _⟩ := pEndpoint_exact _ _ _ _ _ hd
              exact ⟨a, b, ha, hb, by simp only [List.length_cons]; omega⟩
      · cases h

end GmQuic.PacketDec
