import GmQuic.Model.Cid
/-! Lemmas about `LocalCids` (model `GmQuic.Cid.Local`). -/
namespace GmQuic.Cid.Local

theorem active_length_le (l : Local) : l.active.length ≤ l.dq.length := by
  unfold active; exact List.length_filterMap_le _ _

theorem active_le_largest (l : Local) : l.active.length ≤ l.largest := by
  have := active_length_le l; unfold largest; omega

@[simp] theorem issue_largest (l : Local) (c : Cid) : (l.issue c).1.largest = l.largest + 1 := by
  simp [issue, largest]; omega
@[simp] theorem issue_active (l : Local) (c : Cid) : (l.issue c).1.active = l.active ++ [c] := by
  simp [issue, active, List.filterMap_append]
@[simp] theorem issue_limit (l : Local) (c : Cid) : (l.issue c).1.limit = l.limit := rfl
@[simp] theorem issue_off (l : Local) (c : Cid) : (l.issue c).1.off = l.off := rfl
@[simp] theorem issue_dq (l : Local) (c : Cid) : (l.issue c).1.dq = l.dq ++ [some c] := rfl
@[simp] theorem issue_frame (l : Local) (c : Cid) : (l.issue c).2 = ⟨l.largest, l.off, c⟩ := rfl

theorem issueN_spec (n : Nat) : ∀ (l : Local) (next : Nat),
    (l.issueN next n).1.largest = l.largest + n ∧
    (l.issueN next n).1.active = l.active ++ (List.range' next n).map Cid.gen ∧
    (l.issueN next n).1.dq = l.dq ++ (List.range' next n).map (fun i => some (Cid.gen i)) ∧
    (l.issueN next n).1.limit = l.limit ∧ (l.issueN next n).1.off = l.off ∧
    (l.issueN next n).2.map (·.seq) = List.range' l.largest n ∧
    (l.issueN next n).2.map (·.cid) = (List.range' next n).map Cid.gen ∧
    (l.issueN next n).2.length = n := by
  induction n with
  | zero => intro l next; simp [issueN]
  | succ n ih =>
    intro l next
    have h := ih (l.issue (.gen next)).1 (next + 1)
    simp only [issueN, issue_largest, issue_active, issue_limit, issue_off, issue_dq] at h ⊢
    obtain ⟨h1, h2, h3, h4, h5, h6, h7, h8⟩ := h
    refine ⟨by rw [h1]; omega, ?_, ?_, h4, h5, ?_, ?_, by simp [h8]⟩
    · rw [h2]; simp [List.range'_succ]
    · rw [h3]; simp [List.range'_succ]
    · simp [h6, List.range'_succ]
    · simp [h7, List.range'_succ]

/-! ### `retire` -/

theorem leadingNone_le (dq : List (Option Cid)) : leadingNone dq ≤ dq.length := by
  induction dq with
  | nil => simp [leadingNone]
  | cons a t ih => cases a <;> simp [leadingNone]; omega

theorem filterMap_drop_leadingNone (dq : List (Option Cid)) :
    (dq.drop (leadingNone dq)).filterMap id = dq.filterMap id := by
  induction dq with
  | nil => simp [leadingNone]
  | cons a t ih => cases a <;> simp [leadingNone, ih]

theorem mem_drop_leadingNone (dq : List (Option Cid)) (c : Cid) :
    some c ∈ dq.drop (leadingNone dq) ↔ some c ∈ dq := by
  induction dq with
  | nil => simp [leadingNone]
  | cons a t ih => cases a <;> simp [leadingNone, ih]

theorem filterMap_set_none_length (dq : List (Option Cid)) (i : Nat) (old : Cid)
    (h : dq[i]? = some (some old)) :
    ((dq.set i none).filterMap id).length + 1 = (dq.filterMap id).length := by
  induction dq generalizing i with
  | nil => simp at h
  | cons a t ih =>
    cases i with
    | zero => simp at h; subst h; simp
    | succ i =>
      simp at h
      have := ih i h
      cases a <;> simp [List.set] <;> omega

/-- the `some`-members after `set i none`: the old ones except (one occurrence of) `old` -/
theorem mem_set_none (dq : List (Option Cid)) (i : Nat) (old c : Cid)
    (h : dq[i]? = some (some old)) (hnd : (dq.filterMap id).Nodup) :
    some c ∈ dq.set i none ↔ (some c ∈ dq ∧ c ≠ old) := by
  induction dq generalizing i with
  | nil => simp at h
  | cons a t ih =>
    cases i with
    | zero =>
      simp at h; subst h
      simp at hnd
      simp only [List.set_cons_zero, List.mem_cons]
      constructor
      · rintro (h | h)
        · cases h
        · refine ⟨Or.inr h, ?_⟩
          rintro rfl
          exact hnd.1 h
      · rintro ⟨h | h, hne⟩
        · cases h; exact absurd rfl hne
        · exact Or.inr h
    | succ i =>
      simp at h
      have hnd' : (t.filterMap id).Nodup := by
        cases a <;> simp at hnd <;> first | exact hnd | exact hnd.2
      have := ih i h hnd'
      simp only [List.set_cons_succ, List.mem_cons, this]
      constructor
      · rintro (h1 | ⟨h1, h2⟩)
        · refine ⟨Or.inl h1, ?_⟩
          rintro rfl
          subst h1
          simp at hnd
          exact hnd.1 (List.mem_of_getElem? h)
        · exact ⟨Or.inr h1, h2⟩
      · rintro ⟨h1 | h1, h2⟩
        · exact Or.inl h1
        · exact Or.inr ⟨h1, h2⟩

/-- everything `recv_retire_cid_frame` does when it retires an id -/
theorem retire_retired {l : Local} {seq : Nat} {c : Cid} {l' : Local} {old : Cid} {f : NewCid}
    (h : l.retire seq c = .retired l' old f) :
    l.off ≤ seq ∧ seq < l.largest ∧ l.dq[seq - l.off]? = some (some old) ∧
    f = ⟨l.largest, l.off + leadingNone (l.dq.set (seq - l.off) none), c⟩ ∧
    l'.dq = (l.dq.set (seq - l.off) none).drop (leadingNone (l.dq.set (seq - l.off) none)) ++ [some c] ∧
    l'.off = l.off + leadingNone (l.dq.set (seq - l.off) none) ∧
    l'.limit = l.limit := by
  unfold retire at h
  split at h; · cases h
  split at h; · cases h
  split at h
  · rename_i old' heq
    simp only [issue, RetireRes.retired.injEq] at h
    obtain ⟨h1, h2, h3⟩ := h
    subst h1 h2 h3
    refine ⟨by omega, by omega, heq, ?_, rfl, rfl, rfl⟩
    have := leadingNone_le (l.dq.set (seq - l.off) none)
    simp [largest] at this ⊢
    omega
  · cases h

theorem retire_largest {l : Local} {seq : Nat} {c : Cid} {l' : Local} {old : Cid} {f : NewCid}
    (h : l.retire seq c = .retired l' old f) : l'.largest = l.largest + 1 := by
  obtain ⟨_, _, _, _, hdq, hoff, _⟩ := retire_retired h
  have := leadingNone_le (l.dq.set (seq - l.off) none)
  simp [largest, hdq, hoff] at this ⊢
  omega

theorem retire_active_length {l : Local} {seq : Nat} {c : Cid} {l' : Local} {old : Cid} {f : NewCid}
    (h : l.retire seq c = .retired l' old f) : l'.active.length = l.active.length := by
  obtain ⟨_, _, hget, _, hdq, _, _⟩ := retire_retired h
  have h1 := filterMap_set_none_length l.dq (seq - l.off) old hget
  simp only [active, hdq, List.filterMap_append, filterMap_drop_leadingNone, List.length_append]
  simp
  omega

theorem retire_old_active {l : Local} {seq : Nat} {c : Cid} {l' : Local} {old : Cid} {f : NewCid}
    (h : l.retire seq c = .retired l' old f) : some old ∈ l.dq := by
  obtain ⟨_, _, hget, _⟩ := retire_retired h
  exact List.mem_of_getElem? hget

/-- membership after a retirement (ids in the deque pairwise distinct) -/
theorem retire_mem {l : Local} {seq : Nat} {c : Cid} {l' : Local} {old : Cid} {f : NewCid}
    (h : l.retire seq c = .retired l' old f) (hnd : l.active.Nodup) (x : Cid) :
    some x ∈ l'.dq ↔ (x = c ∨ (some x ∈ l.dq ∧ x ≠ old)) := by
  obtain ⟨_, _, hget, _, hdq, _, _⟩ := retire_retired h
  rw [hdq]
  simp only [List.mem_append, mem_drop_leadingNone, mem_set_none l.dq _ old x hget hnd,
    List.mem_singleton, Option.some.injEq]
  constructor
  · rintro (h | h); exact Or.inr h; exact Or.inl h
  · rintro (h | h); exact Or.inr h; exact Or.inl h

theorem retire_err_iff (l : Local) (seq : Nat) (c : Cid) :
    l.retire seq c = .errUnissued ↔ l.largest ≤ seq := by
  unfold retire
  split
  · simp; omega
  · split
    · simp; omega
    · split <;> simp <;> omega

theorem clear_dq (l : Local) : l.clear.1.dq = [] := rfl
theorem clear_largest (l : Local) : l.clear.1.largest = l.largest := by simp [clear, largest]
theorem clear_limit (l : Local) : l.clear.1.limit = l.limit := rfl


theorem filterMap_set_none_sublist (dq : List (Option Cid)) (i : Nat) :
    ((dq.set i none).filterMap id).Sublist (dq.filterMap id) := by
  induction dq generalizing i with
  | nil => simp
  | cons a t ih =>
    cases i with
    | zero => cases a <;> simp
    | succ i =>
      cases a
      · simpa using ih i
      · simpa using ih i

theorem retire_active {l : Local} {seq : Nat} {c : Cid} {l' : Local} {old : Cid} {f : NewCid}
    (h : l.retire seq c = .retired l' old f) :
    l'.active = ((l.dq.set (seq - l.off) none).filterMap id) ++ [c] := by
  obtain ⟨_, _, _, _, hdq, _, _⟩ := retire_retired h
  simp [active, hdq, List.filterMap_append, filterMap_drop_leadingNone]

theorem retire_active_nodup {l : Local} {seq : Nat} {c : Cid} {l' : Local} {old : Cid} {f : NewCid}
    (h : l.retire seq c = .retired l' old f) (hnd : l.active.Nodup) (hfresh : some c ∉ l.dq) :
    l'.active.Nodup := by
  rw [retire_active h]
  have hs := filterMap_set_none_sublist l.dq (seq - l.off)
  have h1 : ((l.dq.set (seq - l.off) none).filterMap id).Nodup := List.Nodup.sublist hs hnd
  have h2 : c ∉ (l.dq.set (seq - l.off) none).filterMap id := by
    intro hm
    have := hs.subset hm
    simp [List.mem_filterMap] at this
    exact hfresh this
  simp only [List.nodup_append, h1, List.nodup_cons, List.not_mem_nil, not_false_eq_true,
    List.nodup_nil, and_self, List.mem_cons, or_false, true_and]
  intro a ha b hb
  subst hb
  intro e; subst e; exact h2 ha

theorem retire_frame {l : Local} {seq : Nat} {c : Cid} {l' : Local} {old : Cid} {f : NewCid}
    (h : l.retire seq c = .retired l' old f) : f.seq = l.largest ∧ f.cid = c := by
  obtain ⟨_, _, _, hf, _⟩ := retire_retired h
  subst hf; exact ⟨rfl, rfl⟩

theorem range'_app (s m n : Nat) : List.range' s m ++ List.range' (s + m) n = List.range' s (m + n) := by
  induction m generalizing s with
  | zero => simp
  | succ m ih =>
    rw [List.range'_succ, List.cons_append, show s + (m + 1) = (s + 1) + m by omega, ih,
      show m + 1 + n = (m + n) + 1 by omega, List.range'_succ]

theorem setLimit_ok {l : Local} {next n : Nat} {l' : Local} {fs : List NewCid}
    (h : l.setLimit next n = .ok l' fs) :
    l.limit = none ∧ 2 ≤ n ∧ l'.limit = some n ∧
    l'.dq = l.dq ++ (List.range' next fs.length).map (fun i => some (Cid.gen i)) ∧
    l'.active = l.active ++ (List.range' next fs.length).map Cid.gen ∧
    l'.largest = l.largest + fs.length ∧ l'.off = l.off ∧
    fs.map (·.seq) = List.range' l.largest fs.length ∧
    fs.map (·.cid) = (List.range' next fs.length).map Cid.gen ∧
    fs.length = min n maxIssuedActiveCids - l.largest := by
  unfold setLimit at h
  split at h; · cases h
  rename_i hlim
  split at h; · cases h
  rename_i hn
  generalize hq : l.issueN next (setLimitCost l n) = q at h
  obtain ⟨l1, fs1⟩ := q
  simp only [SetLimitRes.ok.injEq] at h
  obtain ⟨rfl, rfl⟩ := h
  have hs := issueN_spec (setLimitCost l n) l next
  rw [hq] at hs
  simp only at hs
  obtain ⟨h1, h2, h3, h4, h5, h6, h7, h8⟩ := hs
  have hl : l.limit = none := by cases hl : l.limit <;> simp_all
  refine ⟨hl, by omega, rfl, ?_, ?_, ?_, h5, ?_, ?_, ?_⟩
  · simp only [h8]; exact h3
  · simp only [h8, active] at h2 ⊢; exact h2
  · simp only [h8, largest] at h1 ⊢; exact h1
  · simp only [h8]; exact h6
  · simp only [h8]; exact h7
  · simp only [h8, setLimitCost]

end GmQuic.Cid.Local
