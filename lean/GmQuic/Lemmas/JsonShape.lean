import GmQuic.Model.Json
/-! C20: the JSON kinds a schema can produce (`shape`) — `ser` stays inside, `de` rejects everything outside. -/
namespace GmQuic.Model.Json

mutual
theorem ser_kind : ∀ (s : Schema) (v : Val), hasType s v = true → kindOf (ser s v) ∈ shape s
  | .bool, v, h => by cases v <;> simp_all [hasType, ser, shape, kindOf]
  | .int _ _, v, h => by cases v <;> simp_all [hasType, ser, shape, kindOf]
  | .flt, v, h => by cases v <;> simp_all [hasType, ser, shape, kindOf]
  | .str, v, h => by cases v <;> simp_all [hasType, ser, shape, kindOf]
  | .hex _ _, v, h => by cases v <;> simp_all [hasType, ser, shape, kindOf]
  | .any, v, h => by
      cases v <;> simp_all [hasType, ser, shape]
      rename_i j; cases j <;> simp [kindOf]
  | .opt s, v, h => by
      cases v <;> simp_all [hasType, ser, shape, kindOf]
      rename_i x; exact Or.inr (ser_kind s x h)
  | .seq _ _, v, h => by cases v <;> simp_all [hasType, ser, shape, kindOf]
  | .map, v, h => by cases v <;> simp_all [hasType, ser, shape, kindOf]
  | .struct _ _, v, h => by cases v <;> simp_all [hasType, ser, shape, kindOf]
  | .unitEnum _, v, h => by cases v <;> simp_all [hasType, ser, shape, kindOf]
  | .adjacent _ _ _, v, h => by cases v <;> simp_all [hasType, ser, shape, kindOf]
  | .internal _ _, v, h => by cases v <;> simp_all [hasType, ser, shape, kindOf]
  | .untagged alts, v, h => by
      cases v <;> simp_all [hasType, ser, shape]
      rename_i i x; exact serAlt_kind alts i x h.1
  | .refine s p, v, h => by
      simp [hasType] at h
      simpa [ser, shape] using ser_kind s v h.1
theorem serAlt_kind : ∀ (alts : Fields) (i : Nat) (v : Val), typedAlt alts i v = true → kindOf (serAlt alts i v) ∈ shapeAlts alts
  | .nil, _, _, h => by simp [typedAlt] at h
  | .cons _ _ s tl, i, v, h => by
      cases i with
      | zero => simp [typedAlt] at h; simp [serAlt, shapeAlts]; exact Or.inl (ser_kind s v h)
      | succ j => simp [typedAlt] at h; simp [serAlt, shapeAlts]; exact Or.inr (serAlt_kind tl j v h)
end

mutual
theorem de_kind : ∀ (s : Schema) (j : Json), kindOf j ∉ shape s → de s j = none
  | .bool, j, h => by cases j <;> simp_all [de, shape, kindOf]
  | .int _ _, j, h => by cases j <;> simp_all [de, shape, kindOf]
  | .flt, j, h => by cases j <;> simp_all [de, shape, kindOf]
  | .str, j, h => by cases j <;> simp_all [de, shape, kindOf]
  | .hex _ _, j, h => by cases j <;> simp_all [de, shape, kindOf]
  | .any, j, h => by cases j <;> simp_all [de, shape, kindOf]
  | .opt s, j, h => by
      have h2 : kindOf j ∉ shape s := fun hh => h (by simp [shape, hh])
      have := de_kind s j h2
      cases j <;> simp_all [de, shape, kindOf, optOf]
  | .seq _ _, j, h => by cases j <;> simp_all [de, shape, kindOf]
  | .map, j, h => by cases j <;> simp_all [de, shape, kindOf]
  | .struct _ _, j, h => by cases j <;> simp_all [de, shape, kindOf]
  | .unitEnum _, j, h => by cases j <;> simp_all [de, shape, kindOf]
  | .adjacent _ _ _, j, h => by cases j <;> simp_all [de, shape, kindOf]
  | .internal _ _, j, h => by cases j <;> simp_all [de, shape, kindOf]
  | .untagged alts, j, h => by
      simp only [de]; exact deUntagged_kind alts j 0 (by simpa [shape] using h)
  | .refine s p, j, h => by
      have := de_kind s j (by simpa [shape] using h)
      simp [de, this]
theorem deUntagged_kind : ∀ (alts : Fields) (j : Json) (k : Nat), kindOf j ∉ shapeAlts alts → deUntagged alts j k = none
  | .nil, _, _, _ => by simp [deUntagged]
  | .cons _ _ s tl, j, k, h => by
      have h1 : kindOf j ∉ shape s := fun hh => h (by simp [shapeAlts, hh])
      have h2 : kindOf j ∉ shapeAlts tl := fun hh => h (by simp [shapeAlts, hh])
      simp [deUntagged, de_kind s j h1, deUntagged_kind tl j (k + 1) h2]
end

end GmQuic.Model.Json
