import GmQuic.Model.Net
import GmQuic.Lemmas.StreamRun
import GmQuic.Lemmas.Rcvd
/-! Invariants of the abstract stack (`Model/Net.lean`): every stream of the net is a C01 stream after SOME C01
history (refinement), what is on the wire is what was sealed, only sealed packets are dispatched, each number once. -/
namespace GmQuic.Net
open GmQuic.RecvBuf (Bytes)
open GmQuic

/-- `s` is the state of the C01 model after some C01 history -/
def Reach (sw rw : Nat) (s : Stream.Stream) : Prop := ∃ sops, s = (Stream.Stream.init sw rw).run sops

theorem reach_step {sw rw : Nat} {s : Stream.Stream} (h : Reach sw rw s) (op : Stream.Op) : Reach sw rw (s.step op) := by
  obtain ⟨sops, rfl⟩ := h
  exact ⟨sops ++ [op], by rw [Stream.run_append]; rfl⟩

theorem emitted_mono (s : Stream.Stream) (op : Stream.Op) (f : Stream.Frame) (h : f ∈ s.emitted) :
    f ∈ (s.step op).emitted := by
  cases op <;> simp only [Stream.Stream.step] <;> (repeat' split) <;> simp_all

theorem rxFrame_emitted (s : Stream.Stream) (f : Stream.Frame) : (rxFrame s f).emitted = s.emitted := by
  unfold rxFrame; rfl

theorem rxFrame_is_deliver (s : Stream.Stream) (f : Stream.Frame) (i : Nat) (h : s.emitted[i]? = some f) :
    s.step (.deliver i) = rxFrame s f := by
  simp only [Stream.Stream.step, h, rxFrame]

theorem reach_rxFrame {sw rw : Nat} {s : Stream.Stream} (h : Reach sw rw s) (f : Stream.Frame) (hf : f ∈ s.emitted) :
    Reach sw rw (rxFrame s f) := by
  obtain ⟨i, hi⟩ := List.getElem?_of_mem hf
  rw [← rxFrame_is_deliver s f i hi]
  exact reach_step h _

/-- Prop form of `legal` -/
def FrameOk {C : Type} (σ : Net C) (d : Dir) : PFrame → Prop
  | .stream sid f => f ∈ (σ.streams d sid).emitted
  | .dgram x => x ∈ σ.dgSent d
  | .other _ => True

theorem legal_iff {C : Type} (σ : Net C) (d : Dir) (fr : PFrame) : legal σ d fr = true ↔ FrameOk σ d fr := by
  cases fr <;> simp [legal, FrameOk]

structure Inv {C : Type} (K : Crypto C) (sw rw : Nat) (σ : Net C) : Prop where
  refines : ∀ d sid, Reach sw rw (σ.streams d sid)
  wire_eq : ∀ d, σ.wire d = (σ.sent d).map (K.sealP d)
  sent_ok : ∀ d p, p ∈ σ.sent d → ∀ fr ∈ p.frames, FrameOk σ d fr
  sent_pn : ∀ d p, p ∈ σ.sent d → p.pn < σ.nextPn d
  rcvd_le : ∀ d, (σ.rcvd d).largest ≤ σ.nextPn d
  deliv_sent : ∀ d p, p ∈ σ.delivered d → p ∈ σ.sent d
  deliv_gone : ∀ d p, p ∈ σ.delivered d → Pn.Gone (σ.rcvd d) p.pn
  deliv_nodup : ∀ d, ((σ.delivered d).map (·.pn)).Nodup
  dg : ∀ d x, x ∈ σ.dgRcvd d → x ∈ σ.dgSent d

theorem inv_init {C : Type} (K : Crypto C) (sw rw : Nat) : Inv K sw rw (Net.init C sw rw) := by
  refine { refines := fun _ _ => ⟨[], rfl⟩, wire_eq := ?_, sent_ok := ?_, sent_pn := ?_, rcvd_le := ?_,
           deliv_sent := ?_, deliv_gone := ?_, deliv_nodup := ?_, dg := ?_ } <;> simp [Net.init, Pn.Rcvd.largest]

/-! ### the frame handlers -/

theorem upd_same {α : Type} (f : Dir → α) (d : Dir) (v : α) : upd f d v d = v := by simp [upd]
theorem upd_other {α : Type} (f : Dir → α) (d d' : Dir) (v : α) (h : d' ≠ d) : upd f d v d' = f d' := by simp [upd, h]

/-- what a run of handlers preserves -/
structure HandlesTo {C : Type} (sw rw : Nat) (d : Dir) (σ σ' : Net C) : Prop where
  sent : σ'.sent = σ.sent
  wire : σ'.wire = σ.wire
  nextPn : σ'.nextPn = σ.nextPn
  rcvd : σ'.rcvd = σ.rcvd
  delivered : σ'.delivered = σ.delivered
  dgSent : σ'.dgSent = σ.dgSent
  connErr : σ'.connErr = σ.connErr
  emitted : ∀ d' sid, (σ'.streams d' sid).emitted = (σ.streams d' sid).emitted
  reach : (∀ d' sid, Reach sw rw (σ.streams d' sid)) → ∀ d' sid, Reach sw rw (σ'.streams d' sid)
  dg : (∀ x, x ∈ σ.dgRcvd d → x ∈ σ.dgSent d) → ∀ x, x ∈ σ'.dgRcvd d → x ∈ σ.dgSent d
  dgOther : ∀ d', d' ≠ d → σ'.dgRcvd d' = σ.dgRcvd d'

theorem handlesTo_refl {C : Type} (sw rw : Nat) (d : Dir) (σ : Net C) : HandlesTo sw rw d σ σ :=
  { sent := rfl, wire := rfl, nextPn := rfl, rcvd := rfl, delivered := rfl, dgSent := rfl, connErr := rfl,
    emitted := fun _ _ => rfl, reach := fun h => h, dg := fun h => h, dgOther := fun _ _ => rfl }

theorem handlesTo_trans {C : Type} {sw rw : Nat} {d : Dir} {a b c : Net C}
    (h1 : HandlesTo sw rw d a b) (h2 : HandlesTo sw rw d b c) : HandlesTo sw rw d a c :=
  { sent := h2.sent.trans h1.sent, wire := h2.wire.trans h1.wire, nextPn := h2.nextPn.trans h1.nextPn,
    rcvd := h2.rcvd.trans h1.rcvd, delivered := h2.delivered.trans h1.delivered, dgSent := h2.dgSent.trans h1.dgSent,
    connErr := h2.connErr.trans h1.connErr,
    emitted := fun d' sid => (h2.emitted d' sid).trans (h1.emitted d' sid),
    reach := fun h => h2.reach (h1.reach h),
    dg := fun h x hx => by
      have := h2.dg (fun y hy => by rw [h1.dgSent]; exact h1.dg h y hy) x hx
      rwa [h1.dgSent] at this,
    dgOther := fun d' hd => (h2.dgOther d' hd).trans (h1.dgOther d' hd) }

theorem handle_ok {C : Type} (sw rw : Nat) (d : Dir) (σ : Net C) (fr : PFrame) (hf : FrameOk σ d fr) :
    HandlesTo sw rw d σ (handle d σ fr) := by
  cases fr with
  | stream sid f =>
    refine { sent := rfl, wire := rfl, nextPn := rfl, rcvd := rfl, delivered := rfl, dgSent := rfl, connErr := rfl,
             emitted := ?_, reach := ?_, dg := fun h => h, dgOther := fun _ _ => rfl }
    · intro d' sid'
      simp only [handle, upd2]
      split
      · rename_i hc; obtain ⟨rfl, rfl⟩ := hc; exact rxFrame_emitted _ _
      · rfl
    · intro h d' sid'
      simp only [handle, upd2]
      split
      · exact reach_rxFrame (h d sid) f hf
      · exact h d' sid'
  | dgram x =>
    refine { sent := rfl, wire := rfl, nextPn := rfl, rcvd := rfl, delivered := rfl, dgSent := rfl, connErr := rfl,
             emitted := fun _ _ => rfl, reach := fun h => h, dg := ?_, dgOther := ?_ }
    · intro h y hy
      simp only [handle, upd_same, List.mem_append, List.mem_singleton] at hy
      rcases hy with hy | rfl
      · exact h y hy
      · exact hf
    · intro d' hd
      simp only [handle, upd_other _ _ _ _ hd]
  | other t => exact handlesTo_refl sw rw d σ

theorem frameOk_of_handlesTo {C : Type} {sw rw : Nat} {d : Dir} {σ σ' : Net C} (h : HandlesTo sw rw d σ σ')
    (d' : Dir) (fr : PFrame) (hf : FrameOk σ d' fr) : FrameOk σ' d' fr := by
  cases fr with
  | stream sid f => simp only [FrameOk, h.emitted]; exact hf
  | dgram x => simp only [FrameOk, h.dgSent]; exact hf
  | other t => trivial

theorem handles_fold {C : Type} (sw rw : Nat) (d : Dir) (frames : List PFrame) (σ : Net C)
    (hf : ∀ fr ∈ frames, FrameOk σ d fr) : HandlesTo sw rw d σ (frames.foldl (handle d) σ) := by
  induction frames generalizing σ with
  | nil => exact handlesTo_refl sw rw d σ
  | cons fr rest ih =>
    simp only [List.foldl_cons]
    have h1 := handle_ok sw rw d σ fr (hf fr (by simp))
    exact handlesTo_trans h1 (ih _ (fun g hg => frameOk_of_handlesTo h1 d g (hf g (by simp [hg]))))

/-! ### one step -/

theorem frameOk_mono_app {C : Type} (σ : Net C) (d sid : _) (op : Stream.Op) (d' : Dir) (fr : PFrame)
    (hf : FrameOk σ d' fr) :
    FrameOk ({ σ with streams := upd2 σ.streams d sid ((σ.streams d sid).step op) } : Net C) d' fr := by
  cases fr with
  | stream sid' f =>
    simp only [FrameOk, upd2]
    split
    · rename_i hc; obtain ⟨rfl, rfl⟩ := hc; exact emitted_mono _ _ _ hf
    · exact hf
  | dgram x => exact hf
  | other t => trivial

theorem inv_dispatch {C : Type} {K : Crypto C} {sw rw : Nat} {σ : Net C} (h : Inv K sw rw σ) (d : Dir) (p : Packet)
    (hp : p ∈ σ.sent d) (hfresh : fresh (σ.rcvd d) p.pn = true) : Inv K sw rw (dispatch σ d p) := by
  let σ0 : Net C := { σ with rcvd := upd σ.rcvd d ((σ.rcvd d).onRcvd p.pn),
                             delivered := upd σ.delivered d (σ.delivered d ++ [p]) }
  have hok : ∀ fr ∈ p.frames, FrameOk σ0 d fr := fun fr hfr => h.sent_ok d p hp fr hfr
  have ht : HandlesTo sw rw d σ0 (dispatch σ d p) := handles_fold sw rw d p.frames σ0 hok
  have hnot : ¬ Pn.Gone (σ.rcvd d) p.pn := by
    simp only [fresh, Bool.and_eq_true, decide_eq_true_eq, Bool.not_eq_true'] at hfresh
    intro hg
    rcases hg with hg | hg
    · omega
    · simp [hfresh.2] at hg
  refine { refines := ht.reach h.refines, wire_eq := ?_, sent_ok := ?_, sent_pn := ?_, rcvd_le := ?_,
           deliv_sent := ?_, deliv_gone := ?_, deliv_nodup := ?_, dg := ?_ }
  · intro d'; rw [ht.wire, ht.sent]; exact h.wire_eq d'
  · intro d' q hq fr hfr
    rw [ht.sent] at hq
    exact frameOk_of_handlesTo ht d' fr (h.sent_ok d' q hq fr hfr)
  · intro d' q hq; rw [ht.sent] at hq; rw [ht.nextPn]; exact h.sent_pn d' q hq
  · intro d'
    rw [ht.rcvd, ht.nextPn]
    show (upd σ.rcvd d ((σ.rcvd d).onRcvd p.pn) d').largest ≤ σ.nextPn d'
    by_cases hd : d' = d
    · subst hd
      rw [upd_same]
      have h1 := h.rcvd_le d'
      have h2 := h.sent_pn d' p hp
      unfold Pn.Rcvd.onRcvd
      split
      · exact h1
      · split
        · simp only [Pn.Rcvd.largest, List.length_set] at h1 ⊢; exact h1
        · simp only [Pn.Rcvd.largest, List.length_append, List.length_replicate, List.length_cons, List.length_nil] at *
          omega
    · rw [upd_other _ _ _ _ hd]; exact h.rcvd_le d'
  · intro d' q hq
    rw [ht.delivered] at hq; rw [ht.sent]
    change q ∈ upd σ.delivered d (σ.delivered d ++ [p]) d' at hq
    by_cases hd : d' = d
    · subst hd
      rw [upd_same, List.mem_append, List.mem_singleton] at hq
      rcases hq with hq | rfl
      · exact h.deliv_sent d' q hq
      · exact hp
    · rw [upd_other _ _ _ _ hd] at hq; exact h.deliv_sent d' q hq
  · intro d' q hq
    rw [ht.delivered] at hq; rw [ht.rcvd]
    change q ∈ upd σ.delivered d (σ.delivered d ++ [p]) d' at hq
    show Pn.Gone (upd σ.rcvd d ((σ.rcvd d).onRcvd p.pn) d') q.pn
    by_cases hd : d' = d
    · subst hd
      rw [upd_same] at hq ⊢
      rw [List.mem_append, List.mem_singleton] at hq
      rcases hq with hq | rfl
      · exact Pn.gone_onRcvd _ _ _ (h.deliv_gone d' q hq)
      · exact Pn.gone_onRcvd_self _ _
    · rw [upd_other _ _ _ _ hd] at hq ⊢; exact h.deliv_gone d' q hq
  · intro d'
    rw [ht.delivered]
    show ((upd σ.delivered d (σ.delivered d ++ [p]) d').map (·.pn)).Nodup
    by_cases hd : d' = d
    · subst hd
      rw [upd_same, List.map_append, List.nodup_append]
      refine ⟨h.deliv_nodup d', by simp, ?_⟩
      intro a ha b hb
      simp only [List.map_cons, List.map_nil, List.mem_singleton] at hb
      subst hb
      obtain ⟨q, hq, rfl⟩ := List.mem_map.mp ha
      intro he
      exact hnot (he ▸ h.deliv_gone d' q hq)
    · rw [upd_other _ _ _ _ hd]; exact h.deliv_nodup d'
  · intro d' x hx
    rw [ht.dgSent]
    by_cases hd : d' = d
    · subst hd; exact ht.dg (h.dg d') x hx
    · rw [ht.dgOther d' hd] at hx; exact h.dg d' x hx

theorem inv_protoViolation {C : Type} {K : Crypto C} {sw rw : Nat} {σ : Net C} (h : Inv K sw rw σ) (d : Dir) :
    Inv K sw rw (protoViolation σ d) :=
  { refines := h.refines, wire_eq := h.wire_eq, sent_ok := h.sent_ok, sent_pn := h.sent_pn, rcvd_le := h.rcvd_le,
    deliv_sent := h.deliv_sent, deliv_gone := h.deliv_gone, deliv_nodup := h.deliv_nodup, dg := h.dg }

/-- an authentic ciphertext opens to a packet the peer sealed -/
theorem authentic_sent {C : Type} {K : Crypto C} {sw rw : Nat} {σ : Net C} (h : Inv K sw rw σ) (d : Dir) (c : C)
    (p : Packet) (ho : K.openP d c = some p) (ha : c ∈ σ.wire d) : p ∈ σ.sent d := by
  rw [h.wire_eq d, List.mem_map] at ha
  obtain ⟨q, hq, rfl⟩ := ha
  rw [K.open_seal] at ho
  cases ho
  exact hq

theorem inv_step {C : Type} {K : Crypto C} {sw rw : Nat} (ord : Order) {σ : Net C} (h : Inv K sw rw σ) (op : Op C)
    (ha : opAuthentic K σ op) : Inv K sw rw (step K ord σ op) := by
  cases op with
  | app d sid sop =>
    simp only [step]
    split
    · refine { refines := ?_, wire_eq := h.wire_eq, sent_ok := ?_, sent_pn := h.sent_pn, rcvd_le := h.rcvd_le,
               deliv_sent := h.deliv_sent, deliv_gone := h.deliv_gone, deliv_nodup := h.deliv_nodup, dg := h.dg }
      · intro d' sid'
        simp only [upd2]
        split
        · exact reach_step (h.refines d sid) sop
        · exact h.refines d' sid'
      · intro d' p hp fr hfr
        exact frameOk_mono_app σ d sid sop d' fr (h.sent_ok d' p hp fr hfr)
    · exact h
  | dgSend d x =>
    simp only [step]
    refine { refines := h.refines, wire_eq := h.wire_eq, sent_ok := ?_, sent_pn := h.sent_pn, rcvd_le := h.rcvd_le,
             deliv_sent := h.deliv_sent, deliv_gone := h.deliv_gone, deliv_nodup := h.deliv_nodup, dg := ?_ }
    · intro d' p hp fr hfr
      have := h.sent_ok d' p hp fr hfr
      cases fr with
      | stream sid f => exact this
      | dgram y =>
        simp only [FrameOk, upd] at this ⊢
        split
        · rename_i hc; subst hc; exact List.mem_append_left _ this
        · exact this
      | other t => trivial
    · intro d' y hy
      have := h.dg d' y hy
      simp only [upd]
      split
      · rename_i hc; subst hc; exact List.mem_append_left _ this
      · exact this
  | send d frames =>
    simp only [step]
    refine { refines := h.refines, wire_eq := ?_, sent_ok := ?_, sent_pn := ?_, rcvd_le := ?_,
             deliv_sent := ?_, deliv_gone := h.deliv_gone, deliv_nodup := h.deliv_nodup, dg := h.dg }
    · intro d'
      simp only [upd]
      split
      · rename_i hc; subst hc; rw [List.map_append, h.wire_eq d']; rfl
      · exact h.wire_eq d'
    · intro d' p hp fr hfr
      simp only [upd] at hp
      split at hp
      · rename_i hc; subst hc
        rw [List.mem_append, List.mem_singleton] at hp
        rcases hp with hp | rfl
        · exact h.sent_ok d' p hp fr hfr
        · simp only [List.mem_filter] at hfr
          exact (legal_iff σ d' fr).mp hfr.2
      · exact h.sent_ok d' p hp fr hfr
    · intro d' p hp
      simp only [upd] at hp ⊢
      split at hp
      · rename_i hc; subst hc
        simp only [if_true]
        rw [List.mem_append, List.mem_singleton] at hp
        rcases hp with hp | rfl
        · have := h.sent_pn d' p hp; omega
        · simp
      · rename_i hc; simp only [hc, if_false]; exact h.sent_pn d' p hp
    · intro d'
      have := h.rcvd_le d'
      simp only [upd]
      split
      · rename_i hc; subst hc; omega
      · exact this
    · intro d' p hp
      have := h.deliv_sent d' p hp
      simp only [upd]
      split
      · rename_i hc; subst hc; exact List.mem_append_left _ this
      · exact this
  | recv d c =>
    simp only [step, recvStep]
    split
    · exact h
    · split
      · exact inv_protoViolation h d
      · split
        · exact h
        · rename_i p ho
          split
          · exact inv_protoViolation h d
          · split
            · rename_i hfresh
              have hs : p ∈ σ.sent d := authentic_sent h d c p ho (ha (by simp [ho]))
              exact inv_dispatch h d p hs hfresh
            · exact h
  | slide d n =>
    simp only [step]
    refine { refines := h.refines, wire_eq := h.wire_eq, sent_ok := h.sent_ok, sent_pn := h.sent_pn, rcvd_le := ?_,
             deliv_sent := h.deliv_sent, deliv_gone := ?_, deliv_nodup := h.deliv_nodup, dg := h.dg }
    · intro d'
      have := h.rcvd_le d'
      simp only [upd]
      split
      · rename_i hc; subst hc
        simp only [Pn.Rcvd.slide, Pn.Rcvd.largest, List.length_drop] at this ⊢
        omega
      · exact this
    · intro d' p hp
      have := h.deliv_gone d' p hp
      simp only [upd]
      split
      · rename_i hc; subst hc; exact Pn.gone_slide _ _ _ this
      · exact this

theorem inv_run {C : Type} {K : Crypto C} {sw rw : Nat} (ord : Order) (ops : List (Op C)) (σ : Net C)
    (h : Inv K sw rw σ) (hn : NoForgery K ord σ ops) : Inv K sw rw (run K ord σ ops) := by
  induction ops generalizing σ with
  | nil => exact h
  | cons op rest ih =>
    simp only [run, List.foldl_cons]
    exact ih _ (inv_step ord h op hn.1) hn.2

/-! ### connection errors -/

theorem connErr_handles {C : Type} (d : Dir) (frames : List PFrame) (σ : Net C) :
    (frames.foldl (handle d) σ).connErr = σ.connErr := by
  induction frames generalizing σ with
  | nil => rfl
  | cons fr rest ih =>
    simp only [List.foldl_cons]; rw [ih]
    cases fr <;> rfl

/-- with the check AFTER authentication no datagram whatsoever raises a connection error -/
theorem connErr_step_after {C : Type} (K : Crypto C) (σ : Net C) (op : Op C) (h : ∀ d, σ.connErr d = none) :
    ∀ d, (step K .afterAuth σ op).connErr d = none := by
  cases op with
  | app d sid sop => simp only [step]; split <;> exact h
  | dgSend d x => exact h
  | send d frames => exact h
  | slide d n => exact h
  | recv d c =>
    simp only [step, recvStep]
    split
    · exact h
    · split
      · rename_i hc; exact absurd hc.1 (by decide)
      · split
        · exact h
        · rename_i p ho
          have := K.open_inj d c p ho
          have hr : K.reserved d c = false := by rw [this]; exact K.seal_reserved d p
          simp only [hr, Bool.false_eq_true, if_false]
          split
          · simp only [dispatch, connErr_handles]; exact h
          · exact h

/-- with the check BEFORE authentication: no error as long as no delivered datagram has reserved bits set -/
def opCleanBits {C : Type} (K : Crypto C) : Op C → Prop
  | .recv d c => K.reserved d c = false
  | _ => True

theorem connErr_step_before {C : Type} (K : Crypto C) (σ : Net C) (op : Op C) (hc : opCleanBits K op)
    (h : ∀ d, σ.connErr d = none) : ∀ d, (step K .beforeAuth σ op).connErr d = none := by
  cases op with
  | app d sid sop => simp only [step]; split <;> exact h
  | dgSend d x => exact h
  | send d frames => exact h
  | slide d n => exact h
  | recv d c =>
    have hr : K.reserved d c = false := hc
    simp only [step, recvStep, hr, Bool.false_eq_true, and_false, if_false]
    split
    · exact h
    · split
      · exact h
      · split
        · simp only [dispatch, connErr_handles]; exact h
        · exact h

theorem connErr_run_after {C : Type} (K : Crypto C) (ops : List (Op C)) (σ : Net C) (h : ∀ d, σ.connErr d = none) :
    ∀ d, (run K .afterAuth σ ops).connErr d = none := by
  induction ops generalizing σ with
  | nil => exact h
  | cons op rest ih => simp only [run, List.foldl_cons]; exact ih _ (connErr_step_after K σ op h)

theorem connErr_run_before {C : Type} (K : Crypto C) (ops : List (Op C)) (σ : Net C) (hc : ∀ op ∈ ops, opCleanBits K op)
    (h : ∀ d, σ.connErr d = none) : ∀ d, (run K .beforeAuth σ ops).connErr d = none := by
  induction ops generalizing σ with
  | nil => exact h
  | cons op rest ih =>
    simp only [run, List.foldl_cons]
    exact ih _ (fun o ho => hc o (by simp [ho])) (connErr_step_before K σ op (hc op (by simp)) h)

/-- a datagram that does not authenticate changes nothing at all (unless the reserved-bit check comes first) -/
theorem recv_unauth_noop {C : Type} (K : Crypto C) (ord : Order) (σ : Net C) (d : Dir) (c : C)
    (ho : K.openP d c = none) (hr : ord = .afterAuth ∨ K.reserved d c = false) : recvStep K ord σ d c = σ := by
  unfold recvStep
  split
  · rfl
  · split
    · rename_i hc
      rcases hr with hr | hr
      · rw [hr] at hc; exact absurd hc.1 (by decide)
      · rw [hr] at hc; exact absurd hc.2 (by decide)
    · simp only [ho]

/-- a packet that was already dispatched is dropped when it arrives again -/
theorem recv_replay_noop {C : Type} {K : Crypto C} {sw rw : Nat} (ord : Order) {σ : Net C} (h : Inv K sw rw σ) (d : Dir)
    (p : Packet) (hp : p ∈ σ.delivered d) : recvStep K ord σ d (K.sealP d p) = σ := by
  have hg := h.deliv_gone d p hp
  have hf : fresh (σ.rcvd d) p.pn = false := by
    unfold fresh
    rcases hg with hg | hg
    · have : ¬ (σ.rcvd d).offset ≤ p.pn := by omega
      simp [this]
    · simp [hg]
  unfold recvStep
  split
  · rfl
  · simp only [K.seal_reserved, K.open_seal, hf, Bool.false_eq_true, and_false, if_false]

/-- progress of the packet layer: a packet just sealed, delivered unmodified, is accepted and dispatched -/
theorem fresh_next {C : Type} {K : Crypto C} {sw rw : Nat} {σ : Net C} (h : Inv K sw rw σ) (d : Dir) :
    fresh (σ.rcvd d) (σ.nextPn d) = true := by
  have h1 := h.rcvd_le d
  unfold fresh Pn.Rcvd.seen
  have : ¬ (σ.nextPn d < (σ.rcvd d).largest) := by omega
  have h2 : (σ.rcvd d).offset ≤ σ.nextPn d := by unfold Pn.Rcvd.largest at h1; omega
  simp [this, h2]

end GmQuic.Net
