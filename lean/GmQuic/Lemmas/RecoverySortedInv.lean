import GmQuic.Lemmas.RecoveryBal
import GmQuic.Lemmas.RecoverySorted
/-! C13: the sent lists stay sorted by packet number along every history whose sends use increasing numbers. -/
namespace GmQuic.Recovery
open GmQuic.Gen

def SortedAll (s : St) : Prop := Sorted s.s0.sent ∧ Sorted s.s1.sent ∧ Sorted s.s2.sent

theorem SortedAll.get {s : St} (h : SortedAll s) (e : Nat) : Sorted (getSp s e).sent := by
  unfold getSp; split
  · exact h.1
  · exact h.2.1
  · exact h.2.2

theorem sortedAll_setSp {s : St} (e : Nat) (sp : Space) (h : SortedAll s) (hs : Sorted sp.sent) :
    SortedAll (setSp s e sp) := by
  unfold setSp; split
  · exact ⟨hs, h.2.1, h.2.2⟩
  · exact ⟨h.1, hs, h.2.2⟩
  · exact ⟨h.1, h.2.1, hs⟩

theorem sortedAll_same {s s' : St} (h : SameSp s s') (hs : SortedAll s) : SortedAll s' := by
  unfold SortedAll; rw [h.1, h.2.1, h.2.2]; exact hs

theorem sorted_of_map_eq {l l' : List Pkt} (h : l'.map (·.pn) = l.map (·.pn)) (hs : Sorted l) : Sorted l' := by
  unfold Sorted at *
  have h1 : (l.map (·.pn)).Pairwise (· < ·) := List.pairwise_map.mpr hs
  rw [← h] at h1
  exact List.pairwise_map.mp h1

theorem ackWalk_pns (f : Nat → Bool) (l : List Pkt) (s : St) (a : AckAcc) :
    (ackWalk f l s a).1.map (·.pn) = l.map (·.pn) := by
  induction l with
  | nil => rfl
  | cons p ps ih =>
    unfold ackWalk
    generalize (ackWalk f ps s a) = w at *
    obtain ⟨ps', x, a'⟩ := w
    simp only at ih ⊢
    split <;> simp [ih]

theorem lossWalk_pns (T ld L : Nat) (l : List Pkt) : ∀ (k : Nat) (lt : Option Nat),
    (lossWalk T ld L l k lt).1.map (·.pn) = l.map (·.pn) := by
  induction l with
  | nil => intro k lt; rfl
  | cons p ps ih =>
    intro k lt
    unfold lossWalk
    split
    · split
      · have ih' := ih (k + 1) lt
        generalize (lossWalk T ld L ps (k + 1) lt) = w at *
        obtain ⟨ps', lost, lt'⟩ := w
        simp only at ih' ⊢
        simp [ih']
      · simp only
        simp [ih]
    · have ih' := ih (k + 1) lt
      generalize (lossWalk T ld L ps (k + 1) lt) = w at *
      obtain ⟨ps', lost, lt'⟩ := w
      simp only at ih' ⊢
      simp [ih']

theorem trimFront_sorted (l : List Pkt) (hs : Sorted l) : Sorted (trimFront l) := by
  induction l with
  | nil => exact hs
  | cons p ps ih =>
    unfold trimFront
    split
    · unfold Sorted at hs; rw [List.pairwise_cons] at hs; exact ih hs.2
    · exact hs

theorem sorted_append (l : List Pkt) (p : Pkt) (hs : Sorted l) (hp : ∀ q ∈ l, q.pn < p.pn) : Sorted (l ++ [p]) := by
  unfold Sorted at *
  rw [List.pairwise_append]
  refine ⟨hs, List.pairwise_singleton _ _, ?_⟩
  intro a ha b hb
  simp only [List.mem_singleton] at hb
  subst hb; exact hp a ha

theorem setTimer_sorted {s s' : St} {a b : Nat} (h : setTimer s a b = .ok s') (hs : SortedAll s) : SortedAll s' := by
  rw [setTimer_eq h]; exact hs

theorem setSp_same_sorted {s : St} (e : Nat) (sp : Space) (h : sp.sent = (getSp s e).sent) (hs : SortedAll s) :
    SortedAll (setSp s e sp) :=
  sortedAll_setSp e sp hs (by rw [h]; exact hs.get e)

theorem armProbe_sorted {s s' : St} {i : Inp} (h : armProbe s i = .ok s') (hs : SortedAll s) : SortedAll s' := by
  unfold armProbe at h
  split at h
  · cases h; split <;> (unfold addNeed; exact setSp_same_sorted _ _ rfl hs)
  · simp only [ebind_ok] at h
    obtain ⟨r, _, h2⟩ := h
    split at h2
    · cases h2; unfold addNeed; exact setSp_same_sorted _ _ rfl hs
    · cases h2; exact hs

theorem detectLost_sorted {s s' : St} {e ld : Nat} {lost : List Nat} (h : detectLost s e ld = .ok (s', lost))
    (hs : SortedAll s) : SortedAll s' := by
  unfold detectLost at h
  simp only at h
  have k : SortedAll (setSp s e { getSp s e with
      sent := (lossWalk (s.now - ld - (getSp s e).mad) ld (bsearch (getSp s e).sent ((getSp s e).la.getD 0)) (getSp s e).sent 0 none).1,
      lt := (lossWalk (s.now - ld - (getSp s e).mad) ld (bsearch (getSp s e).sent ((getSp s e).la.getD 0)) (getSp s e).sent 0 none).2.2 }) :=
    sortedAll_setSp _ _ hs (sorted_of_map_eq (lossWalk_pns _ _ _ _ _ _) (hs.get e))
  split at h
  · cases h; exact k
  · split at h
    · cases h
    · rename_i s2 h2
      cases h
      exact sortedAll_same (onPacketsLost_frame h2).2 k

theorem onTimeout_sorted {s s' : St} {i : Inp} {l : List (Nat × List Nat)} (h : onTimeout s i = .ok (s', l))
    (hs : SortedAll s) : SortedAll s' := by
  unfold onTimeout at h
  split at h
  · simp only [ebind_ok] at h
    obtain ⟨r, h1, s2, h2, h3⟩ := h
    cases h3
    obtain ⟨s1, lost⟩ := r
    exact setTimer_sorted h2 (detectLost_sorted h1 hs)
  · simp only [ebind_ok] at h
    obtain ⟨s1, h1, s2, h2, h3⟩ := h
    cases h3
    have k1 : SortedAll s1 := armProbe_sorted h1 hs
    exact setTimer_sorted h2 (s := bumpPto s1) k1

theorem discardEpoch_sorted {s s' : St} {e a b : Nat} (h : discardEpoch s e a b = .ok s') (hs : SortedAll s) :
    SortedAll s' := by
  unfold discardEpoch at h
  split at h
  · cases h
  · simp only [ebind_ok] at h
    obtain ⟨bytes, _, h2⟩ := h
    refine setTimer_sorted h2 ?_
    have : SortedAll (setSp { s with bytes := bytes } e { getSp s e with sent := [], tl := none, lt := none }) :=
      sortedAll_setSp _ _ (s := { s with bytes := bytes }) hs (by unfold Sorted; exact List.Pairwise.nil)
    unfold discardReset markDiscarded
    simp only
    split
    · exact this
    · split <;> exact this

theorem onPktSent_sorted {s s' : St} {i : Inp} {e pn : Nat} {elic infl : Bool} {size : Nat}
    (h : onPktSent s i e pn elic infl size = .ok s') (hs : SortedAll s)
    (hpn : ∀ q ∈ (getSp s e).sent, q.pn < pn) : SortedAll s' := by
  unfold onPktSent at h
  simp only [ebind_ok] at h
  obtain ⟨s1, h1, h2⟩ := h
  have k1 : SortedAll s1 ∧ (getSp s1 e).sent = (getSp s e).sent := by
    split at h1
    · rw [setTimer_eq h1]
      have hsent : (getSp (sentInflight s i.ld0 e elic size) e).sent = (getSp s e).sent := by
        unfold sentInflight; simp only [getSp_setSp]; split <;> split <;> rfl
      refine ⟨?_, ?_⟩
      · show SortedAll (sentInflight s i.ld0 e elic size)
        unfold sentInflight
        refine sortedAll_setSp _ _ (s := { s with bytes := s.bytes + size }) hs ?_
        have := hs.get e
        split <;> split <;> exact this
      · have : getSp { sentInflight s i.ld0 e elic size with timer := s1.timer } e = getSp (sentInflight s i.ld0 e elic size) e := by
          unfold getSp; split <;> rfl
        rw [this]; exact hsent
    · cases h1; exact ⟨hs, rfl⟩
  have k2 : SortedAll (pushPkt s1 e { pn := pn, ts := s.now, elic := elic, cc := infl, size := size, st := PSt.I }) := by
    unfold pushPkt
    refine sortedAll_setSp _ _ k1.1 ?_
    simp only
    exact sorted_append _ _ (k1.1.get e) (by rw [k1.2]; exact hpn)
  split at h2
  · exact discardEpoch_sorted h2 k2
  · cases h2; exact k2

theorem spaceOnAck_sorted {s : St} (e : Nat) (a : Ack) (hs : SortedAll s) : SortedAll (spaceOnAck s e a).1 := by
  unfold spaceOnAck
  simp only
  have hle : outstanding (getSp s e).sent ≤ outstanding (getSp s e).sent + s.bytes := by omega
  have hpns := ackWalk_pns (inRanges a.ranges) (getSp s e).sent s {}
  have hsame : SameSp s (ackWalk (inRanges a.ranges) (getSp s e).sent s {}).2.1 := by
    have : ∀ (l : List Pkt), SameSp s (ackWalk (inRanges a.ranges) l s {}).2.1 := by
      intro l
      induction l with
      | nil => exact ⟨rfl, rfl, rfl⟩
      | cons p ps ih =>
        unfold ackWalk
        generalize (ackWalk (inRanges a.ranges) ps s {}) = w at *
        obtain ⟨ps', x, a'⟩ := w
        simp only at ih ⊢
        split
        · obtain ⟨_, b2, b3, b4⟩ := onPacketAcked_bytes x p
          exact ⟨b2.trans ih.1, b3.trans ih.2.1, b4.trans ih.2.2⟩
        · exact ih
    exact this _
  generalize (ackWalk (inRanges a.ranges) (getSp s e).sent s {}) = w at *
  obtain ⟨sent', x, acc⟩ := w
  simp only at hpns hsame ⊢
  exact sortedAll_setSp _ _ (sortedAll_same hsame hs) (trimFront_sorted _ (sorted_of_map_eq hpns (hs.get e)))

theorem processEcn_sorted {s s' : St} {e : Nat} {ce : Option Nat} {t : Nat} (h : processEcn s e ce t = .ok s')
    (hs : SortedAll s) : SortedAll s' := by
  unfold processEcn at h
  split at h
  · simp only at h
    split at h
    · exact sortedAll_same (onCongestionEvent_frame h).2 (setSp_same_sorted e _ rfl hs)
    · cases h; exact hs
  · cases h; exact hs

theorem ackPost_sorted {i : Inp} {e : Nat} {s s' : St} {l l' : List (Nat × List Nat)}
    (h : ackPost i e s l = .ok (s', l')) (hs : SortedAll s) : SortedAll s' := by
  unfold ackPost at h
  split at h
  · simp only [ebind_ok] at h
    obtain ⟨s1, h1, h2⟩ := h
    cases h2
    exact discardEpoch_sorted h1 hs
  · cases h; exact hs

theorem resetPto_sorted {s : St} (hs : SortedAll s) : SortedAll (resetPto s) := by
  unfold resetPto; split
  · exact hs
  · exact hs

theorem onAckRcvd_sorted {s s' : St} {i : Inp} {e : Nat} {a : Ack} {l : List (Nat × List Nat)}
    (h : onAckRcvd s i e a = .ok (s', l)) (hs : SortedAll s) : SortedAll s' := by
  unfold onAckRcvd at h
  simp only at h
  have k0 : SortedAll (updLargest s e a.largest) := by
    unfold updLargest; exact setSp_same_sorted _ _ rfl hs
  split at h
  · exact ackPost_sorted h k0
  · have k1 := spaceOnAck_sorted e a k0
    split at h
    · exact ackPost_sorted h k1
    · simp only [ebind_ok] at h
      obtain ⟨s1, h1, d, h2, s2, h3, h4⟩ := h
      obtain ⟨d1, d2⟩ := d
      exact ackPost_sorted h4 (setTimer_sorted h3 (resetPto_sorted (detectLost_sorted h2 (processEcn_sorted h1 k1))))

/-- the caller's obligation (C07): a packet number handed to `on_pkt_sent` exceeds every number still tracked in its space -/
def okSend (s : St) : Op → Prop
  | .sent e pn _ _ _ => ∀ q ∈ (getSp s e).sent, q.pn < pn
  | _ => True

theorem step_sorted {s s' : St} {i : Inp} {op : Op} {o : Out} (h : step s i op = .ok (s', o)) (hs : SortedAll s)
    (hok : okSend s op) : SortedAll s' := by
  cases op with
  | sent e pn elic infl size =>
    simp only [step, ebind_ok] at h
    obtain ⟨r, h1, h2⟩ := h; cases h2
    exact onPktSent_sorted h1 hs hok
  | ack e a =>
    simp only [step, ebind_ok] at h
    obtain ⟨r, h1, h2⟩ := h; cases h2
    obtain ⟨r1, r2⟩ := r
    exact onAckRcvd_sorted h1 hs
  | tick dt =>
    simp only [step, ebind_ok] at h
    obtain ⟨r, h1, h2⟩ := h; cases h2
    obtain ⟨r1, r2, r3⟩ := r
    unfold doTick at h1
    split at h1
    · split at h1
      · simp only [ebind_ok] at h1
        obtain ⟨q, g1, g2⟩ := h1
        cases g2
        obtain ⟨q1, q2⟩ := q
        exact onTimeout_sorted g1 (s := advance s dt) hs
      · cases h1; exact hs
    · cases h1; exact hs
  | rcvd =>
    simp only [step, ebind_ok] at h
    obtain ⟨r, h1, h2⟩ := h; cases h2
    obtain ⟨r1, r2⟩ := r
    unfold onDatagramRcvd at h1
    split at h1
    · simp only [ebind_ok] at h1
      obtain ⟨s1, g1, g2⟩ := h1
      have k1 := setTimer_sorted g1 hs
      split at g2
      · split at g2
        · exact onTimeout_sorted g2 k1
        · cases g2; exact k1
      · cases g2; exact k1
    · cases h1; exact hs
  | discard e =>
    simp only [step, ebind_ok] at h
    obtain ⟨r, h1, h2⟩ := h; cases h2
    exact discardEpoch_sorted h1 hs
  | hskey => simp only [step] at h; cases h; exact hs
  | hsack => simp only [step] at h; cases h; exact hs
  | confirmed => simp only [step] at h; cases h; exact hs
  | grant => simp only [step] at h; cases h; exact hs
  | limit => simp only [step] at h; cases h; exact hs

/-- every send of the history satisfies `okSend` in the state it meets -/
def MonoHist : St → List (Inp × Op) → Prop
  | _, [] => True
  | s, (i, op) :: rest => okSend s op ∧ ∀ s' o, step s i op = .ok (s', o) → MonoHist s' rest

theorem run_sorted {h : List (Inp × Op)} : ∀ {s s' : St}, run s h = .ok s' → SortedAll s → MonoHist s h →
    SortedAll s' := by
  induction h with
  | nil => intro s s' hr hs _; simp only [run] at hr; cases hr; exact hs
  | cons x rest ih =>
    intro s s' hr hs hm
    obtain ⟨i, op⟩ := x
    simp only [run, ebind_ok] at hr
    obtain ⟨r, h1, h2⟩ := hr
    obtain ⟨s1, o⟩ := r
    exact ih h2 (step_sorted h1 hs hm.1) (hm.2 s1 o h1)

theorem initSt_sorted {server : Bool} {mtu mad : Nat} {s : St} (h : initSt server mtu mad = .ok s) : SortedAll s := by
  unfold initSt at h
  split at h
  · cases h
  · split at h
    · cases h
    · cases h; exact ⟨List.Pairwise.nil, List.Pairwise.nil, List.Pairwise.nil⟩
